import CircusProofs.Core.ConvReap
import CircusProofs.Core.ConvSurplus
import CircusProofs.Core.ConvMulti
import CircusProofs.Core.ConvMultiReap
import CircusProofs.Core.ConvSurplusStub
import CircusProofs.Props.C01Conv
/-!
# C01 — convergence, generalised

Props/C01Conv.lean proves convergence for one watcher from an idle state with `m ≤ N` *running* workers in a
still kernel.  Here the same is proved from more general start states (Core/ConvReap.lean, Core/Conv.lean):

## A. deaths before the check ("whatever worker exits / external kills occurred")

Setting (`Idle u s`, `DatZ u N L s`): as in C01Conv, but the watcher's `processes` dict (`L`) lists, besides
running workers, workers that are **dead in the kernel** — zombies: exited by themselves or killed from outside,
not yet waited for, with any wait status.  The kernel is *still but for zombies* (`Kernel.StillZ`: nothing armed
or pending, nobody doomed, pids pairwise different and below the counter, every zombie a child of the daemon);
zombie children that no watcher lists are allowed too.

Who reaps: `Arbiter.manage_watchers` first runs `Arbiter.reap_processes` — the `waitpid(-1, WNOHANG)` loop —
which collects every zombie child (the simulated kernel hands them out least pid first) and calls
`Watcher.reap_process(pid, status)` for the listed ones: entry popped, `reap` event with the decoded status,
`Process.stop()` finds the process gone and signals nothing.  Only then `manage_processes` runs, finds every
listed worker running and spawns what is missing (C01Conv).

* `C01_arbiter_reaps_listed_dead` — the effect of `Arbiter.reap_processes`, exactly;
* `C01_check_reaps_dead_then_spawns` — the whole `check` step: the log grows by exactly the reap observations /
  events of the zombies followed by one spawn; the watcher lists the old running workers, in order, then the new pid;
  the check is parked on one timer;
* `C01_check_reaps_dead_none_missing` — the same when enough workers are left: the check completes at once;
* **`C01_converges_after_deaths`** — `check` + exactly `N - m` timer firings (`m` = listed workers that run) end idle
  with exactly `N` running workers: the `m` old ones, in their order, then `N - m` fresh pids;
* `C01_converged_after_deaths_stays` — further checks change neither the list nor the log;
* `C01_converges_keeps_workers` — the pid-tracked form of C01Conv's theorem (no deaths).

## B. surplus ("accepted decr / set numprocesses")

Setting (`Idle u s`, `SurplusOk u N w s`): the watcher lists `m > N` pairwise different pids, all running, each with
its `Process` object (no kill in flight, exit code not cached); `stop_children` off, no hooks, the stop signal a real
terminating signal other than SIGKILL, `graceful_timeout > 0`; the kernel is still and workers have no children of their
own (`Kernel.Base`); the workers to be removed exit at once on the stop signal (`Kernel.Obed`; the others may behave
as they like).  `manage_processes` sorts the `Process` objects by start time, newest first (stable), and calls
`kill_process` for all but the first `N` under one `gen.multi` (`surplus`).

* `C01_surplus_is_the_oldest` — which workers go: `m - N` of the listed ones, pairwise different, each started no later
  than any worker that stays;
* `C01_check_stops_surplus` — the whole `check` step: exactly these get the stop signal (one `kill` event each), die and
  are collected within the step (`obedLogs`); they leave the dict without a `reap` event (`manage_processes` pops them
  itself); the `N` newest stay listed in their order, running; nothing is in flight afterwards;
* `C01_surplus_converged_stays` — … and any number of further checks changes neither the list nor the log.
Surplus workers that *ignore* the stop signal (`SurplusStubOk`: they die at once on SIGKILL) make the check park on
100 ms timers — one `kill_process` coroutine each, polling with `poll()`, then SIGKILL after `⌈graceful/100 ms⌉` polls
(Core/ConvSurplusStub.lean: the polling phase of Core/StopRunG.lean below `manage_after_kill`, over a subset of the
watcher's workers):
* **`C01_surplus_stubborn_converges`** — `check` + exactly `(m − N)·⌈graceful_timeout/100 ms⌉` timer firings end idle: the
  `m − N` oldest workers killed and waited for, popped; the `N` newest listed in their order, running, untouched;
* `C01_surplus_stubborn_stays` — … and further checks change nothing.

## C. several watchers

Setting (`IdleK s`, `DatK s`): any number (≥ 1) of watcher objects with pairwise different identities, all registered
(`a.watchers` = their uids in list order); each one active, respawning, no hooks, no `max_age`, not on-demand,
`numprocesses ≥ 0`, `max_retry ≠ 0`, with its own `warmup_delay`, priority, name …; each lists at most `numprocesses`
pids, all running; still kernel; nothing in flight.  `manage_watchers` runs the `manage_processes` of all of them, in
`iter_watchers()` order (stable sort by priority, descending), under one `gen.multi`: every watcher that misses workers
spawns its first missing one and parks its own `spawn_processes` loop on its own timer; `wake` fires the earliest
timer (deadline, then id) — whichever watcher it belongs to; a loop that is done returns through `manage_processes` into
the `gen.multi`; the last result completes the `gen.multi`, `manage_watchers` and the future of the check.
The frames of the parked loops are described up to their order (`ParkedK`: a permutation of the canonical list), since
every firing moves the frame of the loop it resumes to the end.

* `C01_multi_check_parks` — the check with several watchers, some missing workers: one spawn per such watcher;
* `C01_multi_wake` — any firing while the check is parked: one firing less to go (`toGo` = workers missing + loops parked);
* **`C01_multi_converges`** — `check` + exactly `Σ_w (numprocesses_w − m_w)` firings end idle, every watcher with exactly its
  `numprocesses` running workers, the workers that were there kept in place (`Grow`); for one watcher this is
  `C01_converges_after_check` again;
* `C01_multi_converged_stays` — further checks change neither the watchers nor the log.

## A and C together: deaths before the check, several watchers

Setting (`IdleK s`, `DatKZ s`): as in C, but the watchers also list workers that are dead in the kernel (zombies, any
status), the kernel is still but for zombies, and no pid is listed twice (`PidsDisjoint`).
* `C01_multi_arbiter_reaps_dead` — `Arbiter.reap_processes`: the pid → watcher map, the `waitpid(-1)` loop over every
  zombie child (least pid first), `reap_process(pid, status)` of the watcher that lists it; exact log; afterwards every
  watcher lists exactly its workers that run (`aliveWs`);
* **`C01_multi_converges_after_deaths`** — `check` + exactly `Σ_w (numprocesses_w − running_w)` firings end idle with every
  watcher at its `numprocesses` running workers, the workers that ran before kept.
-/
namespace Circus.Core

/-- **`Arbiter.reap_processes` with dead workers listed**: in a kernel that is still but for zombies, with one
    registered watcher (active, no hooks) whose dict `L` lists running workers and zombies, the `waitpid(-1)`
    loop collects every zombie child of the daemon in ascending pid order; the log grows by exactly
    `arbReapObs`: per zombie the `waitpid` observation with its wait status and — for a listed one — the `reap`
    event with the decoded exit code; the dict afterwards is `L` without the dead, order kept; the kernel is
    still (no zombie left), pid counter and clock unchanged, every process that was not a zombie untouched, every
    zombie gone; nothing of the control state (frames, timers, futures, ready queue, slot) is touched. -/
theorem C01_arbiter_reaps_listed_dead (u N : Nat) (L : List Nat) (s : State) (hd : DatZ u N L s)
    (hwat : s.a.watchers = [u]) :
    ∃ K O w, s.ws = [w] ∧
      arbReapProcesses s = ((), { s with k := K, objs := O, ws := [{ w with pids := L.filter s.k.runs }],
                                         log := s.log ++ arbReapObs s.a w.name L s.k.statusOf s.k.zombies }) ∧
      K.Still ∧ K.nextPid = s.k.nextPid ∧ K.now = s.k.now ∧ (∀ q, q ∉ s.k.zombies → K.find q = s.k.find q) ∧
      (∀ z ∈ s.k.zombies, ∃ p, K.find z = some p ∧ p.st = .gone) :=
  arbReapProcesses_zombies u N L s hd hwat

/-- **the check reaps exactly the dead, then spawns the first missing worker**: from an idle state whose (only,
    active, respawning) watcher lists `L` — running workers and zombies — with fewer than `N` of them running,
    the `check` step ends parked in `spawn_processes` (`Parked`: four frames, one timer, the slot taken, the
    future of the check pending); the watcher then lists the workers that ran before, in their order, followed
    by the kernel's next pid, all running in a still kernel; and the log of the step is exactly: for every zombie
    child (ascending pid) its `waitpid` observation and, if listed, its `reap` event — then one `spawn`
    observation and its event.  No signal, no other event. -/
theorem C01_check_reaps_dead_then_spawns (u N : Nat) (L : List Nat) (s : State) (hi : Idle u s) (hd : DatZ u N L s)
    (hm : (L.filter s.k.runs).length < N) :
    Parked u s.nextId (s.nextId + 4) (N - (L.filter s.k.runs).length - 1) (step s .check) ∧
    DatL u N (L.filter s.k.runs ++ [s.k.nextPid]) (step s .check) ∧ s.k.nextPid < (step s .check).k.nextPid ∧
    ∃ w wid, s.ws = [w] ∧ (step s .check).log = s.log ++ arbReapObs s.a w.name L s.k.statusOf s.k.zombies ++
      (Obs.spawn s.k.nextPid w.name wid :: evs s.a w.name "spawn" (some s.k.nextPid) "-") :=
  check_reaps_parks u N L s hi hd hm

/-- **… and when exactly `N` listed workers run** the check reaps the dead and completes within the step:
    nothing in flight, the slot free, the `N` running workers listed, no spawn. -/
theorem C01_check_reaps_dead_none_missing (u N : Nat) (L : List Nat) (s : State) (hi : Idle u s) (hd : DatZ u N L s)
    (hm : (L.filter s.k.runs).length = N) :
    Idle u (step s .check) ∧ DatL u N (L.filter s.k.runs) (step s .check) ∧ (step s .check).k.nextPid = s.k.nextPid ∧
    ∃ w, s.ws = [w] ∧ (step s .check).log = s.log ++ arbReapObs s.a w.name L s.k.statusOf s.k.zombies :=
  check_reaps_idle u N L s hi hd hm

/-- **convergence after deaths**: from an idle state in which the (only) watcher is active with `numprocesses = N`
    and lists `L`, of which `m = |L.filter runs| ≤ N` run and the others are dead (zombies, any status), the
    periodic check followed by exactly `N - m` timer firings ends in an idle state — no frame, timer, future or
    ready callback, the slot free, the daemon not hung, the kernel still (no zombie) — in which the watcher is
    still active and lists exactly `N` pids, all running: the `m` workers that ran before, in their order,
    followed by `N - m` fresh pids (not below the pid counter of the start state).  No dead worker stays listed,
    no live one is lost. -/
theorem C01_converges_after_deaths (u N : Nat) (L : List Nat) (s : State) (hi : Idle u s) (hd : DatZ u N L s)
    (hm : (L.filter s.k.runs).length ≤ N) :
    let s' := run s (.check :: List.replicate (N - (L.filter s.k.runs).length) .wake)
    (∃ w news, s'.ws = [w] ∧ w.uid = u ∧ w.status = .active ∧ w.np = (N : Int) ∧
        w.pids = L.filter s.k.runs ++ news ∧ w.pids.length = N ∧ (∀ p ∈ news, s.k.nextPid ≤ p) ∧
        ∀ pid ∈ w.pids, ∃ p, s'.k.find pid = some p ∧ p.st = .run) ∧
    s'.frames = [] ∧ s'.sleepers = [] ∧ s'.tops = [] ∧ s'.ready = [] ∧ s'.a.slot = none ∧ s'.blocked = false ∧
    s'.k.Still := by
  intro s'
  obtain ⟨hi', news, ⟨w, h1, h2, h3, h4, h5, h6⟩, hn, hfresh⟩ := check_converges_deaths u N L s hi hd hm
  refine ⟨⟨w, news, h1, h2.uid, h2.status, h2.np, h3, ?_, hfresh, by rw [h3]; exact h6⟩,
    hi'.frames, hi'.sleepers, hi'.tops, hi'.ready, hi'.slot, h4, h5⟩
  rw [h3, List.length_append, hn]
  omega

/-- the same as an invariant pair, for chaining -/
theorem C01_converges_after_deaths_idle (u N : Nat) (L : List Nat) (s : State) (hi : Idle u s) (hd : DatZ u N L s)
    (hm : (L.filter s.k.runs).length ≤ N) :
    Idle u (run s (.check :: List.replicate (N - (L.filter s.k.runs).length) .wake)) ∧
    ∃ news, DatL u N (L.filter s.k.runs ++ news) (run s (.check :: List.replicate (N - (L.filter s.k.runs).length) .wake)) ∧
      news.length = N - (L.filter s.k.runs).length ∧ ∀ p ∈ news, s.k.nextPid ≤ p :=
  check_converges_deaths u N L s hi hd hm

/-- **converged stays converged, pid by pid**: in an idle state whose watcher lists exactly `N` running workers
    `l`, any number of further periodic checks leaves exactly the same list, nothing in flight, and writes
    nothing into the log — no spawn, no signal, no event. -/
theorem C01_converged_after_deaths_stays (u N n : Nat) (l : List Nat) (hN : l.length = N) (s : State) (hi : Idle u s)
    (hd : DatL u N l s) :
    Idle u (run s (List.replicate n .check)) ∧ DatL u N l (run s (List.replicate n .check)) ∧
    (run s (List.replicate n .check)).log = s.log :=
  checks_stayL u N l hN n s hi hd

/-- **convergence keeps the workers that run** (no deaths; the pid-tracked form of `C01_converges_after_check`):
    `check` + `N - |l|` timer firings end idle with the list `l ++ news`, `news` fresh. -/
theorem C01_converges_keeps_workers (u N : Nat) (l : List Nat) (s : State) (hi : Idle u s) (hd : DatL u N l s)
    (hm : l.length ≤ N) :
    Idle u (run s (.check :: List.replicate (N - l.length) .wake)) ∧
    ∃ news, DatL u N (l ++ news) (run s (.check :: List.replicate (N - l.length) .wake)) ∧
      news.length = N - l.length ∧ ∀ p ∈ news, s.k.nextPid ≤ p :=
  check_convergesL u N l s hi hd hm

/-! ### non-vacuity: three workers (each with a forked child), then worker 100 exits with code 1 and worker 104
    is killed from outside with SIGKILL -/

deriving instance DecidableEq for HookSpec
deriving instance DecidableEq for Watcher

def c01sD : State := run c01s0 [.check, .wake, .wake, .wake, .die 100 256, .xkill 104 9]

theorem c01sD_idle : Idle 1 c01sD :=
  ⟨by decide +kernel, by decide +kernel, by decide +kernel, by decide +kernel, by decide +kernel, by decide +kernel,
   by decide +kernel, by decide +kernel, by decide +kernel⟩

theorem c01sD_stillZ : c01sD.k.StillZ :=
  ⟨by decide +kernel, by decide +kernel, by decide +kernel, by decide +kernel, by decide +kernel, by decide +kernel,
   by decide +kernel⟩

theorem c01sD_datZ : DatZ 1 3 [100, 102, 104] c01sD := by
  refine ⟨{ name := "a", np := 3, status := .active, warmup := 700, uid := 1, pids := [100, 102, 104] }, by decide +kernel,
    ⟨rfl, rfl, rfl, rfl, rfl, rfl, rfl, by decide⟩, rfl, by decide +kernel, c01sD_stillZ, ?_⟩
  intro pid hp
  simp only [List.mem_cons, List.mem_nil_iff, or_false] at hp
  rcases hp with rfl | rfl | rfl
  · obtain ⟨p, hf, hs⟩ := Kernel.find_of_stOf (by decide +kernel : c01sD.k.stOf 100 = some .zombie)
    exact ⟨p, hf, Or.inr hs⟩
  · obtain ⟨p, hf, hs⟩ := Kernel.find_of_stOf (by decide +kernel : c01sD.k.stOf 102 = some .run)
    exact ⟨p, hf, Or.inl hs⟩
  · obtain ⟨p, hf, hs⟩ := Kernel.find_of_stOf (by decide +kernel : c01sD.k.stOf 104 = some .zombie)
    exact ⟨p, hf, Or.inr hs⟩

-- the hypotheses hold: one of the three listed workers runs, two are zombies (statuses 256 = exit 1, 9 = SIGKILL)
example : [100, 102, 104].filter c01sD.k.runs = [102] ∧ c01sD.k.zombies = [100, 104] ∧
    c01sD.k.statusOf 100 = 256 ∧ c01sD.k.statusOf 104 = 9 := by decide +kernel

example : ∃ w news, (run c01sD (.check :: List.replicate 2 .wake)).ws = [w] ∧ w.pids = [102] ++ news ∧ w.pids.length = 3 := by
  have h := C01_converges_after_deaths 1 3 [100, 102, 104] c01sD c01sD_idle c01sD_datZ (by decide +kernel)
  have e : [100, 102, 104].filter c01sD.k.runs = [102] := by decide +kernel
  rw [e] at h
  obtain ⟨⟨w, news, h1, _, _, _, h5, h6, _⟩, _⟩ := h
  exact ⟨w, news, h1, h5, h6⟩

-- the same run evaluated: both dead workers reaped and announced (exit code 1, signal -9), 102 kept, 106 and 108 new
example : (run c01sD [.check]).ws.map (·.pids) = [[102, 106]] ∧
    ((run c01sD [.check]).log.drop c01sD.log.length).map showObs =
      ["o reap 100 256", "o ev 97 reap 100 1", "o reap 104 9", "o ev 97 reap 104 -9", "o spawn 106 97 1",
       "o ev 97 spawn 106 -"] ∧
    (run c01sD [.check, .wake, .wake]).ws.map (fun w => (w.pids, w.status)) = [([102, 106, 108], .active)] ∧
    (run c01sD [.check, .wake, .wake]).frames.length = 0 ∧ (run c01sD [.check, .wake, .wake]).sleepers.length = 0 ∧
    (run c01sD [.check, .wake, .wake]).a.slot = none ∧
    (run c01sD [.check, .wake, .wake, .check, .check]).log.length = (run c01sD [.check, .wake, .wake]).log.length := by
  decide +kernel

/-! ## B. surplus -/

/-- **which workers a surplus check removes**: with `m` listed workers (each with its `Process` object, pids pairwise
    different) and `N ≤ m` wanted, `surplus` consists of listed workers, pairwise different, exactly `m - N` of them;
    exactly `N` stay; and every worker that stays was started no earlier than any worker that goes (**oldest first**) -/
theorem C01_surplus_is_the_oldest (objs : List PObj) (pids : List Nat) (N : Nat)
    (h : ∀ pid ∈ pids, ∃ o, objs.find? (fun x => decide (x.pid = pid)) = some o) (hnd : pids.Nodup) (hN : N ≤ pids.length) :
    (∀ p ∈ surplus objs pids N, p ∈ pids) ∧ (surplus objs pids N).Nodup ∧ (surplus objs pids N).length = pids.length - N ∧
    (pids.filter (fun p => decide (p ∉ surplus objs pids N))).length = N ∧
    ∀ kept ∈ pids, kept ∉ surplus objs pids N → ∀ gone ∈ surplus objs pids N,
      ∀ ok og, objs.find? (fun x => decide (x.pid = kept)) = some ok → objs.find? (fun x => decide (x.pid = gone)) = some og →
        og.started ≤ ok.started :=
  ⟨surplus_sub objs pids N h, surplus_nodup objs pids N h hnd, surplus_length objs pids N h,
   kept_length objs pids N h hnd hN, surplus_oldest objs pids N⟩

/-- **the check stops exactly the surplus, oldest first, and is done within the step**: from an idle state whose
    (only, active) watcher lists `m > N = numprocesses` running workers, the surplus ones obeying the stop signal,
    the `check` step ends idle — no frame, timer, future, ready callback, the slot free; the watcher lists exactly the
    workers outside `surplus`, in their old order, all running in a still kernel; the log of the step is exactly
    `obedLogs`: per surplus worker, in sort order, the stop signal, its `kill` event and the `waitpid` that collects
    it — no spawn, no SIGKILL, no `reap` event; every surplus worker is gone from the kernel; no pid was allocated. -/
theorem C01_check_stops_surplus (u N : Nat) (w : Watcher) (s : State) (hi : Idle u s) (hd : SurplusOk u N w s)
    (hgt : N < w.pids.length) :
    Idle u (step s .check) ∧
    DatL u N (w.pids.filter (fun p => decide (p ∉ surplus s.objs w.pids N))) (step s .check) ∧
    (w.pids.filter (fun p => decide (p ∉ surplus s.objs w.pids N))).length = N ∧
    (step s .check).log = obedLogs s.a w (surplus s.objs w.pids N) s.log ∧
    (∀ q ∈ surplus s.objs w.pids N, (step s .check).k.GoneP q) ∧
    (step s .check).k.nextPid = s.k.nextPid := by
  obtain ⟨h1, h2, h3, h4, h5, _⟩ := check_surplus_obed u N w s hi hd hgt
  have hobj : ∀ pid ∈ w.pids, ∃ o, s.objs.find? (fun x => decide (x.pid = pid)) = some o := fun pid hp => by
    obtain ⟨_, o, ho, _⟩ := hd.procs pid hp; exact ⟨o, ho⟩
  exact ⟨h1, h2, kept_length s.objs w.pids N hobj hd.nodup (by omega), h3, h4, h5⟩

/-- **… and stays there**: after the check any number of further checks leaves the same `N` workers listed and
    running, nothing in flight, and adds nothing to the log -/
theorem C01_surplus_converged_stays (u N n : Nat) (w : Watcher) (s : State) (hi : Idle u s) (hd : SurplusOk u N w s)
    (hgt : N < w.pids.length) :
    Idle u (run s (.check :: List.replicate n .check)) ∧
    DatL u N (w.pids.filter (fun p => decide (p ∉ surplus s.objs w.pids N))) (run s (.check :: List.replicate n .check)) ∧
    (run s (.check :: List.replicate n .check)).log = obedLogs s.a w (surplus s.objs w.pids N) s.log :=
  check_surplus_stays u N n w s hi hd hgt

/-- **convergence from a surplus of workers that ignore the stop signal**: from an idle state whose (only, active)
    watcher lists `m > N = numprocesses` running workers, the surplus ones (all but the `N` newest) ignoring the stop
    signal and dying at once on SIGKILL, the periodic check followed by exactly `(m − N)·⌈graceful_timeout/100 ms⌉` timer
    firings ends idle — no frame, timer, future, ready callback, the slot free — with the watcher listing exactly the
    workers outside `surplus`, in their old order, all running in a still kernel; every surplus worker is gone from the
    kernel (SIGKILL, waited for); no pid was allocated. -/
theorem C01_surplus_stubborn_converges (u N : Nat) (w : Watcher) (s : State) (hi : Idle u s) (hd : SurplusStubOk u N w s)
    (hgt : N < w.pids.length) :
    let T := surplus s.objs w.pids N
    let s' := run s (.check :: List.replicate (T.length * pollsOf w.graceful) .wake)
    Idle u s' ∧ DatL u N (w.pids.filter (fun p => decide (p ∉ T))) s' ∧
    (w.pids.filter (fun p => decide (p ∉ T))).length = N ∧ (∀ q ∈ T, s'.k.GoneP q) ∧ s'.k.nextPid = s.k.nextPid := by
  intro T s'
  obtain ⟨h1, h2, h3, h4⟩ := check_surplus_stub_converges u N w s hi hd hgt
  have hobj : ∀ pid ∈ w.pids, ∃ o, s.objs.find? (fun x => decide (x.pid = pid)) = some o := fun pid hp => by
    obtain ⟨_, o, ho, _⟩ := hd.procs pid hp; exact ⟨o, ho⟩
  exact ⟨h1, h2, kept_length s.objs w.pids N hobj hd.nodup (by omega), h3, h4⟩

/-- **… and stays there**: any number of further checks leaves the same `N` workers listed and running, nothing in
    flight, and adds nothing to the log -/
theorem C01_surplus_stubborn_stays (u N n : Nat) (w : Watcher) (s : State) (hi : Idle u s) (hd : SurplusStubOk u N w s)
    (hgt : N < w.pids.length) :
    let T := surplus s.objs w.pids N
    let s' := run s (.check :: List.replicate (T.length * pollsOf w.graceful) .wake)
    Idle u (run s' (List.replicate n .check)) ∧
    DatL u N (w.pids.filter (fun p => decide (p ∉ T))) (run s' (List.replicate n .check)) ∧
    (run s' (List.replicate n .check)).log = s'.log := by
  intro T s'
  obtain ⟨h1, h2, h3, _, _⟩ := C01_surplus_stubborn_converges u N w s hi hd hgt
  exact checks_stayL u N _ h3 n s' h1 h2

/-! ### non-vacuity: three workers started 700 ms apart, then numprocesses is 1 -/

def c01S0 : State := initState c01Cfg [{ spawnMs := 20 }] 0
def c01S1 : State := run c01S0 [.check, .wake, .wake, .wake]
def c01wS : Watcher := { name := "a", np := 1, status := .active, warmup := 700, uid := 1, pids := [100, 101, 102] }
/-- the converged state with the target lowered to 1 (as `set numprocesses` writes it) -/
def c01sS : State := { c01S1 with ws := [c01wS] }

theorem c01sS_idle : Idle 1 c01sS :=
  ⟨by decide +kernel, by decide +kernel, by decide +kernel, by decide +kernel, by decide +kernel, by decide +kernel,
   by decide +kernel, by decide +kernel, by decide +kernel⟩

theorem c01sS_ok : SurplusOk 1 1 c01wS c01sS where
  ws := rfl
  wok := ⟨rfl, rfl, rfl, rfl, rfl, rfl, rfl, by decide⟩
  tok := ⟨⟨rfl, rfl, rfl, by decide⟩, by decide, by decide⟩
  polls := by decide
  nodup := by decide
  blocked := by decide +kernel
  still := ⟨by decide +kernel, by decide +kernel, by decide +kernel, by decide +kernel, by decide +kernel, by decide +kernel⟩
  base := ⟨by decide +kernel, by decide +kernel, by decide +kernel, by decide +kernel, by decide +kernel, by decide +kernel⟩
  procs := by
    intro pid hp
    have : workerOkB c01sS pid = true := by
      simp only [c01wS, List.mem_cons, List.mem_nil_iff, or_false] at hp
      rcases hp with rfl | rfl | rfl <;> decide +kernel
    exact workerOkB_spec this
  obed := by
    intro pid hp
    have hs : surplus c01sS.objs c01wS.pids 1 = [101, 100] := by decide +kernel
    rw [hs] at hp
    have : c01sS.k.obedB pid = true := by
      simp only [List.mem_cons, List.mem_nil_iff, or_false] at hp
      rcases hp with rfl | rfl <;> decide +kernel
    exact Kernel.obedB_spec this

-- the lowered target is what the converged watcher differs in
example : c01S1.ws.map (fun w => (w.pids, w.np)) = [([100, 101, 102], 3)] ∧ c01sS.objs.map (fun o => (o.pid, o.started)) =
    [(100, 0), (101, 700), (102, 1400)] ∧ surplus c01sS.objs c01wS.pids 1 = [101, 100] := by decide +kernel

example : ∃ w', (step c01sS .check).ws = [w'] ∧ w'.pids = [102] := by
  obtain ⟨_, ⟨w', h1, _, h3, _⟩, _⟩ := C01_check_stops_surplus 1 1 c01wS c01sS c01sS_idle c01sS_ok (by decide)
  have hs : surplus c01sS.objs c01wS.pids 1 = [101, 100] := by decide +kernel
  rw [hs] at h3
  exact ⟨w', h1, h3⟩

-- the same step evaluated: 101 and 100 (the two oldest) signalled and collected, 102 stays; nothing in flight; the next check is silent
example : (run c01sS [.check]).ws.map (·.pids) = [[102]] ∧
    ((run c01sS [.check]).log.drop c01sS.log.length).map showObs =
      ["o sig 101 15 r", "o ev 97 kill 101 -", "o reap 101 15", "o sig 100 15 r", "o ev 97 kill 100 -", "o reap 100 15"] ∧
    (run c01sS [.check]).frames.length = 0 ∧ (run c01sS [.check]).sleepers.length = 0 ∧ (run c01sS [.check]).a.slot = none ∧
    (run c01sS [.check, .check]).log.length = (run c01sS [.check]).log.length := by
  decide +kernel

/-! the same with workers that ignore the stop signal (`term := none`), `graceful_timeout` 300 ms = 3 polls -/

def c01T0 : State := initState c01Cfg [{ spawnMs := 20, term := none }] 0
def c01T1 : State := run c01T0 [.check, .wake, .wake, .wake]
def c01sT : State := { c01T1 with ws := [c01wS] }

/-- `pid` runs, ignores the stop signal and dies at once on SIGKILL -/
def stubB (k : Kernel) (pid : Nat) : Bool :=
  match k.find pid with
  | some p => (p.st == .run) && (p.behav.term == none) && (p.behav.killLat == 0)
  | none => false

theorem stubB_spec {k : Kernel} {pid : Nat} (h : stubB k pid = true) : k.Stub pid := by
  unfold stubB at h
  cases hf : k.find pid with
  | none => rw [hf] at h; simp at h
  | some p =>
    rw [hf] at h
    simp only [Bool.and_eq_true, beq_iff_eq] at h
    exact ⟨p, hf, h.1.1, h.1.2, h.2⟩

theorem c01sT_idle : Idle 1 c01sT :=
  ⟨by decide +kernel, by decide +kernel, by decide +kernel, by decide +kernel, by decide +kernel, by decide +kernel,
   by decide +kernel, by decide +kernel, by decide +kernel⟩

theorem c01sT_ok : SurplusStubOk 1 1 c01wS c01sT where
  ws := rfl
  wok := ⟨rfl, rfl, rfl, rfl, rfl, rfl, rfl, by decide⟩
  sok := ⟨rfl, rfl, rfl, by decide⟩
  polls := by decide
  nodup := by decide
  blocked := by decide +kernel
  still := ⟨by decide +kernel, by decide +kernel, by decide +kernel, by decide +kernel, by decide +kernel, by decide +kernel⟩
  base := ⟨by decide +kernel, by decide +kernel, by decide +kernel, by decide +kernel, by decide +kernel, by decide +kernel⟩
  procs := by
    intro pid hp
    have : workerOkB c01sT pid = true := by
      simp only [c01wS, List.mem_cons, List.mem_nil_iff, or_false] at hp
      rcases hp with rfl | rfl | rfl <;> decide +kernel
    exact workerOkB_spec this
  stub := by
    intro pid hp
    have hs : surplus c01sT.objs c01wS.pids 1 = [101, 100] := by decide +kernel
    rw [hs] at hp
    have : stubB c01sT.k pid = true := by
      simp only [List.mem_cons, List.mem_nil_iff, or_false] at hp
      rcases hp with rfl | rfl <;> decide +kernel
    exact stubB_spec this

example : ∃ w', (run c01sT (.check :: List.replicate 6 .wake)).ws = [w'] ∧ w'.pids = [102] := by
  have h := C01_surplus_stubborn_converges 1 1 c01wS c01sT c01sT_idle c01sT_ok (by decide)
  have hs : surplus c01sT.objs c01wS.pids 1 = [101, 100] := by decide +kernel
  have hp : pollsOf c01wS.graceful = 3 := by decide
  simp only [hs, hp] at h
  obtain ⟨_, ⟨w', h1, _, h3, _⟩, _⟩ := h
  exact ⟨w', h1, h3⟩

-- the same run evaluated: the stop signals at the check; parked (two timers) for five firings; SIGKILL for both at the
-- third poll; idle after the sixth firing, 102 kept
example : ((run c01sT [.check]).log.drop c01sT.log.length).map showObs =
      ["o sig 101 15 r", "o ev 97 kill 101 -", "o sig 100 15 r", "o ev 97 kill 100 -"] ∧
    (run c01sT [.check]).sleepers.length = 2 ∧
    (run c01sT (.check :: List.replicate 5 .wake)).a.slot = some "manage_watchers" ∧
    ((run c01sT (.check :: List.replicate 6 .wake)).log.drop (run c01sT [.check]).log.length).map showObs =
      ["o sig 101 9 r", "o ev 97 kill 101 -", "o reap 101 9", "o sig 100 9 r", "o ev 97 kill 100 -", "o reap 100 9"] ∧
    (run c01sT (.check :: List.replicate 6 .wake)).ws.map (·.pids) = [[102]] ∧
    (run c01sT (.check :: List.replicate 6 .wake)).frames.length = 0 ∧
    (run c01sT (.check :: List.replicate 6 .wake)).a.slot = none := by decide +kernel

/-! ## C. several watchers -/

/-- **the check with several watchers spawns the first missing worker of each and parks**: from an idle state with
    registered active watchers (`DatK`), none above its `numprocesses` and at least one below, the `check` step reaps
    nothing, and every watcher that misses workers gets exactly one new worker and a parked `spawn_processes` loop with
    its own timer (`ParkedK`, `Acct`: the loop of a watcher remembers how many workers that watcher still misses; the
    watchers without a parked loop are complete); the slot stays taken; as many timer firings remain (`toGo`) as workers
    were missing before the check; no listed worker is lost (`Grow`). -/
theorem C01_multi_check_parks (s : State) (hi : IdleK s) (hd : DatK s) (hle : ∀ w ∈ s.ws, w.pids.length ≤ w.np.toNat)
    (hmiss : ∃ w ∈ s.ws, w.pids.length < w.np.toNat) :
    ∃ results P, ParkedK s.ws.length s.nextId results P (step s .check) ∧ DatK (step s .check) ∧
      Acct [] P (step s .check) ∧ P ≠ [] ∧ toGo P (step s .check) = (s.ws.map missing).sum ∧ Grow s.ws (step s .check).ws :=
  check_parks_K s hi hd hle hmiss

/-- **any timer firing while the check is parked, whichever watcher's timer is the earliest**: either that watcher
    gets one more worker and its loop parks again on a fresh timer, or — no worker of it missing any more — its loop and
    its `manage_processes` end and the result goes to the `gen.multi`; when that was the last parked loop the check
    completes and the state is idle.  In every case exactly one firing less remains, the data invariant holds and no
    listed worker is lost. -/
theorem C01_multi_wake (K i : Nat) (results : List (Nat × Val)) (P : List PK) (s : State)
    (hP : ParkedK K i results P s) (hd : DatK s) (hA : Acct [] P s) (hne : P ≠ []) :
    ∃ results' P', DatK (step s .wake) ∧ Acct [] P' (step s .wake) ∧ toGo P' (step s .wake) + 1 = toGo P s ∧
      Grow s.ws (step s .wake).ws ∧ (P' ≠ [] → ParkedK K i results' P' (step s .wake)) ∧ (P' = [] → IdleK (step s .wake)) :=
  wake_K K i results P s hP hd hA hne

/-- **convergence with several watchers**: from an idle state with any number (≥ 1) of registered active watchers,
    each listing at most `numprocesses` running workers, in a still kernel, the periodic check followed by exactly
    `R = Σ_w (numprocesses_w − m_w)` timer firings — in whatever order the timers of the different watchers come due —
    ends in an idle state (no frame, timer, future, ready callback; the slot free; the daemon not hung; the kernel
    still) in which every watcher is still active and lists exactly its `numprocesses` pids, all running; every watcher
    object is still there, in the same place, with the same options, and lists the pids it listed before followed by
    the new ones. -/
theorem C01_multi_converges (s : State) (hi : IdleK s) (hd : DatK s) (hle : ∀ w ∈ s.ws, w.pids.length ≤ w.np.toNat)
    (hne : s.ws ≠ []) :
    let s' := run s (.check :: List.replicate (s.ws.map missing).sum .wake)
    s'.frames = [] ∧ s'.sleepers = [] ∧ s'.tops = [] ∧ s'.ready = [] ∧ s'.a.slot = none ∧ s'.blocked = false ∧ s'.k.Still ∧
    (∀ w ∈ s'.ws, w.status = .active ∧ w.pids.length = w.np.toNat ∧ ∀ pid ∈ w.pids, ∃ p, s'.k.find pid = some p ∧ p.st = .run) ∧
    Grow s.ws s'.ws ∧ (∀ w ∈ s.ws, ∃ extra, ({ w with pids := w.pids ++ extra } : Watcher) ∈ s'.ws) := by
  intro s'
  obtain ⟨h1, ⟨hb, hk, _, hall⟩, h3, h4⟩ := check_converges_K s hi hd hle hne
  exact ⟨h1.frames, h1.sleepers, h1.tops, h1.ready, h1.slot, hb, hk,
    fun w hw => ⟨(hall w hw).1.status, h3 w hw, (hall w hw).2⟩, h4, h4.mem⟩

/-- the same as an invariant triple, for chaining -/
theorem C01_multi_converges_idle (s : State) (hi : IdleK s) (hd : DatK s) (hle : ∀ w ∈ s.ws, w.pids.length ≤ w.np.toNat)
    (hne : s.ws ≠ []) :
    IdleK (run s (.check :: List.replicate (s.ws.map missing).sum .wake)) ∧
    DatK (run s (.check :: List.replicate (s.ws.map missing).sum .wake)) ∧
    (∀ w ∈ (run s (.check :: List.replicate (s.ws.map missing).sum .wake)).ws, w.pids.length = w.np.toNat) ∧
    Grow s.ws (run s (.check :: List.replicate (s.ws.map missing).sum .wake)).ws :=
  check_converges_K s hi hd hle hne

/-- **converged stays converged, several watchers**: with every watcher at its `numprocesses` running workers, any
    number of further periodic checks leaves every watcher record exactly as it is, nothing in flight, and writes
    nothing into the log. -/
theorem C01_multi_converged_stays (n : Nat) (s : State) (hi : IdleK s) (hd : DatK s)
    (hfull : ∀ w ∈ s.ws, w.pids.length = w.np.toNat) (hne : s.ws ≠ []) :
    IdleK (run s (List.replicate n .check)) ∧ DatK (run s (List.replicate n .check)) ∧
    (run s (List.replicate n .check)).ws = s.ws ∧ (run s (List.replicate n .check)).log = s.log :=
  checks_stay_K n s hi hd hfull hne

/-! ### non-vacuity: four watchers — priorities 0 / 5 / 0 / 5, targets 2 / 1 / 0 / 3, different warm-up delays; two worker
    behaviours (one forks a child and takes 20 ms to spawn, one takes 5 ms) -/

def c01CfgM : List Watcher := [{ name := "a", np := 2, status := .active, warmup := 700 },
  { name := "b", np := 1, status := .active, warmup := 100, priority := 5 },
  { name := "c", np := 0, status := .active },
  { name := "d", np := 3, status := .active, warmup := 300, priority := 5 }]
def c01sM : State := initState c01CfgM [{ spawnMs := 20, kids := 1 }, { spawnMs := 5 }] 0

theorem c01sM_idle : IdleK c01sM := ⟨rfl, rfl, rfl, rfl, rfl, rfl, rfl, rfl, by decide +kernel⟩

theorem c01sM_still : c01sM.k.Still := by
  have hnil : c01sM.k.procs = [] := rfl
  refine ⟨rfl, rfl, ?_, ?_, ?_, ?_⟩
  · intro p hp; rw [hnil] at hp; cases hp
  rotate_left
  · intro p hp; rw [hnil] at hp; cases hp
  · intro p hp; rw [hnil] at hp; cases hp
  intro b hb
  have : c01sM.k.behavs = [{ spawnMs := 20, kids := 1 }, { spawnMs := 5 }] := rfl
  rw [this] at hb
  simp only [List.mem_cons, List.mem_nil_iff, or_false] at hb
  rcases hb with rfl | rfl <;> rfl

theorem c01sM_datK : DatK c01sM := by
  refine ⟨rfl, c01sM_still, by decide +kernel, ?_⟩
  intro w hw
  have hws : c01sM.ws = [{ name := "a", np := 2, status := .active, warmup := 700, uid := 1 },
    { name := "b", np := 1, status := .active, warmup := 100, priority := 5, uid := 2 },
    { name := "c", np := 0, status := .active, uid := 3 },
    { name := "d", np := 3, status := .active, warmup := 300, priority := 5, uid := 4 }] := rfl
  rw [hws] at hw
  simp only [List.mem_cons, List.mem_nil_iff, or_false] at hw
  rcases hw with rfl | rfl | rfl | rfl <;>
    exact ⟨⟨rfl, rfl, rfl, rfl, rfl, by decide, by decide⟩, fun pid hp => by cases hp⟩

theorem c01sM_le : ∀ w ∈ c01sM.ws, w.pids.length ≤ w.np.toNat := by decide +kernel

example : (c01sM.ws.map missing).sum = 6 := by decide +kernel

example : ∀ w ∈ (run c01sM (.check :: List.replicate 6 .wake)).ws, w.pids.length = w.np.toNat := by
  have h := C01_multi_converges c01sM c01sM_idle c01sM_datK c01sM_le (by decide +kernel)
  have e : (c01sM.ws.map missing).sum = 6 := by decide +kernel
  rw [e] at h
  exact fun w hw => ((h.2.2.2.2.2.2.2.1) w hw).2.1

-- the same run evaluated: the check spawns one worker for each of b, d, a (priority order: b and d before a; c is complete);
-- the six firings go to whichever loop is due; still parked after five, idle after six
example : (run c01sM [.check]).ws.map (·.pids) = [[103], [100], [], [102]] ∧
    (run c01sM [.check]).sleepers.length = 3 ∧
    (run c01sM (.check :: List.replicate 5 .wake)).a.slot = some "manage_watchers" ∧
    (run c01sM (.check :: List.replicate 5 .wake)).sleepers.length = 1 ∧
    (run c01sM (.check :: List.replicate 6 .wake)).ws.map (fun w => (w.pids, w.status)) =
      [([103, 108], .active), ([100], .active), ([], .active), ([102, 105, 106], .active)] ∧
    (run c01sM (.check :: List.replicate 6 .wake)).frames.length = 0 ∧
    (run c01sM (.check :: List.replicate 6 .wake)).sleepers.length = 0 ∧
    (run c01sM (.check :: List.replicate 6 .wake)).a.slot = none := by decide +kernel

/-! ## A and C together -/

/-- **`Arbiter.reap_processes` with several watchers listing dead workers**: in a kernel that is still but for
    zombies, with every watcher registered, active, without hooks, and no pid listed twice, the `waitpid(-1)` loop
    collects every zombie child of the daemon in ascending pid order; the log grows by exactly `arbReapObsK`: per
    zombie its `waitpid` observation and — when a watcher lists it — the `reap` event of that watcher with the decoded
    exit code; afterwards every watcher record is what it was with exactly the dead pids dropped (`aliveWs`); the
    kernel is still, pid counter and clock unchanged, every process that was not a zombie untouched, every zombie
    gone; nothing of the control state is touched. -/
theorem C01_multi_arbiter_reaps_dead (s : State) (hd : DatKZ s) (hwat : s.a.watchers = s.ws.map (·.uid)) :
    ∃ K O, arbReapProcesses s = ((), { s with k := K, objs := O, ws := aliveWs s,
                                              log := s.log ++ arbReapObsK s.a s.ws s.k.statusOf s.k.zombies }) ∧
      K.Still ∧ K.nextPid = s.k.nextPid ∧ K.now = s.k.now ∧ (∀ q, q ∉ s.k.zombies → K.find q = s.k.find q) ∧
      (∀ z ∈ s.k.zombies, ∃ p, K.find z = some p ∧ p.st = .gone) :=
  arbReapProcesses_zombies_K s hd hwat

/-- **convergence after deaths, several watchers**: from an idle state with any number (≥ 1) of registered active
    watchers that list running workers and dead ones (no pid twice), none with more running workers than its
    `numprocesses`, the periodic check followed by exactly `Σ_w (numprocesses_w − running_w)` timer firings ends idle —
    nothing in flight, the slot free, the kernel still (no zombie) — with every watcher active and listing exactly its
    `numprocesses` pids, all running: its workers that ran before, in their order, followed by fresh ones (`Grow` from
    `aliveWs`). -/
theorem C01_multi_converges_after_deaths (s : State) (hi : IdleK s) (hd : DatKZ s)
    (hle : ∀ w ∈ aliveWs s, w.pids.length ≤ w.np.toNat) (hne : s.ws ≠ []) :
    let s' := run s (.check :: List.replicate ((aliveWs s).map missing).sum .wake)
    s'.frames = [] ∧ s'.sleepers = [] ∧ s'.tops = [] ∧ s'.ready = [] ∧ s'.a.slot = none ∧ s'.blocked = false ∧ s'.k.Still ∧
    (∀ w ∈ s'.ws, w.status = .active ∧ w.pids.length = w.np.toNat ∧ ∀ pid ∈ w.pids, ∃ p, s'.k.find pid = some p ∧ p.st = .run) ∧
    Grow (aliveWs s) s'.ws := by
  intro s'
  obtain ⟨h1, ⟨hb, hk, _, hall⟩, h3, h4⟩ := check_converges_deaths_K s hi hd hle hne
  exact ⟨h1.frames, h1.sleepers, h1.tops, h1.ready, h1.slot, hb, hk,
    fun w hw => ⟨(hall w hw).1.status, h3 w hw, (hall w hw).2⟩, h4⟩

/-! ### non-vacuity: the four watchers above, converged; then one worker of `a` exits, the worker of `b` is killed from
    outside, one of `d` exits with code 1 -/

def c01sMD : State := run c01sM (.check :: List.replicate 6 .wake ++ [.die 103 0, .xkill 100 9, .die 105 256])

theorem c01sMD_idle : IdleK c01sMD :=
  ⟨by decide +kernel, by decide +kernel, by decide +kernel, by decide +kernel, by decide +kernel, by decide +kernel,
   by decide +kernel, by decide +kernel, by decide +kernel⟩

theorem c01sMD_datKZ : DatKZ c01sMD :=
  DatKZ.of_dec c01sMD (by decide +kernel)
    ⟨by decide +kernel, by decide +kernel, by decide +kernel, by decide +kernel, by decide +kernel, by decide +kernel,
     by decide +kernel⟩
    (by decide +kernel) (by decide +kernel) (by decide +kernel)

example : (aliveWs c01sMD).map (·.pids) = [[108], [], [], [102, 106]] ∧ ((aliveWs c01sMD).map missing).sum = 3 ∧
    c01sMD.k.zombies = [100, 103, 105] := by decide +kernel

example : ∀ w ∈ (run c01sMD (.check :: List.replicate 3 .wake)).ws, w.pids.length = w.np.toNat := by
  have h := C01_multi_converges_after_deaths c01sMD c01sMD_idle c01sMD_datKZ (by decide +kernel) (by decide +kernel)
  have e : ((aliveWs c01sMD).map missing).sum = 3 := by decide +kernel
  rw [e] at h
  exact fun w hw => ((h.2.2.2.2.2.2.2.1) w hw).2.1

-- the same run evaluated: three reaps (each announced by the watcher that listed the worker), three spawns, three firings
example : ((run c01sMD [.check]).log.drop c01sMD.log.length).map showObs =
      ["o reap 100 9", "o ev 98 reap 100 -9", "o reap 103 0", "o ev 97 reap 103 0", "o reap 105 256", "o ev 100 reap 105 1",
       "o spawn 109 98 1", "o ev 98 spawn 109 -", "o spawn 111 100 2", "o ev 100 spawn 111 -", "o spawn 112 97 1",
       "o ev 97 spawn 112 -"] ∧
    (run c01sMD (.check :: List.replicate 3 .wake)).ws.map (·.pids) = [[108, 112], [109], [], [102, 106, 111]] ∧
    (run c01sMD (.check :: List.replicate 3 .wake)).frames.length = 0 ∧
    (run c01sMD (.check :: List.replicate 2 .wake)).frames.length ≠ 0 := by decide +kernel

end Circus.Core
