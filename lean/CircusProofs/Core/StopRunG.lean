import CircusProofs.Core.StopRun
/-!
# The polling phase of `kill_processes` below an arbitrary stack of suspended coroutines

Core/StopRun.lean proves the completion of the `stop` command with the concrete frame stack of
`Watcher.stop()`.  Here the same polling phase (workers that ignore the stop signal) is proved for an arbitrary
stack `base` of suspended callers, so that `rm` (`Arbiter.rm_watcher → Watcher._stop`) and `quit`
(`Arbiter.stop → _stop_watchers → gen.multi → Watcher._stop`) can reuse it.
-/
namespace Circus.Core

/-! ## Part G1: lists of frames with an untouched prefix -/

theorem find_skip (base l : List Frame) (x : Nat) (h : ∀ g ∈ base, g.fid ≠ x) :
    List.find? (fun g => decide (g.fid = x)) (base ++ l) = List.find? (fun g => decide (g.fid = x)) l := by
  rw [List.find?_append, List.find?_eq_none.mpr (by simpa using h)]
  rfl

theorem filter_skip (base l : List Frame) (x : Nat) (h : ∀ g ∈ base, g.fid ≠ x) :
    List.filter (fun g => !decide (g.fid = x)) (base ++ l) = base ++ List.filter (fun g => !decide (g.fid = x)) l := by
  rw [List.filter_append, List.filter_eq_self.mpr (by simpa using h)]

theorem filter_skip2 (base l : List Frame) (x : Nat) (h : ∀ g ∈ base, g.fid ≠ x) :
    List.filter (fun g => decide (g.fid ≠ x)) (base ++ l) = base ++ List.filter (fun g => decide (g.fid ≠ x)) l := by
  rw [List.filter_append, List.filter_eq_self.mpr (by simpa using h)]

theorem map_skip (base l : List Frame) (x : Nat) (f : Frame → Frame) (h : ∀ g ∈ base, g.fid ≠ x) :
    List.map (fun g => if g.fid = x then f g else g) (base ++ l) = base ++ List.map (fun g => if g.fid = x then f g else g) l := by
  rw [List.map_append]
  congr 1
  conv => rhs; rw [← List.map_id base]
  apply List.map_congr_left
  intro g hg
  simp [h g hg]

/-! ## Part G2: the polling phase -/

/-- the state while the workers are being killed: the suspended callers `base`, the frame `fo` of
    `kill_processes` (its result goes to `par`), the `gen.multi` frame `fm`, the parked `kill_process` coroutines -/
def killingG (u m sig polls : Nat) (base : List Frame) (fo fm : Nat) (par : Waiter) (tops : List TopFut)
    (results : List (Nat × Val)) (Q : List QE)
    (k : Kernel) (a : Arbiter) (objs : List PObj) (w : Watcher) (dv : List (Nat × Val)) (nid : Nat) (log : List Obs) : State :=
  ⟨k, a, objs, [w],
    base ++ ({ fid := fo, k := .ignore, parent := par, armed := true } ::
      { fid := fm, k := .multi m results, parent := .frame fo 0, armed := true } :: Q.map (qFrame u sig polls fm)),
    Q.map qSleeper, tops, [], dv, nid, log, false⟩

/-- the callers' frames have smaller ids than the two frames of `kill_processes` -/
structure GB (base : List Frame) (fo fm : Nat) : Prop where
  lt : ∀ g ∈ base, g.fid < fo
  fofm : fo < fm

theorem wake_opG (u m sig polls : Nat) (base : List Frame) (fo fm : Nat) (par : Waiter) (tops : List TopFut)
    (results : List (Nat × Val)) (h : QE) (tl : List QE)
    (k : Kernel) (a : Arbiter) (objs : List PObj) (w : Watcher) (dv : List (Nat × Val)) (nid : Nat) (log : List Obs)
    (hg : GB base fo fm) (hk : k.Base) (hsorted : QSorted (h :: tl)) (hids : fm < h.fid) :
    (stepOp .wake (updK Kernel.beginStep (killingG u m sig polls base fo fm par tops results (h :: tl) k a objs w dv nid log)).2).2 =
      ⟨({ k.beginStep with now := max k.now h.dl } : Kernel), a, objs, [w],
        base ++ ({ fid := fo, k := .ignore, parent := par, armed := true } ::
          { fid := fm, k := .multi m results, parent := .frame fo 0, armed := true } :: tl.map (qFrame u sig polls fm)),
        tl.map qSleeper, tops,
        [.resume (.killWait u h.pid sig h.i polls) .unit (.frame fm h.idx)], dv, nid, log, false⟩ := by
  have htl : ∀ e ∈ tl, e.fid ≠ h.fid := fun e he => by have := (hsorted.1 e he).2; omega
  have hb : ∀ g ∈ base, g.fid ≠ h.fid := fun g hgm => by have := hg.lt g hgm; have := hg.fofm; omega
  have h1 : ¬ fo = h.fid := by have := hg.fofm; omega
  have h2 : ¬ fm = h.fid := by omega
  simp only [killingG, stepOp, bind, getS, updK, runK, earliest_head h tl hsorted, fireSleeper, modS]
  simp [qSleeper, qFrame, deliver, bind, getS, removeFrame, enqueue, modS, h1, h2, find_skip base _ h.fid hb,
    filter_skip base _ h.fid hb,
    filter_qFrames u sig polls fm h.fid tl htl, filter_qSleepers h.fid tl htl, hk.beginStep.setNow]
  exact ⟨rfl, htl⟩

/-- **a poll timer fires, graceful timeout not over**: the worker is still alive, its coroutine parks again
    with a fresh frame and timer, behind the others -/
theorem wake_reparkG (u m sig polls : Nat) (base : List Frame) (fo fm : Nat) (par : Waiter) (tops : List TopFut)
    (results : List (Nat × Val)) (h : QE) (tl : List QE)
    (k : Kernel) (a : Arbiter) (objs : List PObj) (w : Watcher) (dv : List (Nat × Val)) (nid : Nat) (log : List Obs)
    (hg : GB base fo fm) (hk : k.Base) (p : KProc) (hf : k.find h.pid = some p) (hr : p.st = .run)
    (o : PObj) (ho : objs.find? (fun o => decide (o.pid = h.pid)) = some o) (hrc : o.rc = none)
    (hi : h.i < polls) (hsorted : QSorted (h :: tl)) (hids : fm < h.fid) (hnid : ∀ e ∈ h :: tl, e.fid < nid)
    (hls : a.loopStop = false) :
    step (killingG u m sig polls base fo fm par tops results (h :: tl) k a objs w dv nid log) .wake =
      killingG u m sig polls base fo fm par tops results
        (tl ++ [{ h with i := h.i + 1, fid := nid, dl := max k.now h.dl + 100 }])
        (({ k.beginStep with now := max k.now h.dl } : Kernel).bump 1) a objs w dv (nid + 2) log := by
  have hkb : (({ k.beginStep with now := max k.now h.dl } : Kernel)).Base := hk.beginStep.setNow_base _
  unfold step
  rw [show stepM .wake (killingG u m sig polls base fo fm par tops results (h :: tl) k a objs w dv nid log) =
      stepTail (stepOp .wake (updK Kernel.beginStep (killingG u m sig polls base fo fm par tops results (h :: tl) k a objs w dv nid log)).2).2
    from stepM_eq _ _ rfl]
  rw [wake_opG u m sig polls base fo fm par tops results h tl k a objs w dv nid log hg hk hsorted hids]
  have hfresh : ∀ g ∈ base ++ ({ fid := fo, k := .ignore, parent := par, armed := true } ::
          { fid := fm, k := .multi m results, parent := .frame fo 0, armed := true } :: tl.map (qFrame u sig polls fm)), g.fid ≠ nid := by
    intro g hgm
    have hn := hnid h (by simp)
    have := hg.fofm
    rcases List.mem_append.mp hgm with hgm | hgm
    · have := hg.lt g hgm; omega
    · simp only [List.mem_cons] at hgm
      rcases hgm with rfl | rfl | hgm
      · simp; omega
      · simp; omega
      · obtain ⟨e, he, rfl⟩ := List.mem_map.mp hgm
        have := hnid e (by simp [he])
        simp [qFrame]; omega
  have e1 : (100000 : Nat) = 99999 + 1 := rfl
  have e2 : (99999 : Nat) = 99998 + 1 := rfl
  have hset : settle 100000 ⟨({ k.beginStep with now := max k.now h.dl } : Kernel), a, objs, [w],
        base ++ ({ fid := fo, k := .ignore, parent := par, armed := true } ::
          { fid := fm, k := .multi m results, parent := .frame fo 0, armed := true } :: tl.map (qFrame u sig polls fm)),
        tl.map qSleeper, tops,
        [.resume (.killWait u h.pid sig h.i polls) .unit (.frame fm h.idx)], dv, nid, log, false⟩ =
      ((), killingG u m sig polls base fo fm par tops results
        (tl ++ [{ h with i := h.i + 1, fid := nid, dl := max k.now h.dl + 100 }])
        (({ k.beginStep with now := max k.now h.dl } : Kernel).bump 1) a objs w dv (nid + 2) log) := by
    rw [e1, settle_cons_mk]
    simp only [runReady1]
    rw [exec_resume_mk]
    simp only [runResume]
    rw [killLoop_repark (exec 99999) u h.pid h.idx fm sig h.i polls w o p _ a objs _ _ _ [] dv nid log hkb hf hr ho hrc hi hfresh]
    rw [e2]
    rw [settle_nil 99998 _ rfl]
    simp [killingG, qFrame, qSleeper, List.map_append]
  rw [stepTail_eq _ (by rw [hset]; exact hls), hset]

/-- **a poll timer fires, graceful timeout over, other workers still pending** -/
theorem wake_kill_moreG (u m polls : Nat) (base : List Frame) (fo fm : Nat) (par : Waiter) (tops : List TopFut)
    (results : List (Nat × Val)) (h : QE) (tl : List QE)
    (k : Kernel) (a : Arbiter) (objs : List PObj) (w : Watcher) (dv : List (Nat × Val)) (nid : Nat) (log : List Obs)
    (hg : GB base fo fm) (hw : SOk u w) (hk : k.Base) (hs : k.Stub h.pid) (hp : h.pid ∈ w.pids)
    (o : PObj) (ho : objs.find? (fun o => decide (o.pid = h.pid)) = some o) (hrc : o.rc = none)
    (hi : ¬ h.i < polls) (hsorted : QSorted (h :: tl)) (hids : fm < h.fid)
    (hmore : ¬ (results ++ [(h.idx, Val.bool true)]).length ≥ m) (hls : a.loopStop = false) :
    step (killingG u m w.stopSignal polls base fo fm par tops results (h :: tl) k a objs w dv nid log) .wake =
      killingG u m w.stopSignal polls base fo fm par tops (results ++ [(h.idx, Val.bool true)]) tl
        (({ k.beginStep with now := max k.now h.dl } : Kernel).escalated h.pid) a
        (objs.map (fun o => if o.pid = h.pid then { o with stopping := false, rc := some (-9) } else o)) w dv nid
        (evlog a (log ++ [Obs.sig h.pid 9 .run ""]) w "kill" (some h.pid) "-" ++ [Obs.reap h.pid 9]) := by
  have hkb : (({ k.beginStep with now := max k.now h.dl } : Kernel)).Base := hk.beginStep.setNow_base _
  have hsb : (({ k.beginStep with now := max k.now h.dl } : Kernel)).Stub h.pid := hs
  have htl4 : ∀ e ∈ tl, e.fid ≠ fm := fun e he => by have := (hsorted.1 e he).2; omega
  have hbm : ∀ g ∈ base, g.fid ≠ fm := fun g hgm => by have := hg.lt g hgm; have := hg.fofm; omega
  have hfofm : ¬ fo = fm := by have := hg.fofm; omega
  unfold step
  rw [show stepM .wake (killingG u m w.stopSignal polls base fo fm par tops results (h :: tl) k a objs w dv nid log) =
      stepTail (stepOp .wake (updK Kernel.beginStep (killingG u m w.stopSignal polls base fo fm par tops results (h :: tl) k a objs w dv nid log)).2).2
    from stepM_eq _ _ rfl]
  rw [wake_opG u m w.stopSignal polls base fo fm par tops results h tl k a objs w dv nid log hg hk hsorted hids]
  have e1 : (100000 : Nat) = 99999 + 1 := rfl
  have e2 : (99999 : Nat) = 99998 + 1 := rfl
  have e3 : (99998 : Nat) = 99997 + 1 := rfl
  have hset : settle 100000 ⟨({ k.beginStep with now := max k.now h.dl } : Kernel), a, objs, [w],
        base ++ ({ fid := fo, k := .ignore, parent := par, armed := true } ::
          { fid := fm, k := .multi m results, parent := .frame fo 0, armed := true } :: tl.map (qFrame u w.stopSignal polls fm)),
        tl.map qSleeper, tops,
        [.resume (.killWait u h.pid w.stopSignal h.i polls) .unit (.frame fm h.idx)], dv, nid, log, false⟩ =
      ((), killingG u m w.stopSignal polls base fo fm par tops (results ++ [(h.idx, Val.bool true)]) tl
        (({ k.beginStep with now := max k.now h.dl } : Kernel).escalated h.pid) a
        (objs.map (fun o => if o.pid = h.pid then { o with stopping := false, rc := some (-9) } else o)) w dv nid
        (evlog a (log ++ [Obs.sig h.pid 9 .run ""]) w "kill" (some h.pid) "-" ++ [Obs.reap h.pid 9])) := by
    rw [e1, settle_cons_mk]
    simp only [runReady1]
    rw [exec_resume_mk]
    simp only [runResume, killLoop_escalate _ _ _ _ _ _ _ hi]
    rw [killFinish_kill (exec 99999) u h.pid (.frame fm h.idx) w o _ a objs _ _ _ [] dv nid log hw hkb hsb hp ho hrc]
    simp [deliver, bind, getS, enqueue, modS, find_skip base _ fm hbm, hfofm]
    rw [e2, settle_cons_mk]
    simp only [runReady1]
    rw [exec_resume_mk]
    have hmore' : ¬ m ≤ results.length + 1 := by simpa using hmore
    simp [runResume, multiCollect, bind, getS, hmore', setFrameK, modS, find_skip base _ fm hbm, hfofm,
      map_skip base _ fm _ hbm, map_setK_qFrames u w.stopSignal polls fm _ tl htl4]
    rw [e3, settle_nil 99997 _ rfl]
    simp [killingG]
  rw [stepTail_eq _ (by rw [hset]; exact hls), hset]

/-- the rest of a step from a state in the middle of the event loop's run: `n` more rounds of the ready queue,
    then the stopped-loop check of `Arbiter.start` -/
def finishStep (n : Nat) : M Unit := do
  settle n
  let a ← getA
  if a.loopStop then
    setLoopStop false
    stopController

theorem stepTail_finish : stepTail = finishStep 100000 := rfl

/-- **the last poll timer fires, graceful timeout over**: SIGKILL for the last worker; the `gen.multi` is
    complete and `kill_processes` returns: its caller is resumed through the ready queue.  The rest of the step
    depends on the callers `base`. -/
theorem wake_kill_lastG (u m polls : Nat) (base : List Frame) (fo fm : Nat) (par : Waiter) (tops : List TopFut)
    (results : List (Nat × Val)) (h : QE)
    (k : Kernel) (a : Arbiter) (objs : List PObj) (w : Watcher) (dv : List (Nat × Val)) (nid : Nat) (log : List Obs)
    (hg : GB base fo fm) (hw : SOk u w) (hk : k.Base) (hs : k.Stub h.pid) (hp : h.pid ∈ w.pids)
    (o : PObj) (ho : objs.find? (fun o => decide (o.pid = h.pid)) = some o) (hrc : o.rc = none)
    (hi : ¬ h.i < polls) (hids : fm < h.fid)
    (hres : ∀ r ∈ results, r.2 = Val.bool true)
    (hlast : (results ++ [(h.idx, Val.bool true)]).length ≥ m) :
    ∃ vs, step (killingG u m w.stopSignal polls base fo fm par tops results [h] k a objs w dv nid log) .wake =
      (finishStep 99998 ⟨({ k.beginStep with now := max k.now h.dl } : Kernel).escalated h.pid, a,
        objs.map (fun o => if o.pid = h.pid then { o with stopping := false, rc := some (-9) } else o), [w],
        base, [], tops, [.resume .ignore (.list vs) par], dv, nid,
        evlog a (log ++ [Obs.sig h.pid 9 .run ""]) w "kill" (some h.pid) "-" ++ [Obs.reap h.pid 9], false⟩).2 := by
  have hkb : (({ k.beginStep with now := max k.now h.dl } : Kernel)).Base := hk.beginStep.setNow_base _
  have hsb : (({ k.beginStep with now := max k.now h.dl } : Kernel)).Stub h.pid := hs
  have hbm : ∀ g ∈ base, g.fid ≠ fm := fun g hgm => by have := hg.lt g hgm; have := hg.fofm; omega
  have hbo : ∀ g ∈ base, g.fid ≠ fo := fun g hgm => by have := hg.lt g hgm; omega
  have hfofm : ¬ fo = fm := by have := hg.fofm; omega
  have hfmfo : ¬ fm = fo := by have := hg.fofm; omega
  obtain ⟨vs, hvs⟩ := multiResult_bools m (results ++ [(h.idx, Val.bool true)]) (by
    intro r hr
    rcases List.mem_append.mp hr with hr | hr
    · exact hres r hr
    · simp at hr; subst hr; rfl)
  refine ⟨vs, ?_⟩
  unfold step
  rw [show stepM .wake (killingG u m w.stopSignal polls base fo fm par tops results [h] k a objs w dv nid log) =
      stepTail (stepOp .wake (updK Kernel.beginStep (killingG u m w.stopSignal polls base fo fm par tops results [h] k a objs w dv nid log)).2).2
    from stepM_eq _ _ rfl]
  rw [wake_opG u m w.stopSignal polls base fo fm par tops results h [] k a objs w dv nid log hg hk
    ⟨fun _ he => (by cases he), trivial⟩ hids]
  have e1 : (100000 : Nat) = 99999 + 1 := rfl
  have e2 : (99999 : Nat) = 99998 + 1 := rfl
  have hlast' : m ≤ results.length + 1 := by simpa using hlast
  simp only [List.map_nil]
  rw [stepTail_finish]
  unfold finishStep
  simp only [bind]
  have hset : settle 100000 ⟨({ k.beginStep with now := max k.now h.dl } : Kernel), a, objs, [w],
        base ++ [{ fid := fo, k := .ignore, parent := par, armed := true },
          { fid := fm, k := .multi m results, parent := .frame fo 0, armed := true }], [], tops,
        [.resume (.killWait u h.pid w.stopSignal h.i polls) .unit (.frame fm h.idx)], dv, nid, log, false⟩ =
      settle 99998 ⟨({ k.beginStep with now := max k.now h.dl } : Kernel).escalated h.pid, a,
        objs.map (fun o => if o.pid = h.pid then { o with stopping := false, rc := some (-9) } else o), [w],
        base, [], tops, [.resume .ignore (.list vs) par], dv, nid,
        evlog a (log ++ [Obs.sig h.pid 9 .run ""]) w "kill" (some h.pid) "-" ++ [Obs.reap h.pid 9], false⟩ := by
    rw [e1, settle_cons_mk]
    simp only [runReady1]
    rw [exec_resume_mk]
    simp only [runResume, killLoop_escalate _ _ _ _ _ _ _ hi]
    rw [killFinish_kill (exec 99999) u h.pid (.frame fm h.idx) w o _ a objs _ _ _ [] dv nid log hw hkb hsb hp ho hrc]
    simp [deliver, bind, getS, enqueue, modS, find_skip base _ fm hbm, hfofm]
    rw [e2, settle_cons_mk]
    simp only [runReady1]
    rw [exec_resume_mk]
    simp [runResume, multiCollect, bind, getS, hlast', removeFrame, modS, find_skip base _ fm hbm, hfofm,
      filter_skip base _ fm hbm]
    rw [hvs, e2, exec_resume_mk]
    simp [runResume, deliver, bind, getS, removeFrame, enqueue, modS, find_skip base _ fo hbo, filter_skip base _ fo hbo,
      hfmfo]
  rw [hset]

/-! ## Part G3: the induction over the timer firings -/

/-- the polling phase below the callers `base`, `n` timer firings to go -/
def MidG (NZ : Prop) (u polls : Nat) (base : List Frame) (fo fm : Nat) (par : Waiter) (tops : List TopFut)
    (w : Watcher) (a : Arbiter) (dv : List (Nat × Val)) (kc rc n : Nat) (s : State) : Prop :=
  ∃ results Q k objs nid log,
    s = killingG u w.pids.length w.stopSignal polls base fo fm par tops results Q k a objs w dv nid log ∧
    KI NZ (fm - 4) polls w kc rc results Q k objs nid log ∧ qMeasure polls Q = n

theorem MidG.reps {NZ : Prop} {u polls : Nat} {base : List Frame} {fo fm : Nat} {par : Waiter} {tops : List TopFut}
    {w : Watcher} {a : Arbiter} {dv : List (Nat × Val)} {kc rc n : Nat} {s : State}
    (h : MidG NZ u polls base fo fm par tops w a dv kc rc n s) : repC s.log = rc := by
  obtain ⟨results, Q, k, objs, nid, log, rfl, I, _⟩ := h
  exact I.reps

/-- a timer firing that is not the last one -/
theorem mid_stepG (NZ : Prop) (u polls : Nat) (base : List Frame) (fo fm : Nat) (par : Waiter) (tops : List TopFut)
    (w : Watcher) (a : Arbiter) (dv : List (Nat × Val)) (kc rc n : Nat) (s : State)
    (hg : GB base fo fm) (h4 : 4 ≤ fm) (hw : SOk u w) (hls : a.loopStop = false)
    (hm : MidG NZ u polls base fo fm par tops w a dv kc rc (n + 2) s) :
    MidG NZ u polls base fo fm par tops w a dv kc rc (n + 1) (step s .wake) := by
  obtain ⟨results, Q, k, objs, nid, log, rfl, I, hq⟩ := hm
  cases Q with
  | nil => simp [qMeasure] at hq
  | cons h tl =>
    obtain ⟨hp, hs, o, ho, hrc⟩ := I.live h (by simp)
    have hid : fm < h.fid := by have := (I.ids h (by simp)).1; omega
    by_cases hi : h.i < polls
    · obtain ⟨p, hf, hr, _⟩ := hs
      refine ⟨results, _, _, objs, nid + 2, log,
        wake_reparkG u w.pids.length w.stopSignal polls base fo fm par tops results h tl k a objs w dv nid log hg I.base p hf hr
          o ho hrc hi I.sorted hid (fun e he => (I.ids e he).2) hls, (I.repark hi).1, ?_⟩
      have := (I.repark hi).2; omega
    · have hq' : qMeasure polls tl = n + 1 := by
        have hub := I.iub h (by simp)
        simp only [qMeasure, List.map_cons, List.sum_cons] at hq ⊢; omega
      have htl : tl ≠ [] := by rintro rfl; simp [qMeasure] at hq'
      have hlen : 0 < tl.length := List.length_pos_iff.mpr htl
      refine ⟨_, tl, _, _, nid, _,
        wake_kill_moreG u w.pids.length polls base fo fm par tops results h tl k a objs w dv nid log hg hw I.base hs hp o ho hrc hi
          I.sorted hid ?_ hls, I.kill a, hq'⟩
      have := I.count
      simp only [List.length_cons, List.length_append, List.length_nil] at this ⊢; omega

/-- the state in which the last `kill_process` has returned and the caller of `kill_processes` is about to be
    resumed with the rest of the step still to run; every worker of `w` is gone, with exit code -9 cached -/
def AfterKills (NZ : Prop) (base : List Frame) (par : Waiter) (tops : List TopFut) (w : Watcher) (a : Arbiter)
    (dv : List (Nat × Val)) (kc rc : Nat) (s : State) : Prop :=
  ∃ vs k objs nid log,
    s = (finishStep 99998 ⟨k, a, objs, [w], base, [], tops, [.resume .ignore (.list vs) par], dv, nid, log, false⟩).2 ∧
    k.Base ∧
    (∀ q ∈ w.pids, k.GoneP q ∧ ∃ o, objs.find? (fun o => decide (o.pid = q)) = some o ∧ o.rc = some (-9)) ∧
    killCount log = kc ∧ repC log = rc ∧ (NZ → ∀ p ∈ k.procs, p.st ≠ .zombie)

/-- the last timer firing -/
theorem mid_lastG (NZ : Prop) (u polls : Nat) (base : List Frame) (fo fm : Nat) (par : Waiter) (tops : List TopFut)
    (w : Watcher) (a : Arbiter) (dv : List (Nat × Val)) (kc rc : Nat) (s : State)
    (hg : GB base fo fm) (h4 : 4 ≤ fm) (hw : SOk u w)
    (hm : MidG NZ u polls base fo fm par tops w a dv kc rc 1 s) :
    AfterKills NZ base par tops w a dv (kc + w.pids.length) rc (step s .wake) := by
  obtain ⟨results, Q, k, objs, nid, log, rfl, I, hq⟩ := hm
  cases Q with
  | nil => simp [qMeasure] at hq
  | cons h tl =>
    obtain ⟨hp, hs, o, ho, hrc⟩ := I.live h (by simp)
    have hid : fm < h.fid := by have := (I.ids h (by simp)).1; omega
    have hub := I.iub h (by simp)
    have htl : tl = [] := by
      by_contra hc
      have := qMeasure_pos polls tl hc
      simp only [qMeasure, List.map_cons, List.sum_cons] at hq this; omega
    subst htl
    have hi : ¬ h.i < polls := by
      simp only [qMeasure, List.map_cons, List.map_nil, List.sum_cons, List.sum_nil] at hq; omega
    have hcount := I.count
    simp only [List.length_cons, List.length_nil] at hcount
    have hkb : (({ k.beginStep with now := max k.now h.dl } : Kernel)).Base := I.base.beginStep.setNow_base _
    have hsb : (({ k.beginStep with now := max k.now h.dl } : Kernel)).Stub h.pid := hs
    obtain ⟨vs, hstep⟩ := wake_kill_lastG u w.pids.length polls base fo fm par tops results h k a objs w dv nid log hg hw I.base hs hp
      o ho hrc hi hid I.res (by simp only [List.length_append, List.length_cons, List.length_nil]; omega)
    refine ⟨vs, _, _, nid, _, hstep, Kernel.escalated_base hkb hsb, fun q hq => I.after_kill.2 q hq (by simp), ?_, ?_,
      fun hnz => Kernel.escalated_nozombie hkb hsb (I.nz hnz)⟩
    · rw [killCount_killLog, I.kills]; omega
    · rw [repC_killLog, I.reps]

/-- all the timer firings of the polling phase -/
theorem mid_runG (NZ : Prop) (u polls : Nat) (base : List Frame) (fo fm : Nat) (par : Waiter) (tops : List TopFut)
    (w : Watcher) (a : Arbiter) (dv : List (Nat × Val)) (kc rc : Nat)
    (hg : GB base fo fm) (h4 : 4 ≤ fm) (hw : SOk u w) (hls : a.loopStop = false) : ∀ (n : Nat) (s : State),
    MidG NZ u polls base fo fm par tops w a dv kc rc (n + 1) s →
    (∀ j ≤ n, MidG NZ u polls base fo fm par tops w a dv kc rc (n + 1 - j) (run s (List.replicate j .wake))) ∧
    AfterKills NZ base par tops w a dv (kc + w.pids.length) rc (run s (List.replicate (n + 1) .wake)) := by
  intro n
  induction n with
  | zero =>
    intro s hm
    refine ⟨fun j hj => ?_, mid_lastG NZ u polls base fo fm par tops w a dv kc rc s hg h4 hw hm⟩
    have : j = 0 := by omega
    subst this; exact hm
  | succ n ih =>
    intro s hm
    have h1 := mid_stepG NZ u polls base fo fm par tops w a dv kc rc n s hg h4 hw hls hm
    obtain ⟨ih1, ih2⟩ := ih (step s .wake) h1
    refine ⟨fun j hj => ?_, ?_⟩
    · cases j with
      | zero => exact hm
      | succ j =>
        rw [List.replicate_succ, run_cons]
        have := ih1 j (by omega)
        rwa [show n + 1 + 1 - (j + 1) = n + 1 - j by omega]
    · rw [List.replicate_succ, run_cons]; exact ih2

/-! ## Part G4: `quit` -/

/-- the suspended callers of `kill_processes` during `Arbiter.stop()`: `stop` itself, `_stop_watchers` with its
    `gen.multi` over the (one) watcher, `Watcher._stop` -/
def quitBase (u t : Nat) : List Frame :=
  [{ fid := t + 1, k := .quitAfterStop, parent := .top t, armed := true },
   { fid := t + 2, k := .ignore, parent := .frame (t + 1) 0, armed := true },
   { fid := t + 3, k := .multi 1 [], parent := .frame (t + 2) 0, armed := true },
   { fid := t + 4, k := .stopAfterKill u true, parent := .frame (t + 3) 0, armed := true }]

theorem quitBase_gb (u t : Nat) : GB (quitBase u t) (t + 5) (t + 6) :=
  ⟨fun g hg => by
    simp only [quitBase, List.mem_cons, List.mem_nil_iff, or_false] at hg
    rcases hg with rfl | rfl | rfl | rfl <;> simp, by omega⟩

/-- **`Arbiter.stop()` with one active watcher whose workers ignore the stop signal**: the arbiter is `stopping`,
    the watcher `stopping`, every worker gets the signal and a poll timer; six frames and `m` poll frames are parked -/
theorem arbStop_parks (u t : Nat) (w : Watcher) (k : Kernel) (a : Arbiter) (objs : List PObj) (tops : List TopFut)
    (dv : List (Nat × Val)) (log : List Obs)
    (hw : SOk u w) (hst : w.status = .active) (hne : w.pids ≠ []) (hnd : w.pids.Nodup) (hpolls : 0 < pollsOf w.graceful)
    (hk : k.Base) (hwat : a.watchers = [u])
    (hall : ∀ pid ∈ w.pids, k.Stub pid ∧
      ∃ o, objs.find? (fun o => decide (o.pid = pid)) = some o ∧ o.stopping = false ∧ o.rc = none) :
    exec 100000 (.call .arbStop (.top t)) ⟨k, a, objs, [w], [], [], tops, [], dv, t + 1, log, false⟩ =
      ((), killingG u w.pids.length w.stopSignal (pollsOf w.graceful) (quitBase u t) (t + 5) (t + 6) (.frame (t + 4) 0) tops []
        (entries w.pids 0 (t + 7) k.now) ((k.bump (2 * w.pids.length)).bump (2 * w.pids.length)) { a with stopping := true }
        (objs.map (fun o => if o.pid ∈ w.pids then { o with stopping := true } else o))
        { w with status := .stopping } dv (t + 7 + 2 * w.pids.length)
        (parkLogs { a with stopping := true } { w with status := .stopping } w.pids log)) := by
  obtain ⟨p0, rest, hpids⟩ : ∃ p0 rest, w.pids = p0 :: rest := by
    cases h : w.pids with
    | nil => exact absurd h hne
    | cons p r => exact ⟨p, r, rfl⟩
  have hw' : SOk u { w with status := .stopping } := ⟨hw.uid, hw.hooks, hw.stopChildren, hw.sigNe9⟩
  have e1 : (100000 : Nat) = 99999 + 1 := rfl
  have e2 : (99999 : Nat) = 99998 + 1 := rfl
  have e3 : (99998 : Nat) = 99997 + 1 := rfl
  have e4 : (99997 : Nat) = 99996 + 1 := rfl
  have e5 : (99996 : Nat) = 99995 + 1 := rfl
  -- the children of the gen.multi
  have hpark := parkAll 99995 u (t + 6) { w with status := .stopping } { a with stopping := true } tops [] dv hw' hpolls w.pids 0
    (k.bump (2 * w.pids.length)) objs
    [{ fid := t + 1, k := .quitAfterStop, parent := .top t },
     { fid := t + 2, k := .ignore, parent := .frame (t + 1) 0 },
     { fid := t + 3, k := .multi 1 [], parent := .frame (t + 2) 0 },
     { fid := t + 4, k := .stopAfterKill u true, parent := .frame (t + 3) 0 },
     { fid := t + 5, k := .ignore, parent := .frame (t + 4) 0 },
     { fid := t + 6, k := .multi w.pids.length [], parent := .frame (t + 5) 0 }] [] (t + 7) log
    (hk.bump _) hnd (fun pid hp => ⟨hp, (hall pid hp).1, (hall pid hp).2⟩) (by
      intro g hg
      simp only [List.mem_cons, List.mem_nil_iff, or_false] at hg
      rcases hg with rfl | rfl | rfl | rfl | rfl | rfl <;> simp)
  have hact : ∀ (frames : List Frame) (nid : Nat), activeProcs u ⟨k, { a with stopping := true }, objs, [{ w with status := .stopping }], frames, [], tops, [], dv, nid, log, false⟩ =
      (w.pids, ⟨k.bump (2 * w.pids.length), { a with stopping := true }, objs, [{ w with status := .stopping }], frames, [], tops, [], dv, nid, log, false⟩) := by
    intro frames nid
    exact activeProcs_running u { w with status := .stopping } _ rfl hw.uid hk.calm
      (fun pid hp => by obtain ⟨⟨p, hf, hr, _⟩, _⟩ := hall pid hp; exact ⟨p, hf, hr⟩)
  rw [e1, exec_call_mk]
  simp only [runCall]
  have harb : arbStop (exec 99999) (.top t) ⟨k, a, objs, [w], [], [], tops, [], dv, t + 1, log, false⟩ =
      await (exec 99999) (.arbStopWatchers [u] true) .quitAfterStop (.top t)
        ⟨k, { a with stopping := true }, objs, [w], [], [], tops, [], dv, t + 1, log, false⟩ := by
    unfold arbStop
    simp only [bind, setStopping, modA, modS]
    rw [iterWatchers_single false u w _ rfl hw.uid hwat]
  rw [harb, await_eq]
  simp only [List.nil_append]
  rw [e2, exec_call_mk]
  simp only [runCall, List.map_cons, List.map_nil]
  rw [awaitMulti_single]
  simp only [List.cons_append, List.nil_append]
  rw [e3, exec_call_mk]
  simp only [runCall]
  have hstopW : stopW (exec 99997) u true (.frame (t + 1 + 1 + 1) 0)
      ⟨k, { a with stopping := true }, objs, [w],
        [{ fid := t + 1, k := .quitAfterStop, parent := .top t },
         { fid := t + 1 + 1, k := .ignore, parent := .frame (t + 1) 0 },
         { fid := t + 1 + 1 + 1, k := .multi 1 [], parent := .frame (t + 1 + 1) 0 }], [], tops, [], dv, t + 1 + 1 + 2, log, false⟩ =
      await (exec 99997) (.killProcesses u none none) (.stopAfterKill u true) (.frame (t + 1 + 1 + 1) 0)
        ⟨k, { a with stopping := true }, objs, [{ w with status := .stopping }],
          [{ fid := t + 1, k := .quitAfterStop, parent := .top t },
           { fid := t + 1 + 1, k := .ignore, parent := .frame (t + 1) 0 },
           { fid := t + 1 + 1 + 1, k := .multi 1 [], parent := .frame (t + 1 + 1) 0 }], [], tops, [], dv, t + 1 + 1 + 2, log, false⟩ := by
    simp [stopW, bind, getW, hw.uid, hst, setStatus, modW, modS, callHook_mk, hw.hooks]
  rw [hstopW, await_eq]
  simp only [List.cons_append, List.nil_append]
  rw [e4, exec_call_mk]
  simp only [runCall]
  unfold killProcesses
  simp only [bind, hact]
  rw [awaitMulti_ne _ _ (by rw [hpids]; simp)]
  simp only [List.length_map, List.cons_append, List.nil_append]
  rw [e5]
  erw [hpark]
  have hq : ∀ j, j ≤ t + 6 → List.map (fun (g : Frame) => if g.fid = j then { g with armed := true } else g)
      ((entries w.pids 0 (t + 7) (k.bump (2 * w.pids.length)).now).map (qFrame u w.stopSignal (pollsOf w.graceful) (t + 6))) =
      (entries w.pids 0 (t + 7) (k.bump (2 * w.pids.length)).now).map (qFrame u w.stopSignal (pollsOf w.graceful) (t + 6)) := by
    intro j hj
    apply arm_id
    intro g hg
    obtain ⟨e, he, rfl⟩ := List.mem_map.mp hg
    have := (entries_mem w.pids 0 (t + 7) _ e he).1
    simp [qFrame]; omega
  have hq6 := hq (t + 1 + 1 + 2 + 1 + 1) (by omega)
  have hq5 := hq (t + 1 + 1 + 2 + 1) (by omega)
  have hq4 := hq (t + 1 + 1 + 2) (by omega)
  have hq3 := hq (t + 1 + 1 + 1) (by omega)
  have hq2 := hq (t + 1 + 1) (by omega)
  have hq1 := hq (t + 1) (by omega)
  simp only [armFrame, modS, List.map_append, hq6, hq5, hq4, hq3, hq2, hq1]
  simp [killingG, quitBase, Kernel.bump]

/-- the log after `Arbiter.start()` closed the controller and the PUB socket -/
def closeLog (a : Arbiter) (log : List Obs) : List Obs :=
  (if a.ctlClosed then log else log ++ [Obs.close "ctrl"]) ++ (if a.pubClosed then [] else [Obs.close "evpub"])

/-- **`kill_processes` has returned during `Arbiter.stop()`**: `_stop` finishes (reap, `stop` event, status), the
    `gen.multi` of `_stop_watchers` is complete, `stop` asks the loop to stop and returns; the future completes:
    slot released, reply written (if awaited); the loop stops and `Arbiter.start()` closes the sockets -/
theorem finish_quit (u t : Nat) (cid : String) (mid : JVal) (waiting : Bool) (xform : String) (vs : List Val)
    (k : Kernel) (a : Arbiter) (objs : List PObj) (w : Watcher) (dv : List (Nat × Val)) (nid : Nat) (log : List Obs)
    (hw : SOk u w) (hst : w.status ≠ .stopped) (hnd : w.pids.Nodup) (hk : k.Base) (hls : a.loopStop = false)
    (hall : ∀ pid ∈ w.pids, k.GoneP pid ∧ ∃ o, objs.find? (fun o => decide (o.pid = pid)) = some o ∧ o.rc = some (-9)) :
    finishStep 99998 ⟨k, a, objs, [w], quitBase u t, [],
        [{ tid := t, cbs := [.release, .reply (some cid) mid false "quit" waiting xform], armed := true }],
        [.resume .ignore (.list vs) (.frame (t + 4) 0)], dv, nid, log, false⟩ =
      ((), ⟨k.bump w.pids.length, { a with slot := none, loopStop := false, ctlClosed := true, pubClosed := true }, objs,
        [{ w with pids := [], status := .stopped }], [], [], [], [], (t, Val.unit) :: dv, nid,
        closeLog a (replyLog a cid mid waiting xform (evlog a (reapLogs a w w.pids log) w "stop" none "-")), false⟩) := by
  have e1 : (99998 : Nat) = 99997 + 1 := rfl
  have e2 : (99997 : Nat) = 99996 + 1 := rfl
  have e3 : (99996 : Nat) = 99995 + 1 := rfl
  have e4 : (99995 : Nat) = 99994 + 1 := rfl
  have e5 : (99994 : Nat) = 99993 + 1 := rfl
  have e6 : (99993 : Nat) = 99992 + 1 := rfl
  have e7 : (99992 : Nat) = 99991 + 1 := rfl
  have e8 : (99991 : Nat) = 99990 + 1 := rfl
  have f1 : (100000 : Nat) = 99999 + 1 := rfl
  have hset : settle 99998 ⟨k, a, objs, [w], quitBase u t, [],
        [{ tid := t, cbs := [.release, .reply (some cid) mid false "quit" waiting xform], armed := true }],
        [.resume .ignore (.list vs) (.frame (t + 4) 0)], dv, nid, log, false⟩ =
      ((), ⟨k.bump w.pids.length, { a with slot := none, loopStop := true }, objs,
        [{ w with pids := [], status := .stopped }], [], [], [], [], (t, Val.unit) :: dv, nid,
        replyLog a cid mid waiting xform (evlog a (reapLogs a w w.pids log) w "stop" none "-"), false⟩) := by
    -- 1: kill_processes returns
    rw [e1, settle_cons_mk]
    simp only [runReady1]
    rw [f1, exec_resume_mk]
    simp [runResume, deliver, bind, getS, removeFrame, enqueue, modS, quitBase]
    -- 2: the end of _stop
    rw [e2, settle_cons_mk]
    simp only [runReady1]
    rw [f1, exec_resume_mk]
    simp only [runResume]
    rw [stopAfterKill_gone (exec 99999) u (.frame (t + 3) 0) k a objs w _ [] _ [] dv nid log hw hst hk hnd hall]
    simp [deliver, bind, getS, enqueue, modS]
    -- 3: the gen.multi of _stop_watchers is complete, _stop_watchers returns
    rw [e3, settle_cons_mk]
    simp only [runReady1]
    rw [f1, exec_resume_mk]
    simp [runResume, multiCollect, bind, getS, removeFrame, modS]
    have hmr : multiResult 1 [(0, Val.unit)] = .list [.unit] := rfl
    have f2 : (99999 : Nat) = 99998 + 1 := rfl
    rw [hmr, f2, exec_resume_mk]
    simp [runResume, deliver, bind, getS, removeFrame, enqueue, modS]
    -- 4: Arbiter.stop continues
    rw [e4, settle_cons_mk]
    simp only [runReady1]
    rw [f1, exec_resume_mk]
    simp [runResume, deliver, bind, getS, removeFrame, enqueue, modS]
    -- 5: loop.stop is scheduled, stop() returns, the future completes
    rw [e5, settle_cons_mk]
    simp only [runReady1]
    rw [f1, exec_resume_mk]
    simp [runResume, arbStopTail, setLoopStop, modA, deliver, deliverTop, finishTop, deliverCbs, bind, getS, enqueue, modS, pure]
    -- 6, 7: the slot is released, the reply is written
    rw [e6, settle_cons_mk]
    simp [runReady1, runTopCb, setSlot, modA, modS]
    rw [e7, settle_cons_mk]
    simp [runReady1, runTopCb, sendReply, bind, getA, emitRep, modS, pure]
    cases waiting <;> cases hc : a.ctlClosed <;> simp [replyLog, hc, modS] <;> (rw [e8]; exact settle_nil _ _ rfl)
  unfold finishStep
  simp only [bind]
  rw [hset]
  simp [getA, setLoopStop, modA, modS, stopController, bind, emit, Obs.isRep, Obs.isEv, setClosed, closeLog]
  cases hc : a.ctlClosed <;> cases hp : a.pubClosed <;> simp [hc, hp, modS, pure]

/-- the `quit` request -/
def quitReq (waiting : Bool) : JVal :=
  .obj [("command", .str "quit"), ("properties", .obj [("waiting", .bool waiting)])]

theorem ve_quit_run (waiting : Bool) (s : State) (hr : s.a.restarting = false) (hs : s.a.slot = none) :
    validateExecute "quit" (.obj [("waiting", .bool waiting)]) s =
      (.ok (.future s.nextId ""),
        (armTop s.nextId (exec fuelDefault (.call .arbStop (.top s.nextId))
          { s with a := { s.a with slot := some "arbiter_stop" },
                   tops := s.tops ++ [{ tid := s.nextId, cbs := [.release] }],
                   nextId := s.nextId + 1 }).2).2) := by
  unfold validateExecute
  simp [requiredProps, bind, syncCoroutine_free _ _ _ hr hs, pure, Except.map]

/-- **the `quit` request, one active watcher whose workers ignore the stop signal**: accepted, the slot taken,
    the arbiter `stopping`, every worker signalled, `m` poll timers; a request that does not wait is answered at once -/
theorem req_quit_parks (cid : String) (waiting : Bool) (u t : Nat) (w : Watcher) (k : Kernel) (a : Arbiter)
    (objs : List PObj) (dv : List (Nat × Val)) (log : List Obs)
    (hr : a.restarting = false) (hsl : a.slot = none) (hls : a.loopStop = false) (hwat : a.watchers = [u])
    (hw : SOk u w) (hst : w.status = .active) (hne : w.pids ≠ []) (hnd : w.pids.Nodup) (hpolls : 0 < pollsOf w.graceful)
    (hk : k.Base)
    (hall : ∀ pid ∈ w.pids, k.Stub pid ∧
      ∃ o, objs.find? (fun o => decide (o.pid = pid)) = some o ∧ o.stopping = false ∧ o.rc = none) :
    step ⟨k, a, objs, [w], [], [], [], [], dv, t, log, false⟩ (.req cid (some (quitReq waiting))) =
      killingG u w.pids.length w.stopSignal (pollsOf w.graceful) (quitBase u t) (t + 5) (t + 6) (.frame (t + 4) 0)
        [{ tid := t, cbs := [.release, .reply (some cid) .null false "quit" waiting ""], armed := true }] []
        (entries w.pids 0 (t + 7) k.now)
        ((k.beginStep.bump (2 * w.pids.length)).bump (2 * w.pids.length)) { a with slot := some "arbiter_stop", stopping := true }
        (objs.map (fun o => if o.pid ∈ w.pids then { o with stopping := true } else o))
        { w with status := .stopping } [] (t + 7 + 2 * w.pids.length)
        (ackLog a cid waiting (parkLogs { a with slot := some "arbiter_stop", stopping := true } { w with status := .stopping } w.pids log)) := by
  have hl : pyLower "quit" = "quit" := by decide +kernel
  have hve := ve_quit_run waiting ⟨k.beginStep, a, objs, [w], [], [], [], [], [], t, log, false⟩ hr hsl
  have hps := arbStop_parks u t w k.beginStep { a with slot := some "arbiter_stop" } objs
    [{ tid := t, cbs := [.release] }] [] log hw hst hne hnd hpolls hk.beginStep hwat hall
  have hfd : fuelDefault = 100000 := rfl
  simp only [List.nil_append, hfd, hps] at hve
  unfold step
  rw [stepM_eq _ _ rfl]
  have hop : stepOp (.req cid (some (quitReq waiting)))
      (updK Kernel.beginStep (⟨k, a, objs, [w], [], [], [], [], dv, t, log, false⟩ : State)).2 =
      ((), killingG u w.pids.length w.stopSignal (pollsOf w.graceful) (quitBase u t) (t + 5) (t + 6) (.frame (t + 4) 0)
        [{ tid := t, cbs := [.release, .reply (some cid) .null false "quit" waiting ""], armed := true }] []
        (entries w.pids 0 (t + 7) k.now)
        ((k.beginStep.bump (2 * w.pids.length)).bump (2 * w.pids.length)) { a with slot := some "arbiter_stop", stopping := true }
        (objs.map (fun o => if o.pid ∈ w.pids then { o with stopping := true } else o))
        { w with status := .stopping } [] (t + 7 + 2 * w.pids.length)
        (ackLog a cid waiting (parkLogs { a with slot := some "arbiter_stop", stopping := true } { w with status := .stopping } w.pids log))) := by
    simp only [stepOp, updK, runK]
    unfold handleMessage quitReq
    simp [JVal.isObj, JVal.get?, List.lookup, hl, commandNames, JVal.truthy, bind, clearDone, modS, hve]
    have hnow : k.beginStep.now = k.now := rfl
    cases waiting <;> cases hc : a.ctlClosed <;>
      simp [hc, armTop, addDoneCallback, topAddCb, sendReply, emitRep, modS, getS, getA, bind, pure, killingG, ackLog, hnow]
  rw [hop]
  have e1 : (100000 : Nat) = 99999 + 1 := rfl
  rw [stepTail_eq _ (by rw [e1, settle_nil _ _ rfl]; exact hls)]
  rw [e1, settle_nil _ _ rfl]

theorem killCount_closeLog (a : Arbiter) (log : List Obs) : killCount (closeLog a log) = killCount log := by
  unfold closeLog; split <;> split <;> simp [killCount, List.countP_append]

theorem repC_closeLog (a : Arbiter) (log : List Obs) : repC (closeLog a log) = repC log := by
  unfold closeLog; split <;> split <;> simp [repC, List.countP_append, Obs.isRep]

/-- `quit` is complete: the watcher (was `w`) `stopped` with an empty list, nothing in flight, the slot free, the
    arbiter `stopping`, the loop stopped and both sockets closed — the `close` observations are the last entries of
    the log, after the reply —, every worker of `w` gone from the kernel -/
structure QuitDone (NZ : Prop) (w : Watcher) (a : Arbiter) (kc rc : Nat) (s : State) : Prop where
  ws : s.ws = [{ w with pids := [], status := .stopped }]
  arb : s.a = { a with slot := none, stopping := true, loopStop := false, ctlClosed := true, pubClosed := true }
  frames : s.frames = []
  sleepers : s.sleepers = []
  tops : s.tops = []
  ready : s.ready = []
  blocked : s.blocked = false
  base : s.k.Base
  gone : ∀ q ∈ w.pids, s.k.GoneP q
  log : ∃ L, s.log = closeLog a L ∧ killCount L = kc ∧ repC L = rc
  nz : NZ → ∀ p ∈ s.k.procs, p.st ≠ .zombie

/-- the request step of `quit` leads into the polling phase with `m * polls` firings to go -/
theorem req_quit_mid (NZ : Prop) (cid : String) (waiting : Bool) (u : Nat) (w : Watcher) (s : State)
    (hi : Idle u s) (hd : Stubborn u w s)
    (hne : w.pids ≠ []) (hpolls : 0 < pollsOf w.graceful) (hnz : NZ → ∀ p ∈ s.k.procs, p.st ≠ .zombie) :
    MidG NZ u (pollsOf w.graceful) (quitBase u s.nextId) (s.nextId + 5) (s.nextId + 6) (.frame (s.nextId + 4) 0)
      [{ tid := s.nextId, cbs := [.release, .reply (some cid) .null false "quit" waiting ""], armed := true }]
      { w with status := .stopping } { s.a with slot := some "arbiter_stop", stopping := true } []
      (killCount s.log) (repC s.log + (if waiting = false ∧ s.a.ctlClosed = false then 1 else 0))
      (w.pids.length * pollsOf w.graceful) (step s (.req cid (some (quitReq waiting)))) := by
  obtain ⟨k, a, objs, ws, frames, sleepers, tops, ready, dv, t, log, blocked⟩ := s
  obtain ⟨hf, hsl, ht, hr, hslot, hls, _, hrs, hwat⟩ := hi
  obtain ⟨hws, hb, hw, hst, hnd, hk, hall⟩ := hd
  simp only at hf hsl ht hr hslot hls hrs hws hb hk hall hnz hwat
  subst hf hsl ht hr hws hb
  rw [req_quit_parks cid waiting u t w k a objs dv log hrs hslot hls hwat hw hst hne hnd hpolls hk hall]
  dsimp only
  refine ⟨[], _, _, _, _, _, rfl, ?_, qMeasure_entries _ hpolls _ _ _ _⟩
  refine ⟨(hk.beginStep.bump _).bump _, entries_sorted _ _ _ _, ?_, ?_, ?_, ?_, ?_, ?_, ?_, ?_, ?_, ?_, hnz⟩
  · intro e he; have := entries_mem _ _ _ _ e he; omega
  · intro e he; have := entries_mem _ _ _ _ e he
    show e.dl ≤ k.now + 100
    omega
  · intro e he; have := entries_mem _ _ _ _ e he; omega
  · rw [entries_pids]; exact hnd
  · intro e he
    have hm := (entries_mem _ _ _ _ e he).2.2.2.2
    obtain ⟨hs, o, ho, _, hrc⟩ := hall e.pid hm
    refine ⟨hm, hs, (if o.pid ∈ w.pids then { o with stopping := true } else o), ?_, ?_⟩
    · rw [find_map_pid objs e.pid _ (fun o => by split <;> rfl), ho]; rfl
    · split <;> exact hrc
  · intro q hq hnq
    rw [entries_pids] at hnq; exact absurd hq hnq
  · simp [entries_length]
  · intro r hr; cases hr
  · rw [killCount_ackLog, killCount_parkLogs _ { w with status := .stopping } hw.sigNe9]; rfl
  · rw [repC_ackLog, repC_parkLogs]

/-- **`quit` completes (one watcher, workers that ignore the stop signal)**: the request and exactly
    `m * ⌈graceful/100 ms⌉` timer firings; before the last firing the only reply is the immediate `ok` of a request
    that does not wait -/
theorem quit_run_stubborn (NZ : Prop) (cid : String) (waiting : Bool) (u : Nat) (w : Watcher) (s : State)
    (hi : Idle u s) (hd : Stubborn u w s)
    (hne : w.pids ≠ []) (hpolls : 0 < pollsOf w.graceful) (hnz : NZ → ∀ p ∈ s.k.procs, p.st ≠ .zombie) :
    QuitDone NZ { w with status := .stopping } s.a
      (killCount s.log + w.pids.length) (repC s.log + (if s.a.ctlClosed = false then 1 else 0))
      (run s (.req cid (some (quitReq waiting)) :: List.replicate (w.pids.length * pollsOf w.graceful) .wake)) ∧
    (∀ j < w.pids.length * pollsOf w.graceful,
      repC (run s (.req cid (some (quitReq waiting)) :: List.replicate j .wake)).log =
        repC s.log + (if waiting = false ∧ s.a.ctlClosed = false then 1 else 0)) ∧
    (∀ j < w.pids.length * pollsOf w.graceful,
      (run s (.req cid (some (quitReq waiting)) :: List.replicate j .wake)).a =
        { s.a with slot := some "arbiter_stop", stopping := true }) := by
  have hmid := req_quit_mid NZ cid waiting u w s hi hd hne hpolls hnz
  have hpos : 0 < w.pids.length * pollsOf w.graceful :=
    Nat.mul_pos (List.length_pos_iff.mpr hne) hpolls
  obtain ⟨n, hn'⟩ : ∃ n, w.pids.length * pollsOf w.graceful = n + 1 := ⟨_, (Nat.succ_pred_eq_of_pos hpos).symm⟩
  rw [hn'] at hmid ⊢
  obtain ⟨h1, h2⟩ := mid_runG NZ u (pollsOf w.graceful) (quitBase u s.nextId) (s.nextId + 5) (s.nextId + 6) (.frame (s.nextId + 4) 0)
    _ { w with status := .stopping } { s.a with slot := some "arbiter_stop", stopping := true } [] _ _
    (quitBase_gb u s.nextId) (by omega) hd.ok.stopping hi.loopStop n _ hmid
  refine ⟨?_, ?_, ?_⟩
  · rw [run_cons]
    obtain ⟨vs, k, objs, nid, log, hs', hB, hG, hK, hR, hZ⟩ := h2
    rw [hs', finish_quit u s.nextId cid .null waiting "" vs k { s.a with slot := some "arbiter_stop", stopping := true }
      objs { w with status := .stopping } [] nid log hd.ok.stopping (by simp) hd.nodup hB hi.loopStop hG]
    refine ⟨rfl, ?_, rfl, rfl, rfl, rfl, rfl, hB.bump _, fun q hq => (hG q hq).1, ?_, hZ⟩
    · rfl
    · refine ⟨_, rfl, ?_, ?_⟩
      · rw [killCount_replyLog, killCount_evlog, killCount_reapLogs, hK]
      · rw [repC_replyLog, repC_evlog, repC_reapLogs, hR]
        cases waiting <;> simp
  · intro j hj
    rw [run_cons]
    exact (h1 j (by omega)).reps
  · intro j hj
    rw [run_cons]
    obtain ⟨results, Q, k, objs, nid, log, hs', _, _⟩ := h1 j (by omega)
    rw [hs']; rfl

/-! ## Part G5: `rm` -/

/-- the suspended callers of `kill_processes` during `Arbiter.rm_watcher`: `rm_watcher` itself and `Watcher._stop` -/
def rmBase (u t : Nat) : List Frame :=
  [{ fid := t + 1, k := .ignore, parent := .top t, armed := true },
   { fid := t + 2, k := .stopAfterKill u false, parent := .frame (t + 1) 0, armed := true }]

theorem rmBase_gb (u t : Nat) : GB (rmBase u t) (t + 3) (t + 4) :=
  ⟨fun g hg => by
    simp only [rmBase, List.mem_cons, List.mem_nil_iff, or_false] at hg
    rcases hg with rfl | rfl <;> simp, by omega⟩

/-- the arbiter without the watcher `u` in its list and dict -/
def unreg (a : Arbiter) (u : Nat) : Arbiter :=
  { a with names := a.names.filter (·.2 ≠ u), watchers := a.watchers.filter (· ≠ u) }

/-- **`Arbiter.rm_watcher` on an active watcher whose workers ignore the stop signal**: the `remove` event, the
    watcher leaves the list and the dict, then `_stop`: status `stopping`, every worker gets the signal and a poll
    timer; four frames and `m` poll frames are parked -/
theorem rm_parks (u t : Nat) (w : Watcher) (k : Kernel) (a : Arbiter) (objs : List PObj) (tops : List TopFut)
    (dv : List (Nat × Val)) (log : List Obs)
    (hw : SOk u w) (hst : w.status = .active) (hne : w.pids ≠ []) (hnd : w.pids.Nodup) (hpolls : 0 < pollsOf w.graceful)
    (hk : k.Base)
    (hall : ∀ pid ∈ w.pids, k.Stub pid ∧
      ∃ o, objs.find? (fun o => decide (o.pid = pid)) = some o ∧ o.stopping = false ∧ o.rc = none) :
    exec 100000 (.call (.rmWatcher u false) (.top t)) ⟨k, a, objs, [w], [], [], tops, [], dv, t + 1, log, false⟩ =
      ((), killingG u w.pids.length w.stopSignal (pollsOf w.graceful) (rmBase u t) (t + 3) (t + 4) (.frame (t + 2) 0) tops []
        (entries w.pids 0 (t + 5) k.now) ((k.bump (2 * w.pids.length)).bump (2 * w.pids.length)) (unreg a u)
        (objs.map (fun o => if o.pid ∈ w.pids then { o with stopping := true } else o))
        { w with status := .stopping } dv (t + 5 + 2 * w.pids.length)
        (parkLogs (unreg a u) { w with status := .stopping } w.pids (evlog a log w "remove" none "-"))) := by
  obtain ⟨p0, rest, hpids⟩ : ∃ p0 rest, w.pids = p0 :: rest := by
    cases h : w.pids with
    | nil => exact absurd h hne
    | cons p r => exact ⟨p, r, rfl⟩
  have hw' : SOk u { w with status := .stopping } := ⟨hw.uid, hw.hooks, hw.stopChildren, hw.sigNe9⟩
  have e1 : (100000 : Nat) = 99999 + 1 := rfl
  have e2 : (99999 : Nat) = 99998 + 1 := rfl
  have e3 : (99998 : Nat) = 99997 + 1 := rfl
  have e4 : (99997 : Nat) = 99996 + 1 := rfl
  have hpark := parkAll 99996 u (t + 4) { w with status := .stopping } (unreg a u) tops [] dv hw' hpolls w.pids 0
    (k.bump (2 * w.pids.length)) objs
    [{ fid := t + 1, k := .ignore, parent := .top t },
     { fid := t + 2, k := .stopAfterKill u false, parent := .frame (t + 1) 0 },
     { fid := t + 3, k := .ignore, parent := .frame (t + 2) 0 },
     { fid := t + 4, k := .multi w.pids.length [], parent := .frame (t + 3) 0 }] [] (t + 5) (evlog a log w "remove" none "-")
    (hk.bump _) hnd (fun pid hp => ⟨hp, (hall pid hp).1, (hall pid hp).2⟩) (by
      intro g hg
      simp only [List.mem_cons, List.mem_nil_iff, or_false] at hg
      rcases hg with rfl | rfl | rfl | rfl <;> simp)
  have hact : ∀ (frames : List Frame) (nid : Nat) (lg : List Obs), activeProcs u ⟨k, unreg a u, objs, [{ w with status := .stopping }], frames, [], tops, [], dv, nid, lg, false⟩ =
      (w.pids, ⟨k.bump (2 * w.pids.length), unreg a u, objs, [{ w with status := .stopping }], frames, [], tops, [], dv, nid, lg, false⟩) := by
    intro frames nid lg
    exact activeProcs_running u { w with status := .stopping } _ rfl hw.uid hk.calm
      (fun pid hp => by obtain ⟨⟨p, hf, hr, _⟩, _⟩ := hall pid hp; exact ⟨p, hf, hr⟩)
  rw [e1, exec_call_mk]
  simp only [runCall]
  have hrm : rmWatcher (exec 99999) u false (.top t) ⟨k, a, objs, [w], [], [], tops, [], dv, t + 1, log, false⟩ =
      await (exec 99999) (.stop_ u false) .ignore (.top t)
        ⟨k, unreg a u, objs, [w], [], [], tops, [], dv, t + 1, evlog a log w "remove" none "-", false⟩ := by
    unfold rmWatcher
    simp only [bind, notify_mk _ _ _ _ _ _ _ _ _ _ _ u hw.uid, unregisterWatcher, modA, modS]
    rfl
  rw [hrm, await_eq]
  simp only [List.nil_append]
  rw [e2, exec_call_mk]
  simp only [runCall]
  have hstopW : stopW (exec 99998) u false (.frame (t + 1) 0)
      ⟨k, unreg a u, objs, [w], [{ fid := t + 1, k := .ignore, parent := .top t }], [], tops, [], dv, t + 1 + 1,
        evlog a log w "remove" none "-", false⟩ =
      await (exec 99998) (.killProcesses u none none) (.stopAfterKill u false) (.frame (t + 1) 0)
        ⟨k, unreg a u, objs, [{ w with status := .stopping }], [{ fid := t + 1, k := .ignore, parent := .top t }], [], tops, [], dv,
          t + 1 + 1, evlog a log w "remove" none "-", false⟩ := by
    simp [stopW, bind, getW, hw.uid, hst, setStatus, modW, modS, callHook_mk, hw.hooks]
  rw [hstopW, await_eq]
  simp only [List.cons_append, List.nil_append]
  rw [e3, exec_call_mk]
  simp only [runCall]
  unfold killProcesses
  simp only [bind, hact]
  rw [awaitMulti_ne _ _ (by rw [hpids]; simp)]
  simp only [List.length_map, List.cons_append, List.nil_append]
  erw [hpark]
  have hq : ∀ j, j ≤ t + 4 → List.map (fun (g : Frame) => if g.fid = j then { g with armed := true } else g)
      ((entries w.pids 0 (t + 5) (k.bump (2 * w.pids.length)).now).map (qFrame u w.stopSignal (pollsOf w.graceful) (t + 4))) =
      (entries w.pids 0 (t + 5) (k.bump (2 * w.pids.length)).now).map (qFrame u w.stopSignal (pollsOf w.graceful) (t + 4)) := by
    intro j hj
    apply arm_id
    intro g hg
    obtain ⟨e, he, rfl⟩ := List.mem_map.mp hg
    have := (entries_mem w.pids 0 (t + 5) _ e he).1
    simp [qFrame]; omega
  have hq4 := hq (t + 1 + 1 + 1 + 1) (by omega)
  have hq3 := hq (t + 1 + 1 + 1) (by omega)
  have hq2 := hq (t + 1 + 1) (by omega)
  have hq1 := hq (t + 1) (by omega)
  simp only [armFrame, modS, List.map_append, hq4, hq3, hq2, hq1]
  simp [killingG, rmBase, Kernel.bump]

/-- **`kill_processes` has returned during `rm_watcher`**: `_stop` finishes (reap, `stop` event, status),
    `rm_watcher` returns, the future completes: slot released, reply written (if awaited) -/
theorem finish_rm (u t : Nat) (cid : String) (mid : JVal) (waiting : Bool) (xform : String) (vs : List Val)
    (k : Kernel) (a : Arbiter) (objs : List PObj) (w : Watcher) (dv : List (Nat × Val)) (nid : Nat) (log : List Obs)
    (hw : SOk u w) (hst : w.status ≠ .stopped) (hnd : w.pids.Nodup) (hk : k.Base) (hls : a.loopStop = false)
    (hall : ∀ pid ∈ w.pids, k.GoneP pid ∧ ∃ o, objs.find? (fun o => decide (o.pid = pid)) = some o ∧ o.rc = some (-9)) :
    finishStep 99998 ⟨k, a, objs, [w], rmBase u t, [],
        [{ tid := t, cbs := [.release, .reply (some cid) mid false "rm" waiting xform], armed := true }],
        [.resume .ignore (.list vs) (.frame (t + 2) 0)], dv, nid, log, false⟩ =
      ((), ⟨k.bump w.pids.length, { a with slot := none }, objs,
        [{ w with pids := [], status := .stopped }], [], [], [], [], (t, Val.unit) :: dv, nid,
        replyLog a cid mid waiting xform (evlog a (reapLogs a w w.pids log) w "stop" none "-"), false⟩) := by
  have e1 : (99998 : Nat) = 99997 + 1 := rfl
  have e2 : (99997 : Nat) = 99996 + 1 := rfl
  have e3 : (99996 : Nat) = 99995 + 1 := rfl
  have e4 : (99995 : Nat) = 99994 + 1 := rfl
  have e5 : (99994 : Nat) = 99993 + 1 := rfl
  have e6 : (99993 : Nat) = 99992 + 1 := rfl
  have f1 : (100000 : Nat) = 99999 + 1 := rfl
  have hsk : ∀ (rec : Rec) (wt : Waiter), stopAfterKill rec u false wt = stopAfterKill rec u true wt := fun _ _ => rfl
  have hset : settle 99998 ⟨k, a, objs, [w], rmBase u t, [],
        [{ tid := t, cbs := [.release, .reply (some cid) mid false "rm" waiting xform], armed := true }],
        [.resume .ignore (.list vs) (.frame (t + 2) 0)], dv, nid, log, false⟩ =
      ((), ⟨k.bump w.pids.length, { a with slot := none }, objs,
        [{ w with pids := [], status := .stopped }], [], [], [], [], (t, Val.unit) :: dv, nid,
        replyLog a cid mid waiting xform (evlog a (reapLogs a w w.pids log) w "stop" none "-"), false⟩) := by
    -- 1: kill_processes returns
    rw [e1, settle_cons_mk]
    simp only [runReady1]
    rw [f1, exec_resume_mk]
    simp [runResume, deliver, bind, getS, removeFrame, enqueue, modS, rmBase]
    -- 2: the end of _stop
    rw [e2, settle_cons_mk]
    simp only [runReady1]
    rw [f1, exec_resume_mk]
    simp only [runResume, hsk]
    rw [stopAfterKill_gone (exec 99999) u (.frame (t + 1) 0) k a objs w _ [] _ [] dv nid log hw hst hk hnd hall]
    simp [deliver, bind, getS, removeFrame, enqueue, modS]
    -- 3: rm_watcher returns, the future completes
    rw [e3, settle_cons_mk]
    simp only [runReady1]
    rw [f1, exec_resume_mk]
    simp [runResume, deliver, deliverTop, finishTop, deliverCbs, bind, getS, enqueue, modS, pure]
    -- 4, 5: the slot is released, the reply is written
    rw [e4, settle_cons_mk]
    simp [runReady1, runTopCb, setSlot, modA, modS]
    rw [e5, settle_cons_mk]
    simp [runReady1, runTopCb, sendReply, bind, getA, emitRep, modS, pure]
    cases waiting <;> cases hc : a.ctlClosed <;> simp [replyLog, hc, modS] <;> (rw [e6]; exact settle_nil _ _ rfl)
  unfold finishStep
  simp only [bind]
  rw [hset]
  simp [getA, hls]
  rfl

/-- the `rm` request for the watcher called `name` -/
def rmReq (name : String) (waiting : Bool) : JVal :=
  .obj [("command", .str "rm"), ("properties", .obj [("name", .str name), ("waiting", .bool waiting)])]

theorem ve_rm (name : String) (waiting : Bool) (u : Nat) (s : State) (hn : s.a.names.lookup (pyLower name) = some u)
    (hr : s.a.restarting = false) (hs : s.a.slot = none) :
    validateExecute "rm" (.obj [("name", .str name), ("waiting", .bool waiting)]) s =
      (.ok (.future s.nextId ""),
        (armTop s.nextId (exec fuelDefault (.call (.rmWatcher u false) (.top s.nextId))
          { s with a := { s.a with slot := some "arbiter_rm_watcher" },
                   tops := s.tops ++ [{ tid := s.nextId, cbs := [.release] }],
                   nextId := s.nextId + 1 }).2).2) := by
  unfold validateExecute
  simp [requiredProps, bind, execRm, JVal.has, JVal.get?, List.lookup, getWatcherCmd, lookupWatcher, getA, hn, JVal.truthy,
    syncCoroutine_free _ _ _ hr hs, pure, Except.map]

/-- **the `rm` request for an active watcher whose workers ignore the stop signal** -/
theorem req_rm_parks (cid name : String) (waiting : Bool) (u t : Nat) (w : Watcher) (k : Kernel) (a : Arbiter)
    (objs : List PObj) (dv : List (Nat × Val)) (log : List Obs)
    (hn : a.names.lookup (pyLower name) = some u) (hr : a.restarting = false) (hsl : a.slot = none)
    (hls : a.loopStop = false)
    (hw : SOk u w) (hst : w.status = .active) (hne : w.pids ≠ []) (hnd : w.pids.Nodup) (hpolls : 0 < pollsOf w.graceful)
    (hk : k.Base)
    (hall : ∀ pid ∈ w.pids, k.Stub pid ∧
      ∃ o, objs.find? (fun o => decide (o.pid = pid)) = some o ∧ o.stopping = false ∧ o.rc = none) :
    step ⟨k, a, objs, [w], [], [], [], [], dv, t, log, false⟩ (.req cid (some (rmReq name waiting))) =
      killingG u w.pids.length w.stopSignal (pollsOf w.graceful) (rmBase u t) (t + 3) (t + 4) (.frame (t + 2) 0)
        [{ tid := t, cbs := [.release, .reply (some cid) .null false "rm" waiting ""], armed := true }] []
        (entries w.pids 0 (t + 5) k.now)
        ((k.beginStep.bump (2 * w.pids.length)).bump (2 * w.pids.length)) (unreg { a with slot := some "arbiter_rm_watcher" } u)
        (objs.map (fun o => if o.pid ∈ w.pids then { o with stopping := true } else o))
        { w with status := .stopping } [] (t + 5 + 2 * w.pids.length)
        (ackLog a cid waiting (parkLogs (unreg { a with slot := some "arbiter_rm_watcher" } u) { w with status := .stopping } w.pids
          (evlog a log w "remove" none "-"))) := by
  have hl : pyLower "rm" = "rm" := by decide +kernel
  have hve := ve_rm name waiting u ⟨k.beginStep, a, objs, [w], [], [], [], [], [], t, log, false⟩ hn hr hsl
  have hps := rm_parks u t w k.beginStep { a with slot := some "arbiter_rm_watcher" } objs
    [{ tid := t, cbs := [.release] }] [] log hw hst hne hnd hpolls hk.beginStep hall
  have hfd : fuelDefault = 100000 := rfl
  simp only [List.nil_append, hfd, hps] at hve
  unfold step
  rw [stepM_eq _ _ rfl]
  have hop : stepOp (.req cid (some (rmReq name waiting)))
      (updK Kernel.beginStep (⟨k, a, objs, [w], [], [], [], [], dv, t, log, false⟩ : State)).2 =
      ((), killingG u w.pids.length w.stopSignal (pollsOf w.graceful) (rmBase u t) (t + 3) (t + 4) (.frame (t + 2) 0)
        [{ tid := t, cbs := [.release, .reply (some cid) .null false "rm" waiting ""], armed := true }] []
        (entries w.pids 0 (t + 5) k.now)
        ((k.beginStep.bump (2 * w.pids.length)).bump (2 * w.pids.length)) (unreg { a with slot := some "arbiter_rm_watcher" } u)
        (objs.map (fun o => if o.pid ∈ w.pids then { o with stopping := true } else o))
        { w with status := .stopping } [] (t + 5 + 2 * w.pids.length)
        (ackLog a cid waiting (parkLogs (unreg { a with slot := some "arbiter_rm_watcher" } u) { w with status := .stopping } w.pids
          (evlog a log w "remove" none "-")))) := by
    simp only [stepOp, updK, runK]
    unfold handleMessage rmReq
    simp [JVal.isObj, JVal.get?, List.lookup, hl, commandNames, JVal.truthy, bind, clearDone, modS, hve]
    have hnow : k.beginStep.now = k.now := rfl
    cases waiting <;> cases hc : a.ctlClosed <;>
      simp [hc, armTop, addDoneCallback, topAddCb, sendReply, emitRep, modS, getS, getA, bind, pure, killingG, ackLog, hnow, unreg, evlog]
  rw [hop]
  have e1 : (100000 : Nat) = 99999 + 1 := rfl
  rw [stepTail_eq _ (by rw [e1, settle_nil _ _ rfl]; exact hls)]
  rw [e1, settle_nil _ _ rfl]

/-- the request step of `rm` leads into the polling phase with `m * polls` firings to go -/
theorem req_rm_mid (NZ : Prop) (cid name : String) (waiting : Bool) (u : Nat) (w : Watcher) (s : State)
    (hi : Idle u s) (hd : Stubborn u w s) (hn : s.a.names.lookup (pyLower name) = some u)
    (hne : w.pids ≠ []) (hpolls : 0 < pollsOf w.graceful) (hnz : NZ → ∀ p ∈ s.k.procs, p.st ≠ .zombie) :
    MidG NZ u (pollsOf w.graceful) (rmBase u s.nextId) (s.nextId + 3) (s.nextId + 4) (.frame (s.nextId + 2) 0)
      [{ tid := s.nextId, cbs := [.release, .reply (some cid) .null false "rm" waiting ""], armed := true }]
      { w with status := .stopping } (unreg { s.a with slot := some "arbiter_rm_watcher" } u) []
      (killCount s.log) (repC s.log + (if waiting = false ∧ s.a.ctlClosed = false then 1 else 0))
      (w.pids.length * pollsOf w.graceful) (step s (.req cid (some (rmReq name waiting)))) := by
  obtain ⟨k, a, objs, ws, frames, sleepers, tops, ready, dv, t, log, blocked⟩ := s
  obtain ⟨hf, hsl, ht, hr, hslot, hls, _, hrs, hwat⟩ := hi
  obtain ⟨hws, hb, hw, hst, hnd, hk, hall⟩ := hd
  simp only at hf hsl ht hr hslot hls hrs hws hb hk hall hnz hwat hn
  subst hf hsl ht hr hws hb
  rw [req_rm_parks cid name waiting u t w k a objs dv log hn hrs hslot hls hw hst hne hnd hpolls hk hall]
  dsimp only
  refine ⟨[], _, _, _, _, _, rfl, ?_, qMeasure_entries _ hpolls _ _ _ _⟩
  refine ⟨(hk.beginStep.bump _).bump _, entries_sorted _ _ _ _, ?_, ?_, ?_, ?_, ?_, ?_, ?_, ?_, ?_, ?_, hnz⟩
  · intro e he; have := entries_mem _ _ _ _ e he; omega
  · intro e he; have := entries_mem _ _ _ _ e he
    show e.dl ≤ k.now + 100
    omega
  · intro e he; have := entries_mem _ _ _ _ e he; omega
  · rw [entries_pids]; exact hnd
  · intro e he
    have hm := (entries_mem _ _ _ _ e he).2.2.2.2
    obtain ⟨hs, o, ho, _, hrc⟩ := hall e.pid hm
    refine ⟨hm, hs, (if o.pid ∈ w.pids then { o with stopping := true } else o), ?_, ?_⟩
    · rw [find_map_pid objs e.pid _ (fun o => by split <;> rfl), ho]; rfl
    · split <;> exact hrc
  · intro q hq hnq
    rw [entries_pids] at hnq; exact absurd hq hnq
  · simp [entries_length]
  · intro r hr; cases hr
  · rw [killCount_ackLog, killCount_parkLogs _ { w with status := .stopping } hw.sigNe9, killCount_evlog]; rfl
  · rw [repC_ackLog, repC_parkLogs, repC_evlog]

/-- **`rm` completes (workers that ignore the stop signal)**: the request and exactly `m * ⌈graceful/100 ms⌉`
    timer firings; the watcher has left the arbiter's list and dict in the request step already -/
theorem rm_run_stubborn (NZ : Prop) (cid name : String) (waiting : Bool) (u : Nat) (w : Watcher) (s : State)
    (hi : Idle u s) (hd : Stubborn u w s) (hn : s.a.names.lookup (pyLower name) = some u)
    (hne : w.pids ≠ []) (hpolls : 0 < pollsOf w.graceful) (hnz : NZ → ∀ p ∈ s.k.procs, p.st ≠ .zombie) :
    StopDone NZ { w with status := .stopping } (unreg s.a u)
      (killCount s.log + w.pids.length) (repC s.log + (if s.a.ctlClosed = false then 1 else 0))
      (run s (.req cid (some (rmReq name waiting)) :: List.replicate (w.pids.length * pollsOf w.graceful) .wake)) ∧
    (∀ j < w.pids.length * pollsOf w.graceful,
      repC (run s (.req cid (some (rmReq name waiting)) :: List.replicate j .wake)).log =
        repC s.log + (if waiting = false ∧ s.a.ctlClosed = false then 1 else 0)) ∧
    (∀ j < w.pids.length * pollsOf w.graceful,
      (run s (.req cid (some (rmReq name waiting)) :: List.replicate j .wake)).a =
        unreg { s.a with slot := some "arbiter_rm_watcher" } u) := by
  have hmid := req_rm_mid NZ cid name waiting u w s hi hd hn hne hpolls hnz
  have hpos : 0 < w.pids.length * pollsOf w.graceful :=
    Nat.mul_pos (List.length_pos_iff.mpr hne) hpolls
  obtain ⟨n, hn'⟩ : ∃ n, w.pids.length * pollsOf w.graceful = n + 1 := ⟨_, (Nat.succ_pred_eq_of_pos hpos).symm⟩
  rw [hn'] at hmid ⊢
  obtain ⟨h1, h2⟩ := mid_runG NZ u (pollsOf w.graceful) (rmBase u s.nextId) (s.nextId + 3) (s.nextId + 4) (.frame (s.nextId + 2) 0)
    _ { w with status := .stopping } (unreg { s.a with slot := some "arbiter_rm_watcher" } u) [] _ _
    (rmBase_gb u s.nextId) (by omega) hd.ok.stopping hi.loopStop n _ hmid
  refine ⟨?_, ?_, ?_⟩
  · rw [run_cons]
    obtain ⟨vs, k, objs, nid, log, hs', hB, hG, hK, hR, hZ⟩ := h2
    rw [hs', finish_rm u s.nextId cid .null waiting "" vs k (unreg { s.a with slot := some "arbiter_rm_watcher" } u)
      objs { w with status := .stopping } [] nid log hd.ok.stopping (by simp) hd.nodup hB hi.loopStop hG]
    refine ⟨rfl, rfl, rfl, rfl, rfl, rfl, rfl, hB.bump _, fun q hq => (hG q hq).1, ?_, ?_, hZ⟩
    · show killCount (replyLog _ _ _ _ _ _) = _
      rw [killCount_replyLog, killCount_evlog, killCount_reapLogs, hK]
    · show repC (replyLog _ _ _ _ _ _) = _
      rw [repC_replyLog, repC_evlog, repC_reapLogs, hR]
      have : (unreg { s.a with slot := some "arbiter_rm_watcher" } u).ctlClosed = s.a.ctlClosed := rfl
      rw [this]
      cases waiting <;> simp
  · intro j hj
    rw [run_cons]
    exact (h1 j (by omega)).reps
  · intro j hj
    rw [run_cons]
    obtain ⟨results, Q, k, objs, nid, log, hs', _, _⟩ := h1 j (by omega)
    rw [hs']; rfl

/-! ## Part G6: obedient workers below an arbitrary stack of callers — everything happens in place -/

/-- the two frames of `kill_processes` while its `gen.multi` is still being built (not yet armed) -/
def polU (fo fm m : Nat) (par : Waiter) (results : List (Nat × Val)) : List Frame :=
  [{ fid := fo, k := .ignore, parent := par }, { fid := fm, k := .multi m results, parent := .frame fo 0 }]

theorem deliver_multi_recordG (rec : Rec) (m idx : Nat) (v : Val) (results : List (Nat × Val)) (base : List Frame)
    (fo fm : Nat) (par : Waiter) (k : Kernel) (a : Arbiter)
    (objs : List PObj) (ws : List Watcher) (sleepers : List Sleeper) (tops : List TopFut) (ready : List Ready)
    (dv : List (Nat × Val)) (nid : Nat) (log : List Obs) (hg : GB base fo fm) (hlt : results.length + 1 < m) :
    deliver rec (.frame fm idx) v ⟨k, a, objs, ws, base ++ polU fo fm m par results, sleepers, tops, ready, dv, nid, log, false⟩ =
      ((), ⟨k, a, objs, ws, base ++ polU fo fm m par (results ++ [(idx, v)]), sleepers, tops, ready, dv, nid, log, false⟩) := by
  have hn : ¬ m ≤ results.length + 1 := by omega
  have hbm : ∀ g ∈ base, g.fid ≠ fm := fun g hgm => by have := hg.lt g hgm; have := hg.fofm; omega
  have hfofm : ¬ fo = fm := by have := hg.fofm; omega
  simp [deliver, bind, getS, polU, setFrameK, modS, hn, find_skip base _ fm hbm, hfofm, map_skip base _ fm _ hbm]

theorem deliver_multi_lastG (rec : Rec) (m idx : Nat) (v : Val) (results : List (Nat × Val)) (base : List Frame)
    (fo fm : Nat) (par : Waiter) (k : Kernel) (a : Arbiter)
    (objs : List PObj) (ws : List Watcher) (sleepers : List Sleeper) (tops : List TopFut) (ready : List Ready)
    (dv : List (Nat × Val)) (nid : Nat) (log : List Obs) (hg : GB base fo fm) (hge : m ≤ results.length + 1) :
    deliver rec (.frame fm idx) v ⟨k, a, objs, ws, base ++ polU fo fm m par results, sleepers, tops, ready, dv, nid, log, false⟩ =
      rec (.resume .pass (multiResult m (results ++ [(idx, v)])) (.frame fo 0))
        ⟨k, a, objs, ws, base ++ [{ fid := fo, k := .ignore, parent := par }], sleepers, tops, ready, dv, nid, log, false⟩ := by
  have hbm : ∀ g ∈ base, g.fid ≠ fm := fun g hgm => by have := hg.lt g hgm; have := hg.fofm; omega
  have hfofm : ¬ fo = fm := by have := hg.fofm; omega
  simp [deliver, bind, getS, polU, removeFrame, modS, hge, find_skip base _ fm hbm, hfofm, filter_skip base _ fm hbm]

/-- `kill_processes` returns to a caller that is still on the stack -/
theorem kp_returns (n : Nat) (vs : List Val) (base : List Frame) (fo : Nat) (par : Waiter) (k : Kernel) (a : Arbiter)
    (objs : List PObj) (ws : List Watcher) (sleepers : List Sleeper) (tops : List TopFut) (ready : List Ready)
    (dv : List (Nat × Val)) (nid : Nat) (log : List Obs) (hb : ∀ g ∈ base, g.fid ≠ fo) :
    exec (n + 1) (.resume .pass (.list vs) (.frame fo 0))
        ⟨k, a, objs, ws, base ++ [{ fid := fo, k := .ignore, parent := par }], sleepers, tops, ready, dv, nid, log, false⟩ =
      exec n (.resume .ignore (.list vs) par) ⟨k, a, objs, ws, base, sleepers, tops, ready, dv, nid, log, false⟩ := by
  rw [exec_resume_mk]
  simp [runResume, deliver, bind, getS, removeFrame, modS, find_skip base _ fo hb, filter_skip base _ fo hb]

theorem obedAllG (n u m : Nat) (base : List Frame) (fo fm : Nat) (par : Waiter) (w : Watcher) (a : Arbiter)
    (sleepers : List Sleeper) (tops : List TopFut) (ready : List Ready)
    (dv : List (Nat × Val)) (nid : Nat) (hg : GB base fo fm) (hw : TOk u w) (hpolls : 0 < pollsOf w.graceful) (l : List Nat) :
    ∀ (idx : Nat) (k : Kernel) (objs : List PObj) (results : List (Nat × Val)) (log : List Obs),
      k.Base → l.Nodup →
      (∀ pid ∈ l, pid ∈ w.pids ∧ k.Obed pid ∧
        ∃ o, objs.find? (fun o => decide (o.pid = pid)) = some o ∧ o.stopping = false ∧ o.rc = none) →
      results.length + l.length < m →
      (forIn (l.map fun p => Call.killProcess u p none none) idx (multiBody (exec (n + 1)) fm) : M Nat)
          ⟨k, a, objs, [w], base ++ polU fo fm m par results, sleepers, tops, ready, dv, nid, log, false⟩ =
        (idx + l.length, ⟨k.obeyedAll w.stopSignal l, a,
          objs.map (fun o => if o.pid ∈ l then { o with stopping := false, rc := some (exitCodeOf (wstatSig w.stopSignal)) } else o),
          [w], base ++ polU fo fm m par (results ++ idxResults l idx), sleepers, tops, ready, dv, nid,
          obedLogs a w l log, false⟩) := by
  induction l with
  | nil =>
    intro idx k objs results log _ _ _ _
    simp [idxResults, obedLogs, Kernel.obeyedAll, pure]
  | cons p rest ih =>
    intro idx k objs results log hk hnd hall hlen
    obtain ⟨hp, hs, o, ho, hst, hrc⟩ := hall p (by simp)
    have hnd' := List.nodup_cons.mp hnd
    simp only [List.length_cons] at hlen
    rw [List.map_cons, List.forIn_cons]
    simp only [bind, multiBody]
    rw [exec_call_mk]
    simp only [runCall]
    rw [killProcess_obed (exec n) u p (.frame fm idx) w o k a objs _ sleepers tops ready dv nid log hw hk hs hp ho hst hrc hpolls]
    rw [deliver_multi_recordG (exec n) m idx (.bool true) results base fo fm par _ a _ [w] sleepers tops ready dv nid _ hg (by omega)]
    have hih := ih (idx + 1) (k.obeyed p w.stopSignal)
      (objs.map (fun o => if o.pid = p then { o with stopping := false, rc := some (exitCodeOf (wstatSig w.stopSignal)) } else o))
      (results ++ [(idx, Val.bool true)])
      (evlog a (log ++ [Obs.sig p w.stopSignal .run ""]) w "kill" (some p) "-" ++ [Obs.reap p (wstatSig w.stopSignal)])
      (Kernel.obeyed_base hk hs _) hnd'.2 (by
        intro q hq
        obtain ⟨hq1, ⟨x, hf, hx⟩, oq, hoq, hq3, hq4⟩ := hall q (by simp [hq])
        have hne : q ≠ p := fun h => hnd'.1 (h ▸ hq)
        refine ⟨hq1, ⟨x, by rw [Kernel.obeyed_find_other hk hs _ hne]; exact hf, hx⟩, oq, ?_, hq3, hq4⟩
        rw [find_modO objs p q (fun o => { o with stopping := false, rc := some (exitCodeOf (wstatSig w.stopSignal)) }) (fun _ => rfl), hoq]
        have : oq.pid = q := by simpa using List.find?_some hoq
        simp [this, hne]) (by simp only [List.length_append, List.length_cons, List.length_nil]; omega)
    simp only []
    rw [hih]
    simp only [idxResults, obedLogs, Kernel.obeyedAll, List.length_cons, List.map_map, List.append_assoc, List.singleton_append]
    have h1 : idx + 1 + rest.length = idx + (rest.length + 1) := by omega
    have hobj : List.map ((fun o => if o.pid ∈ rest then { o with stopping := false, rc := some (exitCodeOf (wstatSig w.stopSignal)) } else o) ∘
        fun o => if o.pid = p then { o with stopping := false, rc := some (exitCodeOf (wstatSig w.stopSignal)) } else o) objs =
        List.map (fun o => if o.pid ∈ p :: rest then { o with stopping := false, rc := some (exitCodeOf (wstatSig w.stopSignal)) } else o) objs := by
      apply List.map_congr_left
      intro x _
      simp only [Function.comp, List.mem_cons]
      by_cases hx : x.pid = p <;> by_cases hr : x.pid ∈ rest <;> simp [hx, hr]
    rw [h1, hobj]

/-- **`kill_processes` over obedient workers, called from a coroutine that is still on the stack**: every worker
    is signalled, dies and is collected, in order; then the caller `par` is resumed in place -/
theorem killProcesses_obedG (n u : Nat) (base : List Frame) (par : Waiter) (w : Watcher) (k : Kernel) (a : Arbiter)
    (objs : List PObj) (tops : List TopFut) (dv : List (Nat × Val)) (nid : Nat) (log : List Obs)
    (hb : ∀ g ∈ base, g.fid < nid) (hw : TOk u w) (hne : w.pids ≠ []) (hnd : w.pids.Nodup) (hpolls : 0 < pollsOf w.graceful)
    (hk : k.Base)
    (hall : ∀ pid ∈ w.pids, k.Obed pid ∧
      ∃ o, objs.find? (fun o => decide (o.pid = pid)) = some o ∧ o.stopping = false ∧ o.rc = none) :
    ∃ vs kF objsF logF,
      killProcesses (exec (n + 2)) u none none par ⟨k, a, objs, [w], base, [], tops, [], dv, nid, log, false⟩ =
        armFrame nid (armFrame (nid + 1)
          (exec n (.resume .ignore (.list vs) par) ⟨kF, a, objsF, [w], base, [], tops, [], dv, nid + 2, logF, false⟩).2).2 ∧
      kF.Base ∧
      (∀ pid ∈ w.pids, kF.GoneP pid ∧
        ∃ o, objsF.find? (fun o => decide (o.pid = pid)) = some o ∧ o.rc = some (exitCodeOf (wstatSig w.stopSignal))) ∧
      killCount logF = killCount log ∧ repC logF = repC log ∧
      ((∀ p ∈ k.procs, p.st ≠ .zombie) → ∀ p ∈ kF.procs, p.st ≠ .zombie) := by
  obtain ⟨init, q, hpids⟩ : ∃ init q, w.pids = init ++ [q] := by
    rcases List.eq_nil_or_concat w.pids with h | ⟨i, q, h⟩
    · exact absurd h hne
    · exact ⟨i, q, by simpa using h⟩
  have hg : GB base nid (nid + 1) := ⟨hb, by omega⟩
  have hndq : init.Nodup ∧ q ∉ init := by
    have := hnd; rw [hpids] at this
    have h2 := List.nodup_append.mp this
    exact ⟨h2.1, fun hq => h2.2.2 q hq q (by simp) rfl⟩
  have hqm : q ∈ w.pids := by rw [hpids]; simp
  have him : ∀ pid ∈ init, pid ∈ w.pids := fun pid h => by rw [hpids]; simp [h]
  have hlen : w.pids.length = init.length + 1 := by rw [hpids]; simp
  have hkb : (k.bump (2 * w.pids.length)).Base := hk.bump _
  have hob0 : ∀ pid ∈ w.pids, (k.bump (2 * w.pids.length)).Obed pid := fun pid hp => (hall pid hp).1
  have hob := obedAllG (n + 1) u w.pids.length base nid (nid + 1) par w a [] tops [] dv (nid + 2) hg hw hpolls
    init 0 (k.bump (2 * w.pids.length)) objs [] log hkb hndq.1
    (fun pid hp => ⟨him pid hp, hob0 pid (him pid hp), (hall pid (him pid hp)).2⟩) (by simp only [List.length_nil]; omega)
  obtain ⟨hB1, hF1, hG1, hZ1⟩ := Kernel.obeyedAll_facts w.stopSignal init _ hkb hndq.1 (fun pid hp => hob0 pid (him pid hp))
  have hq1 : ((k.bump (2 * w.pids.length)).obeyedAll w.stopSignal init).Obed q := by
    obtain ⟨x, hf, hx⟩ := hob0 q hqm
    exact ⟨x, by rw [hF1 q hndq.2]; exact hf, hx⟩
  obtain ⟨oq, hoq, hoq2, hoq3⟩ := (hall q hqm).2
  have hoqp : oq.pid = q := by simpa using List.find?_some hoq
  have hoq' : (objs.map (fun o => if o.pid ∈ init then
      { o with stopping := false, rc := some (exitCodeOf (wstatSig w.stopSignal)) } else o)).find? (fun o => decide (o.pid = q)) = some oq := by
    rw [find_map_pid objs q _ (fun o => by split <;> rfl), hoq]
    simp [hoqp, hndq.2]
  have hB2 := Kernel.obeyed_base hB1 hq1 w.stopSignal
  have hallF : ∀ pid ∈ w.pids, (((k.bump (2 * w.pids.length)).obeyedAll w.stopSignal init).obeyed q w.stopSignal).GoneP pid ∧
      ∃ o', ((objs.map (fun o => if o.pid ∈ init then
          { o with stopping := false, rc := some (exitCodeOf (wstatSig w.stopSignal)) } else o)).map
          (fun o => if o.pid = q then { o with stopping := false, rc := some (exitCodeOf (wstatSig w.stopSignal)) } else o)).find?
        (fun o => decide (o.pid = pid)) = some o' ∧ o'.rc = some (exitCodeOf (wstatSig w.stopSignal)) := by
    intro pid hpid
    obtain ⟨o, ho, _, _⟩ := (hall pid hpid).2
    have hop : o.pid = pid := by simpa using List.find?_some ho
    rw [find_map_pid _ pid _ (fun o => by split <;> rfl), find_map_pid objs pid _ (fun o => by split <;> rfl), ho]
    by_cases hpq : pid = q
    · subst hpq
      refine ⟨Kernel.obeyed_find_self hB1 hq1 _, _, rfl, ?_⟩
      simp [hop, hndq.2]
    · have hpi : pid ∈ init := by
        rw [hpids] at hpid
        simp only [List.mem_append, List.mem_singleton] at hpid
        rcases hpid with h | h
        · exact h
        · exact absurd h hpq
      obtain ⟨x, hf, hg⟩ := hG1 pid hpi
      refine ⟨⟨x, by rw [Kernel.obeyed_find_other hB1 hq1 _ hpq]; exact hf, hg⟩, _, rfl, ?_⟩
      simp [hop, hpi, hpq]
  obtain ⟨vs, hvs⟩ := multiResult_bools w.pids.length (([] ++ idxResults init 0) ++ [(0 + init.length, Val.bool true)]) (by
    intro r hr
    rcases List.mem_append.mp hr with hr | hr
    · exact idxResults_bools init 0 r (by simpa using hr)
    · simp only [List.mem_singleton] at hr; subst hr; rfl)
  have hact : activeProcs u ⟨k, a, objs, [w], base, [], tops, [], dv, nid, log, false⟩ =
      (w.pids, ⟨k.bump (2 * w.pids.length), a, objs, [w], base, [], tops, [], dv, nid, log, false⟩) :=
    activeProcs_running u w _ rfl hw.ok.uid hk.calm
      (fun pid hp => by obtain ⟨⟨p, hf, hr, _⟩, _⟩ := hall pid hp; exact ⟨p, hf, hr⟩)
  refine ⟨vs, _, _,
    evlog a (obedLogs a w init log ++ [Obs.sig q w.stopSignal .run ""]) w "kill" (some q) "-" ++ [Obs.reap q (wstatSig w.stopSignal)],
    ?_, hB2, hallF, ?_, ?_, fun hz => Kernel.obeyed_nozombie hB1 hq1 _ (hZ1 hz)⟩
  · unfold killProcesses
    simp only [bind, hact]
    rw [awaitMulti_ne _ _ (by rw [hpids]; simp)]
    simp only [List.length_map]
    rw [show (List.map (fun p => Call.killProcess u p none none) w.pids) =
      List.map (fun p => Call.killProcess u p none none) init ++ [Call.killProcess u q none none] by rw [hpids]; simp]
    rw [forIn_multi_append]
    erw [hob]
    simp only []
    rw [List.forIn_cons]
    simp only [bind, multiBody, List.forIn_nil, pure]
    rw [show n + 2 = (n + 1) + 1 from rfl, exec_call_mk]
    simp only [runCall]
    rw [killProcess_obed (exec (n + 1)) u q (.frame (nid + 1) (0 + init.length)) w oq _ a _ _ [] _ [] dv (nid + 2) _
      hw hB1 hq1 hqm hoq' hoq2 hoq3 hpolls]
    rw [deliver_multi_lastG (exec (n + 1)) w.pids.length (0 + init.length) (.bool true) _ base nid (nid + 1) par _ a _ _ [] _ [] dv (nid + 2) _
      hg (by simp only [List.nil_append, idxResults_length]; omega)]
    rw [hvs, kp_returns n vs base nid par _ a _ _ [] _ [] dv (nid + 2) _ (fun g hgm => by have := hb g hgm; omega)]
  · have := killCount_obedLogs a w hw.ok.sigNe9 (init ++ [q]) log
    rw [obedLogs_append] at this
    exact this
  · have := repC_obedLogs a w (init ++ [q]) log
    rw [obedLogs_append] at this
    exact this

/-- the callers of `kill_processes` during `Arbiter.stop()`, still on the stack -/
def quitBaseU (u t : Nat) : List Frame :=
  [{ fid := t + 1, k := .quitAfterStop, parent := .top t },
   { fid := t + 2, k := .ignore, parent := .frame (t + 1) 0 },
   { fid := t + 3, k := .multi 1 [], parent := .frame (t + 2) 0 },
   { fid := t + 4, k := .stopAfterKill u true, parent := .frame (t + 3) 0 }]

/-- **`kill_processes` returns while `Arbiter.stop()` is still in its first, eager run**: `_stop` finishes,
    `_stop_watchers` returns, `stop` schedules `loop.stop` and returns; the future completes and releases the slot -/
theorem unwind_quit (n u t : Nat) (c : Int) (vs : List Val) (k : Kernel) (a : Arbiter) (objs : List PObj) (w : Watcher)
    (dv : List (Nat × Val)) (nid : Nat) (log : List Obs)
    (hw : SOk u w) (hst : w.status ≠ .stopped) (hk : k.Base) (hnd : w.pids.Nodup)
    (hall : ∀ pid ∈ w.pids, k.GoneP pid ∧ ∃ o, objs.find? (fun o => decide (o.pid = pid)) = some o ∧ o.rc = some c) :
    exec (n + 5) (.resume .ignore (.list vs) (.frame (t + 4) 0))
        ⟨k, a, objs, [w], quitBaseU u t, [], [{ tid := t, cbs := [.release] }], [], dv, nid, log, false⟩ =
      ((), ⟨k.bump w.pids.length, { a with slot := none, loopStop := true }, objs, [{ w with pids := [], status := .stopped }],
        [], [], [], [], (t, Val.unit) :: dv, nid, evlog a (reapLogsC a w c w.pids log) w "stop" none "-", false⟩) := by
  rw [show n + 5 = (n + 4) + 1 from rfl, exec_resume_mk]
  simp [runResume, deliver, bind, getS, removeFrame, modS, quitBaseU]
  rw [show n + 4 = (n + 3) + 1 from rfl, exec_resume_mk]
  simp only [runResume]
  rw [stopAfterKill_goneC (exec (n + 3)) u c (.frame (t + 3) 0) k a objs w _ [] _ [] dv nid log hw hst hk hnd hall]
  simp [deliver, bind, getS, removeFrame, modS]
  have hmr : multiResult 1 [(0, Val.unit)] = .list [.unit] := rfl
  rw [hmr, show n + 3 = (n + 2) + 1 from rfl, exec_resume_mk]
  simp [runResume, deliver, bind, getS, removeFrame, modS]
  rw [show n + 2 = (n + 1) + 1 from rfl, exec_resume_mk]
  simp [runResume, deliver, bind, getS, removeFrame, modS]
  rw [exec_resume_mk]
  simp [runResume, arbStopTail, setLoopStop, deliver, deliverTop, finishTop, deliverCbs, runTopCb, setSlot, modA, bind, getS, modS, pure]

/-- **`Arbiter.stop()` with one active watcher whose workers obey the stop signal**: complete within its first,
    eager run; the loop is asked to stop -/
theorem arbStop_obed (u t : Nat) (w : Watcher) (k : Kernel) (a : Arbiter) (objs : List PObj)
    (dv : List (Nat × Val)) (log : List Obs)
    (hw : TOk u w) (hst : w.status = .active) (hne : w.pids ≠ []) (hnd : w.pids.Nodup) (hpolls : 0 < pollsOf w.graceful)
    (hk : k.Base) (hwat : a.watchers = [u])
    (hall : ∀ pid ∈ w.pids, k.Obed pid ∧
      ∃ o, objs.find? (fun o => decide (o.pid = pid)) = some o ∧ o.stopping = false ∧ o.rc = none) :
    ∃ kF objsF logF,
      exec 100000 (.call .arbStop (.top t)) ⟨k, a, objs, [w], [], [], [{ tid := t, cbs := [.release] }], [], dv, t + 1, log, false⟩ =
        ((), ⟨kF, { a with stopping := true, slot := none, loopStop := true }, objsF,
          [{ w with pids := [], status := .stopped }], [], [], [], [], (t, Val.unit) :: dv, t + 7, logF, false⟩) ∧
      kF.Base ∧ (∀ pid ∈ w.pids, kF.GoneP pid) ∧ killCount logF = killCount log ∧ repC logF = repC log ∧
      ((∀ p ∈ k.procs, p.st ≠ .zombie) → ∀ p ∈ kF.procs, p.st ≠ .zombie) := by
  have hw' : TOk u { w with status := .stopping } := ⟨⟨hw.ok.uid, hw.ok.hooks, hw.ok.stopChildren, hw.ok.sigNe9⟩, hw.ne0, hw.heard⟩
  obtain ⟨vs, kF, objsF, logF, hkp, hB, hG, hK, hR, hZ⟩ := killProcesses_obedG 99994 u (quitBaseU u t) (.frame (t + 4) 0)
    { w with status := .stopping } k { a with stopping := true } objs [{ tid := t, cbs := [.release] }] dv (t + 5) log
    (by
      intro g hg
      simp only [quitBaseU, List.mem_cons, List.mem_nil_iff, or_false] at hg
      rcases hg with rfl | rfl | rfl | rfl <;> simp) hw' hne hnd hpolls hk hall
  have e1 : (100000 : Nat) = 99999 + 1 := rfl
  have e2 : (99999 : Nat) = 99998 + 1 := rfl
  have e3 : (99998 : Nat) = 99997 + 1 := rfl
  have e4 : (99997 : Nat) = 99996 + 1 := rfl
  refine ⟨kF.bump w.pids.length, objsF,
    evlog { a with stopping := true } (reapLogsC { a with stopping := true } { w with status := .stopping }
      (exitCodeOf (wstatSig w.stopSignal)) w.pids logF) { w with status := .stopping } "stop" none "-",
    ?_, hB.bump _, fun pid hp => (hG pid hp).1, ?_, ?_, hZ⟩
  · rw [e1, exec_call_mk]
    simp only [runCall]
    have harb : arbStop (exec 99999) (.top t) ⟨k, a, objs, [w], [], [], [{ tid := t, cbs := [.release] }], [], dv, t + 1, log, false⟩ =
        await (exec 99999) (.arbStopWatchers [u] true) .quitAfterStop (.top t)
          ⟨k, { a with stopping := true }, objs, [w], [], [], [{ tid := t, cbs := [.release] }], [], dv, t + 1, log, false⟩ := by
      unfold arbStop
      simp only [bind, setStopping, modA, modS]
      rw [iterWatchers_single false u w _ rfl hw.ok.uid hwat]
    rw [harb, await_eq]
    simp only [List.nil_append]
    rw [e2, exec_call_mk]
    simp only [runCall, List.map_cons, List.map_nil]
    rw [awaitMulti_single]
    simp only [List.cons_append, List.nil_append]
    rw [e3, exec_call_mk]
    simp only [runCall]
    have hstopW : stopW (exec 99997) u true (.frame (t + 1 + 1 + 1) 0)
        ⟨k, { a with stopping := true }, objs, [w],
          [{ fid := t + 1, k := .quitAfterStop, parent := .top t },
           { fid := t + 1 + 1, k := .ignore, parent := .frame (t + 1) 0 },
           { fid := t + 1 + 1 + 1, k := .multi 1 [], parent := .frame (t + 1 + 1) 0 }], [], [{ tid := t, cbs := [.release] }], [], dv,
          t + 1 + 1 + 2, log, false⟩ =
        await (exec 99997) (.killProcesses u none none) (.stopAfterKill u true) (.frame (t + 1 + 1 + 1) 0)
          ⟨k, { a with stopping := true }, objs, [{ w with status := .stopping }],
            [{ fid := t + 1, k := .quitAfterStop, parent := .top t },
             { fid := t + 1 + 1, k := .ignore, parent := .frame (t + 1) 0 },
             { fid := t + 1 + 1 + 1, k := .multi 1 [], parent := .frame (t + 1 + 1) 0 }], [], [{ tid := t, cbs := [.release] }], [], dv,
            t + 1 + 1 + 2, log, false⟩ := by
      simp [stopW, bind, getW, hw.ok.uid, hst, setStatus, modW, modS, callHook_mk, hw.ok.hooks]
    rw [hstopW, await_eq]
    simp only [List.cons_append, List.nil_append]
    rw [e4, exec_call_mk]
    simp only [runCall]
    erw [hkp]
    erw [unwind_quit 99989 u t (exitCodeOf (wstatSig w.stopSignal)) vs kF { a with stopping := true } objsF
      { w with status := .stopping } dv (t + 5 + 2) logF hw'.ok (by simp) hB hnd hG]
    simp [armFrame, modS]
  · rw [killCount_evlog, killCount_reapLogsC, hK]
  · rw [repC_evlog, repC_reapLogsC, hR]

/-- **the `quit` request, one active watcher whose workers obey the stop signal**: complete within the step —
    the workers dead and collected, the reply written, then the sockets closed -/
theorem req_quit_obed (NZ : Prop) (cid : String) (waiting : Bool) (u t : Nat) (w : Watcher) (k : Kernel) (a : Arbiter)
    (objs : List PObj) (dv : List (Nat × Val)) (log : List Obs)
    (hr : a.restarting = false) (hsl : a.slot = none) (hls : a.loopStop = false) (hwat : a.watchers = [u])
    (hw : TOk u w) (hst : w.status = .active) (hne : w.pids ≠ []) (hnd : w.pids.Nodup) (hpolls : 0 < pollsOf w.graceful)
    (hk : k.Base)
    (hall : ∀ pid ∈ w.pids, k.Obed pid ∧
      ∃ o, objs.find? (fun o => decide (o.pid = pid)) = some o ∧ o.stopping = false ∧ o.rc = none)
    (hnz : NZ → ∀ p ∈ k.procs, p.st ≠ .zombie) :
    QuitDone NZ w a (killCount log) (repC log + (if a.ctlClosed = false then 1 else 0))
      (step ⟨k, a, objs, [w], [], [], [], [], dv, t, log, false⟩ (.req cid (some (quitReq waiting)))) := by
  have hl : pyLower "quit" = "quit" := by decide +kernel
  have hve := ve_quit_run waiting ⟨k.beginStep, a, objs, [w], [], [], [], [], [], t, log, false⟩ hr hsl
  obtain ⟨kF, objsF, logF, hex, hB, hG, hK, hR, hZ⟩ := arbStop_obed u t w k.beginStep { a with slot := some "arbiter_stop" } objs
    [] log hw hst hne hnd hpolls hk.beginStep hwat hall
  have hfd : fuelDefault = 100000 := rfl
  simp only [List.nil_append, hfd, hex] at hve
  unfold step
  rw [stepM_eq _ _ rfl]
  have hop : stepOp (.req cid (some (quitReq waiting)))
      (updK Kernel.beginStep (⟨k, a, objs, [w], [], [], [], [], dv, t, log, false⟩ : State)).2 =
      ((), ⟨kF, { a with stopping := true, slot := none, loopStop := true }, objsF, [{ w with pids := [], status := .stopped }], [], [], [],
        [.topCb (.reply (some cid) .null false "quit" waiting "") .unit], [(t, Val.unit)], t + 7,
        ackLog a cid waiting logF, false⟩) := by
    simp only [stepOp, updK, runK]
    unfold handleMessage quitReq
    simp [JVal.isObj, JVal.get?, List.lookup, hl, commandNames, JVal.truthy, bind, clearDone, modS, hve]
    cases waiting <;> cases hc : a.ctlClosed <;>
      simp [hc, armTop, addDoneCallback, enqueue, sendReply, emitRep, modS, getS, getA, bind, pure, ackLog, List.lookup]
  rw [hop, stepTail_finish]
  have e1 : (100000 : Nat) = 99999 + 1 := rfl
  have e2 : (99999 : Nat) = 99998 + 1 := rfl
  have hset : settle 100000 ⟨kF, { a with stopping := true, slot := none, loopStop := true }, objsF,
        [{ w with pids := [], status := .stopped }], [], [], [],
        [.topCb (.reply (some cid) .null false "quit" waiting "") .unit], [(t, Val.unit)], t + 7,
        ackLog a cid waiting logF, false⟩ =
      ((), ⟨kF, { a with stopping := true, slot := none, loopStop := true }, objsF, [{ w with pids := [], status := .stopped }],
        [], [], [], [], [(t, Val.unit)], t + 7,
        replyLog a cid .null waiting "" (ackLog a cid waiting logF), false⟩) := by
    rw [e1, settle_cons_mk]
    simp [runReady1, runTopCb, sendReply, bind, getA, emitRep, modS, pure]
    cases waiting <;> cases hc : a.ctlClosed <;> simp [replyLog, hc, modS] <;> (rw [e2]; exact settle_nil _ _ rfl)
  have hfin : finishStep 100000 ⟨kF, { a with stopping := true, slot := none, loopStop := true }, objsF,
        [{ w with pids := [], status := .stopped }], [], [], [],
        [.topCb (.reply (some cid) .null false "quit" waiting "") .unit], [(t, Val.unit)], t + 7,
        ackLog a cid waiting logF, false⟩ =
      ((), ⟨kF, { a with stopping := true, slot := none, loopStop := false, ctlClosed := true, pubClosed := true }, objsF,
        [{ w with pids := [], status := .stopped }], [], [], [], [], [(t, Val.unit)], t + 7,
        closeLog a (replyLog a cid .null waiting "" (ackLog a cid waiting logF)), false⟩) := by
    unfold finishStep
    simp only [bind]
    rw [hset]
    simp [getA, setLoopStop, modA, modS, stopController, bind, emit, Obs.isRep, Obs.isEv, setClosed, closeLog]
    cases hc : a.ctlClosed <;> cases hp : a.pubClosed <;> simp [hc, hp, modS, pure]
  rw [hfin]
  refine ⟨rfl, rfl, rfl, rfl, rfl, rfl, rfl, hB, hG, ⟨_, rfl, ?_, ?_⟩, fun h => hZ (hnz h)⟩
  · rw [killCount_replyLog, killCount_ackLog, hK]
  · rw [repC_replyLog, repC_ackLog, hR]
    cases waiting <;> simp

/-- **`quit` completes within the request step (workers that obey the stop signal)** -/
theorem quit_run_obedient (NZ : Prop) (cid : String) (waiting : Bool) (u : Nat) (w : Watcher) (s : State)
    (hi : Idle u s) (hd : Obedient u w s)
    (hne : w.pids ≠ []) (hpolls : 0 < pollsOf w.graceful) (hnz : NZ → ∀ p ∈ s.k.procs, p.st ≠ .zombie) :
    QuitDone NZ w s.a (killCount s.log) (repC s.log + (if s.a.ctlClosed = false then 1 else 0))
      (step s (.req cid (some (quitReq waiting)))) := by
  obtain ⟨k, a, objs, ws, frames, sleepers, tops, ready, dv, t, log, blocked⟩ := s
  obtain ⟨hf, hsl, ht, hr, hslot, hls, _, hrs, hwat⟩ := hi
  obtain ⟨hws, hb, hw, hst, hnd, hk, hall⟩ := hd
  simp only at hf hsl ht hr hslot hls hrs hws hb hk hall hnz hwat
  subst hf hsl ht hr hws hb
  exact req_quit_obed NZ cid waiting u t w k a objs dv log hrs hslot hls hwat hw hst hne hnd hpolls hk hall hnz

/-- the callers of `kill_processes` during `rm_watcher`, still on the stack -/
def rmBaseU (u t : Nat) : List Frame :=
  [{ fid := t + 1, k := .ignore, parent := .top t },
   { fid := t + 2, k := .stopAfterKill u false, parent := .frame (t + 1) 0 }]

theorem unwind_rm (n u t : Nat) (c : Int) (vs : List Val) (k : Kernel) (a : Arbiter) (objs : List PObj) (w : Watcher)
    (dv : List (Nat × Val)) (nid : Nat) (log : List Obs)
    (hw : SOk u w) (hst : w.status ≠ .stopped) (hk : k.Base) (hnd : w.pids.Nodup)
    (hall : ∀ pid ∈ w.pids, k.GoneP pid ∧ ∃ o, objs.find? (fun o => decide (o.pid = pid)) = some o ∧ o.rc = some c) :
    exec (n + 3) (.resume .ignore (.list vs) (.frame (t + 2) 0))
        ⟨k, a, objs, [w], rmBaseU u t, [], [{ tid := t, cbs := [.release] }], [], dv, nid, log, false⟩ =
      ((), ⟨k.bump w.pids.length, { a with slot := none }, objs, [{ w with pids := [], status := .stopped }],
        [], [], [], [], (t, Val.unit) :: dv, nid, evlog a (reapLogsC a w c w.pids log) w "stop" none "-", false⟩) := by
  have hsk : ∀ (rec : Rec) (wt : Waiter), stopAfterKill rec u false wt = stopAfterKill rec u true wt := fun _ _ => rfl
  rw [show n + 3 = (n + 2) + 1 from rfl, exec_resume_mk]
  simp [runResume, deliver, bind, getS, removeFrame, modS, rmBaseU]
  rw [show n + 2 = (n + 1) + 1 from rfl, exec_resume_mk]
  simp only [runResume, hsk]
  rw [stopAfterKill_goneC (exec (n + 1)) u c (.frame (t + 1) 0) k a objs w _ [] _ [] dv nid log hw hst hk hnd hall]
  simp [deliver, bind, getS, removeFrame, modS]
  rw [exec_resume_mk]
  simp [runResume, deliver, deliverTop, finishTop, deliverCbs, runTopCb, setSlot, modA, bind, getS, modS, pure]

/-- **`rm_watcher` on an active watcher whose workers obey the stop signal**: complete within its first, eager run -/
theorem rm_obed (u t : Nat) (w : Watcher) (k : Kernel) (a : Arbiter) (objs : List PObj)
    (dv : List (Nat × Val)) (log : List Obs)
    (hw : TOk u w) (hst : w.status = .active) (hne : w.pids ≠ []) (hnd : w.pids.Nodup) (hpolls : 0 < pollsOf w.graceful)
    (hk : k.Base)
    (hall : ∀ pid ∈ w.pids, k.Obed pid ∧
      ∃ o, objs.find? (fun o => decide (o.pid = pid)) = some o ∧ o.stopping = false ∧ o.rc = none) :
    ∃ kF objsF logF,
      exec 100000 (.call (.rmWatcher u false) (.top t)) ⟨k, a, objs, [w], [], [], [{ tid := t, cbs := [.release] }], [], dv, t + 1, log, false⟩ =
        ((), ⟨kF, { unreg a u with slot := none }, objsF,
          [{ w with pids := [], status := .stopped }], [], [], [], [], (t, Val.unit) :: dv, t + 5, logF, false⟩) ∧
      kF.Base ∧ (∀ pid ∈ w.pids, kF.GoneP pid) ∧ killCount logF = killCount log ∧ repC logF = repC log ∧
      ((∀ p ∈ k.procs, p.st ≠ .zombie) → ∀ p ∈ kF.procs, p.st ≠ .zombie) := by
  have hw' : TOk u { w with status := .stopping } := ⟨⟨hw.ok.uid, hw.ok.hooks, hw.ok.stopChildren, hw.ok.sigNe9⟩, hw.ne0, hw.heard⟩
  obtain ⟨vs, kF, objsF, logF, hkp, hB, hG, hK, hR, hZ⟩ := killProcesses_obedG 99995 u (rmBaseU u t) (.frame (t + 2) 0)
    { w with status := .stopping } k (unreg a u) objs [{ tid := t, cbs := [.release] }] dv (t + 3) (evlog a log w "remove" none "-")
    (by
      intro g hg
      simp only [rmBaseU, List.mem_cons, List.mem_nil_iff, or_false] at hg
      rcases hg with rfl | rfl <;> simp) hw' hne hnd hpolls hk hall
  have e1 : (100000 : Nat) = 99999 + 1 := rfl
  have e2 : (99999 : Nat) = 99998 + 1 := rfl
  have e3 : (99998 : Nat) = 99997 + 1 := rfl
  refine ⟨kF.bump w.pids.length, objsF,
    evlog (unreg a u) (reapLogsC (unreg a u) { w with status := .stopping }
      (exitCodeOf (wstatSig w.stopSignal)) w.pids logF) { w with status := .stopping } "stop" none "-",
    ?_, hB.bump _, fun pid hp => (hG pid hp).1, ?_, ?_, hZ⟩
  · rw [e1, exec_call_mk]
    simp only [runCall]
    have hrm : rmWatcher (exec 99999) u false (.top t) ⟨k, a, objs, [w], [], [], [{ tid := t, cbs := [.release] }], [], dv, t + 1, log, false⟩ =
        await (exec 99999) (.stop_ u false) .ignore (.top t)
          ⟨k, unreg a u, objs, [w], [], [], [{ tid := t, cbs := [.release] }], [], dv, t + 1, evlog a log w "remove" none "-", false⟩ := by
      unfold rmWatcher
      simp only [bind, notify_mk _ _ _ _ _ _ _ _ _ _ _ u hw.ok.uid, unregisterWatcher, modA, modS]
      rfl
    rw [hrm, await_eq]
    simp only [List.nil_append]
    rw [e2, exec_call_mk]
    simp only [runCall]
    have hstopW : stopW (exec 99998) u false (.frame (t + 1) 0)
        ⟨k, unreg a u, objs, [w], [{ fid := t + 1, k := .ignore, parent := .top t }], [], [{ tid := t, cbs := [.release] }], [], dv, t + 1 + 1,
          evlog a log w "remove" none "-", false⟩ =
        await (exec 99998) (.killProcesses u none none) (.stopAfterKill u false) (.frame (t + 1) 0)
          ⟨k, unreg a u, objs, [{ w with status := .stopping }], [{ fid := t + 1, k := .ignore, parent := .top t }], [],
            [{ tid := t, cbs := [.release] }], [], dv, t + 1 + 1, evlog a log w "remove" none "-", false⟩ := by
      simp [stopW, bind, getW, hw.ok.uid, hst, setStatus, modW, modS, callHook_mk, hw.ok.hooks]
    rw [hstopW, await_eq]
    simp only [List.cons_append, List.nil_append]
    rw [e3, exec_call_mk]
    simp only [runCall]
    erw [hkp]
    erw [unwind_rm 99992 u t (exitCodeOf (wstatSig w.stopSignal)) vs kF (unreg a u) objsF
      { w with status := .stopping } dv (t + 3 + 2) logF hw'.ok (by simp) hB hnd hG]
    simp [armFrame, modS]
  · rw [killCount_evlog, killCount_reapLogsC, hK, killCount_evlog]
  · rw [repC_evlog, repC_reapLogsC, hR, repC_evlog]

/-- **the `rm` request for an active watcher whose workers obey the stop signal**: complete within the step -/
theorem req_rm_obed (NZ : Prop) (cid name : String) (waiting : Bool) (u t : Nat) (w : Watcher) (k : Kernel) (a : Arbiter)
    (objs : List PObj) (dv : List (Nat × Val)) (log : List Obs)
    (hn : a.names.lookup (pyLower name) = some u) (hr : a.restarting = false) (hsl : a.slot = none)
    (hls : a.loopStop = false)
    (hw : TOk u w) (hst : w.status = .active) (hne : w.pids ≠ []) (hnd : w.pids.Nodup) (hpolls : 0 < pollsOf w.graceful)
    (hk : k.Base)
    (hall : ∀ pid ∈ w.pids, k.Obed pid ∧
      ∃ o, objs.find? (fun o => decide (o.pid = pid)) = some o ∧ o.stopping = false ∧ o.rc = none)
    (hnz : NZ → ∀ p ∈ k.procs, p.st ≠ .zombie) :
    StopDone NZ w (unreg a u) (killCount log) (repC log + (if a.ctlClosed = false then 1 else 0))
      (step ⟨k, a, objs, [w], [], [], [], [], dv, t, log, false⟩ (.req cid (some (rmReq name waiting)))) := by
  have hl : pyLower "rm" = "rm" := by decide +kernel
  have hve := ve_rm name waiting u ⟨k.beginStep, a, objs, [w], [], [], [], [], [], t, log, false⟩ hn hr hsl
  obtain ⟨kF, objsF, logF, hex, hB, hG, hK, hR, hZ⟩ := rm_obed u t w k.beginStep { a with slot := some "arbiter_rm_watcher" } objs
    [] log hw hst hne hnd hpolls hk.beginStep hall
  have hfd : fuelDefault = 100000 := rfl
  simp only [List.nil_append, hfd, hex] at hve
  unfold step
  rw [stepM_eq _ _ rfl]
  have hop : stepOp (.req cid (some (rmReq name waiting)))
      (updK Kernel.beginStep (⟨k, a, objs, [w], [], [], [], [], dv, t, log, false⟩ : State)).2 =
      ((), ⟨kF, { unreg a u with slot := none }, objsF, [{ w with pids := [], status := .stopped }], [], [], [],
        [.topCb (.reply (some cid) .null false "rm" waiting "") .unit], [(t, Val.unit)], t + 5,
        ackLog a cid waiting logF, false⟩) := by
    simp only [stepOp, updK, runK]
    unfold handleMessage rmReq
    simp [JVal.isObj, JVal.get?, List.lookup, hl, commandNames, JVal.truthy, bind, clearDone, modS, hve]
    cases waiting <;> cases hc : a.ctlClosed <;>
      simp [hc, armTop, addDoneCallback, enqueue, sendReply, emitRep, modS, getS, getA, bind, pure, ackLog, List.lookup, unreg]
  rw [hop]
  have e1 : (100000 : Nat) = 99999 + 1 := rfl
  have e2 : (99999 : Nat) = 99998 + 1 := rfl
  have hset : settle 100000 ⟨kF, { unreg a u with slot := none }, objsF, [{ w with pids := [], status := .stopped }], [], [], [],
        [.topCb (.reply (some cid) .null false "rm" waiting "") .unit], [(t, Val.unit)], t + 5,
        ackLog a cid waiting logF, false⟩ =
      ((), ⟨kF, { unreg a u with slot := none }, objsF, [{ w with pids := [], status := .stopped }], [], [], [], [], [(t, Val.unit)], t + 5,
        replyLog a cid .null waiting "" (ackLog a cid waiting logF), false⟩) := by
    rw [e1, settle_cons_mk]
    simp [runReady1, runTopCb, sendReply, bind, getA, emitRep, modS, pure, unreg]
    cases waiting <;> cases hc : a.ctlClosed <;> simp [replyLog, hc, modS] <;> (rw [e2]; exact settle_nil _ _ rfl)
  rw [stepTail_eq _ (by rw [hset]; exact hls), hset]
  refine ⟨rfl, rfl, rfl, rfl, rfl, rfl, rfl, hB, hG, ?_, ?_, fun h => hZ (hnz h)⟩
  · show killCount (replyLog _ _ _ _ _ _) = _
    rw [killCount_replyLog, killCount_ackLog, hK]
  · show repC (replyLog _ _ _ _ _ _) = _
    rw [repC_replyLog, repC_ackLog, hR]
    cases waiting <;> simp

/-- **`rm` completes within the request step (workers that obey the stop signal)** -/
theorem rm_run_obedient (NZ : Prop) (cid name : String) (waiting : Bool) (u : Nat) (w : Watcher) (s : State)
    (hi : Idle u s) (hd : Obedient u w s) (hn : s.a.names.lookup (pyLower name) = some u)
    (hne : w.pids ≠ []) (hpolls : 0 < pollsOf w.graceful) (hnz : NZ → ∀ p ∈ s.k.procs, p.st ≠ .zombie) :
    StopDone NZ w (unreg s.a u) (killCount s.log) (repC s.log + (if s.a.ctlClosed = false then 1 else 0))
      (step s (.req cid (some (rmReq name waiting)))) := by
  obtain ⟨k, a, objs, ws, frames, sleepers, tops, ready, dv, t, log, blocked⟩ := s
  obtain ⟨hf, hsl, ht, hr, hslot, hls, _, hrs, hwat⟩ := hi
  obtain ⟨hws, hb, hw, hst, hnd, hk, hall⟩ := hd
  simp only at hf hsl ht hr hslot hls hrs hws hb hk hall hnz hwat hn
  subst hf hsl ht hr hws hb
  exact req_rm_obed NZ cid name waiting u t w k a objs dv log hn hrs hslot hls hw hst hne hnd hpolls hk hall hnz

end Circus.Core
