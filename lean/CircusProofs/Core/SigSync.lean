import CircusProofs.Core.SigDefs
import CircusProofs.Core.SigAttr
/-!
The synchronous layer for the signal invariant: every named writer that does not touch the
coroutine heap is quiet (it only extends what continuations know) — `SQuiet` when it appends no
SIGKILL entry, `SQuietW` in general —, and so is every synchronous function of `watcher.py` /
`process.py` built from them.  The composition is done once, generically, over two small
structures of obligations: `LeafS0` (everything but a SIGKILL through `send_signal`) and `LeafS`
(that too), whose kernel fields are per kernel function (the generic chain of Generic.lean only knows
`KOp`, which does not say that gone stays gone).
-/
set_option linter.unusedSimpArgs false
set_option linter.unusedVariables false
namespace Circus.Core

/-! ### lists -/

theorem find_map_key {α : Type} (key : α → Nat) (l : List α) (g : α → α) (hg : ∀ x, key (g x) = key x) (k : Nat) :
    (l.map g).find? (fun x => decide (key x = k)) = (l.find? (fun x => decide (key x = k))).map g := by
  induction l with
  | nil => rfl
  | cons x xs ih =>
    simp only [List.map_cons, List.find?_cons, hg x]
    split
    · rfl
    · exact ih

/-! ### writers that are quiet -/

theorem NoNine.of_eq {s s' : State} (hl : s'.log = s.log) (hw : s'.ws = s.ws) (hk : s'.k = s.k) : NoNine s s' :=
  ⟨⟨[], by simp [hl], fun _ h => by cases h⟩, fun w hw' h9 => ⟨w, by rw [← hw]; exact hw', h9⟩⟩

/-- nothing a continuation looks at changes -/
theorem SQuiet.of_eq {s s' : State} (hl : s'.log = s.log) (hb : s'.blocked = s.blocked) (ho : s'.objs = s.objs)
    (hw : s'.ws = s.ws) (hk : s'.k = s.k) (hf : s'.frames = s.frames) (hr : s'.ready = s.ready) : SQuiet s s' where
  ext := {
    log := fun o h => by rw [hl]; exact h
    blocked := fun h => by rw [hb]; exact h
    obj := fun p h => by unfold HasObj at *; rw [ho]; exact h
    stop := fun p _ => by simp only [getO, ho]
    hook := fun u h hh => by unfold HookCalled at *; simp only [getW, hw] at *; exact hh
    unl := fun u p _ hn => by unfold Listed at *; simp only [getW, hw] at *; exact hn
    gone := fun p h => by rw [hk]; exact h
    reap := fun p st h => by rw [hl] at h; exact Or.inl h
    ndc := fun p h => by rw [hk]; exact h
    kpids := fun q hq => Or.inl (by rw [← hk]; exact hq)
    npid := by rw [hk]; exact Nat.le_refl _
    dpar := fun _ p h => by rw [hk]; exact h
    objd := fun _ p h => Or.inl (by unfold HasObj at *; rw [← ho]; exact h) }
  frames := hf
  ready := hr
  nn := NoNine.of_eq hl hw hk

def Obs.isReap : Obs → Bool
  | .reap .. => true
  | _ => false

/-- the log grows by observations other than a `reap` -/
theorem SQuietW.of_log {s s' : State} (l : List Obs) (hl : s'.log = s.log ++ l) (hnr : ∀ o ∈ l, o.isReap = false)
    (hb : s'.blocked = s.blocked) (ho : s'.objs = s.objs)
    (hw : s'.ws = s.ws) (hk : s'.k = s.k) (hf : s'.frames = s.frames) (hr : s'.ready = s.ready) : SQuietW s s' where
  ext := {
    log := fun o h => by rw [hl]; exact List.mem_append_left _ h
    blocked := fun h => by rw [hb]; exact h
    obj := fun p h => by unfold HasObj at *; rw [ho]; exact h
    stop := fun p _ => by simp only [getO, ho]
    hook := fun u h hh => by unfold HookCalled at *; simp only [getW, hw] at *; exact hh
    unl := fun u p _ hn => by unfold Listed at *; simp only [getW, hw] at *; exact hn
    gone := fun p h => by rw [hk]; exact h
    reap := fun p st h => by
      rw [hl] at h
      rcases List.mem_append.mp h with h | h
      · exact Or.inl h
      · have := hnr _ h
        simp [Obs.isReap] at this
    ndc := fun p h => by rw [hk]; exact h
    kpids := fun q hq => Or.inl (by rw [← hk]; exact hq)
    npid := by rw [hk]; exact Nat.le_refl _
    dpar := fun _ p h => by rw [hk]; exact h
    objd := fun _ p h => Or.inl (by unfold HasObj at *; rw [← ho]; exact h) }
  frames := hf
  ready := hr

/-- … and other than a SIGKILL -/
theorem SQuiet.of_log {s s' : State} (l : List Obs) (hl : s'.log = s.log ++ l) (hnr : ∀ o ∈ l, o.isReap = false)
    (hnn : ∀ o ∈ l, o.isNine = false)
    (hb : s'.blocked = s.blocked) (ho : s'.objs = s.objs)
    (hw : s'.ws = s.ws) (hk : s'.k = s.k) (hf : s'.frames = s.frames) (hr : s'.ready = s.ready) : SQuiet s s' where
  toSQuietW := SQuietW.of_log l hl hnr hb ho hw hk hf hr
  nn := ⟨⟨l, hl, hnn⟩, fun w hw' h9 => ⟨w, by rw [← hw]; exact hw', h9⟩⟩

theorem squietW_emit (o : Obs) (ho : o.isReap = false) (s : State) : SQuietW s (emit o s).2 := by
  simp only [emit, modS]
  split
  · exact SQuietW.refl s
  · exact SQuietW.of_log [o] rfl (by simpa using ho) rfl rfl rfl rfl rfl rfl

theorem squiet_emit (o : Obs) (ho : o.isReap = false) (hn : o.isNine = false) (s : State) : SQuiet s (emit o s).2 := by
  simp only [emit, modS]
  split
  · exact SQuiet.refl s
  · exact SQuiet.of_log [o] rfl (by simpa using ho) (by simpa using hn) rfl rfl rfl rfl rfl rfl

theorem squiet_emitEv (w t : String) (p : Option Nat) (x : String) (s : State) : SQuiet s (emitEv w t p x s).2 := by
  simp only [emitEv, modS]
  split
  · exact SQuiet.refl s
  · exact SQuiet.of_log [Obs.ev w t p x] rfl (by simp [Obs.isReap]) (by simp [Obs.isNine]) rfl rfl rfl rfl rfl rfl

theorem squiet_emitRep (c : String) (i : JVal) (a b d : String) (s : State) : SQuiet s (emitRep c i a b d s).2 := by
  simp only [emitRep, modS]
  split
  · exact SQuiet.refl s
  · exact SQuiet.of_log [Obs.rep c i a b d] rfl (by simp [Obs.isReap]) (by simp [Obs.isNine]) rfl rfl rfl rfl rfl rfl

theorem squiet_markBlocked (s : State) : SQuiet s (markBlocked s).2 where
  ext := {
    log := fun o h => h
    blocked := fun _ => rfl
    obj := fun p h => h
    stop := fun p _ => rfl
    hook := fun u h hh => hh
    unl := fun u p _ hn => hn
    gone := fun p h => h
    reap := fun p st h => Or.inl h
    ndc := fun p h => h
    kpids := fun q hq => Or.inl hq
    npid := Nat.le_refl _
    dpar := fun _ p h => h
    objd := fun _ p h => Or.inl h }
  frames := rfl
  ready := rfl
  nn := NoNine.of_eq rfl rfl rfl

theorem squiet_modA (f : Arbiter → Arbiter) (s : State) : SQuiet s (modA f s).2 :=
  SQuiet.of_eq rfl rfl rfl rfl rfl rfl rfl

/-- rewriting watcher objects: identities kept, pids only dropped, hook counters only set -/
theorem squietW_mapW (g : Watcher → Watcher) (hu : ∀ w, (g w).uid = w.uid)
    (hp : ∀ w p, p ∈ (g w).pids → p ∈ w.pids)
    (hh : ∀ w h, (w.hookCalls.lookup h).isSome = true → ((g w).hookCalls.lookup h).isSome = true)
    (s : State) : SQuietW s { s with ws := s.ws.map g } := by
  have hfind : ∀ v, ((s.ws.map g).find? (fun w => decide (w.uid = v))) =
      (s.ws.find? (fun w => decide (w.uid = v))).map g := fun v => find_map_key (·.uid) s.ws _ hu v
  refine ⟨⟨Ext0.ofK ⟨fun o h => h, fun h => h, fun p h => h, ?_, ?_, fun p h => h, fun p st h => Or.inl h, fun p h => h⟩
    rfl (fun p h => h), fun p _ => rfl⟩, rfl, rfl⟩
  · intro v h hc
    unfold HookCalled at *
    simp only [getW] at hc ⊢
    rw [hfind v]
    cases hf : s.ws.find? (fun w => decide (w.uid = v)) with
    | none => rw [hf] at hc; exact hc
    | some w =>
      rw [hf] at hc
      simp only [Option.map_some, Option.getD_some] at hc ⊢
      exact hh w h hc
  · intro v p _ hn hl
    apply hn
    unfold Listed at *
    simp only [getW] at hl ⊢
    rw [hfind v] at hl
    cases hf : s.ws.find? (fun w => decide (w.uid = v)) with
    | none => rw [hf] at hl; exact hl
    | some w =>
      rw [hf] at hl
      simp only [Option.map_some, Option.getD_some] at hl ⊢
      exact hp w p hl

/-- … and the stop signals kept -/
theorem squiet_mapW (g : Watcher → Watcher) (hu : ∀ w, (g w).uid = w.uid)
    (hp : ∀ w p, p ∈ (g w).pids → p ∈ w.pids)
    (hh : ∀ w h, (w.hookCalls.lookup h).isSome = true → ((g w).hookCalls.lookup h).isSome = true)
    (hs : ∀ w, (g w).stopSignal = 9 → w.stopSignal = 9)
    (s : State) : SQuiet s { s with ws := s.ws.map g } where
  toSQuietW := squietW_mapW g hu hp hh s
  nn := ⟨⟨[], by simp, fun _ h => by cases h⟩, fun w' hw' h9 => by
      obtain ⟨w, hw, rfl⟩ := List.mem_map.mp hw'
      exact ⟨w, hw, hs w h9⟩⟩

theorem squiet_modW (u : Nat) (f : Watcher → Watcher) (hu : ∀ w, (f w).uid = w.uid)
    (hp : ∀ w p, p ∈ (f w).pids → p ∈ w.pids)
    (hh : ∀ w h, (w.hookCalls.lookup h).isSome = true → ((f w).hookCalls.lookup h).isSome = true)
    (hs : ∀ w, (f w).stopSignal = 9 → w.stopSignal = 9)
    (s : State) : SQuiet s (modW u f s).2 := by
  simp only [modW, modS]
  apply squiet_mapW
  · intro w; split
    · exact hu w
    · rfl
  · intro w p h; split at h
    · exact hp w p h
    · exact h
  · intro w h hc; split
    · exact hh w h hc
    · exact hc
  · intro w h9; split at h9
    · exact hs w h9
    · exact h9

theorem squietW_modW (u : Nat) (f : Watcher → Watcher) (hu : ∀ w, (f w).uid = w.uid)
    (hp : ∀ w p, p ∈ (f w).pids → p ∈ w.pids)
    (hh : ∀ w h, (w.hookCalls.lookup h).isSome = true → ((f w).hookCalls.lookup h).isSome = true)
    (s : State) : SQuietW s (modW u f s).2 := by
  simp only [modW, modS]
  apply squietW_mapW
  · intro w; split
    · exact hu w
    · rfl
  · intro w p h; split at h
    · exact hp w p h
    · exact h
  · intro w h hc; split
    · exact hh w h hc
    · exact hc

theorem squiet_popPid (u p : Nat) (s : State) : SQuiet s (popPid u p s).2 := by
  unfold popPid
  refine squiet_modW u _ ?_ ?_ ?_ ?_ s
  · intro _; rfl
  · intro w q h; exact (List.mem_filter.mp h).1
  · intro _ _ h; exact h
  · intro _ h; exact h

theorem lookup_cons_filter_isSome (h k : String) (n : Nat) (l : List (String × Nat))
    (hl : (l.lookup k).isSome = true) : (((h, n) :: l.filter (·.1 ≠ h)).lookup k).isSome = true := by
  by_cases hk : k = h
  · subst hk
    simp [List.lookup]
  · have hne : (k == h) = false := by simp [hk]
    simp only [List.lookup, hne]
    clear hne
    induction l with
    | nil => simp at hl
    | cons x xs ih =>
      obtain ⟨a, b⟩ := x
      by_cases hak : k = a
      · subst hak
        have : (k ≠ h) := hk
        simp [List.filter, this, List.lookup]
      · have hne2 : (k == a) = false := by simp [hak]
        simp only [List.lookup, hne2] at hl
        by_cases hah : a = h
        · subst hah
          simp only [List.filter, ne_eq, not_true_eq_false, decide_false]
          exact ih hl
        · simp only [List.filter, ne_eq, hah, not_false_eq_true, decide_true, List.lookup, hne2]
          exact ih hl

theorem squiet_bumpHook (u : Nat) (h : String) (i : Nat) (s : State) : SQuiet s (bumpHook u h i s).2 := by
  unfold bumpHook
  refine squiet_modW u _ ?_ ?_ ?_ ?_ s
  · intro _; rfl
  · intro w q hq; exact hq
  · intro w k hk; exact lookup_cons_filter_isSome h k (i + 1) w.hookCalls hk
  · intro _ h9; exact h9

theorem squiet_setStatus (u : Nat) (st : Status) (s : State) : SQuiet s (setStatus u st s).2 := by
  unfold setStatus
  refine squiet_modW u _ ?_ ?_ ?_ ?_ s
  · intro _; rfl
  · intro w q hq; exact hq
  · intro _ _ h; exact h
  · intro _ h; exact h

/-- `set_opt`: may write `stop_signal` -/
theorem squietW_setWOpt (u : Nat) (c : OptChange) (s : State) : SQuietW s (setWOpt u c s).2 := by
  unfold setWOpt
  refine squietW_modW u _ ?_ ?_ ?_ s
  · intro w; cases c <;> rfl
  · intro w q hq; cases c <;> exact hq
  · intro w k hk; cases c <;> exact hk

/-- … `set_opt` that does not write `stop_signal = 9` -/
theorem squiet_setWOpt (u : Nat) (c : OptChange) (hc : c ≠ .stopSignal 9) (s : State) : SQuiet s (setWOpt u c s).2 := by
  unfold setWOpt
  refine squiet_modW u _ ?_ ?_ ?_ ?_ s
  · intro w; cases c <;> rfl
  · intro w q hq; cases c <;> exact hq
  · intro w k hk; cases c <;> exact hk
  · intro w h9
    cases c with
    | stopSignal n =>
      simp only [applyOpt] at h9
      exact absurd (by rw [h9]) hc
    | _ => exact h9

theorem squiet_trySetNp (u : Nat) (n : Int) (s : State) : SQuiet s (trySetNp u n s).2 := by
  unfold trySetNp
  simp only
  generalize (if n < 0 then (0 : Int) else n) = n'
  split
  · exact SQuiet.refl s
  · apply squiet_mapW
    · intro w; split <;> rfl
    · intro w p h; split at h <;> exact h
    · intro w h hc; split <;> exact hc
    · intro w h9; split at h9 <;> exact h9

/-- rewriting `Process` objects: pid and `stopping` kept -/
theorem squiet_modO (p : Nat) (f : PObj → PObj) (hf : ∀ o, (f o).pid = o.pid ∧ (f o).stopping = o.stopping)
    (s : State) : SQuiet s (modO p f s).2 := by
  have hg : ∀ o : PObj, (if o.pid = p then f o else o).pid = o.pid := by
    intro o; split
    · exact (hf o).1
    · rfl
  have hmap : (modO p f s).2.objs.map (·.pid) = s.objs.map (·.pid) := by
    simp only [modO, modS, List.map_map]
    have : (fun o : PObj => o.pid) ∘ (fun o => if o.pid = p then f o else o) = fun o => o.pid := by
      funext o; exact hg o
    rw [this]
  refine ⟨⟨⟨Ext0.ofK ⟨fun o h => h, fun h => h, ?_, fun u h hh => hh, fun u q _ hn => hn, fun q h => h, fun q st h => Or.inl h,
    fun q h => h⟩ rfl ?_, ?_⟩, rfl, rfl⟩, NoNine.of_eq rfl rfl rfl⟩
  · intro q h
    unfold HasObj at *
    rw [hmap]; exact h
  · intro q h
    unfold HasObj at *
    rw [hmap] at h; exact h
  · intro q _
    simp only [getO, modO, modS]
    rw [find_map_key (·.pid) s.objs _ hg q]
    cases s.objs.find? (fun o => decide (o.pid = q)) with
    | none => rfl
    | some o =>
      simp only [Option.map_some, Option.getD_some]
      split
      · exact (hf o).2
      · rfl

theorem squiet_setRc (p : Nat) (rc : Int) (s : State) : SQuiet s (setRc p rc s).2 := by
  unfold setRc
  refine squiet_modO p _ ?_ s
  intro _; exact ⟨rfl, rfl⟩

/-- a kernel function under which gone stays gone, a stranger to the daemon stays one, and the
    process table keeps its pids -/
theorem squiet_runK {α : Type} (f : Kernel → Kernel × α) (hf : KGMonoOp f) (hn : KNMonoOp f) (hs : KOp f)
    (hd : ∀ k, k.PosK → KDMono k (f k).1) (s : State) : SQuiet s (runK f s).2 where
  ext := {
    log := fun o h => h
    blocked := fun h => h
    obj := fun p h => h
    stop := fun p _ => rfl
    hook := fun u h hh => hh
    unl := fun u p _ hn => hn
    gone := fun p h => hf s.k p h
    reap := fun p st h => Or.inl h
    ndc := fun p h => hn s.k p h
    kpids := fun q hq => Or.inl (by have := (hs s.k).pids; simp only [runK] at hq; rw [this] at hq; exact hq)
    npid := by have := (hs s.k).nextPid; simp only [runK]; rw [this]; exact Nat.le_refl _
    dpar := fun hp p h => hd s.k hp.2 p h
    objd := fun _ p h => Or.inl h }
  frames := rfl
  ready := rfl
  nn := ⟨⟨[], by simp [runK], fun _ h => by cases h⟩, fun w hw h9 => ⟨w, hw, h9⟩⟩

theorem squiet_updK (f : Kernel → Kernel) (hf : ∀ k, KGMono k (f k)) (hn : ∀ k, KNMono k (f k))
    (hs : ∀ k, KStep k (f k)) (hd : ∀ k, k.PosK → KDMono k (f k)) (s : State) : SQuiet s (updK f s).2 :=
  squiet_runK (fun k => (f k, ())) hf hn hs hd s

theorem squietW_kKill (pid sig : Nat) (via : String) (s : State) : SQuietW s (kKill pid sig via s).2 := by
  unfold kKill
  simp only [bind, pure]
  exact (squiet_runK _ (KGMono.killD pid sig) (KNMono.killD pid sig) (KStep.killD pid sig) (KDMono.killD pid sig) s).toSQuietW.trans (squietW_emit _ rfl _)

/-- a signal other than a SIGKILL through `send_signal` -/
theorem squiet_kKill (pid sig : Nat) (via : String) (h : ¬ (sig = 9 ∧ via = "")) (s : State) :
    SQuiet s (kKill pid sig via s).2 := by
  unfold kKill
  simp only [bind, pure]
  refine (squiet_runK _ (KGMono.killD pid sig) (KNMono.killD pid sig) (KStep.killD pid sig) (KDMono.killD pid sig) s).trans (squiet_emit _ rfl ?_ _)
  simp only [Obs.isNine, Bool.and_eq_false_iff, beq_eq_false_iff_ne, ne_eq]
  by_cases h1 : sig = 9
  · right; intro h2
    -- the via tag of the entry is `via`, or `via ++ "!"` for a refused call: empty only if `via` is
    have hv : via = "" := by
      split at h2
      · have := congrArg String.length h2
        simp [String.length_append] at this
      · exact h2
    exact h ⟨h1, hv⟩
  · left; exact h1

theorem squiet_kStateOf (pid : Nat) (s : State) : SQuiet s (kStateOf pid s).2 :=
  squiet_runK _ (KGMono.stateOf pid) (KNMono.stateOf pid) (KStep.stateOf pid) (KDMono.stateOf pid) s
theorem squiet_kChildren (pid : Nat) (r : Bool) (s : State) : SQuiet s (kChildren pid r s).2 :=
  squiet_runK _ (KGMono.children pid r) (KNMono.children pid r) (KStep.children pid r) (KDMono.children pid r) s
theorem squiet_kSleep (ms : Nat) (s : State) : SQuiet s (kSleep ms s).2 :=
  squiet_updK _ (fun k => KGMono.sleep k ms) (fun k => KNMono.sleep k ms) (fun k => KStep.sleep k ms) (fun k hk => KDMono.sleep k ms hk) s

/-- `waitpid`: the pid it hands back is logged as reaped — and is gone -/
theorem squiet_kWaitpid (pid : Option Nat) (s : State) : SQuiet s (kWaitpid pid s).2 := by
  unfold kWaitpid
  simp only [bind, pure]
  have h1 := squiet_runK _ (KGMono.waitpid pid) (KNMono.waitpid pid) (KStep.waitpid pid) (KDMono.waitpid pid) s
  cases hr : (runK (fun k => k.waitpid pid) s).1 with
  | echild => exact h1
  | none => exact h1
  | got p st =>
    simp only
    refine h1.trans ?_
    have hg : (runK (fun k => k.waitpid pid) s).2.k.GoneIn p := by
      have : (s.k.waitpid pid).2 = .got p st := hr
      exact Kernel.waitpid_got_gone s.k pid p st this
    generalize (runK (fun k => k.waitpid pid) s).2 = s1 at hg
    simp only [emit, modS]
    split
    · exact SQuiet.refl _
    · refine ⟨⟨⟨Ext0.ofK ⟨fun o h => List.mem_append_left _ h, fun h => h, fun q h => h, fun u h hh => hh,
        fun u q _ hn => hn, fun q h => h, ?_, fun q h => h⟩ rfl (fun q h => h), fun q _ => rfl⟩, rfl, rfl⟩,
        ⟨⟨[Obs.reap p st], rfl, by simp [Obs.isNine]⟩, fun w hw h9 => ⟨w, hw, h9⟩⟩⟩
      intro q st' h
      rcases List.mem_append.mp h with h | h
      · exact Or.inl h
      · simp only [List.mem_singleton, Obs.reap.injEq] at h
        right
        rw [h.1]; exact hg

/-! ### obligations of the synchronous layer -/

/-- everything the synchronous functions write, but for a SIGKILL through `send_signal` -/
structure LeafS0 (I : State → Prop) : Prop where
  emit : ∀ o, o.isReap = false → o.isNine = false → Pres I (emit o)
  kKillN : ∀ p sg via, ¬ (sg = 9 ∧ via = "") → Pres I (kKill p sg via)
  kWaitpid : ∀ pid, Pres I (kWaitpid pid)
  kStateOf : ∀ pid, Pres I (kStateOf pid)
  kChildren : ∀ pid r, Pres I (kChildren pid r)
  kSleep : ∀ ms, Pres I (kSleep ms)
  emitEv : ∀ w t p x, Pres I (emitEv w t p x)
  popPid : ∀ u p, Pres I (popPid u p)
  bumpHook : ∀ u h i, Pres I (bumpHook u h i)
  setRc : ∀ p rc, Pres I (setRc p rc)
  markBlocked : Pres I markBlocked

/-- … and that one too -/
structure LeafS (I : State → Prop) : Prop extends LeafS0 I where
  kKill9 : ∀ p, Pres I (kKill p 9 "")

theorem LeafS.kKill {I : State → Prop} (L : LeafS I) (p sg : Nat) (via : String) : Pres I (kKill p sg via) := by
  by_cases h : sg = 9 ∧ via = ""
  · obtain ⟨rfl, rfl⟩ := h
    exact L.kKill9 p
  · exact L.kKillN p sg via h

attribute [aesop safe apply (rule_sets := [Sg])] Pres.pure Pres.getS Pres.getK Pres.getA Pres.getW Pres.getO Pres.nowMs
attribute [aesop safe apply (rule_sets := [Sg])] Pres.bind Pres.ite Pres.for_in
attribute [aesop safe apply (rule_sets := [Sg])] LeafS.kKill LeafS0.kWaitpid LeafS0.kStateOf LeafS0.kChildren LeafS0.kSleep
  LeafS0.emitEv LeafS0.popPid LeafS0.bumpHook LeafS0.setRc LeafS0.markBlocked LeafS.toLeafS0

macro "sg" : tactic => `(tactic| aesop (rule_sets := [Sg]) (config := { terminal := true, useDefaultSimpSet := false, useSimpAll := false, maxRuleApplications := 3000 }))

section
variable {I : State → Prop}

@[aesop safe apply (rule_sets := [Sg])]
theorem kKill_term_s (L : LeafS0 I) (p : Nat) : Pres I (kKill p 15 "t") := L.kKillN p 15 "t" (by simp)
@[aesop safe apply (rule_sets := [Sg])]
theorem kKill_hup_s (L : LeafS0 I) (p : Nat) : Pres I (kKill p 1) := L.kKillN p 1 "" (by simp)
@[aesop safe apply (rule_sets := [Sg])]
theorem kKill_x_s (L : LeafS0 I) (p sg : Nat) : Pres I (kKill p sg "x") := L.kKillN p sg "x" (by simp)

@[aesop safe apply (rule_sets := [Sg])]
theorem notify_s (L : LeafS0 I) (u : Nat) (t : String) (p : Option Nat) (x : String) : Pres I (notify u t p x) := by
  unfold notify; sg
@[aesop safe apply (rule_sets := [Sg])]
theorem callHook_s (L : LeafS0 I) (u : Nat) (h : String) : Pres I (callHook u h) := by
  unfold callHook; sg
@[aesop safe apply (rule_sets := [Sg])]
theorem procStatus_s (L : LeafS0 I) (pid : Nat) : Pres I (procStatus pid) := by
  unfold procStatus; sg
@[aesop safe apply (rule_sets := [Sg])]
theorem isAlive_s (L : LeafS0 I) (pid : Nat) : Pres I (isAlive pid) := by
  unfold isAlive; sg
@[aesop safe apply (rule_sets := [Sg])]
theorem objStop_s (L : LeafS0 I) (pid : Nat) : Pres I (objStop pid) := by
  unfold objStop; sg
/-- a signal from the outside world (`xkill`: always permitted, tagged "x") -/
theorem squiet_xKill (pid sig : Nat) (s : State) : SQuiet s (xKill pid sig s).2 := by
  unfold xKill
  simp only [bind, pure]
  refine (squiet_runK _ (KGMono.kill pid sig) (KNMono.kill pid sig) (KStep.kill pid sig) (KDMono.kill pid sig) s).trans (squiet_emit _ rfl ?_ _)
  simp [Obs.isNine]
@[aesop safe apply (rule_sets := [Sg])]
theorem sendSignal_s (L : LeafS I) (u p sg : Nat) : Pres I (sendSignal u p sg) := by
  unfold sendSignal; sg
@[aesop safe apply (rule_sets := [Sg])]
theorem sendSignalChild_s (L : LeafS I) (p c sg : Nat) : Pres I (sendSignalChild p c sg) := by
  unfold sendSignalChild; sg
@[aesop safe apply (rule_sets := [Sg])]
theorem signalKids_s (L : LeafS I) (u p sg : Nat) (cs : List Nat) : Pres I (signalKids u p sg cs) := by
  induction cs with
  | nil => unfold signalKids; sg
  | cons c cs ih =>
    unfold signalKids
    aesop (add safe 0 apply ih) (rule_sets := [Sg]) (config := { terminal := true, useDefaultSimpSet := false, useSimpAll := false, maxRuleApplications := 3000 })
@[aesop safe apply (rule_sets := [Sg])]
theorem sendSignalProcess_s (L : LeafS I) (u p sg : Nat) (r : Bool) : Pres I (sendSignalProcess u p sg r) := by
  unfold sendSignalProcess; sg
/-- a signal other than SIGKILL -/
theorem sendSignal_s0 (L : LeafS0 I) (u p sg : Nat) (h : sg ≠ 9) : Pres I (sendSignal u p sg) := by
  have hk := L.kKillN p sg "" (fun hh => h hh.1)
  unfold sendSignal
  aesop (add safe 0 apply hk) (erase LeafS.kKill) (rule_sets := [Sg]) (config := { terminal := true, useDefaultSimpSet := false, useSimpAll := false, maxRuleApplications := 3000 })
theorem sendSignalChild_s0 (L : LeafS0 I) (p c sg : Nat) (h : sg ≠ 9) : Pres I (sendSignalChild p c sg) := by
  have hk := L.kKillN c sg "" (fun hh => h hh.1)
  unfold sendSignalChild
  aesop (add safe 0 apply hk) (erase LeafS.kKill) (rule_sets := [Sg]) (config := { terminal := true, useDefaultSimpSet := false, useSimpAll := false, maxRuleApplications := 3000 })
theorem signalKids_s0 (L : LeafS0 I) (u p sg : Nat) (h : sg ≠ 9) (cs : List Nat) : Pres I (signalKids u p sg cs) := by
  have h2 := fun c => sendSignalChild_s0 L p c sg h
  induction cs with
  | nil =>
    unfold signalKids
    aesop (erase sendSignal_s, sendSignalChild_s, signalKids_s, LeafS.kKill) (rule_sets := [Sg]) (config := { terminal := true, useDefaultSimpSet := false, useSimpAll := false, maxRuleApplications := 3000 })
  | cons c cs ih =>
    unfold signalKids
    aesop (add safe 0 apply ih, safe 0 apply h2) (erase sendSignal_s, sendSignalChild_s, signalKids_s, LeafS.kKill) (rule_sets := [Sg]) (config := { terminal := true, useDefaultSimpSet := false, useSimpAll := false, maxRuleApplications := 3000 })
theorem sendSignalProcess_s0 (L : LeafS0 I) (u p sg : Nat) (r : Bool) (h : sg ≠ 9) : Pres I (sendSignalProcess u p sg r) := by
  have h1 := sendSignal_s0 L u p sg h
  have h2 := fun c => sendSignalChild_s0 L p c sg h
  have h3 := fun cs => signalKids_s0 L u p sg h cs
  unfold sendSignalProcess
  aesop (add safe 0 apply h1, safe 0 apply h2, safe 0 apply h3) (erase sendSignal_s, sendSignalChild_s, signalKids_s, LeafS.kKill) (rule_sets := [Sg]) (config := { terminal := true, useDefaultSimpSet := false, useSimpAll := false, maxRuleApplications := 3000 })
@[aesop safe apply (rule_sets := [Sg])]
theorem activeProcs_s (L : LeafS0 I) (u : Nat) : Pres I (activeProcs u) := by
  unfold activeProcs; sg
@[aesop safe apply (rule_sets := [Sg])]
theorem setBlocked_s (L : LeafS0 I) : Pres I setBlocked := by
  have h := L.emit .blocked rfl rfl
  unfold setBlocked
  aesop (add safe apply h) (rule_sets := [Sg]) (config := { terminal := true, useDefaultSimpSet := false, useSimpAll := false, maxRuleApplications := 3000 })
@[aesop safe apply (rule_sets := [Sg])]
theorem reapWait_s (L : LeafS0 I) (pid fuel : Nat) : Pres I (reapWait pid fuel) := by
  induction fuel with
  | zero => unfold reapWait; sg
  | succ n ih => unfold reapWait; aesop (add safe apply ih) (rule_sets := [Sg]) (config := { terminal := true, useDefaultSimpSet := false, useSimpAll := false, maxRuleApplications := 3000 })
@[aesop safe apply (rule_sets := [Sg])]
theorem reapTail_s (L : LeafS0 I) (u p : Nat) (st : Option Nat) : Pres I (reapTail u p st) := by
  unfold reapTail; sg
@[aesop safe apply (rule_sets := [Sg])]
theorem reapProcess_s (L : LeafS0 I) (u p : Nat) (st : Option Nat) : Pres I (reapProcess u p st) := by
  unfold reapProcess; sg
@[aesop safe apply (rule_sets := [Sg])]
theorem reapProcesses_s (L : LeafS0 I) (u : Nat) : Pres I (reapProcesses u) := by
  unfold reapProcesses; sg
@[aesop safe apply (rule_sets := [Sg])]
theorem usedWids_s (L : LeafS0 I) (u : Nat) : Pres I (usedWids u) := by
  unfold usedWids; sg
@[aesop safe apply (rule_sets := [Sg])]
theorem arbReapLoop_s (L : LeafS0 I) (pm : List (Nat × Nat)) (fuel : Nat) : Pres I (arbReapLoop pm fuel) := by
  induction fuel with
  | zero => unfold arbReapLoop; sg
  | succ n ih => unfold arbReapLoop; aesop (add safe apply ih) (rule_sets := [Sg]) (config := { terminal := true, useDefaultSimpSet := false, useSimpAll := false, maxRuleApplications := 3000 })
@[aesop safe apply (rule_sets := [Sg])]
theorem registered_s (L : LeafS0 I) : Pres I registered := by
  unfold registered; sg
@[aesop safe apply (rule_sets := [Sg])]
theorem iterWatchers_s (L : LeafS0 I) (r : Bool) : Pres I (iterWatchers r) := by
  unfold iterWatchers; sg
@[aesop safe apply (rule_sets := [Sg])]
theorem arbReapProcesses_s (L : LeafS0 I) : Pres I arbReapProcesses := by
  unfold arbReapProcesses; sg
@[aesop safe apply (rule_sets := [Sg])]
theorem popStrict_s (L : LeafS0 I) (u p : Nat) : Pres I (popStrict u p) := by
  unfold popStrict; sg
@[aesop safe apply (rule_sets := [Sg])]
theorem pubBefore_s (L : LeafS0 I) (u : Nat) : Pres I (pubBefore u) := by
  unfold pubBefore; sg
@[aesop safe apply (rule_sets := [Sg])]
theorem pendingSocketEvent_s (L : LeafS0 I) (u : Nat) : Pres I (pendingSocketEvent u) := by
  unfold pendingSocketEvent; sg
@[aesop safe apply (rule_sets := [Sg])]
theorem lookupWatcher_s (L : LeafS0 I) (n : String) : Pres I (lookupWatcher n) := by
  unfold lookupWatcher; sg
@[aesop safe apply (rule_sets := [Sg])]
theorem getWatcherCmd_s (L : LeafS0 I) (n : JVal) : Pres I (getWatcherCmd n) := by
  unfold getWatcherCmd; sg
@[aesop safe apply (rule_sets := [Sg])]
theorem matchWatchers_s (L : LeafS0 I) (p : JVal) : Pres I (matchWatchers p) := by
  unfold matchWatchers; sg
@[aesop safe apply (rule_sets := [Sg])]
theorem sortUids_s (L : LeafS0 I) (us : List Nat) (r : Bool) : Pres I (sortUids us r) := by
  unfold sortUids; sg
@[aesop safe apply (rule_sets := [Sg])]
theorem procInfo_s (L : LeafS0 I) (pid : Nat) : Pres I (procInfo pid) := by
  unfold procInfo; sg
@[aesop safe apply (rule_sets := [Sg])]
theorem watcherInfo_s (L : LeafS0 I) (u : Nat) : Pres I (watcherInfo u) := by
  unfold watcherInfo; sg
@[aesop safe apply (rule_sets := [Sg])]
theorem statsProc_s (L : LeafS0 I) (w : Watcher) (p : Int) : Pres I (statsProc w p) := by
  unfold statsProc; sg
@[aesop safe apply (rule_sets := [Sg])]
theorem statsWatcher_s (L : LeafS0 I) (u : Nat) (n : JVal) : Pres I (statsWatcher u n) := by
  unfold statsWatcher; sg
@[aesop safe apply (rule_sets := [Sg])]
theorem statsAllLoop_s (L : LeafS0 I) (ws : List Watcher) (parts : List (String × String)) :
    Pres I (statsAllLoop ws parts) := by
  induction ws generalizing parts with
  | nil => unfold statsAllLoop; sg
  | cons w ws ih => unfold statsAllLoop; sg
@[aesop safe apply (rule_sets := [Sg])]
theorem statsAll_s (L : LeafS0 I) : Pres I statsAll := by
  unfold statsAll; sg
@[aesop safe apply (rule_sets := [Sg])]
theorem execStats_s (L : LeafS0 I) (p : JVal) : Pres I (execStats p) := by
  unfold execStats; sg
@[aesop safe apply (rule_sets := [Sg])]
theorem execOptions_s (L : LeafS0 I) (p : JVal) : Pres I (execOptions p) := by
  unfold execOptions; sg
@[aesop safe apply (rule_sets := [Sg])]
theorem execGet_s (L : LeafS0 I) (p : JVal) : Pres I (execGet p) := by
  unfold execGet; sg
@[aesop safe apply (rule_sets := [Sg])]
theorem execReadOnly_s (L : LeafS0 I) (c : String) (p : JVal) : Pres I (execReadOnly c p) := by
  unfold execReadOnly; sg

end

/-! ### the instances: "quiet since `s0`" -/

/-- a computation that is quiet (appending no SIGKILL) from every state -/
def SQuietM {α : Type} (m : M α) : Prop := ∀ s, SQuiet s (m s).2
/-- … quiet, SIGKILL or not -/
def SQuietWM {α : Type} (m : M α) : Prop := ∀ s, SQuietW s (m s).2

theorem SQuietM.pres {α : Type} {m : M α} (h : SQuietM m) (s0 : State) : Pres (SQuiet s0) m :=
  fun s hs => hs.trans (h s)
theorem SQuietWM.pres {α : Type} {m : M α} (h : SQuietWM m) (s0 : State) : Pres (SQuietW s0) m :=
  fun s hs => hs.trans (h s)
theorem SQuietM.weak {α : Type} {m : M α} (h : SQuietM m) : SQuietWM m := fun s => (h s).toSQuietW

theorem SQuietM.of_pres {α : Type} {m : M α} (h : ∀ s0, Pres (SQuiet s0) m) : SQuietM m :=
  fun s => h s s (SQuiet.refl s)
theorem SQuietWM.of_pres {α : Type} {m : M α} (h : ∀ s0, Pres (SQuietW s0) m) : SQuietWM m :=
  fun s => h s s (SQuietW.refl s)

theorem squietLeafS0 (s0 : State) : LeafS0 (SQuiet s0) where
  emit := fun o ho hn => SQuietM.pres (squiet_emit o ho hn) s0
  kKillN := fun p sg via h => SQuietM.pres (squiet_kKill p sg via h) s0
  kWaitpid := fun pid => SQuietM.pres (squiet_kWaitpid pid) s0
  kStateOf := fun pid => SQuietM.pres (squiet_kStateOf pid) s0
  kChildren := fun pid r => SQuietM.pres (squiet_kChildren pid r) s0
  kSleep := fun ms => SQuietM.pres (squiet_kSleep ms) s0
  emitEv := fun w t p x => SQuietM.pres (squiet_emitEv w t p x) s0
  popPid := fun u p => SQuietM.pres (squiet_popPid u p) s0
  bumpHook := fun u h i => SQuietM.pres (squiet_bumpHook u h i) s0
  setRc := fun p rc => SQuietM.pres (squiet_setRc p rc) s0
  markBlocked := SQuietM.pres squiet_markBlocked s0

theorem squietWLeafS (s0 : State) : LeafS (SQuietW s0) where
  emit := fun o ho _ => SQuietWM.pres (squietW_emit o ho) s0
  kKillN := fun p sg via _ => SQuietWM.pres (squietW_kKill p sg via) s0
  kWaitpid := fun pid => SQuietWM.pres (SQuietM.weak (squiet_kWaitpid pid)) s0
  kStateOf := fun pid => SQuietWM.pres (SQuietM.weak (squiet_kStateOf pid)) s0
  kChildren := fun pid r => SQuietWM.pres (SQuietM.weak (squiet_kChildren pid r)) s0
  kSleep := fun ms => SQuietWM.pres (SQuietM.weak (squiet_kSleep ms)) s0
  emitEv := fun w t p x => SQuietWM.pres (SQuietM.weak (squiet_emitEv w t p x)) s0
  popPid := fun u p => SQuietWM.pres (SQuietM.weak (squiet_popPid u p)) s0
  bumpHook := fun u h i => SQuietWM.pres (SQuietM.weak (squiet_bumpHook u h i)) s0
  setRc := fun p rc => SQuietWM.pres (SQuietM.weak (squiet_setRc p rc)) s0
  markBlocked := SQuietWM.pres (SQuietM.weak squiet_markBlocked) s0
  kKill9 := fun p => SQuietWM.pres (squietW_kKill p 9 "") s0

theorem squiet_notify (u : Nat) (t : String) (p : Option Nat) (x : String) : SQuietM (notify u t p x) :=
  SQuietM.of_pres fun s0 => notify_s (squietLeafS0 s0) u t p x
theorem squiet_callHook (u : Nat) (h : String) : SQuietM (callHook u h) :=
  SQuietM.of_pres fun s0 => callHook_s (squietLeafS0 s0) u h
theorem squiet_procStatus (pid : Nat) : SQuietM (procStatus pid) :=
  SQuietM.of_pres fun s0 => procStatus_s (squietLeafS0 s0) pid
theorem squiet_isAlive (pid : Nat) : SQuietM (isAlive pid) :=
  SQuietM.of_pres fun s0 => isAlive_s (squietLeafS0 s0) pid
theorem squiet_objStop (pid : Nat) : SQuietM (objStop pid) :=
  SQuietM.of_pres fun s0 => objStop_s (squietLeafS0 s0) pid
theorem squietW_sendSignal (u p sg : Nat) : SQuietWM (sendSignal u p sg) :=
  SQuietWM.of_pres fun s0 => sendSignal_s (squietWLeafS s0) u p sg
theorem squietW_sendSignalChild (p c sg : Nat) : SQuietWM (sendSignalChild p c sg) :=
  SQuietWM.of_pres fun s0 => sendSignalChild_s (squietWLeafS s0) p c sg
theorem squietW_sendSignalProcess (u p sg : Nat) (r : Bool) : SQuietWM (sendSignalProcess u p sg r) :=
  SQuietWM.of_pres fun s0 => sendSignalProcess_s (squietWLeafS s0) u p sg r
theorem squiet_sendSignal (u p sg : Nat) (h : sg ≠ 9) : SQuietM (sendSignal u p sg) :=
  SQuietM.of_pres fun s0 => sendSignal_s0 (squietLeafS0 s0) u p sg h
theorem squiet_sendSignalChild (p c sg : Nat) (h : sg ≠ 9) : SQuietM (sendSignalChild p c sg) :=
  SQuietM.of_pres fun s0 => sendSignalChild_s0 (squietLeafS0 s0) p c sg h
theorem squiet_sendSignalProcess (u p sg : Nat) (r : Bool) (h : sg ≠ 9) : SQuietM (sendSignalProcess u p sg r) :=
  SQuietM.of_pres fun s0 => sendSignalProcess_s0 (squietLeafS0 s0) u p sg r h
theorem squiet_activeProcs (u : Nat) : SQuietM (activeProcs u) :=
  SQuietM.of_pres fun s0 => activeProcs_s (squietLeafS0 s0) u
theorem squiet_reapProcess (u p : Nat) (st : Option Nat) : SQuietM (reapProcess u p st) :=
  SQuietM.of_pres fun s0 => reapProcess_s (squietLeafS0 s0) u p st
theorem squiet_reapProcesses (u : Nat) : SQuietM (reapProcesses u) :=
  SQuietM.of_pres fun s0 => reapProcesses_s (squietLeafS0 s0) u
theorem squiet_usedWids (u : Nat) : SQuietM (usedWids u) :=
  SQuietM.of_pres fun s0 => usedWids_s (squietLeafS0 s0) u
theorem squiet_arbReapProcesses : SQuietM arbReapProcesses :=
  SQuietM.of_pres fun s0 => arbReapProcesses_s (squietLeafS0 s0)
theorem squiet_iterWatchers (r : Bool) : SQuietM (iterWatchers r) :=
  SQuietM.of_pres fun s0 => iterWatchers_s (squietLeafS0 s0) r
theorem squiet_registered : SQuietM registered :=
  SQuietM.of_pres fun s0 => registered_s (squietLeafS0 s0)
theorem squiet_popStrict (u p : Nat) : SQuietM (popStrict u p) :=
  SQuietM.of_pres fun s0 => popStrict_s (squietLeafS0 s0) u p
theorem squiet_pubBefore (u : Nat) : SQuietM (pubBefore u) :=
  SQuietM.of_pres fun s0 => pubBefore_s (squietLeafS0 s0) u
theorem squiet_pendingSocketEvent (u : Nat) : SQuietM (pendingSocketEvent u) :=
  SQuietM.of_pres fun s0 => pendingSocketEvent_s (squietLeafS0 s0) u
theorem squiet_setBlocked : SQuietM setBlocked :=
  SQuietM.of_pres fun s0 => setBlocked_s (squietLeafS0 s0)
theorem squiet_getWatcherCmd (n : JVal) : SQuietM (getWatcherCmd n) :=
  SQuietM.of_pres fun s0 => getWatcherCmd_s (squietLeafS0 s0) n
theorem squiet_matchWatchers (p : JVal) : SQuietM (matchWatchers p) :=
  SQuietM.of_pres fun s0 => matchWatchers_s (squietLeafS0 s0) p
theorem squiet_sortUids (us : List Nat) (r : Bool) : SQuietM (sortUids us r) :=
  SQuietM.of_pres fun s0 => sortUids_s (squietLeafS0 s0) us r
theorem squiet_execReadOnly (c : String) (p : JVal) : SQuietM (execReadOnly c p) :=
  SQuietM.of_pres fun s0 => execReadOnly_s (squietLeafS0 s0) c p

end Circus.Core
