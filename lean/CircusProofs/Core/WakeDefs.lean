import CircusProofs.Core.SlotInv
/-!
`Wake`: no lost wake-up.  Definitions (token targets, tokens held in a state, the invariant,
the holder relation).  The proofs are in `WakeInv.lean`.

A *token* for a target (a suspended frame or a pending top-level future) is something that will
eventually deliver a result to it: a suspended frame whose `parent` is the target, a timer whose
waiter is the target, a queued ready-entry that resumes into the target — or a waiter that the
running Python stack (the `hand`) still holds and has to consume.
-/
namespace Circus.Core

/-- what a waiter delivers to: a suspended frame or a pending top-level future -/
inductive Tgt where
  | frame (fid : Nat)
  | top (tid : Nat)
  deriving DecidableEq, Repr

def Tgt.id : Tgt → Nat
  | .frame f => f
  | .top t => t

/-- the target of a waiter, as a list (empty for `.none` / `.callback`) -/
def Waiter.tl : Waiter → List Tgt
  | .frame f _ => [.frame f]
  | .top t => [.top t]
  | _ => []

def Kont.isSlot : Kont → Bool
  | .multiSlot _ _ => true
  | _ => false

/-- the token carried by "resume continuation `k` with waiter `w`": the per-child callback of an
    armed `gen.multi` delivers to the multi frame (its own waiter is never used), everything else
    delivers to `w` -/
def tokOf (k : Kont) (w : Waiter) : List Tgt :=
  match k with
  | .multiSlot f _ => [.frame f]
  | _ => w.tl

def Ready.tl : Ready → List Tgt
  | .resume k _ w => tokOf k w
  | _ => []

def Task.tl : Task → List Tgt
  | .call _ w => w.tl
  | .resume k _ w => tokOf k w

/-- all tokens held in the state -/
def State.toks (s : State) : List Tgt :=
  s.frames.flatMap (fun f => f.parent.tl) ++ s.sleepers.flatMap (fun sl => sl.waiter.tl) ++ s.ready.flatMap Ready.tl

/-- results a frame needs before it continues / results it already has -/
def Kont.need : Kont → Nat
  | .multi n _ => n
  | _ => 1
def Kont.got : Kont → Nat
  | .multi _ rs => rs.length
  | _ => 0

def Kont.isMulti : Kont → Bool
  | .multi _ _ => true
  | _ => false

/-- the `gen.multi` frame a queued per-child callback belongs to -/
def Ready.slotFid : Ready → Option Nat
  | .resume (.multiSlot f _) _ _ => some f
  | _ => none

def Obs.isOOF : Obs → Bool
  | .outOfFuel => true
  | _ => false

/-- the two ways the model stops being faithful: the daemon hangs in a blocking wait (sticky), or
    the interpreter's (huge, constant) fuel ran out -/
def Esc (s : State) : Prop := s.blocked = true ∨ s.log.any Obs.isOOF = true

instance (s : State) : Decidable (Esc s) := by unfold Esc; infer_instance

/-- the wake-up invariant proper; `hand` = the targets of the waiters the running stack still
    has to deliver to -/
structure WakeCore (s : State) (hand : List Tgt) : Prop where
  fidLt : ∀ f ∈ s.frames, f.fid < s.nextId
  fidNd : (s.frames.map (·.fid)).Nodup
  tidLt : ∀ t ∈ s.tops, t.tid < s.nextId
  tidNd : (s.tops.map (·.tid)).Nodup
  sidLt : ∀ sl ∈ s.sleepers, sl.sid < s.nextId
  sidNd : (s.sleepers.map (·.sid)).Nodup
  tokLt : ∀ t ∈ s.toks ++ hand, t.id < s.nextId
  parLt : ∀ f ∈ s.frames, ∀ t ∈ f.parent.tl, t.id < f.fid
  noSlot : ∀ f ∈ s.frames, f.k.isSlot = false
  room : ∀ f ∈ s.frames, f.k.got < f.k.need
  held : ∀ f ∈ s.frames, f.k.need ≤ (s.toks ++ hand).count (.frame f.fid) + f.k.got
  topHeld : ∀ t ∈ s.tops, 1 ≤ (s.toks ++ hand).count (.top t.tid)
  slotOk : ∀ r ∈ s.ready, ∀ f ∈ s.frames, r.slotFid = some f.fid → f.k.isMulti = true

instance (s : State) (hand : List Tgt) : Decidable (WakeCore s hand) :=
  decidable_of_iff
    ((∀ f ∈ s.frames, f.fid < s.nextId) ∧ (s.frames.map (·.fid)).Nodup ∧
     (∀ t ∈ s.tops, t.tid < s.nextId) ∧ (s.tops.map (·.tid)).Nodup ∧
     (∀ sl ∈ s.sleepers, sl.sid < s.nextId) ∧ (s.sleepers.map (·.sid)).Nodup ∧
     (∀ t ∈ s.toks ++ hand, t.id < s.nextId) ∧
     (∀ f ∈ s.frames, ∀ t ∈ f.parent.tl, t.id < f.fid) ∧
     (∀ f ∈ s.frames, f.k.isSlot = false) ∧
     (∀ f ∈ s.frames, f.k.got < f.k.need) ∧
     (∀ f ∈ s.frames, f.k.need ≤ (s.toks ++ hand).count (.frame f.fid) + f.k.got) ∧
     (∀ t ∈ s.tops, 1 ≤ (s.toks ++ hand).count (.top t.tid)) ∧
     (∀ r ∈ s.ready, ∀ f ∈ s.frames, r.slotFid = some f.fid → f.k.isMulti = true))
    ⟨fun ⟨a, b, c, d, e0, e, f, g, h, i, j, k, l⟩ => ⟨a, b, c, d, e0, e, f, g, h, i, j, k, l⟩,
     fun ⟨a, b, c, d, e0, e, f, g, h, i, j, k, l⟩ => ⟨a, b, c, d, e0, e, f, g, h, i, j, k, l⟩⟩

/-- **the wake-up invariant**: unless the daemon hangs (or the model ran out of fuel), every
    suspended frame and every pending top-level future has the tokens it waits for -/
def Wake (s : State) (hand : List Tgt) : Prop := Esc s ∨ WakeCore s hand

instance (s : State) (hand : List Tgt) : Decidable (Wake s hand) := by unfold Wake; infer_instance

/-- `Held s t`: something in the state will deliver to `t` — a timer, a queued callback, or a
    suspended frame that is itself held (a finite chain ending in a timer or a queued callback) -/
inductive Held (s : State) : Tgt → Prop where
  | sleeper (sl : Sleeper) (t : Tgt) : sl ∈ s.sleepers → t ∈ sl.waiter.tl → Held s t
  | ready (r : Ready) (t : Tgt) : r ∈ s.ready → t ∈ r.tl → Held s t
  | frame (g : Frame) (t : Tgt) : g ∈ s.frames → t ∈ g.parent.tl → Held s (.frame g.fid) → Held s t

/-- executable version (fuel = length of the longest chain looked at) -/
def heldB (s : State) : Nat → Tgt → Bool
  | 0, _ => false
  | n + 1, t =>
    s.sleepers.any (fun sl => sl.waiter.tl.contains t) ||
    s.ready.any (fun r => r.tl.contains t) ||
    s.frames.any (fun g => g.parent.tl.contains t && heldB s n (.frame g.fid))

end Circus.Core
