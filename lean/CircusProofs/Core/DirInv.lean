import CircusProofs.Core.SlotFree
/-!
`DirInv`: the two directory structures of the arbiter (the watcher list and the lower-cased
name dict) describe the same set of watcher objects; names are unique ignoring case.
-/
namespace Circus.Core

/-- what the directory invariant looks at -/
structure DirView where
  names : List (String × Nat)
  watchers : List Nat
  objs : List (Nat × String)      -- (uid, name) of every watcher object on the heap
  nextId : Nat

def dirView (s : State) : DirView :=
  { names := s.a.names, watchers := s.a.watchers, objs := s.ws.map (fun w => (w.uid, w.name)), nextId := s.nextId }

def DirP (v : DirView) : Prop :=
  (v.names.map (·.2)).Perm v.watchers ∧
  (v.names.map (·.1)).Nodup ∧
  v.watchers.Nodup ∧
  (v.objs.map (·.1)).Nodup ∧
  (∀ k u, (k, u) ∈ v.names → ∃ e ∈ v.objs, e.1 = u ∧ pyLower e.2 = k) ∧
  (∀ e ∈ v.objs, e.1 < v.nextId)

def DirInv (s : State) : Prop := DirP (dirView s)

theorem pres_of_view {m : M α} (h : ∀ s, dirView (m s).2 = dirView s) : Pres DirInv m := by
  intro s hs; unfold DirInv; rw [h s]; exact hs

theorem map_if_key (ws : List Watcher) (u : Nat) (f : Watcher → Watcher)
    (hf : ∀ w, (f w).uid = w.uid ∧ (f w).name = w.name) :
    (ws.map fun w => if w.uid = u then f w else w).map (fun w => (w.uid, w.name)) = ws.map (fun w => (w.uid, w.name)) := by
  induction ws with
  | nil => rfl
  | cons w ws ih =>
    simp only [List.map_cons, ih]
    by_cases h : w.uid = u
    · simp [h, (hf w).1, (hf w).2]
    · simp [h]

/-- the same for any guard -/
theorem map_guard_key (ws : List Watcher) (g : Watcher → Bool) (f : Watcher → Watcher)
    (hf : ∀ w, (f w).uid = w.uid ∧ (f w).name = w.name) :
    (ws.map fun w => if g w = true then f w else w).map (fun w => (w.uid, w.name)) = ws.map (fun w => (w.uid, w.name)) := by
  induction ws with
  | nil => rfl
  | cons w ws ih =>
    simp only [List.map_cons, ih]
    by_cases h : g w = true
    · simp [h, (hf w).1, (hf w).2]
    · simp [h]

theorem modW_view (u : Nat) (f : Watcher → Watcher) (hf : ∀ w, (f w).uid = w.uid ∧ (f w).name = w.name) (s : State) :
    dirView ((modW u f) s).2 = dirView s := by
  simp only [modW, modS, dirView]
  rw [map_if_key _ _ _ hf]

theorem applyOpt_key (c : OptChange) (w : Watcher) : (applyOpt c w).uid = w.uid ∧ (applyOpt c w).name = w.name := by
  cases c <;> simp [applyOpt]

end Circus.Core

namespace Circus.Core

macro "view_same" : tactic =>
  `(tactic| (apply pres_of_view; intro s; first
      | (simp only [dirView, modS, modA, modO, emit]; done)
      | (simp only [dirView, modS, modA, modO, emit]; split <;> rfl)
      | (simp [dirView, modS, modA, modO, emit]; done)))

theorem dir_freshId : Pres DirInv freshId := by
  intro s ⟨h1, h2, h3, h4, h5, h6⟩
  refine ⟨h1, h2, h3, h4, h5, ?_⟩
  intro e he
  have := h6 e he
  simp only [dirView, freshId] at this ⊢
  omega

theorem dir_unregister (u : Nat) : Pres DirInv (unregisterWatcher u) := by
  intro s ⟨h1, h2, h3, h4, h5, h6⟩
  simp only [DirInv, DirP, dirView, unregisterWatcher, modA, modS] at *
  refine ⟨?_, ?_, ?_, h4, ?_, h6⟩
  · -- Perm is preserved by filtering both sides on the uid
    have := List.Perm.filter (fun x => decide (x ≠ u)) h1
    simpa [List.filter_map, Function.comp_def] using this
  · exact List.Nodup.sublist (List.Sublist.map _ List.filter_sublist) h2
  · exact List.Nodup.sublist List.filter_sublist h3
  · intro k v hkv
    exact h5 k v (List.mem_filter.mp hkv).1

theorem lookup_none_not_mem {l : List (String × Nat)} {k : String} (h : (l.lookup k).isSome = false) :
    k ∉ l.map (·.1) := by
  induction l with
  | nil => simp
  | cons x xs ih =>
    obtain ⟨a, b⟩ := x
    simp only [List.lookup] at h
    by_cases hk : k = a
    · subst hk; simp at h
    · have : (k == a) = false := by simp [hk]
      simp only [this] at h
      simp only [List.map_cons, List.mem_cons, not_or]
      exact ⟨hk, ih h⟩

theorem dir_registerChecked (w : Watcher) : Pres DirInv (registerChecked w) := by
  intro s hs
  unfold registerChecked
  by_cases hlook : (s.a.names.lookup (pyLower w.name)).isSome
  · simp only [hlook, if_true]; exact hs
  · have hl : (s.a.names.lookup (pyLower w.name)).isSome = false := Bool.eq_false_iff.mpr hlook
    simp only [hl, Bool.false_eq_true, if_false]
    by_cases hsing : (w.singleton && !(decide (w.np = 0) || decide (w.np = 1))) = true
    · simp only [hsing, if_true]; exact hs
    · have hsg : (w.singleton && !(decide (w.np = 0) || decide (w.np = 1))) = false := by simpa using hsing
      simp only [hsg, Bool.false_eq_true, if_false]
      obtain ⟨h1, h2, h3, h4, h5, h6⟩ := hs
      simp only [DirInv, DirP, dirView] at *
      have hnew_w : s.nextId ∉ s.a.watchers := by
        intro hm
        have : s.nextId ∈ s.a.names.map (·.2) := (List.Perm.mem_iff h1).mpr hm
        obtain ⟨⟨k, u⟩, hku, hu⟩ := List.mem_map.mp this
        simp only at hu; subst hu
        obtain ⟨e, he, he1, _⟩ := h5 k _ hku
        have := h6 e he
        omega
      have hlk : pyLower w.name ∉ s.a.names.map (·.1) := by
        exact lookup_none_not_mem hl
      refine ⟨?_, ?_, ?_, ?_, ?_, ?_⟩
      · simp only [List.map_append, List.map_cons, List.map_nil]
        exact List.Perm.append h1 (List.Perm.refl _)
      · simp only [List.map_append, List.map_cons, List.map_nil]
        rw [List.nodup_append]
        refine ⟨h2, by simp, ?_⟩
        intro a ha b hb
        simp only [List.mem_cons, List.mem_nil_iff, or_false] at hb; subst hb
        intro hab; subst hab; exact hlk ha
      · rw [List.nodup_append]
        refine ⟨h3, by simp, ?_⟩
        intro a ha b hb
        simp only [List.mem_cons, List.mem_nil_iff, or_false] at hb; subst hb
        intro hab; subst hab; exact hnew_w ha
      · simp only [List.map_append, List.map_cons, List.map_nil]
        rw [List.nodup_append]
        refine ⟨h4, by simp, ?_⟩
        intro a ha b hb
        simp only [List.mem_cons, List.mem_nil_iff, or_false] at hb; subst hb
        intro hab; subst hab
        obtain ⟨e, he, he1⟩ := List.mem_map.mp ha
        have := h6 e he
        omega
      · intro k u hku
        simp only [List.mem_append, List.mem_cons, List.mem_nil_iff, or_false, Prod.mk.injEq] at hku
        rcases hku with hku | ⟨rfl, rfl⟩
        · obtain ⟨e, he, he1, he2⟩ := h5 k u hku
          exact ⟨e, by simp [he], he1, he2⟩
        · exact ⟨(s.nextId, w.name), by simp, rfl, rfl⟩
      · intro e he
        simp only [List.map_append, List.map_cons, List.map_nil, List.mem_append, List.mem_cons,
          List.mem_nil_iff, or_false] at he
        rcases he with he | rfl
        · have := h6 e he; omega
        · simp

theorem dir_registerNew (w : Watcher) : Pres DirInv (registerNew w) := dir_registerChecked _

theorem dir_trySetNp (u : Nat) (n : Int) : Pres DirInv (trySetNp u n) := by
  apply pres_of_view
  intro s
  unfold trySetNp
  simp only
  generalize (if n < 0 then 0 else n) = n'
  by_cases h : (((s.ws.find? (·.uid = u)).getD defaultWatcher).singleton && decide (n' > 1)) = true
  · simp only [h, if_true]
  · have h' := Bool.eq_false_iff.mpr h
    simp only [h', Bool.false_eq_true, if_false, dirView]
    rw [map_guard_key _ _ _ (by intro w; simp)]

theorem dir_spawnAdopt (u wid : Nat) : Pres DirInv (spawnAdopt u wid) := by
  apply pres_of_view
  intro s
  unfold spawnAdopt
  simp only
  cases h : s.k.spawn with
  | mk k' r =>
    cases r with
    | none => simp only [dirView]
    | some pid =>
      simp only [dirView]
      rw [map_if_key _ _ _ (by intro w; simp)]

theorem dirLeafX : LeafX DirInv where
  emit := fun o => by view_same
  emitRep := fun c i a b d => by unfold emitRep; view_same
  emitEv := fun w t p x => by unfold emitEv; view_same
  runK := fun f _ => by unfold runK; view_same
  setStatus := fun u st => pres_of_view (modW_view _ _ (by intro w; simp))
  trySetNp := dir_trySetNp
  spawnAdopt := dir_spawnAdopt
  popPid := fun u p => pres_of_view (modW_view _ _ (by intro w; simp))
  bumpHook := fun u h i => pres_of_view (modW_view _ _ (by intro w; simp))
  setWOpt := fun u c => pres_of_view (modW_view _ _ (applyOpt_key c))
  setObjStopping := fun p b => by unfold setObjStopping; view_same
  setRc := fun p rc => by unfold setRc; view_same
  markBlocked := by unfold markBlocked; view_same
  freshId := dir_freshId
  pushFrame := fun f => by unfold pushFrame; view_same
  removeFrame := fun f => by unfold removeFrame; view_same
  setFrameK := fun f k => by unfold setFrameK; view_same
  armFrame := fun f => by unfold armFrame; view_same
  pushSleeper := fun sl => by unfold pushSleeper; view_same
  armTop := fun t => by unfold armTop; view_same
  setClosed := by unfold setClosed; view_same
  setStopping := by unfold setStopping; view_same
  setRestarting := by unfold setRestarting; view_same
  clearRestarting := fun b => by unfold clearRestarting; view_same
  setLoopStop := fun b => by unfold setLoopStop; view_same
  setSocketEvent := fun b => by unfold setSocketEvent; view_same
  setSockReady := fun b => by unfold setSockReady; view_same
  clearDone := by unfold clearDone; view_same
  unregister := dir_unregister
  registerNew := fun w _ => dir_registerNew w
  fireSleeper := fun sl => by unfold fireSleeper; view_same
  enqueueResume := fun k v w => by unfold enqueue; view_same
  enqueueCallback := fun n => by unfold enqueue; view_same
  setSlot := fun v => by unfold setSlot; view_same
  pushTop := fun t => by unfold pushTop; view_same
  finishTop := fun t v => by unfold finishTop; view_same
  topAddCb := fun t cb => by unfold topAddCb; view_same
  enqueue := fun r => by unfold enqueue; view_same
  dequeue := by unfold dequeue; view_same

/-- the directory invariant holds in every state reached from a state where it holds -/
theorem dirInv_run (s : State) (ops : List Op) (h : DirInv s) : DirInv (run s ops) :=
  run_pres (Spec.ofLeafX dirLeafX) s ops h

end Circus.Core
