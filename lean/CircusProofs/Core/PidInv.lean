import CircusProofs.Core.SlotFree
import CircusProofs.Core.Init
/-!
`PidInv`: exact process accounting (C04).  The pids a watcher object lists are pids the kernel
handed out (below the pid counter, in the process table), each with its `Process` object, listed
once, and under one watcher object only.

`registerNew` copies the `pids` field of its argument watcher into the heap; the `Leaf` structure
therefore only asks for it on watchers with `pids = []` (the only way the model calls it, see
`addCore` / `applyAddOptions_pids`).

Second part: `KMono` — every kernel call keeps a process that is not running not running (dead
stays dead), with the lemma per kernel function (mirror of KStep.lean).
-/
namespace Circus.Core

/-- exact process accounting -/
structure PidInv (s : State) : Prop where
  /-- (a) every listed pid was handed out by the kernel's pid counter -/
  listedLt : ∀ w ∈ s.ws, ∀ p ∈ w.pids, p < s.k.nextPid
  /-- (b) no phantom: every listed pid is in the process table -/
  listedInK : ∀ w ∈ s.ws, ∀ p ∈ w.pids, p ∈ s.k.procs.map (·.pid)
  /-- (c) no watcher lists a pid twice -/
  listedNodup : ∀ w ∈ s.ws, w.pids.Nodup
  /-- (d) no pid is listed by two different watcher objects -/
  listedDisj : ∀ w1 ∈ s.ws, ∀ w2 ∈ s.ws, w1.uid ≠ w2.uid → ∀ p ∈ w1.pids, p ∉ w2.pids
  /-- every listed pid has its `Process` object -/
  listedObj : ∀ w ∈ s.ws, ∀ p ∈ w.pids, p ∈ s.objs.map (·.pid)
  /-- watcher objects have pairwise distinct identities … -/
  uidNodup : (s.ws.map (·.uid)).Nodup
  /-- … below the identity counter -/
  uidLt : ∀ w ∈ s.ws, w.uid < s.nextId
  /-- the process table has no pid twice … -/
  kNodup : (s.k.procs.map (·.pid)).Nodup
  /-- … and only pids below the pid counter -/
  kLt : ∀ p ∈ s.k.procs.map (·.pid), p < s.k.nextPid
  /-- one `Process` object per pid -/
  objNodup : (s.objs.map (·.pid)).Nodup
  /-- `Process` objects only for pids of the process table -/
  objInK : ∀ p ∈ s.objs.map (·.pid), p ∈ s.k.procs.map (·.pid)

/-- every `Process` object carries a pid below the pid counter -/
theorem PidInv.objLt {s : State} (h : PidInv s) : ∀ o ∈ s.objs, o.pid < s.k.nextPid :=
  fun o ho => h.kLt _ (h.objInK _ (List.mem_map.mpr ⟨o, ho, rfl⟩))

/-- the watcher heap is rewritten object by object, keeping identities and only dropping pids;
    the kernel makes a `KStep`; the `Process` heap keeps its pids; identities are not reused -/
theorem PidInv.wsmap {s t : State} (h : PidInv s) (g : Watcher → Watcher)
    (hu : ∀ w, (g w).uid = w.uid) (hp : ∀ w, (g w).pids.Sublist w.pids)
    (hws : t.ws = s.ws.map g) (hk : KStep s.k t.k)
    (ho : t.objs.map (·.pid) = s.objs.map (·.pid)) (hn : s.nextId ≤ t.nextId) : PidInv t := by
  have hmem : ∀ w' ∈ t.ws, ∃ w ∈ s.ws, w' = g w := by
    intro w' hw'
    rw [hws] at hw'
    obtain ⟨w, hw, rfl⟩ := List.mem_map.mp hw'
    exact ⟨w, hw, rfl⟩
  refine ⟨?_, ?_, ?_, ?_, ?_, ?_, ?_, ?_, ?_, ?_, ?_⟩
  · intro w' hw' p hp'
    obtain ⟨w, hw, rfl⟩ := hmem w' hw'
    rw [hk.nextPid]
    exact h.listedLt w hw p ((hp w).subset hp')
  · intro w' hw' p hp'
    obtain ⟨w, hw, rfl⟩ := hmem w' hw'
    rw [hk.pids]
    exact h.listedInK w hw p ((hp w).subset hp')
  · intro w' hw'
    obtain ⟨w, hw, rfl⟩ := hmem w' hw'
    exact List.Nodup.sublist (hp w) (h.listedNodup w hw)
  · intro w1 hw1 w2 hw2 hne p hp1 hp2
    obtain ⟨a, ha, rfl⟩ := hmem w1 hw1
    obtain ⟨b, hb, rfl⟩ := hmem w2 hw2
    rw [hu a, hu b] at hne
    exact h.listedDisj a ha b hb hne p ((hp a).subset hp1) ((hp b).subset hp2)
  · intro w' hw' p hp'
    obtain ⟨w, hw, rfl⟩ := hmem w' hw'
    rw [ho]
    exact h.listedObj w hw p ((hp w).subset hp')
  · have : t.ws.map (·.uid) = s.ws.map (·.uid) := by
      rw [hws, List.map_map]
      apply List.map_congr_left
      intro w _
      exact hu w
    rw [this]; exact h.uidNodup
  · intro w' hw'
    obtain ⟨w, hw, rfl⟩ := hmem w' hw'
    rw [hu w]
    exact Nat.lt_of_lt_of_le (h.uidLt w hw) hn
  · rw [hk.pids]; exact h.kNodup
  · rw [hk.pids, hk.nextPid]; exact h.kLt
  · rw [ho]; exact h.objNodup
  · rw [ho, hk.pids]; exact h.objInK

/-- nothing the invariant looks at changes, but for a `KStep` of the kernel and a larger
    identity counter -/
theorem PidInv.same {s t : State} (h : PidInv s) (hws : t.ws = s.ws) (hk : KStep s.k t.k)
    (ho : t.objs.map (·.pid) = s.objs.map (·.pid)) (hn : s.nextId ≤ t.nextId) : PidInv t :=
  h.wsmap id (fun _ => rfl) (fun _ => List.Sublist.refl _) (by rw [hws, List.map_id]) hk ho hn

theorem pid_modW (u : Nat) (f : Watcher → Watcher) (hu : ∀ w, (f w).uid = w.uid)
    (hp : ∀ w, (f w).pids.Sublist w.pids) : Pres PidInv (modW u f) := by
  intro s hs
  refine hs.wsmap (fun w => if w.uid = u then f w else w) ?_ ?_ rfl (KStep.refl _) rfl (Nat.le_refl _)
  · intro w; split
    · exact hu w
    · rfl
  · intro w; split
    · exact hp w
    · exact List.Sublist.refl _

theorem pid_modO (p : Nat) (f : PObj → PObj) (hf : ∀ o, (f o).pid = o.pid) : Pres PidInv (modO p f) := by
  intro s hs
  refine hs.same rfl (KStep.refl _) ?_ (Nat.le_refl _)
  simp only [modO, modS, List.map_map]
  apply List.map_congr_left
  intro o _
  simp only [Function.comp]
  split
  · exact hf o
  · rfl

/-- writers that touch neither `ws`, `k`, `objs` nor `nextId` -/
theorem pid_frame {m : M α} (h : ∀ s, (m s).2.ws = s.ws ∧ (m s).2.k = s.k ∧ (m s).2.objs = s.objs ∧ (m s).2.nextId = s.nextId) :
    Pres PidInv m := by
  intro s hs
  obtain ⟨h1, h2, h3, h4⟩ := h s
  exact hs.same h1 (by rw [h2]; exact KStep.refl _) (by rw [h3]) (by rw [h4]; exact Nat.le_refl _)

macro "pid_frame_tac" : tactic =>
  `(tactic| (apply pid_frame; intro s; first
      | (simp only [modS, modA, emit, emitEv, emitRep]; done)
      | (simp only [modS, modA, emit, emitEv, emitRep]; split <;> exact ⟨rfl, rfl, rfl, rfl⟩)
      | (simp [modS, modA, emit, emitEv, emitRep]; done)))

theorem pid_runK {α : Type} (f : Kernel → Kernel × α) (hf : KOp f) : Pres PidInv (runK f) := by
  intro s hs
  exact hs.same rfl (hf s.k) rfl (Nat.le_refl _)

theorem pid_trySetNp (u : Nat) (n : Int) : Pres PidInv (trySetNp u n) := by
  intro s hs
  unfold trySetNp
  simp only
  generalize (if n < 0 then 0 else n) = n'
  by_cases h : (((s.ws.find? (·.uid = u)).getD defaultWatcher).singleton && decide (n' > 1)) = true
  · simp only [h, if_true]; exact hs
  · have h' := Bool.eq_false_iff.mpr h
    simp only [h', Bool.false_eq_true, if_false]
    refine hs.wsmap (fun w => if (w.uid = u && !(w.singleton && decide (n' > 1))) = true then { w with np := n' } else w)
      ?_ ?_ rfl (KStep.refl _) rfl (Nat.le_refl _)
    · intro w; split <;> rfl
    · intro w; split <;> exact List.Sublist.refl _

theorem pid_fireSleeper (sl : Sleeper) : Pres PidInv (fireSleeper sl) := by
  intro s hs
  exact hs.same rfl (KStep.setNow _ _) rfl (Nat.le_refl _)

theorem pid_freshId : Pres PidInv freshId := by
  intro s hs
  exact hs.same rfl (KStep.refl _) rfl (Nat.le_succ _)

/-! ### `Popen()` -/

theorem mkKids_pids (parent : Nat) (b : Behav) (n p : Nat) :
    (Kernel.mkKids parent b n p).map (·.pid) = List.range' p n := by
  induction n generalizing p with
  | zero => rfl
  | succ n ih => simp [Kernel.mkKids, ih, List.range'_succ]

/-- a failed `Popen()` is an ordinary kernel step -/
theorem spawn_none {k k' : Kernel} (h : k.spawn = (k', none)) : KStep k k' := by
  unfold Kernel.spawn at h
  simp only at h
  have ht := KStep.tick k
  generalize k.tick = k1 at h ht
  split at h
  · simp only [Prod.mk.injEq, and_true] at h
    subst h
    exact ⟨ht.nextPid, ht.pids⟩
  · simp at h

/-- a successful `Popen()` returns the pid counter's value, appends that pid and the pids of the
    worker's own children to the process table, and moves the counter past them -/
theorem spawn_some {k k' : Kernel} {pid : Nat} (h : k.spawn = (k', some pid)) :
    pid = k.nextPid ∧ ∃ n, k'.nextPid = k.nextPid + 1 + n ∧
      k'.procs.map (·.pid) = k.procs.map (·.pid) ++ List.range' k.nextPid (n + 1) := by
  unfold Kernel.spawn at h
  simp only at h
  have ht := KStep.tick k
  generalize k.tick = k1 at h ht
  split at h
  · simp at h
  · simp only [Prod.mk.injEq, Option.some.injEq] at h
    obtain ⟨h1, h2⟩ := h
    subst h1
    refine ⟨by rw [← h2, ht.nextPid], k1.behavAt.kids, ?_, ?_⟩
    · simp only [ht.nextPid]
    · simp only [List.map_append, List.map_cons, mkKids_pids, ht.pids, ht.nextPid,
        List.append_assoc, List.singleton_append, List.range'_succ]

/-! #### `Popen()` and the virtual clock

Every kernel-call boundary (`tick`: armed faults fire, due deaths resolve) leaves `now` alone; a
failed `Popen()` takes no time, a successful one takes the `spawnMs` of the behaviour it used (the
fork/exec — and the `after_spawn` hook — take time). -/

theorem Kernel.dead_now (k : Kernel) (pid st : Nat) : (k.dead pid st).now = k.now := rfl

theorem Kernel.die_now (k : Kernel) (pid st : Nat) : (k.die pid st).now = k.now := by
  unfold Kernel.die
  split
  · split
    · rfl
    · rfl
  · rfl

theorem Kernel.foldl_now {β : Type} (l : List β) (f : Kernel → β → Kernel)
    (hf : ∀ k b, (f k b).now = k.now) (k : Kernel) : (l.foldl f k).now = k.now := by
  induction l generalizing k with
  | nil => rfl
  | cons x xs ih => exact (ih (f k x)).trans (hf k x)

theorem Kernel.resolve_now (k : Kernel) : k.resolve.now = k.now := by
  unfold Kernel.resolve
  apply Kernel.foldl_now
  intro k p0
  split
  · split
    · split
      · rfl
      · rfl
    · rfl
  · rfl

/-- a kernel-call boundary does not move the virtual clock -/
theorem Kernel.tick_now (k : Kernel) : k.tick.now = k.now := by
  unfold Kernel.tick
  simp only
  rw [Kernel.resolve_now, Kernel.foldl_now]
  intro k f; exact Kernel.die_now _ _ _

/-- a failed `Popen()` takes no (virtual) time -/
theorem spawn_none_now {k k' : Kernel} (h : k.spawn = (k', none)) : k'.now = k.now := by
  unfold Kernel.spawn at h
  simp only at h
  have ht := Kernel.tick_now k
  generalize k.tick = k1 at h ht
  split at h
  · simp only [Prod.mk.injEq, and_true] at h
    subst h
    exact ht
  · simp at h

/-- a successful `Popen()` advances the clock by the `spawnMs` of the behaviour it used -/
theorem spawn_some_now {k k' : Kernel} {pid : Nat} (h : k.spawn = (k', some pid)) :
    k'.now = k.now + k.tick.behavAt.spawnMs := by
  unfold Kernel.spawn at h
  simp only at h
  have ht := Kernel.tick_now k
  generalize k.tick = k1 at h ht
  split at h
  · simp at h
  · simp only [Prod.mk.injEq, Option.some.injEq] at h
    rw [← h.1, ← ht]

/-- `Popen()` never moves the clock backwards -/
theorem spawn_now_le (k : Kernel) : k.now ≤ k.spawn.1.now := by
  cases h : k.spawn with
  | mk k' r =>
    cases r with
    | none => rw [spawn_none_now h]; exact Nat.le_refl _
    | some pid => rw [spawn_some_now h]; exact Nat.le_add_right _ _

/-- what `spawnAdopt` does when the exec fails: only the kernel (an ordinary step: no new process,
    the attempt counter) and the ghost log change -/
theorem spawnAdopt_none (u wid : Nat) (s : State) (h : (s.k.spawn).2 = none) :
    spawnAdopt u wid s =
      (none, { s with k := (s.k.spawn).1, log := if s.blocked then s.log else s.log ++ [Obs.execfail] }) := by
  unfold spawnAdopt
  simp only
  cases hsp : s.k.spawn with
  | mk k' r =>
    rw [hsp] at h
    simp only at h
    subst h
    rfl

/-- what `spawnAdopt` does when the exec succeeds (`started` is the time before the fork) -/
theorem spawnAdopt_some (u wid : Nat) (s : State) (pid : Nat) (h : (s.k.spawn).2 = some pid) :
    spawnAdopt u wid s =
      (some pid, { s with
        k := (s.k.spawn).1,
        objs := s.objs ++ [{ pid := pid, wid := wid, started := s.k.now }],
        log := if s.blocked then s.log else s.log ++ [Obs.spawn pid ((s.ws.find? (·.uid = u)).getD defaultWatcher).name wid],
        ws := s.ws.map fun w => if w.uid = u then { w with pids := w.pids ++ [pid] } else w }) := by
  unfold spawnAdopt
  simp only
  cases hsp : s.k.spawn with
  | mk k' r =>
    rw [hsp] at h
    simp only at h
    subst h
    rfl

theorem pid_spawnAdopt (u wid : Nat) : Pres PidInv (spawnAdopt u wid) := by
  intro s hs
  cases hr : (s.k.spawn).2 with
  | none =>
    rw [spawnAdopt_none u wid s hr]
    have hk : KStep s.k (s.k.spawn).1 := spawn_none (k' := (s.k.spawn).1) (by rw [← hr])
    exact hs.same rfl hk rfl (Nat.le_refl _)
  | some pid =>
    rw [spawnAdopt_some u wid s pid hr]
    obtain ⟨hpid, n, hnp, hpr⟩ := spawn_some (k := s.k) (k' := (s.k.spawn).1) (pid := pid) (by rw [← hr])
    subst hpid
    -- membership in the rewritten heap
    have hmem : ∀ w' ∈ (s.ws.map fun w => if w.uid = u then { w with pids := w.pids ++ [s.k.nextPid] } else w),
        ∃ w ∈ s.ws, w'.uid = w.uid ∧
          ((w'.pids = w.pids) ∨ (w.uid = u ∧ w'.pids = w.pids ++ [s.k.nextPid])) := by
      intro w' hw'
      obtain ⟨w, hw, rfl⟩ := List.mem_map.mp hw'
      refine ⟨w, hw, ?_⟩
      by_cases hwu : w.uid = u
      · rw [if_pos hwu]; exact ⟨rfl, Or.inr ⟨hwu, rfl⟩⟩
      · rw [if_neg hwu]; exact ⟨rfl, Or.inl rfl⟩
    have hfreshK : s.k.nextPid ∈ List.range' s.k.nextPid (n + 1) := by
      simp [List.mem_range'_1]
    have hin : ∀ w' ∈ (s.ws.map fun w => if w.uid = u then { w with pids := w.pids ++ [s.k.nextPid] } else w),
        ∀ p ∈ w'.pids, (∃ w ∈ s.ws, w'.uid = w.uid ∧ p ∈ w.pids) ∨ (p = s.k.nextPid ∧ w'.uid = u) := by
      intro w' hw' p hp
      obtain ⟨w, hw, hu, hc⟩ := hmem w' hw'
      rcases hc with hc | ⟨hwu, hc⟩
      · left; exact ⟨w, hw, hu, hc ▸ hp⟩
      · rw [hc] at hp
        rcases List.mem_append.mp hp with hp | hp
        · left; exact ⟨w, hw, hu, hp⟩
        · right; exact ⟨by simpa using hp, hu.trans hwu⟩
    refine ⟨?_, ?_, ?_, ?_, ?_, ?_, ?_, ?_, ?_, ?_, ?_⟩
    · intro w' hw' p hp
      simp only [hnp]
      rcases hin w' hw' p hp with ⟨w, hw, _, hpw⟩ | ⟨rfl, _⟩
      · have := hs.listedLt w hw p hpw; omega
      · omega
    · intro w' hw' p hp
      simp only [hpr]
      rcases hin w' hw' p hp with ⟨w, hw, _, hpw⟩ | ⟨rfl, _⟩
      · exact List.mem_append_left _ (hs.listedInK w hw p hpw)
      · exact List.mem_append_right _ hfreshK
    · intro w' hw'
      obtain ⟨w, hw, _, hc⟩ := hmem w' hw'
      rcases hc with hc | ⟨_, hc⟩
      · rw [hc]; exact hs.listedNodup w hw
      · rw [hc, List.nodup_append]
        refine ⟨hs.listedNodup w hw, by simp, ?_⟩
        intro a ha b hb
        simp only [List.mem_cons, List.mem_nil_iff, or_false] at hb
        subst hb
        have := hs.listedLt w hw a ha
        omega
    · intro w1 hw1 w2 hw2 hne p hp1 hp2
      rcases hin w1 hw1 p hp1 with ⟨a, ha, hua, hpa⟩ | ⟨rfl, hu1⟩
      · rcases hin w2 hw2 p hp2 with ⟨b, hb, hub, hpb⟩ | ⟨rfl, _⟩
        · exact hs.listedDisj a ha b hb (by rw [← hua, ← hub]; exact hne) p hpa hpb
        · have := hs.listedLt a ha _ hpa; omega
      · rcases hin w2 hw2 _ hp2 with ⟨b, hb, _, hpb⟩ | ⟨_, hu2⟩
        · have := hs.listedLt b hb _ hpb; omega
        · exact hne (hu1.trans hu2.symm)
    · intro w' hw' p hp
      simp only [List.map_append, List.map_cons, List.map_nil]
      rcases hin w' hw' p hp with ⟨w, hw, _, hpw⟩ | ⟨rfl, _⟩
      · exact List.mem_append_left _ (hs.listedObj w hw p hpw)
      · exact List.mem_append_right _ (by simp)
    · have : (s.ws.map fun w => if w.uid = u then { w with pids := w.pids ++ [s.k.nextPid] } else w).map (·.uid)
          = s.ws.map (·.uid) := by
        rw [List.map_map]
        apply List.map_congr_left
        intro w _
        simp only [Function.comp]
        split <;> rfl
      simp only [this]; exact hs.uidNodup
    · intro w' hw'
      obtain ⟨w, hw, hu, _⟩ := hmem w' hw'
      rw [hu]; exact hs.uidLt w hw
    · simp only [hpr]
      rw [List.nodup_append]
      refine ⟨hs.kNodup, List.nodup_range', ?_⟩
      intro a ha b hb
      have h1 := hs.kLt a ha
      simp only [List.mem_range'_1] at hb
      omega
    · intro p hp
      simp only [hpr, hnp] at hp ⊢
      rcases List.mem_append.mp hp with hp | hp
      · have := hs.kLt p hp; omega
      · simp only [List.mem_range'_1] at hp; omega
    · simp only [List.map_append, List.map_cons, List.map_nil]
      rw [List.nodup_append]
      refine ⟨hs.objNodup, by simp, ?_⟩
      intro a ha b hb
      simp only [List.mem_cons, List.mem_nil_iff, or_false] at hb
      subst hb
      have := hs.kLt a (hs.objInK a ha)
      omega
    · intro p hp
      simp only [List.map_append, List.map_cons, List.map_nil, hpr] at hp ⊢
      rcases List.mem_append.mp hp with hp | hp
      · exact List.mem_append_left _ (hs.objInK p hp)
      · simp only [List.mem_cons, List.mem_nil_iff, or_false] at hp
        subst hp
        exact List.mem_append_right _ hfreshK

/-- `add_watcher` for a watcher that lists no process (the only way the model calls it) -/
theorem pid_registerNew (w : Watcher) (hw : w.pids = []) : Pres PidInv (registerNew w) := by
  intro s hs
  unfold registerNew registerChecked
  by_cases hlook : (s.a.names.lookup (pyLower (clampNp w).name)).isSome
  · simp only [hlook, if_true]; exact hs
  · have hl := Bool.eq_false_iff.mpr hlook
    simp only [hl, Bool.false_eq_true, if_false]
    by_cases hsing : ((clampNp w).singleton && !(decide ((clampNp w).np = 0) || decide ((clampNp w).np = 1))) = true
    · simp only [hsing, if_true]; exact hs
    · have hsg := Bool.eq_false_iff.mpr hsing
      simp only [hsg, Bool.false_eq_true, if_false]
      have hnew : ({ clampNp w with uid := s.nextId } : Watcher).pids = [] := by simp [clampNp, hw]
      have hmem : ∀ x ∈ s.ws ++ [({ clampNp w with uid := s.nextId } : Watcher)],
          x ∈ s.ws ∨ (x.pids = [] ∧ x.uid = s.nextId) := by
        intro x hx
        rcases List.mem_append.mp hx with hx | hx
        · exact Or.inl hx
        · simp only [List.mem_cons, List.mem_nil_iff, or_false] at hx
          subst hx
          exact Or.inr ⟨hnew, rfl⟩
      refine ⟨?_, ?_, ?_, ?_, ?_, ?_, ?_, hs.kNodup, hs.kLt, hs.objNodup, hs.objInK⟩
      · intro x hx p hp
        rcases hmem x hx with hx | ⟨he, _⟩
        · exact hs.listedLt x hx p hp
        · rw [he] at hp; cases hp
      · intro x hx p hp
        rcases hmem x hx with hx | ⟨he, _⟩
        · exact hs.listedInK x hx p hp
        · rw [he] at hp; cases hp
      · intro x hx
        rcases hmem x hx with hx | ⟨he, _⟩
        · exact hs.listedNodup x hx
        · rw [he]; exact List.nodup_nil
      · intro x hx y hy hne p hp1 hp2
        rcases hmem x hx with hx | ⟨he, _⟩
        · rcases hmem y hy with hy | ⟨he, _⟩
          · exact hs.listedDisj x hx y hy hne p hp1 hp2
          · rw [he] at hp2; cases hp2
        · rw [he] at hp1; cases hp1
      · intro x hx p hp
        rcases hmem x hx with hx | ⟨he, _⟩
        · exact hs.listedObj x hx p hp
        · rw [he] at hp; cases hp
      · simp only [List.map_append, List.map_cons, List.map_nil]
        rw [List.nodup_append]
        refine ⟨hs.uidNodup, by simp, ?_⟩
        intro a ha b hb
        simp only [List.mem_cons, List.mem_nil_iff, or_false] at hb
        subst hb
        obtain ⟨x, hx, rfl⟩ := List.mem_map.mp ha
        have := hs.uidLt x hx
        omega
      · intro x hx
        simp only
        rcases hmem x hx with hx | ⟨_, he⟩
        · have := hs.uidLt x hx; omega
        · omega

theorem applyOpt_uid_pids (c : OptChange) (w : Watcher) : (applyOpt c w).uid = w.uid ∧ (applyOpt c w).pids = w.pids := by
  cases c <;> simp [applyOpt]

/-- the writers of Watcher.lean keep the accounting exact -/
theorem pidLeafW : LeafW PidInv where
  emit := fun o => by pid_frame_tac
  runK := pid_runK
  emitEv := fun w t p x => by pid_frame_tac
  popPid := fun u p => pid_modW _ _ (fun _ => rfl) (fun _ => List.filter_sublist)
  bumpHook := fun u h i => pid_modW _ _ (fun _ => rfl) (fun _ => List.Sublist.refl _)
  setObjStopping := fun p b => pid_modO _ _ (fun _ => rfl)
  setRc := fun p rc => pid_modO _ _ (fun _ => rfl)
  markBlocked := by unfold markBlocked; pid_frame_tac

/-- every named writer keeps the accounting exact -/
theorem pidLeafX : LeafX PidInv where
  toLeafW := pidLeafW
  emitRep := fun c i a b d => by pid_frame_tac
  setStatus := fun u st => pid_modW _ _ (fun _ => rfl) (fun _ => List.Sublist.refl _)
  trySetNp := pid_trySetNp
  spawnAdopt := pid_spawnAdopt
  setWOpt := fun u c => pid_modW _ _ (fun w => (applyOpt_uid_pids c w).1)
    (fun w => by rw [(applyOpt_uid_pids c w).2]; exact List.Sublist.refl _)
  freshId := pid_freshId
  pushFrame := fun f => by unfold pushFrame; pid_frame_tac
  removeFrame := fun f => by unfold removeFrame; pid_frame_tac
  setFrameK := fun f k => by unfold setFrameK; pid_frame_tac
  armFrame := fun f => by unfold armFrame; pid_frame_tac
  pushSleeper := fun sl => by unfold pushSleeper; pid_frame_tac
  armTop := fun t => by unfold armTop; pid_frame_tac
  setClosed := by unfold setClosed; pid_frame_tac
  setStopping := by unfold setStopping; pid_frame_tac
  setRestarting := by unfold setRestarting; pid_frame_tac
  clearRestarting := fun b => by unfold clearRestarting; pid_frame_tac
  setLoopStop := fun b => by unfold setLoopStop; pid_frame_tac
  setSocketEvent := fun b => by unfold setSocketEvent; pid_frame_tac
  setSockReady := fun b => by unfold setSockReady; pid_frame_tac
  clearDone := by unfold clearDone; pid_frame_tac
  unregister := fun u => by unfold unregisterWatcher; pid_frame_tac
  registerNew := pid_registerNew
  fireSleeper := pid_fireSleeper
  enqueueResume := fun k v w => by unfold enqueue; pid_frame_tac
  enqueueCallback := fun n => by unfold enqueue; pid_frame_tac
  setSlot := fun v => by unfold setSlot; pid_frame_tac
  pushTop := fun t => by unfold pushTop; pid_frame_tac
  finishTop := fun t v => by unfold finishTop; pid_frame_tac
  topAddCb := fun t cb => by unfold topAddCb; pid_frame_tac
  enqueue := fun r => by unfold enqueue; pid_frame_tac
  dequeue := by unfold dequeue; pid_frame_tac

/-- the accounting stays exact along every run from a state where it is exact -/
theorem pidInv_run (s : State) (ops : List Op) (h : PidInv s) : PidInv (run s ops) :=
  run_pres (Spec.ofLeafX pidLeafX) s ops h

/-- the initial state of any configuration whose watchers list no process: nothing is listed, the
    process table is empty, identities are 1 … n -/
theorem pidInv_init (cfg : List Watcher) (bs : List Behav) (aw : Nat) (hcfg : ∀ w ∈ cfg, w.pids = []) :
    PidInv (initState cfg bs aw) := by
  have huids : (assignUids cfg 1).map (·.uid) = List.range' 1 cfg.length := assignUids_uids cfg 1
  have hpids : ∀ w ∈ assignUids cfg 1, w.pids = [] := by
    have key : ∀ (l : List Watcher) (n : Nat), (∀ w ∈ l, w.pids = []) → ∀ w ∈ assignUids l n, w.pids = [] := by
      intro l
      induction l with
      | nil => intro n _ w hw; cases hw
      | cons x xs ih =>
        intro n h w hw
        simp only [assignUids, List.mem_cons] at hw
        rcases hw with rfl | hw
        · exact h x (by simp)
        · exact ih (n + 1) (fun w hw => h w (by simp [hw])) w hw
    exact key cfg 1 hcfg
  refine ⟨?_, ?_, ?_, ?_, ?_, ?_, ?_, ?_, ?_, ?_, ?_⟩
  · intro w hw p hp; rw [hpids w hw] at hp; cases hp
  · intro w hw p hp; rw [hpids w hw] at hp; cases hp
  · intro w hw; rw [hpids w hw]; exact List.nodup_nil
  · intro w1 hw1 _ _ _ p hp; rw [hpids w1 hw1] at hp; cases hp
  · intro w hw p hp; rw [hpids w hw] at hp; cases hp
  · show ((assignUids cfg 1).map (·.uid)).Nodup
    rw [huids]; exact List.nodup_range'
  · intro w hw
    have : w.uid ∈ List.range' 1 cfg.length := by rw [← huids]; exact List.mem_map.mpr ⟨w, hw, rfl⟩
    simp only [List.mem_range'_1] at this
    show w.uid < cfg.length + 1
    omega
  · exact List.nodup_nil
  · intro p hp; cases hp
  · exact List.nodup_nil
  · intro p hp; cases hp

/-! ### dead stays dead -/

/-- every kernel call keeps the set of pids, and a process that is not running stays not running -/
def KMono (k k' : Kernel) : Prop :=
  ∀ pid, (k.find pid = none → k'.find pid = none) ∧
    ∀ p, k.find pid = some p → ∃ p', k'.find pid = some p' ∧ (p.st ≠ .run → p'.st ≠ .run)

def KMonoOp {α : Type} (f : Kernel → Kernel × α) : Prop := ∀ k, KMono k (f k).1

/-- the kernel does not know `pid` as a running process (zombie, gone, or never seen) -/
def Kernel.DeadIn (k : Kernel) (pid : Nat) : Prop := ∀ p, k.find pid = some p → p.st ≠ .run

namespace KMono

theorem refl (k : Kernel) : KMono k k := fun _ => ⟨fun h => h, fun p h => ⟨p, h, fun h => h⟩⟩

theorem trans {a b c : Kernel} (h1 : KMono a b) (h2 : KMono b c) : KMono a c := by
  intro pid
  refine ⟨fun h => (h2 pid).1 ((h1 pid).1 h), ?_⟩
  intro p hp
  obtain ⟨p1, hp1, hm1⟩ := (h1 pid).2 p hp
  obtain ⟨p2, hp2, hm2⟩ := (h2 pid).2 p1 hp1
  exact ⟨p2, hp2, fun h => hm2 (hm1 h)⟩

theorem deadIn {k k' : Kernel} (h : KMono k k') {pid : Nat} (hd : k.DeadIn pid) : k'.DeadIn pid := by
  intro p' hp'
  cases hf : k.find pid with
  | none => rw [(h pid).1 hf] at hp'; cases hp'
  | some p =>
    obtain ⟨p'', hp'', hm⟩ := (h pid).2 p hf
    rw [hp''] at hp'
    cases hp'
    exact hm (hd p hf)

theorem find_map (l : List KProc) (f : KProc → KProc) (hf : ∀ p, (f p).pid = p.pid) (pid : Nat) :
    (l.map f).find? (fun p => decide (p.pid = pid)) = (l.find? (fun p => decide (p.pid = pid))).map f := by
  induction l with
  | nil => rfl
  | cons x xs ih =>
    simp only [List.map_cons, List.find?_cons, hf x]
    split
    · rfl
    · exact ih

/-- mapping the table with a function that keeps pids and never revives -/
theorem map (k : Kernel) (f : KProc → KProc) (hf : ∀ p, (f p).pid = p.pid ∧ (p.st ≠ .run → (f p).st ≠ .run))
    (k' : Kernel) (hk : k'.procs = k.procs.map f) : KMono k k' := by
  intro pid
  simp only [Kernel.find, hk]
  rw [find_map _ _ (fun p => (hf p).1)]
  refine ⟨fun h => by rw [h]; rfl, ?_⟩
  intro p hp
  rw [hp]
  exact ⟨f p, rfl, (hf p).2⟩

theorem same (k k' : Kernel) (h : k'.procs = k.procs) : KMono k k' :=
  map k id (fun _ => ⟨rfl, fun h => h⟩) k' (by rw [h, List.map_id])

theorem upd (k : Kernel) (pid : Nat) (f : KProc → KProc) (hf : ∀ p, (f p).pid = p.pid ∧ (p.st ≠ .run → (f p).st ≠ .run)) :
    KMono k (k.upd pid f) := by
  apply map k (fun p => if p.pid = pid then f p else p) _ _ rfl
  intro p
  split
  · exact hf p
  · exact ⟨rfl, fun h => h⟩

theorem dead (k : Kernel) (pid st : Nat) : KMono k (k.dead pid st) := by
  apply map k _ _ _ rfl
  intro p
  split
  · refine ⟨rfl, fun _ => ?_⟩
    simp only
    split <;> simp
  · split
    · exact ⟨rfl, fun h => h⟩
    · exact ⟨rfl, fun h => h⟩

theorem die (k : Kernel) (pid st : Nat) : KMono k (k.die pid st) := by
  unfold Kernel.die
  split
  · split
    · exact dead k pid st
    · exact refl k
  · exact refl k

theorem foldl {β : Type} (l : List β) (f : Kernel → β → Kernel) (hf : ∀ k b, KMono k (f k b)) (k : Kernel) :
    KMono k (l.foldl f k) := by
  induction l generalizing k with
  | nil => exact refl k
  | cons x xs ih => exact trans (hf k x) (ih (f k x))

theorem resolve (k : Kernel) : KMono k k.resolve := by
  unfold Kernel.resolve
  apply foldl
  intro k p0
  split
  · split
    · split
      · exact dead _ _ _
      · exact refl _
    · exact refl _
  · exact refl _

theorem tick (k : Kernel) : KMono k k.tick := by
  unfold Kernel.tick
  refine trans (b := { k with calls := k.calls + 1, armed := k.armed.filter (fun f => ¬ (f.1 ≤ k.calls + 1)) }) (same _ _ rfl) ?_
  refine trans ?_ (resolve _)
  apply foldl
  intro k f; exact die _ _ _

theorem doomAt (k : Kernel) (pid dl st : Nat) : KMono k (k.doomAt pid dl st) := by
  unfold Kernel.doomAt
  apply upd
  intro p
  split
  · split
    · exact ⟨rfl, fun h => h⟩
    · exact ⟨rfl, fun h => h⟩
  · exact ⟨rfl, fun h => h⟩

theorem kill (pid sig : Nat) : KMonoOp (fun k => Kernel.kill k pid sig) := by
  intro k
  simp only [Kernel.kill]
  refine trans (tick k) ?_
  generalize k.tick = k1
  split
  · exact refl _
  · split
    · exact refl _
    · split
      · simp only
        refine trans ?_ (resolve _)
        split
        · exact doomAt _ _ _ _
        · split
          · exact refl _
          · split
            · exact doomAt _ _ _ _
            · exact refl _
      · exact refl _

/-- the daemon's own `kill`: refused (only the tick happened) or the plain `kill` -/
theorem killD (pid sig : Nat) : KMonoOp (fun k => Kernel.killD k pid sig) := by
  intro k
  simp only [Kernel.killD]
  split
  · exact tick k
  · exact kill pid sig k

theorem waitpid (pid : Option Nat) : KMonoOp (fun k => Kernel.waitpid k pid) := by
  intro k
  simp only [Kernel.waitpid]
  refine trans (tick k) ?_
  generalize k.tick = k1
  split
  · exact refl _
  · exact refl _
  · split
    · exact refl _
    · split
      · exact refl _
      · split
        · exact refl _
        · apply upd; intro p; exact ⟨rfl, fun _ => by simp⟩

theorem stateOf (pid : Nat) : KMonoOp (fun k => Kernel.stateOf k pid) := by
  intro k; exact tick k

theorem children (pid : Nat) (r : Bool) : KMonoOp (fun k => Kernel.children k pid r) := by
  intro k
  simp only [Kernel.children]
  refine trans (tick k) ?_
  generalize k.tick = k1
  split
  · exact refl _
  · split
    · exact refl _
    · split <;> exact refl _

theorem sleep (ms : Nat) : KMonoOp (fun k => (Kernel.sleep k ms, ())) := by
  intro k
  simp only [Kernel.sleep]
  exact trans (b := { k with now := k.now + (if ms = 0 then 1 else ms), slept := k.slept + (if ms = 0 then 1 else ms), spins := k.spins + 1 }) (same _ _ rfl) (tick _)

end KMono

end Circus.Core
