import CircusProofs.Core.SigExec
/-!
The signal invariant through `dispatch`, every command, the event loop and the stimuli:
`si_run : SI s → SI (run s ops)`, and `SI (initState …)`.
-/
set_option linter.unusedSimpArgs false
set_option linter.unusedVariables false
namespace Circus.Core

attribute [aesop safe apply (rule_sets := [Sg])] exec_si

theorem Call.free_ite (c : Prop) [Decidable c] (a b : Call) (ha : a.free = true) (hb : b.free = true) :
    (if c then a else b).free = true := by
  split <;> assumption

attribute [aesop safe apply (rule_sets := [Sg])] Call.free_ite

@[aesop safe apply (rule_sets := [Sg])]
theorem syncCoroutine_si (name : String) (c : Call) (extra : List TopCb) (hc : c.free = true) :
    Pres SI (syncCoroutine name c extra) := by
  unfold syncCoroutine; sg

theorem syncPlain_si {α : Type} (name : String) (body : M (R α)) (hb : Pres SI body) : Pres SI (syncPlain name body) := by
  unfold syncPlain
  aesop (add safe apply hb) (rule_sets := [Sg]) (config := { terminal := true, useDefaultSimpSet := false, useSimpAll := false, maxRuleApplications := 3000 })

/-- a coroutine started outside `synchronized` (`Kill.execute`) -/
theorem plainCoroutine_si (c : Call) (extra : List TopCb) (s : State) (h : SI s) (hc : CallOk s c) :
    SI (plainCoroutine c extra s).2 := by
  unfold plainCoroutine
  simp only [bind, pure]
  have h1 := newTop_si extra s h
  have ho : ∀ p, HasObj s p → HasObj (newTop extra s).2 p := fun p hp => by
    unfold newTop
    simp only [bind, pure]
    exact hp
  exact armTop_si _ _ ((exec_si fuelDefault).run _ _ h1 (CallOk.mono ho hc))

@[aesop safe apply (rule_sets := [Sg])]
theorem execSSR_si (kind : String) (p : JVal) : Pres SI (execSSR kind p) := by
  unfold execSSR; sg
@[aesop safe apply (rule_sets := [Sg])]
theorem execIncrDecr_si (sg : Int) (p : JVal) : Pres SI (execIncrDecr sg p) := by
  unfold execIncrDecr; sg
@[aesop safe apply (rule_sets := [Sg])]
theorem execReload_si (p : JVal) : Pres SI (execReload p) := by
  unfold execReload; sg
@[aesop safe apply (rule_sets := [Sg])]
theorem setOpt_si (u : Nat) (k : String) (v : JVal) : Pres SI (setOpt u k v) := by
  unfold setOpt; sg
@[aesop safe apply (rule_sets := [Sg])]
theorem setOptBody_si (u : Nat) (k : String) (v : JVal) (b : Bool) : Pres SI (setOptBody u k v b) := by
  unfold setOptBody; sg
@[aesop safe apply (rule_sets := [Sg])]
theorem syncSetOpt_si (u : Nat) (k : String) (v : JVal) (b : Bool) :
    Pres SI (syncPlain "watcher_set_opt" (setOptBody u k v b)) := syncPlain_si _ _ (setOptBody_si u k v b)
@[aesop safe apply (rule_sets := [Sg])]
theorem execSet_si (p : JVal) : Pres SI (execSet p) := by
  unfold execSet; sg

/-- **the `kill` command**: the pids it hands to `kill_process` are active, hence listed, hence have
    their `Process` object -/
@[aesop safe apply (rule_sets := [Sg])]
theorem execKill_si (props : JVal) : Pres SI (execKill props) := by
  intro s h
  unfold execKill
  simp only [bind]
  have hq0 := squiet_getWatcherCmd ((props.get? "name").getD .null) s
  have h0 := getWatcherCmd_s siLeafS ((props.get? "name").getD .null) s h
  generalize getWatcherCmd ((props.get? "name").getD .null) s = r0 at hq0 h0 ⊢
  obtain ⟨r, s0⟩ := r0
  cases r with
  | error e => exact h0
  | ok u =>
    simp only [pure]
    have hq1 := squiet_activeProcs u s0
    have h1 := activeProcs_s siLeafS u s0 h0
    have hact : ∀ q ∈ (activeProcs u s0).1, HasObj (activeProcs u s0).2 q := fun q hq =>
      hq1.ext.obj q (listed_hasObj h0.pid (activeProcs_subset u s0 q hq))
    generalize activeProcs u s0 = r1 at h1 hact ⊢
    obtain ⟨act, s1⟩ := r1
    refine plainCoroutine_si _ [] s1 h1 ?_
    intro q hq
    split at hq
    · exact hact q (List.mem_filter.mp hq).1
    · exact hact q hq

@[aesop safe apply (rule_sets := [Sg])]
theorem execSignal_si (p : JVal) : Pres SI (execSignal p) := by
  unfold execSignal; sg
@[aesop safe apply (rule_sets := [Sg])]
theorem execRm_si (p : JVal) : Pres SI (execRm p) := by
  unfold execRm; sg

theorem addCore_si (p : JVal) : Pres SI (addCore p) := by
  unfold addCore
  split <;> dsimp only <;> split
  all_goals first
    | (rename_i name _
       apply Pres.ite
       · sg
       · split
         · sg
         · rename_i w hw
           have hp : w.pids = [] := applyAddOptions_pids _ _ _ hw
           have hr := registerNew_si w hp
           aesop (add safe apply hr) (rule_sets := [Sg]) (config := { terminal := true, useDefaultSimpSet := false, useSimpAll := false, maxRuleApplications := 3000 }))
    | sg

@[aesop safe apply (rule_sets := [Sg])]
theorem syncAdd_si (p : JVal) : Pres SI (syncPlain "arbiter_add_watcher" (addCore p)) := syncPlain_si _ _ (addCore_si p)
@[aesop safe apply (rule_sets := [Sg])]
theorem execAdd_si (p : JVal) : Pres SI (execAdd p) := by
  unfold execAdd; sg
@[aesop safe apply (rule_sets := [Sg])]
theorem validateExecute_si (c : String) (p : JVal) : Pres SI (validateExecute c p) := by
  unfold validateExecute; sg
@[aesop safe apply (rule_sets := [Sg])]
theorem handleMessage_si (cid : Option String) (msg : Option JVal) : Pres SI (handleMessage cid msg) := by
  unfold handleMessage; sg
@[aesop safe apply (rule_sets := [Sg])]
theorem sigQuit_si : Pres SI sigQuit := by
  unfold sigQuit; sg
@[aesop safe apply (rule_sets := [Sg])]
theorem stopController_si : Pres SI stopController := by
  have h1 : ∀ w, Pres SI (emit (.close w)) := fun w => emit_si _ rfl
  unfold stopController
  aesop (add safe apply h1) (rule_sets := [Sg]) (config := { terminal := true, useDefaultSimpSet := false, useSimpAll := false, maxRuleApplications := 3000 })

/-- **one turn of the event loop**: the callback taken off the ready queue resumes a continuation
    that was pending, with what it knows -/
theorem settleStep_si : Pres SI settleStep := by
  intro s h
  unfold settleStep
  simp only [bind, getS]
  cases hr : s.ready with
  | nil => exact h
  | cons r rest =>
    simp only
    have hd := dequeue_si s h
    cases r with
    | resume k v w => exact (exec_si 100000).run _ _ hd (taskOk_dequeue h hr)
    | topCb cb v => exact runTopCb_si v cb _ hd
    | closeCtl => exact stopController_si _ hd
    | callback n => exact sigQuit_si _ hd

theorem settle_si (n : Nat) : Pres SI (settle n) := by
  have hs := settleStep_si
  have ho := emit_si .outOfFuel rfl
  induction n with
  | zero => unfold settle; exact ho
  | succ n ih =>
    unfold settle
    aesop (add safe apply ih, safe apply hs) (rule_sets := [Sg]) (config := { terminal := true, useDefaultSimpSet := false, useSimpAll := false, maxRuleApplications := 3000 })

theorem stepOp_si (op : Op) : Pres SI (stepOp op) := by
  have hc := emit_si .conflict rfl
  have hn := emit_si .nosleeper rfl
  have hadv : ∀ ms ds, Pres SI (updK fun k => k.advance ms ds) := fun ms ds =>
    updK_si _ (fun k => KGMono.advance k ms ds) (fun k => KStep.advance k ms ds)
  have hdie : ∀ p st, Pres SI (updK fun k => k.die p st) := fun p st =>
    updK_si _ (fun k => KGMono.die k p st) (fun k => KStep.die k p st)
  have hflt : ∀ n p st, Pres SI (updK fun k => k.addFault n p st) := fun n p st =>
    updK_si _ (fun k => KGMono.addFault k n p st) (fun k => KStep.addFault k n p st)
  cases op <;> simp only [stepOp] <;>
  aesop (add safe apply hc, safe apply hn, safe apply hadv, safe apply hdie, safe apply hflt) (rule_sets := [Sg])
    (config := { terminal := true, useDefaultSimpSet := false, useSimpAll := false, maxRuleApplications := 3000 })

theorem stepTail_si : Pres SI stepTail := by
  have hst := settle_si
  unfold stepTail
  aesop (add safe apply hst) (rule_sets := [Sg]) (config := { terminal := true, useDefaultSimpSet := false, useSimpAll := false, maxRuleApplications := 3000 })

theorem stepM_si (op : Op) : Pres SI (stepM op) := by
  have h1 := stepOp_si
  have h2 := stepTail_si
  have h3 : Pres SI (updK Kernel.beginStep) := updK_si _ KGMono.beginStep KStep.beginStep
  unfold stepM
  aesop (add safe apply h1, safe apply h2, safe apply h3) (rule_sets := [Sg])
    (config := { terminal := true, useDefaultSimpSet := false, useSimpAll := false, maxRuleApplications := 3000 })

/-- **the signal invariant holds along every run** -/
theorem si_run (s : State) (ops : List Op) (h : SI s) : SI (run s ops) := by
  induction ops generalizing s with
  | nil => exact h
  | cons o os ih => exact ih _ (stepM_si o s h)

/-- the initial state of any configuration whose watchers list no process: no coroutine is
    suspended, the log is empty -/
theorem si_init (cfg : List Watcher) (bs : List Behav) (aw : Nat) (hcfg : ∀ w ∈ cfg, w.pids = []) :
    SI (initState cfg bs aw) where
  pid := pidInv_init cfg bs aw hcfg
  fr := fun f hf => by cases hf
  rd := fun r hr => by cases hr
  uniq := fun p => by simp [pendCount, initState]
  reap := fun p st h => by simp [initState] at h

end Circus.Core
