import CircusProofs.Core.SigExec
/-!
The signal invariant through `dispatch`, every command, the event loop and the stimuli:

* `si_run : SI none s → SI none (run s ops)` and `si_init` — the invariant along every run;
* `stepM_si_j : SI (some jm) s → OpSafe op → SI (some jm) (step s op)` — the justifying mode through one
  step for every stimulus except a request whose command is `signal`, `kill`, `set` or `add` (the four that
  may themselves ask for signal 9).
-/
set_option linter.unusedSimpArgs false
set_option linter.unusedVariables false
namespace Circus.Core

variable {J : JMode}

attribute [aesop safe apply (rule_sets := [Sg])] exec_si

theorem Call.free_ite (c : Prop) [Decidable c] (a b : Call) (ha : a.free = true) (hb : b.free = true) :
    (if c then a else b).free = true := by
  split <;> assumption

attribute [aesop safe apply (rule_sets := [Sg])] Call.free_ite

@[aesop safe apply (rule_sets := [Sg])]
theorem syncCoroutine_si (name : String) (c : Call) (extra : List TopCb) (hc : c.free = true) :
    Pres (SI J) (syncCoroutine name c extra) := by
  unfold syncCoroutine; sg

theorem syncPlain_si {α : Type} (name : String) (body : M (R α)) (hb : Pres (SI J) body) : Pres (SI J) (syncPlain name body) := by
  unfold syncPlain
  aesop (add safe apply hb) (rule_sets := [Sg]) (config := { terminal := true, useDefaultSimpSet := false, useSimpAll := false, maxRuleApplications := 3000 })

/-- a coroutine started outside `synchronized` (`Kill.execute`) -/
theorem plainCoroutine_si (c : Call) (extra : List TopCb) (s : State) (h : SI J s) (hc : CallOk J s c) :
    SI J (plainCoroutine c extra s).2 := by
  unfold plainCoroutine
  simp only [bind, pure]
  have h1 := newTop_si extra s h
  have ho : ∀ p, HasObj s p → HasObj (newTop extra s).2 p := fun p hp => by
    unfold newTop
    simp only [bind, pure]
    exact hp
  exact armTop_si _ _ ((exec_si fuelDefault).run _ _ h1 (CallOk.mono ho hc))

@[aesop safe apply (rule_sets := [Sg])]
theorem execSSR_si (kind : String) (p : JVal) : Pres (SI J) (execSSR kind p) := by
  unfold execSSR; sg
@[aesop safe apply (rule_sets := [Sg])]
theorem execIncrDecr_si (sg : Int) (p : JVal) : Pres (SI J) (execIncrDecr sg p) := by
  unfold execIncrDecr; sg
@[aesop safe apply (rule_sets := [Sg])]
theorem execReload_si (p : JVal) : Pres (SI J) (execReload p) := by
  unfold execReload; sg
@[aesop safe apply (rule_sets := [Sg])]
theorem execRm_si (p : JVal) : Pres (SI J) (execRm p) := by
  unfold execRm; sg

/-! ### the four requests that may ask for signal 9 themselves: only without a justification claim -/

@[aesop safe apply (rule_sets := [Sg])]
theorem setOpt_si (u : Nat) (k : String) (v : JVal) : Pres (SI none) (setOpt u k v) := by
  unfold setOpt; sg
@[aesop safe apply (rule_sets := [Sg])]
theorem setOptBody_si (u : Nat) (k : String) (v : JVal) (b : Bool) : Pres (SI none) (setOptBody u k v b) := by
  unfold setOptBody; sg
@[aesop safe apply (rule_sets := [Sg])]
theorem syncSetOpt_si (u : Nat) (k : String) (v : JVal) (b : Bool) :
    Pres (SI none) (syncPlain "watcher_set_opt" (setOptBody u k v b)) := syncPlain_si _ _ (setOptBody_si u k v b)
@[aesop safe apply (rule_sets := [Sg])]
theorem execSet_si (p : JVal) : Pres (SI none) (execSet p) := by
  unfold execSet; sg

/-- **the `kill` command**: the pids it hands to `kill_process` are active, hence listed, hence have
    their `Process` object -/
@[aesop safe apply (rule_sets := [Sg])]
theorem execKill_si (props : JVal) : Pres (SI none) (execKill props) := by
  intro s h
  unfold execKill
  simp only [bind]
  have hq0 := squiet_getWatcherCmd ((props.get? "name").getD .null) s
  have h0 := getWatcherCmd_s (siLeafS0 none) ((props.get? "name").getD .null) s h
  generalize getWatcherCmd ((props.get? "name").getD .null) s = r0 at hq0 h0 ⊢
  obtain ⟨r, s0⟩ := r0
  cases r with
  | error e => exact h0
  | ok u =>
    simp only [pure]
    have hq1 := squiet_activeProcs u s0
    have h1 := activeProcs_s (siLeafS0 none) u s0 h0
    have hact : ∀ q ∈ (activeProcs u s0).1, HasObj (activeProcs u s0).2 q := fun q hq =>
      hq1.ext.obj q (listed_hasObj h0.pid (activeProcs_subset u s0 q hq))
    generalize activeProcs u s0 = r1 at h1 hact ⊢
    obtain ⟨act, s1⟩ := r1
    refine plainCoroutine_si _ [] s1 h1 ⟨?_, fun hn => by cases hn⟩
    intro q hq
    split at hq
    · exact hact q (List.mem_filter.mp hq).1
    · exact hact q hq

@[aesop safe apply (rule_sets := [Sg])]
theorem execSignal_si (p : JVal) : Pres (SI none) (execSignal p) := by
  unfold execSignal; sg

theorem addCore_si (p : JVal) : Pres (SI none) (addCore p) := by
  unfold addCore
  split <;> dsimp only <;> split
  all_goals first
    | (rename_i name _
       apply Pres.ite
       · sg
       · split
         · sg
         · rename_i w hw
           have hp : w.pids = [] := applyAddOptions_pids _ _ _ hw
           have hr := registerNew_si w hp
           aesop (add safe apply hr) (rule_sets := [Sg]) (config := { terminal := true, useDefaultSimpSet := false, useSimpAll := false, maxRuleApplications := 3000 }))
    | sg

@[aesop safe apply (rule_sets := [Sg])]
theorem syncAdd_si (p : JVal) : Pres (SI none) (syncPlain "arbiter_add_watcher" (addCore p)) := syncPlain_si _ _ (addCore_si p)
@[aesop safe apply (rule_sets := [Sg])]
theorem execAdd_si (p : JVal) : Pres (SI none) (execAdd p) := by
  unfold execAdd; sg

/-! ### dispatch -/

/-- the commands that cannot ask for a signal themselves -/
def cmdSafe (c : String) : Prop := c ≠ "signal" ∧ c ≠ "kill" ∧ c ≠ "set" ∧ c ≠ "add"

@[aesop safe apply (rule_sets := [Sg])]
theorem validateExecute_si (c : String) (p : JVal) : Pres (SI none) (validateExecute c p) := by
  unfold validateExecute; sg

theorem validateExecute_si_j (c : String) (p : JVal) (hc : cmdSafe c) : Pres (SI J) (validateExecute c p) := by
  obtain ⟨h1, h2, h3, h4⟩ := hc
  unfold validateExecute
  apply Pres.ite
  · sg
  · split
    all_goals first
      | (exfalso; first | exact h1 rfl | exact h2 rfl | exact h3 rfl | exact h4 rfl)
      | sg

/-- a control-socket frame whose command (if it has one) is none of `signal`, `kill`, `set`, `add` -/
def msgSafe (msg : Option JVal) : Prop :=
  ∀ j name, msg = some j → j.get? "command" = some (.str name) → cmdSafe (pyLower name)

@[aesop safe apply (rule_sets := [Sg])]
theorem handleMessage_si (cid : Option String) (msg : Option JVal) : Pres (SI none) (handleMessage cid msg) := by
  unfold handleMessage; sg

theorem handleMessage_si_j (cid : Option String) (msg : Option JVal) (hm : msgSafe msg) :
    Pres (SI J) (handleMessage cid msg) := by
  unfold handleMessage
  cases msg with
  | none => sg
  | some j =>
    simp only
    apply Pres.ite
    · sg
    · cases hcmd : j.get? "command" with
      | none => sg
      | some nm =>
        cases nm with
        | str name =>
          have hve : ∀ p, Pres (SI J) (validateExecute (pyLower name) p) := fun p =>
            validateExecute_si_j _ p (hm j name rfl hcmd)
          simp only
          aesop (add safe 0 apply hve) (erase validateExecute_si) (rule_sets := [Sg])
            (config := { terminal := true, useDefaultSimpSet := false, useSimpAll := false, maxRuleApplications := 3000 })
        | _ => sg

theorem quit_safe : msgSafe (some (.obj [("command", .str "quit"), ("properties", .obj [])])) := by
  intro j name hj hc
  simp only [Option.some.injEq] at hj
  subst hj
  have : name = "quit" := by
    simp [JVal.get?, List.lookup] at hc
    exact hc.symm
  subst this
  unfold cmdSafe
  decide +kernel

theorem reload_safe : msgSafe (some reloadMsg) := by
  intro j name hj hc
  simp only [Option.some.injEq] at hj
  subst hj
  have : name = "reload" := by
    simp [reloadMsg, JVal.get?, List.lookup] at hc
    exact hc.symm
  subst this
  unfold cmdSafe
  decide +kernel

/-- `SysHandler._quit`: a `quit` request, in any mode -/
@[aesop safe apply (rule_sets := [Sg])]
theorem sigQuit_si : Pres (SI J) sigQuit := by
  have h := handleMessage_si_j (J := J) none _ quit_safe
  unfold sigQuit
  aesop (add safe 0 apply h) (erase handleMessage_si) (rule_sets := [Sg])
    (config := { terminal := true, useDefaultSimpSet := false, useSimpAll := false, maxRuleApplications := 3000 })

@[aesop safe apply (rule_sets := [Sg])]
theorem stopController_si : Pres (SI J) stopController := by
  have h1 : ∀ w, Pres (SI J) (emit (.close w)) := fun w => emit_si _ rfl rfl
  unfold stopController
  aesop (add safe apply h1) (rule_sets := [Sg]) (config := { terminal := true, useDefaultSimpSet := false, useSimpAll := false, maxRuleApplications := 3000 })

/-- **one turn of the event loop**: the callback taken off the ready queue resumes a continuation
    that was pending, with what it knows -/
theorem settleStep_si : Pres (SI J) settleStep := by
  intro s h
  unfold settleStep
  simp only [bind, getS]
  cases hr : s.ready with
  | nil => exact h
  | cons r rest =>
    simp only
    have hd := dequeue_si s h
    cases r with
    | resume k v w => exact (exec_si 100000).run _ _ hd (taskOk_dequeue h hr)
    | topCb cb v => exact runTopCb_si v cb _ hd
    | closeCtl => exact stopController_si _ hd
    | callback n => exact sigQuit_si _ hd

theorem settle_si (n : Nat) : Pres (SI J) (settle n) := by
  have hs := settleStep_si (J := J)
  have ho := emit_si (J := J) .outOfFuel rfl rfl
  induction n with
  | zero => unfold settle; exact ho
  | succ n ih =>
    unfold settle
    aesop (add safe apply ih, safe apply hs) (rule_sets := [Sg]) (config := { terminal := true, useDefaultSimpSet := false, useSimpAll := false, maxRuleApplications := 3000 })

/-- the stimuli that cannot ask for a signal themselves: everything but a request for `signal`, `kill`,
    `set` or `add` -/
def OpSafe : Op → Prop
  | .req _ msg => msgSafe msg
  | _ => True

theorem stepOp_si_j (op : Op) (hop : OpSafe op) : Pres (SI J) (stepOp op) := by
  have hc := emit_si (J := J) .conflict rfl rfl
  have hn := emit_si (J := J) .nosleeper rfl rfl
  have hadv : ∀ ms ds, Pres (SI J) (updK fun k => k.advance ms ds) := fun ms ds =>
    updK_si _ (fun k => KGMono.advance k ms ds) (fun k => KNMono.advance k ms ds) (fun k => KStep.advance k ms ds) (fun k hk => KDMono.advance k ms ds hk)
  have hdie : ∀ p st, Pres (SI J) (updK fun k => k.die p st) := fun p st =>
    updK_si _ (fun k => KGMono.die k p st) (fun k => KNMono.die k p st) (fun k => KStep.die k p st) (fun k hk => KDMono.die k p st hk)
  have hflt : ∀ n p st, Pres (SI J) (updK fun k => k.addFault n p st) := fun n p st =>
    updK_si _ (fun k => KGMono.addFault k n p st) (fun k => KNMono.addFault k n p st) (fun k => KStep.addFault k n p st) (fun k _ => KDMono.addFault k n p st)
  have hrl := handleMessage_si_j (J := J) none _ reload_safe
  cases op with
  | req cid msg =>
    simp only [stepOp]
    exact handleMessage_si_j _ _ hop
  | sigreq q =>
    simp only [stepOp]
    aesop (add safe 0 apply hrl) (erase handleMessage_si) (rule_sets := [Sg])
      (config := { terminal := true, useDefaultSimpSet := false, useSimpAll := false, maxRuleApplications := 3000 })
  | _ =>
    simp only [stepOp]
    aesop (add safe apply hc, safe apply hn, safe apply hadv, safe apply hdie, safe apply hflt) (rule_sets := [Sg])
      (config := { terminal := true, useDefaultSimpSet := false, useSimpAll := false, maxRuleApplications := 3000 })

theorem stepOp_si (op : Op) : Pres (SI none) (stepOp op) := by
  cases op with
  | req cid msg => simp only [stepOp]; exact handleMessage_si _ _
  | _ => exact stepOp_si_j _ trivial

theorem stepTail_si : Pres (SI J) stepTail := by
  have hst := settle_si (J := J)
  unfold stepTail
  aesop (add safe apply hst) (rule_sets := [Sg]) (config := { terminal := true, useDefaultSimpSet := false, useSimpAll := false, maxRuleApplications := 3000 })

theorem stepM_of (op : Op) (h1 : Pres (SI J) (stepOp op)) : Pres (SI J) (stepM op) := by
  have h2 := stepTail_si (J := J)
  have h3 : Pres (SI J) (updK Kernel.beginStep) := updK_si _ KGMono.beginStep KNMono.beginStep KStep.beginStep (fun k _ => KDMono.beginStep k)
  unfold stepM
  aesop (add safe apply h1, safe apply h2, safe apply h3) (rule_sets := [Sg])
    (config := { terminal := true, useDefaultSimpSet := false, useSimpAll := false, maxRuleApplications := 3000 })

theorem stepM_si (op : Op) : Pres (SI none) (stepM op) := stepM_of op (stepOp_si op)

/-- **the justifying mode through one step** -/
theorem stepM_si_j (op : Op) (hop : OpSafe op) : Pres (SI J) (stepM op) := stepM_of op (stepOp_si_j op hop)

/-- **the signal invariant holds along every run** -/
theorem si_run (s : State) (ops : List Op) (h : SI none s) : SI none (run s ops) := by
  induction ops generalizing s with
  | nil => exact h
  | cons o os ih => exact ih _ (stepM_si o s h)

/-- the initial state of any configuration whose watchers list no process: no coroutine is
    suspended, the log is empty -/
theorem si_init (cfg : List Watcher) (bs : List Behav) (aw : Nat) (hcfg : ∀ w ∈ cfg, w.pids = []) :
    SI none (initState cfg bs aw) where
  pid := pidInv_init cfg bs aw hcfg
  fr := fun f hf => by cases hf
  rd := fun r hr => by cases hr
  uniq := fun p => by simp [pendCount, initState]
  reap := fun p st h => by simp [initState] at h
  pos := ⟨by simp [initState], fun q hq => by simp [initState] at hq⟩
  wpar := fun o ho => by simp [initState] at ho
  just := fun jm hj => by cases hj

/-- entering the justifying mode at the current end of the log -/
theorem SI.enter {s : State} (h : SI none s) :
    SI (some ⟨s.log.length, ∃ w ∈ s.ws, w.stopSignal = 9⟩) s where
  pid := h.pid
  fr := h.fr
  rd := h.rd
  uniq := h.uniq
  reap := h.reap
  pos := h.pos
  wpar := h.wpar
  just := fun jm hj => by
    cases hj
    refine ⟨?_, fun w hw h9 => ⟨w, hw, h9⟩⟩
    intro pre post p st hl hn
    exfalso
    have := congrArg List.length hl
    simp at this
    have hn' : s.log.length ≤ pre.length := hn
    omega

end Circus.Core
