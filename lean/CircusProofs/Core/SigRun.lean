import CircusProofs.Core.SigExec
/-!
The signal invariant through `dispatch`, every command, the event loop and the stimuli:

* `si_run : SI none s → SI none (run s ops)` and `si_init` — the invariant along every run;
* `stepM_si_j : SI (some jm) s → OpSafe op → SI (some jm) (step s op)` — the justifying mode through one
  step for every stimulus except a request whose command is `signal`, `kill`, `set` or `add` (the four that
  may themselves ask for signal 9).
-/
set_option linter.unusedSimpArgs false
set_option linter.unusedVariables false
namespace Circus.Core

variable {J : JMode}

attribute [aesop safe apply (rule_sets := [Sg])] exec_si

theorem Call.free_ite (c : Prop) [Decidable c] (a b : Call) (ha : a.free = true) (hb : b.free = true) :
    (if c then a else b).free = true := by
  split <;> assumption

attribute [aesop safe apply (rule_sets := [Sg])] Call.free_ite

@[aesop safe apply (rule_sets := [Sg])]
theorem syncCoroutine_si (name : String) (c : Call) (extra : List TopCb) (hc : c.free = true) :
    Pres (SI J) (syncCoroutine name c extra) := by
  unfold syncCoroutine; sg

theorem syncPlain_si {α : Type} (name : String) (body : M (R α)) (hb : Pres (SI J) body) : Pres (SI J) (syncPlain name body) := by
  unfold syncPlain
  aesop (add safe apply hb) (rule_sets := [Sg]) (config := { terminal := true, useDefaultSimpSet := false, useSimpAll := false, maxRuleApplications := 3000 })

/-- a coroutine started outside `synchronized` (`Kill.execute`) -/
theorem plainCoroutine_si (c : Call) (extra : List TopCb) (s : State) (h : SI J s) (hc : CallOk J s c) :
    SI J (plainCoroutine c extra s).2 := by
  unfold plainCoroutine
  simp only [bind, pure]
  have h1 := newTop_si extra s h
  have ho : ∀ p, HasObj s p → HasObj (newTop extra s).2 p := fun p hp => by
    unfold newTop
    simp only [bind, pure]
    exact hp
  exact armTop_si _ _ ((exec_si fuelDefault).run _ _ h1 (CallOk.mono ho hc))

@[aesop safe apply (rule_sets := [Sg])]
theorem execSSR_si (kind : String) (p : JVal) : Pres (SI J) (execSSR kind p) := by
  unfold execSSR; sg
@[aesop safe apply (rule_sets := [Sg])]
theorem execIncrDecr_si (sg : Int) (p : JVal) : Pres (SI J) (execIncrDecr sg p) := by
  unfold execIncrDecr; sg
@[aesop safe apply (rule_sets := [Sg])]
theorem execReload_si (p : JVal) : Pres (SI J) (execReload p) := by
  unfold execReload; sg
@[aesop safe apply (rule_sets := [Sg])]
theorem execRm_si (p : JVal) : Pres (SI J) (execRm p) := by
  unfold execRm; sg

/-! ### the four requests that may ask for signal 9 themselves: only without a justification claim -/

@[aesop safe apply (rule_sets := [Sg])]
theorem setOpt_si (u : Nat) (k : String) (v : JVal) : Pres (SI none) (setOpt u k v) := by
  unfold setOpt; sg
@[aesop safe apply (rule_sets := [Sg])]
theorem setOptBody_si (u : Nat) (k : String) (v : JVal) (b : Bool) : Pres (SI none) (setOptBody u k v b) := by
  unfold setOptBody; sg
@[aesop safe apply (rule_sets := [Sg])]
theorem syncSetOpt_si (u : Nat) (k : String) (v : JVal) (b : Bool) :
    Pres (SI none) (syncPlain "watcher_set_opt" (setOptBody u k v b)) := syncPlain_si _ _ (setOptBody_si u k v b)
@[aesop safe apply (rule_sets := [Sg])]
theorem execSet_si (p : JVal) : Pres (SI none) (execSet p) := by
  unfold execSet; sg

/-- **the `kill` command**: the pids it hands to `kill_process` are active, hence listed, hence have
    their `Process` object; in a justifying mode it must not name signal 9 -/
theorem execKill_si_j (props : JVal) (hs : J.isSome = true → (props.get? "signum").bind toSignumJ ≠ some 9) :
    Pres (SI J) (execKill props) := by
  intro s h
  unfold execKill
  simp only [bind]
  have hq0 := squiet_getWatcherCmd ((props.get? "name").getD .null) s
  have h0 := getWatcherCmd_s (siLeafS0 J) ((props.get? "name").getD .null) s h
  generalize getWatcherCmd ((props.get? "name").getD .null) s = r0 at hq0 h0 ⊢
  obtain ⟨r, s0⟩ := r0
  cases r with
  | error e => exact h0
  | ok u =>
    simp only [pure]
    have hq1 := squiet_activeProcs u s0
    have h1 := activeProcs_s (siLeafS0 J) u s0 h0
    have hact : ∀ q ∈ (activeProcs u s0).1, HasObj (activeProcs u s0).2 q := fun q hq =>
      hq1.ext.obj q (listed_hasObj h0.pid (activeProcs_subset u s0 q hq))
    generalize activeProcs u s0 = r1 at h1 hact ⊢
    obtain ⟨act, s1⟩ := r1
    refine plainCoroutine_si _ [] s1 h1 ⟨?_, hs⟩
    intro q hq
    split at hq
    · exact hact q (List.mem_filter.mp hq).1
    · exact hact q hq

@[aesop safe apply (rule_sets := [Sg])]
theorem execKill_si (props : JVal) : Pres (SI none) (execKill props) :=
  execKill_si_j props (fun hn => by cases hn)

/-- **the `signal` command** with a signal other than 9 -/
theorem execSignal_si_j (p : JVal) (hs : ((p.get? "signum").bind toSignumJ).getD 0 ≠ 9) : Pres (SI J) (execSignal p) := by
  have h1 : ∀ u q, Pres (SI J) (sendSignal u q (((p.get? "signum").bind toSignumJ).getD 0)) := fun u q =>
    sendSignal_s0 (siLeafS0 J) u q _ hs
  have h2 : ∀ q c, Pres (SI J) (sendSignalChild q c (((p.get? "signum").bind toSignumJ).getD 0)) := fun q c =>
    sendSignalChild_s0 (siLeafS0 J) q c _ hs
  have h3 : ∀ c, Pres (SI J) (kKill c (((p.get? "signum").bind toSignumJ).getD 0)) := fun c =>
    (siLeafS0 J).kKillN c _ "" (fun hh => hs hh.1)
  unfold execSignal
  aesop (add safe 0 apply h1, safe 0 apply h2, safe 0 apply h3) (erase sendSignal_s, sendSignalChild_s, LeafS.kKill)
    (rule_sets := [Sg]) (config := { terminal := true, useDefaultSimpSet := false, useSimpAll := false, maxRuleApplications := 3000 })

@[aesop safe apply (rule_sets := [Sg])]
theorem execSignal_si (p : JVal) : Pres (SI none) (execSignal p) := by
  unfold execSignal; sg

theorem addCore_si (p : JVal) : Pres (SI none) (addCore p) := by
  unfold addCore
  split <;> dsimp only <;> split
  all_goals first
    | (rename_i name _
       apply Pres.ite
       · sg
       · split
         · sg
         · rename_i w hw
           have hp : w.pids = [] := applyAddOptions_pids _ _ _ hw
           have hr := registerNew_si w hp
           aesop (add safe apply hr) (rule_sets := [Sg]) (config := { terminal := true, useDefaultSimpSet := false, useSimpAll := false, maxRuleApplications := 3000 }))
    | sg

@[aesop safe apply (rule_sets := [Sg])]
theorem syncAdd_si (p : JVal) : Pres (SI none) (syncPlain "arbiter_add_watcher" (addCore p)) := syncPlain_si _ _ (addCore_si p)
@[aesop safe apply (rule_sets := [Sg])]
theorem execAdd_si (p : JVal) : Pres (SI none) (execAdd p) := by
  unfold execAdd; sg

/-! ### `set` and `add` that do not bring `stop_signal = 9` in -/

theorem hookChange_not_stopSignal (key : String) (val : JVal) (n : Nat) : hookChange key val ≠ some (.stopSignal n) := by
  unfold hookChange
  intro h
  split at h
  · simp only at h
    split at h
    · cases h
    · split at h
      · cases h
      · cases h
  · cases h

theorem optChange_stopSignal9 (key : String) (val : JVal) (h : optChange key val = some (.stopSignal 9)) :
    key = "stop_signal" ∧ val = .int 9 := by
  unfold optChange at h
  split at h
  · exact absurd h (hookChange_not_stopSignal key val 9)
  split at h
  all_goals first
    | (simp at h; done)
    | (split at h
       · simp only [Option.some.injEq, OptChange.stopSignal.injEq] at h
         rename_i i hv
         refine ⟨rfl, ?_⟩
         simp only [validSignum, Bool.and_eq_true, decide_eq_true_eq] at hv
         congr 1
         omega
       · cases h)

theorem lookup_mem_pair {α β : Type} [BEq α] [LawfulBEq α] (l : List (α × β)) (k : α) (v : β) (h : l.lookup k = some v) :
    (k, v) ∈ l := by
  induction l with
  | nil => cases h
  | cons x xs ih =>
    obtain ⟨a, b⟩ := x
    simp only [List.lookup] at h
    split at h
    · rename_i he
      simp only [Option.some.injEq] at h
      have : k = a := by simpa using he
      rw [this, h]; exact List.mem_cons_self
    · exact List.mem_cons_of_mem _ (ih h)

theorem hooks_ne (x : String) : "hooks." ++ x ≠ "stop_signal" := by
  intro h
  have := congrArg String.toList h
  simp at this

/-- an options object without the pair `stop_signal: 9` -/
def optsSafe (props : JVal) : Prop :=
  ∀ kvs, props.get? "options" = some (.obj kvs) → ∀ kv ∈ kvs, ¬ (kv.1 = "stop_signal" ∧ kv.2 = .int 9)

theorem setOpt_si_j (u : Nat) (k : String) (v : JVal) (h : ¬ (k = "stop_signal" ∧ v = .int 9)) : Pres (SI J) (setOpt u k v) := by
  have hw : ∀ c, optChange k v = some c → Pres (SI J) (setWOpt u c) := fun c hc =>
    setWOpt_si_j u c (fun h9 => h (optChange_stopSignal9 k v (by rw [hc, h9])))
  unfold setOpt
  apply Pres.ite
  · sg
  · cases hc : optChange k v with
    | none => sg
    | some c =>
      have := hw c hc
      simp only
      aesop (add safe 0 apply this) (erase setWOpt_si) (rule_sets := [Sg])
        (config := { terminal := true, useDefaultSimpSet := false, useSimpAll := false, maxRuleApplications := 3000 })

theorem syncSetOpt_si_j (u : Nat) (k : String) (v : JVal) (b : Bool) (h : ¬ (k = "stop_signal" ∧ v = .int 9)) :
    Pres (SI J) (syncPlain "watcher_set_opt" (setOptBody u k v b)) := by
  have h1 := setOpt_si_j (J := J) u k v h
  refine syncPlain_si _ _ ?_
  unfold setOptBody
  aesop (add safe 0 apply h1) (erase setOpt_si) (rule_sets := [Sg])
    (config := { terminal := true, useDefaultSimpSet := false, useSimpAll := false, maxRuleApplications := 3000 })

theorem execSet_si_j (props : JVal) (hs : optsSafe props) : Pres (SI J) (execSet props) := by
  have hhook : ∀ u x v b, Pres (SI J) (syncPlain "watcher_set_opt" (setOptBody u ("hooks." ++ x) v b)) := fun u x v b =>
    syncSetOpt_si_j u _ v b (fun hh => hooks_ne x hh.1)
  unfold execSet
  -- the options object, as `Set.execute` reads it (the compiled `match` of `execSet`)
  generalize hopts : execSet.match_1 (fun _ => List (String × JVal)) (props.get? "options") (fun kvs => kvs) (fun _ => []) = opts
  have hmem : ∀ kv ∈ opts, ¬ (kv.1 = "stop_signal" ∧ kv.2 = .int 9) := by
    intro kv hkv
    rw [← hopts] at hkv
    split at hkv
    · rename_i kvs ho
      exact hs kvs ho kv hkv
    · cases hkv
  have hval : ∀ u key b, Pres (SI J) (syncPlain "watcher_set_opt" (setOptBody u key
      (((JVal.obj opts).get? key).getD .null) b)) := by
    intro u key b
    apply syncSetOpt_si_j
    rintro ⟨rfl, hv⟩
    cases hg : (JVal.obj opts).get? "stop_signal" with
    | none => rw [hg] at hv; simp at hv
    | some v =>
      rw [hg] at hv
      simp only [Option.getD_some] at hv
      subst hv
      have hm := lookup_mem_pair _ _ _ hg
      exact hmem ("stop_signal", .int 9) (List.mem_reverse.mp hm) ⟨rfl, rfl⟩
  refine Pres.bind (getWatcherCmd_s (siLeafS0 J) _) (fun r => ?_)
  cases r with
  | error e => exact Pres.pure _
  | ok u =>
    dsimp only
    refine Pres.bind (Pres.for_in _ _ _ (fun key st => ?_)) (fun st => ?_)
    · apply Pres.ite
      · apply Pres.ite
        · split
          · refine Pres.bind (Pres.for_in _ _ _ (fun h st2 => ?_)) (fun _ => by apply Pres.ite <;> exact Pres.pure _)
            apply Pres.ite
            · refine Pres.bind (hhook u h.fst h.snd false) (fun r => ?_)
              split <;> exact Pres.pure _
            · exact Pres.pure _
          · exact Pres.pure _
        · refine Pres.bind (hval u key false) (fun r => ?_)
          split
          · exact Pres.pure _
          · apply Pres.ite <;> exact Pres.pure _
      · exact Pres.pure _
    · sg

theorem applyAddOptions_stopSignal (l : List (String × JVal)) (hl : ∀ kv ∈ l, ¬ (kv.1 = "stop_signal" ∧ kv.2 = .int 9)) :
    ∀ (w w2 : Watcher), applyAddOptions w l = some w2 → w.stopSignal ≠ 9 → w2.stopSignal ≠ 9 := by
  induction l with
  | nil => intro w w2 h hw; simp only [applyAddOptions, Option.some.injEq] at h; rw [← h]; exact hw
  | cons kv rest ih =>
    intro w w2 h hw
    obtain ⟨k, v⟩ := kv
    simp only [applyAddOptions] at h
    split at h
    · rename_i w1 hw1
      refine ih (fun kv hkv => hl kv (List.mem_cons_of_mem _ hkv)) w1 w2 h ?_
      have hkv := hl (k, v) List.mem_cons_self
      split at hw1
      all_goals first
        | (cases hw1; exact hw)
        | (obtain ⟨n, _, rfl⟩ := Option.map_eq_some_iff.mp hw1; exact hw)
        | (rename_i i
           by_cases hv : validSignum i = true
           · rw [if_pos hv] at hw1
             cases hw1
             intro h9
             apply hkv
             refine ⟨rfl, ?_⟩
             show JVal.int i = JVal.int 9
             simp only [validSignum, Bool.and_eq_true, decide_eq_true_eq] at hv
             have h9' : i.toNat = 9 := h9
             congr 1
             omega
           · rw [if_neg hv] at hw1
             cases hw1; exact hw)
    · exact absurd h (by simp)

theorem addCore_si_j (p : JVal) (hs : optsSafe p) : Pres (SI J) (addCore p) := by
  unfold addCore
  split <;> dsimp only <;> split
  all_goals first
    | (rename_i name _
       apply Pres.ite
       · sg
       · split
         · sg
         · rename_i w hw
           have hp : w.pids = [] := applyAddOptions_pids _ _ _ hw
           have h9 : w.stopSignal ≠ 9 := by
             refine applyAddOptions_stopSignal _ ?_ _ _ hw (by simp)
             intro kv hkv
             first
               | exact hs _ (by assumption) kv hkv
               | cases hkv
           have hr := registerNew_si_j (J := J) w hp h9
           aesop (add safe apply hr) (rule_sets := [Sg]) (config := { terminal := true, useDefaultSimpSet := false, useSimpAll := false, maxRuleApplications := 3000 }))
    | sg

theorem execAdd_si_j (p : JVal) (hs : optsSafe p) : Pres (SI J) (execAdd p) := by
  have h1 := syncPlain_si (J := J) "arbiter_add_watcher" (addCore p) (addCore_si_j p hs)
  unfold execAdd
  aesop (add safe 0 apply h1) (erase syncAdd_si) (rule_sets := [Sg])
    (config := { terminal := true, useDefaultSimpSet := false, useSimpAll := false, maxRuleApplications := 3000 })

/-! ### dispatch -/

/-- the requests that do not bring signal 9 in themselves: no `signal` / `kill` whose `signum` resolves to 9, no
    `set` / `add` with the option `stop_signal: 9` -/
def reqSafe (c : String) (props : JVal) : Prop :=
  (c = "signal" → ((props.get? "signum").bind toSignumJ).getD 0 ≠ 9) ∧
  (c = "kill" → (props.get? "signum").bind toSignumJ ≠ some 9) ∧
  (c = "set" → optsSafe props) ∧ (c = "add" → optsSafe props)

@[aesop safe apply (rule_sets := [Sg])]
theorem validateExecute_si (c : String) (p : JVal) : Pres (SI none) (validateExecute c p) := by
  unfold validateExecute; sg

theorem validateExecute_si_j (c : String) (p : JVal) (hc : reqSafe c p) : Pres (SI J) (validateExecute c p) := by
  obtain ⟨h1, h2, h3, h4⟩ := hc
  have hsg := execSignal_si_j (J := J) p
  unfold validateExecute
  apply Pres.ite
  · sg
  · split
    all_goals first
      | (have hs := execSet_si_j (J := J) p (h3 rfl)
         aesop (add safe 0 apply hs) (erase execSet_si) (rule_sets := [Sg])
           (config := { terminal := true, useDefaultSimpSet := false, useSimpAll := false, maxRuleApplications := 3000 }))
      | (have hs := execAdd_si_j (J := J) p (h4 rfl)
         aesop (add safe 0 apply hs) (erase execAdd_si) (rule_sets := [Sg])
           (config := { terminal := true, useDefaultSimpSet := false, useSimpAll := false, maxRuleApplications := 3000 }))
      | (have hs := hsg (h1 rfl)
         aesop (add safe 0 apply hs) (erase execSignal_si) (rule_sets := [Sg])
           (config := { terminal := true, useDefaultSimpSet := false, useSimpAll := false, maxRuleApplications := 3000 }))
      | (have hk' := execKill_si_j (J := J) p (fun _ => h2 rfl)
         aesop (add safe 0 apply hk') (erase execKill_si) (rule_sets := [Sg])
           (config := { terminal := true, useDefaultSimpSet := false, useSimpAll := false, maxRuleApplications := 3000 }))
      | sg

/-- a control-socket frame that does not itself bring signal 9 in: no `signal` / `kill` request for signal 9, no
    `set` / `add` request with the option `stop_signal: 9` -/
def msgSafe (msg : Option JVal) : Prop :=
  ∀ j name, msg = some j → j.get? "command" = some (.str name) →
    reqSafe (pyLower name) ((j.get? "properties").getD (.obj []))

@[aesop safe apply (rule_sets := [Sg])]
theorem handleMessage_si (cid : Option String) (msg : Option JVal) : Pres (SI none) (handleMessage cid msg) := by
  unfold handleMessage; sg

theorem handleMessage_si_j (cid : Option String) (msg : Option JVal) (hm : msgSafe msg) :
    Pres (SI J) (handleMessage cid msg) := by
  unfold handleMessage
  cases msg with
  | none => sg
  | some j =>
    simp only
    apply Pres.ite
    · sg
    · cases hcmd : j.get? "command" with
      | none => sg
      | some nm =>
        cases nm with
        | str name =>
          have hve : Pres (SI J) (validateExecute (pyLower name) ((j.get? "properties").getD (.obj []))) :=
            validateExecute_si_j _ _ (hm j name rfl hcmd)
          simp only
          aesop (add safe 0 apply hve) (erase validateExecute_si) (rule_sets := [Sg])
            (config := { terminal := true, useDefaultSimpSet := false, useSimpAll := false, maxRuleApplications := 3000 })
        | _ => sg

theorem quit_safe : msgSafe (some (.obj [("command", .str "quit"), ("properties", .obj [])])) := by
  intro j name hj hc
  simp only [Option.some.injEq] at hj
  subst hj
  have : name = "quit" := by
    simp [JVal.get?, List.lookup] at hc
    exact hc.symm
  subst this
  refine ⟨fun h => ?_, fun h => ?_, fun h => ?_, fun h => ?_⟩ <;> exact absurd h (by decide +kernel)

theorem reload_safe : msgSafe (some reloadMsg) := by
  intro j name hj hc
  simp only [Option.some.injEq] at hj
  subst hj
  have : name = "reload" := by
    simp [reloadMsg, JVal.get?, List.lookup] at hc
    exact hc.symm
  subst this
  refine ⟨fun h => ?_, fun h => ?_, fun h => ?_, fun h => ?_⟩ <;> exact absurd h (by decide +kernel)

/-- `SysHandler._quit`: a `quit` request, in any mode -/
@[aesop safe apply (rule_sets := [Sg])]
theorem sigQuit_si : Pres (SI J) sigQuit := by
  have h := handleMessage_si_j (J := J) none _ quit_safe
  unfold sigQuit
  aesop (add safe 0 apply h) (erase handleMessage_si) (rule_sets := [Sg])
    (config := { terminal := true, useDefaultSimpSet := false, useSimpAll := false, maxRuleApplications := 3000 })

@[aesop safe apply (rule_sets := [Sg])]
theorem stopController_si : Pres (SI J) stopController := by
  have h1 : ∀ w, Pres (SI J) (emit (.close w)) := fun w => emit_si _ rfl rfl
  unfold stopController
  aesop (add safe apply h1) (rule_sets := [Sg]) (config := { terminal := true, useDefaultSimpSet := false, useSimpAll := false, maxRuleApplications := 3000 })

/-- **one turn of the event loop**: the callback taken off the ready queue resumes a continuation
    that was pending, with what it knows -/
theorem settleStep_si : Pres (SI J) settleStep := by
  intro s h
  unfold settleStep
  simp only [bind, getS]
  cases hr : s.ready with
  | nil => exact h
  | cons r rest =>
    simp only
    have hd := dequeue_si s h
    cases r with
    | resume k v w => exact (exec_si 100000).run _ _ hd (taskOk_dequeue h hr)
    | topCb cb v => exact runTopCb_si v cb _ hd
    | closeCtl => exact stopController_si _ hd
    | callback n => exact sigQuit_si _ hd

theorem settle_si (n : Nat) : Pres (SI J) (settle n) := by
  have hs := settleStep_si (J := J)
  have ho := emit_si (J := J) .outOfFuel rfl rfl
  induction n with
  | zero => unfold settle; exact ho
  | succ n ih =>
    unfold settle
    aesop (add safe apply ih, safe apply hs) (rule_sets := [Sg]) (config := { terminal := true, useDefaultSimpSet := false, useSimpAll := false, maxRuleApplications := 3000 })

/-- the stimuli that do not bring signal 9 in themselves: everything but a `signal` / `kill` request for signal 9
    and a `set` / `add` request with the option `stop_signal: 9` -/
def OpSafe : Op → Prop
  | .req _ msg => msgSafe msg
  | _ => True

theorem stepOp_si_j (op : Op) (hop : OpSafe op) : Pres (SI J) (stepOp op) := by
  have hc := emit_si (J := J) .conflict rfl rfl
  have hn := emit_si (J := J) .nosleeper rfl rfl
  have hadv : ∀ ms ds, Pres (SI J) (updK fun k => k.advance ms ds) := fun ms ds =>
    updK_si _ (fun k => KGMono.advance k ms ds) (fun k => KNMono.advance k ms ds) (fun k => KStep.advance k ms ds) (fun k hk => KDMono.advance k ms ds hk)
  have hdie : ∀ p st, Pres (SI J) (updK fun k => k.die p st) := fun p st =>
    updK_si _ (fun k => KGMono.die k p st) (fun k => KNMono.die k p st) (fun k => KStep.die k p st) (fun k hk => KDMono.die k p st hk)
  have hflt : ∀ n p st, Pres (SI J) (updK fun k => k.addFault n p st) := fun n p st =>
    updK_si _ (fun k => KGMono.addFault k n p st) (fun k => KNMono.addFault k n p st) (fun k => KStep.addFault k n p st) (fun k _ => KDMono.addFault k n p st)
  have hrl := handleMessage_si_j (J := J) none _ reload_safe
  cases op with
  | req cid msg =>
    simp only [stepOp]
    exact handleMessage_si_j _ _ hop
  | sigreq q =>
    simp only [stepOp]
    aesop (add safe 0 apply hrl) (erase handleMessage_si) (rule_sets := [Sg])
      (config := { terminal := true, useDefaultSimpSet := false, useSimpAll := false, maxRuleApplications := 3000 })
  | _ =>
    simp only [stepOp]
    aesop (add safe apply hc, safe apply hn, safe apply hadv, safe apply hdie, safe apply hflt) (rule_sets := [Sg])
      (config := { terminal := true, useDefaultSimpSet := false, useSimpAll := false, maxRuleApplications := 3000 })

theorem stepOp_si (op : Op) : Pres (SI none) (stepOp op) := by
  cases op with
  | req cid msg => simp only [stepOp]; exact handleMessage_si _ _
  | _ => exact stepOp_si_j _ trivial

theorem stepTail_si : Pres (SI J) stepTail := by
  have hst := settle_si (J := J)
  unfold stepTail
  aesop (add safe apply hst) (rule_sets := [Sg]) (config := { terminal := true, useDefaultSimpSet := false, useSimpAll := false, maxRuleApplications := 3000 })

theorem stepM_of (op : Op) (h1 : Pres (SI J) (stepOp op)) : Pres (SI J) (stepM op) := by
  have h2 := stepTail_si (J := J)
  have h3 : Pres (SI J) (updK Kernel.beginStep) := updK_si _ KGMono.beginStep KNMono.beginStep KStep.beginStep (fun k _ => KDMono.beginStep k)
  unfold stepM
  aesop (add safe apply h1, safe apply h2, safe apply h3) (rule_sets := [Sg])
    (config := { terminal := true, useDefaultSimpSet := false, useSimpAll := false, maxRuleApplications := 3000 })

theorem stepM_si (op : Op) : Pres (SI none) (stepM op) := stepM_of op (stepOp_si op)

/-- **the justifying mode through one step** -/
theorem stepM_si_j (op : Op) (hop : OpSafe op) : Pres (SI J) (stepM op) := stepM_of op (stepOp_si_j op hop)

/-- **the signal invariant holds along every run** -/
theorem si_run (s : State) (ops : List Op) (h : SI none s) : SI none (run s ops) := by
  induction ops generalizing s with
  | nil => exact h
  | cons o os ih => exact ih _ (stepM_si o s h)

/-- the initial state of any configuration whose watchers list no process: no coroutine is
    suspended, the log is empty -/
theorem si_init (cfg : List Watcher) (bs : List Behav) (aw : Nat) (hcfg : ∀ w ∈ cfg, w.pids = []) :
    SI none (initState cfg bs aw) where
  pid := pidInv_init cfg bs aw hcfg
  fr := fun f hf => by cases hf
  rd := fun r hr => by cases hr
  uniq := fun p => by simp [pendCount, initState]
  reap := fun p st h => by simp [initState] at h
  pos := ⟨by simp [initState], fun q hq => by simp [initState] at hq⟩
  wpar := fun o ho => by simp [initState] at ho
  just := fun jm hj => by cases hj

/-- entering the justifying mode at the current end of the log -/
theorem SI.enter {s : State} (h : SI none s) :
    SI (some ⟨s.log.length, ∃ w ∈ s.ws, w.stopSignal = 9⟩) s where
  pid := h.pid
  fr := h.fr
  rd := h.rd
  uniq := h.uniq
  reap := h.reap
  pos := h.pos
  wpar := h.wpar
  just := fun jm hj => by
    cases hj
    refine ⟨?_, fun w hw h9 => ⟨w, hw, h9⟩⟩
    intro pre post p st hl hn
    exfalso
    have := congrArg List.length hl
    simp at this
    have hn' : s.log.length ≤ pre.length := hn
    omega

/-! ### helpers for Props/C03Run.lean -/

theorem countP_le_one_unique {α : Type} (l : List α) (q : α → Bool) (h : l.countP q ≤ 1) {a b : α}
    (ha : a ∈ l) (hb : b ∈ l) (hqa : q a = true) (hqb : q b = true) : a = b := by
  induction l with
  | nil => cases ha
  | cons x xs ih =>
    simp only [List.countP_cons] at h
    rcases List.mem_cons.mp ha with rfl | ha'
    · rcases List.mem_cons.mp hb with rfl | hb'
      · rfl
      · have : 0 < xs.countP q := List.countP_pos_iff.mpr ⟨b, hb', hqb⟩
        simp only [hqa, if_true] at h
        omega
    · rcases List.mem_cons.mp hb with rfl | hb'
      · have : 0 < xs.countP q := List.countP_pos_iff.mpr ⟨a, ha', hqa⟩
        simp only [hqb, if_true] at h
        omega
      · exact ih (by split at h <;> omega) ha' hb'

theorem emit_blocked (o : Obs) (s : State) (h : s.blocked = true) : (emit o s).2 = s := by
  simp [emit, modS, h]

theorem emitEv_blocked (w t : String) (p : Option Nat) (x : String) (s : State) (h : s.blocked = true) :
    (emitEv w t p x s).2 = s := by
  simp [emitEv, modS, h]

theorem blockedLeafS (l : List Obs) : LeafS (fun s => s.blocked = true ∧ s.log = l) where
  emit := fun o _ _ s h => by
    show (emit o s).2.blocked = true ∧ (emit o s).2.log = l
    rw [emit_blocked o s h.1]; exact h
  kKillN := fun p sg via _ s h => by
    show (kKill p sg via s).2.blocked = true ∧ (kKill p sg via s).2.log = l
    simp only [kKill, bind, pure]
    rw [emit_blocked _ _ (by exact h.1)]
    exact h
  kKill9 := fun p s h => by
    show (kKill p 9 "" s).2.blocked = true ∧ (kKill p 9 "" s).2.log = l
    simp only [kKill, bind, pure]
    rw [emit_blocked _ _ (by exact h.1)]
    exact h
  kWaitpid := fun pid s h => by
    show (kWaitpid pid s).2.blocked = true ∧ (kWaitpid pid s).2.log = l
    simp only [kWaitpid, bind, pure]
    cases (runK (fun k => k.waitpid pid) s).1 with
    | echild => exact h
    | none => exact h
    | got q st =>
      simp only
      rw [emit_blocked _ _ (by exact h.1)]
      exact h
  kStateOf := fun pid s h => h
  kChildren := fun pid r s h => h
  kSleep := fun ms s h => h
  emitEv := fun w t p x s h => by
    show (emitEv w t p x s).2.blocked = true ∧ (emitEv w t p x s).2.log = l
    rw [emitEv_blocked w t p x s h.1]; exact h
  popPid := fun u p s h => h
  bumpHook := fun u hn i s h => h
  setRc := fun p rc s h => h
  markBlocked := fun s h => ⟨rfl, h.2⟩

theorem assignUids_stopSignal (cfg : List Watcher) (n : Nat) (w : Watcher) (hw : w ∈ assignUids cfg n) :
    ∃ w0 ∈ cfg, w0.stopSignal = w.stopSignal := by
  induction cfg generalizing n with
  | nil => cases hw
  | cons x xs ih =>
    simp only [assignUids, List.mem_cons] at hw
    rcases hw with rfl | hw
    · exact ⟨x, List.mem_cons_self, rfl⟩
    · obtain ⟨w0, hw0, h⟩ := ih (n + 1) hw
      exact ⟨w0, List.mem_cons_of_mem _ hw0, h⟩

theorem run_si_j {J : JMode} (s : State) (ops : List Op) (hsafe : ∀ op ∈ ops, OpSafe op) (h : SI J s) : SI J (run s ops) := by
  induction ops generalizing s with
  | nil => exact h
  | cons o os ih =>
    exact ih _ (fun op hop => hsafe op (List.mem_cons_of_mem _ hop)) (stepM_si_j o (hsafe o List.mem_cons_self) s h)


end Circus.Core
