import CircusProofs.Core.Pres
/-!
What every kernel call (other than a spawn) leaves alone: the pid counter and the list of pids in
the process table (processes change state, never identity).  The generic preservation theorems
give an invariant the hypothesis `KStep s.k k'` for every kernel write, so invariants may speak
about pid freshness.
-/
namespace Circus.Core

structure KStep (k k' : Kernel) : Prop where
  nextPid : k'.nextPid = k.nextPid
  pids : k'.procs.map (·.pid) = k.procs.map (·.pid)

def KOp {α : Type} (f : Kernel → Kernel × α) : Prop := ∀ k, KStep k (f k).1

namespace KStep

theorem refl (k : Kernel) : KStep k k := ⟨rfl, rfl⟩

theorem trans {a b c : Kernel} (h1 : KStep a b) (h2 : KStep b c) : KStep a c :=
  ⟨h2.nextPid.trans h1.nextPid, h2.pids.trans h1.pids⟩

theorem map_pid (l : List KProc) (f : KProc → KProc) (hf : ∀ p, (f p).pid = p.pid) :
    (l.map f).map (·.pid) = l.map (·.pid) := by
  induction l with
  | nil => rfl
  | cons x xs ih => simp [hf x, ih]

theorem upd (k : Kernel) (pid : Nat) (f : KProc → KProc) (hf : ∀ p, (f p).pid = p.pid) : KStep k (k.upd pid f) := by
  refine ⟨rfl, ?_⟩
  unfold Kernel.upd
  apply map_pid
  intro p; split <;> simp [hf]

theorem dead (k : Kernel) (pid st : Nat) : KStep k (k.dead pid st) := by
  refine ⟨rfl, ?_⟩
  unfold Kernel.dead
  apply map_pid
  intro p; split
  · rfl
  · split <;> rfl

theorem die (k : Kernel) (pid st : Nat) : KStep k (k.die pid st) := by
  unfold Kernel.die
  split
  · split
    · exact dead k pid st
    · exact refl k
  · exact refl k

theorem foldl {β : Type} (l : List β) (f : Kernel → β → Kernel) (hf : ∀ k b, KStep k (f k b)) (k : Kernel) :
    KStep k (l.foldl f k) := by
  induction l generalizing k with
  | nil => exact refl k
  | cons x xs ih => exact trans (hf k x) (ih (f k x))

theorem resolve (k : Kernel) : KStep k k.resolve := by
  unfold Kernel.resolve
  apply foldl
  intro k p0
  split
  · split
    · split
      · exact dead _ _ _
      · exact refl _
    · exact refl _
  · exact refl _

theorem tick (k : Kernel) : KStep k k.tick := by
  unfold Kernel.tick
  refine trans (b := { k with calls := k.calls + 1, armed := k.armed.filter (fun f => ¬ (f.1 ≤ k.calls + 1)) }) ⟨rfl, rfl⟩ ?_
  refine trans ?_ (resolve _)
  apply foldl
  intro k f; exact die _ _ _

theorem beginStep (k : Kernel) : KStep k k.beginStep := ⟨rfl, rfl⟩

theorem doomAt (k : Kernel) (pid dl st : Nat) : KStep k (k.doomAt pid dl st) := by
  unfold Kernel.doomAt
  apply upd
  intro p
  split
  · split <;> rfl
  · rfl

theorem kill (pid sig : Nat) : KOp (fun k => Kernel.kill k pid sig) := by
  intro k
  simp only [Kernel.kill]
  refine trans (tick k) ?_
  generalize k.tick = k1
  split
  · exact refl _
  · split
    · exact refl _
    · split
      · simp only
        refine trans ?_ (resolve _)
        split
        · exact doomAt _ _ _ _
        · split
          · exact refl _
          · split
            · exact doomAt _ _ _ _
            · exact refl _
      · exact refl _

/-- the daemon's own `kill`: either refused (only the tick happened) or the plain `kill` -/
theorem killD (pid sig : Nat) : KOp (fun k => Kernel.killD k pid sig) := by
  intro k
  simp only [Kernel.killD]
  split
  · exact tick k
  · exact kill pid sig k

theorem waitpid (pid : Option Nat) : KOp (fun k => Kernel.waitpid k pid) := by
  intro k
  simp only [Kernel.waitpid]
  refine trans (tick k) ?_
  generalize k.tick = k1
  split
  · exact refl _
  · exact refl _
  · split
    · exact refl _
    · split
      · exact refl _
      · split
        · exact refl _
        · apply upd; intro p; rfl

theorem stateOf (pid : Nat) : KOp (fun k => Kernel.stateOf k pid) := by
  intro k; exact tick k

theorem children (pid : Nat) (r : Bool) : KOp (fun k => Kernel.children k pid r) := by
  intro k
  simp only [Kernel.children]
  refine trans (tick k) ?_
  generalize k.tick = k1
  split
  · exact refl _
  · split
    · exact refl _
    · split <;> exact refl _

theorem sleep (k : Kernel) (ms : Nat) : KStep k (k.sleep ms) := by
  unfold Kernel.sleep
  exact trans (b := { k with now := k.now + (if ms = 0 then 1 else ms), slept := k.slept + (if ms = 0 then 1 else ms), spins := k.spins + 1 }) ⟨rfl, rfl⟩ (tick _)

theorem advance (k : Kernel) (ms : Nat) (ds : List Nat) : KStep k (k.advance ms ds) := by
  unfold Kernel.advance
  exact trans (b := { k with now := max k.now (min (k.now + ms) (ds.foldl min (k.now + ms))) }) ⟨rfl, rfl⟩ (resolve _)

theorem addFault (k : Kernel) (n pid st : Nat) : KStep k (k.addFault n pid st) := ⟨rfl, rfl⟩

theorem setNow (k : Kernel) (t : Nat) : KStep k ({ k with now := t }).resolve :=
  trans (b := { k with now := t }) ⟨rfl, rfl⟩ (resolve _)

end KStep

end Circus.Core
