import CircusProofs.Core.SlotFree
/-!
`SlotInv`: the exclusive slot (`Arbiter._exclusive_running_command`) is taken exactly while one
`release` callback (util._synchronized_cb) is pending — attached to a top-level future that
has not completed yet, or already queued on the event loop.  There is never more than one.
-/
namespace Circus.Core

def TopCb.isRelease : TopCb → Bool
  | .release => true
  | _ => false

def Ready.isRelease : Ready → Bool
  | .topCb .release _ => true
  | _ => false

def relCbs (cbs : List TopCb) : Nat := cbs.countP TopCb.isRelease
def relTops (ts : List TopFut) : Nat := (ts.map fun t => relCbs t.cbs).sum
def relReady (rs : List Ready) : Nat := rs.countP Ready.isRelease
def relCount (s : State) : Nat := relTops s.tops + relReady s.ready

/-- any predicate of (slot, number of pending release callbacks) -/
def SlotView (P : Option String → Nat → Prop) (s : State) : Prop := P s.a.slot (relCount s)

def SlotInv : State → Prop := SlotView fun slot n => n ≤ 1 ∧ (slot.isSome ↔ n = 1)

section
variable {P : Option String → Nat → Prop}

theorem slotView_same {m : M α} (h : ∀ s, (m s).2.a.slot = s.a.slot ∧ relCount (m s).2 = relCount s) :
    Pres (SlotView P) m := by
  intro s hs
  unfold SlotView
  rw [(h s).1, (h s).2]; exact hs

theorem relTops_arm (ts : List TopFut) (tid : Nat) :
    relTops (ts.map fun t => if t.tid = tid then { t with armed := true } else t) = relTops ts := by
  unfold relTops
  induction ts with
  | nil => rfl
  | cons t ts ih =>
    simp only [List.map_cons, List.sum_cons, ih]
    split <;> rfl

macro "slot_same" : tactic =>
  `(tactic| (apply slotView_same; intro s; first
      | (simp only [relCount, modS, modA, modO, emit, emitRep]; done)
      | (simp only [relCount, modS, modA, modO, emit, emitRep]; split <;> simp)
      | (simp [relCount, modS, modA, modO, emit, emitRep]; done)))

theorem slot_modW (u : Nat) (f : Watcher → Watcher) : Pres (SlotView P) (modW u f) := by
  apply slotView_same; intro s; simp [modW, modS, relCount]

theorem slotLeaf : Leaf (SlotView P) where
  emit := fun o => by slot_same
  emitEv := fun w t p x => by unfold emitEv; slot_same
  runK := fun f _ => by apply slotView_same; intro s; exact ⟨rfl, rfl⟩
  setStatus := fun u st => slot_modW _ _
  trySetNp := fun u n => by
    apply slotView_same; intro s; unfold trySetNp; simp only
    generalize (if n < 0 then 0 else n) = n'
    split <;> simp [relCount]
  spawnAdopt := fun u w => by
    apply slotView_same; intro s; unfold spawnAdopt; simp only
    cases h : s.k.spawn with
    | mk k' r => cases r <;> simp [relCount]
  popPid := fun u p => slot_modW _ _
  bumpHook := fun u h i => slot_modW _ _
  setWOpt := fun u c => slot_modW _ _
  setObjStopping := fun p b => by unfold setObjStopping; slot_same
  setRc := fun p rc => by unfold setRc; slot_same
  markBlocked := by unfold markBlocked; slot_same
  freshId := by apply slotView_same; intro s; simp [freshId, relCount]
  pushFrame := fun f => by unfold pushFrame; slot_same
  removeFrame := fun f => by unfold removeFrame; slot_same
  setFrameK := fun f k => by unfold setFrameK; slot_same
  armFrame := fun f => by unfold armFrame; slot_same
  pushSleeper := fun sl => by unfold pushSleeper; slot_same
  armTop := fun t => by
    apply slotView_same; intro s; simp only [armTop, modS, relCount, relTops_arm]; trivial
  setClosed := by unfold setClosed; slot_same
  setStopping := by unfold setStopping; slot_same
  setRestarting := by unfold setRestarting; slot_same
  clearRestarting := fun b => by unfold clearRestarting; slot_same
  setLoopStop := fun b => by unfold setLoopStop; slot_same
  setSocketEvent := fun b => by unfold setSocketEvent; slot_same
  setSockReady := fun b => by unfold setSockReady; slot_same
  clearDone := by unfold clearDone; slot_same
  unregister := fun u => by unfold unregisterWatcher; slot_same
  registerNew := fun w _ => by
    apply slotView_same; intro s; unfold registerNew registerChecked; simp only
    split
    · simp
    · split <;> simp [relCount]
  fireSleeper := fun sl => by unfold fireSleeper; slot_same
  enqueueResume := fun k v w => by
    apply slotView_same; intro s; simp [enqueue, modS, relCount, relReady, List.countP_append, Ready.isRelease]
  enqueueCallback := fun n => by
    apply slotView_same; intro s; simp [enqueue, modS, relCount, relReady, List.countP_append, Ready.isRelease]

end
end Circus.Core

namespace Circus.Core

theorem slot_emitRep {P : Option String → Nat → Prop} (c : String) (i : JVal) (a b d : String) :
    Pres (SlotView P) (emitRep c i a b d) := by
  unfold emitRep; slot_same

theorem relCbs_none {cbs : List TopCb} (h : TopCb.release ∉ cbs) : relCbs cbs = 0 := by
  unfold relCbs
  apply List.countP_eq_zero.mpr
  intro cb hcb hrel
  cases cb <;> simp [TopCb.isRelease] at hrel
  exact h hcb

theorem relCbs_append_nr (cbs : List TopCb) (cb : TopCb) (h : cb ≠ TopCb.release) : relCbs (cbs ++ [cb]) = relCbs cbs := by
  unfold relCbs
  rw [List.countP_append]
  have : List.countP TopCb.isRelease [cb] = 0 := by
    cases cb <;> simp [TopCb.isRelease] at h ⊢
  omega

section
variable {P : Option String → Nat → Prop}

theorem slot_newTopNR (cbs : List TopCb) (h : TopCb.release ∉ cbs) : Pres (SlotView P) (newTop cbs) := by
  apply slotView_same
  intro s
  simp only [newTop, freshId, pushTop, modS, bind, pure, relCount, relTops, List.map_append, List.map_cons,
    List.map_nil, List.sum_append, List.sum_cons, List.sum_nil, relCbs_none h]
  simp

theorem relTops_addCb (ts : List TopFut) (tid : Nat) (cb : TopCb) (h : cb ≠ TopCb.release) :
    relTops (ts.map fun t => if t.tid = tid then { t with cbs := t.cbs ++ [cb] } else t) = relTops ts := by
  unfold relTops
  induction ts with
  | nil => rfl
  | cons t ts ih =>
    simp only [List.map_cons, List.sum_cons, ih]
    split
    · simp [relCbs_append_nr _ _ h]
    · rfl

theorem slot_addDone (tid : Nat) (cb : TopCb) (h : cb ≠ TopCb.release) : Pres (SlotView P) (addDoneCallback tid cb) := by
  apply slotView_same
  intro s
  unfold addDoneCallback
  simp only [bind, getS]
  by_cases hc : (s.tops.find? (fun x => decide (x.tid = tid))).isSome = true
  · erw [if_pos hc]
    simp only [topAddCb, modS, relCount, relTops_addCb _ _ _ h]; trivial
  · erw [if_neg hc]
    have : Ready.isRelease (Ready.topCb cb ((s.doneVals.lookup tid).getD Val.unit)) = false := by
      cases cb <;> simp [Ready.isRelease] at h ⊢
    simp [enqueue, modS, relCount, relReady, List.countP_append, this]

end

/-- the weakest-precondition form of the callback loop of a completed future -/
theorem deliverCbs_wp (armed : Bool) (v : Val) (cbs : List TopCb) (Q : Option String → Nat → Prop) (s : State)
    (h : Q (if !armed && decide (relCbs cbs ≥ 1) then none else s.a.slot)
           (relCount s + if armed then relCbs cbs else 0)) :
    SlotView Q (deliverCbs armed v cbs s).2 := by
  induction cbs generalizing s with
  | nil =>
    simp only [deliverCbs, pure, SlotView]
    simpa [relCbs] using h
  | cons cb rest ih =>
    simp only [deliverCbs, bind]
    apply ih
    cases cb with
    | release =>
      cases armed with
      | false =>
        simp only [runTopCb, setSlot, modA, modS, relCount] at h ⊢
        simp only [relCbs, List.countP_cons, TopCb.isRelease] at h ⊢
        simp at h ⊢
        exact h
      | true =>
        simp only [enqueue, modS, relCount, relReady, List.countP_append] at h ⊢
        simp only [relCbs, List.countP_cons, TopCb.isRelease, Ready.isRelease] at h ⊢
        simp at h ⊢
        have e : ∀ a b c : Nat, a + (b + 1) + c = a + b + (c + 1) := by omega
        rw [e]; exact h
    | reply a b c d e f =>
      simp only [enqueue, modS, relCount, relReady, List.countP_append] at h ⊢
      simp only [relCbs, List.countP_cons, TopCb.isRelease, Ready.isRelease] at h ⊢
      simpa using h
    | watch =>
      simp only [enqueue, modS, relCount, relReady, List.countP_append] at h ⊢
      simp only [relCbs, List.countP_cons, TopCb.isRelease, Ready.isRelease] at h ⊢
      simpa using h
    | popProc a b =>
      simp only [enqueue, modS, relCount, relReady, List.countP_append] at h ⊢
      simp only [relCbs, List.countP_cons, TopCb.isRelease, Ready.isRelease] at h ⊢
      simpa using h

end Circus.Core

namespace Circus.Core

theorem relTops_eraseP (ts : List TopFut) (p : TopFut → Bool) (t : TopFut) (h : ts.find? p = some t) :
    relTops ts = relCbs t.cbs + relTops (ts.eraseP p) := by
  unfold relTops
  induction ts with
  | nil => cases h
  | cons x xs ih =>
    simp only [List.find?_cons] at h
    by_cases hp : p x = true
    · simp only [hp] at h
      cases h
      simp [List.eraseP_cons, hp]
    · have hp' : p x = false := Bool.eq_false_iff.mpr hp
      simp only [hp'] at h
      simp only [List.eraseP_cons, hp', List.map_cons, List.sum_cons, cond_false]
      rw [ih h]; omega

theorem slotInv_deliverTop (tid : Nat) (v : Val) : Pres SlotInv (deliverTop tid v) := by
  intro s hs
  unfold deliverTop
  simp only [bind, getS]
  cases hf : s.tops.find? (fun x => decide (x.tid = tid)) with
  | none => exact hs
  | some t =>
    simp only
    apply deliverCbs_wp
    have hr := relTops_eraseP s.tops _ t hf
    simp only [finishTop, modS, relCount]
    obtain ⟨h1, h2⟩ := hs
    simp only [relCount] at h1 h2
    cases ha : t.armed with
    | true =>
      simp only [Bool.not_true, Bool.false_and, Bool.false_eq_true, if_false, if_true]
      have e : relTops (s.tops.eraseP fun x => decide (x.tid = tid)) + relReady s.ready + relCbs t.cbs
          = relTops s.tops + relReady s.ready := by omega
      rw [e]; exact ⟨h1, h2⟩
    | false =>
      simp only [Bool.not_false, Bool.true_and, Bool.false_eq_true, if_false, Nat.add_zero]
      by_cases hge : relCbs t.cbs ≥ 1
      · simp only [hge, decide_true, if_true]
        have : relTops (s.tops.eraseP fun x => decide (x.tid = tid)) + relReady s.ready = 0 := by omega
        rw [this]; simp
      · simp only [hge, decide_false, Bool.false_eq_true, if_false]
        have : relTops (s.tops.eraseP fun x => decide (x.tid = tid)) + relReady s.ready
            = relTops s.tops + relReady s.ready := by omega
        rw [this]; exact ⟨h1, h2⟩

theorem slotInv_free {s : State} (h : SlotInv s) (hn : s.a.slot = none) : relCount s = 0 := by
  obtain ⟨h1, h2⟩ := h
  have : ¬ relCount s = 1 := fun he => by
    have := h2.mpr he
    rw [hn] at this; cases this
  omega

theorem slotInv_syncCo (he : ∀ n t, Pres SlotInv (exec n t)) (name : String) (c : Call) :
    Pres SlotInv (syncCoroutine name c []) := by
  intro s hs
  unfold syncCoroutine
  simp only [bind, getA]
  by_cases hr : s.a.restarting = true
  · erw [if_pos hr]; exact hs
  · erw [if_neg hr]
    by_cases hsl : s.a.slot.isSome = true
    · erw [if_pos hsl]; exact hs
    · erw [if_neg hsl]
      have hnone : s.a.slot = none := by
        cases h : s.a.slot with
        | none => rfl
        | some x => simp [h] at hsl
      have hc := slotInv_free hs hnone
      -- slot taken, one release registered
      have h1 : SlotInv (newTop ([TopCb.release] ++ []) (setSlot (some name) s).2).2 := by
        have hcount : relCount (newTop ([TopCb.release] ++ []) (setSlot (some name) s).2).2 = relCount s + 1 := by
          simp only [newTop, freshId, pushTop, setSlot, modA, modS, bind, pure, relCount, relTops,
            List.map_append, List.map_cons, List.map_nil, List.sum_append, List.sum_cons, List.sum_nil,
            List.append_nil]
          have : relCbs [TopCb.release] = 1 := by simp [relCbs, TopCb.isRelease]
          rw [this]; omega
        have hslot : (newTop ([TopCb.release] ++ []) (setSlot (some name) s).2).2.a.slot = some name := by
          simp [newTop, freshId, pushTop, setSlot, modA, modS, bind, pure]
        unfold SlotInv SlotView
        rw [hcount, hslot, hc]
        simp
      have h2 := he fuelDefault (.call c (.top (newTop ([TopCb.release] ++ []) (setSlot (some name) s).2).1)) _ h1
      have h3 := (slotLeaf (P := fun slot n => n ≤ 1 ∧ (slot.isSome ↔ n = 1))).armTop
        (newTop ([TopCb.release] ++ []) (setSlot (some name) s).2).1 _ h2
      exact h3

theorem slotInv_syncPlain {α : Type} (name : String) (body : M (R α))
    (hb : ∀ n, Pres (SlotView fun sl k => sl = some name ∧ k = n) body) : Pres SlotInv (syncPlain name body) := by
  intro s hs
  unfold syncPlain
  simp only [bind, getA]
  by_cases hr : s.a.restarting = true
  · erw [if_pos hr]; exact hs
  · erw [if_neg hr]
    by_cases hsl : s.a.slot.isSome = true
    · erw [if_pos hsl]; exact hs
    · erw [if_neg hsl]
      have hnone : s.a.slot = none := by
        cases h : s.a.slot with
        | none => rfl
        | some x => simp [h] at hsl
      have hc := slotInv_free hs hnone
      have h0 : SlotView (fun sl k => sl = some name ∧ k = 0) (setSlot (some name) s).2 := by
        refine ⟨by simp [setSlot, modA, modS], ?_⟩
        simpa [setSlot, modA, modS, relCount] using hc
      have h1 := hb 0 _ h0
      simp only [SlotView] at h1
      simp only [pure, SlotInv, SlotView, setSlot, modA, modS, relCount] at h1 ⊢
      rw [h1.2]
      simp

theorem slotInv_settleStep (he : ∀ n t, Pres SlotInv (exec n t)) (hq : Pres SlotInv sigQuit) :
    Pres SlotInv settleStep := by
  intro s hs
  unfold settleStep
  simp only [bind, getS]
  cases hrd : s.ready with
  | nil => exact hs
  | cons r rest =>
    simp only
    have hdq : (dequeue s).2 = { s with ready := rest } := by simp [dequeue, modS, hrd]
    rw [hdq]
    obtain ⟨h1, h2⟩ := hs
    simp only [relCount, hrd, relReady, List.countP_cons] at h1 h2
    cases r with
    | resume k v w =>
      simp only [Ready.isRelease, Bool.false_eq_true, if_false, Nat.add_zero] at h1 h2
      exact he _ _ _ ⟨by simpa [relCount, relReady] using h1, by simpa [relCount, relReady] using h2⟩
    | closeCtl =>
      simp only [Ready.isRelease, Bool.false_eq_true, if_false, Nat.add_zero] at h1 h2
      exact stopController_pres (I := SlotInv) slotLeaf _
        ⟨by simpa [relCount, relReady] using h1, by simpa [relCount, relReady] using h2⟩
    | callback n =>
      simp only [Ready.isRelease, Bool.false_eq_true, if_false, Nat.add_zero] at h1 h2
      exact hq _ ⟨by simpa [relCount, relReady] using h1, by simpa [relCount, relReady] using h2⟩
    | topCb cb v =>
      cases cb with
      | release =>
        simp only [Ready.isRelease, if_true] at h1 h2
        simp only [runReady1, runTopCb, setSlot, modA, modS, SlotInv, SlotView, relCount, relReady]
        have : relTops s.tops + List.countP Ready.isRelease rest = 0 := by omega
        rw [this]; simp
      | reply a b c d e f =>
        simp only [Ready.isRelease, Bool.false_eq_true, if_false, Nat.add_zero] at h1 h2
        have hp : Pres SlotInv (runTopCb v (TopCb.reply a b c d e f)) := by
          have hs := sendReply_pres (I := SlotInv) slotLeaf slot_emitRep
          simp only [runTopCb]
          split <;> (split <;> first | exact hs _ _ _ _ _ _ | exact Pres.pure _)
        exact hp _ ⟨by simpa [relCount, relReady] using h1, by simpa [relCount, relReady] using h2⟩
      | watch =>
        simp only [Ready.isRelease, Bool.false_eq_true, if_false, Nat.add_zero] at h1 h2
        have hp : Pres SlotInv (runTopCb v TopCb.watch) := by
          simp only [runTopCb]
          split <;> first | exact slotLeaf.emit _ | exact Pres.pure _
        exact hp _ ⟨by simpa [relCount, relReady] using h1, by simpa [relCount, relReady] using h2⟩
      | popProc a b =>
        simp only [Ready.isRelease, Bool.false_eq_true, if_false, Nat.add_zero] at h1 h2
        exact slotLeaf.popPid a b _ ⟨by simpa [relCount, relReady] using h1, by simpa [relCount, relReady] using h2⟩

end Circus.Core

namespace Circus.Core

theorem slotSpec : Spec SlotInv where
  toLeaf := slotLeaf
  emitRep := slot_emitRep
  deliverTop := slotInv_deliverTop
  newTopNR := fun cbs h => slot_newTopNR cbs h
  addDone := fun tid cb h => slot_addDone tid cb h
  syncCo := fun he name c => slotInv_syncCo he name c
  syncSetOpt := fun u k v b => slotInv_syncPlain _ _ (fun _ => setOptBody_pres slotLeaf u k v b)
  syncAdd := fun p => slotInv_syncPlain _ _ (fun _ => addCore_pres slotLeaf p)
  settleStep := fun he hq => slotInv_settleStep he hq

/-- the slot invariant holds along every run that starts in a state where it holds -/
theorem slotInv_run (s : State) (ops : List Op) (h : SlotInv s) : SlotInv (run s ops) :=
  run_pres slotSpec s ops h

theorem slotInv_init (cfg : List Watcher) (bs : List Behav) (aw : Nat) : SlotInv (initState cfg bs aw) := by
  simp [SlotInv, SlotView, initState, relCount, relTops, relReady]

end Circus.Core
