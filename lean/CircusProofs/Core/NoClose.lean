import CircusProofs.Core.SlotFree
import CircusProofs.Core.NarrowAttr
/-!
The composition proofs of Generic.lean / SlotFree.lean once more, over writer structures *without*
`setClosed`: invariants such as "the control socket is open" are broken by `stopController`, which
is reachable only from the event loop (`stepTail`, `runReady1 … .closeCtl`), never from a coroutine
or from `dispatch`.  Everything up to `LeafW` (all of Watcher.lean) is reused as is; the rest is
GENERATED from Generic.lean/SlotFree.lean by renaming (`Leaf` → `LeafC`, `SpecCore` → `SpecCoreC`,
`Spec` → `SpecC`, `LeafY` → `LeafYC`, `LeafX` → `LeafXC`, theorem names get the suffix `C`, rule set
`NoClose`), minus `stopController_pres` and the event-loop part (`settle`, `stepTail`, `stepM`, `run`).
Result: `exec_presC`, `validateExecute_presC`, `handleMessage_presC`, `sigQuit_presC`, `stepOp_presC`.
-/
namespace Circus.Core

structure LeafC (I : State → Prop) : Prop extends LeafW I where
  setStatus : ∀ u st, Pres I (setStatus u st)
  trySetNp : ∀ u n, Pres I (trySetNp u n)
  spawnAdopt : ∀ u w, Pres I (spawnAdopt u w)
  setWOpt : ∀ u c, Pres I (setWOpt u c)
  freshId : Pres I freshId
  pushFrame : ∀ f, Pres I (pushFrame f)
  removeFrame : ∀ f, Pres I (removeFrame f)
  setFrameK : ∀ f k, Pres I (setFrameK f k)
  armFrame : ∀ f, Pres I (armFrame f)
  pushSleeper : ∀ sl, Pres I (pushSleeper sl)
  armTop : ∀ t, Pres I (armTop t)
  setStopping : Pres I setStopping
  setRestarting : Pres I setRestarting
  setLoopStop : ∀ b, Pres I (setLoopStop b)
  setSocketEvent : ∀ b, Pres I (setSocketEvent b)
  setSockReady : ∀ b, Pres I (setSockReady b)
  clearDone : Pres I clearDone
  unregister : ∀ u, Pres I (unregisterWatcher u)
  registerNew : ∀ w, w.pids = [] → Pres I (registerNew w)    -- a new watcher object lists no process
  fireSleeper : ∀ sl, Pres I (fireSleeper sl)
  enqueueResume : ∀ k v w, Pres I (enqueue (.resume k v w))
  enqueueCallback : ∀ n, Pres I (enqueue (.callback n))

structure SpecCoreC (I : State → Prop) : Prop extends LeafC I where
  deliverTop : ∀ tid v, Pres I (deliverTop tid v)
  newTopNR : ∀ cbs, TopCb.release ∉ cbs → Pres I (newTop cbs)
  addDone : ∀ tid cb, cb ≠ TopCb.release → Pres I (addDoneCallback tid cb)
  syncCo : (∀ n t, Pres I (exec n t)) → ∀ name c, Pres I (syncCoroutine name c [])
  syncSetOpt : ∀ u key val len, Pres I (syncPlain "watcher_set_opt" (setOptBody u key val len))
  syncAdd : ∀ props, Pres I (syncPlain "arbiter_add_watcher" (addCore props))

structure SpecC (I : State → Prop) : Prop extends SpecCoreC I where
  emitRep : ∀ c i a b d, Pres I (emitRep c i a b d)

structure LeafYC (I : State → Prop) : Prop extends LeafC I where
  setSlot : ∀ v, Pres I (setSlot v)
  pushTop : ∀ t, Pres I (pushTop t)
  finishTop : ∀ t v, Pres I (finishTop t v)
  topAddCb : ∀ t cb, Pres I (topAddCb t cb)
  enqueue : ∀ r, Pres I (enqueue r)
  dequeue : Pres I dequeue

structure LeafXC (I : State → Prop) : Prop extends LeafYC I where
  emitRep : ∀ c i a b d, Pres I (emitRep c i a b d)

attribute [aesop safe apply (rule_sets := [NoClose])] Pres.pure Pres.getS Pres.getK Pres.getA Pres.getW Pres.getO Pres.nowMs
attribute [aesop safe apply (rule_sets := [NoClose])] Pres.bind Pres.ite Pres.for_in
attribute [aesop safe apply (rule_sets := [NoClose])] LeafK.emit LeafW.popPid LeafW.bumpHook LeafW.setObjStopping LeafW.setRc
  LeafW.markBlocked LeafW.emitEv
attribute [aesop safe apply (rule_sets := [NoClose])] LeafC.setStatus LeafC.trySetNp LeafC.spawnAdopt LeafC.setWOpt LeafC.freshId LeafC.pushFrame LeafC.removeFrame LeafC.setFrameK LeafC.armFrame LeafC.pushSleeper LeafC.armTop LeafC.setStopping LeafC.setRestarting LeafC.setLoopStop LeafC.setSocketEvent LeafC.setSockReady LeafC.clearDone LeafC.unregister LeafC.fireSleeper LeafC.enqueueResume LeafC.enqueueCallback
attribute [aesop safe apply (rule_sets := [NoClose])] SpecCoreC.deliverTop SpecCoreC.syncSetOpt SpecCoreC.syncAdd
attribute [aesop safe apply (rule_sets := [NoClose])] LeafW.toLeafK LeafC.toLeafW SpecCoreC.toLeafC SpecC.toSpecCoreC
attribute [aesop safe apply (rule_sets := [NoClose])] runK_kill runK_waitpid kKill_pres kWaitpid_pres kStateOf_pres kChildren_pres kSleep_pres notify_pres callHook_pres procStatus_pres isAlive_pres objStop_pres sendSignal_pres sendSignalChild_pres sendSignalProcess_pres activeProcs_pres setBlocked_pres reapWait_pres reapTail_pres reapProcess_pres reapProcesses_pres usedWids_pres arbReapLoop_pres registered_pres iterWatchers_pres arbReapProcesses_pres

macro "presc" : tactic => `(tactic| aesop (rule_sets := [NoClose]) (config := { terminal := true, useDefaultSimpSet := false, useSimpAll := false, maxRuleApplications := 3000 }))

section
variable {I : State → Prop}

/-! ### Interp -/
@[aesop safe apply (rule_sets := [NoClose])]
theorem newFrame_presC (L : LeafC I) (k : Kont) (p : Waiter) : Pres I (newFrame k p) := by
  unfold newFrame; presc
@[aesop safe apply (rule_sets := [NoClose])]
theorem addSleeper_presC (L : LeafC I) (ms : Nat) (w : Waiter) : Pres I (addSleeper ms w) := by
  unfold addSleeper; presc
@[aesop safe apply (rule_sets := [NoClose])]
theorem sendReply_presC (L : LeafC I) (hrep : ∀ c i a b d, Pres I (emitRep c i a b d))
    (cid : Option String) (id : JVal) (c : Bool) (a b d : String) :
    Pres I (sendReply cid id c a b d) := by
  unfold sendReply
  aesop (add safe apply hrep) (rule_sets := [NoClose])
    (config := { terminal := true, useDefaultSimpSet := false, useSimpAll := false, maxRuleApplications := 3000 })

@[aesop safe apply (rule_sets := [NoClose])]
theorem multiCollect_presC (L : LeafC I) (rec : Rec) (hrec : ∀ t, Pres I (rec t)) (f sl : Nat) (v : Val) :
    Pres I (multiCollect rec f sl v) := by
  unfold multiCollect; aesop (add safe apply hrec) (rule_sets := [NoClose]) (config := { terminal := true, useDefaultSimpSet := false, useSimpAll := false, maxRuleApplications := 3000 })

@[aesop safe apply (rule_sets := [NoClose])]
theorem deliver_presC (S : SpecCoreC I) (rec : Rec) (hrec : ∀ t, Pres I (rec t)) (w : Waiter) (v : Val) :
    Pres I (deliver rec w v) := by
  have L := S.toLeafC
  unfold deliver; aesop (add safe apply hrec) (rule_sets := [NoClose]) (config := { terminal := true, useDefaultSimpSet := false, useSimpAll := false, maxRuleApplications := 3000 })

@[aesop safe apply (rule_sets := [NoClose])]
theorem await_presC (S : SpecCoreC I) (rec : Rec) (hrec : ∀ t, Pres I (rec t)) (c : Call) (k : Kont) (p : Waiter) :
    Pres I (await rec c k p) := by
  have L := S.toLeafC
  unfold await; aesop (add safe apply hrec) (rule_sets := [NoClose]) (config := { terminal := true, useDefaultSimpSet := false, useSimpAll := false, maxRuleApplications := 3000 })
@[aesop safe apply (rule_sets := [NoClose])]
theorem awaitSleep_presC (L : LeafC I) (ms : Nat) (k : Kont) (p : Waiter) : Pres I (awaitSleep ms k p) := by
  unfold awaitSleep; presc
@[aesop safe apply (rule_sets := [NoClose])]
theorem awaitMulti_presC (S : SpecCoreC I) (rec : Rec) (hrec : ∀ t, Pres I (rec t)) (cs : List Call) (k : Kont) (p : Waiter) :
    Pres I (awaitMulti rec cs k p) := by
  have L := S.toLeafC
  unfold awaitMulti; aesop (add safe apply hrec) (rule_sets := [NoClose]) (config := { terminal := true, useDefaultSimpSet := false, useSimpAll := false, maxRuleApplications := 3000 })

/-! ### coroutine bodies (open recursion through `rec`) -/
@[aesop safe apply (rule_sets := [NoClose])]
theorem popStrict_presC (L : LeafC I) (u p : Nat) : Pres I (popStrict u p) := by
  unfold popStrict; presc
@[aesop safe apply (rule_sets := [NoClose])]
theorem pubBefore_presC (L : LeafC I) (u : Nat) : Pres I (pubBefore u) := by
  unfold pubBefore; presc
@[aesop safe apply (rule_sets := [NoClose])]
theorem spawnTry_presC (S : SpecCoreC I) (rec : Rec) (hrec : ∀ t, Pres I (rec t)) (wuid n : Nat) : Pres I (spawnTry rec wuid n) := by
  have L := S.toLeafC
  have hnt : Pres I (newTop [TopCb.popProc wuid 0]) → True := fun _ => trivial
  induction n with
  | zero => unfold spawnTry; presc
  | succ n ih =>
    unfold spawnTry
    have hnew : ∀ pid, Pres I (newTop [TopCb.popProc wuid pid]) := fun pid => S.newTopNR _ (by simp)
    aesop (add safe apply ih, safe apply hrec, safe apply hnew) (rule_sets := [NoClose]) (config := { terminal := true, useDefaultSimpSet := false, useSimpAll := false, maxRuleApplications := 3000 })
@[aesop safe apply (rule_sets := [NoClose])]
theorem killFinish_presC (S : SpecCoreC I) (rec : Rec) (hrec : ∀ t, Pres I (rec t)) (wuid pid : Nat) (esc : Bool) (wt : Waiter) : Pres I (killFinish rec wuid pid esc wt) := by
  have L := S.toLeafC
  unfold killFinish; aesop (add safe apply hrec) (rule_sets := [NoClose]) (config := { terminal := true, useDefaultSimpSet := false, useSimpAll := false, maxRuleApplications := 3000 })
@[aesop safe apply (rule_sets := [NoClose])]
theorem killLoop_presC (S : SpecCoreC I) (rec : Rec) (hrec : ∀ t, Pres I (rec t)) (wuid pid sig i polls : Nat) (wt : Waiter) : Pres I (killLoop rec wuid pid sig i polls wt) := by
  have L := S.toLeafC
  unfold killLoop; aesop (add safe apply hrec) (rule_sets := [NoClose]) (config := { terminal := true, useDefaultSimpSet := false, useSimpAll := false, maxRuleApplications := 3000 })
@[aesop safe apply (rule_sets := [NoClose])]
theorem killProcess_presC (S : SpecCoreC I) (rec : Rec) (hrec : ∀ t, Pres I (rec t)) (wuid pid : Nat) (sig gt : Option Nat) (wt : Waiter) : Pres I (killProcess rec wuid pid sig gt wt) := by
  have L := S.toLeafC
  unfold killProcess; aesop (add safe apply hrec) (rule_sets := [NoClose]) (config := { terminal := true, useDefaultSimpSet := false, useSimpAll := false, maxRuleApplications := 3000 })
@[aesop safe apply (rule_sets := [NoClose])]
theorem killProcesses_presC (S : SpecCoreC I) (rec : Rec) (hrec : ∀ t, Pres I (rec t)) (wuid : Nat) (sig gt : Option Nat) (wt : Waiter) : Pres I (killProcesses rec wuid sig gt wt) := by
  have L := S.toLeafC
  unfold killProcesses; aesop (add safe apply hrec) (rule_sets := [NoClose]) (config := { terminal := true, useDefaultSimpSet := false, useSimpAll := false, maxRuleApplications := 3000 })
@[aesop safe apply (rule_sets := [NoClose])]
theorem stopW_presC (S : SpecCoreC I) (rec : Rec) (hrec : ∀ t, Pres I (rec t)) (wuid : Nat) (close : Bool) (wt : Waiter) : Pres I (stopW rec wuid close wt) := by
  have L := S.toLeafC
  unfold stopW; aesop (add safe apply hrec) (rule_sets := [NoClose]) (config := { terminal := true, useDefaultSimpSet := false, useSimpAll := false, maxRuleApplications := 3000 })
@[aesop safe apply (rule_sets := [NoClose])]
theorem stopAfterKill_presC (S : SpecCoreC I) (rec : Rec) (hrec : ∀ t, Pres I (rec t)) (wuid : Nat) (close : Bool) (wt : Waiter) : Pres I (stopAfterKill rec wuid close wt) := by
  have L := S.toLeafC
  unfold stopAfterKill; aesop (add safe apply hrec) (rule_sets := [NoClose]) (config := { terminal := true, useDefaultSimpSet := false, useSimpAll := false, maxRuleApplications := 3000 })
@[aesop safe apply (rule_sets := [NoClose])]
theorem spawnProcess_presC (S : SpecCoreC I) (rec : Rec) (hrec : ∀ t, Pres I (rec t)) (wuid : Nat) : Pres I (spawnProcess rec wuid) := by
  have L := S.toLeafC
  unfold spawnProcess; aesop (add safe apply hrec) (rule_sets := [NoClose]) (config := { terminal := true, useDefaultSimpSet := false, useSimpAll := false, maxRuleApplications := 3000 })
@[aesop safe apply (rule_sets := [NoClose])]
theorem pendingSocketEvent_presC (L : LeafC I) (u : Nat) : Pres I (pendingSocketEvent u) := by
  unfold pendingSocketEvent; presc
@[aesop safe apply (rule_sets := [NoClose])]
theorem spawnLoop_presC (S : SpecCoreC I) (rec : Rec) (hrec : ∀ t, Pres I (rec t)) (wuid rem : Nat) (wt : Waiter) : Pres I (spawnLoop rec wuid rem wt) := by
  have L := S.toLeafC
  unfold spawnLoop; aesop (add safe apply hrec) (rule_sets := [NoClose]) (config := { terminal := true, useDefaultSimpSet := false, useSimpAll := false, maxRuleApplications := 3000 })
@[aesop safe apply (rule_sets := [NoClose])]
theorem spawnProcesses_presC (S : SpecCoreC I) (rec : Rec) (hrec : ∀ t, Pres I (rec t)) (wuid : Nat) (wt : Waiter) : Pres I (spawnProcesses rec wuid wt) := by
  have L := S.toLeafC
  unfold spawnProcesses; aesop (add safe apply hrec) (rule_sets := [NoClose]) (config := { terminal := true, useDefaultSimpSet := false, useSimpAll := false, maxRuleApplications := 3000 })
@[aesop safe apply (rule_sets := [NoClose])]
theorem popKilled_presC (S : SpecCoreC I) (rec : Rec) (hrec : ∀ t, Pres I (rec t)) (wuid : Nat) (tk : List Nat) (v : Val) (wt : Waiter) : Pres I (popKilled rec wuid tk v wt) := by
  have L := S.toLeafC
  unfold popKilled; aesop (add safe apply hrec) (rule_sets := [NoClose]) (config := { terminal := true, useDefaultSimpSet := false, useSimpAll := false, maxRuleApplications := 3000 })
@[aesop safe apply (rule_sets := [NoClose])]
theorem manageTail_presC (S : SpecCoreC I) (rec : Rec) (hrec : ∀ t, Pres I (rec t)) (wuid : Nat) (wt : Waiter) : Pres I (manageTail rec wuid wt) := by
  have L := S.toLeafC
  unfold manageTail; aesop (add safe apply hrec) (rule_sets := [NoClose]) (config := { terminal := true, useDefaultSimpSet := false, useSimpAll := false, maxRuleApplications := 3000 })
@[aesop safe apply (rule_sets := [NoClose])]
theorem manageAfterExpire_presC (S : SpecCoreC I) (rec : Rec) (hrec : ∀ t, Pres I (rec t)) (wuid : Nat) (wt : Waiter) : Pres I (manageAfterExpire rec wuid wt) := by
  have L := S.toLeafC
  unfold manageAfterExpire; aesop (add safe apply hrec) (rule_sets := [NoClose]) (config := { terminal := true, useDefaultSimpSet := false, useSimpAll := false, maxRuleApplications := 3000 })
@[aesop safe apply (rule_sets := [NoClose])]
theorem removeExpired_presC (S : SpecCoreC I) (rec : Rec) (hrec : ∀ t, Pres I (rec t)) (wuid : Nat) (wt : Waiter) : Pres I (removeExpired rec wuid wt) := by
  have L := S.toLeafC
  unfold removeExpired; aesop (add safe apply hrec) (rule_sets := [NoClose]) (config := { terminal := true, useDefaultSimpSet := false, useSimpAll := false, maxRuleApplications := 3000 })
@[aesop safe apply (rule_sets := [NoClose])]
theorem manageProcesses_presC (S : SpecCoreC I) (rec : Rec) (hrec : ∀ t, Pres I (rec t)) (wuid : Nat) (wt : Waiter) : Pres I (manageProcesses rec wuid wt) := by
  have L := S.toLeafC
  unfold manageProcesses; aesop (add safe apply hrec) (rule_sets := [NoClose]) (config := { terminal := true, useDefaultSimpSet := false, useSimpAll := false, maxRuleApplications := 3000 })
@[aesop safe apply (rule_sets := [NoClose])]
theorem startW_presC (S : SpecCoreC I) (rec : Rec) (hrec : ∀ t, Pres I (rec t)) (wuid : Nat) (wt : Waiter) : Pres I (startW rec wuid wt) := by
  have L := S.toLeafC
  unfold startW; aesop (add safe apply hrec) (rule_sets := [NoClose]) (config := { terminal := true, useDefaultSimpSet := false, useSimpAll := false, maxRuleApplications := 3000 })
@[aesop safe apply (rule_sets := [NoClose])]
theorem startAfterSpawn_presC (S : SpecCoreC I) (rec : Rec) (hrec : ∀ t, Pres I (rec t)) (wuid : Nat) (wt : Waiter) : Pres I (startAfterSpawn rec wuid wt) := by
  have L := S.toLeafC
  unfold startAfterSpawn; aesop (add safe apply hrec) (rule_sets := [NoClose]) (config := { terminal := true, useDefaultSimpSet := false, useSimpAll := false, maxRuleApplications := 3000 })
@[aesop safe apply (rule_sets := [NoClose])]
theorem reloadW_presC (S : SpecCoreC I) (rec : Rec) (hrec : ∀ t, Pres I (rec t)) (wuid : Nat) (g sq : Bool) (wt : Waiter) : Pres I (reloadW rec wuid g sq wt) := by
  have L := S.toLeafC
  unfold reloadW; aesop (add safe apply hrec) (rule_sets := [NoClose]) (config := { terminal := true, useDefaultSimpSet := false, useSimpAll := false, maxRuleApplications := 3000 })
@[aesop safe apply (rule_sets := [NoClose])]
theorem reloadSeqNext_presC (S : SpecCoreC I) (rec : Rec) (hrec : ∀ t, Pres I (rec t)) (wuid : Nat) (rest : List Nat) (wt : Waiter) : Pres I (reloadSeqNext rec wuid rest wt) := by
  have L := S.toLeafC
  unfold reloadSeqNext; aesop (add safe apply hrec) (rule_sets := [NoClose]) (config := { terminal := true, useDefaultSimpSet := false, useSimpAll := false, maxRuleApplications := 3000 })
@[aesop safe apply (rule_sets := [NoClose])]
theorem reloadSeqAfterKill_presC (S : SpecCoreC I) (rec : Rec) (hrec : ∀ t, Pres I (rec t)) (wuid pid : Nat) (rest : List Nat) (wt : Waiter) : Pres I (reloadSeqAfterKill rec wuid pid rest wt) := by
  have L := S.toLeafC
  unfold reloadSeqAfterKill; aesop (add safe apply hrec) (rule_sets := [NoClose]) (config := { terminal := true, useDefaultSimpSet := false, useSimpAll := false, maxRuleApplications := 3000 })
@[aesop safe apply (rule_sets := [NoClose])]
theorem setNumprocesses_presC (S : SpecCoreC I) (rec : Rec) (hrec : ∀ t, Pres I (rec t)) (wuid : Nat) (n : Int) (wt : Waiter) : Pres I (setNumprocesses rec wuid n wt) := by
  have L := S.toLeafC
  unfold setNumprocesses; aesop (add safe apply hrec) (rule_sets := [NoClose]) (config := { terminal := true, useDefaultSimpSet := false, useSimpAll := false, maxRuleApplications := 3000 })
@[aesop safe apply (rule_sets := [NoClose])]
theorem doAction_presC (S : SpecCoreC I) (rec : Rec) (hrec : ∀ t, Pres I (rec t)) (wuid : Nat) (n : Int) (wt : Waiter) : Pres I (doAction rec wuid n wt) := by
  have L := S.toLeafC
  unfold doAction; aesop (add safe apply hrec) (rule_sets := [NoClose]) (config := { terminal := true, useDefaultSimpSet := false, useSimpAll := false, maxRuleApplications := 3000 })
@[aesop safe apply (rule_sets := [NoClose])]
theorem pubInfo_presC (S : SpecCoreC I) (rec : Rec) (hrec : ∀ t, Pres I (rec t)) (wuid : Nat) (b : List Nat) (wt : Waiter) : Pres I (pubInfo rec wuid b wt) := by
  have L := S.toLeafC
  unfold pubInfo; aesop (add safe apply hrec) (rule_sets := [NoClose]) (config := { terminal := true, useDefaultSimpSet := false, useSimpAll := false, maxRuleApplications := 3000 })
@[aesop safe apply (rule_sets := [NoClose])]
theorem arbStartNext_presC (S : SpecCoreC I) (rec : Rec) (hrec : ∀ t, Pres I (rec t)) (ws : List Nat) (wt : Waiter) : Pres I (arbStartNext rec ws wt) := by
  have L := S.toLeafC
  unfold arbStartNext; aesop (add safe apply hrec) (rule_sets := [NoClose]) (config := { terminal := true, useDefaultSimpSet := false, useSimpAll := false, maxRuleApplications := 3000 })
@[aesop safe apply (rule_sets := [NoClose])]
theorem arbStartAfterStart_presC (S : SpecCoreC I) (rec : Rec) (hrec : ∀ t, Pres I (rec t)) (ws : List Nat) (wt : Waiter) : Pres I (arbStartAfterStart rec ws wt) := by
  have L := S.toLeafC
  unfold arbStartAfterStart; aesop (add safe apply hrec) (rule_sets := [NoClose]) (config := { terminal := true, useDefaultSimpSet := false, useSimpAll := false, maxRuleApplications := 3000 })
@[aesop safe apply (rule_sets := [NoClose])]
theorem arbStopTail_presC (S : SpecCoreC I) (rec : Rec) (hrec : ∀ t, Pres I (rec t)) (wt : Waiter) : Pres I (arbStopTail rec wt) := by
  have L := S.toLeafC
  unfold arbStopTail; aesop (add safe apply hrec) (rule_sets := [NoClose]) (config := { terminal := true, useDefaultSimpSet := false, useSimpAll := false, maxRuleApplications := 3000 })
@[aesop safe apply (rule_sets := [NoClose])]
theorem arbStop_presC (S : SpecCoreC I) (rec : Rec) (hrec : ∀ t, Pres I (rec t)) (wt : Waiter) : Pres I (arbStop rec wt) := by
  have L := S.toLeafC
  unfold arbStop; aesop (add safe apply hrec) (rule_sets := [NoClose]) (config := { terminal := true, useDefaultSimpSet := false, useSimpAll := false, maxRuleApplications := 3000 })
@[aesop safe apply (rule_sets := [NoClose])]
theorem arbRestartInside_presC (S : SpecCoreC I) (rec : Rec) (hrec : ∀ t, Pres I (rec t)) (wt : Waiter) : Pres I (arbRestartInside rec wt) := by
  have L := S.toLeafC
  unfold arbRestartInside; aesop (add safe apply hrec) (rule_sets := [NoClose]) (config := { terminal := true, useDefaultSimpSet := false, useSimpAll := false, maxRuleApplications := 3000 })
@[aesop safe apply (rule_sets := [NoClose])]
theorem arbReloadNext_presC (S : SpecCoreC I) (rec : Rec) (hrec : ∀ t, Pres I (rec t)) (ws : List Nat) (g sq : Bool) (wt : Waiter) : Pres I (arbReloadNext rec ws g sq wt) := by
  have L := S.toLeafC
  unfold arbReloadNext; aesop (add safe apply hrec) (rule_sets := [NoClose]) (config := { terminal := true, useDefaultSimpSet := false, useSimpAll := false, maxRuleApplications := 3000 })
@[aesop safe apply (rule_sets := [NoClose])]
theorem arbReloadAfter_presC (S : SpecCoreC I) (rec : Rec) (hrec : ∀ t, Pres I (rec t)) (ws : List Nat) (g sq : Bool) (wt : Waiter) : Pres I (arbReloadAfter rec ws g sq wt) := by
  have L := S.toLeafC
  unfold arbReloadAfter; aesop (add safe apply hrec) (rule_sets := [NoClose]) (config := { terminal := true, useDefaultSimpSet := false, useSimpAll := false, maxRuleApplications := 3000 })
@[aesop safe apply (rule_sets := [NoClose])]
theorem manageWatchers_presC (S : SpecCoreC I) (rec : Rec) (hrec : ∀ t, Pres I (rec t)) (wt : Waiter) : Pres I (manageWatchers rec wt) := by
  have L := S.toLeafC
  unfold manageWatchers; aesop (add safe apply hrec) (rule_sets := [NoClose]) (config := { terminal := true, useDefaultSimpSet := false, useSimpAll := false, maxRuleApplications := 3000 })
@[aesop safe apply (rule_sets := [NoClose])]
theorem rmWatcher_presC (S : SpecCoreC I) (rec : Rec) (hrec : ∀ t, Pres I (rec t)) (uid : Nat) (ns : Bool) (wt : Waiter) : Pres I (rmWatcher rec uid ns wt) := by
  have L := S.toLeafC
  unfold rmWatcher; aesop (add safe apply hrec) (rule_sets := [NoClose]) (config := { terminal := true, useDefaultSimpSet := false, useSimpAll := false, maxRuleApplications := 3000 })
@[aesop safe apply (rule_sets := [NoClose])]
theorem manageWatchersTail_presC (S : SpecCoreC I) (rec : Rec) (hrec : ∀ t, Pres I (rec t)) (need : Bool) (wt : Waiter) : Pres I (manageWatchersTail rec need wt) := by
  have L := S.toLeafC
  have hnt : Pres I (newTop [TopCb.watch]) := S.newTopNR _ (by simp)
  unfold manageWatchersTail; aesop (add safe apply hrec, safe apply hnt) (rule_sets := [NoClose]) (config := { terminal := true, useDefaultSimpSet := false, useSimpAll := false, maxRuleApplications := 3000 })
@[aesop safe apply (rule_sets := [NoClose])]
theorem runCall_presC (S : SpecCoreC I) (rec : Rec) (hrec : ∀ t, Pres I (rec t)) (c : Call) (wt : Waiter) : Pres I (runCall rec c wt) := by
  have L := S.toLeafC
  unfold runCall; aesop (add safe apply hrec) (rule_sets := [NoClose]) (config := { terminal := true, useDefaultSimpSet := false, useSimpAll := false, maxRuleApplications := 3000 })
@[aesop safe apply (rule_sets := [NoClose])]
theorem runResume_presC (S : SpecCoreC I) (rec : Rec) (hrec : ∀ t, Pres I (rec t)) (k : Kont) (v : Val) (wt : Waiter) : Pres I (runResume rec k v wt) := by
  have L := S.toLeafC
  unfold runResume; aesop (add safe apply hrec) (rule_sets := [NoClose]) (config := { terminal := true, useDefaultSimpSet := false, useSimpAll := false, maxRuleApplications := 3000 })
theorem exec_presC (S : SpecCoreC I) (n : Nat) (t : Task) : Pres I (exec n t) := by
  have L := S.toLeafC
  induction n generalizing t with
  | zero => unfold exec; presc
  | succ n ih =>
    unfold exec
    aesop (add safe apply ih) (rule_sets := [NoClose]) (config := { terminal := true, useDefaultSimpSet := false, useSimpAll := false, maxRuleApplications := 3000 })
/-! ### dispatch and commands -/
@[aesop safe apply (rule_sets := [NoClose])]
theorem lookupWatcher_presC (L : LeafC I) (n : String) : Pres I (lookupWatcher n) := by
  unfold lookupWatcher; presc
@[aesop safe apply (rule_sets := [NoClose])]
theorem getWatcherCmd_presC (L : LeafC I) (n : JVal) : Pres I (getWatcherCmd n) := by
  unfold getWatcherCmd; presc
@[aesop safe apply (rule_sets := [NoClose])]
theorem matchWatchers_presC (L : LeafC I) (p : JVal) : Pres I (matchWatchers p) := by
  unfold matchWatchers; presc
@[aesop safe apply (rule_sets := [NoClose])]
theorem sortUids_presC (L : LeafC I) (us : List Nat) (r : Bool) : Pres I (sortUids us r) := by
  unfold sortUids; presc
@[aesop safe apply (rule_sets := [NoClose])]
theorem plainCoroutine_presC (S : SpecCoreC I) (c : Call) : Pres I (plainCoroutine c []) := by
  have L := S.toLeafC
  have h1 : Pres I (newTop ([] : List TopCb)) := S.newTopNR _ (by simp)
  have h2 := exec_presC S
  unfold plainCoroutine
  aesop (add safe apply h1, safe apply h2) (rule_sets := [NoClose]) (config := { terminal := true, useDefaultSimpSet := false, useSimpAll := false, maxRuleApplications := 3000 })
@[aesop safe apply (rule_sets := [NoClose])]
theorem syncCoroutine_presC (S : SpecCoreC I) (name : String) (c : Call) : Pres I (syncCoroutine name c []) :=
  S.syncCo (exec_presC S) name c
@[aesop safe apply (rule_sets := [NoClose])]
theorem execSSR_presC (S : SpecCoreC I) (kind : String) (p : JVal) : Pres I (execSSR kind p) := by
  have L := S.toLeafC
  unfold execSSR; presc
@[aesop safe apply (rule_sets := [NoClose])]
theorem execIncrDecr_presC (S : SpecCoreC I) (sg : Int) (p : JVal) : Pres I (execIncrDecr sg p) := by
  have L := S.toLeafC
  unfold execIncrDecr; presc
@[aesop safe apply (rule_sets := [NoClose])]
theorem execReload_presC (S : SpecCoreC I) (p : JVal) : Pres I (execReload p) := by
  have L := S.toLeafC
  unfold execReload; presc
@[aesop safe apply (rule_sets := [NoClose])]
theorem execSet_presC (S : SpecCoreC I) (p : JVal) : Pres I (execSet p) := by
  have L := S.toLeafC
  unfold execSet; presc
@[aesop safe apply (rule_sets := [NoClose])]
theorem execKill_presC (S : SpecCoreC I) (p : JVal) : Pres I (execKill p) := by
  have L := S.toLeafC
  unfold execKill; presc
@[aesop safe apply (rule_sets := [NoClose])]
theorem execSignal_presC (S : SpecCoreC I) (p : JVal) : Pres I (execSignal p) := by
  have L := S.toLeafC
  unfold execSignal; presc
@[aesop safe apply (rule_sets := [NoClose])]
theorem execRm_presC (S : SpecCoreC I) (p : JVal) : Pres I (execRm p) := by
  have L := S.toLeafC
  unfold execRm; presc
@[aesop safe apply (rule_sets := [NoClose])]
theorem execAdd_presC (S : SpecCoreC I) (p : JVal) : Pres I (execAdd p) := by
  have L := S.toLeafC
  unfold execAdd; presc
@[aesop safe apply (rule_sets := [NoClose])]
theorem execReadOnly_presC (S : SpecCoreC I) (c : String) (p : JVal) : Pres I (execReadOnly c p) := by
  have L := S.toLeafC
  unfold execReadOnly; presc
@[aesop safe apply (rule_sets := [NoClose])]
theorem validateExecute_presC (S : SpecCoreC I) (c : String) (p : JVal) : Pres I (validateExecute c p) := by
  have L := S.toLeafC
  unfold validateExecute; presc
@[aesop safe apply (rule_sets := [NoClose])]
theorem handleMessage_presC (S : SpecC I) (cid : Option String) (msg : Option JVal) : Pres I (handleMessage cid msg) := by
  have L := S.toLeafC
  have hadd : ∀ tid a b c d e f, Pres I (addDoneCallback tid (TopCb.reply a b c d e f)) :=
    fun tid a b c d e f => S.addDone _ _ (by simp)
  have hrep := S.emitRep
  have hve := validateExecute_presC S.toSpecCoreC
  unfold handleMessage
  aesop (add safe apply hadd, safe apply hrep, safe apply hve) (rule_sets := [NoClose]) (config := { terminal := true, useDefaultSimpSet := false, useSimpAll := false, maxRuleApplications := 3000 })
@[aesop safe apply (rule_sets := [NoClose])]
theorem sigQuit_presC (S : SpecC I) : Pres I sigQuit := by
  have L := S.toLeafC
  have h := handleMessage_presC S
  unfold sigQuit
  aesop (add safe apply h) (rule_sets := [NoClose])
    (config := { terminal := true, useDefaultSimpSet := false, useSimpAll := false, maxRuleApplications := 3000 })
theorem stepOp_presC (S : SpecC I) (op : Op) : Pres I (stepOp op) := by
  have L := S.toLeafC
  have hadd : ∀ tid, Pres I (addDoneCallback tid TopCb.watch) := fun tid => S.addDone _ _ (by simp)
  have he := exec_presC S.toSpecCoreC
  have hh := handleMessage_presC S
  have hq := sigQuit_presC S
  have hsc := syncCoroutine_presC S.toSpecCoreC
  have hadv : ∀ ms ds, Pres I (updK fun k => k.advance ms ds) := fun ms ds => updK_pres L.toLeafK _ (fun k => KStep.advance k ms ds)
  have hdie : ∀ p st, Pres I (updK fun k => k.die p st) := fun p st => updK_pres L.toLeafK _ (fun k => KStep.die k p st)
  have hflt : ∀ n p st, Pres I (updK fun k => k.addFault n p st) := fun n p st => updK_pres L.toLeafK _ (fun k => KStep.addFault k n p st)
  cases op <;> simp only [stepOp] <;>
  aesop (add safe apply hadd, safe apply he, safe apply hh, safe apply hq, safe apply hsc, safe apply hadv, safe apply hdie, safe apply hflt) (rule_sets := [NoClose])
    (config := { terminal := true, useDefaultSimpSet := false, useSimpAll := false, maxRuleApplications := 3000 })

attribute [aesop safe apply (rule_sets := [NoClose])] LeafXC.emitRep LeafYC.setSlot LeafYC.pushTop LeafYC.finishTop LeafYC.topAddCb
  LeafYC.enqueue LeafYC.dequeue LeafXC.toLeafYC LeafYC.toLeafC

theorem newTop_presC (X : LeafYC I) (cbs : List TopCb) : Pres I (newTop cbs) := by
  have L := X.toLeafC
  unfold newTop; presc

theorem deliverCbs_presC (X : LeafYC I) (armed : Bool) (v : Val) (cbs : List TopCb) : Pres I (deliverCbs armed v cbs) := by
  have L := X.toLeafC
  have h : Pres I (runTopCb v TopCb.release) := by simp only [runTopCb]; exact X.setSlot _
  induction cbs with
  | nil => unfold deliverCbs; presc
  | cons cb rest ih =>
    unfold deliverCbs
    aesop (add safe apply h, safe apply ih) (rule_sets := [NoClose])
      (config := { terminal := true, useDefaultSimpSet := false, useSimpAll := false, maxRuleApplications := 3000 })

theorem deliverTop_presC (X : LeafYC I) (tid : Nat) (v : Val) : Pres I (deliverTop tid v) := by
  have L := X.toLeafC
  have h := deliverCbs_presC X
  unfold deliverTop
  aesop (add safe apply h) (rule_sets := [NoClose]) (config := { terminal := true, useDefaultSimpSet := false, useSimpAll := false, maxRuleApplications := 3000 })

theorem addDoneCallback_presC (X : LeafYC I) (tid : Nat) (cb : TopCb) : Pres I (addDoneCallback tid cb) := by
  have L := X.toLeafC
  unfold addDoneCallback; presc

theorem syncCoroutine_presxC (X : LeafYC I) (he : ∀ n t, Pres I (exec n t)) (name : String) (c : Call) (extra : List TopCb) :
    Pres I (syncCoroutine name c extra) := by
  have L := X.toLeafC
  have h := newTop_presC X
  unfold syncCoroutine
  aesop (add safe apply h, safe apply he) (rule_sets := [NoClose]) (config := { terminal := true, useDefaultSimpSet := false, useSimpAll := false, maxRuleApplications := 3000 })

theorem syncPlain_presxC (X : LeafYC I) {α : Type} (name : String) (body : M (R α)) (hb : Pres I body) :
    Pres I (syncPlain name body) := by
  have L := X.toLeafC
  unfold syncPlain
  aesop (add safe apply hb) (rule_sets := [NoClose]) (config := { terminal := true, useDefaultSimpSet := false, useSimpAll := false, maxRuleApplications := 3000 })

theorem setOpt_presC (L : LeafC I) (u : Nat) (k : String) (v : JVal) : Pres I (setOpt u k v) := by
  unfold setOpt; presc

theorem setOptBody_presC (L : LeafC I) (u : Nat) (k : String) (v : JVal) (b : Bool) : Pres I (setOptBody u k v b) := by
  have h := setOpt_presC L
  unfold setOptBody
  aesop (add safe apply h) (rule_sets := [NoClose]) (config := { terminal := true, useDefaultSimpSet := false, useSimpAll := false, maxRuleApplications := 3000 })

/-- the option values of `add` never touch the (empty) process list of the watcher being built -/
theorem applyAddOptions_pidsC (l : List (String × JVal)) :
    ∀ (w w2 : Watcher), applyAddOptions w l = some w2 → w2.pids = w.pids := by
  induction l with
  | nil => intro w w2 h; simp only [applyAddOptions, Option.some.injEq] at h; rw [← h]
  | cons kv rest ih =>
    intro w w2 h
    obtain ⟨k, v⟩ := kv
    simp only [applyAddOptions] at h
    split at h
    · rename_i w1 hw1
      have := ih w1 w2 h
      rw [this]
      split at hw1 <;> (try split at hw1) <;>
        first
        | (simp only [Option.some.injEq] at hw1; rw [← hw1])
        | (simp only [Option.map_eq_some_iff] at hw1; obtain ⟨n, _, hn⟩ := hw1; rw [← hn])
    · exact absurd h (by simp)

theorem addCore_presC (L : LeafC I) (p : JVal) : Pres I (addCore p) := by
  unfold addCore
  split <;> dsimp only <;> split
  all_goals first
    | (rename_i name _
       apply Pres.ite
       · presc
       · split
         · presc
         · rename_i w hw
           have hp : w.pids = [] := applyAddOptions_pidsC _ _ _ hw
           have hr := L.registerNew w hp
           aesop (add safe apply hr) (rule_sets := [NoClose]) (config := { terminal := true, useDefaultSimpSet := false, useSimpAll := false, maxRuleApplications := 3000 }))
    | presc


/-- slot-insensitive invariants: writer lemmas are enough (everything up to, but not including,
    the reply path and the event loop) -/
theorem SpecCoreC.ofLeafYC (X : LeafYC I) : SpecCoreC I where
  toLeafC := X.toLeafC
  deliverTop := deliverTop_presC X
  newTopNR := fun cbs _ => newTop_presC X cbs
  addDone := fun tid cb _ => addDoneCallback_presC X tid cb
  syncCo := fun he name c => syncCoroutine_presxC X he name c []
  syncSetOpt := fun u k v b => syncPlain_presxC X _ _ (setOptBody_presC X.toLeafC u k v b)
  syncAdd := fun p => syncPlain_presxC X _ _ (addCore_presC X.toLeafC p)


theorem SpecC.ofLeafXC (X : LeafXC I) : SpecC I where
  toSpecCoreC := SpecCoreC.ofLeafYC X.toLeafYC
  emitRep := X.emitRep

end
end Circus.Core
