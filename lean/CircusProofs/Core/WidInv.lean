import CircusProofs.Core.PidInv
import CircusProofs.Core.StoppedEmpty
/-!
`WidInv`: the wids (`Process.wid`, the `$(circus.wid)` of a worker) of the processes a watcher lists
are pairwise distinct and ≥ 1.

`spawnAdopt u wid` with an arbitrary `wid` breaks this, so it is an invariant of the weak chain
(Generic.lean): every writer of `LeafXR` keeps it, and the one place that adopts a process,
`spawn_process`, hands `spawnAdopt` the value of `nextWid w.np (usedWids u)` — an element of
`[1 .. 2·numprocesses]` that is not among the wids in use.  That the new pid has no `Process`
object yet, that every listed pid has one, and that `u` names one watcher object come from `PidInv`:
the invariant proved along all runs is the conjunction `PWInv = PidInv ∧ WidInv`.
-/
namespace Circus.Core

/-- the wid of the `Process` object of `pid` (0 when there is none), exactly as `usedWids` reads it -/
def widOf (s : State) (pid : Nat) : Nat := ((s.objs.find? (·.pid = pid)).map (·.wid)).getD 0

/-- the wids of the listed processes of every watcher object are pairwise distinct and positive -/
def WidInv (s : State) : Prop :=
  ∀ w ∈ s.ws, (w.pids.map (widOf s)).Nodup ∧ ∀ p ∈ w.pids, 1 ≤ widOf s p

theorem usedWids_eq (u : Nat) (s : State) : (usedWids u s).1 = (getW u s).1.pids.map (widOf s) := rfl

/-! ### what `widOf` depends on -/

def widOfL (l : List (Nat × Nat)) (pid : Nat) : Nat := ((l.find? (·.1 = pid)).map (·.2)).getD 0

def objView (s : State) : List (Nat × Nat) := s.objs.map fun o => (o.pid, o.wid)

theorem widOf_view (s : State) (pid : Nat) : widOf s pid = widOfL (objView s) pid := by
  unfold widOf widOfL objView
  induction s.objs with
  | nil => rfl
  | cons o os ih =>
    simp only [List.map_cons, List.find?_cons]
    by_cases h : o.pid = pid
    · simp [h]
    · simp only [h, decide_false]
      exact ih

theorem widOf_congr {s t : State} (h : objView t = objView s) : widOf t = widOf s := by
  funext pid
  rw [widOf_view, widOf_view, h]

/-- the watcher heap is rewritten object by object, only dropping pids; the `Process` heap keeps its
    (pid, wid) pairs -/
theorem WidInv.wsmap {s t : State} (h : WidInv s) (g : Watcher → Watcher)
    (hp : ∀ w, (g w).pids.Sublist w.pids) (hws : t.ws = s.ws.map g) (ho : objView t = objView s) :
    WidInv t := by
  intro w' hw'
  rw [hws] at hw'
  obtain ⟨w, hw, rfl⟩ := List.mem_map.mp hw'
  rw [widOf_congr ho]
  obtain ⟨h1, h2⟩ := h w hw
  exact ⟨List.Nodup.sublist ((hp w).map _) h1, fun p hpm => h2 p ((hp w).subset hpm)⟩

theorem WidInv.same {s t : State} (h : WidInv s) (hws : t.ws = s.ws) (ho : objView t = objView s) : WidInv t :=
  h.wsmap id (fun _ => List.Sublist.refl _) (by rw [hws, List.map_id]) ho

theorem wid_frame {m : M α} (h : ∀ s, (m s).2.ws = s.ws ∧ (m s).2.objs = s.objs) : Pres WidInv m := by
  intro s hs
  exact hs.same (h s).1 (by unfold objView; rw [(h s).2])

macro "wid_frame_tac" : tactic =>
  `(tactic| (apply wid_frame; intro s; first
      | (simp only [modS, modA, emit, emitEv, emitRep]; done)
      | (simp only [modS, modA, emit, emitEv, emitRep]; split <;> exact ⟨rfl, rfl⟩)
      | (simp [modS, modA, emit, emitEv, emitRep]; done)))

theorem wid_modW (u : Nat) (f : Watcher → Watcher) (hp : ∀ w, (f w).pids.Sublist w.pids) :
    Pres WidInv (modW u f) := by
  intro s hs
  refine hs.wsmap (fun w => if w.uid = u then f w else w) ?_ rfl rfl
  intro w; split
  · exact hp w
  · exact List.Sublist.refl _

theorem wid_modO (p : Nat) (f : PObj → PObj) (hf : ∀ o, (f o).pid = o.pid ∧ (f o).wid = o.wid) :
    Pres WidInv (modO p f) := by
  intro s hs
  refine hs.same rfl ?_
  simp only [objView, modO, modS, List.map_map]
  apply List.map_congr_left
  intro o _
  simp only [Function.comp]
  split
  · rw [(hf o).1, (hf o).2]
  · rfl

theorem wid_trySetNp (u : Nat) (n : Int) : Pres WidInv (trySetNp u n) := by
  intro s hs
  unfold trySetNp
  simp only
  generalize (if n < 0 then 0 else n) = n'
  by_cases h : (((s.ws.find? (·.uid = u)).getD defaultWatcher).singleton && decide (n' > 1)) = true
  · simp only [h, if_true]; exact hs
  · have h' := Bool.eq_false_iff.mpr h
    simp only [h', Bool.false_eq_true, if_false]
    refine hs.wsmap (fun w => if (w.uid = u && !(w.singleton && decide (n' > 1))) = true then { w with np := n' } else w)
      ?_ rfl rfl
    intro w; split <;> exact List.Sublist.refl _

theorem wid_registerNew (w : Watcher) (hw : w.pids = []) : Pres WidInv (registerNew w) := by
  intro s hs
  unfold registerNew registerChecked
  by_cases hlook : (s.a.names.lookup (pyLower (clampNp w).name)).isSome
  · simp only [hlook, if_true]; exact hs
  · have hl := Bool.eq_false_iff.mpr hlook
    simp only [hl, Bool.false_eq_true, if_false]
    by_cases hsing : ((clampNp w).singleton && !(decide ((clampNp w).np = 0) || decide ((clampNp w).np = 1))) = true
    · simp only [hsing, if_true]; exact hs
    · have hsg := Bool.eq_false_iff.mpr hsing
      simp only [hsg, Bool.false_eq_true, if_false]
      intro x hx
      rcases List.mem_append.mp hx with hx | hx
      · exact hs x hx
      · simp only [List.mem_cons, List.mem_nil_iff, or_false] at hx
        subst hx
        have hnew : ({ clampNp w with uid := s.nextId } : Watcher).pids = [] := by simp [clampNp, hw]
        rw [hnew]
        exact ⟨List.nodup_nil, fun p hp => by cases hp⟩

theorem wid_setStatus (u : Nat) (st : Status) : Pres WidInv (setStatus u st) :=
  wid_modW _ _ (fun _ => List.Sublist.refl _)

theorem widLeafW : LeafW WidInv where
  emit := fun o => by wid_frame_tac
  runK := fun f _ => by apply wid_frame; intro s; exact ⟨rfl, rfl⟩
  emitEv := fun w t p x => by wid_frame_tac
  popPid := fun u p => wid_modW _ _ (fun _ => List.filter_sublist)
  bumpHook := fun u h i => wid_modW _ _ (fun _ => List.Sublist.refl _)
  setObjStopping := fun p b => wid_modO _ _ (fun _ => ⟨rfl, rfl⟩)
  setRc := fun p rc => wid_modO _ _ (fun _ => ⟨rfl, rfl⟩)
  markBlocked := by unfold markBlocked; wid_frame_tac

/-- every writer a coroutine or `dispatch` may use anywhere keeps the wids distinct -/
theorem widLeafXR : LeafXR WidInv where
  toLeafW := widLeafW
  emitRep := fun c i a b d => by wid_frame_tac
  setStatus := fun u st _ => wid_setStatus u st
  trySetNp := wid_trySetNp
  setWOpt := fun u c => wid_modW _ _ (fun w => by rw [(applyOpt_uid_pids c w).2]; exact List.Sublist.refl _)
  freshId := by apply wid_frame; intro s; exact ⟨rfl, rfl⟩
  pushFrame := fun f => by unfold pushFrame; wid_frame_tac
  removeFrame := fun f => by unfold removeFrame; wid_frame_tac
  setFrameK := fun f k => by unfold setFrameK; wid_frame_tac
  armFrame := fun f => by unfold armFrame; wid_frame_tac
  pushSleeper := fun sl => by unfold pushSleeper; wid_frame_tac
  armTop := fun t => by unfold armTop; wid_frame_tac
  setStopping := by unfold setStopping; wid_frame_tac
  setRestarting := by unfold setRestarting; wid_frame_tac
  clearRestarting := fun b => by unfold clearRestarting; wid_frame_tac
  setLoopStop := fun b => by unfold setLoopStop; wid_frame_tac
  setSocketEvent := fun b => by unfold setSocketEvent; wid_frame_tac
  setSockReady := fun b => by unfold setSockReady; wid_frame_tac
  clearDone := by unfold clearDone; wid_frame_tac
  unregister := fun u => by unfold unregisterWatcher; wid_frame_tac
  registerNew := wid_registerNew
  fireSleeper := fun sl => by unfold fireSleeper; wid_frame_tac
  enqueueResume := fun k v w => by unfold enqueue; wid_frame_tac
  enqueueCallback := fun n => by unfold enqueue; wid_frame_tac
  setSlot := fun v => by unfold setSlot; wid_frame_tac
  pushTop := fun t => by unfold pushTop; wid_frame_tac
  finishTop := fun t v => by unfold finishTop; wid_frame_tac
  topAddCb := fun t cb => by unfold topAddCb; wid_frame_tac
  enqueue := fun r => by unfold enqueue; wid_frame_tac
  dequeue := by unfold dequeue; wid_frame_tac

/-! ### conjunctions of invariants -/

theorem Pres.and {I1 I2 : State → Prop} {m : M α} (h1 : Pres I1 m) (h2 : Pres I2 m) :
    Pres (fun s => I1 s ∧ I2 s) m := fun s h => ⟨h1 s h.1, h2 s h.2⟩

theorem LeafW.and {I1 I2 : State → Prop} (A : LeafW I1) (B : LeafW I2) : LeafW (fun s => I1 s ∧ I2 s) where
  emit := fun o => Pres.and (A.emit o) (B.emit o)
  runK := fun f hf => Pres.and (A.runK f hf) (B.runK f hf)
  emitEv := fun w t p x => Pres.and (A.emitEv w t p x) (B.emitEv w t p x)
  popPid := fun u p => Pres.and (A.popPid u p) (B.popPid u p)
  bumpHook := fun u h i => Pres.and (A.bumpHook u h i) (B.bumpHook u h i)
  setObjStopping := fun p b => Pres.and (A.setObjStopping p b) (B.setObjStopping p b)
  setRc := fun p rc => Pres.and (A.setRc p rc) (B.setRc p rc)
  markBlocked := Pres.and A.markBlocked B.markBlocked

/-- two invariants of the writers are one invariant of the writers -/
theorem LeafXR.and {I1 I2 : State → Prop} (A : LeafXR I1) (B : LeafXR I2) : LeafXR (fun s => I1 s ∧ I2 s) where
  toLeafW := LeafW.and A.toLeafW B.toLeafW
  emitRep := fun c i a b d => Pres.and (A.emitRep c i a b d) (B.emitRep c i a b d)
  setStatus := fun u st h => Pres.and (A.setStatus u st h) (B.setStatus u st h)
  trySetNp := fun u n => Pres.and (A.trySetNp u n) (B.trySetNp u n)
  setWOpt := fun u c => Pres.and (A.setWOpt u c) (B.setWOpt u c)
  freshId := Pres.and A.freshId B.freshId
  pushFrame := fun f => Pres.and (A.pushFrame f) (B.pushFrame f)
  removeFrame := fun f => Pres.and (A.removeFrame f) (B.removeFrame f)
  setFrameK := fun f k => Pres.and (A.setFrameK f k) (B.setFrameK f k)
  armFrame := fun f => Pres.and (A.armFrame f) (B.armFrame f)
  pushSleeper := fun sl => Pres.and (A.pushSleeper sl) (B.pushSleeper sl)
  armTop := fun t => Pres.and (A.armTop t) (B.armTop t)
  setStopping := Pres.and A.setStopping B.setStopping
  setRestarting := Pres.and A.setRestarting B.setRestarting
  clearRestarting := fun b => Pres.and (A.clearRestarting b) (B.clearRestarting b)
  setLoopStop := fun b => Pres.and (A.setLoopStop b) (B.setLoopStop b)
  setSocketEvent := fun b => Pres.and (A.setSocketEvent b) (B.setSocketEvent b)
  setSockReady := fun b => Pres.and (A.setSockReady b) (B.setSockReady b)
  clearDone := Pres.and A.clearDone B.clearDone
  unregister := fun u => Pres.and (A.unregister u) (B.unregister u)
  registerNew := fun w h => Pres.and (A.registerNew w h) (B.registerNew w h)
  fireSleeper := fun sl => Pres.and (A.fireSleeper sl) (B.fireSleeper sl)
  enqueueResume := fun k v w => Pres.and (A.enqueueResume k v w) (B.enqueueResume k v w)
  enqueueCallback := fun n => Pres.and (A.enqueueCallback n) (B.enqueueCallback n)
  setSlot := fun v => Pres.and (A.setSlot v) (B.setSlot v)
  pushTop := fun t => Pres.and (A.pushTop t) (B.pushTop t)
  finishTop := fun t v => Pres.and (A.finishTop t v) (B.finishTop t v)
  topAddCb := fun t cb => Pres.and (A.topAddCb t cb) (B.topAddCb t cb)
  enqueue := fun r => Pres.and (A.enqueue r) (B.enqueue r)
  dequeue := Pres.and A.dequeue B.dequeue

/-! ### pid accounting and wids together -/

def PWInv (s : State) : Prop := PidInv s ∧ WidInv s

theorem pwLeafXR : LeafXR PWInv := LeafXR.and pidLeafX.toLeafXR widLeafXR

/-- `_nextwid` returns a positive number that is not in use -/
theorem nextWid_spec {np : Int} {used : List Nat} {wid : Nat} (h : nextWid np used = some wid) :
    1 ≤ wid ∧ wid ∉ used := by
  unfold nextWid at h
  have h1 := List.find?_some h
  have h2 := List.mem_of_find?_eq_some h
  obtain ⟨i, _, rfl⟩ := List.mem_map.mp h2
  refine ⟨by omega, ?_⟩
  simpa using h1

def widOfO (objs : List PObj) (pid : Nat) : Nat := ((objs.find? (·.pid = pid)).map (·.wid)).getD 0

/-- a new `Process` object does not change the wid of a pid that already has one … -/
theorem widOfO_append_old (objs : List PObj) (n : PObj) (p : Nat) (hp : p ∈ objs.map (·.pid)) :
    widOfO (objs ++ [n]) p = widOfO objs p := by
  unfold widOfO
  rw [List.find?_append]
  obtain ⟨o, ho, hop⟩ := List.mem_map.mp hp
  cases hf : objs.find? (fun x => decide (x.pid = p)) with
  | none =>
    have := List.find?_eq_none.mp hf o ho
    simp [hop] at this
  | some o' => rfl

/-- … and gives its own to a pid that had none -/
theorem widOfO_append_new (objs : List PObj) (n : PObj) (hp : n.pid ∉ objs.map (·.pid)) :
    widOfO (objs ++ [n]) n.pid = n.wid := by
  unfold widOfO
  rw [List.find?_append]
  have hf : objs.find? (fun x => decide (x.pid = n.pid)) = none := by
    apply List.find?_eq_none.mpr
    intro o ho
    simp only [decide_eq_true_eq]
    intro h
    exact hp (List.mem_map.mpr ⟨o, ho, h⟩)
  rw [hf]
  simp

/-- `spawnAdopt` with the wid `_nextwid` chose -/
theorem pw_spawnAdopt (u wid : Nat) (s : State) (hI : PWInv s)
    (hwid : nextWid (getW u s).1.np (usedWids u s).1 = some wid) : PWInv (spawnAdopt u wid s).2 := by
  refine ⟨pid_spawnAdopt u wid s hI.1, ?_⟩
  obtain ⟨hP, hW⟩ := hI
  obtain ⟨hw1, hwn⟩ := nextWid_spec hwid
  cases hr : (s.k.spawn).2 with
  | none =>
    rw [spawnAdopt_none u wid s hr]
    exact hW.same rfl rfl
  | some pid =>
    rw [spawnAdopt_some u wid s pid hr]
    obtain ⟨hpid, _⟩ := spawn_some (k := s.k) (k' := (s.k.spawn).1) (pid := pid) (by rw [← hr])
    have hnoobj : pid ∉ s.objs.map (·.pid) := by
      intro hm
      obtain ⟨o, ho, hop⟩ := List.mem_map.mp hm
      have := hP.objLt o ho
      omega
    intro w' hw'
    simp only at hw'
    obtain ⟨w, hw, rfl⟩ := List.mem_map.mp hw'
    -- wids of the pids `w` listed before are unchanged
    have hold : ∀ p ∈ w.pids, widOfO (s.objs ++ [{ pid := pid, wid := wid, started := s.k.now }]) p = widOf s p :=
      fun p hp => widOfO_append_old s.objs _ p (hP.listedObj w hw p hp)
    have hnew : widOfO (s.objs ++ [{ pid := pid, wid := wid, started := s.k.now }]) pid = wid :=
      widOfO_append_new s.objs { pid := pid, wid := wid, started := s.k.now } hnoobj
    obtain ⟨h1, h2⟩ := hW w hw
    have hmap : w.pids.map (widOfO (s.objs ++ [{ pid := pid, wid := wid, started := s.k.now }])) = w.pids.map (widOf s) :=
      List.map_congr_left hold
    by_cases hu : w.uid = u
    · rw [if_pos hu]
      show ((w.pids ++ [pid]).map (widOfO _)).Nodup ∧ ∀ p ∈ w.pids ++ [pid], 1 ≤ widOfO _ p
      have hwg : (getW u s).1 = w := by rw [← hu]; exact getW_of_mem hP.uidNodup hw
      rw [usedWids_eq, hwg] at hwn
      refine ⟨?_, ?_⟩
      · rw [List.map_append, hmap, List.map_cons, List.map_nil, hnew, List.nodup_append]
        refine ⟨h1, by simp, ?_⟩
        intro a ha b hb
        simp only [List.mem_cons, List.mem_nil_iff, or_false] at hb
        subst hb
        intro hab
        subst hab
        exact hwn ha
      · intro p hp
        rcases List.mem_append.mp hp with hp | hp
        · rw [hold p hp]; exact h2 p hp
        · simp only [List.mem_cons, List.mem_nil_iff, or_false] at hp
          subst hp
          rw [hnew]; exact hw1
    · rw [if_neg hu]
      show (w.pids.map (widOfO _)).Nodup ∧ ∀ p ∈ w.pids, 1 ≤ widOfO _ p
      rw [hmap]
      exact ⟨h1, fun p hp => by rw [hold p hp]; exact h2 p hp⟩

theorem pw_spawnTail (rec : Rec) (hrec : ∀ t, Pres PWInv (rec t)) (u pid now : Nat) :
    Pres PWInv (spawnTail rec u pid now) := by
  have X := pwLeafXR
  have Y := X.toLeafYR
  have L := Y.toLeafR
  have hnew : ∀ cbs, Pres PWInv (newTop cbs) := newTop_presR Y
  unfold spawnTail
  aesop (add safe apply hrec, safe apply hnew) (rule_sets := [Pres])
    (config := { terminal := true, useDefaultSimpSet := false, useSimpAll := false, maxRuleApplications := 3000 })

theorem pw_spawnTry (rec : Rec) (hrec : ∀ t, Pres PWInv (rec t)) (u n : Nat) (s : State)
    (hs : PWInv s) : PWInv (spawnTry rec u n s).2 := by
  induction n generalizing s with
  | zero => exact hs
  | succ n ih =>
    unfold spawnTry
    simp only [bind]
    have h1 : (getW u s).2 = s := rfl
    have h2 : (usedWids u s).2 = s := rfl
    rw [h1, h2]
    cases hw : nextWid (getW u s).1.np (usedWids u s).1 with
    | none => exact hs
    | some wid =>
      simp only
      have h3 : (nowMs s).2 = s := rfl
      rw [h3]
      have ha := pw_spawnAdopt u wid s hs hw
      cases hsp : spawnAdopt u wid s with
      | mk p s2 =>
        rw [hsp] at ha
        cases p with
        | none => exact ih s2 ha
        | some pid => exact pw_spawnTail rec hrec u pid (nowMs s).1 s2 ha

/-- `spawn_process`: the wid comes from `_nextwid` over the wids in use -/
theorem pw_spawnProcess (rec : Rec) (hrec : ∀ t, Pres PWInv (rec t)) (u : Nat) : Pres PWInv (spawnProcess rec u) := by
  intro s hs
  unfold spawnProcess
  simp only [bind]
  have h1 : (getW u s).2 = s := rfl
  rw [h1]
  by_cases hst : (getW u s).1.status = .stopped
  · erw [if_pos hst]; exact hs
  · erw [if_neg hst]
    have hs1 : PWInv (callHook u "before_spawn" s).2 := callHook_pres pwLeafXR.toLeafW u "before_spawn" s hs
    by_cases hr : (!(callHook u "before_spawn" s).1) = true
    · erw [if_pos hr]; exact hs1
    · erw [if_neg hr]
      exact pw_spawnTry rec hrec u _ _ hs1

theorem pwSpecR : SpecR PWInv :=
  SpecR.ofLeafXR pwLeafXR pw_spawnProcess
    (fun u => Pres.and (stopCore_of pidLeafW (fun u => pidLeafX.setStatus u .stopped) u)
      (stopCore_of widLeafW (fun u => wid_setStatus u .stopped) u))
    (fun u => Pres.and (guardedStop_of (fun u => pidLeafX.setStatus u .stopped) u)
      (guardedStop_of (fun u => wid_setStatus u .stopped) u))
    (stopController_of pwLeafXR.toLeafR
      (Pres.and pidLeafX.setClosed (by unfold setClosed; wid_frame_tac)))

theorem pwInv_run (s : State) (ops : List Op) (h : PWInv s) : PWInv (run s ops) :=
  run_presR pwSpecR s ops h

theorem widInv_init (cfg : List Watcher) (bs : List Behav) (aw : Nat) (hcfg : ∀ w ∈ cfg, w.pids = []) :
    WidInv (initState cfg bs aw) := by
  have key : ∀ (l : List Watcher) (n : Nat), (∀ w ∈ l, w.pids = []) → ∀ w ∈ assignUids l n, w.pids = [] := by
    intro l
    induction l with
    | nil => intro n _ w hw; cases hw
    | cons x xs ih =>
      intro n h w hw
      simp only [assignUids, List.mem_cons] at hw
      rcases hw with rfl | hw
      · exact h x (by simp)
      · exact ih (n + 1) (fun w hw => h w (by simp [hw])) w hw
  intro w hw
  have : w.pids = [] := key cfg 1 hcfg w hw
  rw [this]
  exact ⟨List.nodup_nil, fun p hp => by cases hp⟩

/-- wids of listed workers are pairwise distinct and positive along every run -/
theorem widInv_run (cfg : List Watcher) (bs : List Behav) (aw : Nat) (hcfg : ∀ w ∈ cfg, w.pids = [])
    (ops : List Op) : WidInv (run (initState cfg bs aw) ops) :=
  (pwInv_run _ ops ⟨pidInv_init cfg bs aw hcfg, widInv_init cfg bs aw hcfg⟩).2

end Circus.Core
