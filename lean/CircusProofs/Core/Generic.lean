import CircusProofs.Core.Pres
import CircusProofs.Core.KStep
import CircusProofs.Core.PresAttr
/-!
Generic preservation: every function of the core model preserves any invariant `I` that is
preserved by the named state writers (`Leaf I`) and by a handful of composite operations that
deal with the exclusive slot and the watcher directory (`Spec I`).  Proved once here; each
invariant then only supplies its `Spec`.
-/
namespace Circus.Core

/-- the writers kernel wrappers use -/
structure LeafK (I : State → Prop) : Prop where
  emit : ∀ o, Pres I (emit o)
  runK : ∀ {α : Type} (f : Kernel → Kernel × α), KOp f → Pres I (runK f)

/-- the writers the synchronous watcher functions use (no suspension, no spawn) -/
structure LeafW (I : State → Prop) : Prop extends LeafK I where
  emitEv : ∀ w t p x, Pres I (emitEv w t p x)
  popPid : ∀ u p, Pres I (popPid u p)
  bumpHook : ∀ u h i, Pres I (bumpHook u h i)
  setObjStopping : ∀ p b, Pres I (setObjStopping p b)
  setRc : ∀ p rc, Pres I (setRc p rc)
  markBlocked : Pres I markBlocked

/-- writers that touch neither the exclusive slot, nor top-level futures, nor the directory -/
structure Leaf (I : State → Prop) : Prop extends LeafW I where
  setStatus : ∀ u st, Pres I (setStatus u st)
  trySetNp : ∀ u n, Pres I (trySetNp u n)
  spawnAdopt : ∀ u w, Pres I (spawnAdopt u w)
  setWOpt : ∀ u c, Pres I (setWOpt u c)
  freshId : Pres I freshId
  pushFrame : ∀ f, Pres I (pushFrame f)
  removeFrame : ∀ f, Pres I (removeFrame f)
  setFrameK : ∀ f k, Pres I (setFrameK f k)
  armFrame : ∀ f, Pres I (armFrame f)
  pushSleeper : ∀ sl, Pres I (pushSleeper sl)
  armTop : ∀ t, Pres I (armTop t)
  setClosed : Pres I setClosed
  setStopping : Pres I setStopping
  setRestarting : Pres I setRestarting
  setLoopStop : ∀ b, Pres I (setLoopStop b)
  setSocketEvent : ∀ b, Pres I (setSocketEvent b)
  setSockReady : ∀ b, Pres I (setSockReady b)
  clearDone : Pres I clearDone
  unregister : ∀ u, Pres I (unregisterWatcher u)
  registerNew : ∀ w, w.pids = [] → Pres I (registerNew w)    -- a new watcher object lists no process
  fireSleeper : ∀ sl, Pres I (fireSleeper sl)
  enqueueResume : ∀ k v w, Pres I (enqueue (.resume k v w))
  enqueueCallback : ∀ n, Pres I (enqueue (.callback n))

/-- composite operations around the exclusive slot and top-level futures -/
structure SpecCore (I : State → Prop) : Prop extends Leaf I where
  deliverTop : ∀ tid v, Pres I (deliverTop tid v)
  newTopNR : ∀ cbs, TopCb.release ∉ cbs → Pres I (newTop cbs)
  addDone : ∀ tid cb, cb ≠ TopCb.release → Pres I (addDoneCallback tid cb)
  syncCo : (∀ n t, Pres I (exec n t)) → ∀ name c, Pres I (syncCoroutine name c [])
  syncSetOpt : ∀ u key val len, Pres I (syncPlain "watcher_set_opt" (setOptBody u key val len))
  syncAdd : ∀ props, Pres I (syncPlain "arbiter_add_watcher" (addCore props))

/-- … plus what only the reply path and the event loop need -/
structure Spec (I : State → Prop) : Prop extends SpecCore I where
  emitRep : ∀ c i a b d, Pres I (emitRep c i a b d)
  settleStep : (∀ n t, Pres I (exec n t)) → Pres I sigQuit → Pres I settleStep

attribute [aesop safe apply (rule_sets := [Pres])] Pres.pure Pres.getS Pres.getK Pres.getA Pres.getW Pres.getO Pres.nowMs
attribute [aesop safe apply (rule_sets := [Pres])] Pres.bind Pres.ite Pres.for_in
attribute [aesop safe apply (rule_sets := [Pres])] LeafK.emit Leaf.setStatus Leaf.trySetNp Leaf.spawnAdopt LeafW.popPid
  LeafW.bumpHook Leaf.setWOpt LeafW.setObjStopping LeafW.setRc LeafW.markBlocked LeafW.emitEv Leaf.freshId Leaf.pushFrame
  Leaf.removeFrame Leaf.setFrameK Leaf.armFrame Leaf.pushSleeper Leaf.armTop Leaf.setClosed Leaf.setStopping
  Leaf.setRestarting Leaf.setLoopStop Leaf.setSocketEvent Leaf.setSockReady Leaf.clearDone Leaf.unregister Leaf.fireSleeper
  Leaf.enqueueResume Leaf.enqueueCallback
attribute [aesop safe apply (rule_sets := [Pres])] SpecCore.deliverTop SpecCore.syncSetOpt SpecCore.syncAdd

attribute [aesop safe apply (rule_sets := [Pres])] LeafW.toLeafK Leaf.toLeafW SpecCore.toLeaf Spec.toSpecCore

macro "pres" : tactic => `(tactic| aesop (rule_sets := [Pres]) (config := { terminal := true, useDefaultSimpSet := false, useSimpAll := false, maxRuleApplications := 3000 }))

section
variable {I : State → Prop}

/-! ### kernel wrappers -/
theorem updK_pres (L : LeafK I) (f : Kernel → Kernel) (hf : ∀ k, KStep k (f k)) : Pres I (updK f) :=
  L.runK _ hf
@[aesop safe apply (rule_sets := [Pres])]
theorem runK_kill (L : LeafK I) (pid sig : Nat) : Pres I (runK fun k => Kernel.kill k pid sig) := L.runK _ (KStep.kill pid sig)
@[aesop safe apply (rule_sets := [Pres])]
theorem runK_waitpid (L : LeafK I) (pid : Option Nat) : Pres I (runK fun k => Kernel.waitpid k pid) := L.runK _ (KStep.waitpid pid)
@[aesop safe apply (rule_sets := [Pres])]
theorem kKill_pres (L : LeafK I) (pid sig : Nat) (via : String) : Pres I (kKill pid sig via) := by
  unfold kKill; pres
@[aesop safe apply (rule_sets := [Pres])]
theorem kWaitpid_pres (L : LeafK I) (pid : Option Nat) : Pres I (kWaitpid pid) := by
  unfold kWaitpid; pres
@[aesop safe apply (rule_sets := [Pres])]
theorem kStateOf_pres (L : LeafK I) (pid : Nat) : Pres I (kStateOf pid) := L.runK _ (KStep.stateOf pid)
@[aesop safe apply (rule_sets := [Pres])]
theorem kChildren_pres (L : LeafK I) (pid : Nat) (r : Bool) : Pres I (kChildren pid r) := L.runK _ (KStep.children pid r)
@[aesop safe apply (rule_sets := [Pres])]
theorem kSleep_pres (L : LeafK I) (ms : Nat) : Pres I (kSleep ms) := updK_pres L _ (fun k => KStep.sleep k ms)

/-! ### watcher.py, synchronous part -/
@[aesop safe apply (rule_sets := [Pres])]
theorem notify_pres (L : LeafW I) (u : Nat) (t : String) (p : Option Nat) (x : String) : Pres I (notify u t p x) := by
  unfold notify; pres
@[aesop safe apply (rule_sets := [Pres])]
theorem callHook_pres (L : LeafW I) (u : Nat) (h : String) : Pres I (callHook u h) := by
  unfold callHook; pres
@[aesop safe apply (rule_sets := [Pres])]
theorem procStatus_pres (L : LeafW I) (pid : Nat) : Pres I (procStatus pid) := by
  unfold procStatus; pres
@[aesop safe apply (rule_sets := [Pres])]
theorem isAlive_pres (L : LeafW I) (pid : Nat) : Pres I (isAlive pid) := by
  unfold isAlive; pres
@[aesop safe apply (rule_sets := [Pres])]
theorem objStop_pres (L : LeafW I) (pid : Nat) : Pres I (objStop pid) := by
  unfold objStop; pres
@[aesop safe apply (rule_sets := [Pres])]
theorem sendSignal_pres (L : LeafW I) (u p sg : Nat) : Pres I (sendSignal u p sg) := by
  unfold sendSignal; pres
@[aesop safe apply (rule_sets := [Pres])]
theorem sendSignalChild_pres (L : LeafW I) (p c sg : Nat) : Pres I (sendSignalChild p c sg) := by
  unfold sendSignalChild; pres
@[aesop safe apply (rule_sets := [Pres])]
theorem sendSignalProcess_pres (L : LeafW I) (u p sg : Nat) (r : Bool) : Pres I (sendSignalProcess u p sg r) := by
  unfold sendSignalProcess; pres
@[aesop safe apply (rule_sets := [Pres])]
theorem activeProcs_pres (L : LeafW I) (u : Nat) : Pres I (activeProcs u) := by
  unfold activeProcs; pres
@[aesop safe apply (rule_sets := [Pres])]
theorem setBlocked_pres (L : LeafW I) : Pres I setBlocked := by
  unfold setBlocked; pres

@[aesop safe apply (rule_sets := [Pres])]
theorem reapWait_pres (L : LeafW I) (pid fuel : Nat) : Pres I (reapWait pid fuel) := by
  induction fuel with
  | zero => unfold reapWait; pres
  | succ n ih => unfold reapWait; aesop (add safe apply ih) (rule_sets := [Pres]) (config := { terminal := true, useDefaultSimpSet := false, useSimpAll := false, maxRuleApplications := 3000 })
@[aesop safe apply (rule_sets := [Pres])]
theorem reapTail_pres (L : LeafW I) (u p : Nat) (st : Option Nat) : Pres I (reapTail u p st) := by
  unfold reapTail; pres
@[aesop safe apply (rule_sets := [Pres])]
theorem reapProcess_pres (L : LeafW I) (u p : Nat) (st : Option Nat) : Pres I (reapProcess u p st) := by
  unfold reapProcess; pres
@[aesop safe apply (rule_sets := [Pres])]
theorem reapProcesses_pres (L : LeafW I) (u : Nat) : Pres I (reapProcesses u) := by
  unfold reapProcesses; pres
@[aesop safe apply (rule_sets := [Pres])]
theorem usedWids_pres (L : LeafW I) (u : Nat) : Pres I (usedWids u) := by
  unfold usedWids; pres
@[aesop safe apply (rule_sets := [Pres])]
theorem arbReapLoop_pres (L : LeafW I) (pm : List (Nat × Nat)) (fuel : Nat) : Pres I (arbReapLoop pm fuel) := by
  induction fuel with
  | zero => unfold arbReapLoop; pres
  | succ n ih => unfold arbReapLoop; aesop (add safe apply ih) (rule_sets := [Pres]) (config := { terminal := true, useDefaultSimpSet := false, useSimpAll := false, maxRuleApplications := 3000 })
@[aesop safe apply (rule_sets := [Pres])]
theorem registered_pres (L : LeafW I) : Pres I registered := by
  unfold registered; pres
@[aesop safe apply (rule_sets := [Pres])]
theorem iterWatchers_pres (L : LeafW I) (r : Bool) : Pres I (iterWatchers r) := by
  unfold iterWatchers; pres
@[aesop safe apply (rule_sets := [Pres])]
theorem arbReapProcesses_pres (L : LeafW I) : Pres I arbReapProcesses := by
  unfold arbReapProcesses; pres

/-! ### Interp -/
@[aesop safe apply (rule_sets := [Pres])]
theorem newFrame_pres (L : Leaf I) (k : Kont) (p : Waiter) : Pres I (newFrame k p) := by
  unfold newFrame; pres
@[aesop safe apply (rule_sets := [Pres])]
theorem addSleeper_pres (L : Leaf I) (ms : Nat) (w : Waiter) : Pres I (addSleeper ms w) := by
  unfold addSleeper; pres
@[aesop safe apply (rule_sets := [Pres])]
theorem sendReply_pres (L : Leaf I) (hrep : ∀ c i a b d, Pres I (emitRep c i a b d))
    (cid : Option String) (id : JVal) (c : Bool) (a b d : String) :
    Pres I (sendReply cid id c a b d) := by
  unfold sendReply
  aesop (add safe apply hrep) (rule_sets := [Pres])
    (config := { terminal := true, useDefaultSimpSet := false, useSimpAll := false, maxRuleApplications := 3000 })
@[aesop safe apply (rule_sets := [Pres])]
theorem stopController_pres (L : Leaf I) : Pres I stopController := by
  unfold stopController; pres

@[aesop safe apply (rule_sets := [Pres])]
theorem multiCollect_pres (L : Leaf I) (rec : Rec) (hrec : ∀ t, Pres I (rec t)) (f sl : Nat) (v : Val) :
    Pres I (multiCollect rec f sl v) := by
  unfold multiCollect; aesop (add safe apply hrec) (rule_sets := [Pres]) (config := { terminal := true, useDefaultSimpSet := false, useSimpAll := false, maxRuleApplications := 3000 })

@[aesop safe apply (rule_sets := [Pres])]
theorem deliver_pres (S : SpecCore I) (rec : Rec) (hrec : ∀ t, Pres I (rec t)) (w : Waiter) (v : Val) :
    Pres I (deliver rec w v) := by
  have L := S.toLeaf
  unfold deliver; aesop (add safe apply hrec) (rule_sets := [Pres]) (config := { terminal := true, useDefaultSimpSet := false, useSimpAll := false, maxRuleApplications := 3000 })

@[aesop safe apply (rule_sets := [Pres])]
theorem await_pres (S : SpecCore I) (rec : Rec) (hrec : ∀ t, Pres I (rec t)) (c : Call) (k : Kont) (p : Waiter) :
    Pres I (await rec c k p) := by
  have L := S.toLeaf
  unfold await; aesop (add safe apply hrec) (rule_sets := [Pres]) (config := { terminal := true, useDefaultSimpSet := false, useSimpAll := false, maxRuleApplications := 3000 })
@[aesop safe apply (rule_sets := [Pres])]
theorem awaitSleep_pres (L : Leaf I) (ms : Nat) (k : Kont) (p : Waiter) : Pres I (awaitSleep ms k p) := by
  unfold awaitSleep; pres
@[aesop safe apply (rule_sets := [Pres])]
theorem awaitMulti_pres (S : SpecCore I) (rec : Rec) (hrec : ∀ t, Pres I (rec t)) (cs : List Call) (k : Kont) (p : Waiter) :
    Pres I (awaitMulti rec cs k p) := by
  have L := S.toLeaf
  unfold awaitMulti; aesop (add safe apply hrec) (rule_sets := [Pres]) (config := { terminal := true, useDefaultSimpSet := false, useSimpAll := false, maxRuleApplications := 3000 })

/-! ### coroutine bodies (open recursion through `rec`) -/
@[aesop safe apply (rule_sets := [Pres])]
theorem popStrict_pres (L : Leaf I) (u p : Nat) : Pres I (popStrict u p) := by
  unfold popStrict; pres
@[aesop safe apply (rule_sets := [Pres])]
theorem pubBefore_pres (L : Leaf I) (u : Nat) : Pres I (pubBefore u) := by
  unfold pubBefore; pres
@[aesop safe apply (rule_sets := [Pres])]
theorem spawnTry_pres (S : SpecCore I) (rec : Rec) (hrec : ∀ t, Pres I (rec t)) (wuid n : Nat) : Pres I (spawnTry rec wuid n) := by
  have L := S.toLeaf
  have hnt : Pres I (newTop [TopCb.popProc wuid 0]) → True := fun _ => trivial
  induction n with
  | zero => unfold spawnTry; pres
  | succ n ih =>
    unfold spawnTry
    have hnew : ∀ pid, Pres I (newTop [TopCb.popProc wuid pid]) := fun pid => S.newTopNR _ (by simp)
    aesop (add safe apply ih, safe apply hrec, safe apply hnew) (rule_sets := [Pres]) (config := { terminal := true, useDefaultSimpSet := false, useSimpAll := false, maxRuleApplications := 3000 })
@[aesop safe apply (rule_sets := [Pres])]
theorem killFinish_pres (S : SpecCore I) (rec : Rec) (hrec : ∀ t, Pres I (rec t)) (wuid pid : Nat) (esc : Bool) (wt : Waiter) : Pres I (killFinish rec wuid pid esc wt) := by
  have L := S.toLeaf
  unfold killFinish; aesop (add safe apply hrec) (rule_sets := [Pres]) (config := { terminal := true, useDefaultSimpSet := false, useSimpAll := false, maxRuleApplications := 3000 })
@[aesop safe apply (rule_sets := [Pres])]
theorem killLoop_pres (S : SpecCore I) (rec : Rec) (hrec : ∀ t, Pres I (rec t)) (wuid pid sig i polls : Nat) (wt : Waiter) : Pres I (killLoop rec wuid pid sig i polls wt) := by
  have L := S.toLeaf
  unfold killLoop; aesop (add safe apply hrec) (rule_sets := [Pres]) (config := { terminal := true, useDefaultSimpSet := false, useSimpAll := false, maxRuleApplications := 3000 })
@[aesop safe apply (rule_sets := [Pres])]
theorem killProcess_pres (S : SpecCore I) (rec : Rec) (hrec : ∀ t, Pres I (rec t)) (wuid pid : Nat) (sig gt : Option Nat) (wt : Waiter) : Pres I (killProcess rec wuid pid sig gt wt) := by
  have L := S.toLeaf
  unfold killProcess; aesop (add safe apply hrec) (rule_sets := [Pres]) (config := { terminal := true, useDefaultSimpSet := false, useSimpAll := false, maxRuleApplications := 3000 })
@[aesop safe apply (rule_sets := [Pres])]
theorem killProcesses_pres (S : SpecCore I) (rec : Rec) (hrec : ∀ t, Pres I (rec t)) (wuid : Nat) (sig gt : Option Nat) (wt : Waiter) : Pres I (killProcesses rec wuid sig gt wt) := by
  have L := S.toLeaf
  unfold killProcesses; aesop (add safe apply hrec) (rule_sets := [Pres]) (config := { terminal := true, useDefaultSimpSet := false, useSimpAll := false, maxRuleApplications := 3000 })
@[aesop safe apply (rule_sets := [Pres])]
theorem stopW_pres (S : SpecCore I) (rec : Rec) (hrec : ∀ t, Pres I (rec t)) (wuid : Nat) (close : Bool) (wt : Waiter) : Pres I (stopW rec wuid close wt) := by
  have L := S.toLeaf
  unfold stopW; aesop (add safe apply hrec) (rule_sets := [Pres]) (config := { terminal := true, useDefaultSimpSet := false, useSimpAll := false, maxRuleApplications := 3000 })
@[aesop safe apply (rule_sets := [Pres])]
theorem stopAfterKill_pres (S : SpecCore I) (rec : Rec) (hrec : ∀ t, Pres I (rec t)) (wuid : Nat) (close : Bool) (wt : Waiter) : Pres I (stopAfterKill rec wuid close wt) := by
  have L := S.toLeaf
  unfold stopAfterKill; aesop (add safe apply hrec) (rule_sets := [Pres]) (config := { terminal := true, useDefaultSimpSet := false, useSimpAll := false, maxRuleApplications := 3000 })
@[aesop safe apply (rule_sets := [Pres])]
theorem spawnProcess_pres (S : SpecCore I) (rec : Rec) (hrec : ∀ t, Pres I (rec t)) (wuid : Nat) : Pres I (spawnProcess rec wuid) := by
  have L := S.toLeaf
  unfold spawnProcess; aesop (add safe apply hrec) (rule_sets := [Pres]) (config := { terminal := true, useDefaultSimpSet := false, useSimpAll := false, maxRuleApplications := 3000 })
@[aesop safe apply (rule_sets := [Pres])]
theorem pendingSocketEvent_pres (L : Leaf I) (u : Nat) : Pres I (pendingSocketEvent u) := by
  unfold pendingSocketEvent; pres
@[aesop safe apply (rule_sets := [Pres])]
theorem spawnLoop_pres (S : SpecCore I) (rec : Rec) (hrec : ∀ t, Pres I (rec t)) (wuid rem : Nat) (wt : Waiter) : Pres I (spawnLoop rec wuid rem wt) := by
  have L := S.toLeaf
  unfold spawnLoop; aesop (add safe apply hrec) (rule_sets := [Pres]) (config := { terminal := true, useDefaultSimpSet := false, useSimpAll := false, maxRuleApplications := 3000 })
@[aesop safe apply (rule_sets := [Pres])]
theorem spawnProcesses_pres (S : SpecCore I) (rec : Rec) (hrec : ∀ t, Pres I (rec t)) (wuid : Nat) (wt : Waiter) : Pres I (spawnProcesses rec wuid wt) := by
  have L := S.toLeaf
  unfold spawnProcesses; aesop (add safe apply hrec) (rule_sets := [Pres]) (config := { terminal := true, useDefaultSimpSet := false, useSimpAll := false, maxRuleApplications := 3000 })
@[aesop safe apply (rule_sets := [Pres])]
theorem popKilled_pres (S : SpecCore I) (rec : Rec) (hrec : ∀ t, Pres I (rec t)) (wuid : Nat) (tk : List Nat) (v : Val) (wt : Waiter) : Pres I (popKilled rec wuid tk v wt) := by
  have L := S.toLeaf
  unfold popKilled; aesop (add safe apply hrec) (rule_sets := [Pres]) (config := { terminal := true, useDefaultSimpSet := false, useSimpAll := false, maxRuleApplications := 3000 })
@[aesop safe apply (rule_sets := [Pres])]
theorem manageTail_pres (S : SpecCore I) (rec : Rec) (hrec : ∀ t, Pres I (rec t)) (wuid : Nat) (wt : Waiter) : Pres I (manageTail rec wuid wt) := by
  have L := S.toLeaf
  unfold manageTail; aesop (add safe apply hrec) (rule_sets := [Pres]) (config := { terminal := true, useDefaultSimpSet := false, useSimpAll := false, maxRuleApplications := 3000 })
@[aesop safe apply (rule_sets := [Pres])]
theorem manageAfterExpire_pres (S : SpecCore I) (rec : Rec) (hrec : ∀ t, Pres I (rec t)) (wuid : Nat) (wt : Waiter) : Pres I (manageAfterExpire rec wuid wt) := by
  have L := S.toLeaf
  unfold manageAfterExpire; aesop (add safe apply hrec) (rule_sets := [Pres]) (config := { terminal := true, useDefaultSimpSet := false, useSimpAll := false, maxRuleApplications := 3000 })
@[aesop safe apply (rule_sets := [Pres])]
theorem removeExpired_pres (S : SpecCore I) (rec : Rec) (hrec : ∀ t, Pres I (rec t)) (wuid : Nat) (wt : Waiter) : Pres I (removeExpired rec wuid wt) := by
  have L := S.toLeaf
  unfold removeExpired; aesop (add safe apply hrec) (rule_sets := [Pres]) (config := { terminal := true, useDefaultSimpSet := false, useSimpAll := false, maxRuleApplications := 3000 })
@[aesop safe apply (rule_sets := [Pres])]
theorem manageProcesses_pres (S : SpecCore I) (rec : Rec) (hrec : ∀ t, Pres I (rec t)) (wuid : Nat) (wt : Waiter) : Pres I (manageProcesses rec wuid wt) := by
  have L := S.toLeaf
  unfold manageProcesses; aesop (add safe apply hrec) (rule_sets := [Pres]) (config := { terminal := true, useDefaultSimpSet := false, useSimpAll := false, maxRuleApplications := 3000 })
@[aesop safe apply (rule_sets := [Pres])]
theorem startW_pres (S : SpecCore I) (rec : Rec) (hrec : ∀ t, Pres I (rec t)) (wuid : Nat) (wt : Waiter) : Pres I (startW rec wuid wt) := by
  have L := S.toLeaf
  unfold startW; aesop (add safe apply hrec) (rule_sets := [Pres]) (config := { terminal := true, useDefaultSimpSet := false, useSimpAll := false, maxRuleApplications := 3000 })
@[aesop safe apply (rule_sets := [Pres])]
theorem startAfterSpawn_pres (S : SpecCore I) (rec : Rec) (hrec : ∀ t, Pres I (rec t)) (wuid : Nat) (wt : Waiter) : Pres I (startAfterSpawn rec wuid wt) := by
  have L := S.toLeaf
  unfold startAfterSpawn; aesop (add safe apply hrec) (rule_sets := [Pres]) (config := { terminal := true, useDefaultSimpSet := false, useSimpAll := false, maxRuleApplications := 3000 })
@[aesop safe apply (rule_sets := [Pres])]
theorem reloadW_pres (S : SpecCore I) (rec : Rec) (hrec : ∀ t, Pres I (rec t)) (wuid : Nat) (g sq : Bool) (wt : Waiter) : Pres I (reloadW rec wuid g sq wt) := by
  have L := S.toLeaf
  unfold reloadW; aesop (add safe apply hrec) (rule_sets := [Pres]) (config := { terminal := true, useDefaultSimpSet := false, useSimpAll := false, maxRuleApplications := 3000 })
@[aesop safe apply (rule_sets := [Pres])]
theorem reloadSeqNext_pres (S : SpecCore I) (rec : Rec) (hrec : ∀ t, Pres I (rec t)) (wuid : Nat) (rest : List Nat) (wt : Waiter) : Pres I (reloadSeqNext rec wuid rest wt) := by
  have L := S.toLeaf
  unfold reloadSeqNext; aesop (add safe apply hrec) (rule_sets := [Pres]) (config := { terminal := true, useDefaultSimpSet := false, useSimpAll := false, maxRuleApplications := 3000 })
@[aesop safe apply (rule_sets := [Pres])]
theorem reloadSeqAfterKill_pres (S : SpecCore I) (rec : Rec) (hrec : ∀ t, Pres I (rec t)) (wuid pid : Nat) (rest : List Nat) (wt : Waiter) : Pres I (reloadSeqAfterKill rec wuid pid rest wt) := by
  have L := S.toLeaf
  unfold reloadSeqAfterKill; aesop (add safe apply hrec) (rule_sets := [Pres]) (config := { terminal := true, useDefaultSimpSet := false, useSimpAll := false, maxRuleApplications := 3000 })
@[aesop safe apply (rule_sets := [Pres])]
theorem setNumprocesses_pres (S : SpecCore I) (rec : Rec) (hrec : ∀ t, Pres I (rec t)) (wuid : Nat) (n : Int) (wt : Waiter) : Pres I (setNumprocesses rec wuid n wt) := by
  have L := S.toLeaf
  unfold setNumprocesses; aesop (add safe apply hrec) (rule_sets := [Pres]) (config := { terminal := true, useDefaultSimpSet := false, useSimpAll := false, maxRuleApplications := 3000 })
@[aesop safe apply (rule_sets := [Pres])]
theorem doAction_pres (S : SpecCore I) (rec : Rec) (hrec : ∀ t, Pres I (rec t)) (wuid : Nat) (n : Int) (wt : Waiter) : Pres I (doAction rec wuid n wt) := by
  have L := S.toLeaf
  unfold doAction; aesop (add safe apply hrec) (rule_sets := [Pres]) (config := { terminal := true, useDefaultSimpSet := false, useSimpAll := false, maxRuleApplications := 3000 })
@[aesop safe apply (rule_sets := [Pres])]
theorem pubInfo_pres (S : SpecCore I) (rec : Rec) (hrec : ∀ t, Pres I (rec t)) (wuid : Nat) (b : List Nat) (wt : Waiter) : Pres I (pubInfo rec wuid b wt) := by
  have L := S.toLeaf
  unfold pubInfo; aesop (add safe apply hrec) (rule_sets := [Pres]) (config := { terminal := true, useDefaultSimpSet := false, useSimpAll := false, maxRuleApplications := 3000 })
@[aesop safe apply (rule_sets := [Pres])]
theorem arbStartNext_pres (S : SpecCore I) (rec : Rec) (hrec : ∀ t, Pres I (rec t)) (ws : List Nat) (wt : Waiter) : Pres I (arbStartNext rec ws wt) := by
  have L := S.toLeaf
  unfold arbStartNext; aesop (add safe apply hrec) (rule_sets := [Pres]) (config := { terminal := true, useDefaultSimpSet := false, useSimpAll := false, maxRuleApplications := 3000 })
@[aesop safe apply (rule_sets := [Pres])]
theorem arbStartAfterStart_pres (S : SpecCore I) (rec : Rec) (hrec : ∀ t, Pres I (rec t)) (ws : List Nat) (wt : Waiter) : Pres I (arbStartAfterStart rec ws wt) := by
  have L := S.toLeaf
  unfold arbStartAfterStart; aesop (add safe apply hrec) (rule_sets := [Pres]) (config := { terminal := true, useDefaultSimpSet := false, useSimpAll := false, maxRuleApplications := 3000 })
@[aesop safe apply (rule_sets := [Pres])]
theorem arbStopTail_pres (S : SpecCore I) (rec : Rec) (hrec : ∀ t, Pres I (rec t)) (wt : Waiter) : Pres I (arbStopTail rec wt) := by
  have L := S.toLeaf
  unfold arbStopTail; aesop (add safe apply hrec) (rule_sets := [Pres]) (config := { terminal := true, useDefaultSimpSet := false, useSimpAll := false, maxRuleApplications := 3000 })
@[aesop safe apply (rule_sets := [Pres])]
theorem arbStop_pres (S : SpecCore I) (rec : Rec) (hrec : ∀ t, Pres I (rec t)) (wt : Waiter) : Pres I (arbStop rec wt) := by
  have L := S.toLeaf
  unfold arbStop; aesop (add safe apply hrec) (rule_sets := [Pres]) (config := { terminal := true, useDefaultSimpSet := false, useSimpAll := false, maxRuleApplications := 3000 })
@[aesop safe apply (rule_sets := [Pres])]
theorem arbRestartInside_pres (S : SpecCore I) (rec : Rec) (hrec : ∀ t, Pres I (rec t)) (wt : Waiter) : Pres I (arbRestartInside rec wt) := by
  have L := S.toLeaf
  unfold arbRestartInside; aesop (add safe apply hrec) (rule_sets := [Pres]) (config := { terminal := true, useDefaultSimpSet := false, useSimpAll := false, maxRuleApplications := 3000 })
@[aesop safe apply (rule_sets := [Pres])]
theorem arbReloadNext_pres (S : SpecCore I) (rec : Rec) (hrec : ∀ t, Pres I (rec t)) (ws : List Nat) (g sq : Bool) (wt : Waiter) : Pres I (arbReloadNext rec ws g sq wt) := by
  have L := S.toLeaf
  unfold arbReloadNext; aesop (add safe apply hrec) (rule_sets := [Pres]) (config := { terminal := true, useDefaultSimpSet := false, useSimpAll := false, maxRuleApplications := 3000 })
@[aesop safe apply (rule_sets := [Pres])]
theorem arbReloadAfter_pres (S : SpecCore I) (rec : Rec) (hrec : ∀ t, Pres I (rec t)) (ws : List Nat) (g sq : Bool) (wt : Waiter) : Pres I (arbReloadAfter rec ws g sq wt) := by
  have L := S.toLeaf
  unfold arbReloadAfter; aesop (add safe apply hrec) (rule_sets := [Pres]) (config := { terminal := true, useDefaultSimpSet := false, useSimpAll := false, maxRuleApplications := 3000 })
@[aesop safe apply (rule_sets := [Pres])]
theorem manageWatchers_pres (S : SpecCore I) (rec : Rec) (hrec : ∀ t, Pres I (rec t)) (wt : Waiter) : Pres I (manageWatchers rec wt) := by
  have L := S.toLeaf
  unfold manageWatchers; aesop (add safe apply hrec) (rule_sets := [Pres]) (config := { terminal := true, useDefaultSimpSet := false, useSimpAll := false, maxRuleApplications := 3000 })
@[aesop safe apply (rule_sets := [Pres])]
theorem rmWatcher_pres (S : SpecCore I) (rec : Rec) (hrec : ∀ t, Pres I (rec t)) (uid : Nat) (ns : Bool) (wt : Waiter) : Pres I (rmWatcher rec uid ns wt) := by
  have L := S.toLeaf
  unfold rmWatcher; aesop (add safe apply hrec) (rule_sets := [Pres]) (config := { terminal := true, useDefaultSimpSet := false, useSimpAll := false, maxRuleApplications := 3000 })
@[aesop safe apply (rule_sets := [Pres])]
theorem manageWatchersTail_pres (S : SpecCore I) (rec : Rec) (hrec : ∀ t, Pres I (rec t)) (need : Bool) (wt : Waiter) : Pres I (manageWatchersTail rec need wt) := by
  have L := S.toLeaf
  have hnt : Pres I (newTop [TopCb.watch]) := S.newTopNR _ (by simp)
  unfold manageWatchersTail; aesop (add safe apply hrec, safe apply hnt) (rule_sets := [Pres]) (config := { terminal := true, useDefaultSimpSet := false, useSimpAll := false, maxRuleApplications := 3000 })
@[aesop safe apply (rule_sets := [Pres])]
theorem runCall_pres (S : SpecCore I) (rec : Rec) (hrec : ∀ t, Pres I (rec t)) (c : Call) (wt : Waiter) : Pres I (runCall rec c wt) := by
  have L := S.toLeaf
  unfold runCall; aesop (add safe apply hrec) (rule_sets := [Pres]) (config := { terminal := true, useDefaultSimpSet := false, useSimpAll := false, maxRuleApplications := 3000 })
@[aesop safe apply (rule_sets := [Pres])]
theorem runResume_pres (S : SpecCore I) (rec : Rec) (hrec : ∀ t, Pres I (rec t)) (k : Kont) (v : Val) (wt : Waiter) : Pres I (runResume rec k v wt) := by
  have L := S.toLeaf
  unfold runResume; aesop (add safe apply hrec) (rule_sets := [Pres]) (config := { terminal := true, useDefaultSimpSet := false, useSimpAll := false, maxRuleApplications := 3000 })
theorem exec_pres (S : SpecCore I) (n : Nat) (t : Task) : Pres I (exec n t) := by
  have L := S.toLeaf
  induction n generalizing t with
  | zero => unfold exec; pres
  | succ n ih =>
    unfold exec
    aesop (add safe apply ih) (rule_sets := [Pres]) (config := { terminal := true, useDefaultSimpSet := false, useSimpAll := false, maxRuleApplications := 3000 })
/-! ### dispatch and commands -/
@[aesop safe apply (rule_sets := [Pres])]
theorem lookupWatcher_pres (L : Leaf I) (n : String) : Pres I (lookupWatcher n) := by
  unfold lookupWatcher; pres
@[aesop safe apply (rule_sets := [Pres])]
theorem getWatcherCmd_pres (L : Leaf I) (n : JVal) : Pres I (getWatcherCmd n) := by
  unfold getWatcherCmd; pres
@[aesop safe apply (rule_sets := [Pres])]
theorem matchWatchers_pres (L : Leaf I) (p : JVal) : Pres I (matchWatchers p) := by
  unfold matchWatchers; pres
@[aesop safe apply (rule_sets := [Pres])]
theorem sortUids_pres (L : Leaf I) (us : List Nat) (r : Bool) : Pres I (sortUids us r) := by
  unfold sortUids; pres
@[aesop safe apply (rule_sets := [Pres])]
theorem plainCoroutine_pres (S : SpecCore I) (c : Call) : Pres I (plainCoroutine c []) := by
  have L := S.toLeaf
  have h1 : Pres I (newTop ([] : List TopCb)) := S.newTopNR _ (by simp)
  have h2 := exec_pres S
  unfold plainCoroutine
  aesop (add safe apply h1, safe apply h2) (rule_sets := [Pres]) (config := { terminal := true, useDefaultSimpSet := false, useSimpAll := false, maxRuleApplications := 3000 })
@[aesop safe apply (rule_sets := [Pres])]
theorem syncCoroutine_pres (S : SpecCore I) (name : String) (c : Call) : Pres I (syncCoroutine name c []) :=
  S.syncCo (exec_pres S) name c
@[aesop safe apply (rule_sets := [Pres])]
theorem execSSR_pres (S : SpecCore I) (kind : String) (p : JVal) : Pres I (execSSR kind p) := by
  have L := S.toLeaf
  unfold execSSR; pres
@[aesop safe apply (rule_sets := [Pres])]
theorem execIncrDecr_pres (S : SpecCore I) (sg : Int) (p : JVal) : Pres I (execIncrDecr sg p) := by
  have L := S.toLeaf
  unfold execIncrDecr; pres
@[aesop safe apply (rule_sets := [Pres])]
theorem execReload_pres (S : SpecCore I) (p : JVal) : Pres I (execReload p) := by
  have L := S.toLeaf
  unfold execReload; pres
@[aesop safe apply (rule_sets := [Pres])]
theorem execSet_pres (S : SpecCore I) (p : JVal) : Pres I (execSet p) := by
  have L := S.toLeaf
  unfold execSet; pres
@[aesop safe apply (rule_sets := [Pres])]
theorem execKill_pres (S : SpecCore I) (p : JVal) : Pres I (execKill p) := by
  have L := S.toLeaf
  unfold execKill; pres
@[aesop safe apply (rule_sets := [Pres])]
theorem execSignal_pres (S : SpecCore I) (p : JVal) : Pres I (execSignal p) := by
  have L := S.toLeaf
  unfold execSignal; pres
@[aesop safe apply (rule_sets := [Pres])]
theorem execRm_pres (S : SpecCore I) (p : JVal) : Pres I (execRm p) := by
  have L := S.toLeaf
  unfold execRm; pres
@[aesop safe apply (rule_sets := [Pres])]
theorem execAdd_pres (S : SpecCore I) (p : JVal) : Pres I (execAdd p) := by
  have L := S.toLeaf
  unfold execAdd; pres
@[aesop safe apply (rule_sets := [Pres])]
theorem execReadOnly_pres (S : SpecCore I) (c : String) (p : JVal) : Pres I (execReadOnly c p) := by
  have L := S.toLeaf
  unfold execReadOnly; pres
@[aesop safe apply (rule_sets := [Pres])]
theorem validateExecute_pres (S : SpecCore I) (c : String) (p : JVal) : Pres I (validateExecute c p) := by
  have L := S.toLeaf
  unfold validateExecute; pres
@[aesop safe apply (rule_sets := [Pres])]
theorem handleMessage_pres (S : Spec I) (cid : Option String) (msg : Option JVal) : Pres I (handleMessage cid msg) := by
  have L := S.toLeaf
  have hadd : ∀ tid a b c d e f, Pres I (addDoneCallback tid (TopCb.reply a b c d e f)) :=
    fun tid a b c d e f => S.addDone _ _ (by simp)
  have hrep := S.emitRep
  have hve := validateExecute_pres S.toSpecCore
  unfold handleMessage
  aesop (add safe apply hadd, safe apply hrep, safe apply hve) (rule_sets := [Pres]) (config := { terminal := true, useDefaultSimpSet := false, useSimpAll := false, maxRuleApplications := 3000 })
@[aesop safe apply (rule_sets := [Pres])]
theorem sigQuit_pres (S : Spec I) : Pres I sigQuit := by
  have L := S.toLeaf
  have h := handleMessage_pres S
  unfold sigQuit
  aesop (add safe apply h) (rule_sets := [Pres])
    (config := { terminal := true, useDefaultSimpSet := false, useSimpAll := false, maxRuleApplications := 3000 })
theorem settle_pres (S : Spec I) (n : Nat) : Pres I (settle n) := by
  have L := S.toLeaf
  have hs := S.settleStep (exec_pres S.toSpecCore) (sigQuit_pres S)
  induction n with
  | zero => unfold settle; pres
  | succ n ih =>
    unfold settle
    aesop (add safe apply ih, safe apply hs) (rule_sets := [Pres]) (config := { terminal := true, useDefaultSimpSet := false, useSimpAll := false, maxRuleApplications := 3000 })
theorem stepOp_pres (S : Spec I) (op : Op) : Pres I (stepOp op) := by
  have L := S.toLeaf
  have hadd : ∀ tid, Pres I (addDoneCallback tid TopCb.watch) := fun tid => S.addDone _ _ (by simp)
  have he := exec_pres S.toSpecCore
  have hh := handleMessage_pres S
  have hq := sigQuit_pres S
  have hsc := syncCoroutine_pres S.toSpecCore
  have hadv : ∀ ms ds, Pres I (updK fun k => k.advance ms ds) := fun ms ds => updK_pres L.toLeafK _ (fun k => KStep.advance k ms ds)
  have hdie : ∀ p st, Pres I (updK fun k => k.die p st) := fun p st => updK_pres L.toLeafK _ (fun k => KStep.die k p st)
  have hflt : ∀ n p st, Pres I (updK fun k => k.addFault n p st) := fun n p st => updK_pres L.toLeafK _ (fun k => KStep.addFault k n p st)
  cases op <;> simp only [stepOp] <;>
  aesop (add safe apply hadd, safe apply he, safe apply hh, safe apply hq, safe apply hsc, safe apply hadv, safe apply hdie, safe apply hflt) (rule_sets := [Pres])
    (config := { terminal := true, useDefaultSimpSet := false, useSimpAll := false, maxRuleApplications := 3000 })
theorem stepTail_pres (S : Spec I) : Pres I stepTail := by
  have L := S.toLeaf
  have hst := settle_pres S
  unfold stepTail
  aesop (add safe apply hst) (rule_sets := [Pres])
    (config := { terminal := true, useDefaultSimpSet := false, useSimpAll := false, maxRuleApplications := 3000 })
theorem stepM_pres (S : Spec I) (op : Op) : Pres I (stepM op) := by
  have L := S.toLeaf
  have h1 := stepOp_pres S
  have h2 := stepTail_pres S
  have h3 : Pres I (updK Kernel.beginStep) := updK_pres L.toLeafK _ KStep.beginStep
  unfold stepM
  aesop (add safe apply h1, safe apply h2, safe apply h3) (rule_sets := [Pres])
    (config := { terminal := true, useDefaultSimpSet := false, useSimpAll := false, maxRuleApplications := 3000 })

/-- an invariant with a `Spec` holds along every run -/
theorem run_pres (S : Spec I) (s : State) (ops : List Op) (h : I s) : I (run s ops) := by
  induction ops generalizing s with
  | nil => exact h
  | cons o os ih => exact ih _ (stepM_pres S o s h)

end
end Circus.Core
