import CircusProofs.Core.Pres
import CircusProofs.Core.KStep
import CircusProofs.Core.PresAttr
/-!
Generic preservation: every function of the core model preserves any invariant `I` that is
preserved by the named state writers and by a handful of composite operations.  Proved once here;
each invariant then only supplies its structure.

Three chains of obligations, each converting to the next weaker one:
* the full one — `LeafK ⊂ LeafW ⊂ Leaf ⊂ SpecCore ⊂ Spec`: every writer anywhere (`setStatus` with any
  status, `spawnAdopt`, `setClosed`, `emitEv` with any topic).  Theorems `exec_pres … run_pres`.
* the `R` chain — `LeafW ⊂ LeafR ⊂ SpecCoreR ⊂ SpecMR ⊂ SpecR`: without `setStatus … .stopped`, `spawnAdopt`,
  `setClosed`; the places that use them are obligations (`spawnProcess`, `stopCore`, `guardedStop`,
  `stopController`).  Theorems `…_presR`.  (StoppedEmpty, WidInv, NoClose.)
* the `E` chain — `LeafK ⊂ LeafWE0 ⊂ LeafWE ⊂ LeafRE ⊂ SpecCoreRE ⊂ SpecMRE ⊂ SpecRE`: in addition `emitEv` only for
  topics other than `reap`/`spawn`; `reapProcess` is an obligation (`LeafWE`), the `spawn` event is
  part of `spawnProcess`.  All composition proofs are done here (`…_presE`); the other two are
  these composed with the conversions.  (EventInv.)
-/
namespace Circus.Core

/-- the writers kernel wrappers use -/
structure LeafK (I : State → Prop) : Prop where
  emit : ∀ o, Pres I (emit o)
  runK : ∀ {α : Type} (f : Kernel → Kernel × α), KOp f → Pres I (runK f)

/-- the writers the synchronous watcher functions use (no suspension, no spawn) -/
structure LeafW (I : State → Prop) : Prop extends LeafK I where
  emitEv : ∀ w t p x, Pres I (emitEv w t p x)
  popPid : ∀ u p, Pres I (popPid u p)
  bumpHook : ∀ u h i, Pres I (bumpHook u h i)
  setObjStopping : ∀ p b, Pres I (setObjStopping p b)
  setRc : ∀ p rc, Pres I (setRc p rc)
  markBlocked : Pres I markBlocked

/-! ### the weak chain: what the composition proofs really need

`LeafR` is `Leaf` without the writers that are only sound in a context: `setStatus u .stopped`
(written only once the `processes` dict is empty), `spawnAdopt` (called only for a watcher that is
not stopped) and `setClosed` (only the event loop closes the sockets).  The places that use them
are obligations of their own: `spawnProcess`, `stopCore`, `guardedStop` in `SpecCoreR`,
`stopController` in `SpecR`.  The old structures (`Leaf`, `SpecCore`, `Spec`, below) convert to the
weak ones, so an invariant preserved by every writer needs nothing new. -/

/-- `Watcher._stop` once the workers are gone, up to the status write: reap what is left, publish
    `stop`, status `stopped` (`stopAfterKill = stopCore; after_stop hook; deliver`) -/
def stopCore (u : Nat) : M Unit := do
  reapProcesses u
  notify u "stop" none
  setStatus u .stopped

/-- `spawn_processes` of an on-demand watcher without a pending connection: stopped, but only once
    no worker is left -/
def guardedStop (u : Nat) : M Unit := do
  let w0 ← getW u
  if w0.pids.isEmpty then setStatus u .stopped

theorem stopAfterKill_eq (rec : Rec) (u : Nat) (c : Bool) (wt : Waiter) :
    stopAfterKill rec u c wt = (do stopCore u; let _ ← callHook u "after_stop"; deliver rec wt .unit) := rfl

theorem spawnProcesses_eq (rec : Rec) (u : Nat) (wt : Waiter) :
    spawnProcesses rec u wt = (do
      let pend ← pendingSocketEvent u
      if pend then do
        guardedStop u
        deliver rec wt .unit
      else
      let w ← getW u
      let n := w.np - w.pids.length
      if n ≤ 0 then deliver rec wt .unit else spawnLoop rec u n.toNat wt) := by
  funext s
  unfold spawnProcesses guardedStop
  simp only [bind]
  by_cases hp : (pendingSocketEvent u s).fst = true
  · erw [if_pos hp, if_pos hp]
    simp only [ite_run]
    by_cases he : (getW u (pendingSocketEvent u s).snd).fst.pids.isEmpty = true
    · erw [if_pos he, if_pos he]
    · erw [if_neg he, if_neg he]; rfl
  · erw [if_neg hp, if_neg hp]

/-- writers every coroutine and `dispatch` may use anywhere -/
structure LeafR (I : State → Prop) : Prop extends LeafW I where
  setStatus : ∀ u st, st ≠ Status.stopped → Pres I (setStatus u st)    -- `.stopped` is written by `stopCore`/`guardedStop` only
  trySetNp : ∀ u n, Pres I (trySetNp u n)
  setWOpt : ∀ u c, Pres I (setWOpt u c)
  freshId : Pres I freshId
  pushFrame : ∀ f, Pres I (pushFrame f)
  removeFrame : ∀ f, Pres I (removeFrame f)
  setFrameK : ∀ f k, Pres I (setFrameK f k)
  armFrame : ∀ f, Pres I (armFrame f)
  pushSleeper : ∀ sl, Pres I (pushSleeper sl)
  armTop : ∀ t, Pres I (armTop t)
  setStopping : Pres I setStopping
  setRestarting : Pres I setRestarting
  clearRestarting : ∀ b, Pres I (clearRestarting b)
  setLoopStop : ∀ b, Pres I (setLoopStop b)
  setSocketEvent : ∀ b, Pres I (setSocketEvent b)
  setSockReady : ∀ b, Pres I (setSockReady b)
  clearDone : Pres I clearDone
  unregister : ∀ u, Pres I (unregisterWatcher u)
  registerNew : ∀ w, w.pids = [] → Pres I (registerNew w)    -- a new watcher object lists no process
  fireSleeper : ∀ sl, Pres I (fireSleeper sl)
  enqueueResume : ∀ k v w, Pres I (enqueue (.resume k v w))
  enqueueCallback : ∀ n, Pres I (enqueue (.callback n))

/-- composite operations: the exclusive slot, top-level futures, and the three places that adopt a
    process or write `stopped` -/
structure SpecCoreR (I : State → Prop) : Prop extends LeafR I where
  deliverTop : ∀ tid v, Pres I (deliverTop tid v)
  newTopNR : ∀ cbs, TopCb.release ∉ cbs → Pres I (newTop cbs)
  addDone : ∀ tid cb, cb ≠ TopCb.release → Pres I (addDoneCallback tid cb)
  syncCo : (∀ n t, Pres I (exec n t)) → ∀ name c, Pres I (syncCoroutine name c [])
  syncSetOpt : ∀ u key val len, Pres I (syncPlain "watcher_set_opt" (setOptBody u key val len))
  syncAdd : ∀ props, Pres I (syncPlain "arbiter_add_watcher" (addCore props))
  spawnProcess : ∀ rec, (∀ t, Pres I (rec t)) → ∀ u, Pres I (spawnProcess rec u)
  stopCore : ∀ u, Pres I (stopCore u)
  guardedStop : ∀ u, Pres I (guardedStop u)

/-- … plus the reply writer (everything a request does) -/
structure SpecMR (I : State → Prop) : Prop extends SpecCoreR I where
  emitRep : ∀ c i a b d, Pres I (emitRep c i a b d)

/-- … plus what only the event loop does -/
structure SpecR (I : State → Prop) : Prop extends SpecMR I where
  settleStep : (∀ n t, Pres I (exec n t)) → Pres I sigQuit → Pres I settleStep
  stopController : Pres I stopController

/-! ### the weakest chain: events

`LeafWE0`/`LeafWE` are `LeafW` with `emitEv` only for topics other than `reap` and `spawn`: those
two events are published in one place each (`reapTail`, after the pop in `reap_process`;
`spawn_process`, right after the adoption), and an invariant about the published events (C09) is
kept by these places as a whole, not by the bare writer.  `reapProcess` is the obligation for the
first (`LeafWE`), the second is inside `spawnProcess` (`SpecCoreRE`).  `LeafRE ⊂ SpecCoreRE ⊂ SpecMRE ⊂
SpecRE` are the weak chain above on top of `LeafWE`; all composition theorems are proved over this
chain (`…_presE`), the `R` chain and the full one convert to it. -/

/-- the writers of Watcher.lean, events other than `reap`/`spawn` -/
structure LeafWE0 (I : State → Prop) : Prop extends LeafK I where
  emitEv : ∀ w t p x, t ≠ "reap" → t ≠ "spawn" → Pres I (emitEv w t p x)
  popPid : ∀ u p, Pres I (popPid u p)
  bumpHook : ∀ u h i, Pres I (bumpHook u h i)
  setObjStopping : ∀ p b, Pres I (setObjStopping p b)
  setRc : ∀ p rc, Pres I (setRc p rc)
  markBlocked : Pres I markBlocked

/-- … plus `reap_process` as a whole (pop, wait, the `reap` event) -/
structure LeafWE (I : State → Prop) : Prop extends LeafWE0 I where
  reapProcess : ∀ u p st, Pres I (reapProcess u p st)

structure LeafRE (I : State → Prop) : Prop extends LeafWE I where
  setStatus : ∀ u st, st ≠ Status.stopped → Pres I (setStatus u st)    -- `.stopped` is written by `stopCore`/`guardedStop` only
  trySetNp : ∀ u n, Pres I (trySetNp u n)
  setWOpt : ∀ u c, Pres I (setWOpt u c)
  freshId : Pres I freshId
  pushFrame : ∀ f, Pres I (pushFrame f)
  removeFrame : ∀ f, Pres I (removeFrame f)
  setFrameK : ∀ f k, Pres I (setFrameK f k)
  armFrame : ∀ f, Pres I (armFrame f)
  pushSleeper : ∀ sl, Pres I (pushSleeper sl)
  armTop : ∀ t, Pres I (armTop t)
  setStopping : Pres I setStopping
  setRestarting : Pres I setRestarting
  clearRestarting : ∀ b, Pres I (clearRestarting b)
  setLoopStop : ∀ b, Pres I (setLoopStop b)
  setSocketEvent : ∀ b, Pres I (setSocketEvent b)
  setSockReady : ∀ b, Pres I (setSockReady b)
  clearDone : Pres I clearDone
  unregister : ∀ u, Pres I (unregisterWatcher u)
  registerNew : ∀ w, w.pids = [] → Pres I (registerNew w)    -- a new watcher object lists no process
  fireSleeper : ∀ sl, Pres I (fireSleeper sl)
  enqueueResume : ∀ k v w, Pres I (enqueue (.resume k v w))
  enqueueCallback : ∀ n, Pres I (enqueue (.callback n))

structure SpecCoreRE (I : State → Prop) : Prop extends LeafRE I where
  deliverTop : ∀ tid v, Pres I (deliverTop tid v)
  newTopNR : ∀ cbs, TopCb.release ∉ cbs → Pres I (newTop cbs)
  addDone : ∀ tid cb, cb ≠ TopCb.release → Pres I (addDoneCallback tid cb)
  syncCo : (∀ n t, Pres I (exec n t)) → ∀ name c, Pres I (syncCoroutine name c [])
  syncSetOpt : ∀ u key val len, Pres I (syncPlain "watcher_set_opt" (setOptBody u key val len))
  syncAdd : ∀ props, Pres I (syncPlain "arbiter_add_watcher" (addCore props))
  spawnProcess : ∀ rec, (∀ t, Pres I (rec t)) → ∀ u, Pres I (spawnProcess rec u)
  stopCore : ∀ u, Pres I (stopCore u)
  guardedStop : ∀ u, Pres I (guardedStop u)

structure SpecMRE (I : State → Prop) : Prop extends SpecCoreRE I where
  emitRep : ∀ c i a b d, Pres I (emitRep c i a b d)

structure SpecRE (I : State → Prop) : Prop extends SpecMRE I where
  settleStep : (∀ n t, Pres I (exec n t)) → Pres I sigQuit → Pres I settleStep
  stopController : Pres I stopController

/-! ### the full structures (every writer, anywhere) -/

/-- writers that touch neither the exclusive slot, nor top-level futures, nor the directory -/
structure Leaf (I : State → Prop) : Prop extends LeafW I where
  setStatus : ∀ u st, Pres I (setStatus u st)
  trySetNp : ∀ u n, Pres I (trySetNp u n)
  spawnAdopt : ∀ u w, Pres I (spawnAdopt u w)
  setWOpt : ∀ u c, Pres I (setWOpt u c)
  freshId : Pres I freshId
  pushFrame : ∀ f, Pres I (pushFrame f)
  removeFrame : ∀ f, Pres I (removeFrame f)
  setFrameK : ∀ f k, Pres I (setFrameK f k)
  armFrame : ∀ f, Pres I (armFrame f)
  pushSleeper : ∀ sl, Pres I (pushSleeper sl)
  armTop : ∀ t, Pres I (armTop t)
  setClosed : Pres I setClosed
  setStopping : Pres I setStopping
  setRestarting : Pres I setRestarting
  clearRestarting : ∀ b, Pres I (clearRestarting b)
  setLoopStop : ∀ b, Pres I (setLoopStop b)
  setSocketEvent : ∀ b, Pres I (setSocketEvent b)
  setSockReady : ∀ b, Pres I (setSockReady b)
  clearDone : Pres I clearDone
  unregister : ∀ u, Pres I (unregisterWatcher u)
  registerNew : ∀ w, w.pids = [] → Pres I (registerNew w)    -- a new watcher object lists no process
  fireSleeper : ∀ sl, Pres I (fireSleeper sl)
  enqueueResume : ∀ k v w, Pres I (enqueue (.resume k v w))
  enqueueCallback : ∀ n, Pres I (enqueue (.callback n))

/-- composite operations around the exclusive slot and top-level futures -/
structure SpecCore (I : State → Prop) : Prop extends Leaf I where
  deliverTop : ∀ tid v, Pres I (deliverTop tid v)
  newTopNR : ∀ cbs, TopCb.release ∉ cbs → Pres I (newTop cbs)
  addDone : ∀ tid cb, cb ≠ TopCb.release → Pres I (addDoneCallback tid cb)
  syncCo : (∀ n t, Pres I (exec n t)) → ∀ name c, Pres I (syncCoroutine name c [])
  syncSetOpt : ∀ u key val len, Pres I (syncPlain "watcher_set_opt" (setOptBody u key val len))
  syncAdd : ∀ props, Pres I (syncPlain "arbiter_add_watcher" (addCore props))

/-- … plus what only the reply path and the event loop need -/
structure Spec (I : State → Prop) : Prop extends SpecCore I where
  emitRep : ∀ c i a b d, Pres I (emitRep c i a b d)
  settleStep : (∀ n t, Pres I (exec n t)) → Pres I sigQuit → Pres I settleStep

attribute [aesop safe apply (rule_sets := [Pres])] Pres.pure Pres.getS Pres.getK Pres.getA Pres.getW Pres.getO Pres.nowMs
attribute [aesop safe apply (rule_sets := [Pres])] Pres.bind Pres.ite Pres.for_in
attribute [aesop safe apply (rule_sets := [Pres])] LeafK.emit LeafWE0.popPid LeafWE0.bumpHook LeafWE0.setObjStopping LeafWE0.setRc
  LeafWE0.markBlocked LeafWE.reapProcess
attribute [aesop safe apply (rule_sets := [Pres])] LeafRE.trySetNp LeafRE.setWOpt LeafRE.freshId LeafRE.pushFrame LeafRE.removeFrame LeafRE.setFrameK LeafRE.armFrame LeafRE.pushSleeper LeafRE.armTop LeafRE.setStopping LeafRE.setRestarting LeafRE.clearRestarting LeafRE.setLoopStop LeafRE.setSocketEvent LeafRE.setSockReady LeafRE.clearDone LeafRE.unregister LeafRE.fireSleeper LeafRE.enqueueResume LeafRE.enqueueCallback
attribute [aesop safe apply (rule_sets := [Pres])] SpecCoreRE.deliverTop SpecCoreRE.syncSetOpt SpecCoreRE.syncAdd SpecCoreRE.stopCore
  SpecCoreRE.guardedStop

-- structure goals: one rule each.  Proofs over the E chain keep `LeafRE I` and `LeafWE I` in the context
-- (`have`); contexts that only have a stronger structure get there through the conversions.
attribute [aesop safe apply (rule_sets := [Pres])] LeafWE0.toLeafK LeafWE.toLeafWE0 LeafR.toLeafW SpecCoreR.toLeafR
  SpecMR.toSpecCoreR SpecR.toSpecMR SpecMRE.toSpecCoreRE SpecRE.toSpecMRE

macro "pres" : tactic => `(tactic| aesop (rule_sets := [Pres]) (config := { terminal := true, useDefaultSimpSet := false, useSimpAll := false, maxRuleApplications := 3000 }))

section
variable {I : State → Prop}

/-! ### kernel wrappers -/
theorem updK_pres (L : LeafK I) (f : Kernel → Kernel) (hf : ∀ k, KStep k (f k)) : Pres I (updK f) :=
  L.runK _ hf
@[aesop safe apply (rule_sets := [Pres])]
theorem runK_kill (L : LeafK I) (pid sig : Nat) : Pres I (runK fun k => Kernel.kill k pid sig) := L.runK _ (KStep.kill pid sig)
@[aesop safe apply (rule_sets := [Pres])]
theorem runK_killD (L : LeafK I) (pid sig : Nat) : Pres I (runK fun k => Kernel.killD k pid sig) := L.runK _ (KStep.killD pid sig)
@[aesop safe apply (rule_sets := [Pres])]
theorem runK_waitpid (L : LeafK I) (pid : Option Nat) : Pres I (runK fun k => Kernel.waitpid k pid) := L.runK _ (KStep.waitpid pid)
@[aesop safe apply (rule_sets := [Pres])]
theorem kKill_pres (L : LeafK I) (pid sig : Nat) (via : String) : Pres I (kKill pid sig via) := by
  unfold kKill; pres
@[aesop safe apply (rule_sets := [Pres])]
theorem xKill_pres (L : LeafK I) (pid sig : Nat) : Pres I (xKill pid sig) := by
  unfold xKill; pres
@[aesop safe apply (rule_sets := [Pres])]
theorem kWaitpid_pres (L : LeafK I) (pid : Option Nat) : Pres I (kWaitpid pid) := by
  unfold kWaitpid; pres
@[aesop safe apply (rule_sets := [Pres])]
theorem kStateOf_pres (L : LeafK I) (pid : Nat) : Pres I (kStateOf pid) := L.runK _ (KStep.stateOf pid)
@[aesop safe apply (rule_sets := [Pres])]
theorem kChildren_pres (L : LeafK I) (pid : Nat) (r : Bool) : Pres I (kChildren pid r) := L.runK _ (KStep.children pid r)
@[aesop safe apply (rule_sets := [Pres])]
theorem kSleep_pres (L : LeafK I) (ms : Nat) : Pres I (kSleep ms) := updK_pres L _ (fun k => KStep.sleep k ms)

/-! ### watcher.py, synchronous part -/
theorem emitEv_other (L : LeafWE0 I) (w t : String) (p : Option Nat) (x : String) (h1 : t ≠ "reap") (h2 : t ≠ "spawn") :
    Pres I (emitEv w t p x) := L.emitEv w t p x h1 h2
/-- `notify_event` with a topic other than `reap`/`spawn` -/
theorem notify_presE (L : LeafWE0 I) (u : Nat) (t : String) (p : Option Nat) (x : String)
    (h1 : t ≠ "reap") (h2 : t ≠ "spawn") : Pres I (notify u t p x) := by
  have h := L.emitEv
  unfold notify
  aesop (add safe apply h) (rule_sets := [Pres]) (config := { terminal := true, useDefaultSimpSet := false, useSimpAll := false, maxRuleApplications := 3000 })
@[aesop safe apply (rule_sets := [Pres])]
theorem notify_kill (L : LeafWE0 I) (u : Nat) (p : Option Nat) (x : String) : Pres I (notify u "kill" p x) :=
  notify_presE L u _ p x (by decide) (by decide)
@[aesop safe apply (rule_sets := [Pres])]
theorem notify_stop (L : LeafWE0 I) (u : Nat) (p : Option Nat) (x : String) : Pres I (notify u "stop" p x) :=
  notify_presE L u _ p x (by decide) (by decide)
@[aesop safe apply (rule_sets := [Pres])]
theorem notify_start (L : LeafWE0 I) (u : Nat) (p : Option Nat) (x : String) : Pres I (notify u "start" p x) :=
  notify_presE L u _ p x (by decide) (by decide)
@[aesop safe apply (rule_sets := [Pres])]
theorem notify_remove (L : LeafWE0 I) (u : Nat) (p : Option Nat) (x : String) : Pres I (notify u "remove" p x) :=
  notify_presE L u _ p x (by decide) (by decide)
@[aesop safe apply (rule_sets := [Pres])]
theorem notify_reload (L : LeafWE0 I) (u : Nat) (p : Option Nat) (x : String) : Pres I (notify u "reload" p x) :=
  notify_presE L u _ p x (by decide) (by decide)
@[aesop safe apply (rule_sets := [Pres])]
theorem notify_add (L : LeafWE0 I) (u : Nat) (p : Option Nat) (x : String) : Pres I (notify u "add" p x) :=
  notify_presE L u _ p x (by decide) (by decide)
@[aesop safe apply (rule_sets := [Pres])]
theorem notify_updated (L : LeafWE0 I) (u : Nat) (p : Option Nat) (x : String) : Pres I (notify u "updated" p x) :=
  notify_presE L u _ p x (by decide) (by decide)
@[aesop safe apply (rule_sets := [Pres])]
theorem notify_hook_failure (L : LeafWE0 I) (u : Nat) (p : Option Nat) (x : String) : Pres I (notify u "hook_failure" p x) :=
  notify_presE L u _ p x (by decide) (by decide)
@[aesop safe apply (rule_sets := [Pres])]
theorem notify_hook_success (L : LeafWE0 I) (u : Nat) (p : Option Nat) (x : String) : Pres I (notify u "hook_success" p x) :=
  notify_presE L u _ p x (by decide) (by decide)
@[aesop safe apply (rule_sets := [Pres])]
theorem callHook_presE (L : LeafWE0 I) (u : Nat) (h : String) : Pres I (callHook u h) := by
  unfold callHook; pres
@[aesop safe apply (rule_sets := [Pres])]
theorem procStatus_presE (L : LeafWE0 I) (pid : Nat) : Pres I (procStatus pid) := by
  unfold procStatus; pres
@[aesop safe apply (rule_sets := [Pres])]
theorem isAlive_presE (L : LeafWE0 I) (pid : Nat) : Pres I (isAlive pid) := by
  unfold isAlive; pres
@[aesop safe apply (rule_sets := [Pres])]
theorem objStop_presE (L : LeafWE0 I) (pid : Nat) : Pres I (objStop pid) := by
  unfold objStop; pres
@[aesop safe apply (rule_sets := [Pres])]
theorem sendSignal_presE (L : LeafWE0 I) (u p sg : Nat) : Pres I (sendSignal u p sg) := by
  unfold sendSignal; pres
@[aesop safe apply (rule_sets := [Pres])]
theorem sendSignalChild_presE (L : LeafWE0 I) (p c sg : Nat) : Pres I (sendSignalChild p c sg) := by
  unfold sendSignalChild; pres
@[aesop safe apply (rule_sets := [Pres])]
theorem signalKids_presE (L : LeafWE0 I) (u p sg : Nat) (cs : List Nat) : Pres I (signalKids u p sg cs) := by
  induction cs with
  | nil => unfold signalKids; pres
  | cons c cs ih => unfold signalKids; aesop (add safe apply ih) (rule_sets := [Pres]) (config := { terminal := true, useDefaultSimpSet := false, useSimpAll := false, maxRuleApplications := 3000 })
@[aesop safe apply (rule_sets := [Pres])]
theorem sendSignalProcess_presE (L : LeafWE0 I) (u p sg : Nat) (r : Bool) : Pres I (sendSignalProcess u p sg r) := by
  unfold sendSignalProcess; pres
@[aesop safe apply (rule_sets := [Pres])]
theorem activeProcs_presE (L : LeafWE0 I) (u : Nat) : Pres I (activeProcs u) := by
  unfold activeProcs; pres
@[aesop safe apply (rule_sets := [Pres])]
theorem setBlocked_presE (L : LeafWE0 I) : Pres I setBlocked := by
  unfold setBlocked; pres

@[aesop safe apply (rule_sets := [Pres])]
theorem reapWait_presE (L : LeafWE0 I) (pid fuel : Nat) : Pres I (reapWait pid fuel) := by
  induction fuel with
  | zero => unfold reapWait; pres
  | succ n ih => unfold reapWait; aesop (add safe apply ih) (rule_sets := [Pres]) (config := { terminal := true, useDefaultSimpSet := false, useSimpAll := false, maxRuleApplications := 3000 })
/-- `reap_process` after the pop, for an invariant that survives a `reap` event for any pid -/
theorem reapTail_ofE (L : LeafWE0 I) (hreap : ∀ w p x, Pres I (emitEv w "reap" p x)) (u p : Nat) (st : Option Nat) :
    Pres I (reapTail u p st) := by
  have hn : ∀ q x, Pres I (notify u "reap" q x) := by
    intro q x; unfold notify; aesop (add safe apply hreap) (rule_sets := [Pres]) (config := { terminal := true, useDefaultSimpSet := false, useSimpAll := false, maxRuleApplications := 3000 })
  unfold reapTail; aesop (add safe apply hn) (rule_sets := [Pres]) (config := { terminal := true, useDefaultSimpSet := false, useSimpAll := false, maxRuleApplications := 3000 })
theorem reapProcess_ofE (L : LeafWE0 I) (hreap : ∀ w p x, Pres I (emitEv w "reap" p x)) (u p : Nat) (st : Option Nat) :
    Pres I (reapProcess u p st) := by
  have h := reapTail_ofE L hreap
  unfold reapProcess; aesop (add safe apply h) (rule_sets := [Pres]) (config := { terminal := true, useDefaultSimpSet := false, useSimpAll := false, maxRuleApplications := 3000 })
theorem reapProcess_presE (L : LeafWE I) (u p : Nat) (st : Option Nat) : Pres I (reapProcess u p st) := L.reapProcess u p st
@[aesop safe apply (rule_sets := [Pres])]
theorem reapProcesses_presE (L : LeafWE I) (u : Nat) : Pres I (reapProcesses u) := by
  unfold reapProcesses; pres
@[aesop safe apply (rule_sets := [Pres])]
theorem usedWids_presE (L : LeafWE0 I) (u : Nat) : Pres I (usedWids u) := by
  unfold usedWids; pres
@[aesop safe apply (rule_sets := [Pres])]
theorem arbReapLoop_presE (L : LeafWE I) (pm : List (Nat × Nat)) (fuel : Nat) : Pres I (arbReapLoop pm fuel) := by
  induction fuel with
  | zero => unfold arbReapLoop; pres
  | succ n ih => unfold arbReapLoop; aesop (add safe apply ih) (rule_sets := [Pres]) (config := { terminal := true, useDefaultSimpSet := false, useSimpAll := false, maxRuleApplications := 3000 })
@[aesop safe apply (rule_sets := [Pres])]
theorem registered_presE (L : LeafWE0 I) : Pres I registered := by
  unfold registered; pres
@[aesop safe apply (rule_sets := [Pres])]
theorem iterWatchers_presE (L : LeafWE0 I) (r : Bool) : Pres I (iterWatchers r) := by
  unfold iterWatchers; pres
@[aesop safe apply (rule_sets := [Pres])]
theorem arbReapProcesses_presE (L : LeafWE I) : Pres I arbReapProcesses := by
  unfold arbReapProcesses; pres


/-! ### the full `LeafW` -/
theorem LeafW.toLeafWE0 (L : LeafW I) : LeafWE0 I where
  toLeafK := L.toLeafK
  emitEv := fun w t p x _ _ => L.emitEv w t p x
  popPid := L.popPid
  bumpHook := L.bumpHook
  setObjStopping := L.setObjStopping
  setRc := L.setRc
  markBlocked := L.markBlocked

theorem LeafW.toLeafWE (L : LeafW I) : LeafWE I where
  toLeafWE0 := L.toLeafWE0
  reapProcess := reapProcess_ofE L.toLeafWE0 (fun w p x => L.emitEv w "reap" p x)

attribute [aesop safe apply (rule_sets := [Pres])] LeafW.toLeafWE

theorem notify_pres (L : LeafW I) (u : Nat) (t : String) (p : Option Nat) (x : String) : Pres I (notify u t p x) := by
  have h := L.emitEv
  unfold notify
  aesop (add safe apply h) (rule_sets := [Pres]) (config := { terminal := true, useDefaultSimpSet := false, useSimpAll := false, maxRuleApplications := 3000 })
/-- with a full `LeafW` at hand the two special topics are ordinary (tried after any local rule) -/
@[aesop safe 100 apply (rule_sets := [Pres])]
theorem notify_spawn_full (L : LeafW I) (u : Nat) (p : Option Nat) (x : String) : Pres I (notify u "spawn" p x) :=
  notify_pres L u _ p x
@[aesop safe 100 apply (rule_sets := [Pres])]
theorem notify_reap_full (L : LeafW I) (u : Nat) (p : Option Nat) (x : String) : Pres I (notify u "reap" p x) :=
  notify_pres L u _ p x
theorem reapTail_pres (L : LeafW I) (u p : Nat) (st : Option Nat) : Pres I (reapTail u p st) :=
  reapTail_ofE L.toLeafWE0 (fun w p x => L.emitEv w "reap" p x) u p st
theorem reapProcess_pres (L : LeafW I) (u p : Nat) (st : Option Nat) : Pres I (reapProcess u p st) :=
  reapProcess_ofE L.toLeafWE0 (fun w p x => L.emitEv w "reap" p x) u p st
theorem callHook_pres (L : LeafW I) (u : Nat) (h : String) : Pres I (callHook u h) :=
  callHook_presE L.toLeafWE0 u h
theorem procStatus_pres (L : LeafW I) (pid : Nat) : Pres I (procStatus pid) :=
  procStatus_presE L.toLeafWE0 pid
theorem isAlive_pres (L : LeafW I) (pid : Nat) : Pres I (isAlive pid) :=
  isAlive_presE L.toLeafWE0 pid
theorem objStop_pres (L : LeafW I) (pid : Nat) : Pres I (objStop pid) :=
  objStop_presE L.toLeafWE0 pid
theorem sendSignal_pres (L : LeafW I) (u p sg : Nat) : Pres I (sendSignal u p sg) :=
  sendSignal_presE L.toLeafWE0 u p sg
theorem sendSignalChild_pres (L : LeafW I) (p c sg : Nat) : Pres I (sendSignalChild p c sg) :=
  sendSignalChild_presE L.toLeafWE0 p c sg
theorem sendSignalProcess_pres (L : LeafW I) (u p sg : Nat) (r : Bool) : Pres I (sendSignalProcess u p sg r) :=
  sendSignalProcess_presE L.toLeafWE0 u p sg r
theorem activeProcs_pres (L : LeafW I) (u : Nat) : Pres I (activeProcs u) :=
  activeProcs_presE L.toLeafWE0 u
theorem setBlocked_pres (L : LeafW I) : Pres I setBlocked :=
  setBlocked_presE L.toLeafWE0 
theorem reapWait_pres (L : LeafW I) (pid fuel : Nat) : Pres I (reapWait pid fuel) :=
  reapWait_presE L.toLeafWE0 pid fuel
theorem reapProcesses_pres (L : LeafW I) (u : Nat) : Pres I (reapProcesses u) :=
  reapProcesses_presE L.toLeafWE u
theorem usedWids_pres (L : LeafW I) (u : Nat) : Pres I (usedWids u) :=
  usedWids_presE L.toLeafWE0 u
theorem arbReapLoop_pres (L : LeafW I) (pm : List (Nat × Nat)) (fuel : Nat) : Pres I (arbReapLoop pm fuel) :=
  arbReapLoop_presE L.toLeafWE pm fuel
theorem registered_pres (L : LeafW I) : Pres I registered :=
  registered_presE L.toLeafWE0 
theorem iterWatchers_pres (L : LeafW I) (r : Bool) : Pres I (iterWatchers r) :=
  iterWatchers_presE L.toLeafWE0 r
theorem arbReapProcesses_pres (L : LeafW I) : Pres I arbReapProcesses :=
  arbReapProcesses_presE L.toLeafWE 

/-! ### Interp -/
/-- the three status writes a coroutine makes in the open -/
@[aesop safe apply (rule_sets := [Pres])]
theorem setStatus_stopping (L : LeafRE I) (u : Nat) : Pres I (setStatus u .stopping) := L.setStatus u _ (by decide)
@[aesop safe apply (rule_sets := [Pres])]
theorem setStatus_starting (L : LeafRE I) (u : Nat) : Pres I (setStatus u .starting) := L.setStatus u _ (by decide)
@[aesop safe apply (rule_sets := [Pres])]
theorem setStatus_active (L : LeafRE I) (u : Nat) : Pres I (setStatus u .active) := L.setStatus u _ (by decide)

@[aesop safe apply (rule_sets := [Pres])]
theorem newFrame_presE (L : LeafRE I) (k : Kont) (p : Waiter) : Pres I (newFrame k p) := by
  have LW := L.toLeafWE
  unfold newFrame; pres
@[aesop safe apply (rule_sets := [Pres])]
theorem addSleeper_presE (L : LeafRE I) (ms : Nat) (w : Waiter) : Pres I (addSleeper ms w) := by
  have LW := L.toLeafWE
  unfold addSleeper; pres
@[aesop safe apply (rule_sets := [Pres])]
theorem sendReply_presE (L : LeafRE I) (hrep : ∀ c i a b d, Pres I (emitRep c i a b d))
    (cid : Option String) (id : JVal) (c : Bool) (a b d : String) :
    Pres I (sendReply cid id c a b d) := by
  have LW := L.toLeafWE
  unfold sendReply
  aesop (add safe apply hrep) (rule_sets := [Pres])
    (config := { terminal := true, useDefaultSimpSet := false, useSimpAll := false, maxRuleApplications := 3000 })
@[aesop safe apply (rule_sets := [Pres])]
theorem multiCollect_presE (L : LeafRE I) (rec : Rec) (hrec : ∀ t, Pres I (rec t)) (f sl : Nat) (v : Val) :
    Pres I (multiCollect rec f sl v) := by
  have LW := L.toLeafWE
  unfold multiCollect; aesop (add safe apply hrec) (rule_sets := [Pres]) (config := { terminal := true, useDefaultSimpSet := false, useSimpAll := false, maxRuleApplications := 3000 })

@[aesop safe apply (rule_sets := [Pres])]
theorem deliver_presE (S : SpecCoreRE I) (rec : Rec) (hrec : ∀ t, Pres I (rec t)) (w : Waiter) (v : Val) :
    Pres I (deliver rec w v) := by
  have L := S.toLeafRE
  have LW := L.toLeafWE
  unfold deliver; aesop (add safe apply hrec) (rule_sets := [Pres]) (config := { terminal := true, useDefaultSimpSet := false, useSimpAll := false, maxRuleApplications := 3000 })

@[aesop safe apply (rule_sets := [Pres])]
theorem await_presE (S : SpecCoreRE I) (rec : Rec) (hrec : ∀ t, Pres I (rec t)) (c : Call) (k : Kont) (p : Waiter) :
    Pres I (await rec c k p) := by
  have L := S.toLeafRE
  have LW := L.toLeafWE
  unfold await; aesop (add safe apply hrec) (rule_sets := [Pres]) (config := { terminal := true, useDefaultSimpSet := false, useSimpAll := false, maxRuleApplications := 3000 })
@[aesop safe apply (rule_sets := [Pres])]
theorem awaitSleep_presE (L : LeafRE I) (ms : Nat) (k : Kont) (p : Waiter) : Pres I (awaitSleep ms k p) := by
  have LW := L.toLeafWE
  unfold awaitSleep; pres
@[aesop safe apply (rule_sets := [Pres])]
theorem awaitMulti_presE (S : SpecCoreRE I) (rec : Rec) (hrec : ∀ t, Pres I (rec t)) (cs : List Call) (k : Kont) (p : Waiter) :
    Pres I (awaitMulti rec cs k p) := by
  have L := S.toLeafRE
  have LW := L.toLeafWE
  unfold awaitMulti; aesop (add safe apply hrec) (rule_sets := [Pres]) (config := { terminal := true, useDefaultSimpSet := false, useSimpAll := false, maxRuleApplications := 3000 })

/-! ### coroutine bodies (open recursion through `rec`) -/
@[aesop safe apply (rule_sets := [Pres])]
theorem popStrict_presE (L : LeafRE I) (u p : Nat) : Pres I (popStrict u p) := by
  have LW := L.toLeafWE
  unfold popStrict; pres
@[aesop safe apply (rule_sets := [Pres])]
theorem pubBefore_presE (L : LeafRE I) (u : Nat) : Pres I (pubBefore u) := by
  have LW := L.toLeafWE
  unfold pubBefore; pres
@[aesop safe apply (rule_sets := [Pres])]
theorem killFinish_presE (S : SpecCoreRE I) (rec : Rec) (hrec : ∀ t, Pres I (rec t)) (wuid pid : Nat) (esc : Bool) (wt : Waiter) : Pres I (killFinish rec wuid pid esc wt) := by
  have L := S.toLeafRE
  have LW := L.toLeafWE
  unfold killFinish; aesop (add safe apply hrec) (rule_sets := [Pres]) (config := { terminal := true, useDefaultSimpSet := false, useSimpAll := false, maxRuleApplications := 3000 })
@[aesop safe apply (rule_sets := [Pres])]
theorem killLoop_presE (S : SpecCoreRE I) (rec : Rec) (hrec : ∀ t, Pres I (rec t)) (wuid pid sig i polls : Nat) (wt : Waiter) : Pres I (killLoop rec wuid pid sig i polls wt) := by
  have L := S.toLeafRE
  have LW := L.toLeafWE
  unfold killLoop; aesop (add safe apply hrec) (rule_sets := [Pres]) (config := { terminal := true, useDefaultSimpSet := false, useSimpAll := false, maxRuleApplications := 3000 })
@[aesop safe apply (rule_sets := [Pres])]
theorem killProcess_presE (S : SpecCoreRE I) (rec : Rec) (hrec : ∀ t, Pres I (rec t)) (wuid pid : Nat) (sig gt : Option Nat) (wt : Waiter) : Pres I (killProcess rec wuid pid sig gt wt) := by
  have L := S.toLeafRE
  have LW := L.toLeafWE
  unfold killProcess; aesop (add safe apply hrec) (rule_sets := [Pres]) (config := { terminal := true, useDefaultSimpSet := false, useSimpAll := false, maxRuleApplications := 3000 })
@[aesop safe apply (rule_sets := [Pres])]
theorem killProcesses_presE (S : SpecCoreRE I) (rec : Rec) (hrec : ∀ t, Pres I (rec t)) (wuid : Nat) (sig gt : Option Nat) (wt : Waiter) : Pres I (killProcesses rec wuid sig gt wt) := by
  have L := S.toLeafRE
  have LW := L.toLeafWE
  unfold killProcesses; aesop (add safe apply hrec) (rule_sets := [Pres]) (config := { terminal := true, useDefaultSimpSet := false, useSimpAll := false, maxRuleApplications := 3000 })
@[aesop safe apply (rule_sets := [Pres])]
theorem stopW_presE (S : SpecCoreRE I) (rec : Rec) (hrec : ∀ t, Pres I (rec t)) (wuid : Nat) (close : Bool) (wt : Waiter) : Pres I (stopW rec wuid close wt) := by
  have L := S.toLeafRE
  have LW := L.toLeafWE
  unfold stopW; aesop (add safe apply hrec) (rule_sets := [Pres]) (config := { terminal := true, useDefaultSimpSet := false, useSimpAll := false, maxRuleApplications := 3000 })
@[aesop safe apply (rule_sets := [Pres])]
theorem stopAfterKill_presE (S : SpecCoreRE I) (rec : Rec) (hrec : ∀ t, Pres I (rec t)) (wuid : Nat) (close : Bool) (wt : Waiter) : Pres I (stopAfterKill rec wuid close wt) := by
  have L := S.toLeafRE
  have LW := L.toLeafWE
  rw [stopAfterKill_eq]; aesop (add safe apply hrec) (rule_sets := [Pres]) (config := { terminal := true, useDefaultSimpSet := false, useSimpAll := false, maxRuleApplications := 3000 })
@[aesop safe apply (rule_sets := [Pres])]
theorem spawnProcess_presE (S : SpecCoreRE I) (rec : Rec) (hrec : ∀ t, Pres I (rec t)) (wuid : Nat) : Pres I (spawnProcess rec wuid) :=
  S.spawnProcess rec hrec wuid
@[aesop safe apply (rule_sets := [Pres])]
theorem pendingSocketEvent_presE (L : LeafRE I) (u : Nat) : Pres I (pendingSocketEvent u) := by
  have LW := L.toLeafWE
  unfold pendingSocketEvent; pres
@[aesop safe apply (rule_sets := [Pres])]
theorem spawnLoop_presE (S : SpecCoreRE I) (rec : Rec) (hrec : ∀ t, Pres I (rec t)) (wuid rem : Nat) (wt : Waiter) : Pres I (spawnLoop rec wuid rem wt) := by
  have L := S.toLeafRE
  have LW := L.toLeafWE
  unfold spawnLoop; aesop (add safe apply hrec) (rule_sets := [Pres]) (config := { terminal := true, useDefaultSimpSet := false, useSimpAll := false, maxRuleApplications := 3000 })
@[aesop safe apply (rule_sets := [Pres])]
theorem spawnProcesses_presE (S : SpecCoreRE I) (rec : Rec) (hrec : ∀ t, Pres I (rec t)) (wuid : Nat) (wt : Waiter) : Pres I (spawnProcesses rec wuid wt) := by
  have L := S.toLeafRE
  have LW := L.toLeafWE
  rw [spawnProcesses_eq]; aesop (add safe apply hrec) (rule_sets := [Pres]) (config := { terminal := true, useDefaultSimpSet := false, useSimpAll := false, maxRuleApplications := 3000 })
@[aesop safe apply (rule_sets := [Pres])]
theorem popKilled_presE (S : SpecCoreRE I) (rec : Rec) (hrec : ∀ t, Pres I (rec t)) (wuid : Nat) (tk : List Nat) (v : Val) (wt : Waiter) : Pres I (popKilled rec wuid tk v wt) := by
  have L := S.toLeafRE
  have LW := L.toLeafWE
  unfold popKilled; aesop (add safe apply hrec) (rule_sets := [Pres]) (config := { terminal := true, useDefaultSimpSet := false, useSimpAll := false, maxRuleApplications := 3000 })
@[aesop safe apply (rule_sets := [Pres])]
theorem manageTail_presE (S : SpecCoreRE I) (rec : Rec) (hrec : ∀ t, Pres I (rec t)) (wuid : Nat) (wt : Waiter) : Pres I (manageTail rec wuid wt) := by
  have L := S.toLeafRE
  have LW := L.toLeafWE
  unfold manageTail; aesop (add safe apply hrec) (rule_sets := [Pres]) (config := { terminal := true, useDefaultSimpSet := false, useSimpAll := false, maxRuleApplications := 3000 })
@[aesop safe apply (rule_sets := [Pres])]
theorem manageAfterExpire_presE (S : SpecCoreRE I) (rec : Rec) (hrec : ∀ t, Pres I (rec t)) (wuid : Nat) (wt : Waiter) : Pres I (manageAfterExpire rec wuid wt) := by
  have L := S.toLeafRE
  have LW := L.toLeafWE
  unfold manageAfterExpire; aesop (add safe apply hrec) (rule_sets := [Pres]) (config := { terminal := true, useDefaultSimpSet := false, useSimpAll := false, maxRuleApplications := 3000 })
@[aesop safe apply (rule_sets := [Pres])]
theorem removeExpired_presE (S : SpecCoreRE I) (rec : Rec) (hrec : ∀ t, Pres I (rec t)) (wuid : Nat) (wt : Waiter) : Pres I (removeExpired rec wuid wt) := by
  have L := S.toLeafRE
  have LW := L.toLeafWE
  unfold removeExpired; aesop (add safe apply hrec) (rule_sets := [Pres]) (config := { terminal := true, useDefaultSimpSet := false, useSimpAll := false, maxRuleApplications := 3000 })
@[aesop safe apply (rule_sets := [Pres])]
theorem manageProcesses_presE (S : SpecCoreRE I) (rec : Rec) (hrec : ∀ t, Pres I (rec t)) (wuid : Nat) (wt : Waiter) : Pres I (manageProcesses rec wuid wt) := by
  have L := S.toLeafRE
  have LW := L.toLeafWE
  unfold manageProcesses; aesop (add safe apply hrec) (rule_sets := [Pres]) (config := { terminal := true, useDefaultSimpSet := false, useSimpAll := false, maxRuleApplications := 3000 })
@[aesop safe apply (rule_sets := [Pres])]
theorem startW_presE (S : SpecCoreRE I) (rec : Rec) (hrec : ∀ t, Pres I (rec t)) (wuid : Nat) (wt : Waiter) : Pres I (startW rec wuid wt) := by
  have L := S.toLeafRE
  have LW := L.toLeafWE
  unfold startW; aesop (add safe apply hrec) (rule_sets := [Pres]) (config := { terminal := true, useDefaultSimpSet := false, useSimpAll := false, maxRuleApplications := 3000 })
@[aesop safe apply (rule_sets := [Pres])]
theorem startAfterSpawn_presE (S : SpecCoreRE I) (rec : Rec) (hrec : ∀ t, Pres I (rec t)) (wuid : Nat) (wt : Waiter) : Pres I (startAfterSpawn rec wuid wt) := by
  have L := S.toLeafRE
  have LW := L.toLeafWE
  unfold startAfterSpawn; aesop (add safe apply hrec) (rule_sets := [Pres]) (config := { terminal := true, useDefaultSimpSet := false, useSimpAll := false, maxRuleApplications := 3000 })
@[aesop safe apply (rule_sets := [Pres])]
theorem reloadW_presE (S : SpecCoreRE I) (rec : Rec) (hrec : ∀ t, Pres I (rec t)) (wuid : Nat) (g sq : Bool) (wt : Waiter) : Pres I (reloadW rec wuid g sq wt) := by
  have L := S.toLeafRE
  have LW := L.toLeafWE
  unfold reloadW; aesop (add safe apply hrec) (rule_sets := [Pres]) (config := { terminal := true, useDefaultSimpSet := false, useSimpAll := false, maxRuleApplications := 3000 })
@[aesop safe apply (rule_sets := [Pres])]
theorem reloadSeqNext_presE (S : SpecCoreRE I) (rec : Rec) (hrec : ∀ t, Pres I (rec t)) (wuid : Nat) (rest : List Nat) (wt : Waiter) : Pres I (reloadSeqNext rec wuid rest wt) := by
  have L := S.toLeafRE
  have LW := L.toLeafWE
  unfold reloadSeqNext; aesop (add safe apply hrec) (rule_sets := [Pres]) (config := { terminal := true, useDefaultSimpSet := false, useSimpAll := false, maxRuleApplications := 3000 })
@[aesop safe apply (rule_sets := [Pres])]
theorem reloadSeqAfterKill_presE (S : SpecCoreRE I) (rec : Rec) (hrec : ∀ t, Pres I (rec t)) (wuid pid : Nat) (rest : List Nat) (wt : Waiter) : Pres I (reloadSeqAfterKill rec wuid pid rest wt) := by
  have L := S.toLeafRE
  have LW := L.toLeafWE
  unfold reloadSeqAfterKill; aesop (add safe apply hrec) (rule_sets := [Pres]) (config := { terminal := true, useDefaultSimpSet := false, useSimpAll := false, maxRuleApplications := 3000 })
@[aesop safe apply (rule_sets := [Pres])]
theorem setNumprocesses_presE (S : SpecCoreRE I) (rec : Rec) (hrec : ∀ t, Pres I (rec t)) (wuid : Nat) (n : Int) (wt : Waiter) : Pres I (setNumprocesses rec wuid n wt) := by
  have L := S.toLeafRE
  have LW := L.toLeafWE
  unfold setNumprocesses; aesop (add safe apply hrec) (rule_sets := [Pres]) (config := { terminal := true, useDefaultSimpSet := false, useSimpAll := false, maxRuleApplications := 3000 })
@[aesop safe apply (rule_sets := [Pres])]
theorem doAction_presE (S : SpecCoreRE I) (rec : Rec) (hrec : ∀ t, Pres I (rec t)) (wuid : Nat) (n : Int) (wt : Waiter) : Pres I (doAction rec wuid n wt) := by
  have L := S.toLeafRE
  have LW := L.toLeafWE
  unfold doAction; aesop (add safe apply hrec) (rule_sets := [Pres]) (config := { terminal := true, useDefaultSimpSet := false, useSimpAll := false, maxRuleApplications := 3000 })
@[aesop safe apply (rule_sets := [Pres])]
theorem pubInfo_presE (S : SpecCoreRE I) (rec : Rec) (hrec : ∀ t, Pres I (rec t)) (wuid : Nat) (b : List Nat) (wt : Waiter) : Pres I (pubInfo rec wuid b wt) := by
  have L := S.toLeafRE
  have LW := L.toLeafWE
  unfold pubInfo; aesop (add safe apply hrec) (rule_sets := [Pres]) (config := { terminal := true, useDefaultSimpSet := false, useSimpAll := false, maxRuleApplications := 3000 })
@[aesop safe apply (rule_sets := [Pres])]
theorem arbStartNext_presE (S : SpecCoreRE I) (rec : Rec) (hrec : ∀ t, Pres I (rec t)) (ws : List Nat) (wt : Waiter) : Pres I (arbStartNext rec ws wt) := by
  have L := S.toLeafRE
  have LW := L.toLeafWE
  unfold arbStartNext; aesop (add safe apply hrec) (rule_sets := [Pres]) (config := { terminal := true, useDefaultSimpSet := false, useSimpAll := false, maxRuleApplications := 3000 })
@[aesop safe apply (rule_sets := [Pres])]
theorem arbStartAfterStart_presE (S : SpecCoreRE I) (rec : Rec) (hrec : ∀ t, Pres I (rec t)) (ws : List Nat) (wt : Waiter) : Pres I (arbStartAfterStart rec ws wt) := by
  have L := S.toLeafRE
  have LW := L.toLeafWE
  unfold arbStartAfterStart; aesop (add safe apply hrec) (rule_sets := [Pres]) (config := { terminal := true, useDefaultSimpSet := false, useSimpAll := false, maxRuleApplications := 3000 })
@[aesop safe apply (rule_sets := [Pres])]
theorem arbStopTail_presE (S : SpecCoreRE I) (rec : Rec) (hrec : ∀ t, Pres I (rec t)) (wt : Waiter) : Pres I (arbStopTail rec wt) := by
  have L := S.toLeafRE
  have LW := L.toLeafWE
  unfold arbStopTail; aesop (add safe apply hrec) (rule_sets := [Pres]) (config := { terminal := true, useDefaultSimpSet := false, useSimpAll := false, maxRuleApplications := 3000 })
@[aesop safe apply (rule_sets := [Pres])]
theorem arbStop_presE (S : SpecCoreRE I) (rec : Rec) (hrec : ∀ t, Pres I (rec t)) (wt : Waiter) : Pres I (arbStop rec wt) := by
  have L := S.toLeafRE
  have LW := L.toLeafWE
  unfold arbStop; aesop (add safe apply hrec) (rule_sets := [Pres]) (config := { terminal := true, useDefaultSimpSet := false, useSimpAll := false, maxRuleApplications := 3000 })
@[aesop safe apply (rule_sets := [Pres])]
theorem arbRestartInside_presE (S : SpecCoreRE I) (rec : Rec) (hrec : ∀ t, Pres I (rec t)) (wt : Waiter) : Pres I (arbRestartInside rec wt) := by
  have L := S.toLeafRE
  have LW := L.toLeafWE
  unfold arbRestartInside; aesop (add safe apply hrec) (rule_sets := [Pres]) (config := { terminal := true, useDefaultSimpSet := false, useSimpAll := false, maxRuleApplications := 3000 })
@[aesop safe apply (rule_sets := [Pres])]
theorem arbReloadNext_presE (S : SpecCoreRE I) (rec : Rec) (hrec : ∀ t, Pres I (rec t)) (ws : List Nat) (g sq : Bool) (wt : Waiter) : Pres I (arbReloadNext rec ws g sq wt) := by
  have L := S.toLeafRE
  have LW := L.toLeafWE
  unfold arbReloadNext; aesop (add safe apply hrec) (rule_sets := [Pres]) (config := { terminal := true, useDefaultSimpSet := false, useSimpAll := false, maxRuleApplications := 3000 })
@[aesop safe apply (rule_sets := [Pres])]
theorem arbReloadAfter_presE (S : SpecCoreRE I) (rec : Rec) (hrec : ∀ t, Pres I (rec t)) (ws : List Nat) (g sq : Bool) (wt : Waiter) : Pres I (arbReloadAfter rec ws g sq wt) := by
  have L := S.toLeafRE
  have LW := L.toLeafWE
  unfold arbReloadAfter; aesop (add safe apply hrec) (rule_sets := [Pres]) (config := { terminal := true, useDefaultSimpSet := false, useSimpAll := false, maxRuleApplications := 3000 })
@[aesop safe apply (rule_sets := [Pres])]
theorem manageWatchers_presE (S : SpecCoreRE I) (rec : Rec) (hrec : ∀ t, Pres I (rec t)) (wt : Waiter) : Pres I (manageWatchers rec wt) := by
  have L := S.toLeafRE
  have LW := L.toLeafWE
  unfold manageWatchers; aesop (add safe apply hrec) (rule_sets := [Pres]) (config := { terminal := true, useDefaultSimpSet := false, useSimpAll := false, maxRuleApplications := 3000 })
@[aesop safe apply (rule_sets := [Pres])]
theorem rmWatcher_presE (S : SpecCoreRE I) (rec : Rec) (hrec : ∀ t, Pres I (rec t)) (uid : Nat) (ns : Bool) (wt : Waiter) : Pres I (rmWatcher rec uid ns wt) := by
  have L := S.toLeafRE
  have LW := L.toLeafWE
  unfold rmWatcher; aesop (add safe apply hrec) (rule_sets := [Pres]) (config := { terminal := true, useDefaultSimpSet := false, useSimpAll := false, maxRuleApplications := 3000 })
@[aesop safe apply (rule_sets := [Pres])]
theorem manageWatchersTail_presE (S : SpecCoreRE I) (rec : Rec) (hrec : ∀ t, Pres I (rec t)) (need : Bool) (wt : Waiter) : Pres I (manageWatchersTail rec need wt) := by
  have L := S.toLeafRE
  have LW := L.toLeafWE
  have hnt : Pres I (newTop []) := S.newTopNR _ (by simp)
  unfold manageWatchersTail; aesop (add safe apply hrec, safe apply hnt) (rule_sets := [Pres]) (config := { terminal := true, useDefaultSimpSet := false, useSimpAll := false, maxRuleApplications := 3000 })
@[aesop safe apply (rule_sets := [Pres])]
theorem runCall_presE (S : SpecCoreRE I) (rec : Rec) (hrec : ∀ t, Pres I (rec t)) (c : Call) (wt : Waiter) : Pres I (runCall rec c wt) := by
  have L := S.toLeafRE
  have LW := L.toLeafWE
  unfold runCall; aesop (add safe apply hrec) (rule_sets := [Pres]) (config := { terminal := true, useDefaultSimpSet := false, useSimpAll := false, maxRuleApplications := 3000 })
@[aesop safe apply (rule_sets := [Pres])]
theorem runResume_presE (S : SpecCoreRE I) (rec : Rec) (hrec : ∀ t, Pres I (rec t)) (k : Kont) (v : Val) (wt : Waiter) : Pres I (runResume rec k v wt) := by
  have L := S.toLeafRE
  have LW := L.toLeafWE
  unfold runResume; aesop (add safe apply hrec) (rule_sets := [Pres]) (config := { terminal := true, useDefaultSimpSet := false, useSimpAll := false, maxRuleApplications := 3000 })
theorem exec_presE (S : SpecCoreRE I) (n : Nat) (t : Task) : Pres I (exec n t) := by
  have L := S.toLeafRE
  have LW := L.toLeafWE
  induction n generalizing t with
  | zero => unfold exec; pres
  | succ n ih =>
    unfold exec
    aesop (add safe apply ih) (rule_sets := [Pres]) (config := { terminal := true, useDefaultSimpSet := false, useSimpAll := false, maxRuleApplications := 3000 })
/-! ### dispatch and commands -/
@[aesop safe apply (rule_sets := [Pres])]
theorem lookupWatcher_presE (L : LeafRE I) (n : String) : Pres I (lookupWatcher n) := by
  have LW := L.toLeafWE
  unfold lookupWatcher; pres
@[aesop safe apply (rule_sets := [Pres])]
theorem getWatcherCmd_presE (L : LeafRE I) (n : JVal) : Pres I (getWatcherCmd n) := by
  have LW := L.toLeafWE
  unfold getWatcherCmd; pres
@[aesop safe apply (rule_sets := [Pres])]
theorem matchWatchers_presE (L : LeafRE I) (p : JVal) : Pres I (matchWatchers p) := by
  have LW := L.toLeafWE
  unfold matchWatchers; pres
@[aesop safe apply (rule_sets := [Pres])]
theorem sortUids_presE (L : LeafRE I) (us : List Nat) (r : Bool) : Pres I (sortUids us r) := by
  have LW := L.toLeafWE
  unfold sortUids; pres
@[aesop safe apply (rule_sets := [Pres])]
theorem plainCoroutine_presE (S : SpecCoreRE I) (c : Call) : Pres I (plainCoroutine c []) := by
  have L := S.toLeafRE
  have LW := L.toLeafWE
  have h1 : Pres I (newTop ([] : List TopCb)) := S.newTopNR _ (by simp)
  have h2 := exec_presE S
  unfold plainCoroutine
  aesop (add safe apply h1, safe apply h2) (rule_sets := [Pres]) (config := { terminal := true, useDefaultSimpSet := false, useSimpAll := false, maxRuleApplications := 3000 })
@[aesop safe apply (rule_sets := [Pres])]
theorem syncCoroutine_presE (S : SpecCoreRE I) (name : String) (c : Call) : Pres I (syncCoroutine name c []) :=
  S.syncCo (exec_presE S) name c
@[aesop safe apply (rule_sets := [Pres])]
theorem execSSR_presE (S : SpecCoreRE I) (kind : String) (p : JVal) : Pres I (execSSR kind p) := by
  have L := S.toLeafRE
  have LW := L.toLeafWE
  unfold execSSR; pres
@[aesop safe apply (rule_sets := [Pres])]
theorem execIncrDecr_presE (S : SpecCoreRE I) (sg : Int) (p : JVal) : Pres I (execIncrDecr sg p) := by
  have L := S.toLeafRE
  have LW := L.toLeafWE
  unfold execIncrDecr; pres
@[aesop safe apply (rule_sets := [Pres])]
theorem execReload_presE (S : SpecCoreRE I) (p : JVal) : Pres I (execReload p) := by
  have L := S.toLeafRE
  have LW := L.toLeafWE
  unfold execReload; pres
@[aesop safe apply (rule_sets := [Pres])]
theorem execSet_presE (S : SpecCoreRE I) (p : JVal) : Pres I (execSet p) := by
  have L := S.toLeafRE
  have LW := L.toLeafWE
  unfold execSet; pres
@[aesop safe apply (rule_sets := [Pres])]
theorem execKill_presE (S : SpecCoreRE I) (p : JVal) : Pres I (execKill p) := by
  have L := S.toLeafRE
  have LW := L.toLeafWE
  unfold execKill; pres
@[aesop safe apply (rule_sets := [Pres])]
theorem execSignal_presE (S : SpecCoreRE I) (p : JVal) : Pres I (execSignal p) := by
  have L := S.toLeafRE
  have LW := L.toLeafWE
  unfold execSignal; pres
@[aesop safe apply (rule_sets := [Pres])]
theorem execRm_presE (S : SpecCoreRE I) (p : JVal) : Pres I (execRm p) := by
  have L := S.toLeafRE
  have LW := L.toLeafWE
  unfold execRm; pres
@[aesop safe apply (rule_sets := [Pres])]
theorem execAdd_presE (S : SpecCoreRE I) (p : JVal) : Pres I (execAdd p) := by
  have L := S.toLeafRE
  have LW := L.toLeafWE
  unfold execAdd; pres
@[aesop safe apply (rule_sets := [Pres])]
theorem procInfo_presE (L : LeafWE0 I) (pid : Nat) : Pres I (procInfo pid) := by
  have LK := L.toLeafK
  unfold procInfo; pres
@[aesop safe apply (rule_sets := [Pres])]
theorem watcherInfo_presE (L : LeafWE0 I) (u : Nat) : Pres I (watcherInfo u) := by
  have LK := L.toLeafK
  unfold watcherInfo; pres
@[aesop safe apply (rule_sets := [Pres])]
theorem statsProc_presE (L : LeafWE0 I) (w : Watcher) (p : Int) : Pres I (statsProc w p) := by
  have LK := L.toLeafK
  unfold statsProc; pres
@[aesop safe apply (rule_sets := [Pres])]
theorem statsWatcher_presE (L : LeafWE0 I) (u : Nat) (n : JVal) : Pres I (statsWatcher u n) := by
  have LK := L.toLeafK
  unfold statsWatcher; pres
@[aesop safe apply (rule_sets := [Pres])]
theorem statsAllLoop_presE (L : LeafWE0 I) (ws : List Watcher) (parts : List (String × String)) :
    Pres I (statsAllLoop ws parts) := by
  have LK := L.toLeafK
  induction ws generalizing parts with
  | nil => unfold statsAllLoop; pres
  | cons w ws ih => unfold statsAllLoop; pres
@[aesop safe apply (rule_sets := [Pres])]
theorem statsAll_presE (L : LeafWE0 I) : Pres I statsAll := by
  have LK := L.toLeafK
  unfold statsAll; pres
@[aesop safe apply (rule_sets := [Pres])]
theorem execStats_presE (S : SpecCoreRE I) (p : JVal) : Pres I (execStats p) := by
  have L := S.toLeafRE
  have LW := L.toLeafWE
  have LW0 := LW.toLeafWE0
  unfold execStats; pres
@[aesop safe apply (rule_sets := [Pres])]
theorem execOptions_presE (S : SpecCoreRE I) (p : JVal) : Pres I (execOptions p) := by
  have L := S.toLeafRE
  have LW := L.toLeafWE
  unfold execOptions; pres
@[aesop safe apply (rule_sets := [Pres])]
theorem execGet_presE (S : SpecCoreRE I) (p : JVal) : Pres I (execGet p) := by
  have L := S.toLeafRE
  have LW := L.toLeafWE
  unfold execGet; pres
@[aesop safe apply (rule_sets := [Pres])]
theorem execReadOnly_presE (S : SpecCoreRE I) (c : String) (p : JVal) : Pres I (execReadOnly c p) := by
  have L := S.toLeafRE
  have LW := L.toLeafWE
  unfold execReadOnly; pres
@[aesop safe apply (rule_sets := [Pres])]
theorem validateExecute_presE (S : SpecCoreRE I) (c : String) (p : JVal) : Pres I (validateExecute c p) := by
  have L := S.toLeafRE
  have LW := L.toLeafWE
  unfold validateExecute; pres
@[aesop safe apply (rule_sets := [Pres])]
theorem handleMessage_presE (S : SpecMRE I) (cid : Option String) (msg : Option JVal) : Pres I (handleMessage cid msg) := by
  have L := S.toLeafRE
  have LW := L.toLeafWE
  have hadd : ∀ tid a b c d e f, Pres I (addDoneCallback tid (TopCb.reply a b c d e f)) :=
    fun tid a b c d e f => S.addDone _ _ (by simp)
  have hrep := S.emitRep
  have hve := validateExecute_presE S.toSpecCoreRE
  unfold handleMessage
  aesop (add safe apply hadd, safe apply hrep, safe apply hve) (rule_sets := [Pres]) (config := { terminal := true, useDefaultSimpSet := false, useSimpAll := false, maxRuleApplications := 3000 })
@[aesop safe apply (rule_sets := [Pres])]
theorem sigQuit_presE (S : SpecMRE I) : Pres I sigQuit := by
  have L := S.toLeafRE
  have LW := L.toLeafWE
  have h := handleMessage_presE S
  unfold sigQuit
  aesop (add safe apply h) (rule_sets := [Pres])
    (config := { terminal := true, useDefaultSimpSet := false, useSimpAll := false, maxRuleApplications := 3000 })
theorem settle_presE (S : SpecRE I) (n : Nat) : Pres I (settle n) := by
  have L := S.toLeafRE
  have LW := L.toLeafWE
  have hs := S.settleStep (exec_presE S.toSpecCoreRE) (sigQuit_presE S.toSpecMRE)
  induction n with
  | zero => unfold settle; pres
  | succ n ih =>
    unfold settle
    aesop (add safe apply ih, safe apply hs) (rule_sets := [Pres]) (config := { terminal := true, useDefaultSimpSet := false, useSimpAll := false, maxRuleApplications := 3000 })
theorem stepOp_presE (S : SpecMRE I) (op : Op) : Pres I (stepOp op) := by
  have L := S.toLeafRE
  have LW := L.toLeafWE
  have hadd : ∀ tid, Pres I (addDoneCallback tid TopCb.watch) := fun tid => S.addDone _ _ (by simp)
  have he := exec_presE S.toSpecCoreRE
  have hh := handleMessage_presE S
  have hq := sigQuit_presE S
  have hsc := syncCoroutine_presE S.toSpecCoreRE
  have hadv : ∀ ms ds, Pres I (updK fun k => k.advance ms ds) := fun ms ds => updK_pres LW.toLeafK _ (fun k => KStep.advance k ms ds)
  have hdie : ∀ p st, Pres I (updK fun k => k.die p st) := fun p st => updK_pres LW.toLeafK _ (fun k => KStep.die k p st)
  have hflt : ∀ n p st, Pres I (updK fun k => k.addFault n p st) := fun n p st => updK_pres LW.toLeafK _ (fun k => KStep.addFault k n p st)
  cases op <;> simp only [stepOp] <;>
  aesop (add safe apply hadd, safe apply he, safe apply hh, safe apply hq, safe apply hsc, safe apply hadv, safe apply hdie, safe apply hflt) (rule_sets := [Pres])
    (config := { terminal := true, useDefaultSimpSet := false, useSimpAll := false, maxRuleApplications := 3000 })
theorem stepTail_presE (S : SpecRE I) : Pres I stepTail := by
  have L := S.toLeafRE
  have LW := L.toLeafWE
  have hst := settle_presE S
  have hsc := S.stopController
  unfold stepTail
  aesop (add safe apply hst, safe apply hsc) (rule_sets := [Pres])
    (config := { terminal := true, useDefaultSimpSet := false, useSimpAll := false, maxRuleApplications := 3000 })
theorem stepM_presE (S : SpecRE I) (op : Op) : Pres I (stepM op) := by
  have L := S.toLeafRE
  have LW := L.toLeafWE
  have h1 := stepOp_presE S.toSpecMRE
  have h2 := stepTail_presE S
  have h3 : Pres I (updK Kernel.beginStep) := updK_pres LW.toLeafK _ KStep.beginStep
  unfold stepM
  aesop (add safe apply h1, safe apply h2, safe apply h3) (rule_sets := [Pres])
    (config := { terminal := true, useDefaultSimpSet := false, useSimpAll := false, maxRuleApplications := 3000 })

/-- an invariant with a `Spec` holds along every run -/
theorem run_presE (S : SpecRE I) (s : State) (ops : List Op) (h : I s) : I (run s ops) := by
  induction ops generalizing s with
  | nil => exact h
  | cons o os ih => exact ih _ (stepM_presE S o s h)



/-! ### from the `R` chain to the `E` chain -/

theorem stopController_ofE (L : LeafRE I) (hc : Pres I setClosed) : Pres I stopController := by
  have LW := L.toLeafWE
  unfold stopController
  aesop (add safe apply hc) (rule_sets := [Pres]) (config := { terminal := true, useDefaultSimpSet := false, useSimpAll := false, maxRuleApplications := 3000 })

/-- `spawn_process`'s attempts, for an invariant that survives `spawnAdopt` for any watcher and a
    `spawn` event for any pid -/
theorem spawnTry_ofE (L : LeafRE I) (hsa : ∀ u w, Pres I (spawnAdopt u w))
    (hnew : ∀ cbs, TopCb.release ∉ cbs → Pres I (newTop cbs))
    (hsp : ∀ w p x, Pres I (emitEv w "spawn" p x))
    (rec : Rec) (hrec : ∀ t, Pres I (rec t)) (wuid n : Nat) : Pres I (spawnTry rec wuid n) := by
  have LW := L.toLeafWE
  have hn : ∀ q x, Pres I (notify wuid "spawn" q x) := by
    intro q x; unfold notify; aesop (add safe apply hsp) (rule_sets := [Pres]) (config := { terminal := true, useDefaultSimpSet := false, useSimpAll := false, maxRuleApplications := 3000 })
  induction n with
  | zero => unfold spawnTry; pres
  | succ n ih =>
    unfold spawnTry
    have hnew2 : ∀ pid, Pres I (newTop [TopCb.popProc wuid pid]) := fun pid => hnew _ (by simp)
    aesop (add safe apply ih, safe apply hrec, safe apply hnew2, safe apply hsa, safe apply hn) (rule_sets := [Pres]) (config := { terminal := true, useDefaultSimpSet := false, useSimpAll := false, maxRuleApplications := 3000 })

theorem spawnProcess_ofE (L : LeafRE I) (hsa : ∀ u w, Pres I (spawnAdopt u w))
    (hnew : ∀ cbs, TopCb.release ∉ cbs → Pres I (newTop cbs))
    (hsp : ∀ w p x, Pres I (emitEv w "spawn" p x))
    (rec : Rec) (hrec : ∀ t, Pres I (rec t)) (wuid : Nat) : Pres I (spawnProcess rec wuid) := by
  have LW := L.toLeafWE
  have h := spawnTry_ofE L hsa hnew hsp rec hrec wuid
  unfold spawnProcess; aesop (add safe apply h) (rule_sets := [Pres]) (config := { terminal := true, useDefaultSimpSet := false, useSimpAll := false, maxRuleApplications := 3000 })

theorem stopCore_ofE (L : LeafWE I) (hst : ∀ u, Pres I (setStatus u .stopped)) (u : Nat) : Pres I (stopCore u) := by
  unfold stopCore; aesop (add safe apply hst) (rule_sets := [Pres]) (config := { terminal := true, useDefaultSimpSet := false, useSimpAll := false, maxRuleApplications := 3000 })

theorem guardedStop_of (hst : ∀ u, Pres I (setStatus u .stopped)) (u : Nat) : Pres I (guardedStop u) := by
  unfold guardedStop; aesop (add safe apply hst) (rule_sets := [Pres]) (config := { terminal := true, useDefaultSimpSet := false, useSimpAll := false, maxRuleApplications := 3000 })

theorem LeafR.toLeafRE (L : LeafR I) : LeafRE I where
  toLeafWE := L.toLeafW.toLeafWE
  setStatus := L.setStatus
  trySetNp := L.trySetNp
  setWOpt := L.setWOpt
  freshId := L.freshId
  pushFrame := L.pushFrame
  removeFrame := L.removeFrame
  setFrameK := L.setFrameK
  armFrame := L.armFrame
  pushSleeper := L.pushSleeper
  armTop := L.armTop
  setStopping := L.setStopping
  setRestarting := L.setRestarting
  clearRestarting := L.clearRestarting
  setLoopStop := L.setLoopStop
  setSocketEvent := L.setSocketEvent
  setSockReady := L.setSockReady
  clearDone := L.clearDone
  unregister := L.unregister
  registerNew := L.registerNew
  fireSleeper := L.fireSleeper
  enqueueResume := L.enqueueResume
  enqueueCallback := L.enqueueCallback

attribute [aesop safe apply (rule_sets := [Pres])] LeafR.toLeafRE

theorem SpecCoreR.toSpecCoreRE (S : SpecCoreR I) : SpecCoreRE I where
  toLeafRE := S.toLeafR.toLeafRE
  deliverTop := S.deliverTop
  newTopNR := S.newTopNR
  addDone := S.addDone
  syncCo := S.syncCo
  syncSetOpt := S.syncSetOpt
  syncAdd := S.syncAdd
  spawnProcess := S.spawnProcess
  stopCore := S.stopCore
  guardedStop := S.guardedStop

theorem SpecMR.toSpecMRE (S : SpecMR I) : SpecMRE I where
  toSpecCoreRE := S.toSpecCoreR.toSpecCoreRE
  emitRep := S.emitRep

theorem SpecR.toSpecRE (S : SpecR I) : SpecRE I where
  toSpecMRE := S.toSpecMR.toSpecMRE
  settleStep := S.settleStep
  stopController := S.stopController

/-! ### the same theorems for the `R` chain -/
theorem newFrame_presR (L : LeafR I) (k : Kont) (p : Waiter) : Pres I (newFrame k p) :=
  newFrame_presE L.toLeafRE k p

theorem addSleeper_presR (L : LeafR I) (ms : Nat) (w : Waiter) : Pres I (addSleeper ms w) :=
  addSleeper_presE L.toLeafRE ms w

theorem sendReply_presR (L : LeafR I) (hrep : ∀ c i a b d, Pres I (emitRep c i a b d))
    (cid : Option String) (id : JVal) (c : Bool) (a b d : String) :
    Pres I (sendReply cid id c a b d) :=
  sendReply_presE L.toLeafRE hrep cid id c a b d

theorem multiCollect_presR (L : LeafR I) (rec : Rec) (hrec : ∀ t, Pres I (rec t)) (f sl : Nat) (v : Val) :
    Pres I (multiCollect rec f sl v) :=
  multiCollect_presE L.toLeafRE rec hrec f sl v

theorem deliver_presR (S : SpecCoreR I) (rec : Rec) (hrec : ∀ t, Pres I (rec t)) (w : Waiter) (v : Val) :
    Pres I (deliver rec w v) :=
  deliver_presE S.toSpecCoreRE rec hrec w v

theorem await_presR (S : SpecCoreR I) (rec : Rec) (hrec : ∀ t, Pres I (rec t)) (c : Call) (k : Kont) (p : Waiter) :
    Pres I (await rec c k p) :=
  await_presE S.toSpecCoreRE rec hrec c k p

theorem awaitSleep_presR (L : LeafR I) (ms : Nat) (k : Kont) (p : Waiter) : Pres I (awaitSleep ms k p) :=
  awaitSleep_presE L.toLeafRE ms k p

theorem awaitMulti_presR (S : SpecCoreR I) (rec : Rec) (hrec : ∀ t, Pres I (rec t)) (cs : List Call) (k : Kont) (p : Waiter) :
    Pres I (awaitMulti rec cs k p) :=
  awaitMulti_presE S.toSpecCoreRE rec hrec cs k p

theorem popStrict_presR (L : LeafR I) (u p : Nat) : Pres I (popStrict u p) :=
  popStrict_presE L.toLeafRE u p

theorem pubBefore_presR (L : LeafR I) (u : Nat) : Pres I (pubBefore u) :=
  pubBefore_presE L.toLeafRE u

theorem killFinish_presR (S : SpecCoreR I) (rec : Rec) (hrec : ∀ t, Pres I (rec t)) (wuid pid : Nat) (esc : Bool) (wt : Waiter) : Pres I (killFinish rec wuid pid esc wt) :=
  killFinish_presE S.toSpecCoreRE rec hrec wuid pid esc wt

theorem killLoop_presR (S : SpecCoreR I) (rec : Rec) (hrec : ∀ t, Pres I (rec t)) (wuid pid sig i polls : Nat) (wt : Waiter) : Pres I (killLoop rec wuid pid sig i polls wt) :=
  killLoop_presE S.toSpecCoreRE rec hrec wuid pid sig i polls wt

theorem killProcess_presR (S : SpecCoreR I) (rec : Rec) (hrec : ∀ t, Pres I (rec t)) (wuid pid : Nat) (sig gt : Option Nat) (wt : Waiter) : Pres I (killProcess rec wuid pid sig gt wt) :=
  killProcess_presE S.toSpecCoreRE rec hrec wuid pid sig gt wt

theorem killProcesses_presR (S : SpecCoreR I) (rec : Rec) (hrec : ∀ t, Pres I (rec t)) (wuid : Nat) (sig gt : Option Nat) (wt : Waiter) : Pres I (killProcesses rec wuid sig gt wt) :=
  killProcesses_presE S.toSpecCoreRE rec hrec wuid sig gt wt

theorem stopW_presR (S : SpecCoreR I) (rec : Rec) (hrec : ∀ t, Pres I (rec t)) (wuid : Nat) (close : Bool) (wt : Waiter) : Pres I (stopW rec wuid close wt) :=
  stopW_presE S.toSpecCoreRE rec hrec wuid close wt

theorem stopAfterKill_presR (S : SpecCoreR I) (rec : Rec) (hrec : ∀ t, Pres I (rec t)) (wuid : Nat) (close : Bool) (wt : Waiter) : Pres I (stopAfterKill rec wuid close wt) :=
  stopAfterKill_presE S.toSpecCoreRE rec hrec wuid close wt

theorem spawnProcess_presR (S : SpecCoreR I) (rec : Rec) (hrec : ∀ t, Pres I (rec t)) (wuid : Nat) : Pres I (spawnProcess rec wuid) :=
  spawnProcess_presE S.toSpecCoreRE rec hrec wuid

theorem pendingSocketEvent_presR (L : LeafR I) (u : Nat) : Pres I (pendingSocketEvent u) :=
  pendingSocketEvent_presE L.toLeafRE u

theorem spawnLoop_presR (S : SpecCoreR I) (rec : Rec) (hrec : ∀ t, Pres I (rec t)) (wuid rem : Nat) (wt : Waiter) : Pres I (spawnLoop rec wuid rem wt) :=
  spawnLoop_presE S.toSpecCoreRE rec hrec wuid rem wt

theorem spawnProcesses_presR (S : SpecCoreR I) (rec : Rec) (hrec : ∀ t, Pres I (rec t)) (wuid : Nat) (wt : Waiter) : Pres I (spawnProcesses rec wuid wt) :=
  spawnProcesses_presE S.toSpecCoreRE rec hrec wuid wt

theorem popKilled_presR (S : SpecCoreR I) (rec : Rec) (hrec : ∀ t, Pres I (rec t)) (wuid : Nat) (tk : List Nat) (v : Val) (wt : Waiter) : Pres I (popKilled rec wuid tk v wt) :=
  popKilled_presE S.toSpecCoreRE rec hrec wuid tk v wt

theorem manageTail_presR (S : SpecCoreR I) (rec : Rec) (hrec : ∀ t, Pres I (rec t)) (wuid : Nat) (wt : Waiter) : Pres I (manageTail rec wuid wt) :=
  manageTail_presE S.toSpecCoreRE rec hrec wuid wt

theorem manageAfterExpire_presR (S : SpecCoreR I) (rec : Rec) (hrec : ∀ t, Pres I (rec t)) (wuid : Nat) (wt : Waiter) : Pres I (manageAfterExpire rec wuid wt) :=
  manageAfterExpire_presE S.toSpecCoreRE rec hrec wuid wt

theorem removeExpired_presR (S : SpecCoreR I) (rec : Rec) (hrec : ∀ t, Pres I (rec t)) (wuid : Nat) (wt : Waiter) : Pres I (removeExpired rec wuid wt) :=
  removeExpired_presE S.toSpecCoreRE rec hrec wuid wt

theorem manageProcesses_presR (S : SpecCoreR I) (rec : Rec) (hrec : ∀ t, Pres I (rec t)) (wuid : Nat) (wt : Waiter) : Pres I (manageProcesses rec wuid wt) :=
  manageProcesses_presE S.toSpecCoreRE rec hrec wuid wt

theorem startW_presR (S : SpecCoreR I) (rec : Rec) (hrec : ∀ t, Pres I (rec t)) (wuid : Nat) (wt : Waiter) : Pres I (startW rec wuid wt) :=
  startW_presE S.toSpecCoreRE rec hrec wuid wt

theorem startAfterSpawn_presR (S : SpecCoreR I) (rec : Rec) (hrec : ∀ t, Pres I (rec t)) (wuid : Nat) (wt : Waiter) : Pres I (startAfterSpawn rec wuid wt) :=
  startAfterSpawn_presE S.toSpecCoreRE rec hrec wuid wt

theorem reloadW_presR (S : SpecCoreR I) (rec : Rec) (hrec : ∀ t, Pres I (rec t)) (wuid : Nat) (g sq : Bool) (wt : Waiter) : Pres I (reloadW rec wuid g sq wt) :=
  reloadW_presE S.toSpecCoreRE rec hrec wuid g sq wt

theorem reloadSeqNext_presR (S : SpecCoreR I) (rec : Rec) (hrec : ∀ t, Pres I (rec t)) (wuid : Nat) (rest : List Nat) (wt : Waiter) : Pres I (reloadSeqNext rec wuid rest wt) :=
  reloadSeqNext_presE S.toSpecCoreRE rec hrec wuid rest wt

theorem reloadSeqAfterKill_presR (S : SpecCoreR I) (rec : Rec) (hrec : ∀ t, Pres I (rec t)) (wuid pid : Nat) (rest : List Nat) (wt : Waiter) : Pres I (reloadSeqAfterKill rec wuid pid rest wt) :=
  reloadSeqAfterKill_presE S.toSpecCoreRE rec hrec wuid pid rest wt

theorem setNumprocesses_presR (S : SpecCoreR I) (rec : Rec) (hrec : ∀ t, Pres I (rec t)) (wuid : Nat) (n : Int) (wt : Waiter) : Pres I (setNumprocesses rec wuid n wt) :=
  setNumprocesses_presE S.toSpecCoreRE rec hrec wuid n wt

theorem doAction_presR (S : SpecCoreR I) (rec : Rec) (hrec : ∀ t, Pres I (rec t)) (wuid : Nat) (n : Int) (wt : Waiter) : Pres I (doAction rec wuid n wt) :=
  doAction_presE S.toSpecCoreRE rec hrec wuid n wt

theorem pubInfo_presR (S : SpecCoreR I) (rec : Rec) (hrec : ∀ t, Pres I (rec t)) (wuid : Nat) (b : List Nat) (wt : Waiter) : Pres I (pubInfo rec wuid b wt) :=
  pubInfo_presE S.toSpecCoreRE rec hrec wuid b wt

theorem arbStartNext_presR (S : SpecCoreR I) (rec : Rec) (hrec : ∀ t, Pres I (rec t)) (ws : List Nat) (wt : Waiter) : Pres I (arbStartNext rec ws wt) :=
  arbStartNext_presE S.toSpecCoreRE rec hrec ws wt

theorem arbStartAfterStart_presR (S : SpecCoreR I) (rec : Rec) (hrec : ∀ t, Pres I (rec t)) (ws : List Nat) (wt : Waiter) : Pres I (arbStartAfterStart rec ws wt) :=
  arbStartAfterStart_presE S.toSpecCoreRE rec hrec ws wt

theorem arbStopTail_presR (S : SpecCoreR I) (rec : Rec) (hrec : ∀ t, Pres I (rec t)) (wt : Waiter) : Pres I (arbStopTail rec wt) :=
  arbStopTail_presE S.toSpecCoreRE rec hrec wt

theorem arbStop_presR (S : SpecCoreR I) (rec : Rec) (hrec : ∀ t, Pres I (rec t)) (wt : Waiter) : Pres I (arbStop rec wt) :=
  arbStop_presE S.toSpecCoreRE rec hrec wt

theorem arbRestartInside_presR (S : SpecCoreR I) (rec : Rec) (hrec : ∀ t, Pres I (rec t)) (wt : Waiter) : Pres I (arbRestartInside rec wt) :=
  arbRestartInside_presE S.toSpecCoreRE rec hrec wt

theorem arbReloadNext_presR (S : SpecCoreR I) (rec : Rec) (hrec : ∀ t, Pres I (rec t)) (ws : List Nat) (g sq : Bool) (wt : Waiter) : Pres I (arbReloadNext rec ws g sq wt) :=
  arbReloadNext_presE S.toSpecCoreRE rec hrec ws g sq wt

theorem arbReloadAfter_presR (S : SpecCoreR I) (rec : Rec) (hrec : ∀ t, Pres I (rec t)) (ws : List Nat) (g sq : Bool) (wt : Waiter) : Pres I (arbReloadAfter rec ws g sq wt) :=
  arbReloadAfter_presE S.toSpecCoreRE rec hrec ws g sq wt

theorem manageWatchers_presR (S : SpecCoreR I) (rec : Rec) (hrec : ∀ t, Pres I (rec t)) (wt : Waiter) : Pres I (manageWatchers rec wt) :=
  manageWatchers_presE S.toSpecCoreRE rec hrec wt

theorem rmWatcher_presR (S : SpecCoreR I) (rec : Rec) (hrec : ∀ t, Pres I (rec t)) (uid : Nat) (ns : Bool) (wt : Waiter) : Pres I (rmWatcher rec uid ns wt) :=
  rmWatcher_presE S.toSpecCoreRE rec hrec uid ns wt

theorem manageWatchersTail_presR (S : SpecCoreR I) (rec : Rec) (hrec : ∀ t, Pres I (rec t)) (need : Bool) (wt : Waiter) : Pres I (manageWatchersTail rec need wt) :=
  manageWatchersTail_presE S.toSpecCoreRE rec hrec need wt

theorem runCall_presR (S : SpecCoreR I) (rec : Rec) (hrec : ∀ t, Pres I (rec t)) (c : Call) (wt : Waiter) : Pres I (runCall rec c wt) :=
  runCall_presE S.toSpecCoreRE rec hrec c wt

theorem runResume_presR (S : SpecCoreR I) (rec : Rec) (hrec : ∀ t, Pres I (rec t)) (k : Kont) (v : Val) (wt : Waiter) : Pres I (runResume rec k v wt) :=
  runResume_presE S.toSpecCoreRE rec hrec k v wt

theorem exec_presR (S : SpecCoreR I) (n : Nat) (t : Task) : Pres I (exec n t) :=
  exec_presE S.toSpecCoreRE n t

theorem lookupWatcher_presR (L : LeafR I) (n : String) : Pres I (lookupWatcher n) :=
  lookupWatcher_presE L.toLeafRE n

theorem getWatcherCmd_presR (L : LeafR I) (n : JVal) : Pres I (getWatcherCmd n) :=
  getWatcherCmd_presE L.toLeafRE n

theorem matchWatchers_presR (L : LeafR I) (p : JVal) : Pres I (matchWatchers p) :=
  matchWatchers_presE L.toLeafRE p

theorem sortUids_presR (L : LeafR I) (us : List Nat) (r : Bool) : Pres I (sortUids us r) :=
  sortUids_presE L.toLeafRE us r

theorem plainCoroutine_presR (S : SpecCoreR I) (c : Call) : Pres I (plainCoroutine c []) :=
  plainCoroutine_presE S.toSpecCoreRE c

theorem syncCoroutine_presR (S : SpecCoreR I) (name : String) (c : Call) : Pres I (syncCoroutine name c []) :=
  syncCoroutine_presE S.toSpecCoreRE name c

theorem execSSR_presR (S : SpecCoreR I) (kind : String) (p : JVal) : Pres I (execSSR kind p) :=
  execSSR_presE S.toSpecCoreRE kind p

theorem execIncrDecr_presR (S : SpecCoreR I) (sg : Int) (p : JVal) : Pres I (execIncrDecr sg p) :=
  execIncrDecr_presE S.toSpecCoreRE sg p

theorem execReload_presR (S : SpecCoreR I) (p : JVal) : Pres I (execReload p) :=
  execReload_presE S.toSpecCoreRE p

theorem execSet_presR (S : SpecCoreR I) (p : JVal) : Pres I (execSet p) :=
  execSet_presE S.toSpecCoreRE p

theorem execKill_presR (S : SpecCoreR I) (p : JVal) : Pres I (execKill p) :=
  execKill_presE S.toSpecCoreRE p

theorem execSignal_presR (S : SpecCoreR I) (p : JVal) : Pres I (execSignal p) :=
  execSignal_presE S.toSpecCoreRE p

theorem execRm_presR (S : SpecCoreR I) (p : JVal) : Pres I (execRm p) :=
  execRm_presE S.toSpecCoreRE p

theorem execAdd_presR (S : SpecCoreR I) (p : JVal) : Pres I (execAdd p) :=
  execAdd_presE S.toSpecCoreRE p

theorem execReadOnly_presR (S : SpecCoreR I) (c : String) (p : JVal) : Pres I (execReadOnly c p) :=
  execReadOnly_presE S.toSpecCoreRE c p

theorem validateExecute_presR (S : SpecCoreR I) (c : String) (p : JVal) : Pres I (validateExecute c p) :=
  validateExecute_presE S.toSpecCoreRE c p

theorem handleMessage_presR (S : SpecMR I) (cid : Option String) (msg : Option JVal) : Pres I (handleMessage cid msg) :=
  handleMessage_presE S.toSpecMRE cid msg

theorem sigQuit_presR (S : SpecMR I) : Pres I sigQuit :=
  sigQuit_presE S.toSpecMRE 

theorem settle_presR (S : SpecR I) (n : Nat) : Pres I (settle n) :=
  settle_presE S.toSpecRE n

theorem stepOp_presR (S : SpecMR I) (op : Op) : Pres I (stepOp op) :=
  stepOp_presE S.toSpecMRE op

theorem stepTail_presR (S : SpecR I) : Pres I stepTail :=
  stepTail_presE S.toSpecRE 

theorem stepM_presR (S : SpecR I) (op : Op) : Pres I (stepM op) :=
  stepM_presE S.toSpecRE op

theorem run_presR (S : SpecR I) (s : State) (ops : List Op) (h : I s) : I (run s ops) :=
  run_presE S.toSpecRE s ops h

/-! ### from the full structures to the `R` chain -/

/-- `stop_controller_and_close_sockets`, for an invariant that survives `setClosed` -/
theorem stopController_of (L : LeafR I) (hc : Pres I setClosed) : Pres I stopController :=
  stopController_ofE L.toLeafRE hc

/-- `spawn_process`'s attempts, for an invariant that survives `spawnAdopt` for any watcher -/
theorem spawnTry_of (L : LeafR I) (hsa : ∀ u w, Pres I (spawnAdopt u w))
    (hnew : ∀ cbs, TopCb.release ∉ cbs → Pres I (newTop cbs))
    (rec : Rec) (hrec : ∀ t, Pres I (rec t)) (wuid n : Nat) : Pres I (spawnTry rec wuid n) :=
  spawnTry_ofE L.toLeafRE hsa hnew (fun w p x => L.emitEv w "spawn" p x) rec hrec wuid n

theorem spawnProcess_of (L : LeafR I) (hsa : ∀ u w, Pres I (spawnAdopt u w))
    (hnew : ∀ cbs, TopCb.release ∉ cbs → Pres I (newTop cbs))
    (rec : Rec) (hrec : ∀ t, Pres I (rec t)) (wuid : Nat) : Pres I (spawnProcess rec wuid) :=
  spawnProcess_ofE L.toLeafRE hsa hnew (fun w p x => L.emitEv w "spawn" p x) rec hrec wuid

/-- `stopCore`, for an invariant that survives the status write on any watcher -/
theorem stopCore_of (L : LeafW I) (hst : ∀ u, Pres I (setStatus u .stopped)) (u : Nat) : Pres I (stopCore u) :=
  stopCore_ofE L.toLeafWE hst u

theorem Leaf.toLeafR (L : Leaf I) : LeafR I where
  toLeafW := L.toLeafW
  setStatus := fun u st _ => L.setStatus u st
  trySetNp := L.trySetNp
  setWOpt := L.setWOpt
  freshId := L.freshId
  pushFrame := L.pushFrame
  removeFrame := L.removeFrame
  setFrameK := L.setFrameK
  armFrame := L.armFrame
  pushSleeper := L.pushSleeper
  armTop := L.armTop
  setStopping := L.setStopping
  setRestarting := L.setRestarting
  clearRestarting := L.clearRestarting
  setLoopStop := L.setLoopStop
  setSocketEvent := L.setSocketEvent
  setSockReady := L.setSockReady
  clearDone := L.clearDone
  unregister := L.unregister
  registerNew := L.registerNew
  fireSleeper := L.fireSleeper
  enqueueResume := L.enqueueResume
  enqueueCallback := L.enqueueCallback

theorem SpecCore.toSpecCoreR (S : SpecCore I) : SpecCoreR I where
  toLeafR := S.toLeaf.toLeafR
  deliverTop := S.deliverTop
  newTopNR := S.newTopNR
  addDone := S.addDone
  syncCo := S.syncCo
  syncSetOpt := S.syncSetOpt
  syncAdd := S.syncAdd
  spawnProcess := spawnProcess_of S.toLeaf.toLeafR S.spawnAdopt S.newTopNR
  stopCore := stopCore_of S.toLeafW (fun u => S.setStatus u .stopped)
  guardedStop := guardedStop_of (fun u => S.setStatus u .stopped)

theorem Spec.toSpecMR (S : Spec I) : SpecMR I where
  toSpecCoreR := S.toSpecCore.toSpecCoreR
  emitRep := S.emitRep

theorem Spec.toSpecR (S : Spec I) : SpecR I where
  toSpecMR := S.toSpecMR
  settleStep := S.settleStep
  stopController := stopController_of S.toLeaf.toLeafR S.setClosed

/-! ### the same theorems for the full structures (old names) -/
theorem newFrame_pres (L : Leaf I) (k : Kont) (p : Waiter) : Pres I (newFrame k p) :=
  newFrame_presR L.toLeafR k p

theorem addSleeper_pres (L : Leaf I) (ms : Nat) (w : Waiter) : Pres I (addSleeper ms w) :=
  addSleeper_presR L.toLeafR ms w

theorem sendReply_pres (L : Leaf I) (hrep : ∀ c i a b d, Pres I (emitRep c i a b d))
    (cid : Option String) (id : JVal) (c : Bool) (a b d : String) :
    Pres I (sendReply cid id c a b d) :=
  sendReply_presR L.toLeafR hrep cid id c a b d

theorem stopController_pres (L : Leaf I) : Pres I stopController :=
  stopController_of L.toLeafR L.setClosed

theorem multiCollect_pres (L : Leaf I) (rec : Rec) (hrec : ∀ t, Pres I (rec t)) (f sl : Nat) (v : Val) :
    Pres I (multiCollect rec f sl v) :=
  multiCollect_presR L.toLeafR rec hrec f sl v

theorem deliver_pres (S : SpecCore I) (rec : Rec) (hrec : ∀ t, Pres I (rec t)) (w : Waiter) (v : Val) :
    Pres I (deliver rec w v) :=
  deliver_presR S.toSpecCoreR rec hrec w v

theorem await_pres (S : SpecCore I) (rec : Rec) (hrec : ∀ t, Pres I (rec t)) (c : Call) (k : Kont) (p : Waiter) :
    Pres I (await rec c k p) :=
  await_presR S.toSpecCoreR rec hrec c k p

theorem awaitSleep_pres (L : Leaf I) (ms : Nat) (k : Kont) (p : Waiter) : Pres I (awaitSleep ms k p) :=
  awaitSleep_presR L.toLeafR ms k p

theorem awaitMulti_pres (S : SpecCore I) (rec : Rec) (hrec : ∀ t, Pres I (rec t)) (cs : List Call) (k : Kont) (p : Waiter) :
    Pres I (awaitMulti rec cs k p) :=
  awaitMulti_presR S.toSpecCoreR rec hrec cs k p

theorem popStrict_pres (L : Leaf I) (u p : Nat) : Pres I (popStrict u p) :=
  popStrict_presR L.toLeafR u p

theorem pubBefore_pres (L : Leaf I) (u : Nat) : Pres I (pubBefore u) :=
  pubBefore_presR L.toLeafR u

theorem spawnTry_pres (S : SpecCore I) (rec : Rec) (hrec : ∀ t, Pres I (rec t)) (wuid n : Nat) : Pres I (spawnTry rec wuid n) :=
  spawnTry_of S.toLeaf.toLeafR S.spawnAdopt S.newTopNR rec hrec wuid n

theorem killFinish_pres (S : SpecCore I) (rec : Rec) (hrec : ∀ t, Pres I (rec t)) (wuid pid : Nat) (esc : Bool) (wt : Waiter) : Pres I (killFinish rec wuid pid esc wt) :=
  killFinish_presR S.toSpecCoreR rec hrec wuid pid esc wt

theorem killLoop_pres (S : SpecCore I) (rec : Rec) (hrec : ∀ t, Pres I (rec t)) (wuid pid sig i polls : Nat) (wt : Waiter) : Pres I (killLoop rec wuid pid sig i polls wt) :=
  killLoop_presR S.toSpecCoreR rec hrec wuid pid sig i polls wt

theorem killProcess_pres (S : SpecCore I) (rec : Rec) (hrec : ∀ t, Pres I (rec t)) (wuid pid : Nat) (sig gt : Option Nat) (wt : Waiter) : Pres I (killProcess rec wuid pid sig gt wt) :=
  killProcess_presR S.toSpecCoreR rec hrec wuid pid sig gt wt

theorem killProcesses_pres (S : SpecCore I) (rec : Rec) (hrec : ∀ t, Pres I (rec t)) (wuid : Nat) (sig gt : Option Nat) (wt : Waiter) : Pres I (killProcesses rec wuid sig gt wt) :=
  killProcesses_presR S.toSpecCoreR rec hrec wuid sig gt wt

theorem stopW_pres (S : SpecCore I) (rec : Rec) (hrec : ∀ t, Pres I (rec t)) (wuid : Nat) (close : Bool) (wt : Waiter) : Pres I (stopW rec wuid close wt) :=
  stopW_presR S.toSpecCoreR rec hrec wuid close wt

theorem stopAfterKill_pres (S : SpecCore I) (rec : Rec) (hrec : ∀ t, Pres I (rec t)) (wuid : Nat) (close : Bool) (wt : Waiter) : Pres I (stopAfterKill rec wuid close wt) :=
  stopAfterKill_presR S.toSpecCoreR rec hrec wuid close wt

theorem spawnProcess_pres (S : SpecCore I) (rec : Rec) (hrec : ∀ t, Pres I (rec t)) (wuid : Nat) : Pres I (spawnProcess rec wuid) :=
  spawnProcess_presR S.toSpecCoreR rec hrec wuid

theorem pendingSocketEvent_pres (L : Leaf I) (u : Nat) : Pres I (pendingSocketEvent u) :=
  pendingSocketEvent_presR L.toLeafR u

theorem spawnLoop_pres (S : SpecCore I) (rec : Rec) (hrec : ∀ t, Pres I (rec t)) (wuid rem : Nat) (wt : Waiter) : Pres I (spawnLoop rec wuid rem wt) :=
  spawnLoop_presR S.toSpecCoreR rec hrec wuid rem wt

theorem spawnProcesses_pres (S : SpecCore I) (rec : Rec) (hrec : ∀ t, Pres I (rec t)) (wuid : Nat) (wt : Waiter) : Pres I (spawnProcesses rec wuid wt) :=
  spawnProcesses_presR S.toSpecCoreR rec hrec wuid wt

theorem popKilled_pres (S : SpecCore I) (rec : Rec) (hrec : ∀ t, Pres I (rec t)) (wuid : Nat) (tk : List Nat) (v : Val) (wt : Waiter) : Pres I (popKilled rec wuid tk v wt) :=
  popKilled_presR S.toSpecCoreR rec hrec wuid tk v wt

theorem manageTail_pres (S : SpecCore I) (rec : Rec) (hrec : ∀ t, Pres I (rec t)) (wuid : Nat) (wt : Waiter) : Pres I (manageTail rec wuid wt) :=
  manageTail_presR S.toSpecCoreR rec hrec wuid wt

theorem manageAfterExpire_pres (S : SpecCore I) (rec : Rec) (hrec : ∀ t, Pres I (rec t)) (wuid : Nat) (wt : Waiter) : Pres I (manageAfterExpire rec wuid wt) :=
  manageAfterExpire_presR S.toSpecCoreR rec hrec wuid wt

theorem removeExpired_pres (S : SpecCore I) (rec : Rec) (hrec : ∀ t, Pres I (rec t)) (wuid : Nat) (wt : Waiter) : Pres I (removeExpired rec wuid wt) :=
  removeExpired_presR S.toSpecCoreR rec hrec wuid wt

theorem manageProcesses_pres (S : SpecCore I) (rec : Rec) (hrec : ∀ t, Pres I (rec t)) (wuid : Nat) (wt : Waiter) : Pres I (manageProcesses rec wuid wt) :=
  manageProcesses_presR S.toSpecCoreR rec hrec wuid wt

theorem startW_pres (S : SpecCore I) (rec : Rec) (hrec : ∀ t, Pres I (rec t)) (wuid : Nat) (wt : Waiter) : Pres I (startW rec wuid wt) :=
  startW_presR S.toSpecCoreR rec hrec wuid wt

theorem startAfterSpawn_pres (S : SpecCore I) (rec : Rec) (hrec : ∀ t, Pres I (rec t)) (wuid : Nat) (wt : Waiter) : Pres I (startAfterSpawn rec wuid wt) :=
  startAfterSpawn_presR S.toSpecCoreR rec hrec wuid wt

theorem reloadW_pres (S : SpecCore I) (rec : Rec) (hrec : ∀ t, Pres I (rec t)) (wuid : Nat) (g sq : Bool) (wt : Waiter) : Pres I (reloadW rec wuid g sq wt) :=
  reloadW_presR S.toSpecCoreR rec hrec wuid g sq wt

theorem reloadSeqNext_pres (S : SpecCore I) (rec : Rec) (hrec : ∀ t, Pres I (rec t)) (wuid : Nat) (rest : List Nat) (wt : Waiter) : Pres I (reloadSeqNext rec wuid rest wt) :=
  reloadSeqNext_presR S.toSpecCoreR rec hrec wuid rest wt

theorem reloadSeqAfterKill_pres (S : SpecCore I) (rec : Rec) (hrec : ∀ t, Pres I (rec t)) (wuid pid : Nat) (rest : List Nat) (wt : Waiter) : Pres I (reloadSeqAfterKill rec wuid pid rest wt) :=
  reloadSeqAfterKill_presR S.toSpecCoreR rec hrec wuid pid rest wt

theorem setNumprocesses_pres (S : SpecCore I) (rec : Rec) (hrec : ∀ t, Pres I (rec t)) (wuid : Nat) (n : Int) (wt : Waiter) : Pres I (setNumprocesses rec wuid n wt) :=
  setNumprocesses_presR S.toSpecCoreR rec hrec wuid n wt

theorem doAction_pres (S : SpecCore I) (rec : Rec) (hrec : ∀ t, Pres I (rec t)) (wuid : Nat) (n : Int) (wt : Waiter) : Pres I (doAction rec wuid n wt) :=
  doAction_presR S.toSpecCoreR rec hrec wuid n wt

theorem pubInfo_pres (S : SpecCore I) (rec : Rec) (hrec : ∀ t, Pres I (rec t)) (wuid : Nat) (b : List Nat) (wt : Waiter) : Pres I (pubInfo rec wuid b wt) :=
  pubInfo_presR S.toSpecCoreR rec hrec wuid b wt

theorem arbStartNext_pres (S : SpecCore I) (rec : Rec) (hrec : ∀ t, Pres I (rec t)) (ws : List Nat) (wt : Waiter) : Pres I (arbStartNext rec ws wt) :=
  arbStartNext_presR S.toSpecCoreR rec hrec ws wt

theorem arbStartAfterStart_pres (S : SpecCore I) (rec : Rec) (hrec : ∀ t, Pres I (rec t)) (ws : List Nat) (wt : Waiter) : Pres I (arbStartAfterStart rec ws wt) :=
  arbStartAfterStart_presR S.toSpecCoreR rec hrec ws wt

theorem arbStopTail_pres (S : SpecCore I) (rec : Rec) (hrec : ∀ t, Pres I (rec t)) (wt : Waiter) : Pres I (arbStopTail rec wt) :=
  arbStopTail_presR S.toSpecCoreR rec hrec wt

theorem arbStop_pres (S : SpecCore I) (rec : Rec) (hrec : ∀ t, Pres I (rec t)) (wt : Waiter) : Pres I (arbStop rec wt) :=
  arbStop_presR S.toSpecCoreR rec hrec wt

theorem arbRestartInside_pres (S : SpecCore I) (rec : Rec) (hrec : ∀ t, Pres I (rec t)) (wt : Waiter) : Pres I (arbRestartInside rec wt) :=
  arbRestartInside_presR S.toSpecCoreR rec hrec wt

theorem arbReloadNext_pres (S : SpecCore I) (rec : Rec) (hrec : ∀ t, Pres I (rec t)) (ws : List Nat) (g sq : Bool) (wt : Waiter) : Pres I (arbReloadNext rec ws g sq wt) :=
  arbReloadNext_presR S.toSpecCoreR rec hrec ws g sq wt

theorem arbReloadAfter_pres (S : SpecCore I) (rec : Rec) (hrec : ∀ t, Pres I (rec t)) (ws : List Nat) (g sq : Bool) (wt : Waiter) : Pres I (arbReloadAfter rec ws g sq wt) :=
  arbReloadAfter_presR S.toSpecCoreR rec hrec ws g sq wt

theorem manageWatchers_pres (S : SpecCore I) (rec : Rec) (hrec : ∀ t, Pres I (rec t)) (wt : Waiter) : Pres I (manageWatchers rec wt) :=
  manageWatchers_presR S.toSpecCoreR rec hrec wt

theorem rmWatcher_pres (S : SpecCore I) (rec : Rec) (hrec : ∀ t, Pres I (rec t)) (uid : Nat) (ns : Bool) (wt : Waiter) : Pres I (rmWatcher rec uid ns wt) :=
  rmWatcher_presR S.toSpecCoreR rec hrec uid ns wt

theorem manageWatchersTail_pres (S : SpecCore I) (rec : Rec) (hrec : ∀ t, Pres I (rec t)) (need : Bool) (wt : Waiter) : Pres I (manageWatchersTail rec need wt) :=
  manageWatchersTail_presR S.toSpecCoreR rec hrec need wt

theorem runCall_pres (S : SpecCore I) (rec : Rec) (hrec : ∀ t, Pres I (rec t)) (c : Call) (wt : Waiter) : Pres I (runCall rec c wt) :=
  runCall_presR S.toSpecCoreR rec hrec c wt

theorem runResume_pres (S : SpecCore I) (rec : Rec) (hrec : ∀ t, Pres I (rec t)) (k : Kont) (v : Val) (wt : Waiter) : Pres I (runResume rec k v wt) :=
  runResume_presR S.toSpecCoreR rec hrec k v wt

theorem exec_pres (S : SpecCore I) (n : Nat) (t : Task) : Pres I (exec n t) :=
  exec_presR S.toSpecCoreR n t

theorem lookupWatcher_pres (L : Leaf I) (n : String) : Pres I (lookupWatcher n) :=
  lookupWatcher_presR L.toLeafR n

theorem getWatcherCmd_pres (L : Leaf I) (n : JVal) : Pres I (getWatcherCmd n) :=
  getWatcherCmd_presR L.toLeafR n

theorem matchWatchers_pres (L : Leaf I) (p : JVal) : Pres I (matchWatchers p) :=
  matchWatchers_presR L.toLeafR p

theorem sortUids_pres (L : Leaf I) (us : List Nat) (r : Bool) : Pres I (sortUids us r) :=
  sortUids_presR L.toLeafR us r

theorem plainCoroutine_pres (S : SpecCore I) (c : Call) : Pres I (plainCoroutine c []) :=
  plainCoroutine_presR S.toSpecCoreR c

theorem syncCoroutine_pres (S : SpecCore I) (name : String) (c : Call) : Pres I (syncCoroutine name c []) :=
  syncCoroutine_presR S.toSpecCoreR name c

theorem execSSR_pres (S : SpecCore I) (kind : String) (p : JVal) : Pres I (execSSR kind p) :=
  execSSR_presR S.toSpecCoreR kind p

theorem execIncrDecr_pres (S : SpecCore I) (sg : Int) (p : JVal) : Pres I (execIncrDecr sg p) :=
  execIncrDecr_presR S.toSpecCoreR sg p

theorem execReload_pres (S : SpecCore I) (p : JVal) : Pres I (execReload p) :=
  execReload_presR S.toSpecCoreR p

theorem execSet_pres (S : SpecCore I) (p : JVal) : Pres I (execSet p) :=
  execSet_presR S.toSpecCoreR p

theorem execKill_pres (S : SpecCore I) (p : JVal) : Pres I (execKill p) :=
  execKill_presR S.toSpecCoreR p

theorem execSignal_pres (S : SpecCore I) (p : JVal) : Pres I (execSignal p) :=
  execSignal_presR S.toSpecCoreR p

theorem execRm_pres (S : SpecCore I) (p : JVal) : Pres I (execRm p) :=
  execRm_presR S.toSpecCoreR p

theorem execAdd_pres (S : SpecCore I) (p : JVal) : Pres I (execAdd p) :=
  execAdd_presR S.toSpecCoreR p

theorem execReadOnly_pres (S : SpecCore I) (c : String) (p : JVal) : Pres I (execReadOnly c p) :=
  execReadOnly_presR S.toSpecCoreR c p

theorem validateExecute_pres (S : SpecCore I) (c : String) (p : JVal) : Pres I (validateExecute c p) :=
  validateExecute_presR S.toSpecCoreR c p

theorem handleMessage_pres (S : Spec I) (cid : Option String) (msg : Option JVal) : Pres I (handleMessage cid msg) :=
  handleMessage_presR S.toSpecMR cid msg

theorem sigQuit_pres (S : Spec I) : Pres I sigQuit :=
  sigQuit_presR S.toSpecMR

theorem settle_pres (S : Spec I) (n : Nat) : Pres I (settle n) :=
  settle_presR S.toSpecR n

theorem stepOp_pres (S : Spec I) (op : Op) : Pres I (stepOp op) :=
  stepOp_presR S.toSpecMR op

theorem stepTail_pres (S : Spec I) : Pres I stepTail :=
  stepTail_presR S.toSpecR

theorem stepM_pres (S : Spec I) (op : Op) : Pres I (stepM op) :=
  stepM_presR S.toSpecR op

theorem run_pres (S : Spec I) (s : State) (ops : List Op) (h : I s) : I (run s ops) :=
  run_presR S.toSpecR s ops h


end
end Circus.Core
