import CircusProofs.Core.WakeInv
/-!
From the invariant to the holder chains: in a state with `WakeCore s []` every suspended frame and
every pending top-level future is `Held`; a `Held` target has a finite chain of suspended frames
(fids strictly increasing) that ends in a timer or a queued callback.  At step boundaries the ready
queue is empty, so the chain ends in a timer.
-/
set_option linter.unusedSimpArgs false
set_option linter.unusedVariables false
namespace Circus.Core

theorem mem_toks_cases {s : State} {t : Tgt} (h : t ∈ s.toks) :
    (∃ g ∈ s.frames, t ∈ g.parent.tl) ∨ (∃ sl ∈ s.sleepers, t ∈ sl.waiter.tl) ∨ (∃ r ∈ s.ready, t ∈ r.tl) := by
  simp only [State.toks, List.mem_append, List.mem_flatMap] at h
  rcases h with (h | h) | h
  · exact Or.inl h
  · exact Or.inr (Or.inl h)
  · exact Or.inr (Or.inr h)

/-- a token in the state whose holder frames are all held makes its target held -/
theorem held_of_mem_toks {s : State} {t : Tgt} (h : t ∈ s.toks)
    (hfr : ∀ g ∈ s.frames, t ∈ g.parent.tl → Held s (.frame g.fid)) : Held s t := by
  rcases mem_toks_cases h with ⟨g, hg, ht⟩ | ⟨sl, hsl, ht⟩ | ⟨r, hr, ht⟩
  · exact Held.frame g t hg ht (hfr g hg ht)
  · exact Held.sleeper sl t hsl ht
  · exact Held.ready r t hr ht

theorem WakeCore.frame_tok {s : State} (c : WakeCore s []) {f : Frame} (hf : f ∈ s.frames) : Tgt.frame f.fid ∈ s.toks := by
  have h1 := c.held f hf
  have h2 := c.room f hf
  simp only [List.append_nil] at h1
  exact List.count_pos_iff.mp (by omega)

theorem WakeCore.top_tok {s : State} (c : WakeCore s []) {t : TopFut} (ht : t ∈ s.tops) : Tgt.top t.tid ∈ s.toks := by
  have h1 := c.topHeld t ht
  simp only [List.append_nil] at h1
  exact List.count_pos_iff.mp (by omega)

theorem WakeCore.frames_held_aux {s : State} (c : WakeCore s []) :
    ∀ n, ∀ f ∈ s.frames, s.nextId - f.fid ≤ n → Held s (.frame f.fid) := by
  intro n
  induction n with
  | zero =>
    intro f hf hle
    have := c.fidLt f hf
    omega
  | succ n ih =>
    intro f hf hle
    apply held_of_mem_toks (c.frame_tok hf)
    intro g hg ht
    have h1 := c.parLt g hg _ ht
    have h2 := c.fidLt g hg
    simp only [Tgt.id] at h1
    exact ih g hg (by omega)

/-- **every suspended frame is held** (by a timer, a queued callback, or a younger held frame) -/
theorem WakeCore.frames_held {s : State} (c : WakeCore s []) : ∀ f ∈ s.frames, Held s (.frame f.fid) :=
  fun f hf => c.frames_held_aux s.nextId f hf (Nat.sub_le _ _)

/-- **every pending top-level future is held** -/
theorem WakeCore.tops_held {s : State} (c : WakeCore s []) : ∀ t ∈ s.tops, Held s (.top t.tid) :=
  fun t ht => held_of_mem_toks (c.top_tok ht) (fun g hg _ => c.frames_held g hg)

/-! ### explicit chains -/

/-- `IsChain s t gs`: `gs = [g₁, …, gₖ]` are suspended frames, `g₁` delivers to `t`, `gᵢ₊₁` delivers to
    `gᵢ`, and the last one (or `t` itself when `gs = []`) is the target of a timer or of a queued callback -/
def IsChain (s : State) : Tgt → List Frame → Prop
  | t, [] => (∃ sl ∈ s.sleepers, t ∈ sl.waiter.tl) ∨ (∃ r ∈ s.ready, t ∈ r.tl)
  | t, g :: gs => g ∈ s.frames ∧ t ∈ g.parent.tl ∧ IsChain s (.frame g.fid) gs

theorem Held.chain {s : State} {t : Tgt} (h : Held s t) : ∃ gs, IsChain s t gs := by
  induction h with
  | sleeper sl t hsl ht => exact ⟨[], by simp only [IsChain]; exact Or.inl ⟨sl, hsl, ht⟩⟩
  | ready r t hr ht => exact ⟨[], by simp only [IsChain]; exact Or.inr ⟨r, hr, ht⟩⟩
  | frame g t hg ht _ ih =>
    obtain ⟨gs, hgs⟩ := ih
    exact ⟨g :: gs, by simp only [IsChain]; exact ⟨hg, ht, hgs⟩⟩

theorem IsChain.held {s : State} : ∀ {t : Tgt} {gs : List Frame}, IsChain s t gs → Held s t
  | t, [], h => by
    simp only [IsChain] at h
    rcases h with ⟨sl, hsl, ht⟩ | ⟨r, hr, ht⟩
    · exact Held.sleeper sl t hsl ht
    · exact Held.ready r t hr ht
  | t, g :: gs, h => by
    simp only [IsChain] at h
    exact Held.frame g t h.1 h.2.1 (IsChain.held h.2.2)

/-- the ids along a chain grow strictly: children are younger than the frames they deliver to -/
theorem IsChain.increasing {s : State} (c : WakeCore s []) : ∀ {t : Tgt} {gs : List Frame}, IsChain s t gs →
    (∀ g ∈ gs, t.id < g.fid) ∧ List.Pairwise (fun a b => a.fid < b.fid) gs
  | t, [], _ => ⟨fun _ h => (by cases h), List.Pairwise.nil⟩
  | t, g :: gs, h => by
    simp only [IsChain] at h
    obtain ⟨h1, h2⟩ := IsChain.increasing c h.2.2
    have hlt : t.id < g.fid := c.parLt g h.1 t h.2.1
    refine ⟨?_, ?_⟩
    · intro g' hg'
      rcases List.mem_cons.mp hg' with rfl | hg'
      · exact hlt
      · exact Nat.lt_trans hlt (h1 g' hg')
    · exact List.pairwise_cons.mpr ⟨fun g' hg' => h1 g' hg', h2⟩

/-- a held target needs something that can fire: a timer or a queued callback exists -/
theorem Held.anchor {s : State} {t : Tgt} (h : Held s t) : s.sleepers ≠ [] ∨ s.ready ≠ [] := by
  induction h with
  | sleeper sl t hsl ht => exact Or.inl (List.ne_nil_of_mem hsl)
  | ready r t hr ht => exact Or.inr (List.ne_nil_of_mem hr)
  | frame g t hg ht _ ih => exact ih

/-- with an empty ready queue the chain ends in a timer -/
theorem Held.timer {s : State} {t : Tgt} (h : Held s t) (hr : s.ready = []) : s.sleepers ≠ [] := by
  rcases h.anchor with h | h
  · exact h
  · exact absurd hr h

/-! ### the ready queue is empty at step boundaries -/

/-- at rest: the loop has drained its queue (or the model escaped) -/
def AtRest (s : State) : Prop := s.ready = [] ∨ Esc s

theorem AtRest.ofQuiet {α : Type} {m : M α} (hq : ∀ s, WQuiet s (m s).2) : Pres AtRest m := by
  intro s hs
  obtain ⟨_, _, _, h4, _, h6⟩ := hq s
  rcases hs with h | h
  · exact Or.inl (h4.trans h)
  · exact Or.inr (h6 h)

theorem settle_rest (n : Nat) : ∀ s, AtRest (settle n s).2 := by
  induction n with
  | zero => intro s; exact Or.inr (emit_oof_esc s)
  | succ n ih =>
    intro s
    unfold settle
    simp only [bind, getS]
    by_cases hb : s.blocked = true
    · erw [if_pos hb]; exact Or.inr (Or.inl hb)
    · erw [if_neg hb]
      by_cases he : s.ready.isEmpty = true
      · erw [if_pos he]; exact Or.inl (List.isEmpty_iff.mp he)
      · erw [if_neg he]; exact ih _

theorem stopController_rest : Pres AtRest stopController := by
  have h1 : ∀ o, Pres AtRest (emit o) := fun o => AtRest.ofQuiet (wquiet_emit o)
  have h2 : Pres AtRest setClosed := AtRest.ofQuiet (wquiet_modA _)
  unfold stopController
  aesop (add safe apply h1, safe apply h2, safe apply Pres.bind, safe apply Pres.ite, safe apply Pres.pure, safe apply Pres.getA)
    (config := { terminal := true, useDefaultSimpSet := false, useSimpAll := false })

theorem stepTail_rest (s : State) : AtRest (stepTail s).2 := by
  unfold stepTail
  simp only [bind]
  have h1 := settle_rest 100000 s
  have h2 : Pres AtRest (do
      let a ← getA
      if a.loopStop then
        setLoopStop false
        stopController : M Unit) := by
    refine Pres.bind Pres.getA (fun a => ?_)
    exact Pres.ite (Pres.bind (AtRest.ofQuiet (wquiet_modA _)) (fun _ => stopController_rest)) (Pres.pure _)
  exact h2 _ h1

theorem stepM_rest (op : Op) (s : State) (hs : AtRest s) : AtRest (stepM op s).2 := by
  unfold stepM
  simp only [bind, getS]
  by_cases hb : s.blocked = true
  · erw [if_pos hb]; exact hs
  · erw [if_neg hb]; exact stepTail_rest _

/-- **at every step boundary the ready queue is empty** (unless the model escaped) -/
theorem rest_run (s : State) (ops : List Op) (h : AtRest s) : AtRest (run s ops) := by
  induction ops generalizing s with
  | nil => exact h
  | cons o os ih => exact ih _ (stepM_rest o s h)

theorem rest_init (cfg : List Watcher) (bs : List Behav) (aw : Nat) : AtRest (initState cfg bs aw) := Or.inl rfl

end Circus.Core
