import CircusModel.Core.Step
/-!
Exact results of the read-only commands `options` and `get` (commands/options.py, get.py):
helper lemmas for Props/C05.lean and Props/C11.lean.  Both commands look the watcher up in the
arbiter's name dict and read its record; nothing else of the state is looked at, nothing is written.
-/
namespace Circus.Core
open JVal

/-- `Command._get_watcher` reads -/
theorem getWatcherCmd_state (name : JVal) (s : State) : (getWatcherCmd name s).2 = s := by
  unfold getWatcherCmd
  cases name <;> try rfl
  simp only [bind, lookupWatcher, getA, pure]
  cases List.lookup (pyLower _) s.a.names <;> rfl

theorem getWatcherCmd_of_known (n : String) (u : Nat) (s : State)
    (h : s.a.names.lookup (pyLower n) = some u) : getWatcherCmd (.str n) s = (.ok u, s) := by
  unfold getWatcherCmd
  simp only [bind, lookupWatcher, getA, pure, h]

/-- … and its answer depends on the name dict only -/
theorem getWatcherCmd_fst_congr (name : JVal) (s s' : State) (h : s'.a.names = s.a.names) :
    (getWatcherCmd name s').1 = (getWatcherCmd name s).1 := by
  unfold getWatcherCmd
  cases name <;> try rfl
  simp only [bind, lookupWatcher, getA, pure, h]
  cases List.lookup (pyLower _) s.a.names <;> rfl

theorem getW_fst_congr (u : Nat) (s s' : State) (h : s'.ws = s.ws) : (getW u s').1 = (getW u s).1 := by
  simp only [getW, h]

theorem getWatcherCmd_eq (name : JVal) (s : State) : getWatcherCmd name s = ((getWatcherCmd name s).1, s) := by
  have h := getWatcherCmd_state name s
  generalize getWatcherCmd name s = r at h
  obtain ⟨r, s1⟩ := r
  simp only at h; subst h; rfl

/-- `options` as a function of the state: the lookup, then the body computed from the watcher record -/
theorem execOptions_eq (props : JVal) (s : State) :
    execOptions props s =
      (match (getWatcherCmd ((props.get? "name").getD .null) s).1 with
       | .error e => .error e
       | .ok u => .ok (.value (optionsBody (getW u s).1)), s) := by
  unfold execOptions
  show (match (getWatcherCmd ((props.get? "name").getD .null) s).1 with
        | .error e => (pure (.error e) : M (R ExecRes))
        | .ok u => do let w ← getW u; pure (.ok (.value (optionsBody w))))
        (getWatcherCmd ((props.get? "name").getD .null) s).2 = _
  rw [getWatcherCmd_state]
  cases (getWatcherCmd ((props.get? "name").getD .null) s).1 <;> rfl

/-- `get` as a function of the state -/
theorem execGet_eq (props : JVal) (s : State) :
    execGet props s =
      (match (getWatcherCmd ((props.get? "name").getD .null) s).1 with
       | .error e => .error e
       | .ok u => getBody (getW u s).1 ((props.get? "keys").getD (.arr [])), s) := by
  unfold execGet
  show (match (getWatcherCmd ((props.get? "name").getD .null) s).1 with
        | .error e => (pure (.error e) : M (R ExecRes))
        | .ok u => do let w ← getW u; pure (getBody w ((props.get? "keys").getD (.arr []))))
        (getWatcherCmd ((props.get? "name").getD .null) s).2 = _
  rw [getWatcherCmd_state]
  cases (getWatcherCmd ((props.get? "name").getD .null) s).1 <;> rfl

theorem execOptions_state (props : JVal) (s : State) : (execOptions props s).2 = s := by
  rw [execOptions_eq]

theorem execGet_state (props : JVal) (s : State) : (execGet props s).2 = s := by
  rw [execGet_eq]

theorem execOptions_known (props : JVal) (s : State) (n : String) (u : Nat)
    (hn : props.get? "name" = some (.str n)) (hu : s.a.names.lookup (pyLower n) = some u) :
    execOptions props s = (.ok (.value (optionsBody (getW u s).1)), s) := by
  rw [execOptions_eq, hn]
  simp only [Option.getD_some]
  rw [getWatcherCmd_of_known n u s hu]

theorem execGet_known (props : JVal) (s : State) (n : String) (u : Nat)
    (hn : props.get? "name" = some (.str n)) (hu : s.a.names.lookup (pyLower n) = some u) :
    execGet props s = (getBody (getW u s).1 ((props.get? "keys").getD (.arr [])), s) := by
  rw [execGet_eq, hn]
  simp only [Option.getD_some]
  rw [getWatcherCmd_of_known n u s hu]

/-- the answers depend on the name dict and the watcher records only -/
theorem execOptions_fst_congr (props : JVal) (s s' : State) (hn : s'.a.names = s.a.names) (hw : s'.ws = s.ws) :
    (execOptions props s').1 = (execOptions props s).1 := by
  rw [execOptions_eq, execOptions_eq]
  simp only
  rw [getWatcherCmd_fst_congr _ s s' hn]
  cases (getWatcherCmd ((props.get? "name").getD .null) s).1 with
  | error e => rfl
  | ok u => simp only [getW_fst_congr u s s' hw]

theorem execGet_fst_congr (props : JVal) (s s' : State) (hn : s'.a.names = s.a.names) (hw : s'.ws = s.ws) :
    (execGet props s').1 = (execGet props s).1 := by
  rw [execGet_eq, execGet_eq]
  simp only
  rw [getWatcherCmd_fst_congr _ s s' hn]
  cases (getWatcherCmd ((props.get? "name").getD .null) s).1 with
  | error e => rfl
  | ok u => simp only [getW_fst_congr u s s' hw]

theorem getBody_ne_future (w : Watcher) (keys : JVal) (tid : Nat) (x : String) : getBody w keys ≠ .ok (.future tid x) := by
  unfold getBody
  split
  · intro h; cases h
  · split <;> (intro h; cases h)
theorem globalOptionsBody_ne_future (props : JVal) (tid : Nat) (x : String) :
    globalOptionsBody props ≠ .ok (.future tid x) := by
  unfold globalOptionsBody
  simp only
  split
  · intro h; cases h
  · split
    · intro h; cases h
    · split
      · split <;> (intro h; cases h)
      · intro h; cases h

/-- `options` / `get` never hand back a future: the answer is computed in the call -/
theorem execOptions_ne_future (props : JVal) (s : State) (tid : Nat) (x : String) :
    (execOptions props s).1 ≠ .ok (.future tid x) := by
  rw [execOptions_eq]
  simp only
  cases (getWatcherCmd ((props.get? "name").getD .null) s).1 <;> (intro h; cases h)

theorem execGet_ne_future (props : JVal) (s : State) (tid : Nat) (x : String) :
    (execGet props s).1 ≠ .ok (.future tid x) := by
  rw [execGet_eq]
  simp only
  cases (getWatcherCmd ((props.get? "name").getD .null) s).1 with
  | error e => intro h; cases h
  | ok u => exact getBody_ne_future _ _ tid x

/-! `validate` + `execute` of the two commands -/

theorem validateExecute_options (props : JVal) (s : State) (h : props.has "name" = true) :
    validateExecute "options" props s = execOptions props s := by
  unfold validateExecute
  erw [if_neg (by simp [requiredProps, h])]
  rfl

theorem validateExecute_options_missing (props : JVal) (s : State) (h : props.has "name" = false) :
    validateExecute "options" props s = (.error .message, s) := by
  unfold validateExecute
  erw [if_pos (by simp [requiredProps, h])]
  rfl

theorem validateExecute_get (props : JVal) (s : State) (h1 : props.has "name" = true) (h2 : props.has "keys" = true) :
    validateExecute "get" props s = execGet props s := by
  unfold validateExecute
  erw [if_neg (by simp [requiredProps, h1, h2])]
  rfl

theorem validateExecute_get_missing (props : JVal) (s : State) (h : props.has "name" = false ∨ props.has "keys" = false) :
    validateExecute "get" props s = (.error .message, s) := by
  unfold validateExecute
  erw [if_pos (by rcases h with h | h <;> simp [requiredProps, h])]
  rfl

/-- whatever the properties: the answer of `options` / `get` depends on the name dict and the records only, and the
    state is left as it was -/
theorem validateExecute_options_eq (props : JVal) (s : State) :
    validateExecute "options" props s =
      (if props.has "name" then (execOptions props s).1 else .error .message, s) := by
  cases h : props.has "name"
  · rw [validateExecute_options_missing props s h]; rfl
  · rw [validateExecute_options props s h]
    conv => lhs; rw [show execOptions props s = ((execOptions props s).1, (execOptions props s).2) from rfl]
    rw [execOptions_state]; rfl

theorem validateExecute_get_eq (props : JVal) (s : State) :
    validateExecute "get" props s =
      (if props.has "name" && props.has "keys" then (execGet props s).1 else .error .message, s) := by
  cases h1 : props.has "name"
  · rw [validateExecute_get_missing props s (.inl h1)]; rfl
  · cases h2 : props.has "keys"
    · rw [validateExecute_get_missing props s (.inr h2)]; rfl
    · rw [validateExecute_get props s h1 h2]
      conv => lhs; rw [show execGet props s = ((execGet props s).1, (execGet props s).2) from rfl]
      rw [execGet_state]; rfl

theorem has_of_get_some {props : JVal} {k : String} {v : JVal} (h : props.get? k = some v) : props.has k = true := by
  simp [JVal.has, h]

theorem isObj_of_get_some {j : JVal} {k : String} {v : JVal} (h : j.get? k = some v) : j.isObj = true := by
  cases j <;> simp [JVal.get?] at h <;> rfl

end Circus.Core
