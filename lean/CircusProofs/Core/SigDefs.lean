import CircusProofs.Core.SigKernel
/-!
Definitions for the signal invariant `SI` (C03 along runs, Core/SigInv.lean).

A *pending kill loop* is a suspended `kill_process` coroutine: a frame with continuation
`Kont.killWait u p sig i polls` (parked on its 100 ms timer) or the same continuation sitting in the
event loop's ready queue (the timer fired, the callback has not run yet).  `SI` says of every
pending kill loop that

* `1 ≤ i ≤ polls` (the loop has polled `i - 1` times so far and never more than `polls` times),
* the first phase of `kill_process` has run for `p` (`Began`: the stop signal is in the log — or one
  of the four situations in which `kill_process` goes on *without* having sent it),
* the `Process` object of `p` exists and carries `stopping = true`,
* no other kill loop is pending for the same pid;

and, independently, that a pid whose collection (`reap`) is in the log is gone in the kernel.

The invariant is *contextual*: `exec n t` keeps it only for tasks `t` whose continuation / call
satisfies `TaskOk` (a kill loop may only be resumed if it was pending).  The facts carried by a
continuation are *monotone* (`Ext`: the log only grows, `blocked` is sticky, `Process` objects are
never deleted, a hook that has been called has been called, an unlisted pid that has its object
stays unlisted, gone stays gone), except the `stopping` flag, which only the loop itself clears.
-/
namespace Circus.Core

/-- the `Process` object of `p` exists -/
def HasObj (s : State) (p : Nat) : Prop := p ∈ s.objs.map (·.pid)
/-- `Process.stopping` of `p` -/
def Stopping (s : State) (p : Nat) : Prop := (getO p s).1.stopping = true
/-- the hook `h` of watcher object `u` has been called at least once -/
def HookCalled (s : State) (u : Nat) (h : String) : Prop := ((getW u s).1.hookCalls.lookup h).isSome = true
/-- watcher object `u` lists `p` in its `processes` dict -/
def Listed (s : State) (u p : Nat) : Prop := p ∈ (getW u s).1.pids

/-- **the first phase of `kill_process(u, p)` with stop signal `sig` has run**: the signal is in the
    log (sent through `Watcher.send_signal`, `via = ""`; `st` is the state the target was in), or
    one of the situations in which `kill_process` sends nothing and still goes on waiting:
    the daemon hangs (nothing is logged any more); a `before_signal` hook of the watcher was
    consulted (it can veto any signal but SIGKILL); the watcher does not list the pid
    (`send_signal` returns silently); the process is already gone (with `stop_children`,
    `send_signal_process` swallows `NoSuchProcess` for the whole group). -/
def Began (s : State) (u p sig : Nat) : Prop :=
  (∃ st, Obs.sig p sig st "" ∈ s.log) ∨ s.blocked = true ∨ (sig ≠ 9 ∧ HookCalled s u "before_signal")
    ∨ ¬ Listed s u p ∨ s.k.GoneIn p

/-- the pid counter and every pid of the process table are positive (the daemon is "pid 0" only in
    the `ppid` field) -/
def PosS (s : State) : Prop := 0 < s.k.nextPid ∧ s.k.PosK

/-- what is known of a pending kill loop -/
structure LoopOk (s : State) (u p sig i polls : Nat) : Prop where
  pos : 1 ≤ i
  le : i ≤ polls
  obj : HasObj s p
  began : Began s u p sig
  stopping : Stopping s p

/-- what a continuation carries -/
def KOk (s : State) : Kont → Prop
  | .killWait u p sig i polls => LoopOk s u p sig i polls
  | .reloadSeqAfterSleep _ rest => ∀ q ∈ rest, HasObj s q
  | .reloadSeqAfterKill _ _ rest => ∀ q ∈ rest, HasObj s q
  | _ => True

/-! ### justification of SIGKILL entries (optional part of the invariant)

`SI none` is the invariant of every run.  `SI (some ⟨n0, X⟩)` adds, for the part of the log from
position `n0` on (the entries of the step being looked at): every SIGKILL the daemon sends through
`send_signal` (`Obs.sig p 9 st ""`) is *justified* — an earlier signal entry for `p` stands before it
(an escalation after the stop signal), or `X` holds (some watcher's `stop_signal` is 9: then SIGKILL
*is* the stop signal), or a `before_signal` hook has been consulted (it may have vetoed the stop
signal), or `p` is not a child of the daemon (a worker's own child, signalled along with it).  This
part is kept by everything except the requests that may ask for signal 9 themselves (`signal`,
`kill`, `set`, `add`). -/

def Obs.isNine : Obs → Bool
  | .sig _ sg _ via => sg == 9 && via == ""
  | _ => false

structure JM where
  n0 : Nat
  X : Prop

abbrev JMode := Option JM

def Justified (X : Prop) (s : State) (pre : List Obs) (p : Nat) : Prop :=
  (∃ sg st, Obs.sig p sg st "" ∈ pre) ∨ X ∨ (∃ u, HookCalled s u "before_signal") ∨ s.k.NDC p

def LogJ (n0 : Nat) (X : Prop) (s : State) : Prop :=
  ∀ pre post p st, s.log = pre ++ Obs.sig p 9 st "" :: post → n0 ≤ pre.length → Justified X s pre p

structure JInv (jm : JM) (s : State) : Prop where
  log : LogJ jm.n0 jm.X s
  nine : ∀ w ∈ s.ws, w.stopSignal = 9 → jm.X

/-- what a call needs: `kill_process` is only ever called for a pid that has its `Process` object; in
    a justifying mode no call carries an explicit signal 9 (only `kill` requests do) -/
def CallOk (J : JMode) (s : State) : Call → Prop
  | .killProcess _ p sig _ => HasObj s p ∧ (J.isSome = true → sig ≠ some 9)
  | .killCmd _ pids sig _ => (∀ q ∈ pids, HasObj s q) ∧ (J.isSome = true → sig ≠ some 9)
  | .killProcesses _ sig _ => J.isSome = true → sig ≠ some 9
  | _ => True

def Kont.loopPid : Kont → Option Nat
  | .killWait _ p _ _ _ => some p
  | _ => none

def Ready.kont : Ready → Option Kont
  | .resume k _ _ => some k
  | _ => none

def Ready.loopPid (r : Ready) : Option Nat := r.kont.bind Kont.loopPid

/-- number of kill loops pending for `p` -/
def pendCount (s : State) (p : Nat) : Nat :=
  s.frames.countP (fun f => f.k.loopPid == some p) + s.ready.countP (fun r => r.loopPid == some p)

/-- **the signal invariant** (`J = none`: along every run; `J = some jm`: with the justification
    of the SIGKILL entries from `jm.n0` on) -/
structure SI (J : JMode) (s : State) : Prop where
  pid : PidInv s
  fr : ∀ f ∈ s.frames, KOk s f.k
  rd : ∀ r ∈ s.ready, ∀ k, r.kont = some k → KOk s k
  uniq : ∀ p, pendCount s p ≤ 1
  reap : ∀ p st, Obs.reap p st ∈ s.log → s.k.GoneIn p
  pos : PosS s
  wpar : ∀ o ∈ s.objs, s.k.DC o.pid
  just : ∀ jm, J = some jm → JInv jm s

/-- the tasks the interpreter may be given -/
def TaskOk (J : JMode) (s : State) : Task → Prop
  | .call c _ => CallOk J s c
  | .resume k _ _ => KOk s k ∧ ∀ p, k.loopPid = some p → pendCount s p = 0

/-- calls / continuations that need no context -/
def Call.free : Call → Bool
  | .killProcess .. => false
  | .killCmd .. => false
  | .killProcesses _ sig _ => sig.isNone
  | _ => true

def Kont.free : Kont → Bool
  | .killWait .. => false
  | .reloadSeqAfterSleep .. => false
  | .reloadSeqAfterKill .. => false
  | _ => true

theorem CallOk.of_free {J : JMode} {s : State} {c : Call} (h : c.free = true) : CallOk J s c := by
  cases c <;> first
    | trivial
    | (rename_i u sig gt
       intro _ hs
       rw [hs] at h
       cases h)

theorem KOk.of_free {s : State} {k : Kont} (h : k.free = true) : KOk s k := by
  cases k <;> trivial

theorem Kont.loopPid_of_free {k : Kont} (h : k.free = true) : k.loopPid = none := by
  cases k <;> first | rfl | cases h

theorem TaskOk.call_free {J : JMode} {s : State} {c : Call} (w : Waiter) (h : c.free = true) : TaskOk J s (.call c w) :=
  CallOk.of_free h

theorem TaskOk.resume_free {J : JMode} {s : State} {k : Kont} (v : Val) (w : Waiter) (h : k.free = true) :
    TaskOk J s (.resume k v w) :=
  ⟨KOk.of_free h, fun p hp => by rw [Kont.loopPid_of_free h] at hp; cases hp⟩

/-! ### the extension order -/

/-- `s'` extends `s` — all but the `stopping` flags (which the kill loop itself clears) -/
structure Ext00 (s s' : State) : Prop where
  log : ∀ o ∈ s.log, o ∈ s'.log
  blocked : s.blocked = true → s'.blocked = true
  obj : ∀ p, HasObj s p → HasObj s' p
  hook : ∀ u h, HookCalled s u h → HookCalled s' u h
  unl : ∀ u p, HasObj s p → ¬ Listed s u p → ¬ Listed s' u p
  gone : ∀ p, s.k.GoneIn p → s'.k.GoneIn p
  reap : ∀ p st, Obs.reap p st ∈ s'.log → Obs.reap p st ∈ s.log ∨ s'.k.GoneIn p
  ndc : ∀ p, s.k.NDC p → s'.k.NDC p

/-- … and the process table only gains fresh pids, children of the daemon stay its children, new
    `Process` objects are for children of the daemon -/
structure Ext0 (s s' : State) : Prop extends Ext00 s s' where
  kpids : ∀ q ∈ s'.k.procs.map (·.pid), q ∈ s.k.procs.map (·.pid) ∨ s.k.nextPid ≤ q
  npid : s.k.nextPid ≤ s'.k.nextPid
  dpar : PosS s → ∀ p, s.k.DC p → s'.k.DC p
  objd : PosS s → ∀ p, HasObj s' p → HasObj s p ∨ s'.k.DC p

theorem PosS.ext {s s' : State} (h : PosS s) (e : Ext0 s s') : PosS s' :=
  ⟨Nat.lt_of_lt_of_le h.1 e.npid, fun q hq => by
    rcases e.kpids q hq with hq | hq
    · exact h.2 q hq
    · exact Nat.lt_of_lt_of_le h.1 hq⟩

/-- the common case: the kernel is untouched, no `Process` object appears -/
theorem Ext0.ofK {s s' : State} (e : Ext00 s s') (hk : s'.k = s.k) (ho : ∀ p, HasObj s' p → HasObj s p) : Ext0 s s' where
  toExt00 := e
  kpids := fun q hq => Or.inl (by rw [← hk]; exact hq)
  npid := by rw [hk]; exact Nat.le_refl _
  dpar := fun _ p h => by rw [hk]; exact h
  objd := fun _ p h => Or.inl (ho p h)

/-- `s'` extends `s`: everything a continuation may know about `s` is still true in `s'` -/
structure Ext (s s' : State) : Prop extends Ext0 s s' where
  stop : ∀ p, HasObj s p → (getO p s').1.stopping = (getO p s).1.stopping

theorem Ext0.refl (s : State) : Ext0 s s :=
  Ext0.ofK ⟨fun _ h => h, fun h => h, fun _ h => h, fun _ _ h => h, fun _ _ _ h => h, fun _ h => h, fun _ _ h => Or.inl h,
   fun _ h => h⟩ rfl (fun _ h => h)

theorem Ext.refl (s : State) : Ext s s := ⟨Ext0.refl s, fun _ _ => rfl⟩

theorem Ext0.trans {a b c : State} (h1 : Ext0 a b) (h2 : Ext0 b c) : Ext0 a c where
  log := fun o h => h2.log o (h1.log o h)
  blocked := fun h => h2.blocked (h1.blocked h)
  obj := fun p h => h2.obj p (h1.obj p h)
  hook := fun u h hh => h2.hook u h (h1.hook u h hh)
  unl := fun u p ho hn => h2.unl u p (h1.obj p ho) (h1.unl u p ho hn)
  gone := fun p h => h2.gone p (h1.gone p h)
  reap := fun p st h => by
    rcases h2.reap p st h with h | h
    · rcases h1.reap p st h with h | h
      · exact Or.inl h
      · exact Or.inr (h2.gone p h)
    · exact Or.inr h
  ndc := fun p h => h2.ndc p (h1.ndc p h)
  kpids := fun q hq => by
    rcases h2.kpids q hq with h | h
    · exact h1.kpids q h
    · exact Or.inr (Nat.le_trans h1.npid h)
  npid := Nat.le_trans h1.npid h2.npid
  dpar := fun hp p h => h2.dpar (hp.ext h1) p (h1.dpar hp p h)
  objd := fun hp p h => by
    rcases h2.objd (hp.ext h1) p h with h | h
    · rcases h1.objd hp p h with h | h
      · exact Or.inl h
      · exact Or.inr (h2.dpar (hp.ext h1) p h)
    · exact Or.inr h

theorem Ext.trans {a b c : State} (h1 : Ext a b) (h2 : Ext b c) : Ext a c where
  toExt0 := h1.toExt0.trans h2.toExt0
  stop := fun p h => (h2.stop p (h1.obj p h)).trans (h1.stop p h)

theorem Began.mono {s s' : State} (e : Ext0 s s') {u p sig : Nat} (ho : HasObj s p) (h : Began s u p sig) :
    Began s' u p sig := by
  rcases h with ⟨st, h⟩ | h | ⟨h1, h2⟩ | h | h
  · exact Or.inl ⟨st, e.log _ h⟩
  · exact Or.inr (Or.inl (e.blocked h))
  · exact Or.inr (Or.inr (Or.inl ⟨h1, e.hook _ _ h2⟩))
  · exact Or.inr (Or.inr (Or.inr (Or.inl (e.unl u p ho h))))
  · exact Or.inr (Or.inr (Or.inr (Or.inr (e.gone p h))))

/-- a kill loop's knowledge survives an extension in which its `stopping` flag is still set -/
theorem LoopOk.mono0 {s s' : State} (e : Ext0 s s') {u p sig i polls : Nat} (h : LoopOk s u p sig i polls)
    (hs : Stopping s' p) : LoopOk s' u p sig i polls :=
  ⟨h.pos, h.le, e.obj p h.obj, h.began.mono e h.obj, hs⟩

theorem LoopOk.mono {s s' : State} (e : Ext s s') {u p sig i polls : Nat} (h : LoopOk s u p sig i polls) :
    LoopOk s' u p sig i polls :=
  h.mono0 e.toExt0 (by
    have := e.stop p h.obj
    unfold Stopping
    rw [this]; exact h.stopping)

theorem KOk.mono0 {s s' : State} (e : Ext0 s s') {k : Kont} (h : KOk s k)
    (hs : ∀ p, k.loopPid = some p → Stopping s' p) : KOk s' k := by
  cases k <;> first
    | trivial
    | exact LoopOk.mono0 e h (hs _ rfl)
    | (intro q hq; exact e.obj q (h q hq))

theorem KOk.mono {s s' : State} (e : Ext s s') {k : Kont} (h : KOk s k) : KOk s' k := by
  cases k <;> first
    | trivial
    | exact LoopOk.mono e h
    | (intro q hq; exact e.obj q (h q hq))

theorem CallOk.mono {J : JMode} {s s' : State} (e : ∀ p, HasObj s p → HasObj s' p) {c : Call} (h : CallOk J s c) :
    CallOk J s' c := by
  cases c <;> first
    | trivial
    | exact ⟨e _ h.1, h.2⟩
    | exact ⟨fun q hq => e q (h.1 q hq), h.2⟩


/-! ### state changes that append no SIGKILL entry -/

/-- from `s` to `s'` the log grows by entries other than a SIGKILL through `send_signal`, no watcher
    acquires `stop_signal = 9`, the process table only gains fresh pids -/
structure NoNine (s s' : State) : Prop where
  log : ∃ d, s'.log = s.log ++ d ∧ ∀ o ∈ d, o.isNine = false
  nine : ∀ w' ∈ s'.ws, w'.stopSignal = 9 → ∃ w ∈ s.ws, w.stopSignal = 9

theorem NoNine.refl (s : State) : NoNine s s :=
  ⟨⟨[], by simp, fun _ h => by cases h⟩, fun w hw h9 => ⟨w, hw, h9⟩⟩

theorem NoNine.trans {a b c : State} (h1 : NoNine a b) (h2 : NoNine b c) : NoNine a c where
  log := by
    obtain ⟨d1, e1, n1⟩ := h1.log
    obtain ⟨d2, e2, n2⟩ := h2.log
    refine ⟨d1 ++ d2, by rw [e2, e1, List.append_assoc], ?_⟩
    intro o ho
    rcases List.mem_append.mp ho with ho | ho
    · exact n1 o ho
    · exact n2 o ho
  nine := fun w hw h9 => by
    obtain ⟨w1, hw1, h91⟩ := h2.nine w hw h9
    exact h1.nine w1 hw1 h91

theorem append_split_nine {l d pre post : List Obs} {x : Obs} (h : l ++ d = pre ++ x :: post)
    (hx : x.isNine = true) (hd : ∀ o ∈ d, o.isNine = false) : ∃ post', l = pre ++ x :: post' := by
  rcases List.append_eq_append_iff.mp h with ⟨a, h1, h2⟩ | ⟨a, h1, h2⟩
  · exfalso
    have : x ∈ d := by rw [h2]; simp
    have := hd x this
    rw [hx] at this; cases this
  · cases a with
    | nil =>
      exfalso
      simp only [List.nil_append] at h2
      have : x ∈ d := by rw [← h2]; simp
      have := hd x this
      rw [hx] at this; cases this
    | cons y a' =>
      simp only [List.cons_append, List.cons.injEq] at h2
      rw [h2.1]
      exact ⟨a', h1⟩

theorem Justified.mono {X : Prop} {s s' : State} (e : Ext0 s s') {pre : List Obs} {p : Nat} (h : Justified X s pre p) :
    Justified X s' pre p := by
  rcases h with h | h | ⟨u, h⟩ | h
  · exact Or.inl h
  · exact Or.inr (Or.inl h)
  · exact Or.inr (Or.inr (Or.inl ⟨u, e.hook u _ h⟩))
  · exact Or.inr (Or.inr (Or.inr (e.ndc p h)))

/-- the justification survives every extension that appends no SIGKILL entry -/
theorem JInv.mono {jm : JM} {s s' : State} (e : Ext0 s s') (n : NoNine s s') (h : JInv jm s) : JInv jm s' where
  log := by
    intro pre post p st hl hn
    obtain ⟨d, hd, hnn⟩ := n.log
    rw [hd] at hl
    obtain ⟨post', hp⟩ := append_split_nine hl (by simp [Obs.isNine]) hnn
    exact (h.log pre post' p st hp hn).mono e
  nine := fun w hw h9 => by
    obtain ⟨w0, hw0, h90⟩ := n.nine w hw h9
    exact h.nine w0 hw0 h90

/-- a state change that leaves the coroutine heap alone and only extends the rest (it may append
    anything but a `reap`) -/
structure SQuietW (s s' : State) : Prop where
  ext : Ext s s'
  frames : s'.frames = s.frames
  ready : s'.ready = s.ready

/-- … and appends no SIGKILL entry -/
structure SQuiet (s s' : State) : Prop extends SQuietW s s' where
  nn : NoNine s s'

theorem SQuietW.refl (s : State) : SQuietW s s := ⟨Ext.refl s, rfl, rfl⟩

theorem SQuietW.trans {a b c : State} (h1 : SQuietW a b) (h2 : SQuietW b c) : SQuietW a c :=
  ⟨h1.ext.trans h2.ext, h2.frames.trans h1.frames, h2.ready.trans h1.ready⟩

theorem SQuiet.refl (s : State) : SQuiet s s := ⟨SQuietW.refl s, NoNine.refl s⟩

theorem SQuiet.trans {a b c : State} (h1 : SQuiet a b) (h2 : SQuiet b c) : SQuiet a c :=
  ⟨h1.toSQuietW.trans h2.toSQuietW, h1.nn.trans h2.nn⟩

theorem SQuietW.pendCount {s s' : State} (h : SQuietW s s') (p : Nat) : pendCount s' p = pendCount s p := by
  unfold Circus.Core.pendCount
  rw [h.frames, h.ready]

theorem SQuiet.pendCount {s s' : State} (h : SQuiet s s') (p : Nat) : pendCount s' p = pendCount s p :=
  h.toSQuietW.pendCount p

/-- workers stay children of the daemon along an extension -/
theorem SI.wpar_ext {s s' : State} (hp : PosS s) (hw : ∀ o ∈ s.objs, s.k.DC o.pid) (e : Ext0 s s') :
    ∀ o ∈ s'.objs, s'.k.DC o.pid := by
  intro o ho
  rcases e.objd hp o.pid (List.mem_map.mpr ⟨o, ho, rfl⟩) with h | h
  · obtain ⟨o0, ho0, he⟩ := List.mem_map.mp h
    have := hw o0 ho0
    rw [he] at this
    exact e.dpar hp _ this
  · exact h

/-- a quiet change keeps the invariant (the accounting `PidInv` is shown separately, by the generic
    preservation theorems) -/
theorem SI.of_quietW {s s' : State} (h : SI none s) (hp : PidInv s') (q : SQuietW s s') : SI none s' where
  pid := hp
  fr := fun f hf => by
    rw [q.frames] at hf
    exact (h.fr f hf).mono q.ext
  rd := fun r hr k hk => by
    rw [q.ready] at hr
    exact (h.rd r hr k hk).mono q.ext
  uniq := fun p => by rw [q.pendCount]; exact h.uniq p
  reap := fun p st hm => by
    rcases q.ext.reap p st hm with hm | hg
    · exact q.ext.gone p (h.reap p st hm)
    · exact hg
  pos := h.pos.ext q.ext.toExt0
  wpar := SI.wpar_ext h.pos h.wpar q.ext.toExt0
  just := fun jm hj => by cases hj

theorem SI.of_quiet {J : JMode} {s s' : State} (h : SI J s) (hp : PidInv s') (q : SQuiet s s') : SI J s' where
  pid := hp
  fr := fun f hf => by
    rw [q.frames] at hf
    exact (h.fr f hf).mono q.ext
  rd := fun r hr k hk => by
    rw [q.ready] at hr
    exact (h.rd r hr k hk).mono q.ext
  uniq := fun p => by rw [q.pendCount]; exact h.uniq p
  reap := fun p st hm => by
    rcases q.ext.reap p st hm with hm | hg
    · exact q.ext.gone p (h.reap p st hm)
    · exact hg
  pos := h.pos.ext q.ext.toExt0
  wpar := SI.wpar_ext h.pos h.wpar q.ext.toExt0
  just := fun jm hj => (h.just jm hj).mono q.ext.toExt0 q.nn

theorem SI.toNone {J : JMode} {s : State} (h : SI J s) : SI none s :=
  ⟨h.pid, h.fr, h.rd, h.uniq, h.reap, h.pos, h.wpar, fun jm hj => by cases hj⟩

end Circus.Core
