import CircusProofs.Core.SigKernel
/-!
Definitions for the signal invariant `SI` (C03 along runs, Core/SigInv.lean).

A *pending kill loop* is a suspended `kill_process` coroutine: a frame with continuation
`Kont.killWait u p sig i polls` (parked on its 100 ms timer) or the same continuation sitting in the
event loop's ready queue (the timer fired, the callback has not run yet).  `SI` says of every
pending kill loop that

* `1 ≤ i ≤ polls` (the loop has polled `i - 1` times so far and never more than `polls` times),
* the first phase of `kill_process` has run for `p` (`Began`: the stop signal is in the log — or one
  of the four situations in which `kill_process` goes on *without* having sent it),
* the `Process` object of `p` exists and carries `stopping = true`,
* no other kill loop is pending for the same pid;

and, independently, that a pid whose collection (`reap`) is in the log is gone in the kernel.

The invariant is *contextual*: `exec n t` keeps it only for tasks `t` whose continuation / call
satisfies `TaskOk` (a kill loop may only be resumed if it was pending).  The facts carried by a
continuation are *monotone* (`Ext`: the log only grows, `blocked` is sticky, `Process` objects are
never deleted, a hook that has been called has been called, an unlisted pid that has its object
stays unlisted, gone stays gone), except the `stopping` flag, which only the loop itself clears.
-/
namespace Circus.Core

/-- the `Process` object of `p` exists -/
def HasObj (s : State) (p : Nat) : Prop := p ∈ s.objs.map (·.pid)
/-- `Process.stopping` of `p` -/
def Stopping (s : State) (p : Nat) : Prop := (getO p s).1.stopping = true
/-- the hook `h` of watcher object `u` has been called at least once -/
def HookCalled (s : State) (u : Nat) (h : String) : Prop := ((getW u s).1.hookCalls.lookup h).isSome = true
/-- watcher object `u` lists `p` in its `processes` dict -/
def Listed (s : State) (u p : Nat) : Prop := p ∈ (getW u s).1.pids

/-- **the first phase of `kill_process(u, p)` with stop signal `sig` has run**: the signal is in the
    log (sent through `Watcher.send_signal`, `via = ""`; `st` is the state the target was in), or
    one of the situations in which `kill_process` sends nothing and still goes on waiting:
    the daemon hangs (nothing is logged any more); a `before_signal` hook of the watcher was
    consulted (it can veto any signal but SIGKILL); the watcher does not list the pid
    (`send_signal` returns silently); the process is already gone (with `stop_children`,
    `send_signal_process` swallows `NoSuchProcess` for the whole group). -/
def Began (s : State) (u p sig : Nat) : Prop :=
  (∃ st, Obs.sig p sig st "" ∈ s.log) ∨ s.blocked = true ∨ (sig ≠ 9 ∧ HookCalled s u "before_signal")
    ∨ ¬ Listed s u p ∨ s.k.GoneIn p

/-- what is known of a pending kill loop -/
structure LoopOk (s : State) (u p sig i polls : Nat) : Prop where
  pos : 1 ≤ i
  le : i ≤ polls
  obj : HasObj s p
  began : Began s u p sig
  stopping : Stopping s p

/-- what a continuation carries -/
def KOk (s : State) : Kont → Prop
  | .killWait u p sig i polls => LoopOk s u p sig i polls
  | .reloadSeqAfterSleep _ rest => ∀ q ∈ rest, HasObj s q
  | .reloadSeqAfterKill _ _ rest => ∀ q ∈ rest, HasObj s q
  | _ => True

/-- what a call needs: `kill_process` is only ever called for a pid that has its `Process` object -/
def CallOk (s : State) : Call → Prop
  | .killProcess _ p _ _ => HasObj s p
  | .killCmd _ pids _ _ => ∀ q ∈ pids, HasObj s q
  | _ => True

def Kont.loopPid : Kont → Option Nat
  | .killWait _ p _ _ _ => some p
  | _ => none

def Ready.kont : Ready → Option Kont
  | .resume k _ _ => some k
  | _ => none

def Ready.loopPid (r : Ready) : Option Nat := r.kont.bind Kont.loopPid

/-- number of kill loops pending for `p` -/
def pendCount (s : State) (p : Nat) : Nat :=
  s.frames.countP (fun f => f.k.loopPid == some p) + s.ready.countP (fun r => r.loopPid == some p)

/-- **the signal invariant** -/
structure SI (s : State) : Prop where
  pid : PidInv s
  fr : ∀ f ∈ s.frames, KOk s f.k
  rd : ∀ r ∈ s.ready, ∀ k, r.kont = some k → KOk s k
  uniq : ∀ p, pendCount s p ≤ 1
  reap : ∀ p st, Obs.reap p st ∈ s.log → s.k.GoneIn p

/-- the tasks the interpreter may be given -/
def TaskOk (s : State) : Task → Prop
  | .call c _ => CallOk s c
  | .resume k _ _ => KOk s k ∧ ∀ p, k.loopPid = some p → pendCount s p = 0

/-- calls / continuations that need no context -/
def Call.free : Call → Bool
  | .killProcess .. => false
  | .killCmd .. => false
  | _ => true

def Kont.free : Kont → Bool
  | .killWait .. => false
  | .reloadSeqAfterSleep .. => false
  | .reloadSeqAfterKill .. => false
  | _ => true

theorem CallOk.of_free {s : State} {c : Call} (h : c.free = true) : CallOk s c := by
  cases c <;> trivial

theorem KOk.of_free {s : State} {k : Kont} (h : k.free = true) : KOk s k := by
  cases k <;> trivial

theorem Kont.loopPid_of_free {k : Kont} (h : k.free = true) : k.loopPid = none := by
  cases k <;> first | rfl | cases h

theorem TaskOk.call_free {s : State} {c : Call} (w : Waiter) (h : c.free = true) : TaskOk s (.call c w) :=
  CallOk.of_free h

theorem TaskOk.resume_free {s : State} {k : Kont} (v : Val) (w : Waiter) (h : k.free = true) : TaskOk s (.resume k v w) :=
  ⟨KOk.of_free h, fun p hp => by rw [Kont.loopPid_of_free h] at hp; cases hp⟩

/-! ### the extension order -/

/-- `s'` extends `s` — all but the `stopping` flags (which the kill loop itself clears) -/
structure Ext0 (s s' : State) : Prop where
  log : ∀ o ∈ s.log, o ∈ s'.log
  blocked : s.blocked = true → s'.blocked = true
  obj : ∀ p, HasObj s p → HasObj s' p
  hook : ∀ u h, HookCalled s u h → HookCalled s' u h
  unl : ∀ u p, HasObj s p → ¬ Listed s u p → ¬ Listed s' u p
  gone : ∀ p, s.k.GoneIn p → s'.k.GoneIn p
  reap : ∀ p st, Obs.reap p st ∈ s'.log → Obs.reap p st ∈ s.log ∨ s'.k.GoneIn p

/-- `s'` extends `s`: everything a continuation may know about `s` is still true in `s'` -/
structure Ext (s s' : State) : Prop extends Ext0 s s' where
  stop : ∀ p, HasObj s p → (getO p s').1.stopping = (getO p s).1.stopping

theorem Ext0.refl (s : State) : Ext0 s s :=
  ⟨fun _ h => h, fun h => h, fun _ h => h, fun _ _ h => h, fun _ _ _ h => h, fun _ h => h, fun _ _ h => Or.inl h⟩

theorem Ext.refl (s : State) : Ext s s := ⟨Ext0.refl s, fun _ _ => rfl⟩

theorem Ext0.trans {a b c : State} (h1 : Ext0 a b) (h2 : Ext0 b c) : Ext0 a c where
  log := fun o h => h2.log o (h1.log o h)
  blocked := fun h => h2.blocked (h1.blocked h)
  obj := fun p h => h2.obj p (h1.obj p h)
  hook := fun u h hh => h2.hook u h (h1.hook u h hh)
  unl := fun u p ho hn => h2.unl u p (h1.obj p ho) (h1.unl u p ho hn)
  gone := fun p h => h2.gone p (h1.gone p h)
  reap := fun p st h => by
    rcases h2.reap p st h with h | h
    · rcases h1.reap p st h with h | h
      · exact Or.inl h
      · exact Or.inr (h2.gone p h)
    · exact Or.inr h

theorem Ext.trans {a b c : State} (h1 : Ext a b) (h2 : Ext b c) : Ext a c where
  toExt0 := h1.toExt0.trans h2.toExt0
  stop := fun p h => (h2.stop p (h1.obj p h)).trans (h1.stop p h)

theorem Began.mono {s s' : State} (e : Ext0 s s') {u p sig : Nat} (ho : HasObj s p) (h : Began s u p sig) :
    Began s' u p sig := by
  rcases h with ⟨st, h⟩ | h | ⟨h1, h2⟩ | h | h
  · exact Or.inl ⟨st, e.log _ h⟩
  · exact Or.inr (Or.inl (e.blocked h))
  · exact Or.inr (Or.inr (Or.inl ⟨h1, e.hook _ _ h2⟩))
  · exact Or.inr (Or.inr (Or.inr (Or.inl (e.unl u p ho h))))
  · exact Or.inr (Or.inr (Or.inr (Or.inr (e.gone p h))))

/-- a kill loop's knowledge survives an extension in which its `stopping` flag is still set -/
theorem LoopOk.mono0 {s s' : State} (e : Ext0 s s') {u p sig i polls : Nat} (h : LoopOk s u p sig i polls)
    (hs : Stopping s' p) : LoopOk s' u p sig i polls :=
  ⟨h.pos, h.le, e.obj p h.obj, h.began.mono e h.obj, hs⟩

theorem LoopOk.mono {s s' : State} (e : Ext s s') {u p sig i polls : Nat} (h : LoopOk s u p sig i polls) :
    LoopOk s' u p sig i polls :=
  h.mono0 e.toExt0 (by
    have := e.stop p h.obj
    unfold Stopping
    rw [this]; exact h.stopping)

theorem KOk.mono0 {s s' : State} (e : Ext0 s s') {k : Kont} (h : KOk s k)
    (hs : ∀ p, k.loopPid = some p → Stopping s' p) : KOk s' k := by
  cases k <;> first
    | trivial
    | exact LoopOk.mono0 e h (hs _ rfl)
    | (intro q hq; exact e.obj q (h q hq))

theorem KOk.mono {s s' : State} (e : Ext s s') {k : Kont} (h : KOk s k) : KOk s' k := by
  cases k <;> first
    | trivial
    | exact LoopOk.mono e h
    | (intro q hq; exact e.obj q (h q hq))

theorem CallOk.mono {s s' : State} (e : ∀ p, HasObj s p → HasObj s' p) {c : Call} (h : CallOk s c) : CallOk s' c := by
  cases c <;> first
    | trivial
    | exact e _ h
    | (intro q hq; exact e q (h q hq))

/-- a state change that leaves the coroutine heap alone and only extends the rest -/
structure SQuiet (s s' : State) : Prop where
  ext : Ext s s'
  frames : s'.frames = s.frames
  ready : s'.ready = s.ready

theorem SQuiet.refl (s : State) : SQuiet s s := ⟨Ext.refl s, rfl, rfl⟩

theorem SQuiet.trans {a b c : State} (h1 : SQuiet a b) (h2 : SQuiet b c) : SQuiet a c :=
  ⟨h1.ext.trans h2.ext, h2.frames.trans h1.frames, h2.ready.trans h1.ready⟩

theorem SQuiet.pendCount {s s' : State} (h : SQuiet s s') (p : Nat) : pendCount s' p = pendCount s p := by
  unfold Circus.Core.pendCount
  rw [h.frames, h.ready]

/-- a quiet change keeps the invariant (the accounting `PidInv` is shown separately, by the generic
    preservation theorems) -/
theorem SI.of_quiet {s s' : State} (h : SI s) (hp : PidInv s') (q : SQuiet s s') : SI s' where
  pid := hp
  fr := fun f hf => by
    rw [q.frames] at hf
    exact (h.fr f hf).mono q.ext
  rd := fun r hr k hk => by
    rw [q.ready] at hr
    exact (h.rd r hr k hk).mono q.ext
  uniq := fun p => by rw [q.pendCount]; exact h.uniq p
  reap := fun p st hm => by
    rcases q.ext.reap p st hm with hm | hg
    · exact q.ext.gone p (h.reap p st hm)
    · exact hg

end Circus.Core
