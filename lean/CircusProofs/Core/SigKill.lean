import CircusProofs.Core.SigPrim
/-!
The signal invariant through the coroutine machinery (`deliver`, `await`, `awaitSleep`, `awaitMulti`)
and through `kill_process` itself: `killProcess` establishes what a pending kill loop knows
(`Began`, `stopping`, uniqueness), `killLoop` hands it on from poll to poll, `killFinish` clears the flag
of a pid for which nothing is pending any more.
-/
set_option linter.unusedSimpArgs false
set_option linter.unusedVariables false
namespace Circus.Core

variable {J : JMode}

/-- what the bodies assume of the interpreter they call back into -/
structure RecSI (J : JMode) (rec : Rec) : Prop where
  run : ∀ t s, SI J s → TaskOk J s t → SI J (rec t s).2
  obj : ∀ t s p, HasObj s p → HasObj (rec t s).2 p

theorem RecSI.call_free {rec : Rec} (hrec : RecSI J rec) (c : Call) (w : Waiter) (hc : c.free = true) :
    Pres (SI J) (rec (.call c w)) := fun s h => hrec.run _ s h (TaskOk.call_free w hc)

theorem RecSI.res_free {rec : Rec} (hrec : RecSI J rec) (k : Kont) (v : Val) (w : Waiter) (hk : k.free = true) :
    Pres (SI J) (rec (.resume k v w)) := fun s h => hrec.run _ s h (TaskOk.resume_free v w hk)

attribute [aesop safe apply (rule_sets := [Sg])] RecSI.call_free RecSI.res_free

/-! ### loops with an accumulator -/

def stepVal {β : Type} : ForInStep β → β
  | .done b => b
  | .yield b => b

/-- `for x in l do …` with an invariant over the mutable variable and the state -/
theorem forIn_inv {γ β : Type} (J : β → State → Prop) (l : List γ) (f : γ → β → M (ForInStep β))
    (hf : ∀ a ∈ l, ∀ b s, J b s → J (stepVal (f a b s).1) (f a b s).2) (init : β) (s : State) (h : J init s) :
    J ((forIn l init f : M β) s).1 ((forIn l init f : M β) s).2 := by
  induction l generalizing init s with
  | nil => exact h
  | cons x xs ih =>
    simp only [List.forIn_cons]
    simp only [bind]
    have hx := hf x (List.mem_cons_self) init s h
    cases hr : (f x init s).1 with
    | done b =>
      rw [hr] at hx
      exact hx
    | yield b =>
      rw [hr] at hx
      exact ih (fun a ha => hf a (List.mem_cons_of_mem _ ha)) b _ hx

/-! ### top-level futures -/

@[aesop safe apply (rule_sets := [Sg])]
theorem newTop_si (cbs : List TopCb) : Pres (SI J) (newTop cbs) := by
  unfold newTop; sg

@[aesop safe apply (rule_sets := [Sg])]
theorem sendReply_si (cid : Option String) (id : JVal) (c : Bool) (a b d : String) : Pres (SI J) (sendReply cid id c a b d) := by
  unfold sendReply; sg

@[aesop safe apply (rule_sets := [Sg])]
theorem runTopCb_si (v : Val) (cb : TopCb) : Pres (SI J) (runTopCb v cb) := by
  have hr : ∀ n, Pres (SI J) (emit (.raised n)) := fun n => emit_si _ rfl rfl
  cases cb <;> simp only [runTopCb] <;>
    aesop (add safe apply hr) (rule_sets := [Sg]) (config := { terminal := true, useDefaultSimpSet := false, useSimpAll := false, maxRuleApplications := 3000 })

@[aesop safe apply (rule_sets := [Sg])]
theorem deliverCbs_si (armed : Bool) (v : Val) (cbs : List TopCb) : Pres (SI J) (deliverCbs armed v cbs) := by
  induction cbs with
  | nil => unfold deliverCbs; sg
  | cons cb rest ih =>
    unfold deliverCbs
    aesop (add safe apply ih) (rule_sets := [Sg]) (config := { terminal := true, useDefaultSimpSet := false, useSimpAll := false, maxRuleApplications := 3000 })

@[aesop safe apply (rule_sets := [Sg])]
theorem deliverTop_si (tid : Nat) (v : Val) : Pres (SI J) (deliverTop tid v) := by
  unfold deliverTop; sg

@[aesop safe apply (rule_sets := [Sg])]
theorem addDoneCallback_si (tid : Nat) (cb : TopCb) : Pres (SI J) (addDoneCallback tid cb) := by
  unfold addDoneCallback; sg

/-! ### frames -/

theorem newFrame_si_ctx (k : Kont) (parent : Waiter) (s : State) (h : SI J s) (hk : KOk s k)
    (hc : ∀ p, k.loopPid = some p → pendCount s p = 0) : SI J (newFrame k parent s).2 := by
  unfold newFrame
  simp only [bind, pure]
  have q := squiet_freshId s
  have h1 := freshId_si s h
  exact pushFrame_si _ _ h1 (hk.mono q.ext) (fun p hp => by rw [q.pendCount]; exact hc p hp)

@[aesop safe apply (rule_sets := [Sg])]
theorem newFrame_si (k : Kont) (parent : Waiter) (hk : k.free = true) : Pres (SI J) (newFrame k parent) :=
  fun s h => newFrame_si_ctx k parent s h (KOk.of_free hk) (fun p hp => by rw [Kont.loopPid_of_free hk] at hp; cases hp)

@[aesop safe apply (rule_sets := [Sg])]
theorem addSleeper_si (ms : Nat) (w : Waiter) : Pres (SI J) (addSleeper ms w) := by
  unfold addSleeper; sg

attribute [aesop safe apply (rule_sets := [Sg])] armFrame_si removeFrame_si

theorem awaitSleep_si_ctx (ms : Nat) (k : Kont) (parent : Waiter) (s : State) (h : SI J s) (hk : KOk s k)
    (hc : ∀ p, k.loopPid = some p → pendCount s p = 0) : SI J (awaitSleep ms k parent s).2 := by
  unfold awaitSleep
  simp only [bind]
  exact addSleeper_si _ _ _ (armFrame_si _ _ (newFrame_si_ctx k parent s h hk hc))

@[aesop safe apply (rule_sets := [Sg])]
theorem awaitSleep_si (ms : Nat) (k : Kont) (parent : Waiter) (hk : k.free = true) : Pres (SI J) (awaitSleep ms k parent) :=
  fun s h => awaitSleep_si_ctx ms k parent s h (KOk.of_free hk) (fun p hp => by rw [Kont.loopPid_of_free hk] at hp; cases hp)

theorem find_frame_mem {l : List Frame} {fid : Nat} {f : Frame} (h : l.find? (fun x => decide (x.fid = fid)) = some f) :
    f ∈ l ∧ f.fid = fid := by
  refine ⟨List.mem_of_find?_eq_some h, ?_⟩
  have := List.find?_some h
  simpa using this

/-- the continuation of a frame that has just been taken off the heap may run -/
theorem taskOk_removeFrame {s : State} (h : SI J s) {f : Frame} (hf : f ∈ s.frames) (v : Val) (w : Waiter) :
    TaskOk J (removeFrame f.fid s).2 (.resume f.k v w) := by
  have e : Ext s (removeFrame f.fid s).2 := Ext.of_heap rfl rfl rfl rfl rfl
  exact ⟨(h.fr f hf).mono e, fun p hp => pendCount_removeFrame h hf hp⟩

@[aesop safe apply (rule_sets := [Sg])]
theorem multiCollect_si {rec : Rec} (hrec : RecSI J rec) (fid slot : Nat) (v : Val) : Pres (SI J) (multiCollect rec fid slot v) := by
  have hs : ∀ n rs, Pres (SI J) (setFrameK fid (.multi n rs)) := fun n rs => setFrameK_si _ _ rfl
  unfold multiCollect
  aesop (add safe apply hs) (rule_sets := [Sg]) (config := { terminal := true, useDefaultSimpSet := false, useSimpAll := false, maxRuleApplications := 3000 })

/-- **`deliver`**: a result resumes the frame that waits for it — with what that frame's
    continuation knows -/
@[aesop safe apply (rule_sets := [Sg])]
theorem deliver_si {rec : Rec} (hrec : RecSI J rec) (w : Waiter) (v : Val) : Pres (SI J) (deliver rec w v) := by
  intro s h
  unfold deliver
  cases w with
  | none => exact h
  | callback n => exact enqueueCallback_si n s h
  | top tid => exact deliverTop_si tid v s h
  | frame fid slot =>
    simp only [bind, getS]
    cases hfind : s.frames.find? (fun x => decide (x.fid = fid)) with
    | none => exact h
    | some f =>
      obtain ⟨hmem, hfid⟩ := find_frame_mem hfind
      simp only
      cases hk : f.k with
      | multi n rs =>
        simp only
        by_cases ha : f.armed = true
        · erw [if_pos ha]
          exact enqueueResume_free_si _ _ _ rfl s h
        · erw [if_neg ha]
          by_cases hge : (rs ++ [(slot, v)]).length ≥ n
          · erw [if_pos hge]
            exact hrec.res_free .pass _ _ rfl _ (removeFrame_si fid s h)
          · erw [if_neg hge]
            exact setFrameK_si _ _ rfl s h
      | _ =>
        simp only
        have ht := taskOk_removeFrame h hmem v f.parent
        rw [hfid, hk] at ht
        have h1 := removeFrame_si fid s h
        by_cases ha : f.armed = true
        · erw [if_pos ha]
          refine enqueue_si _ _ h1 ?_ ?_
          · intro k' hk'
            simp only [Ready.kont, Option.some.injEq] at hk'
            subst hk'
            exact ht.1
          · intro p hp
            exact ht.2 p (by simpa [Ready.loopPid, Ready.kont] using hp)
        · erw [if_neg ha]
          exact hrec.run _ _ h1 ht

@[aesop safe apply (rule_sets := [Sg])]
theorem await_si {rec : Rec} (hrec : RecSI J rec) (c : Call) (k : Kont) (parent : Waiter) (hc : c.free = true) (hk : k.free = true) :
    Pres (SI J) (await rec c k parent) := by
  unfold await; sg

/-- `yield child` for a child that needs its `Process` object -/
theorem await_si_ctx {rec : Rec} (hrec : RecSI J rec) (c : Call) (k : Kont) (parent : Waiter) (s : State) (h : SI J s)
    (hc : CallOk J s c) (hk : KOk s k) (hkc : ∀ p, k.loopPid = some p → pendCount s p = 0) : SI J (await rec c k parent s).2 := by
  unfold await
  simp only [bind]
  have h1 := newFrame_si_ctx k parent s h hk hkc
  have ho : ∀ p, HasObj s p → HasObj (newFrame k parent s).2 p := fun p hp => by
    unfold newFrame
    simp only [bind, pure]
    exact hp
  exact armFrame_si _ _ (hrec.run _ _ h1 (CallOk.mono ho hc))

/-- the loop of `gen.multi` that starts the children -/
theorem multiLoop_si {rec : Rec} (hrec : RecSI J rec) (fm : Nat) (cs : List Call) (s : State) (h : SI J s)
    (hc : ∀ c ∈ cs, CallOk J s c) (i : Nat) :
    SI J ((forIn cs i (fun c r => (do
        rec (.call c (.frame fm r))
        pure PUnit.unit
        pure (ForInStep.yield (r + 1)) : M (ForInStep Nat))) : M Nat) s).2 := by
  have := forIn_inv (fun (_ : Nat) s' => SI J s' ∧ ∀ c ∈ cs, CallOk J s' c) cs
    (fun c r => (do
        rec (.call c (.frame fm r))
        pure PUnit.unit
        pure (ForInStep.yield (r + 1)) : M (ForInStep Nat)))
    (by
      intro c hcm b s' ⟨hs', hc'⟩
      simp only [bind, pure]
      exact ⟨hrec.run _ _ hs' (hc' c hcm), fun c2 hc2 => CallOk.mono (hrec.obj _ _) (hc' c2 hc2)⟩) i s ⟨h, hc⟩
  exact this.1

/-- **`yield [c1, …, cn]`** -/
theorem awaitMulti_si_ctx {rec : Rec} (hrec : RecSI J rec) (cs : List Call) (k : Kont) (parent : Waiter) (hk : k.free = true)
    (s : State) (h : SI J s) (hc : ∀ c ∈ cs, CallOk J s c) : SI J (awaitMulti rec cs k parent s).2 := by
  unfold awaitMulti
  by_cases he : cs.isEmpty = true
  · erw [if_pos he]
    exact hrec.res_free k _ parent hk s h
  · erw [if_neg he]
    simp only [bind]
    have h1 := newFrame_si k parent hk s h
    have h2 := newFrame_si (.multi cs.length []) (.frame (newFrame k parent s).1 0) rfl _ h1
    have ho : ∀ p, HasObj s p → HasObj (newFrame (.multi cs.length []) (.frame (newFrame k parent s).1 0) (newFrame k parent s).2).2 p :=
      fun p hp => by
        unfold newFrame
        simp only [bind, pure]
        exact hp
    have h3 := multiLoop_si hrec (newFrame (.multi cs.length []) (.frame (newFrame k parent s).1 0) (newFrame k parent s).2).1 cs _ h2
      (fun c hcm => CallOk.mono ho (hc c hcm)) 0
    exact armFrame_si _ _ (armFrame_si _ _ h3)

@[aesop safe apply (rule_sets := [Sg])]
theorem awaitMulti_map_si {rec : Rec} (hrec : RecSI J rec) {β : Type} (f : β → Call) (l : List β) (k : Kont) (parent : Waiter)
    (hf : ∀ b, (f b).free = true) (hk : k.free = true) : Pres (SI J) (awaitMulti rec (l.map f) k parent) := fun s h =>
  awaitMulti_si_ctx hrec _ k parent hk s h (fun c hc => by
    obtain ⟨b, _, rfl⟩ := List.mem_map.mp hc
    exact CallOk.of_free (hf b))

/-- `yield [kill_process(p) for p in pids]` for pids that have their `Process` object -/
theorem awaitMulti_kill_si {rec : Rec} (hrec : RecSI J rec) (u : Nat) (sig gt : Option Nat) (pids : List Nat) (k : Kont)
    (parent : Waiter) (hk : k.free = true) (s : State) (h : SI J s) (hp : ∀ q ∈ pids, HasObj s q)
    (hsig : J.isSome = true → sig ≠ some 9) :
    SI J (awaitMulti rec (pids.map fun p => .killProcess u p sig gt) k parent s).2 :=
  awaitMulti_si_ctx hrec _ k parent hk s h (fun c hc => by
    obtain ⟨b, hb, rfl⟩ := List.mem_map.mp hc
    exact ⟨hp b hb, hsig⟩)

/-! ### what the first phase of `kill_process` leaves behind -/

theorem callHook_false_called (u : Nat) (hn : String) (s : State) (h : (callHook u hn s).1 = false) :
    HookCalled (callHook u hn s).2 u hn := by
  unfold callHook at h ⊢
  simp only [bind] at h ⊢
  cases hl : (getW u s).1.hooks.lookup hn with
  | none => rw [hl] at h; simp [pure] at h
  | some spec =>
    dsimp only
    -- after `bumpHook` the counter is set, and the `notify` that follows keeps it
    have hb : HookCalled (bumpHook u hn (((getW u s).1.hookCalls.lookup hn).getD 0) (getW u s).2).2 u hn := by
      unfold HookCalled
      simp only [getW, bumpHook, modW, modS]
      rw [find_map_key (·.uid) s.ws _ (by intro w; split <;> rfl) u]
      cases hf : s.ws.find? (fun w => decide (w.uid = u)) with
      | none =>
        -- no such watcher object: `getW` gives the default watcher, which has no hooks
        exfalso
        simp only [getW, hf, Option.getD_none, defaultWatcher] at hl
        simp at hl
      | some w =>
        have hwu : w.uid = u := by
          have := List.find?_some hf
          simpa using this
        simp [hwu, List.lookup]
    generalize (bumpHook u hn (((getW u s).1.hookCalls.lookup hn).getD 0) (getW u s).2).2 = s1 at hb
    by_cases hraise : spec.outs.getD (((getW u s).1.hookCalls.lookup hn).getD 0 %
        if spec.outs.length = 0 then 1 else spec.outs.length) "true" = "raise"
    · erw [if_pos hraise]
      exact (squiet_notify u "hook_failure" none hn s1).ext.hook u hn hb
    · erw [if_neg hraise]
      exact (squiet_notify u "hook_success" none hn s1).ext.hook u hn hb

/-- the daemon's `kill` is in the log unless the daemon hangs — when the kernel did not refuse it (a refused one,
    EPERM, is logged with the tag `via ++ "!"`: it is no delivery) -/
theorem kKill_logged (p sg : Nat) (via : String) (s : State) (hnd : (kKill p sg via s).1 ≠ .denied) :
    (∃ st, Obs.sig p sg st via ∈ (kKill p sg via s).2.log) ∨ (kKill p sg via s).2.blocked = true := by
  have hd : (s.k.killD p sg).2.2 = false := by
    cases hx : (s.k.killD p sg).2.2 with
    | false => rfl
    | true =>
      exfalso; apply hnd
      simp [kKill, bind, pure, runK, emit, modS, SigRes.of, hx]
  unfold kKill
  simp only [bind, pure, emit, modS, runK]
  by_cases hb : s.blocked = true
  · right
    simp [hb, Obs.isRep, Obs.isEv]
  · left
    refine ⟨(s.k.killD p sg).2.1, ?_⟩
    simp [hb, hd, Obs.isRep, Obs.isEv]

/-- **`Watcher.send_signal(p, sig)`** leaves the evidence `Began` behind, whatever it returns — unless it ends with
    `AccessDenied` (the kernel refused the signal: EPERM), which ends `kill_process` too -/
theorem sendSignal_began (u p sg : Nat) (s : State) (ho : HasObj s p) (hnd : (sendSignal u p sg s).1 ≠ .denied) :
    Began (sendSignal u p sg s).2 u p sg := by
  have e1 : (getW u s).2 = s := rfl
  by_cases hc : (getW u s).1.pids.contains p = true
  · -- what `send_signal` returns when the signal is sent and the kernel refuses it
    have hden : ∀ rv s1, callHook u "before_signal" s = (rv, s1) → ¬ ((decide (sg ≠ 9) && !rv) = true) →
        (kKill p sg "" s1).1 = .denied → (sendSignal u p sg s).1 = .denied := by
      intro rv s1 hr hv hd
      unfold sendSignal
      simp only [bind]
      erw [if_pos hc]
      rw [e1, hr]
      erw [if_neg hv]
      erw [if_neg (by rw [hd]; decide)]
      exact hd
    unfold sendSignal
    simp only [bind]
    erw [if_pos hc]
    rw [e1]
    have hq0 := squiet_callHook u "before_signal" s
    have hfc := callHook_false_called u "before_signal" s
    generalize hr : callHook u "before_signal" s = r at hq0 hfc
    obtain ⟨rv, s1⟩ := r
    have ho1 : HasObj s1 p := hq0.ext.obj p ho
    by_cases hv : (decide (sg ≠ 9) && !rv) = true
    · -- vetoed: the hook has been called
      erw [if_pos hv]
      have hrv : rv = false := by
        simp only [Bool.and_eq_true, Bool.not_eq_true'] at hv
        exact hv.2
      have hsg : sg ≠ 9 := by
        simp only [Bool.and_eq_true, decide_eq_true_eq] at hv
        exact hv.1
      have hcalled : HookCalled s1 u "before_signal" := hfc hrv
      erw [if_pos rfl]
      have hq2 := squiet_callHook u "after_signal" s1
      exact Or.inr (Or.inr (Or.inl ⟨hsg, hq2.ext.hook _ _ hcalled⟩))
    · erw [if_neg hv]
      have hk := kKill_logged p sg "" s1 (fun hd => hnd (hden rv s1 hr hv hd))
      have hqk := squietW_kKill p sg "" s1
      generalize kKill p sg "" s1 = rk at hk hqk
      obtain ⟨ok, s2⟩ := rk
      have hB2 : Began s2 u p sg := by
        rcases hk with ⟨st, hst⟩ | hb
        · exact Or.inl ⟨st, hst⟩
        · exact Or.inr (Or.inl hb)
      by_cases hok : ok = SigRes.ok
      · erw [if_pos hok]
        exact hB2.mono (squiet_callHook u "after_signal" s2).ext.toExt0 (hqk.ext.obj p ho1)
      · erw [if_neg hok]
        exact hB2
  · unfold sendSignal
    simp only [bind]
    erw [if_neg hc]
    refine Or.inr (Or.inr (Or.inr (Or.inl (?_ : ¬ Listed s u p))))
    intro hl
    apply hc
    unfold Listed at hl
    simpa using hl

/-- the rest of `send_signal_process` after the signal to the worker itself (`AccessDenied` of that signal ends it;
    `signalKids`: the loop over the children, ended by the first child the daemon may not signal) -/
def sspTail (u p sg : Nat) (ok : SigRes) (children : List Nat) : M Bool :=
  if ok = .denied then pure false else do
    if ok = .ok then notify u "kill" (some p)
    signalKids u p sg children

theorem sendSignalProcess_eq (u p sg : Nat) (r : Bool) :
    sendSignalProcess u p sg r = (do
      let cs ← kChildren p r
      match cs with
      | none => pure true
      | some children => do
        let ok ← sendSignal u p sg
        sspTail u p sg ok children) := rfl

theorem sspTail_s {I : State → Prop} (L : LeafS I) (u p sg : Nat) (ok : SigRes) (children : List Nat) :
    Pres I (sspTail u p sg ok children) := by
  unfold sspTail; sg

theorem squietW_sspTail (u p sg : Nat) (ok : SigRes) (children : List Nat) : SQuietWM (sspTail u p sg ok children) :=
  SQuietWM.of_pres fun s0 => sspTail_s (squietWLeafS s0) u p sg ok children

/-- **`send_signal_process(p, sig)`** (the first phase with `stop_children`): the signal is in the
    log — or one of the exemptions of `Began` holds; in particular `NoSuchProcess` from `children()`
    means the process is gone -/
theorem sendSignalProcess_began (u p sg : Nat) (r : Bool) (s : State) (hpid : PidInv s) (ho : HasObj s p)
    (hok : (sendSignalProcess u p sg r s).1 = true) :
    Began (sendSignalProcess u p sg r s).2 u p sg := by
  rw [sendSignalProcess_eq] at hok ⊢
  simp only [bind] at hok ⊢
  have hq0 := squiet_kChildren p r s
  revert hok
  cases hcs : (kChildren p r s).1 with
  | none =>
    intro _
    simp only [pure]
    refine Or.inr (Or.inr (Or.inr (Or.inr ?_)))
    exact Kernel.children_none_gone s.k p r (hpid.objInK p ho) hcs
  | some children =>
    intro hok
    simp only at hok ⊢
    have ho1 := hq0.ext.obj p ho
    -- had the worker's own signal been refused (`AccessDenied`), `send_signal_process` would not have returned
    have hnd : (sendSignal u p sg (kChildren p r s).2).1 ≠ .denied := by
      intro hd
      rw [hd] at hok
      have : (sspTail u p sg SigRes.denied children (sendSignal u p sg (kChildren p r s).2).2).1 = false := by
        unfold sspTail
        erw [if_pos rfl]
        rfl
      rw [this] at hok
      cases hok
    have hB := sendSignal_began u p sg (kChildren p r s).2 ho1 hnd
    have hq1 := squietW_sendSignal u p sg (kChildren p r s).2
    exact hB.mono (squietW_sspTail u p sg _ children _).ext.toExt0 (hq1.ext.obj p ho1)

/-! ### a SIGKILL through `send_signal`, justified -/

/-- the escalation sends nothing to a pid its watcher does not list (`send_signal` returns at once) -/
theorem sendSignal_unlisted (u p sg : Nat) (s : State) (h : ¬ Listed s u p) : sendSignal u p sg s = (.ok, s) := by
  unfold sendSignal
  simp only [bind]
  have hc : ¬ (getW u s).1.pids.contains p = true := by
    intro hc
    apply h
    unfold Listed
    simpa using hc
  erw [if_neg hc]
  rfl

/-- what allows a SIGKILL entry for `p` to be appended now: nothing is appended at all (the daemon
    hangs), or the entry will be `Justified` -/
def JPre (X : Prop) (s : State) (p : Nat) : Prop :=
  s.blocked = true ∨ X ∨ (∃ sg st, Obs.sig p sg st "" ∈ s.log) ∨ (∃ u, HookCalled s u "before_signal") ∨ s.k.NDC p

theorem JPre.mono {X : Prop} {s s' : State} (e : Ext0 s s') {p : Nat} (h : JPre X s p) : JPre X s' p := by
  rcases h with h | h | ⟨sg, st, h⟩ | ⟨u, h⟩ | h
  · exact Or.inl (e.blocked h)
  · exact Or.inr (Or.inl h)
  · exact Or.inr (Or.inr (Or.inl ⟨sg, st, e.log _ h⟩))
  · exact Or.inr (Or.inr (Or.inr (Or.inl ⟨u, e.hook u _ h⟩)))
  · exact Or.inr (Or.inr (Or.inr (Or.inr (e.ndc p h))))

/-- appending one justified SIGKILL entry keeps the justification of the log -/
theorem LogJ.snoc {n0 : Nat} {X : Prop} {s s' : State} (h : LogJ n0 X s) (e : Ext0 s s') (p : Nat) (st : PState)
    (hl : s'.log = s.log ++ [Obs.sig p 9 st ""]) (hj : Justified X s' s.log p) : LogJ n0 X s' := by
  intro pre post q st' hd hn
  rw [hl] at hd
  rcases List.append_eq_append_iff.mp hd with ⟨a, h1, h2⟩ | ⟨a, h1, h2⟩
  · -- the entry is the new one
    cases a with
    | nil =>
      simp only [List.nil_append, List.cons.injEq, Obs.sig.injEq] at h2
      simp only [List.append_nil] at h1
      obtain ⟨⟨rfl, _, _, _⟩, _⟩ := h2
      rw [h1]; exact hj
    | cons y a' =>
      have := congrArg List.length h2
      simp at this
  · -- it stands in the old log
    cases a with
    | nil =>
      simp only [List.nil_append, List.cons.injEq, Obs.sig.injEq] at h2
      simp only [List.append_nil] at h1
      obtain ⟨⟨rfl, _, _, _⟩, _⟩ := h2
      rw [← h1]; exact hj
    | cons y a' =>
      simp only [List.cons_append, List.cons.injEq] at h2
      obtain ⟨rfl, h3⟩ := h2
      exact (h pre a' q st' h1 hn).mono e

/-- **one justified SIGKILL**: `kKill p 9 ""` keeps the invariant in its justifying mode when the entry
    it appends is accounted for -/
theorem kKill_nine_si (jm : JM) (p : Nat) (s : State) (h : SI (some jm) s) (hj : JPre jm.X s p) :
    SI (some jm) (kKill p 9 "" s).2 := by
  have hq := squietW_kKill p 9 "" s
  have hpid := kKill_pres pidLeafW.toLeafK p 9 "" s h.pid
  have hnone := h.toNone.of_quietW hpid hq
  refine ⟨hpid, hnone.fr, hnone.rd, hnone.uniq, hnone.reap, hnone.pos, hnone.wpar, ?_⟩
  intro jm' hjm
  cases hjm
  have hji := h.just jm rfl
  -- the kernel call, then the log entry
  have hq1 := squiet_runK (fun k => k.killD p 9) (KGMono.killD p 9) (KNMono.killD p 9) (KStep.killD p 9) (KDMono.killD p 9) s
  have hj1 := hji.mono hq1.ext.toExt0 hq1.nn
  have hpre1 : JPre jm.X (runK (fun k => k.killD p 9) s).2 p := hj.mono hq1.ext.toExt0
  unfold kKill
  simp only [bind, pure]
  generalize (runK (fun k => k.killD p 9) s) = r1 at hj1 hpre1 ⊢
  obtain ⟨⟨st, den⟩, s1⟩ := r1
  cases den with
  | true =>
    -- refused by the kernel (EPERM): the entry carries the tag "!", it is no SIGKILL that went through
    have hqe := squiet_emit (Obs.sig p 9 st ("" ++ "!")) rfl (by simp [Obs.isNine]) s1
    exact hj1.mono hqe.ext.toExt0 hqe.nn
  | false =>
  simp only [Bool.false_eq_true, if_false]
  simp only [emit, modS]
  by_cases hb : (s1.blocked || (Obs.sig p 9 st "").isRep || (Obs.sig p 9 st "").isEv) = true
  · rw [if_pos hb]; exact hj1
  · rw [if_neg hb]
    have hnb : s1.blocked = false := by
      simp only [Obs.isRep, Obs.isEv, Bool.or_false, Bool.not_eq_true] at hb
      exact hb
    have e : Ext0 s1 { s1 with log := s1.log ++ [Obs.sig p 9 st ""] } :=
      Ext0.ofK ⟨fun o ho => List.mem_append_left _ ho, fun hh => hh, fun q hq => hq, fun u hn hh => hh, fun u q _ hn => hn,
       fun q hq => hq, fun q st' hr => by
         rcases List.mem_append.mp hr with hr | hr
         · exact Or.inl hr
         · simp at hr,
       fun q hq => hq⟩ rfl (fun q hq => hq)
    have hjust : Justified jm.X s1 s1.log p := by
      rcases hpre1 with hbl | hx | hs | hh | hn
      · rw [hnb] at hbl; cases hbl
      · exact Or.inr (Or.inl hx)
      · exact Or.inl hs
      · exact Or.inr (Or.inr (Or.inl hh))
      · exact Or.inr (Or.inr (Or.inr hn))
    exact ⟨LogJ.snoc hj1.log e p st rfl (hjust.mono e), hj1.nine⟩

/-- `kKill` in a justifying mode: anything but a SIGKILL through `send_signal` is free -/
theorem kKill_si_j (jm : JM) (p sg : Nat) (s : State) (h : SI (some jm) s) (hj : sg = 9 → JPre jm.X s p) :
    SI (some jm) (kKill p sg "" s).2 := by
  by_cases h9 : sg = 9
  · subst h9; exact kKill_nine_si jm p s h (hj rfl)
  · exact (siLeafS0 (some jm)).kKillN p sg "" (fun hh => h9 hh.1) s h

/-- **`Watcher.send_signal(p, sig)`** in a justifying mode: a SIGKILL must be accounted for, or go to a
    pid the watcher does not list (then nothing is sent) -/
theorem sendSignal_si_j (jm : JM) (u p sg : Nat) (s : State) (h : SI (some jm) s)
    (hj : sg = 9 → JPre jm.X s p ∨ ¬ Listed s u p) : SI (some jm) (sendSignal u p sg s).2 := by
  by_cases hl : Listed s u p
  · unfold sendSignal
    simp only [bind]
    have e1 : (getW u s).2 = s := rfl
    have hc : (getW u s).1.pids.contains p = true := by
      unfold Listed at hl
      simpa using hl
    erw [if_pos hc]
    rw [e1]
    have hq0 := squiet_callHook u "before_signal" s
    have h0 := callHook_s (siLeafS0 (some jm)) u "before_signal" s h
    generalize callHook u "before_signal" s = r at hq0 h0
    obtain ⟨rv, s1⟩ := r
    by_cases hv : (decide (sg ≠ 9) && !rv) = true
    · erw [if_pos hv]
      erw [if_pos rfl]
      exact callHook_s (siLeafS0 (some jm)) u "after_signal" s1 h0
    · erw [if_neg hv]
      have hk := kKill_si_j jm p sg s1 h0 (by
        intro h9
        rcases hj h9 with hp | hn
        · exact hp.mono hq0.ext.toExt0
        · exact absurd hl hn)
      generalize kKill p sg "" s1 = rk at hk
      obtain ⟨ok, s2⟩ := rk
      by_cases hok : ok = SigRes.ok
      · erw [if_pos hok]
        exact callHook_s (siLeafS0 (some jm)) u "after_signal" s2 hk
      · erw [if_neg hok]
        exact hk
  · rw [sendSignal_unlisted u p sg s hl]; exact h

theorem find_unique_of_nodup_list (l : List KProc) (hnd : (l.map (·.pid)).Nodup) {kp : KProc} (hm : kp ∈ l) :
    l.find? (fun p => decide (p.pid = kp.pid)) = some kp := by
  induction l with
  | nil => cases hm
  | cons x xs ih =>
    simp only [List.map_cons, List.nodup_cons] at hnd
    simp only [List.find?_cons]
    rcases List.mem_cons.mp hm with rfl | hm'
    · simp
    · have hne : ¬ x.pid = kp.pid := by
        intro he
        apply hnd.1
        rw [he]
        exact List.mem_map.mpr ⟨kp, hm', rfl⟩
      simp only [hne, decide_false]
      exact ih hnd.2 hm'

theorem find_unique_of_nodup {k : Kernel} (hnd : (k.procs.map (·.pid)).Nodup) {kp : KProc} (hm : kp ∈ k.procs) :
    k.find kp.pid = some kp := find_unique_of_nodup_list k.procs hnd hm

/-- **`Process.send_signal_child`** in a justifying mode: a child of a worker is no child of the daemon -/
theorem sendSignalChild_si_j (jm : JM) (p c sg : Nat) (s : State) (h : SI (some jm) s) (ho : HasObj s p) :
    SI (some jm) (sendSignalChild p c sg s).2 := by
  unfold sendSignalChild
  simp only [bind]
  have h1 := (siLeafS0 (some jm)).kChildren p false s h
  have hq1 := squiet_kChildren p false s
  cases hcs : (kChildren p false s).1 with
  | none => exact h1
  | some l =>
    simp only
    by_cases hc : l.contains c = true
    · erw [if_pos hc]
      refine kKill_si_j jm c sg _ h1 (fun _ => Or.inr (Or.inr (Or.inr (Or.inr ?_))))
      have hmem : c ∈ l := by simpa using hc
      obtain ⟨kp, hkp, hpid, hpp⟩ := Kernel.children_direct s.k p l hcs c hmem
      have hfind := find_unique_of_nodup (k := (kChildren p false s).2.k) h1.pid.kNodup hkp
      rw [hpid] at hfind
      refine ⟨kp, hfind, ?_⟩
      rw [hpp]
      intro h0
      simp only [Option.some.injEq] at h0
      -- `p` has a `Process` object, hence is a pid of the table, hence positive
      have hp1 : HasObj (kChildren p false s).2 p := hq1.ext.obj p ho
      have := h1.pos.2 p (h1.pid.objInK p hp1)
      omega
    · erw [if_neg hc]
      exact h1

theorem sspTail_si_j (jm : JM) (u p sg : Nat) (ok : SigRes) (children : List Nat) (s : State) (h : SI (some jm) s)
    (ho : HasObj s p) : SI (some jm) (sspTail u p sg ok children s).2 := by
  have key : Pres (fun s' => SI (some jm) s' ∧ HasObj s' p) (sspTail u p sg ok children) := by
    have hn : ∀ q x, Pres (fun s' => SI (some jm) s' ∧ HasObj s' p) (notify u "kill" q x) := fun q x s' hs' =>
      ⟨notify_s (siLeafS0 (some jm)) u "kill" q x s' hs'.1, (squiet_notify u "kill" q x s').ext.obj p hs'.2⟩
    have hc : ∀ c, Pres (fun s' => SI (some jm) s' ∧ HasObj s' p) (sendSignalChild p c sg) := fun c s' hs' =>
      ⟨sendSignalChild_si_j jm p c sg s' hs'.1 hs'.2, (squietW_sendSignalChild p c sg s').ext.obj p hs'.2⟩
    have hk : ∀ cs, Pres (fun s' => SI (some jm) s' ∧ HasObj s' p) (signalKids u p sg cs) := by
      intro cs
      induction cs with
      | nil =>
        unfold signalKids
        aesop (erase notify_s, sendSignalChild_s, signalKids_s) (rule_sets := [Sg])
          (config := { terminal := true, useDefaultSimpSet := false, useSimpAll := false, maxRuleApplications := 3000 })
      | cons c cs ih =>
        unfold signalKids
        aesop (add safe 0 apply hn, safe 0 apply hc, safe 0 apply ih) (erase notify_s, sendSignalChild_s, signalKids_s) (rule_sets := [Sg])
          (config := { terminal := true, useDefaultSimpSet := false, useSimpAll := false, maxRuleApplications := 3000 })
    unfold sspTail
    aesop (add safe 0 apply hn, safe 0 apply hc, safe 0 apply hk) (erase notify_s, sendSignalChild_s, signalKids_s) (rule_sets := [Sg])
      (config := { terminal := true, useDefaultSimpSet := false, useSimpAll := false, maxRuleApplications := 3000 })
  exact (key s ⟨h, ho⟩).1

/-- **`Watcher.send_signal_process(p, sig)`** in a justifying mode: a SIGKILL needs `X` or the evidence
    `Began` of a kill loop of `p` -/
theorem sendSignalProcess_si_j (jm : JM) (u p sg : Nat) (r : Bool) (s : State) (h : SI (some jm) s) (ho : HasObj s p)
    (hj : sg = 9 → jm.X ∨ ∃ sig, Began s u p sig) : SI (some jm) (sendSignalProcess u p sg r s).2 := by
  rw [sendSignalProcess_eq]
  simp only [bind]
  have h1 := (siLeafS0 (some jm)).kChildren p r s h
  have hq1 := squiet_kChildren p r s
  cases hcs : (kChildren p r s).1 with
  | none => exact h1
  | some children =>
    simp only
    have ho1 := hq1.ext.obj p ho
    have h2 := sendSignal_si_j jm u p sg _ h1 (by
      intro h9
      rcases hj h9 with hx | ⟨sig, hb⟩
      · exact Or.inl (Or.inr (Or.inl hx))
      · rcases hb with ⟨st, hs⟩ | hb | ⟨_, hh⟩ | hn | hg
        · exact Or.inl (Or.inr (Or.inr (Or.inl ⟨sig, st, hq1.ext.log _ hs⟩)))
        · exact Or.inl (Or.inl (hq1.ext.blocked hb))
        · exact Or.inl (Or.inr (Or.inr (Or.inr (Or.inl ⟨u, hq1.ext.hook u _ hh⟩))))
        · exact Or.inr (hq1.ext.unl u p ho hn)
        · exfalso
          have := Kernel.children_gone s.k p r hg
          have hcs' : (s.k.children p r).2 = some children := hcs
          rw [this] at hcs'
          cases hcs')
    have ho2 := (squietW_sendSignal u p sg _).ext.obj p ho1
    exact sspTail_si_j jm u p sg _ children _ h2 ho2

/-- `send_signal` / `send_signal_process` in any mode -/
theorem sendSignal_si (u p sg : Nat) (s : State) (h : SI J s)
    (hj : ∀ jm, J = some jm → sg = 9 → JPre jm.X s p ∨ ¬ Listed s u p) : SI J (sendSignal u p sg s).2 := by
  cases J with
  | none => exact sendSignal_s siLeafS u p sg s h
  | some jm => exact sendSignal_si_j jm u p sg s h (hj jm rfl)

theorem sendSignalProcess_si (u p sg : Nat) (r : Bool) (s : State) (h : SI J s) (ho : HasObj s p)
    (hj : ∀ jm, J = some jm → sg = 9 → jm.X ∨ ∃ sig, Began s u p sig) : SI J (sendSignalProcess u p sg r s).2 := by
  cases J with
  | none => exact sendSignalProcess_s siLeafS u p sg r s h
  | some jm => exact sendSignalProcess_si_j jm u p sg r s h ho (hj jm rfl)

/-- a watcher whose `stop_signal` is 9 is the exemption `X` of the justifying mode -/
theorem getW_nine {jm : JM} {s : State} (h : JInv jm s) (u : Nat) (h9 : (getW u s).1.stopSignal = 9) : jm.X := by
  simp only [getW] at h9
  cases hf : s.ws.find? (fun w => decide (w.uid = u)) with
  | none => rw [hf] at h9; simp [defaultWatcher] at h9
  | some w =>
    rw [hf] at h9
    exact h.nine w (List.mem_of_find?_eq_some hf) h9

/-! ### `Watcher.kill_process` -/

/-- `kill_process`, last part: no loop is pending for `p` any more when its flag is cleared; the
    escalation is the SIGKILL of a loop that has `Began` -/
theorem killFinish_si {rec : Rec} (hrec : RecSI J rec) (u p : Nat) (esc : Bool) (wt : Waiter) (s : State) (h : SI J s)
    (hc : pendCount s p = 0) (ho : HasObj s p) (hb : ∃ sig, Began s u p sig) : SI J (killFinish rec u p esc wt s).2 := by
  have fin : ∀ s1, SI J s1 → pendCount s1 p = 0 →
      SI J (deliver rec wt (.bool true) (objStop p (setObjStopping p false s1).2).2).2 := by
    intro s1 h1 hc1
    have h2 := setObjStopping_false_si p s1 h1 hc1
    have h3 := objStop_s (siLeafS0 J) p _ h2
    exact deliver_si hrec wt _ _ h3
  unfold killFinish
  simp only [bind]
  cases esc with
  | true =>
    erw [if_pos rfl]
    have h1 := sendSignalProcess_si u p 9 true s h ho (fun jm _ _ => Or.inr hb)
    by_cases hr : (sendSignalProcess u p 9 true s).1 = true
    · erw [if_neg (by rw [hr]; simp)]
      exact fin _ h1 ((squietW_sendSignalProcess u p 9 true s).pendCount p |>.trans hc)
    · -- the SIGKILL was refused (EPERM): the flag is cleared (fix 60e14d0), `kill_process` ends with `AccessDenied`
      erw [if_pos (by simpa using hr)]
      exact deliver_si hrec wt _ _
        (setObjStopping_false_si p _ h1 ((squietW_sendSignalProcess u p 9 true s).pendCount p |>.trans hc))
  | false =>
    erw [if_neg (by simp)]
    simp only [pure]
    erw [if_neg (by simp)]
    exact fin _ h hc

/-- `kill_process`, the polling loop: a poll that finds the worker alive before the grace period
    is over parks the loop with everything it knows; otherwise the loop ends -/
theorem killLoop_si {rec : Rec} (hrec : RecSI J rec) (u p sig i polls : Nat) (wt : Waiter) (s : State) (h : SI J s)
    (hi : i ≤ polls) (ho : HasObj s p) (hb : Began s u p sig) (hst : Stopping s p) (hc : pendCount s p = 0) :
    SI J (killLoop rec u p sig i polls wt s).2 := by
  unfold killLoop
  by_cases hlt : i < polls
  · erw [if_pos hlt]
    simp only [bind]
    have hq := squiet_isAlive p s
    have h1 := isAlive_s (siLeafS0 J) p s h
    have hc1 : pendCount (isAlive p s).2 p = 0 := by rw [hq.pendCount]; exact hc
    by_cases ha : (isAlive p s).1 = true
    · erw [if_pos ha]
      refine awaitSleep_si_ctx 100 _ wt _ h1 ?_ ?_
      · exact (LoopOk.mk (Nat.succ_le_succ (Nat.zero_le i)) hlt ho hb hst : LoopOk s u p sig (i + 1) polls).mono hq.ext
      · intro q hq'
        simp only [Kont.loopPid, Option.some.injEq] at hq'
        subst hq'
        exact hc1
    · erw [if_neg ha]
      exact killFinish_si hrec u p false wt _ h1 hc1 (hq.ext.obj p ho) ⟨sig, hb.mono hq.ext.toExt0 ho⟩
  · erw [if_neg hlt]
    exact killFinish_si hrec u p true wt s h hc ho ⟨sig, hb⟩

/-- **`kill_process`** for a pid that has its `Process` object (and, in a justifying mode, without an
    explicit signal 9) -/
theorem killProcess_si {rec : Rec} (hrec : RecSI J rec) (u p : Nat) (sig gt : Option Nat) (wt : Waiter) (s : State) (h : SI J s)
    (ht : CallOk J s (.killProcess u p sig gt)) : SI J (killProcess rec u p sig gt wt s).2 := by
  obtain ⟨ho, hsig⟩ := ht
  unfold killProcess
  simp only [bind]
  simp only [show (getW u s).2 = s from rfl, show (getO p s).2 = s from rfl]
  by_cases hst : (getO p s).1.stopping = true
  · erw [if_pos hst]
    exact awaitSleep_si 100 (.killWaitOther p) wt rfl _ h
  · erw [if_neg hst]
    have hns : ¬ Stopping s p := hst
    have hc0 : pendCount s p = 0 := pendCount_zero_of_not_stopping h hns
    -- in a justifying mode the stop signal is 9 only when the watcher's `stop_signal` is
    have hX : ∀ jm, J = some jm → sig.getD (getW u s).1.stopSignal = 9 → jm.X := by
      intro jm hj h9
      have hs := hsig (by rw [hj]; rfl)
      cases sig with
      | none => exact getW_nine (h.just jm hj) u h9
      | some x =>
        simp only [Option.getD_some] at h9
        rw [h9] at hs
        exact absurd rfl hs
    generalize hsg : sig.getD (getW u s).1.stopSignal = sg at hX
    generalize hgt : gt.getD (getW u s).1.graceful = g
    -- the tail after the first phase, from a state in which the evidence is there
    have tail : ∀ s2, SI J s2 → HasObj s2 p → Began s2 u p sg → pendCount s2 p = 0 →
        SI J (killLoop rec u p sg 0 (pollsOf g) wt (setObjStopping p true s2).2).2 := by
      intro s2 h2 ho2 hB2 hc2
      have h3 := setObjStopping_true_si p s2 h2
      have e0 := ext0_setObjStopping p true s2
      refine killLoop_si hrec u p sg 0 (pollsOf g) wt _ h3 (Nat.zero_le _) (e0.obj p ho2) (hB2.mono e0 ho2) ?_ ?_
      · exact stopping_setObjStopping_self p true s2 ho2
      · exact hc2
    by_cases hch : (getW u s).1.stopChildren = true
    · erw [if_pos hch]
      simp only [bind, pure]
      have hq := squietW_sendSignalProcess u p sg false s
      have h2 := sendSignalProcess_si u p sg false s h ho (fun jm hj h9 => Or.inl (hX jm hj h9))
      by_cases hr : (sendSignalProcess u p sg false s).1 = true
      · have hB := sendSignalProcess_began u p sg false s h.pid ho hr
        simp only [hr, if_true]
        erw [if_neg (by decide)]
        erw [if_neg (by decide)]
        exact tail _ h2 (hq.ext.obj p ho) hB ((hq.pendCount p).trans hc0)
      · -- `AccessDenied` from the worker's or a child's signal: `kill_process` ends with it
        have hr' : (sendSignalProcess u p sg false s).1 = false := by simpa using hr
        simp only [hr', Bool.false_eq_true, if_false]
        erw [if_pos trivial]
        exact deliver_si hrec wt _ _ h2
    · erw [if_neg hch]
      simp only [bind, pure]
      have hq := squietW_sendSignal u p sg s
      have h2 := sendSignal_si u p sg s h (fun jm hj h9 => Or.inl (Or.inr (Or.inl (hX jm hj h9))))
      have ho2 := hq.ext.obj p ho
      have hc2 : pendCount (sendSignal u p sg s).2 p = 0 := (hq.pendCount p).trans hc0
      cases hr : (sendSignal u p sg s).1 with
      | ok =>
        have hB := sendSignal_began u p sg s ho (by rw [hr]; decide)
        have hqn := squiet_notify u "kill" (some p) "-" (sendSignal u p sg s).2
        have h3 := notify_s (siLeafS0 J) u "kill" (some p) "-" _ h2
        have key := tail _ h3 (hqn.ext.obj p ho2) (hB.mono hqn.ext.toExt0 ho2) ((hqn.pendCount p).trans hc2)
        erw [if_pos rfl]
        erw [if_neg (by decide)]
        erw [if_neg (by decide)]
        exact key
      | noSuch =>
        erw [if_neg (by decide)]
        erw [if_neg (by decide)]
        erw [if_pos rfl]
        exact deliver_si hrec wt _ _ h2
      | denied =>
        erw [if_neg (by decide)]
        erw [if_pos rfl]
        exact deliver_si hrec wt _ _ h2

end Circus.Core
