import CircusProofs.Core.WakePrim
/-!
`Wake` along all runs (no lost wake-up).

* neutral computations: `Pres (W h) m` for every hand `h` (they move no token);
* consuming computations: `Consumes l m` — started with the tokens `l` (and anything else `h`) in the
  hand, `m` ends with `h`: the tokens went into the state (a frame, a timer, a ready entry) or
  were delivered.

Layout: quiet writers and the aesop rule set `Wk` (`wk` tactic) — token lemmas of the coroutine
machinery (`newFrame_tr`, `deliver_cons`, `await*_cons`) — one `…_cons` lemma per coroutine body, each
`unfold; wk` under the assumption `RecWake rec` on the interpreter it calls back into — `exec_wake`
(induction on the fuel) — dispatch/commands (`…_w`, all neutral) — `settleStep_w`, `stepM_w`,
`wake_run`.  The escape (`blocked`, `outOfFuel`) is handled inside the primitive lemmas
(`HTr.ofCore`, `Wake.lift`), never in the composition proofs.
-/
set_option linter.unusedSimpArgs false
set_option linter.unusedVariables false
namespace Circus.Core

/-- `m` consumes the tokens `l` -/
def Consumes {α : Type} (l : List Tgt) (m : M α) : Prop := ∀ h, HTr (W (l ++ h)) m (W h)

/-! ### quiet writers -/

/-- the coroutine heap is untouched, ids only grow, the escape is sticky -/
def WQuiet (s s' : State) : Prop :=
  s'.frames = s.frames ∧ s'.sleepers = s.sleepers ∧ s'.tops = s.tops ∧ s'.ready = s.ready ∧
  s.nextId ≤ s'.nextId ∧ (Esc s → Esc s')

theorem W.ofQuiet {α : Type} {m : M α} {h : List Tgt} (hq : ∀ s, WQuiet s (m s).2) : Pres (W h) m := by
  intro s hw
  obtain ⟨h1, h2, h3, h4, h5, h6⟩ := hq s
  exact Wake.quiet hw h1 h2 h3 h4 h5 h6

theorem WQuiet.same {s s' : State} (h1 : s'.frames = s.frames) (h2 : s'.sleepers = s.sleepers) (h3 : s'.tops = s.tops)
    (h4 : s'.ready = s.ready) (h5 : s'.nextId = s.nextId) (h6 : s'.blocked = s.blocked) (h7 : s'.log = s.log) : WQuiet s s' :=
  ⟨h1, h2, h3, h4, Nat.le_of_eq h5.symm, Esc.of_eq h6 h7⟩

theorem wquiet_modW (u : Nat) (f : Watcher → Watcher) (s : State) : WQuiet s (modW u f s).2 :=
  WQuiet.same rfl rfl rfl rfl rfl rfl rfl
theorem wquiet_modO (p : Nat) (f : PObj → PObj) (s : State) : WQuiet s (modO p f s).2 :=
  WQuiet.same rfl rfl rfl rfl rfl rfl rfl
theorem wquiet_modA (f : Arbiter → Arbiter) (s : State) : WQuiet s (modA f s).2 :=
  WQuiet.same rfl rfl rfl rfl rfl rfl rfl

theorem esc_log_append {s : State} (l : List Obs) (h : Esc s) (s' : State) (hb : s'.blocked = s.blocked)
    (hl : s'.log = s.log ++ l) : Esc s' := by
  unfold Esc at *
  rw [hb, hl, List.any_append]
  rcases h with h | h
  · exact Or.inl h
  · right; simp [h]

theorem wquiet_emit (o : Obs) (s : State) : WQuiet s (emit o s).2 := by
  simp only [emit, modS]
  split
  · exact WQuiet.same rfl rfl rfl rfl rfl rfl rfl
  · exact ⟨rfl, rfl, rfl, rfl, Nat.le_refl _, fun e => esc_log_append [o] e _ rfl rfl⟩

theorem wquiet_emitEv (w t : String) (p : Option Nat) (x : String) (s : State) : WQuiet s (emitEv w t p x s).2 := by
  simp only [emitEv, modS]
  split
  · exact WQuiet.same rfl rfl rfl rfl rfl rfl rfl
  · exact ⟨rfl, rfl, rfl, rfl, Nat.le_refl _, fun e => esc_log_append [_] e _ rfl rfl⟩

theorem wquiet_emitRep (c : String) (i : JVal) (a b d : String) (s : State) : WQuiet s (emitRep c i a b d s).2 := by
  simp only [emitRep, modS]
  split
  · exact WQuiet.same rfl rfl rfl rfl rfl rfl rfl
  · exact ⟨rfl, rfl, rfl, rfl, Nat.le_refl _, fun e => esc_log_append [_] e _ rfl rfl⟩

theorem wLeafW (h : List Tgt) : LeafW (W h) where
  emit := fun o => W.ofQuiet (wquiet_emit o)
  runK := fun f _ => W.ofQuiet fun s => WQuiet.same rfl rfl rfl rfl rfl rfl rfl
  emitEv := fun w t p x => W.ofQuiet (wquiet_emitEv w t p x)
  popPid := fun u p => W.ofQuiet (wquiet_modW _ _)
  bumpHook := fun u hh i => W.ofQuiet (wquiet_modW _ _)
  setObjStopping := fun p b => W.ofQuiet (wquiet_modO _ _)
  setRc := fun p rc => W.ofQuiet (wquiet_modO _ _)
  markBlocked := W.ofQuiet fun s => ⟨rfl, rfl, rfl, rfl, Nat.le_refl _, fun _ => Or.inl rfl⟩


theorem runK_w {α : Type} (h : List Tgt) (f : Kernel → Kernel × α) : Pres (W h) (runK f) :=
  W.ofQuiet fun s => WQuiet.same rfl rfl rfl rfl rfl rfl rfl
theorem updK_w (h : List Tgt) (f : Kernel → Kernel) : Pres (W h) (updK f) := runK_w h _
theorem modW_w (h : List Tgt) (u : Nat) (f : Watcher → Watcher) : Pres (W h) (modW u f) := W.ofQuiet (wquiet_modW _ _)
theorem modA_w (h : List Tgt) (f : Arbiter → Arbiter) : Pres (W h) (modA f) := W.ofQuiet (wquiet_modA _)
theorem setStatus_w (h : List Tgt) (u : Nat) (st : Status) : Pres (W h) (setStatus u st) := modW_w h _ _
theorem setWOpt_w (h : List Tgt) (u : Nat) (c : OptChange) : Pres (W h) (setWOpt u c) := modW_w h _ _
theorem wquiet_ite {α : Type} {s : State} {c : Prop} [Decidable c] {a b : α × State} (ha : WQuiet s a.2) (hb : WQuiet s b.2) :
    WQuiet s (if c then a else b).2 := by
  split <;> assumption
theorem trySetNp_w (h : List Tgt) (u : Nat) (n : Int) : Pres (W h) (trySetNp u n) := by
  apply W.ofQuiet; intro s
  unfold trySetNp; simp only
  apply wquiet_ite <;> exact WQuiet.same rfl rfl rfl rfl rfl rfl rfl
theorem esc_log_ite {s : State} (l : List Obs) (s' : State) (hb : s'.blocked = s.blocked)
    (hl : s'.log = if s.blocked = true then s.log else s.log ++ l) (h : Esc s) : Esc s' := by
  split at hl
  · exact Esc.of_eq hb hl h
  · exact esc_log_append l h s' hb hl
theorem spawnAdopt_w (h : List Tgt) (u w : Nat) : Pres (W h) (spawnAdopt u w) := by
  apply W.ofQuiet; intro s
  unfold spawnAdopt; simp only
  cases hsp : s.k.spawn with
  | mk k' r =>
    cases r with
    | none => exact ⟨rfl, rfl, rfl, rfl, Nat.le_refl _, esc_log_ite [_] _ rfl rfl⟩
    | some pid => exact ⟨rfl, rfl, rfl, rfl, Nat.le_refl _, esc_log_ite [_] _ rfl rfl⟩
theorem freshId_w (h : List Tgt) : Pres (W h) freshId :=
  W.ofQuiet fun s => ⟨rfl, rfl, rfl, rfl, Nat.le_succ _, Esc.of_eq rfl rfl⟩
theorem setClosed_w (h : List Tgt) : Pres (W h) setClosed := modA_w h _
theorem setStopping_w (h : List Tgt) : Pres (W h) setStopping := modA_w h _
theorem setRestarting_w (h : List Tgt) : Pres (W h) setRestarting := modA_w h _
theorem clearRestarting_w (h : List Tgt) (b : Bool) : Pres (W h) (clearRestarting b) := modA_w h _
theorem setLoopStop_w (h : List Tgt) (b : Bool) : Pres (W h) (setLoopStop b) := modA_w h _
theorem setSocketEvent_w (h : List Tgt) (b : Bool) : Pres (W h) (setSocketEvent b) := modA_w h _
theorem setSockReady_w (h : List Tgt) (b : Bool) : Pres (W h) (setSockReady b) := modA_w h _
theorem setSlot_w (h : List Tgt) (v : Option String) : Pres (W h) (setSlot v) := modA_w h _
theorem unregister_w (h : List Tgt) (u : Nat) : Pres (W h) (unregisterWatcher u) := modA_w h _
theorem clearDone_w (h : List Tgt) : Pres (W h) clearDone :=
  W.ofQuiet fun s => WQuiet.same rfl rfl rfl rfl rfl rfl rfl
theorem emitRep_w (h : List Tgt) (c : String) (i : JVal) (a b d : String) : Pres (W h) (emitRep c i a b d) :=
  W.ofQuiet (wquiet_emitRep c i a b d)
theorem registerNew_w (h : List Tgt) (w : Watcher) : Pres (W h) (registerNew w) := by
  apply W.ofQuiet; intro s
  unfold registerNew registerChecked; simp only
  apply wquiet_ite
  · exact WQuiet.same rfl rfl rfl rfl rfl rfl rfl
  · apply wquiet_ite
    · exact WQuiet.same rfl rfl rfl rfl rfl rfl rfl
    · exact ⟨rfl, rfl, rfl, rfl, Nat.le_succ _, Esc.of_eq rfl rfl⟩

/-- an entry without token joins the ready queue -/
theorem enqueue_w (h : List Tgt) (r : Ready) (hr : r.tl = []) : Pres (W h) (enqueue r) :=
  HTr.ofCore (by intro s; rfl) (by intro s; rfl) (fun s c => WakeCore.enqueue r (by rw [hr]; exact c)
    (fun f _ e => by have := slotFid_mem_tl e; rw [hr] at this; cases this))
theorem enqueueCallback_w (h : List Tgt) (n : String) : Pres (W h) (enqueue (.callback n)) := enqueue_w h _ rfl
theorem enqueueTopCb_w (h : List Tgt) (cb : TopCb) (v : Val) : Pres (W h) (enqueue (.topCb cb v)) := enqueue_w h _ rfl
theorem enqueueCloseCtl_w (h : List Tgt) : Pres (W h) (enqueue .closeCtl) := enqueue_w h _ rfl

/-! ### the rule set -/

attribute [aesop safe apply (rule_sets := [Wk])] Pres.pure Pres.getS Pres.getK Pres.getA Pres.getW Pres.getO Pres.nowMs
attribute [aesop safe apply (rule_sets := [Wk])] Pres.bind Pres.ite Pres.for_in
attribute [aesop safe apply (rule_sets := [Wk])] wLeafW LeafW.toLeafK
attribute [aesop safe apply (rule_sets := [Wk])] kKill_pres xKill_pres kWaitpid_pres kStateOf_pres kChildren_pres kSleep_pres
  notify_pres callHook_pres procStatus_pres isAlive_pres objStop_pres sendSignal_pres sendSignalChild_pres
  sendSignalProcess_pres activeProcs_pres setBlocked_pres reapWait_pres reapTail_pres reapProcess_pres reapProcesses_pres
  usedWids_pres arbReapLoop_pres registered_pres iterWatchers_pres arbReapProcesses_pres
attribute [aesop safe apply (rule_sets := [Wk])] LeafK.emit LeafW.popPid LeafW.setObjStopping LeafW.setRc
attribute [aesop safe apply (rule_sets := [Wk])] runK_w updK_w setStatus_w setWOpt_w trySetNp_w spawnAdopt_w freshId_w setClosed_w
  setStopping_w setRestarting_w clearRestarting_w setLoopStop_w setSocketEvent_w setSockReady_w setSlot_w unregister_w clearDone_w emitRep_w
  registerNew_w enqueueCallback_w enqueueTopCb_w enqueueCloseCtl_w armFrame_w armTop_w topAddCb_w

macro "wk" : tactic => `(tactic| aesop (rule_sets := [Wk]) (config := { terminal := true, useDefaultSimpSet := false, useSimpAll := false, maxRuleApplications := 3000 }))

theorem pendingSocketEvent_w (h : List Tgt) (u : Nat) : Pres (W h) (pendingSocketEvent u) := by
  unfold pendingSocketEvent; wk
theorem popStrict_w (h : List Tgt) (u p : Nat) : Pres (W h) (popStrict u p) := by
  unfold popStrict; wk
theorem pubBefore_w (h : List Tgt) (u : Nat) : Pres (W h) (pubBefore u) := by
  unfold pubBefore; wk
theorem stopController_w (h : List Tgt) : Pres (W h) stopController := by
  unfold stopController; wk
theorem sendReply_w (h : List Tgt) (cid : Option String) (id : JVal) (c : Bool) (a b d : String) :
    Pres (W h) (sendReply cid id c a b d) := by
  unfold sendReply; wk

attribute [aesop safe apply (rule_sets := [Wk])] pendingSocketEvent_w popStrict_w pubBefore_w stopController_w sendReply_w


/-! ### the coroutine machinery -/

theorem Wake.lift2 {s s' : State} {h h' : List Tgt} (hb : s'.blocked = s.blocked) (hl : s'.log = s.log)
    (hc : WakeCore s h → WakeCore s' h') (hw : Wake s h) : Wake s' h' :=
  Wake.lift (Esc.of_eq hb hl) hc hw

theorem newFrame_tr (h : List Tgt) (k : Kont) (parent : Waiter) (hk : k.isSlot = false) (hr : k.got < k.need) :
    HTrR (W (parent.tl ++ h)) (newFrame k parent) (fun fid => W (List.replicate k.need (Tgt.frame fid) ++ h)) :=
  fun s hw => Wake.lift2 (s := s) rfl rfl (fun c => WakeCore.newFrame k parent hk hr c) hw

theorem addSleeper_cons (ms : Nat) (w : Waiter) : Consumes w.tl (addSleeper ms w) :=
  fun h s hw => Wake.lift2 (s := s) rfl rfl (fun c => WakeCore.addSleeper _ w c) hw

theorem enqueue_cons (r : Ready) (hr : r.slotFid = none) : Consumes r.tl (enqueue r) :=
  fun h s hw => Wake.lift2 (s := s) rfl rfl (fun c => WakeCore.enqueue r c (fun f _ e => by rw [hr] at e; cases e)) hw

theorem enqueue_wake {s : State} {h : List Tgt} (r : Ready)
    (hsl : Esc s ∨ (WakeCore s (r.tl ++ h) → ∀ f ∈ s.frames, r.slotFid = some f.fid → f.k.isMulti = true))
    (hw : Wake s (r.tl ++ h)) : Wake (enqueue r s).2 h := by
  rcases hsl with e | hsl
  · exact Or.inl (Esc.of_eq rfl rfl e)
  · exact Wake.lift2 (s := s) rfl rfl (fun c => WakeCore.enqueue r c (hsl c)) hw

theorem newTop_tr (h : List Tgt) (cbs : List TopCb) : HTrR (W h) (newTop cbs) (fun tid => W (Tgt.top tid :: h)) :=
  fun s hw => Wake.lift2 (s := s) rfl rfl (fun c => WakeCore.newTop cbs c) hw

theorem removeFrame_eq (fid : Nat) (s : State) :
    (removeFrame fid s).2 = { s with frames := s.frames.filter (fun x => !decide (x.fid = fid)) } := by
  simp [removeFrame, modS]

theorem removeFrame_wake {s : State} {fid : Nat} {f : Frame} {h : List Tgt}
    (hfind : s.frames.find? (fun x => decide (x.fid = fid)) = some f) (hw : Wake s (Tgt.frame fid :: h)) :
    Wake (removeFrame fid s).2 (f.parent.tl ++ h) := by
  obtain ⟨hmem, rfl⟩ := wk_find_frame hfind
  rw [removeFrame_eq]
  exact Wake.lift2 (s := s) rfl rfl (fun c => WakeCore.removeFrame f hmem c) hw

theorem setFrameK_wake {s : State} {fid : Nat} {f : Frame} {h : List Tgt} (n : Nat) (rs : List (Nat × Val)) (x : Nat × Val)
    (hfind : s.frames.find? (fun x => decide (x.fid = fid)) = some f) (hk : f.k = .multi n rs)
    (hlt : (rs ++ [x]).length < n) (hw : Wake s (Tgt.frame fid :: h)) :
    Wake (setFrameK fid (.multi n (rs ++ [x])) s).2 h := by
  obtain ⟨hmem, rfl⟩ := wk_find_frame hfind
  exact Wake.lift2 (s := s) rfl rfl (fun c => WakeCore.setFrameK f n rs x hmem hk hlt c) hw

theorem dropFrame_wake {s : State} {fid : Nat} {h : List Tgt}
    (hfind : s.frames.find? (fun x => decide (x.fid = fid)) = none) (hw : Wake s (Tgt.frame fid :: h)) : Wake s h :=
  Wake.lift2 (s := s) rfl rfl (fun c => WakeCore.drop _ c
    (fun f hf e => wk_find_frame_none hfind f hf (by injection e)) (fun t _ e => by cases e)) hw

theorem dropTop_wake {s : State} {tid : Nat} {h : List Tgt}
    (hfind : s.tops.find? (fun x => decide (x.tid = tid)) = none) (hw : Wake s (Tgt.top tid :: h)) : Wake s h :=
  Wake.lift2 (s := s) rfl rfl (fun c => WakeCore.drop _ c
    (fun f _ e => by cases e) (fun t ht e => wk_find_top_none hfind t ht (by injection e))) hw

theorem finishTop_wake {s : State} {tid : Nat} {h : List Tgt} (v : Val) (hw : Wake s (Tgt.top tid :: h)) :
    Wake (finishTop tid v s).2 h :=
  Wake.lift2 (s := s) rfl rfl (fun c => WakeCore.finishTop tid _ c) hw

theorem deliverCbs_w (h : List Tgt) (armed : Bool) (v : Val) (cbs : List TopCb) : Pres (W h) (deliverCbs armed v cbs) := by
  induction cbs with
  | nil => exact Pres.pure _
  | cons cb rest ih =>
    unfold deliverCbs
    apply Pres.bind _ (fun _ => ih)
    split
    · exact setSlot_w h none
    · exact enqueueTopCb_w h _ _

theorem deliverTop_cons (tid : Nat) (v : Val) : Consumes [Tgt.top tid] (deliverTop tid v) := by
  intro h s hw
  unfold deliverTop
  simp only [bind, getS]
  cases hfind : s.tops.find? (fun x => decide (x.tid = tid)) with
  | none => exact dropTop_wake hfind hw
  | some t =>
    simp only
    exact deliverCbs_w h _ _ _ _ (finishTop_wake v hw)


/-- what the bodies assume of the interpreter they call back into -/
structure RecWake (rec : Rec) : Prop where
  call : ∀ c w, Consumes w.tl (rec (.call c w))
  resE : ∀ k v w h s, (Esc s ∨ k.isSlot = false) → Wake s (w.tl ++ h) → Wake (rec (.resume k v w) s).2 h

theorem RecWake.res {rec : Rec} (hrec : RecWake rec) (k : Kont) (v : Val) (w : Waiter) (hk : k.isSlot = false) :
    Consumes w.tl (rec (.resume k v w)) :=
  fun h s hw => hrec.resE k v w h s (Or.inr hk) hw

theorem tokOf_noSlot {k : Kont} (w : Waiter) (hk : k.isSlot = false) : tokOf k w = w.tl := by
  cases k <;> first | rfl | cases hk

/-- the collecting step of a `gen.multi` frame (shared by `deliver` and `multiCollect`) -/
theorem multiStep_wake {rec : Rec} (hrec : RecWake rec) {s : State} {fid slot : Nat} {f : Frame} {h : List Tgt} (v : Val)
    (n : Nat) (rs : List (Nat × Val))
    (hfind : s.frames.find? (fun x => decide (x.fid = fid)) = some f) (hk : f.k = .multi n rs)
    (hw : Wake s (Tgt.frame fid :: h)) :
    Wake ((if (rs ++ [(slot, v)]).length ≥ n then (do
        removeFrame fid
        rec (.resume .pass (multiResult n (rs ++ [(slot, v)])) f.parent) : M Unit)
      else setFrameK fid (.multi n (rs ++ [(slot, v)]))) s).2 h := by
  by_cases hge : (rs ++ [(slot, v)]).length ≥ n
  · erw [if_pos hge]
    simp only [bind]
    exact hrec.res .pass _ f.parent rfl h _ (removeFrame_wake hfind hw)
  · erw [if_neg hge]
    exact setFrameK_wake n rs (slot, v) hfind hk (Nat.lt_of_not_ge hge) hw

theorem multiCollect_wake {rec : Rec} (hrec : RecWake rec) {s : State} {h : List Tgt} (fid slot : Nat) (v : Val)
    (hm : Esc s ∨ ∀ f ∈ s.frames, f.fid = fid → f.k.isMulti = true) (hw : Wake s (Tgt.frame fid :: h)) :
    Wake (multiCollect rec fid slot v s).2 h := by
  unfold multiCollect
  simp only [bind, getS]
  cases hfind : s.frames.find? (fun x => decide (x.fid = fid)) with
  | none => exact dropFrame_wake hfind hw
  | some f =>
    simp only
    cases hk : f.k with
    | multi n rs => exact multiStep_wake hrec v n rs hfind hk hw
    | _ =>
      -- not reached (only multi frames receive slot callbacks)
      rcases hm with e | hm
      · exact Or.inl e
      · have := hm f (wk_find_frame hfind).1 (wk_find_frame hfind).2
        rw [hk] at this; cases this


theorem Wake.esc_or_noSlot {s : State} {h : List Tgt} (hw : Wake s h) {f : Frame} (hf : f ∈ s.frames) :
    Esc s ∨ f.k.isSlot = false := by
  rcases hw with e | c
  · exact Or.inl e
  · exact Or.inr (c.noSlot f hf)

theorem removeFrame_esc_or {s : State} {fid : Nat} {k : Kont} (h : Esc s ∨ k.isSlot = false) :
    Esc (removeFrame fid s).2 ∨ k.isSlot = false := by
  rcases h with e | h
  · exact Or.inl (Esc.of_eq rfl rfl e)
  · exact Or.inr h

/-- **`deliver` consumes its waiter**: the result goes to the top future, is recorded in / queued for a
    `gen.multi` frame, or resumes the parent frame (queued if armed, synchronously if not) -/
theorem deliver_cons {rec : Rec} (hrec : RecWake rec) (w : Waiter) (v : Val) : Consumes w.tl (deliver rec w v) := by
  intro h s hw
  unfold deliver
  cases w with
  | none => exact hw
  | callback n => exact enqueueCallback_w h n s hw
  | top tid => exact deliverTop_cons tid v h s hw
  | frame fid slot =>
    simp only [bind, getS]
    cases hfind : s.frames.find? (fun x => decide (x.fid = fid)) with
    | none => exact dropFrame_wake hfind hw
    | some f =>
      have hmem := (wk_find_frame hfind).1
      have hfid := (wk_find_frame hfind).2
      have hns := Wake.esc_or_noSlot hw hmem
      simp only
      cases hk : f.k with
      | multi n rs =>
        simp only
        by_cases ha : f.armed = true
        · erw [if_pos ha]
          refine enqueue_wake (Ready.resume (Kont.multiSlot fid slot) v Waiter.none) (Or.inr fun c g hg e => ?_) hw
          simp only [Ready.slotFid, Option.some.injEq] at e
          have : g = f := nodup_key_inj (·.fid) c.fidNd hg hmem (by rw [hfid]; exact e.symm)
          rw [this, hk]; rfl
        · erw [if_neg ha]
          exact multiStep_wake hrec v n rs hfind hk hw
      | _ =>
        simp only
        rw [hk] at hns
        by_cases ha : f.armed = true
        · erw [if_pos ha]
          rcases hns with e' | e'
          · exact Or.inl (Esc.of_eq rfl rfl e')
          · refine enqueue_wake (h := h) _ (Or.inr fun c g hg e => ?_) ?_
            · first | (cases e; done) | (cases e'; done)
            · rw [Ready.tl, tokOf_noSlot _ e']
              exact removeFrame_wake hfind hw
        · erw [if_neg ha]
          exact hrec.resE _ v f.parent h _ (removeFrame_esc_or hns) (removeFrame_wake hfind hw)


/-- an ordinary continuation point: one result, then the coroutine goes on -/
def Kont.plain (k : Kont) : Bool := !k.isSlot && !k.isMulti

theorem Kont.plain_facts {k : Kont} (h : k.plain = true) : k.isSlot = false ∧ k.need = 1 ∧ k.got = 0 := by
  cases k <;> simp [Kont.plain, Kont.isSlot, Kont.isMulti, Kont.need, Kont.got] at h ⊢

/-- **`yield child`**: the parent's waiter goes into the new frame, the frame's own token is consumed by the child -/
theorem await_cons {rec : Rec} (hrec : RecWake rec) (c : Call) (k : Kont) (parent : Waiter) (hk : k.plain = true) :
    Consumes parent.tl (await rec c k parent) := by
  obtain ⟨h1, h2, h3⟩ := Kont.plain_facts hk
  intro h s hw
  unfold await
  simp only [bind]
  have hn := newFrame_tr h k parent h1 (by omega) s hw
  rw [h2] at hn
  exact armFrame_w h _ _ (hrec.call c _ h _ hn)

/-- **`yield tornado_sleep(ms)`**: the frame's token goes into the timer -/
theorem awaitSleep_cons (ms : Nat) (k : Kont) (parent : Waiter) (hk : k.plain = true) :
    Consumes parent.tl (awaitSleep ms k parent) := by
  obtain ⟨h1, h2, h3⟩ := Kont.plain_facts hk
  intro h s hw
  unfold awaitSleep
  simp only [bind]
  have hn := newFrame_tr h k parent h1 (by omega) s hw
  rw [h2] at hn
  exact addSleeper_cons ms _ h _ (armFrame_w _ _ _ hn)

/-- the loop of `gen.multi` that starts the children: one token of the multi frame per child -/
theorem multiLoop_wake {rec : Rec} (hrec : RecWake rec) (fm : Nat) (cs : List Call) :
    ∀ (i : Nat) (h : List Tgt) (s : State), Wake s (List.replicate cs.length (Tgt.frame fm) ++ h) →
      Wake ((forIn cs i (fun c r => (do
        rec (.call c (.frame fm r))
        pure PUnit.unit
        pure (ForInStep.yield (r + 1)) : M (ForInStep Nat))) : M Nat) s).2 h := by
  induction cs with
  | nil => intro i h s hw; exact hw
  | cons c cs ih =>
    intro i h s hw
    simp only [List.forIn_cons]
    simp only [bind, pure]
    apply ih
    exact hrec.call c (.frame fm i) _ s hw


/-- **`yield [c1, …, cn]`** -/
theorem awaitMulti_cons {rec : Rec} (hrec : RecWake rec) (cs : List Call) (k : Kont) (parent : Waiter) (hk : k.plain = true) :
    Consumes parent.tl (awaitMulti rec cs k parent) := by
  obtain ⟨h1, h2, h3⟩ := Kont.plain_facts hk
  intro h s hw
  unfold awaitMulti
  by_cases he : cs.isEmpty = true
  · erw [if_pos he]
    exact hrec.res k _ parent h1 h s hw
  · erw [if_neg he]
    simp only [bind]
    have hlen : 0 < cs.length := by
      cases cs with
      | nil => exact absurd rfl he
      | cons _ _ => simp
    have hn := newFrame_tr h k parent h1 (by omega) s hw
    rw [h2] at hn
    have hm := newFrame_tr h (Kont.multi cs.length []) (Waiter.frame (newFrame k parent s).fst 0) rfl
      (by simpa [Kont.got, Kont.need] using hlen) _ hn
    simp only [Kont.need] at hm
    exact armFrame_w h _ _ (armFrame_w h _ _ (multiLoop_wake hrec _ cs 0 h _ hm))

/-! ### coroutine bodies -/

theorem Consumes.bind_neut {α β : Type} {l : List Tgt} {m : M α} {f : α → M β}
    (hm : ∀ h, Pres (W h) m) (hf : ∀ a, Consumes l (f a)) : Consumes l (m >>= f) :=
  fun h s hw => hf _ h _ (hm (l ++ h) s hw)

theorem Consumes.ite {α : Type} {l : List Tgt} {c : Prop} [Decidable c] {a b : M α}
    (ha : Consumes l a) (hb : Consumes l b) : Consumes l (if c then a else b) := by
  split <;> assumption

attribute [aesop safe apply (rule_sets := [Wk])] Consumes.bind_neut Consumes.ite deliver_cons await_cons awaitSleep_cons
  awaitMulti_cons RecWake.call RecWake.res

theorem addSleeper_none_w (h : List Tgt) (ms : Nat) : Pres (W h) (addSleeper ms .none) :=
  addSleeper_cons ms .none h

/-- a detached coroutine (called without `yield`): its own top-level future receives the result -/
theorem topCall_w {rec : Rec} (hrec : RecWake rec) {β : Type} (h : List Tgt) (cbs : List TopCb) (c : Call) (rest : Nat → M β)
    (hr : ∀ tid, Pres (W h) (rest tid)) :
    Pres (W h) (newTop cbs >>= fun tid => rec (.call c (.top tid)) >>= fun _ => rest tid) := by
  intro s hw
  simp only [bind]
  exact hr _ _ (hrec.call c _ h _ (newTop_tr h cbs s hw))

attribute [aesop safe apply (rule_sets := [Wk])] addSleeper_none_w

theorem spawnTry_w {rec : Rec} (hrec : RecWake rec) (h : List Tgt) (wuid n : Nat) : Pres (W h) (spawnTry rec wuid n) := by
  induction n with
  | zero => unfold spawnTry; wk
  | succ n ih =>
    have hb : ∀ pid, Pres (W h) (do
        let tid ← newTop [TopCb.popProc wuid pid]
        rec (.call (.killProcess wuid pid none none) (.top tid))
        armTop tid
        pure SpawnRes.rFalse : M SpawnRes) := fun pid => topCall_w hrec h _ _ _ (fun tid => by wk)
    unfold spawnTry
    aesop (add safe 0 apply hb, safe apply ih) (rule_sets := [Wk]) (config := { terminal := true, useDefaultSimpSet := false, useSimpAll := false, maxRuleApplications := 3000 })

attribute [aesop safe apply (rule_sets := [Wk])] spawnTry_w

@[aesop safe apply (rule_sets := [Wk])]
theorem spawnProcess_w {rec : Rec} (hrec : RecWake rec) (h : List Tgt) (wuid : Nat) : Pres (W h) (spawnProcess rec wuid) := by
  unfold spawnProcess; wk
@[aesop safe apply (rule_sets := [Wk])]
theorem killFinish_cons {rec : Rec} (hrec : RecWake rec) (wuid pid : Nat) (esc : Bool) (wt : Waiter) :
    Consumes wt.tl (killFinish rec wuid pid esc wt) := by
  unfold killFinish; wk
@[aesop safe apply (rule_sets := [Wk])]
theorem killLoop_cons {rec : Rec} (hrec : RecWake rec) (wuid pid sig i polls : Nat) (wt : Waiter) :
    Consumes wt.tl (killLoop rec wuid pid sig i polls wt) := by
  unfold killLoop; wk
@[aesop safe apply (rule_sets := [Wk])]
theorem killProcess_cons {rec : Rec} (hrec : RecWake rec) (wuid pid : Nat) (sig gt : Option Nat) (wt : Waiter) :
    Consumes wt.tl (killProcess rec wuid pid sig gt wt) := by
  unfold killProcess; wk
@[aesop safe apply (rule_sets := [Wk])]
theorem killProcesses_cons {rec : Rec} (hrec : RecWake rec) (wuid : Nat) (sig gt : Option Nat) (wt : Waiter) :
    Consumes wt.tl (killProcesses rec wuid sig gt wt) := by
  unfold killProcesses; wk
@[aesop safe apply (rule_sets := [Wk])]
theorem stopW_cons {rec : Rec} (hrec : RecWake rec) (wuid : Nat) (close : Bool) (wt : Waiter) :
    Consumes wt.tl (stopW rec wuid close wt) := by
  unfold stopW; wk
@[aesop safe apply (rule_sets := [Wk])]
theorem stopAfterKill_cons {rec : Rec} (hrec : RecWake rec) (wuid : Nat) (close : Bool) (wt : Waiter) :
    Consumes wt.tl (stopAfterKill rec wuid close wt) := by
  unfold stopAfterKill; wk
@[aesop safe apply (rule_sets := [Wk])]
theorem spawnLoop_cons {rec : Rec} (hrec : RecWake rec) (wuid rem : Nat) (wt : Waiter) :
    Consumes wt.tl (spawnLoop rec wuid rem wt) := by
  unfold spawnLoop; wk
@[aesop safe apply (rule_sets := [Wk])]
theorem spawnProcesses_cons {rec : Rec} (hrec : RecWake rec) (wuid : Nat) (wt : Waiter) :
    Consumes wt.tl (spawnProcesses rec wuid wt) := by
  unfold spawnProcesses; wk
@[aesop safe apply (rule_sets := [Wk])]
theorem popKilled_cons {rec : Rec} (hrec : RecWake rec) (wuid : Nat) (tk : List Nat) (v : Val) (wt : Waiter) :
    Consumes wt.tl (popKilled rec wuid tk v wt) := by
  unfold popKilled; wk
@[aesop safe apply (rule_sets := [Wk])]
theorem manageTail_cons {rec : Rec} (hrec : RecWake rec) (wuid : Nat) (wt : Waiter) :
    Consumes wt.tl (manageTail rec wuid wt) := by
  unfold manageTail; wk
@[aesop safe apply (rule_sets := [Wk])]
theorem manageAfterExpire_cons {rec : Rec} (hrec : RecWake rec) (wuid : Nat) (wt : Waiter) :
    Consumes wt.tl (manageAfterExpire rec wuid wt) := by
  unfold manageAfterExpire; wk
@[aesop safe apply (rule_sets := [Wk])]
theorem removeExpired_cons {rec : Rec} (hrec : RecWake rec) (wuid : Nat) (wt : Waiter) :
    Consumes wt.tl (removeExpired rec wuid wt) := by
  unfold removeExpired; wk
@[aesop safe apply (rule_sets := [Wk])]
theorem manageProcesses_cons {rec : Rec} (hrec : RecWake rec) (wuid : Nat) (wt : Waiter) :
    Consumes wt.tl (manageProcesses rec wuid wt) := by
  unfold manageProcesses; wk
@[aesop safe apply (rule_sets := [Wk])]
theorem startW_cons {rec : Rec} (hrec : RecWake rec) (wuid : Nat) (wt : Waiter) :
    Consumes wt.tl (startW rec wuid wt) := by
  unfold startW; wk
@[aesop safe apply (rule_sets := [Wk])]
theorem startAfterSpawn_cons {rec : Rec} (hrec : RecWake rec) (wuid : Nat) (wt : Waiter) :
    Consumes wt.tl (startAfterSpawn rec wuid wt) := by
  unfold startAfterSpawn; wk
@[aesop safe apply (rule_sets := [Wk])]
theorem reloadW_cons {rec : Rec} (hrec : RecWake rec) (wuid : Nat) (g sq : Bool) (wt : Waiter) :
    Consumes wt.tl (reloadW rec wuid g sq wt) := by
  unfold reloadW; wk
@[aesop safe apply (rule_sets := [Wk])]
theorem reloadSeqNext_cons {rec : Rec} (hrec : RecWake rec) (wuid : Nat) (rest : List Nat) (wt : Waiter) :
    Consumes wt.tl (reloadSeqNext rec wuid rest wt) := by
  unfold reloadSeqNext; wk
@[aesop safe apply (rule_sets := [Wk])]
theorem reloadSeqAfterKill_cons {rec : Rec} (hrec : RecWake rec) (wuid pid : Nat) (rest : List Nat) (wt : Waiter) :
    Consumes wt.tl (reloadSeqAfterKill rec wuid pid rest wt) := by
  unfold reloadSeqAfterKill; wk
@[aesop safe apply (rule_sets := [Wk])]
theorem setNumprocesses_cons {rec : Rec} (hrec : RecWake rec) (wuid : Nat) (n : Int) (wt : Waiter) :
    Consumes wt.tl (setNumprocesses rec wuid n wt) := by
  unfold setNumprocesses; wk
@[aesop safe apply (rule_sets := [Wk])]
theorem doAction_cons {rec : Rec} (hrec : RecWake rec) (wuid : Nat) (n : Int) (wt : Waiter) :
    Consumes wt.tl (doAction rec wuid n wt) := by
  unfold doAction; wk
@[aesop safe apply (rule_sets := [Wk])]
theorem pubInfo_cons {rec : Rec} (hrec : RecWake rec) (wuid : Nat) (b : List Nat) (wt : Waiter) :
    Consumes wt.tl (pubInfo rec wuid b wt) := by
  unfold pubInfo; wk
@[aesop safe apply (rule_sets := [Wk])]
theorem arbStartNext_cons {rec : Rec} (hrec : RecWake rec) (ws : List Nat) (wt : Waiter) :
    Consumes wt.tl (arbStartNext rec ws wt) := by
  unfold arbStartNext; wk
@[aesop safe apply (rule_sets := [Wk])]
theorem arbStartAfterStart_cons {rec : Rec} (hrec : RecWake rec) (ws : List Nat) (wt : Waiter) :
    Consumes wt.tl (arbStartAfterStart rec ws wt) := by
  unfold arbStartAfterStart; wk
@[aesop safe apply (rule_sets := [Wk])]
theorem arbStopTail_cons {rec : Rec} (hrec : RecWake rec)  (wt : Waiter) :
    Consumes wt.tl (arbStopTail rec  wt) := by
  unfold arbStopTail; wk
@[aesop safe apply (rule_sets := [Wk])]
theorem arbStop_cons {rec : Rec} (hrec : RecWake rec)  (wt : Waiter) :
    Consumes wt.tl (arbStop rec  wt) := by
  unfold arbStop; wk
@[aesop safe apply (rule_sets := [Wk])]
theorem arbRestartInside_cons {rec : Rec} (hrec : RecWake rec)  (wt : Waiter) :
    Consumes wt.tl (arbRestartInside rec  wt) := by
  unfold arbRestartInside; wk
@[aesop safe apply (rule_sets := [Wk])]
theorem arbReloadNext_cons {rec : Rec} (hrec : RecWake rec) (ws : List Nat) (g sq : Bool) (wt : Waiter) :
    Consumes wt.tl (arbReloadNext rec ws g sq wt) := by
  unfold arbReloadNext; wk
@[aesop safe apply (rule_sets := [Wk])]
theorem arbReloadAfter_cons {rec : Rec} (hrec : RecWake rec) (ws : List Nat) (g sq : Bool) (wt : Waiter) :
    Consumes wt.tl (arbReloadAfter rec ws g sq wt) := by
  unfold arbReloadAfter; wk
@[aesop safe apply (rule_sets := [Wk])]
theorem manageWatchers_cons {rec : Rec} (hrec : RecWake rec)  (wt : Waiter) :
    Consumes wt.tl (manageWatchers rec  wt) := by
  unfold manageWatchers; wk
@[aesop safe apply (rule_sets := [Wk])]
theorem rmWatcher_cons {rec : Rec} (hrec : RecWake rec) (uid : Nat) (ns : Bool) (wt : Waiter) :
    Consumes wt.tl (rmWatcher rec uid ns wt) := by
  unfold rmWatcher; wk

theorem topCall_cons {rec : Rec} (hrec : RecWake rec) {β : Type} (l : List Tgt) (cbs : List TopCb) (c : Call) (rest : Nat → M β)
    (hr : ∀ tid, Consumes l (rest tid)) :
    Consumes l (newTop cbs >>= fun tid => rec (.call c (.top tid)) >>= fun _ => rest tid) := by
  intro h s hw
  simp only [bind]
  exact hr _ h _ (hrec.call c _ (l ++ h) _ (newTop_tr (l ++ h) cbs s hw))

attribute [aesop safe 0 apply (rule_sets := [Wk])] topCall_cons topCall_w

@[aesop safe apply (rule_sets := [Wk])]
theorem manageWatchersTail_cons {rec : Rec} (hrec : RecWake rec) (need : Bool) (wt : Waiter) :
    Consumes wt.tl (manageWatchersTail rec need wt) := by
  unfold manageWatchersTail; wk

@[aesop safe apply (rule_sets := [Wk])]
theorem runCall_cons {rec : Rec} (hrec : RecWake rec) (c : Call) (wt : Waiter) : Consumes wt.tl (runCall rec c wt) := by
  unfold runCall; wk

theorem runResume_cons {rec : Rec} (hrec : RecWake rec) (k : Kont) (v : Val) (wt : Waiter) (hk : k.isSlot = false) :
    Consumes wt.tl (runResume rec k v wt) := by
  unfold runResume
  split <;> first | (cases hk; done) | wk

theorem emit_oof_esc (s : State) : Esc (emit .outOfFuel s).2 := by
  simp only [emit, modS]
  by_cases hb : s.blocked = true
  · simp only [hb, Bool.true_or, if_true]; exact Or.inl hb
  · have : s.blocked = false := by simpa using hb
    simp only [this, Obs.isRep, Obs.isEv, Bool.or_self, Bool.false_eq_true, if_false]
    right; simp [Obs.isOOF]

/-- **the interpreter consumes the waiter of every task it is given** (calls, and resumptions of
    ordinary continuation points), whatever the fuel -/
theorem exec_wake : ∀ n, RecWake (exec n) := by
  intro n
  induction n with
  | zero =>
    constructor
    · intro c w h s _; exact Or.inl (emit_oof_esc s)
    · intro k v w h s _ _; exact Or.inl (emit_oof_esc s)
  | succ n ih =>
    constructor
    · intro c w h s hw
      unfold exec
      simp only [bind, getS]
      by_cases hb : s.blocked = true
      · erw [if_pos hb]; exact Or.inl (Or.inl hb)
      · erw [if_neg hb]; exact runCall_cons ih c w h s hw
    · intro k v w h s hor hw
      unfold exec
      simp only [bind, getS]
      by_cases hb : s.blocked = true
      · erw [if_pos hb]; exact Or.inl (Or.inl hb)
      · erw [if_neg hb]
        by_cases hk : k.isSlot = false
        · exact runResume_cons ih k v w hk h s hw
        · rcases hor with e | e
          · cases k <;> first | (exact absurd rfl hk) | skip
            rename_i f sl
            exact multiCollect_wake ih f sl v (Or.inl e) (Or.inl e)
          · exact absurd e hk

/-! ### dispatch and commands: everything above the interpreter is neutral -/

theorem exec_wake_default : RecWake (exec fuelDefault) := exec_wake _

@[aesop safe apply (rule_sets := [Wk])]
theorem lookupWatcher_w (h : List Tgt) (n : String) : Pres (W h) (lookupWatcher n) := by
  have he := exec_wake_default
  unfold lookupWatcher; wk
@[aesop safe apply (rule_sets := [Wk])]
theorem getWatcherCmd_w (h : List Tgt) (n : JVal) : Pres (W h) (getWatcherCmd n) := by
  have he := exec_wake_default
  unfold getWatcherCmd; wk
@[aesop safe apply (rule_sets := [Wk])]
theorem matchWatchers_w (h : List Tgt) (p : JVal) : Pres (W h) (matchWatchers p) := by
  have he := exec_wake_default
  unfold matchWatchers; wk
@[aesop safe apply (rule_sets := [Wk])]
theorem sortUids_w (h : List Tgt) (us : List Nat) (r : Bool) : Pres (W h) (sortUids us r) := by
  have he := exec_wake_default
  unfold sortUids; wk
@[aesop safe apply (rule_sets := [Wk])]
theorem syncCoroutine_w (h : List Tgt) (name : String) (c : Call) (extra : List TopCb) : Pres (W h) (syncCoroutine name c extra) := by
  have he := exec_wake_default
  unfold syncCoroutine; wk
@[aesop safe apply (rule_sets := [Wk])]
theorem plainCoroutine_w (h : List Tgt) (c : Call) (extra : List TopCb) : Pres (W h) (plainCoroutine c extra) := by
  have he := exec_wake_default
  unfold plainCoroutine; wk
@[aesop safe apply (rule_sets := [Wk])]
theorem execSSR_w (h : List Tgt) (kind : String) (p : JVal) : Pres (W h) (execSSR kind p) := by
  have he := exec_wake_default
  unfold execSSR; wk
@[aesop safe apply (rule_sets := [Wk])]
theorem execIncrDecr_w (h : List Tgt) (sg : Int) (p : JVal) : Pres (W h) (execIncrDecr sg p) := by
  have he := exec_wake_default
  unfold execIncrDecr; wk
@[aesop safe apply (rule_sets := [Wk])]
theorem execReload_w (h : List Tgt) (p : JVal) : Pres (W h) (execReload p) := by
  have he := exec_wake_default
  unfold execReload; wk
@[aesop safe apply (rule_sets := [Wk])]
theorem setOpt_w (h : List Tgt) (u : Nat) (k : String) (v : JVal) : Pres (W h) (setOpt u k v) := by
  have he := exec_wake_default
  unfold setOpt; wk
@[aesop safe apply (rule_sets := [Wk])]
theorem setOptBody_w (h : List Tgt) (u : Nat) (k : String) (v : JVal) (b : Bool) : Pres (W h) (setOptBody u k v b) := by
  have he := exec_wake_default
  unfold setOptBody; wk
@[aesop safe apply (rule_sets := [Wk])]
theorem syncPlain_w {α : Type} (h : List Tgt) (name : String) (body : M (R α)) (hb : Pres (W h) body) :
    Pres (W h) (syncPlain name body) := by
  unfold syncPlain; wk
@[aesop safe apply (rule_sets := [Wk])]
theorem execSet_w (h : List Tgt) (p : JVal) : Pres (W h) (execSet p) := by
  have he := exec_wake_default
  unfold execSet; wk
@[aesop safe apply (rule_sets := [Wk])]
theorem execKill_w (h : List Tgt) (p : JVal) : Pres (W h) (execKill p) := by
  have he := exec_wake_default
  unfold execKill; wk
@[aesop safe apply (rule_sets := [Wk])]
theorem execSignal_w (h : List Tgt) (p : JVal) : Pres (W h) (execSignal p) := by
  have he := exec_wake_default
  unfold execSignal; wk
@[aesop safe apply (rule_sets := [Wk])]
theorem execRm_w (h : List Tgt) (p : JVal) : Pres (W h) (execRm p) := by
  have he := exec_wake_default
  unfold execRm; wk
@[aesop safe apply (rule_sets := [Wk])]
theorem addCore_w (h : List Tgt) (p : JVal) : Pres (W h) (addCore p) := by
  have he := exec_wake_default
  unfold addCore; wk
@[aesop safe apply (rule_sets := [Wk])]
theorem execAdd_w (h : List Tgt) (p : JVal) : Pres (W h) (execAdd p) := by
  have he := exec_wake_default
  unfold execAdd; wk
@[aesop safe apply (rule_sets := [Wk])]
theorem procInfo_w (h : List Tgt) (pid : Nat) : Pres (W h) (procInfo pid) := by
  unfold procInfo; wk
@[aesop safe apply (rule_sets := [Wk])]
theorem watcherInfo_w (h : List Tgt) (u : Nat) : Pres (W h) (watcherInfo u) := by
  unfold watcherInfo; wk
@[aesop safe apply (rule_sets := [Wk])]
theorem statsProc_w (h : List Tgt) (w : Watcher) (p : Int) : Pres (W h) (statsProc w p) := by
  unfold statsProc; wk
@[aesop safe apply (rule_sets := [Wk])]
theorem statsWatcher_w (h : List Tgt) (u : Nat) (n : JVal) : Pres (W h) (statsWatcher u n) := by
  unfold statsWatcher; wk
@[aesop safe apply (rule_sets := [Wk])]
theorem statsAllLoop_w (h : List Tgt) (ws : List Watcher) (parts : List (String × String)) :
    Pres (W h) (statsAllLoop ws parts) := by
  induction ws generalizing parts with
  | nil => unfold statsAllLoop; wk
  | cons w ws ih => unfold statsAllLoop; wk
@[aesop safe apply (rule_sets := [Wk])]
theorem statsAll_w (h : List Tgt) : Pres (W h) statsAll := by
  unfold statsAll; wk
@[aesop safe apply (rule_sets := [Wk])]
theorem execStats_w (h : List Tgt) (p : JVal) : Pres (W h) (execStats p) := by
  unfold execStats; wk
@[aesop safe apply (rule_sets := [Wk])]
theorem execOptions_w (h : List Tgt) (p : JVal) : Pres (W h) (execOptions p) := by
  unfold execOptions; wk
@[aesop safe apply (rule_sets := [Wk])]
theorem execGet_w (h : List Tgt) (p : JVal) : Pres (W h) (execGet p) := by
  unfold execGet; wk
@[aesop safe apply (rule_sets := [Wk])]
theorem execReadOnly_w (h : List Tgt) (c : String) (p : JVal) : Pres (W h) (execReadOnly c p) := by
  have he := exec_wake_default
  unfold execReadOnly; wk
@[aesop safe apply (rule_sets := [Wk])]
theorem validateExecute_w (h : List Tgt) (c : String) (p : JVal) : Pres (W h) (validateExecute c p) := by
  have he := exec_wake_default
  unfold validateExecute; wk
@[aesop safe apply (rule_sets := [Wk])]
theorem addDoneCallback_w (h : List Tgt) (tid : Nat) (cb : TopCb) : Pres (W h) (addDoneCallback tid cb) := by
  have he := exec_wake_default
  unfold addDoneCallback; wk
@[aesop safe apply (rule_sets := [Wk])]
theorem handleMessage_w (h : List Tgt) (cid : Option String) (msg : Option JVal) : Pres (W h) (handleMessage cid msg) := by
  have he := exec_wake_default
  unfold handleMessage; wk

/-! ### the event loop, steps, runs -/

theorem awaitSleep_cb_w (h : List Tgt) (ms : Nat) (k : Kont) (n : String) (hk : k.plain = true) :
    Pres (W h) (awaitSleep ms k (.callback n)) :=
  awaitSleep_cons ms k (.callback n) hk h

theorem sigQuit_eq : sigQuit = (do
    let a ← getA
    if a.slot.isSome && !a.stopping then awaitSleep 100 .pass (.callback "sigquit")
    else handleMessage none (some (.obj [("command", .str "quit"), ("properties", .obj [])]))) := rfl

theorem sigQuit_w (h : List Tgt) : Pres (W h) sigQuit := by
  have h1 := awaitSleep_cb_w h 100 .pass "sigquit" rfl
  rw [sigQuit_eq]
  aesop (add safe apply h1) (rule_sets := [Wk]) (config := { terminal := true, useDefaultSimpSet := false, useSimpAll := false, maxRuleApplications := 3000 })

theorem runTopCb_w (h : List Tgt) (v : Val) (cb : TopCb) : Pres (W h) (runTopCb v cb) := by
  cases cb <;> simp only [runTopCb] <;> wk

theorem dequeue_wake {s : State} {r : Ready} {rest : List Ready} {h : List Tgt} (hr : s.ready = r :: rest)
    (hw : Wake s h) : Wake (dequeue s).2 (r.tl ++ h) :=
  Wake.lift2 (s := s) rfl rfl (fun c => WakeCore.dequeue r rest hr c) hw

/-- a queued per-child callback of a `gen.multi` runs: its token goes into the multi frame -/
theorem exec_slot_wake (n : Nat) {s : State} {h : List Tgt} (f sl : Nat) (v : Val) (w : Waiter)
    (hm : Esc s ∨ ∀ g ∈ s.frames, g.fid = f → g.k.isMulti = true) (hw : Wake s (Tgt.frame f :: h)) :
    Wake (exec n (.resume (.multiSlot f sl) v w) s).2 h := by
  cases n with
  | zero => exact Or.inl (emit_oof_esc s)
  | succ n =>
    unfold exec
    simp only [bind, getS]
    by_cases hb : s.blocked = true
    · erw [if_pos hb]; exact Or.inl (Or.inl hb)
    · erw [if_neg hb]
      exact multiCollect_wake (exec_wake n) f sl v hm hw

/-- **one turn of the event loop**: the first ready entry leaves the queue and is run -/
theorem settleStep_w (h : List Tgt) : Pres (W h) settleStep := by
  intro s hw
  unfold settleStep
  simp only [bind, getS]
  cases hrd : s.ready with
  | nil => exact hw
  | cons r rest =>
    simp only
    have hd := dequeue_wake hrd hw
    cases r with
    | resume k v w =>
      simp only [runReady1]
      by_cases hk : k.isSlot = false
      · rw [Ready.tl, tokOf_noSlot w hk] at hd
        exact (exec_wake _).resE k v w h _ (Or.inr hk) hd
      · cases k <;> first | (exact absurd rfl hk) | skip
        rename_i f sl
        refine exec_slot_wake _ f sl v w ?_ hd
        rcases hw with e | c
        · exact Or.inl (Esc.of_eq rfl rfl e)
        · right
          intro g hg hgf
          have hmem : Ready.resume (Kont.multiSlot f sl) v w ∈ s.ready := by rw [hrd]; exact List.mem_cons_self
          exact c.slotOk _ hmem g hg (by simp [Ready.slotFid, hgf])
    | topCb cb v => exact runTopCb_w h v cb _ hd
    | closeCtl => exact stopController_w h _ hd
    | callback n => exact sigQuit_w h _ hd

theorem settle_w (h : List Tgt) (n : Nat) : Pres (W h) (settle n) := by
  induction n with
  | zero => intro s _; exact Or.inl (emit_oof_esc s)
  | succ n ih =>
    have hs := settleStep_w h
    unfold settle
    aesop (add safe apply hs, safe apply ih) (rule_sets := [Wk]) (config := { terminal := true, useDefaultSimpSet := false, useSimpAll := false, maxRuleApplications := 3000 })

theorem earliest_mem_aux (l : List Sleeper) : ∀ (acc : Option Sleeper) (sl : Sleeper),
    l.foldl (fun acc s => match acc with
      | none => some s
      | some b => if s.deadline < b.deadline || (s.deadline = b.deadline && s.sid < b.sid) then some s else some b) acc = some sl →
    sl ∈ l ∨ acc = some sl := by
  induction l with
  | nil => intro acc sl h; exact Or.inr h
  | cons x xs ih =>
    intro acc sl h
    simp only [List.foldl_cons] at h
    rcases ih _ sl h with h1 | h1
    · exact Or.inl (List.mem_cons_of_mem _ h1)
    · cases acc with
      | none => simp only [Option.some.injEq] at h1; subst h1; exact Or.inl List.mem_cons_self
      | some b =>
        simp only at h1
        split at h1
        · simp only [Option.some.injEq] at h1; subst h1; exact Or.inl List.mem_cons_self
        · exact Or.inr h1

theorem earliest_mem {l : List Sleeper} {sl : Sleeper} (h : earliest l = some sl) : sl ∈ l := by
  rcases earliest_mem_aux l none sl h with h1 | h1
  · exact h1
  · cases h1

theorem fireSleeper_eq (sl : Sleeper) (s : State) :
    (fireSleeper sl s).2 = { s with sleepers := s.sleepers.filter (fun x => !decide (x.sid = sl.sid)),
                                    k := ({ s.k with now := max s.k.now sl.deadline }).resolve } := by
  simp [fireSleeper, modS]

/-- a timer fires: its token is in the hand -/
theorem fireSleeper_wake {s : State} {sl : Sleeper} {h : List Tgt} (hsl : sl ∈ s.sleepers) (hw : Wake s h) :
    Wake (fireSleeper sl s).2 (sl.waiter.tl ++ h) := by
  rw [fireSleeper_eq]
  exact Wake.lift2 (s := s) rfl rfl (fun c => WakeCore.fireSleeper sl _ hsl c) hw

theorem wakeOp_w (h : List Tgt) : Pres (W h) (stepOp .wake) := by
  intro s hw
  simp only [stepOp, bind, getS]
  cases he : earliest s.sleepers with
  | none => exact (wLeafW h).emit _ s hw
  | some sl =>
    simp only
    exact deliver_cons exec_wake_default sl.waiter .unit h _ (fireSleeper_wake (earliest_mem he) hw)

theorem stepOp_w (h : List Tgt) (op : Op) : Pres (W h) (stepOp op) := by
  have he := exec_wake_default
  have hq := sigQuit_w h
  cases op with
  | wake => exact wakeOp_w h
  | _ => simp only [stepOp]; aesop (add safe apply hq) (rule_sets := [Wk]) (config := { terminal := true, useDefaultSimpSet := false, useSimpAll := false, maxRuleApplications := 3000 })

theorem stepTail_w (h : List Tgt) : Pres (W h) stepTail := by
  have hs := settle_w h
  unfold stepTail
  aesop (add safe apply hs) (rule_sets := [Wk]) (config := { terminal := true, useDefaultSimpSet := false, useSimpAll := false, maxRuleApplications := 3000 })

theorem stepM_w (h : List Tgt) (op : Op) : Pres (W h) (stepM op) := by
  have h1 := stepOp_w h
  have h2 := stepTail_w h
  unfold stepM
  aesop (add safe apply h1, safe apply h2) (rule_sets := [Wk]) (config := { terminal := true, useDefaultSimpSet := false, useSimpAll := false, maxRuleApplications := 3000 })

/-- **no lost wake-up, along every run**: from any state with the invariant, after any list of
    external stimuli the invariant holds -/
theorem wake_run (s : State) (ops : List Op) (h : Wake s []) : Wake (run s ops) [] := by
  induction ops generalizing s with
  | nil => exact h
  | cons o os ih => exact ih _ (stepM_w [] o s h)

theorem core_init (cfg : List Watcher) (bs : List Behav) (aw : Nat) : WakeCore (initState cfg bs aw) [] := by
  constructor <;> simp [initState, State.toks]

theorem wake_init (cfg : List Watcher) (bs : List Behav) (aw : Nat) : Wake (initState cfg bs aw) [] :=
  Or.inr (core_init cfg bs aw)


end Circus.Core
