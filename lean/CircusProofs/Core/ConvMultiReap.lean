import CircusProofs.Core.ConvMulti
import CircusProofs.Core.ConvReap
/-!
C01 convergence, parts A and C together: **deaths before the check, several watchers**.  Any number of registered
active watchers, each listing running workers and workers that are dead in the kernel (zombies); no pid is listed
twice.  `Arbiter.reap_processes` maps every listed pid to its watcher, collects every zombie child with `waitpid(-1)`
(least pid first) and hands it to the `reap_process` of the watcher that lists it.  Afterwards every watcher lists
exactly its workers that run, the kernel is still, and the check goes on as in Core/ConvMulti.lean.
-/
namespace Circus.Core

/-- every watcher forgets the pids `D` -/
def dropPids (D : List Nat) (ws : List Watcher) : List Watcher :=
  ws.map fun w => { w with pids := w.pids.filter (fun p => decide (p ∉ D)) }

theorem dropPids_nil (ws : List Watcher) : dropPids [] ws = ws := by
  unfold dropPids
  conv => rhs; rw [← List.map_id ws]
  apply List.map_congr_left
  intro w _
  have : w.pids.filter (fun p => decide (p ∉ ([] : List Nat))) = w.pids := List.filter_eq_self.mpr (fun _ _ => by simp)
  show ({ w with pids := w.pids.filter (fun p => decide (p ∉ ([] : List Nat))) } : Watcher) = w
  rw [this]

theorem dropPids_uids (D : List Nat) (ws : List Watcher) : (dropPids D ws).map (·.uid) = ws.map (·.uid) := by
  simp [dropPids]

theorem mem_dropPids {D : List Nat} {ws : List Watcher} {w' : Watcher} (h : w' ∈ dropPids D ws) :
    ∃ w ∈ ws, w' = { w with pids := w.pids.filter (fun p => decide (p ∉ D)) } := by
  unfold dropPids at h
  obtain ⟨w, hw, rfl⟩ := List.mem_map.mp h
  exact ⟨w, hw, rfl⟩

/-- the watcher that lists `z` -/
def ownerOf (ws : List Watcher) (z : Nat) : Option Watcher := ws.find? (fun w => w.pids.contains z)

/-- no pid is listed twice, neither by one watcher nor by two -/
def PidsDisjoint (ws : List Watcher) : Prop := (ws.flatMap (·.pids)).Nodup

theorem PidsDisjoint.owner_unique {ws : List Watcher} (h : PidsDisjoint ws) (hn : (ws.map (·.uid)).Nodup)
    {w1 w2 : Watcher} (h1 : w1 ∈ ws) (h2 : w2 ∈ ws) {z : Nat} (hz1 : z ∈ w1.pids) (hz2 : z ∈ w2.pids) : w1 = w2 := by
  induction ws with
  | nil => cases h1
  | cons x xs ih =>
    unfold PidsDisjoint at h
    simp only [List.flatMap_cons] at h
    have hh := List.nodup_append.mp h
    simp only [List.map_cons, List.nodup_cons] at hn
    rcases List.mem_cons.mp h1 with rfl | h1'
    · rcases List.mem_cons.mp h2 with rfl | h2'
      · rfl
      · exfalso
        exact hh.2.2 z hz1 z (List.mem_flatMap.mpr ⟨w2, h2', hz2⟩) rfl
    · rcases List.mem_cons.mp h2 with rfl | h2'
      · exfalso
        exact hh.2.2 z hz2 z (List.mem_flatMap.mpr ⟨w1, h1', hz1⟩) rfl
      · exact ih hh.2.1 hn.2 h1' h2'

theorem ownerOf_some_of_mem {ws : List Watcher} (h : PidsDisjoint ws) (hn : (ws.map (·.uid)).Nodup) {w : Watcher} (hw : w ∈ ws)
    {z : Nat} (hz : z ∈ w.pids) : ownerOf ws z = some w := by
  unfold ownerOf
  cases hf : ws.find? (fun w => w.pids.contains z) with
  | none =>
    have := List.find?_eq_none.mp hf w hw
    simp [hz] at this
  | some w' =>
    have hw' := List.mem_of_find?_eq_some hf
    have hz' : z ∈ w'.pids := by simpa using List.find?_some hf
    rw [PidsDisjoint.owner_unique h hn hw' hw hz' hz]

theorem ownerOf_none_iff {ws : List Watcher} {z : Nat} : ownerOf ws z = none ↔ ∀ w ∈ ws, z ∉ w.pids := by
  unfold ownerOf
  rw [List.find?_eq_none]
  simp

/-! ## the pid → watcher map -/

theorem forIn_pure_of {γ β : Type} (l : List γ) (g : γ → β → β) (f : γ → β → M (ForInStep β))
    (hf : ∀ x ∈ l, ∀ b s, f x b s = (ForInStep.yield (g x b), s)) (b : β) (s : State) :
    (forIn l b f : M β) s = (l.foldl (fun b x => g x b) b, s) := by
  induction l generalizing b with
  | nil => rfl
  | cons x xs ih =>
    rw [List.forIn_cons]
    simp only [bind]
    rw [hf x (by simp) b s]
    simp only [List.foldl_cons]
    exact ih (fun y hy => hf y (by simp [hy])) _

/-- the map after the pids of the watchers `l` have been entered -/
def pmOf (l : List Watcher) (init : List (Nat × Nat)) : List (Nat × Nat) :=
  l.foldl (fun r w => w.pids.foldl (fun r pid => (pid, w.uid) :: r.filter (fun x => decide (x.1 ≠ pid))) r) init

theorem pmOf_lookup_none (l : List Watcher) : ∀ (init : List (Nat × Nat)) (z : Nat), (∀ w ∈ l, z ∉ w.pids) →
    (pmOf l init).lookup z = init.lookup z := by
  induction l with
  | nil => intro init z _; rfl
  | cons w r ih =>
    intro init z h
    unfold pmOf
    rw [List.foldl_cons]
    have := ih (w.pids.foldl (fun r pid => (pid, w.uid) :: r.filter (fun x => decide (x.1 ≠ pid))) init) z
      (fun x hx => h x (by simp [hx]))
    unfold pmOf at this
    rw [this, pidmap_lookup]
    simp [h w (by simp)]

theorem pmOf_lookup_some (l : List Watcher) : ∀ (init : List (Nat × Nat)) (z : Nat) (w : Watcher), w ∈ l → z ∈ w.pids →
    (∀ w' ∈ l, z ∈ w'.pids → w' = w) → (pmOf l init).lookup z = some w.uid := by
  induction l with
  | nil => intro _ _ w hw; cases hw
  | cons x r ih =>
    intro init z w hw hz huniq
    have hstep : pmOf (x :: r) init = pmOf r (x.pids.foldl (fun r pid => (pid, x.uid) :: r.filter (fun y => decide (y.1 ≠ pid))) init) := by
      unfold pmOf; rw [List.foldl_cons]
    rw [hstep]
    by_cases hwr : w ∈ r
    · exact ih _ z w hwr hz (fun w' hw' hz' => huniq w' (by simp [hw']) hz')
    · have hxw : x = w := by
        rcases List.mem_cons.mp hw with h | h
        · exact h.symm
        · exact absurd h hwr
      subst hxw
      rw [pmOf_lookup_none r _ z (fun w' hw' hz' => hwr (by rw [← huniq w' (by simp [hw']) hz']; exact hw')), pidmap_lookup]
      simp [hz]

/-! ## `reap_process(pid, status)` of the watcher that lists the collected zombie -/

section mk
variable (k : Kernel) (a : Arbiter) (objs : List PObj) (ws : List Watcher) (frames : List Frame)
  (sleepers : List Sleeper) (tops : List TopFut) (ready : List Ready) (dv : List (Nat × Val)) (nid : Nat) (log : List Obs)

theorem notify_K_mk (w : Watcher) (hn : (ws.map (·.uid)).Nodup) (hw : w ∈ ws) (t : String) (p : Option Nat) (x : String) :
    notify w.uid t p x ⟨k, a, objs, ws, frames, sleepers, tops, ready, dv, nid, log, false⟩ =
      ((), ⟨k, a, objs, ws, frames, sleepers, tops, ready, dv, nid, log ++ evs a w.name t p x, false⟩) := by
  unfold notify evs
  simp only [bind, getA]
  rw [getW_mem (s := ⟨k, a, objs, ws, frames, sleepers, tops, ready, dv, nid, log, false⟩) hn hw]
  by_cases hc : a.pubClosed = true
  · erw [if_pos hc]; simp [hc, pure]
  · erw [if_neg hc]
    simp [emitEv, modS, hc]

/-- one watcher forgets `z` -/
def popOne (u z : Nat) (ws : List Watcher) : List Watcher :=
  ws.map fun w => if w.uid = u then { w with pids := w.pids.filter (· ≠ z) } else w

theorem reapProcess_collected_K (w : Watcher) (z st : Nat) (p : KProc) (hn : (ws.map (·.uid)).Nodup) (hw : w ∈ ws)
    (hh : w.hooks = []) (hc : k.Calm) (hf : k.find z = some p) (hg : p.st = .gone) (hp : z ∈ w.pids) :
    ∃ n O, reapProcess w.uid z (some st) ⟨k, a, objs, ws, frames, sleepers, tops, ready, dv, nid, log, false⟩ =
      ((), ⟨k.bump n, a, O, popOne w.uid z ws, frames, sleepers, tops, ready, dv, nid,
        log ++ evs a w.name "reap" (some z) (toString (exitCodeOf st)), false⟩) := by
  have hn' : ((popOne w.uid z ws).map (·.uid)).Nodup := by
    have : (popOne w.uid z ws).map (·.uid) = ws.map (·.uid) := by
      unfold popOne
      rw [List.map_map]
      apply List.map_congr_left
      intro x _
      simp only [Function.comp]
      split <;> rfl
    rw [this]; exact hn
  have hw' : ({ w with pids := w.pids.filter (· ≠ z) } : Watcher) ∈ popOne w.uid z ws := by
    unfold popOne
    exact List.mem_map.mpr ⟨w, hw, by simp⟩
  obtain ⟨n, O, hos⟩ := objStop_gone_mk (k.bump 1) a objs (popOne w.uid z ws) frames sleepers tops
    ready dv nid log z p (Kernel.bump_calm k 1 hc) hf hg
  refine ⟨1 + n, O, ?_⟩
  have hg0 := getW_mem (s := ⟨k, a, objs, ws, frames, sleepers, tops, ready, dv, nid, log, false⟩) hn hw
  unfold reapProcess
  simp only [bind]
  rw [hg0]
  erw [if_neg (by simp [hp])]
  rw [callHook_nohooks w.uid "before_reap" _ (by rw [hg0]; exact hh)]
  simp only [popPid, modW, modS]
  unfold reapTail
  have hps := procStatus_gone_mk k a objs (popOne w.uid z ws) frames sleepers tops ready dv nid log z p hc hf hg
  have hnt := notify_K_mk ((k.bump 1).bump n) a O (popOne w.uid z ws) frames sleepers tops ready dv nid log
    { w with pids := w.pids.filter (· ≠ z) } hn' hw' "reap" (some z) (toString (exitCodeOf st))
  have hch := callHook_nohooks w.uid "after_reap"
    ⟨(k.bump 1).bump n, a, O, popOne w.uid z ws, frames, sleepers, tops, ready, dv, nid,
      log ++ evs a w.name "reap" (some z) (toString (exitCodeOf st)), false⟩ (by
        have := getW_mem (s := ⟨(k.bump 1).bump n, a, O, popOne w.uid z ws, frames, sleepers, tops, ready, dv, nid,
          log ++ evs a w.name "reap" (some z) (toString (exitCodeOf st)), false⟩) hn' hw'
        rw [show w.uid = ({ w with pids := w.pids.filter (· ≠ z) } : Watcher).uid from rfl, this]
        exact hh)
  simp only [Kernel.bump_bump] at hos hnt hch
  unfold popOne at hps hos hnt hch
  simp only [bind, pure_run, hps, isDead, decide_true, Bool.or_true]
  erw [if_pos True.intro]
  simp only [hos]
  erw [hnt]
  simp only [hch]
  rfl

end mk

/-! ## the `waitpid(-1)` loop with several watchers -/

theorem popOne_dropPids (ws0 : List Watcher) (hn0 : (ws0.map (·.uid)).Nodup) (hdisj : PidsDisjoint ws0) (D : List Nat)
    (w0 : Watcher) (hw0 : w0 ∈ ws0) (z : Nat) (hz : z ∈ w0.pids) :
    popOne w0.uid z (dropPids D ws0) = dropPids (D ++ [z]) ws0 := by
  unfold popOne dropPids
  rw [List.map_map]
  apply List.map_congr_left
  intro x hx
  simp only [Function.comp]
  by_cases hu : x.uid = w0.uid
  · have : x = w0 := same_uid_eq hn0 hx hw0 hu
    subst this
    simp only [if_true, List.filter_filter]
    congr 1
    apply List.filter_congr
    intro y _
    by_cases h1 : y ∈ D <;> by_cases h2 : y = z <;> simp [h1, h2]
  · simp only [hu, if_false]
    congr 1
    apply List.filter_congr
    intro y hy
    have hyz : y ≠ z := by
      intro he
      subst he
      exact hu (congrArg (·.uid) (PidsDisjoint.owner_unique hdisj hn0 hx hw0 hy hz))
    by_cases h1 : y ∈ D <;> simp [h1, hyz]

theorem dropPids_snoc_unlisted (ws0 : List Watcher) (D : List Nat) (z : Nat) (hz : ∀ w ∈ ws0, z ∉ w.pids) :
    dropPids D ws0 = dropPids (D ++ [z]) ws0 := by
  unfold dropPids
  apply List.map_congr_left
  intro x hx
  congr 1
  apply List.filter_congr
  intro y hy
  have hyz : y ≠ z := fun he => hz x hx (he ▸ hy)
  by_cases h1 : y ∈ D <;> simp [h1, hyz]

/-- what `Arbiter.reap_processes` leaves in the log for the zombies `zs`: the collected wait status and, for a zombie
    that some watcher lists, that watcher's `reap` event -/
def arbReapObsK (a : Arbiter) (ws0 : List Watcher) (σ : Nat → Nat) : List Nat → List Obs
  | [] => []
  | z :: rest =>
    (Obs.reap z (σ z) :: (match ownerOf ws0 z with
      | some w => evs a w.name "reap" (some z) (toString (exitCodeOf (σ z)))
      | none => [])) ++ arbReapObsK a ws0 σ rest

section mk
variable (a : Arbiter) (frames : List Frame) (sleepers : List Sleeper) (tops : List TopFut) (ready : List Ready)
  (dv : List (Nat × Val)) (nid : Nat)

theorem arbReapLoop_zombies_K (pm : List (Nat × Nat)) (ws0 : List Watcher) (σ : Nat → Nat)
    (hn0 : (ws0.map (·.uid)).Nodup) (hdisj : PidsDisjoint ws0) (hhooks : ∀ w ∈ ws0, w.hooks = [])
    (hpm : ∀ z, pm.lookup z = (ownerOf ws0 z).map (·.uid)) :
    ∀ (zs D : List Nat) (fuel : Nat) (k : Kernel) (objs : List PObj) (log : List Obs),
      zs.length < fuel → k.StillZ → k.zombies = zs → (∀ z ∈ zs, z ∉ D) → (∀ z ∈ zs, k.statusOf z = σ z) →
      ∃ K O, arbReapLoop pm fuel ⟨k, a, objs, dropPids D ws0, frames, sleepers, tops, ready, dv, nid, log, false⟩ =
          ((), ⟨K, a, O, dropPids (D ++ zs) ws0, frames, sleepers, tops, ready, dv, nid, log ++ arbReapObsK a ws0 σ zs, false⟩) ∧
        K.Still ∧ K.nextPid = k.nextPid ∧ K.now = k.now ∧ (∀ q, q ∉ zs → K.find q = k.find q) ∧
        (∀ z ∈ zs, ∃ p, K.find z = some p ∧ p.st = .gone) := by
  intro zs
  induction zs with
  | nil =>
    intro D fuel k objs log hfuel hk hz _ _
    obtain ⟨f, rfl⟩ : ∃ f, fuel = f + 1 := ⟨fuel - 1, by simp at hfuel; omega⟩
    refine ⟨k.bump 1, objs, ?_, (hk.still hz).bump 1, rfl, rfl, fun _ _ => rfl, fun z hz => by cases hz⟩
    rw [arbReapLoop_still pm f _ rfl (hk.still hz)]
    simp [arbReapObsK]
  | cons z rest ih =>
    intro D fuel k objs log hfuel hk hz hD hσ
    obtain ⟨f, rfl⟩ : ∃ f, fuel = f + 1 := ⟨fuel - 1, by simp at hfuel; omega⟩
    have hfuel' : rest.length < f := by simp at hfuel; omega
    have hnd := Kernel.zombies_nodup hk
    rw [hz] at hnd
    have hzr : z ∉ rest := (List.nodup_cons.mp hnd).1
    obtain ⟨p, hf, _, _⟩ := Kernel.waitpid_none_zombie hk hz
    have hst : k.statusOf z = σ z := hσ z (by simp)
    have hk1 : (k.reaped z).StillZ := Kernel.reaped_stillZ hk z
    have hz1 : (k.reaped z).zombies = rest := Kernel.reaped_zombies hk hz
    have hfz : (k.reaped z).find z = some { p with st := .gone } := Kernel.reaped_find_self hf
    have hσ1 : ∀ n, ∀ y ∈ rest, ((k.reaped z).bump n).statusOf y = σ y := by
      intro n y hy
      have hne : y ≠ z := fun he => hzr (he ▸ hy)
      rw [← hσ y (by simp [hy])]
      simp only [Kernel.statusOf, Kernel.bump_find, Kernel.reaped_find_other hne]
    have hD1 : ∀ y ∈ rest, y ∉ D ++ [z] := by
      intro y hy hm
      rcases List.mem_append.mp hm with h | h
      · exact hD y (by simp [hy]) h
      · simp only [List.mem_cons, List.mem_nil_iff, or_false] at h
        exact hzr (h ▸ hy)
    have hopen : arbReapLoop pm (f + 1) ⟨k, a, objs, dropPids D ws0, frames, sleepers, tops, ready, dv, nid, log, false⟩ =
        (do (match pm.lookup z with
              | some uid => reapProcess uid z (some (k.statusOf z))
              | none => pure ())
            arbReapLoop pm f : M Unit)
          ⟨k.reaped z, a, objs, dropPids D ws0, frames, sleepers, tops, ready, dv, nid, log ++ [Obs.reap z (k.statusOf z)], false⟩ := by
      conv => lhs; unfold arbReapLoop
      simp only [bind, getS]
      erw [if_neg (by simp)]
      rw [kWaitpid_none_zombie_mk a frames sleepers tops ready dv nid k objs (dropPids D ws0) log hk hz]
      simp only []
      cases List.lookup z pm <;> rfl
    rw [hopen, hpm z]
    have hassoc : D ++ [z] ++ rest = D ++ z :: rest := by simp
    cases hown : ownerOf ws0 z with
    | some w0 =>
      have hw0 : w0 ∈ ws0 := List.mem_of_find?_eq_some hown
      have hzw0 : z ∈ w0.pids := by simpa using List.find?_some hown
      -- the current record of the owner
      have hwc : ({ w0 with pids := w0.pids.filter (fun q => decide (q ∉ D)) } : Watcher) ∈ dropPids D ws0 := by
        unfold dropPids
        exact List.mem_map.mpr ⟨w0, hw0, rfl⟩
      have hzc : z ∈ ({ w0 with pids := w0.pids.filter (fun q => decide (q ∉ D)) } : Watcher).pids := by
        show z ∈ w0.pids.filter _
        exact List.mem_filter.mpr ⟨hzw0, by simpa using hD z (by simp)⟩
      obtain ⟨n, O, hrp⟩ := reapProcess_collected_K (k.reaped z) a objs (dropPids D ws0) frames sleepers tops ready dv nid
        (log ++ [Obs.reap z (k.statusOf z)]) { w0 with pids := w0.pids.filter (fun q => decide (q ∉ D)) } z (k.statusOf z)
        { p with st := .gone } (by rw [dropPids_uids]; exact hn0) hwc (hhooks w0 hw0) hk1.calm hfz rfl hzc
      rw [popOne_dropPids ws0 hn0 hdisj D w0 hw0 z hzw0] at hrp
      obtain ⟨K, O', hloop, hK1, hK2, hK3, hK4, hK5⟩ := ih (D ++ [z]) f ((k.reaped z).bump n) O
        (log ++ [Obs.reap z (k.statusOf z)] ++ evs a w0.name "reap" (some z) (toString (exitCodeOf (k.statusOf z))))
        hfuel' (hk1.bump n) hz1 hD1 (hσ1 n)
      refine ⟨K, O', ?_, hK1, hK2, hK3, ?_, ?_⟩
      · simp only [Option.map_some, bind]
        erw [hrp]
        simp only
        rw [hloop, hassoc]
        simp only [arbReapObsK, hown, hst, List.append_assoc, List.cons_append, List.nil_append]
      · intro q hq
        have hq1 : q ∉ rest := fun h => hq (by simp [h])
        have hq2 : q ≠ z := fun h => hq (by simp [h])
        rw [hK4 q hq1, Kernel.bump_find, Kernel.reaped_find_other hq2]
      · intro y hy
        rcases List.mem_cons.mp hy with rfl | hy
        · exact ⟨_, (hK4 y hzr).trans hfz, rfl⟩
        · exact hK5 y hy
    | none =>
      have hunl : ∀ w ∈ ws0, z ∉ w.pids := ownerOf_none_iff.mp hown
      obtain ⟨K, O', hloop, hK1, hK2, hK3, hK4, hK5⟩ := ih (D ++ [z]) f (k.reaped z) objs (log ++ [Obs.reap z (k.statusOf z)])
        hfuel' hk1 hz1 hD1
        (fun y hy => by have := hσ1 0 y hy; simpa [Kernel.bump, Kernel.statusOf, Kernel.find] using this)
      refine ⟨K, O', ?_, hK1, hK2, hK3, ?_, ?_⟩
      · simp only [Option.map_none, bind, pure_run]
        rw [dropPids_snoc_unlisted ws0 D z hunl, hloop, hassoc]
        simp only [arbReapObsK, hown, hst, List.append_assoc, List.cons_append, List.nil_append]
      · intro q hq
        have hq1 : q ∉ rest := fun h => hq (by simp [h])
        have hq2 : q ≠ z := fun h => hq (by simp [h])
        rw [hK4 q hq1, Kernel.reaped_find_other hq2]
      · intro y hy
        rcases List.mem_cons.mp hy with rfl | hy
        · exact ⟨_, (hK4 y hzr).trans hfz, rfl⟩
        · exact hK5 y hy

end mk

/-! ## `Arbiter.reap_processes`, the check, convergence -/

/-- the data of the start state: as `DatK`, but the watchers also list workers that are dead in the kernel
    (zombies); no pid is listed twice; the kernel is still but for zombies -/
def DatKZ (s : State) : Prop :=
  s.blocked = false ∧ s.k.StillZ ∧ (s.ws.map (·.uid)).Nodup ∧ PidsDisjoint s.ws ∧
    ∀ w ∈ s.ws, WOkK w ∧ ∀ pid ∈ w.pids, ∃ p, s.k.find pid = some p ∧ (p.st = .run ∨ p.st = .zombie)

/-- every watcher with the workers it lists that run -/
def aliveWs (s : State) : List Watcher := s.ws.map fun w => { w with pids := w.pids.filter s.k.runs }

theorem DatKZ.dropPids_alive {s : State} (h : DatKZ s) : dropPids s.k.zombies s.ws = aliveWs s := by
  obtain ⟨_, hk, _, _, hall⟩ := h
  unfold dropPids aliveWs
  apply List.map_congr_left
  intro w hw
  congr 1
  apply List.filter_congr
  intro pid hp
  obtain ⟨p, hf, hst⟩ := (hall w hw).2 pid hp
  have hpm := Kernel.find_mem hf
  have hpp := Kernel.find_pid hf
  rcases hst with hr | hz
  · have : pid ∉ s.k.zombies := by
      intro hm
      obtain ⟨q, hq, hqp, _, hqz⟩ := Kernel.mem_zombies.mp hm
      have : s.k.find q.pid = some q := Kernel.find_of_mem hk.nodup hq
      rw [hqp, hf] at this
      have : p = q := by simpa using this
      subst this
      rw [hr] at hqz
      cases hqz
    simp [this, Kernel.runs, hf, hr]
  · have : pid ∈ s.k.zombies := Kernel.mem_zombies.mpr ⟨p, hpm, hpp, hk.zkid p hpm hz, hz⟩
    simp [this, Kernel.runs, hf, hz]

/-- **`Arbiter.reap_processes` with several watchers listing dead workers**: every zombie child is collected, least
    pid first; each one that a watcher lists leaves that watcher's dict and is announced by that watcher; afterwards
    every watcher lists exactly its workers that run, the kernel is still, nobody else has been touched -/
theorem arbReapProcesses_zombies_K (s : State) (hd : DatKZ s) (hwat : s.a.watchers = s.ws.map (·.uid)) :
    ∃ K O, arbReapProcesses s = ((), { s with k := K, objs := O, ws := aliveWs s,
                                              log := s.log ++ arbReapObsK s.a s.ws s.k.statusOf s.k.zombies }) ∧
      K.Still ∧ K.nextPid = s.k.nextPid ∧ K.now = s.k.now ∧ (∀ q, q ∉ s.k.zombies → K.find q = s.k.find q) ∧
      (∀ z ∈ s.k.zombies, ∃ p, K.find z = some p ∧ p.st = .gone) := by
  have halive := hd.dropPids_alive
  obtain ⟨hb, hk, hn, hdisj, hall⟩ := hd
  obtain ⟨k, a, objs, ws, frames, sleepers, tops, ready, dv, nid, log, blocked⟩ := s
  simp only at hb hk hn hdisj hall hwat halive
  subst hb
  have hperm := sortWatchers_perm ws true
  have hfuel : k.zombies.length < k.procs.length + 2 := by
    unfold Kernel.zombies
    rw [Kernel.sortNat_length, List.length_map]
    have h1 := List.length_filter_le (fun (p : KProc) => decide (p.st = .zombie))
      (k.procs.filter fun p => p.ppid = some 0 && p.st ≠ .gone)
    have h2 := List.length_filter_le (fun (p : KProc) => p.ppid = some 0 && p.st ≠ .gone) k.procs
    omega
  have hpm : ∀ z, (pmOf (sortWatchers ws true) []).lookup z = (ownerOf ws z).map (·.uid) := by
    intro z
    cases hown : ownerOf ws z with
    | some w =>
      have hw : w ∈ ws := List.mem_of_find?_eq_some hown
      have hz : z ∈ w.pids := by simpa using List.find?_some hown
      rw [pmOf_lookup_some (sortWatchers ws true) [] z w (hperm.mem_iff.mpr hw) hz
        (fun w' hw' hz' => PidsDisjoint.owner_unique hdisj hn (hperm.mem_iff.mp hw') hw hz' hz)]
      rfl
    | none =>
      rw [pmOf_lookup_none (sortWatchers ws true) [] z (fun w hw => ownerOf_none_iff.mp hown w (hperm.mem_iff.mp hw))]
      rfl
  obtain ⟨K, O, hloop, hK1, hK2, hK3, hK4, hK5⟩ := arbReapLoop_zombies_K a frames sleepers tops ready dv nid
    (pmOf (sortWatchers ws true) []) ws k.statusOf hn hdisj (fun w hw => (hall w hw).1.hooks) hpm k.zombies []
    (k.procs.length + 2) k objs log hfuel hk rfl (fun _ _ h => by cases h) (fun _ _ => rfl)
  rw [dropPids_nil, List.nil_append, halive] at hloop
  refine ⟨K, O, ?_, hK1, hK2, hK3, hK4, hK5⟩
  unfold arbReapProcesses
  simp only [bind]
  have hreg := registered_all ⟨k, a, objs, ws, frames, sleepers, tops, ready, dv, nid, log, false⟩ hn hwat
  rw [hreg]
  have hfor : (forIn (sortWatchers ws true) ([] : List (Nat × Nat)) (fun w r =>
      if w.status ≠ Status.stopped then (do
        let r' ← (forIn w.pids r (fun pid r =>
          (pure (ForInStep.yield ((pid, w.uid) :: r.filter (fun x => decide (x.1 ≠ pid)))) : M (ForInStep (List (Nat × Nat))))) : M (List (Nat × Nat)))
        pure (ForInStep.yield r') : M (ForInStep (List (Nat × Nat))))
      else pure (ForInStep.yield r)) : M (List (Nat × Nat)))
        ⟨k, a, objs, ws, frames, sleepers, tops, ready, dv, nid, log, false⟩ =
      (pmOf (sortWatchers ws true) [], ⟨k, a, objs, ws, frames, sleepers, tops, ready, dv, nid, log, false⟩) := by
    unfold pmOf
    apply forIn_pure_of
    intro w hw b t
    have hst : w.status ≠ Status.stopped := by
      rw [(hall w (hperm.mem_iff.mp hw)).1.status]; decide
    erw [if_pos hst]
    simp only [bind, forIn_pure_yield, pure_run]
  simp only [bind] at hfor
  erw [hfor]
  simp only [getS]
  rw [hloop]

theorem aliveWs_uids (s : State) : (aliveWs s).map (·.uid) = s.ws.map (·.uid) := by
  simp [aliveWs]

/-- after the reaping the data invariant of Core/ConvMulti.lean holds -/
theorem DatKZ.post {s : State} (hd : DatKZ s) (K : Kernel) (O : List PObj) (L : List Obs) (hK : K.Still)
    (hfind : ∀ q, q ∉ s.k.zombies → K.find q = s.k.find q) :
    DatK ({ checkEntry s with k := K, objs := O, ws := aliveWs s, log := L } : State) := by
  have hal := hd.dropPids_alive
  obtain ⟨hb, hk, hn, _, hall⟩ := hd
  refine ⟨hb, hK, by show ((aliveWs s).map _).Nodup; rw [aliveWs_uids]; exact hn, ?_⟩
  intro w' hw'
  have hw'' : w' ∈ dropPids s.k.zombies s.ws := by rw [hal]; exact hw'
  obtain ⟨w, hw, rfl⟩ := mem_dropPids hw''
  obtain ⟨hok, hrun⟩ := hall w hw
  refine ⟨⟨hok.status, hok.respawn, hok.maxAge, hok.onDemand, hok.hooks, hok.np, hok.retry⟩, ?_⟩
  intro pid hp
  have hpL := (List.mem_filter.mp hp).1
  have hnz : pid ∉ s.k.zombies := by simpa using (List.mem_filter.mp hp).2
  obtain ⟨p, hf, hst⟩ := hrun pid hpL
  refine ⟨p, by rw [hfind pid hnz]; exact hf, ?_⟩
  rcases hst with hr | hz
  · exact hr
  · exfalso
    exact hnz (Kernel.mem_zombies.mpr ⟨p, Kernel.find_mem hf, Kernel.find_pid hf, hk.zkid p (Kernel.find_mem hf) hz, hz⟩)

/-- **convergence after deaths, several watchers**: from an idle state whose watchers list running workers and dead
    ones, no pid twice, the check — `Arbiter.reap_processes` collects every zombie and each watcher forgets its dead —
    followed by exactly as many timer firings as workers are missing once the dead are gone ends idle with every watcher
    at its `numprocesses` running workers; the workers that ran before are kept -/
theorem check_converges_deaths_K (s : State) (hi : IdleK s) (hd : DatKZ s)
    (hle : ∀ w ∈ aliveWs s, w.pids.length ≤ w.np.toNat) (hne : s.ws ≠ []) :
    IdleK (run s (.check :: List.replicate ((aliveWs s).map missing).sum .wake)) ∧
    DatK (run s (.check :: List.replicate ((aliveWs s).map missing).sum .wake)) ∧
    (∀ w ∈ (run s (.check :: List.replicate ((aliveWs s).map missing).sum .wake)).ws, w.pids.length = w.np.toNat) ∧
    Grow (aliveWs s) (run s (.check :: List.replicate ((aliveWs s).map missing).sum .wake)).ws := by
  have hb : s.blocked = false := hd.1
  have hdE : DatKZ (checkEntry s) := by
    obtain ⟨h1, h2, h3, h4, h5⟩ := hd
    exact ⟨h1, h2.beginStep, h3, h4, h5⟩
  obtain ⟨K, O, hreap, hK1, _, _, hK4, _⟩ := arbReapProcesses_zombies_K (checkEntry s) hdE hi.watchers
  have hal : aliveWs (checkEntry s) = aliveWs s := rfl
  have hzz : (checkEntry s).k.zombies = s.k.zombies := rfl
  rw [hal] at hreap
  rw [hzz] at hK4
  have hdl := hd.post K O ((checkEntry s).log ++ arbReapObsK (checkEntry s).a (checkEntry s).ws (checkEntry s).k.statusOf
    (checkEntry s).k.zombies) hK1 hK4
  have hne1 : aliveWs s ≠ [] := by
    intro h
    have := congrArg List.length h
    simp [aliveWs] at this
    exact hne this
  rw [run_cons]
  by_cases hmiss : ∃ w ∈ aliveWs s, w.pids.length < w.np.toNat
  · obtain ⟨results, P, hP, hd', hA, hPne, hgo, hgr⟩ := check_parks_K_gen s hi hb K O (aliveWs s) _ hreap hdl (aliveWs_uids s) hle hmiss
    have hpos : 0 < ((aliveWs s).map missing).sum := by
      rw [← hgo]
      unfold toGo
      have := List.length_pos_iff.mpr hPne
      omega
    obtain ⟨n, hn⟩ : ∃ n, ((aliveWs s).map missing).sum = n + 1 := ⟨_, (Nat.succ_pred_eq_of_pos hpos).symm⟩
    rw [hn]
    obtain ⟨g1, g2, g3, g4⟩ := wakes_converge_K (aliveWs s).length s.nextId n results P _ hP hd' hA hPne (by rw [hgo, hn])
    exact ⟨g1, g2, g3, hgr.trans g4⟩
  · have hfull : ∀ w ∈ aliveWs s, w.pids.length = w.np.toNat := by
      intro w hw
      have := hle w hw
      by_cases h : w.pids.length < w.np.toNat
      · exact absurd ⟨w, hw, h⟩ hmiss
      · omega
    rw [sum_missing_zero hfull]
    simp only [List.replicate_zero]
    obtain ⟨h1, h2, h3, _⟩ := check_idle_K_gen s hi hb K O (aliveWs s) _ hreap hdl (aliveWs_uids s) hfull hne1
    exact ⟨h1, h2, by simpa [run, h3] using hfull, by simp only [run, List.foldl_nil]; rw [h3]; exact Grow.refl _⟩

/-- `DatKZ` from decidable facts (for concrete states) -/
theorem DatKZ.of_dec (s : State) (h1 : s.blocked = false) (h2 : s.k.StillZ) (h3 : (s.ws.map (·.uid)).Nodup)
    (h4 : (s.ws.flatMap (·.pids)).Nodup)
    (h5 : ∀ w ∈ s.ws, (w.status = .active ∧ w.respawn = true ∧ w.maxAge = 0 ∧ w.onDemand = false ∧ w.hooks.isEmpty = true ∧
      0 ≤ w.np ∧ w.maxRetry ≠ 0) ∧ ∀ pid ∈ w.pids, (s.k.stOf pid = some .run ∨ s.k.stOf pid = some .zombie)) : DatKZ s := by
  refine ⟨h1, h2, h3, h4, ?_⟩
  intro w hw
  obtain ⟨⟨a1, a2, a3, a4, a5, a6, a7⟩, hp⟩ := h5 w hw
  refine ⟨⟨a1, a2, a3, a4, List.isEmpty_iff.mp a5, a6, a7⟩, ?_⟩
  intro pid hpid
  rcases hp pid hpid with h | h
  · obtain ⟨p, hf, hs⟩ := Kernel.find_of_stOf h
    exact ⟨p, hf, Or.inl hs⟩
  · obtain ⟨p, hf, hs⟩ := Kernel.find_of_stOf h
    exact ⟨p, hf, Or.inr hs⟩

end Circus.Core
