import CircusProofs.Core.Pres
import CircusProofs.Core.NarrowAttr
/-!
Preservation lemmas for invariants that are *not* preserved by every writer the generic
structures (`LeafK`/`LeafW`/`Leaf`, Generic.lean) quantify over:

* invariants about the kernel's `slept` counter and the `blocked` flag (C05) — broken by `kSleep`
  and `markBlocked`, which only `reapWait` uses;
* invariants that count published events of one topic (C09) — broken by `emitEv` with that topic.

The structures below list, writer by writer and topic by topic, exactly what each group of model
functions needs; the composition proofs are `unfold f; narrow` (aesop, rule set `Narrow`).
-/
namespace Circus.Core

/-- writers of the synchronous functions of Watcher.lean that publish nothing, never sleep and do
    not touch watcher objects: `kKill`, `kWaitpid`, `procStatus`, `isAlive`, `objStop`, `activeProcs` -/
structure LeafN0 (I : State → Prop) : Prop where
  emit : ∀ o, Pres I (emit o)
  kill : ∀ pid sig, Pres I (runK fun k => Kernel.killD k pid sig)       -- the daemon's own `os.kill` (may be refused: EPERM)
  waitpid : ∀ pid, Pres I (runK fun k => Kernel.waitpid k pid)
  stateOf : ∀ pid, Pres I (kStateOf pid)
  children : ∀ pid r, Pres I (kChildren pid r)
  setObjStopping : ∀ p b, Pres I (setObjStopping p b)
  setRc : ∀ p rc, Pres I (setRc p rc)

/-- … plus hooks (`callHook`) and the signalling functions with their `kill` event -/
structure LeafN (I : State → Prop) : Prop extends LeafN0 I where
  bumpHook : ∀ u h i, Pres I (bumpHook u h i)
  evHookF : ∀ w p x, Pres I (emitEv w "hook_failure" p x)
  evHookS : ∀ w p x, Pres I (emitEv w "hook_success" p x)
  evKill : ∀ w p x, Pres I (emitEv w "kill" p x)

/-- … plus what only `reap_process` does: pop the entry, the `reap` event, the blocking sleep,
    giving up -/
structure LeafNR (I : State → Prop) : Prop extends LeafN I where
  popPid : ∀ u p, Pres I (popPid u p)
  evReap : ∀ w p x, Pres I (emitEv w "reap" p x)
  sleep : ∀ ms, Pres I (kSleep ms)
  markBlocked : Pres I markBlocked

/-- the coroutine layer without any reaping or spawning: frames, sleepers, top-level futures -/
structure LeafNC (I : State → Prop) : Prop extends LeafN I where
  freshId : Pres I freshId
  pushFrame : ∀ f, Pres I (pushFrame f)
  removeFrame : ∀ f, Pres I (removeFrame f)
  setFrameK : ∀ f k, Pres I (setFrameK f k)
  armFrame : ∀ f, Pres I (armFrame f)
  pushSleeper : ∀ sl, Pres I (pushSleeper sl)
  armTop : ∀ t, Pres I (armTop t)
  pushTop : ∀ t, Pres I (pushTop t)
  finishTop : ∀ t v, Pres I (finishTop t v)
  enqueue : ∀ r, Pres I (enqueue r)
  setSlot : ∀ v, Pres I (setSlot v)

/-- … plus spawning (`spawn_process`, `spawn_processes`) -/
structure LeafNS (I : State → Prop) : Prop extends LeafNC I where
  evSpawn : ∀ w p x, Pres I (emitEv w "spawn" p x)
  spawnAdopt : ∀ u w, Pres I (spawnAdopt u w)

attribute [aesop safe apply (rule_sets := [Narrow])] Pres.pure Pres.getS Pres.getK Pres.getA Pres.getW Pres.getO Pres.nowMs
attribute [aesop safe apply (rule_sets := [Narrow])] Pres.bind Pres.ite Pres.for_in
attribute [aesop safe apply (rule_sets := [Narrow])] LeafN0.emit LeafN0.kill LeafN0.waitpid LeafN0.stateOf LeafN0.children
  LeafN0.setObjStopping LeafN0.setRc LeafN.bumpHook LeafN.evHookF LeafN.evHookS LeafN.evKill
  LeafNR.popPid LeafNR.evReap LeafNR.sleep LeafNR.markBlocked LeafNC.freshId
  LeafNC.pushFrame LeafNC.removeFrame LeafNC.setFrameK LeafNC.armFrame LeafNC.pushSleeper LeafNC.armTop LeafNC.pushTop
  LeafNC.finishTop LeafNC.enqueue LeafNC.setSlot LeafNS.evSpawn LeafNS.spawnAdopt
attribute [aesop safe apply (rule_sets := [Narrow])] LeafN.toLeafN0

macro "narrow" : tactic => `(tactic| aesop (rule_sets := [Narrow]) (config := { terminal := true, useDefaultSimpSet := false, useSimpAll := false, maxRuleApplications := 3000 }))

section
variable {I : State → Prop}

/-! ### kernel wrappers, `Process` methods -/
@[aesop safe apply (rule_sets := [Narrow])]
theorem kKill_narrow (L : LeafN0 I) (pid sig : Nat) (via : String) : Pres I (kKill pid sig via) := by
  unfold kKill; narrow
@[aesop safe apply (rule_sets := [Narrow])]
theorem kWaitpid_narrow (L : LeafN0 I) (pid : Nat) : Pres I (kWaitpid (some pid)) := by
  unfold kWaitpid; narrow
@[aesop safe apply (rule_sets := [Narrow])]
theorem procStatus_narrow (L : LeafN0 I) (pid : Nat) : Pres I (procStatus pid) := by
  unfold procStatus; narrow
@[aesop safe apply (rule_sets := [Narrow])]
theorem isAlive_narrow (L : LeafN0 I) (pid : Nat) : Pres I (isAlive pid) := by
  unfold isAlive; narrow
@[aesop safe apply (rule_sets := [Narrow])]
theorem objStop_narrow (L : LeafN0 I) (pid : Nat) : Pres I (objStop pid) := by
  unfold objStop; narrow
@[aesop safe apply (rule_sets := [Narrow])]
theorem activeProcs_narrow (L : LeafN0 I) (u : Nat) : Pres I (activeProcs u) := by
  unfold activeProcs; narrow
@[aesop safe apply (rule_sets := [Narrow])]
theorem usedWids_narrow (u : Nat) : Pres I (usedWids u) := fun _ h => h

/-! ### events, hooks, signals -/
@[aesop safe apply (rule_sets := [Narrow])]
theorem notify_hookF_narrow (L : LeafN I) (u : Nat) (p : Option Nat) (x : String) : Pres I (notify u "hook_failure" p x) := by
  unfold notify; narrow
@[aesop safe apply (rule_sets := [Narrow])]
theorem notify_hookS_narrow (L : LeafN I) (u : Nat) (p : Option Nat) (x : String) : Pres I (notify u "hook_success" p x) := by
  unfold notify; narrow
@[aesop safe apply (rule_sets := [Narrow])]
theorem notify_kill_narrow (L : LeafN I) (u : Nat) (p : Option Nat) (x : String) : Pres I (notify u "kill" p x) := by
  unfold notify; narrow
@[aesop safe apply (rule_sets := [Narrow])]
theorem callHook_narrow (L : LeafN I) (u : Nat) (h : String) : Pres I (callHook u h) := by
  unfold callHook; narrow
@[aesop safe apply (rule_sets := [Narrow])]
theorem sendSignal_narrow (L : LeafN I) (u p sg : Nat) : Pres I (sendSignal u p sg) := by
  unfold sendSignal; narrow
@[aesop safe apply (rule_sets := [Narrow])]
theorem sendSignalChild_narrow (L : LeafN I) (p c sg : Nat) : Pres I (sendSignalChild p c sg) := by
  unfold sendSignalChild; narrow
@[aesop safe apply (rule_sets := [Narrow])]
theorem signalKids_narrow (L : LeafN I) (u p sg : Nat) (cs : List Nat) : Pres I (signalKids u p sg cs) := by
  induction cs with
  | nil => unfold signalKids; narrow
  | cons c cs ih => unfold signalKids; aesop (add safe apply ih) (rule_sets := [Narrow]) (config := { terminal := true, useDefaultSimpSet := false, useSimpAll := false, maxRuleApplications := 3000 })
@[aesop safe apply (rule_sets := [Narrow])]
theorem sendSignalProcess_narrow (L : LeafN I) (u p sg : Nat) (r : Bool) : Pres I (sendSignalProcess u p sg r) := by
  unfold sendSignalProcess; narrow

/-! ### reaping -/
@[aesop safe apply (rule_sets := [Narrow])]
theorem notify_reap_narrow (L : LeafNR I) (u : Nat) (p : Option Nat) (x : String) : Pres I (notify u "reap" p x) := by
  have L1 := L.toLeafN
  unfold notify; narrow
@[aesop safe apply (rule_sets := [Narrow])]
theorem setBlocked_narrow (L : LeafNR I) : Pres I setBlocked := by
  have L1 := L.toLeafN
  unfold setBlocked; narrow
@[aesop safe apply (rule_sets := [Narrow])]
theorem reapWait_narrow (L : LeafNR I) (pid fuel : Nat) : Pres I (reapWait pid fuel) := by
  have L1 := L.toLeafN
  induction fuel with
  | zero => unfold reapWait; narrow
  | succ n ih => unfold reapWait; aesop (add safe apply ih) (rule_sets := [Narrow]) (config := { terminal := true, useDefaultSimpSet := false, useSimpAll := false, maxRuleApplications := 3000 })
@[aesop safe apply (rule_sets := [Narrow])]
theorem reapTail_narrow (L : LeafNR I) (u p : Nat) (st : Option Nat) : Pres I (reapTail u p st) := by
  have L1 := L.toLeafN
  unfold reapTail; narrow
@[aesop safe apply (rule_sets := [Narrow])]
theorem reapProcess_narrow (L : LeafNR I) (u p : Nat) (st : Option Nat) : Pres I (reapProcess u p st) := by
  have L1 := L.toLeafN
  unfold reapProcess; narrow
@[aesop safe apply (rule_sets := [Narrow])]
theorem reapProcesses_narrow (L : LeafNR I) (u : Nat) : Pres I (reapProcesses u) := by
  have L1 := L.toLeafN
  unfold reapProcesses; narrow

/-! ### the coroutine layer -/
@[aesop safe apply (rule_sets := [Narrow])]
theorem newFrame_narrow (L : LeafNC I) (k : Kont) (p : Waiter) : Pres I (newFrame k p) := by
  have L1 := L.toLeafN
  unfold newFrame; narrow
@[aesop safe apply (rule_sets := [Narrow])]
theorem addSleeper_narrow (L : LeafNC I) (ms : Nat) (w : Waiter) : Pres I (addSleeper ms w) := by
  have L1 := L.toLeafN
  unfold addSleeper; narrow
@[aesop safe apply (rule_sets := [Narrow])]
theorem awaitSleep_narrow (L : LeafNC I) (ms : Nat) (k : Kont) (p : Waiter) : Pres I (awaitSleep ms k p) := by
  have L1 := L.toLeafN
  unfold awaitSleep; narrow
@[aesop safe apply (rule_sets := [Narrow])]
theorem newTop_narrow (L : LeafNC I) (cbs : List TopCb) : Pres I (newTop cbs) := by
  have L1 := L.toLeafN
  unfold newTop; narrow
theorem deliverCbs_narrow (L : LeafNC I) (armed : Bool) (v : Val) (cbs : List TopCb) : Pres I (deliverCbs armed v cbs) := by
  have L1 := L.toLeafN
  have h : Pres I (runTopCb v TopCb.release) := by simp only [runTopCb]; exact L.setSlot _
  induction cbs with
  | nil => unfold deliverCbs; narrow
  | cons cb rest ih =>
    unfold deliverCbs
    aesop (add safe apply h, safe apply ih) (rule_sets := [Narrow])
      (config := { terminal := true, useDefaultSimpSet := false, useSimpAll := false, maxRuleApplications := 3000 })
@[aesop safe apply (rule_sets := [Narrow])]
theorem deliverTop_narrow (L : LeafNC I) (tid : Nat) (v : Val) : Pres I (deliverTop tid v) := by
  have L1 := L.toLeafN
  have h := deliverCbs_narrow L
  unfold deliverTop
  aesop (add safe apply h) (rule_sets := [Narrow]) (config := { terminal := true, useDefaultSimpSet := false, useSimpAll := false, maxRuleApplications := 3000 })
/-- handing a result to a top-level future, to a timer callback or to nobody starts no coroutine -/
theorem deliver_top_narrow (L : LeafNC I) (rec : Rec) (tid : Nat) (v : Val) : Pres I (deliver rec (.top tid) v) :=
  deliverTop_narrow L tid v
theorem deliver_narrow (L : LeafNC I) (rec : Rec) (hrec : ∀ t, Pres I (rec t)) (w : Waiter) (v : Val) :
    Pres I (deliver rec w v) := by
  have L1 := L.toLeafN
  unfold deliver; aesop (add safe apply hrec) (rule_sets := [Narrow]) (config := { terminal := true, useDefaultSimpSet := false, useSimpAll := false, maxRuleApplications := 3000 })
theorem await_narrow (L : LeafNC I) (rec : Rec) (hrec : ∀ t, Pres I (rec t)) (c : Call) (k : Kont) (p : Waiter) :
    Pres I (await rec c k p) := by
  have L1 := L.toLeafN
  unfold await; aesop (add safe apply hrec) (rule_sets := [Narrow]) (config := { terminal := true, useDefaultSimpSet := false, useSimpAll := false, maxRuleApplications := 3000 })

/-! `kill_process`: the only use of `rec` is handing the result to the waiter -/
theorem killFinish_narrow (L : LeafNC I) (rec : Rec) (wt : Waiter) (hd : ∀ v, Pres I (deliver rec wt v))
    (wuid pid : Nat) (esc : Bool) : Pres I (killFinish rec wuid pid esc wt) := by
  have L1 := L.toLeafN
  unfold killFinish; aesop (add safe apply hd) (rule_sets := [Narrow]) (config := { terminal := true, useDefaultSimpSet := false, useSimpAll := false, maxRuleApplications := 3000 })
theorem killLoop_narrow (L : LeafNC I) (rec : Rec) (wt : Waiter) (hd : ∀ v, Pres I (deliver rec wt v))
    (wuid pid sig i polls : Nat) : Pres I (killLoop rec wuid pid sig i polls wt) := by
  have L1 := L.toLeafN
  have h := killFinish_narrow L rec wt hd
  unfold killLoop; aesop (add safe apply h) (rule_sets := [Narrow]) (config := { terminal := true, useDefaultSimpSet := false, useSimpAll := false, maxRuleApplications := 3000 })
theorem killProcess_narrow (L : LeafNC I) (rec : Rec) (wt : Waiter) (hd : ∀ v, Pres I (deliver rec wt v))
    (wuid pid : Nat) (sig gt : Option Nat) : Pres I (killProcess rec wuid pid sig gt wt) := by
  have L1 := L.toLeafN
  have h := killLoop_narrow L rec wt hd
  unfold killProcess; aesop (add safe apply h, safe apply hd) (rule_sets := [Narrow]) (config := { terminal := true, useDefaultSimpSet := false, useSimpAll := false, maxRuleApplications := 3000 })
theorem arbStartAfterStart_narrow (L : LeafNC I) (rec : Rec) (rest : List Nat) (wt : Waiter) :
    Pres I (arbStartAfterStart rec rest wt) := by
  have L1 := L.toLeafN
  unfold arbStartAfterStart; narrow

/-- a detached kill (`spawn_process` after a vetoing `after_spawn` hook) runs to its first
    suspension without starting any other coroutine -/
theorem exec_kill_top_narrow (L : LeafNC I) (fuel wuid pid tid : Nat) (sig gt : Option Nat) :
    Pres I (exec fuel (.call (.killProcess wuid pid sig gt) (.top tid))) := by
  have L1 := L.toLeafN
  cases fuel with
  | zero => unfold exec; narrow
  | succ n =>
    have h := killProcess_narrow L (exec n) (.top tid) (deliver_top_narrow L (exec n) tid) wuid pid sig gt
    unfold exec
    simp only [runCall]
    aesop (add safe apply h) (rule_sets := [Narrow]) (config := { terminal := true, useDefaultSimpSet := false, useSimpAll := false, maxRuleApplications := 3000 })

/-! ### spawning -/
@[aesop safe apply (rule_sets := [Narrow])]
theorem notify_spawn_narrow (L : LeafNS I) (u : Nat) (p : Option Nat) (x : String) : Pres I (notify u "spawn" p x) := by
  have L2 := L.toLeafNC
  have L1 := L2.toLeafN
  unfold notify; narrow
theorem spawnTry_narrow (L : LeafNS I) (rec : Rec) (hrec : ∀ t, Pres I (rec t)) (wuid n : Nat) : Pres I (spawnTry rec wuid n) := by
  have L2 := L.toLeafNC
  have L1 := L2.toLeafN
  induction n with
  | zero => unfold spawnTry; narrow
  | succ n ih =>
    unfold spawnTry
    aesop (add safe apply ih, safe apply hrec) (rule_sets := [Narrow]) (config := { terminal := true, useDefaultSimpSet := false, useSimpAll := false, maxRuleApplications := 3000 })
theorem spawnProcess_narrow (L : LeafNS I) (rec : Rec) (hrec : ∀ t, Pres I (rec t)) (wuid : Nat) : Pres I (spawnProcess rec wuid) := by
  have L2 := L.toLeafNC
  have L1 := L2.toLeafN
  have h := spawnTry_narrow L rec hrec
  unfold spawnProcess; aesop (add safe apply h) (rule_sets := [Narrow]) (config := { terminal := true, useDefaultSimpSet := false, useSimpAll := false, maxRuleApplications := 3000 })
theorem spawnLoop_narrow (L : LeafNS I) (rec : Rec) (hrec : ∀ t, Pres I (rec t)) (wuid rem : Nat) (wt : Waiter) :
    Pres I (spawnLoop rec wuid rem wt) := by
  have L2 := L.toLeafNC
  have L1 := L2.toLeafN
  have h := spawnProcess_narrow L rec hrec
  have hd := deliver_narrow L2 rec hrec
  have ha := await_narrow L2 rec hrec
  unfold spawnLoop; aesop (add safe apply h, safe apply hd, safe apply ha) (rule_sets := [Narrow]) (config := { terminal := true, useDefaultSimpSet := false, useSimpAll := false, maxRuleApplications := 3000 })

end
end Circus.Core
