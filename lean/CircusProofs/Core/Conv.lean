import CircusProofs.Core.Calm
/-!
Symbolic execution of the periodic check and of the timer wakes it schedules, for one active
watcher in a still kernel (C01: convergence of the process count).  Part 1: the kernel.
-/
namespace Circus.Core

/-- a *still* kernel: nothing armed or pending, no process doomed, no zombie, every behaviour
    execs; pids below the counter.  Nothing dies by itself in a still kernel. -/
structure Kernel.Still (k : Kernel) : Prop where
  armed : k.armed = []
  faults : k.faults = []
  nodoom : ∀ p ∈ k.procs, p.doom = none
  noexecfail : ∀ b ∈ k.behavs, b.execFail = false
  nozombie : ∀ p ∈ k.procs, p.st ≠ .zombie
  lt : ∀ p ∈ k.procs, p.pid < k.nextPid

namespace Kernel.Still

theorem calm {k : Kernel} (h : k.Still) : k.Calm :=
  ⟨h.armed, fun p hp _ d st hd => by rw [h.nodoom p hp] at hd; cases hd⟩

theorem bump {k : Kernel} (h : k.Still) (n : Nat) : (k.bump n).Still :=
  ⟨h.armed, h.faults, h.nodoom, h.noexecfail, h.nozombie, h.lt⟩

theorem tick {k : Kernel} (h : k.Still) : k.tick = k.bump 1 := Kernel.tick_calm k h.calm

theorem beginStep {k : Kernel} (h : k.Still) : k.beginStep.Still :=
  ⟨h.faults, rfl, h.nodoom, h.noexecfail, h.nozombie, h.lt⟩

/-- the clock may jump: nothing is due -/
theorem setNow {k : Kernel} (h : k.Still) (t : Nat) : ({ k with now := t } : Kernel).resolve = { k with now := t } :=
  Kernel.resolve_calm _ (calm ⟨h.armed, h.faults, h.nodoom, h.noexecfail, h.nozombie, h.lt⟩)

theorem setNow_still {k : Kernel} (h : k.Still) (t : Nat) : ({ k with now := t } : Kernel).Still :=
  ⟨h.armed, h.faults, h.nodoom, h.noexecfail, h.nozombie, h.lt⟩

theorem behavAt_ok {k : Kernel} (h : k.Still) : k.behavAt.execFail = false := by
  unfold Kernel.behavAt
  rw [List.getD_eq_getElem?_getD]
  cases hg : k.behavs[k.attempt % (if k.behavs.length = 0 then 1 else k.behavs.length)]? with
  | none => rfl
  | some b => exact h.noexecfail b (List.mem_of_getElem? hg)

end Kernel.Still

/-- the process `Popen()` creates -/
def Kernel.newProc (k : Kernel) : KProc :=
  { pid := k.nextPid, ppid := some 0, st := .run, status := 0, doom := none, behav := (k.bump 1).behavAt }

/-- the kernel after a successful `Popen()` in a still kernel -/
def Kernel.spawned (k : Kernel) : Kernel :=
  { (k.bump 1) with
      attempt := k.attempt + 1,
      procs := k.procs ++ [k.newProc] ++ Kernel.mkKids k.nextPid (k.bump 1).behavAt (k.bump 1).behavAt.kids (k.nextPid + 1),
      nextPid := k.nextPid + 1 + (k.bump 1).behavAt.kids,
      now := k.now + (k.bump 1).behavAt.spawnMs }

theorem Kernel.spawn_still {k : Kernel} (h : k.Still) : k.spawn = (k.spawned, some k.nextPid) := by
  unfold Kernel.spawn
  simp only [h.tick]
  have hb : (k.bump 1).behavAt.execFail = false := (h.bump 1).behavAt_ok
  simp only [hb, Bool.false_eq_true, if_false]
  rfl

theorem Kernel.mkKids_props (parent : Nat) (b : Behav) (n p : Nat) :
    ∀ q ∈ Kernel.mkKids parent b n p, q.doom = none ∧ q.st = .run ∧ p ≤ q.pid ∧ q.pid < p + n ∧ q.ppid = some parent := by
  induction n generalizing p with
  | zero => intro q hq; cases hq
  | succ n ih =>
    intro q hq
    simp only [Kernel.mkKids, List.mem_cons] at hq
    rcases hq with rfl | hq
    · exact ⟨rfl, rfl, Nat.le_refl _, by simp, rfl⟩
    · obtain ⟨h1, h2, h3, h4, h5⟩ := ih (p + 1) q hq
      exact ⟨h1, h2, by omega, by omega, h5⟩

theorem Kernel.spawned_mem {k : Kernel} {q : KProc} (hq : q ∈ k.spawned.procs) :
    q ∈ k.procs ∨ q = k.newProc ∨
      q ∈ Kernel.mkKids k.nextPid (k.bump 1).behavAt (k.bump 1).behavAt.kids (k.nextPid + 1) := by
  simp only [Kernel.spawned, List.mem_append, List.mem_cons, List.mem_nil_iff, or_false] at hq
  rcases hq with (hq | hq) | hq
  · exact Or.inl hq
  · exact Or.inr (Or.inl hq)
  · exact Or.inr (Or.inr hq)

theorem Kernel.spawned_still {k : Kernel} (h : k.Still) : k.spawned.Still := by
  refine ⟨h.armed, h.faults, ?_, h.noexecfail, ?_, ?_⟩
  · intro q hq
    rcases Kernel.spawned_mem hq with hq | rfl | hq
    · exact h.nodoom q hq
    · rfl
    · exact (Kernel.mkKids_props _ _ _ _ q hq).1
  · intro q hq
    rcases Kernel.spawned_mem hq with hq | rfl | hq
    · exact h.nozombie q hq
    · simp [Kernel.newProc]
    · rw [(Kernel.mkKids_props _ _ _ _ q hq).2.1]; simp
  · intro q hq
    show q.pid < k.nextPid + 1 + (k.bump 1).behavAt.kids
    rcases Kernel.spawned_mem hq with hq | rfl | hq
    · have := h.lt q hq; omega
    · simp [Kernel.newProc]; omega
    · have := (Kernel.mkKids_props _ _ _ _ q hq).2.2.2.1; omega

/-- processes that were there are found as before -/
theorem Kernel.spawned_find_old {k : Kernel} {pid : Nat} {p : KProc} (hf : k.find pid = some p) :
    k.spawned.find pid = some p := by
  unfold Kernel.find at hf ⊢
  simp only [Kernel.spawned, List.append_assoc, List.find?_append, hf, Option.some_or]

/-- the new process is found, running, a child of the daemon -/
theorem Kernel.spawned_find_new {k : Kernel} (h : k.Still) : k.spawned.find k.nextPid = some k.newProc := by
  unfold Kernel.find
  have hn : k.procs.find? (fun p => decide (p.pid = k.nextPid)) = none := by
    apply List.find?_eq_none.mpr
    intro p hp
    have := h.lt p hp
    simp; omega
  simp only [Kernel.spawned, List.append_assoc, List.find?_append, hn, Option.none_or]
  simp [Kernel.newProc]

/-- `waitpid(-1)` in a still kernel collects nothing -/
theorem Kernel.waitpid_none_still {k : Kernel} (h : k.Still) :
    (k.waitpid none).1 = k.bump 1 ∧ ((k.waitpid none).2 = .none ∨ (k.waitpid none).2 = .echild) := by
  unfold Kernel.waitpid
  simp only [h.tick]
  have hz : (((k.bump 1).procs.filter fun p => p.ppid = some 0 && p.st ≠ .gone).filter (·.st = .zombie)) = [] := by
    apply List.filter_eq_nil_iff.mpr
    intro p hp
    have hp' : p ∈ k.procs := (List.mem_filter.mp hp).1
    simpa using h.nozombie p hp'
  generalize ((k.bump 1).procs.filter fun p => p.ppid = some 0 && p.st ≠ .gone) = kids at hz
  by_cases he : kids.isEmpty = true
  · rw [if_pos he]; exact ⟨rfl, Or.inr rfl⟩
  · rw [if_neg he, hz]
    exact ⟨rfl, Or.inl rfl⟩

end Circus.Core

namespace Circus.Core

/-! ## Part 2: one watcher -/

/-- the watcher the theorem is about: active, respawning, no hooks, no max_age, not on-demand,
    `numprocesses = N`, `max_retry ≠ 0` -/
structure WOk (u N : Nat) (w : Watcher) : Prop where
  uid : w.uid = u
  status : w.status = .active
  respawn : w.respawn = true
  maxAge : w.maxAge = 0
  onDemand : w.onDemand = false
  hooks : w.hooks = []
  np : w.np = (N : Int)
  retry : w.maxRetry ≠ 0

/-- the data part of the states on the way: one watcher object `w` (identity `u`) listing `m` running
    processes, a still kernel, the daemon not hung -/
def Dat (u N m : Nat) (s : State) : Prop :=
  ∃ w, s.ws = [w] ∧ WOk u N w ∧ w.pids.length = m ∧ s.blocked = false ∧ s.k.Still ∧
    ∀ pid ∈ w.pids, ∃ p, s.k.find pid = some p ∧ p.st = .run

/-- `Dat` with the list of pids spelled out -/
def DatL (u N : Nat) (l : List Nat) (s : State) : Prop :=
  ∃ w, s.ws = [w] ∧ WOk u N w ∧ w.pids = l ∧ s.blocked = false ∧ s.k.Still ∧
    ∀ pid ∈ l, ∃ p, s.k.find pid = some p ∧ p.st = .run

theorem DatL.dat {u N : Nat} {l : List Nat} {s : State} (h : DatL u N l s) : Dat u N l.length s := by
  obtain ⟨w, h1, h2, h3, h4, h5, h6⟩ := h
  exact ⟨w, h1, h2, by rw [h3], h4, h5, by rw [h3]; exact h6⟩

theorem Dat.datL {u N m : Nat} {s : State} (h : Dat u N m s) : ∃ l, l.length = m ∧ DatL u N l s := by
  obtain ⟨w, h1, h2, h3, h4, h5, h6⟩ := h
  exact ⟨w.pids, h3, w, h1, h2, rfl, h4, h5, h6⟩

theorem DatL.snoc_dat {u N m : Nat} {l : List Nat} {x : Nat} {s : State} (h : DatL u N (l ++ [x]) s) (hl : l.length = m) :
    Dat u N (m + 1) s := by
  have := h.dat
  simpa [hl] using this

/-- the control part is untouched -/
structure SameCtl (s t : State) : Prop where
  frames : t.frames = s.frames
  sleepers : t.sleepers = s.sleepers
  tops : t.tops = s.tops
  ready : t.ready = s.ready
  a : t.a = s.a
  nextId : t.nextId = s.nextId
  doneVals : t.doneVals = s.doneVals

theorem notify_log (u : Nat) (t : String) (p : Option Nat) (x : String) (s : State) :
    ∃ l, (notify u t p x s).2 = { s with log := l } := by
  unfold notify
  simp only [bind, getA, getW]
  by_cases hc : s.a.pubClosed = true
  · erw [if_pos hc]; exact ⟨s.log, rfl⟩
  · erw [if_neg hc]
    simp only [emitEv, modS]
    split
    · exact ⟨s.log, rfl⟩
    · exact ⟨_, rfl⟩

/-- the event a watcher named `wname` publishes (nothing once the PUB socket is closed) -/
def evs (a : Arbiter) (wname topic : String) (pid : Option Nat) (x : String) : List Obs :=
  if a.pubClosed then [] else [Obs.ev (resName wname) topic pid x]

theorem notify_single (u : Nat) (w : Watcher) (t : String) (p : Option Nat) (x : String) (s : State)
    (hws : s.ws = [w]) (hu : w.uid = u) (hb : s.blocked = false) :
    notify u t p x s = ((), { s with log := s.log ++ evs s.a w.name t p x }) := by
  unfold notify evs
  simp only [bind, getA]
  have hg : getW u s = (w, s) := by simp [getW, hws, hu]
  rw [hg]
  by_cases hc : s.a.pubClosed = true
  · erw [if_pos hc]; simp [hc, pure]
  · erw [if_neg hc]
    simp [emitEv, modS, hb, hc]

/-- a list without duplicates inside another one is not longer -/
theorem nodup_subset_length {l m : List Nat} (hn : l.Nodup) (hs : ∀ x ∈ l, x ∈ m) : l.length ≤ m.length := by
  induction l generalizing m with
  | nil => exact Nat.zero_le _
  | cons x xs ih =>
    have hx : x ∈ m := hs x (by simp)
    have hnd := List.nodup_cons.mp hn
    have hsub : ∀ y ∈ xs, y ∈ m.erase x := by
      intro y hy
      have hne : y ≠ x := fun h => hnd.1 (h ▸ hy)
      exact (List.mem_erase_of_ne hne).mpr (hs y (by simp [hy]))
    have := ih hnd.2 hsub
    rw [List.length_erase_of_mem hx] at this
    have hpos : 0 < m.length := List.length_pos_of_mem hx
    simp only [List.length_cons]
    omega

/-- `_nextwid` finds a free wid while fewer than `2·numprocesses` are in use -/
theorem nextWid_some (N : Nat) (used : List Nat) (h : used.length < 2 * N) :
    ∃ wid, nextWid (N : Int) used = some wid := by
  unfold nextWid
  simp only [Int.toNat_natCast]
  cases hf : ((List.range (2 * N)).map (· + 1)).find? (fun i => !used.contains i) with
  | some wid => exact ⟨wid, rfl⟩
  | none =>
    exfalso
    have hall := List.find?_eq_none.mp hf
    have hsub : ∀ x ∈ (List.range (2 * N)).map (· + 1), x ∈ used := by
      intro x hx
      have := hall x hx
      simpa using this
    have hnd : ((List.range (2 * N)).map (· + 1)).Nodup := by
      exact List.Pairwise.map _ (fun a b (h : a ≠ b) => by omega) List.nodup_range
    have := nodup_subset_length hnd hsub
    simp at this
    omega

theorem getW_single (u : Nat) (w : Watcher) (s : State) (hws : s.ws = [w]) (hu : w.uid = u) : getW u s = (w, s) := by
  simp [getW, hws, hu]

theorem callHook_nohook (u : Nat) (h : String) (w : Watcher) (s : State) (hws : s.ws = [w]) (hu : w.uid = u)
    (hh : w.hooks = []) : callHook u h s = (true, s) := by
  unfold callHook
  simp only [bind]
  rw [getW_single u w s hws hu]
  simp only [hh, List.lookup]
  rfl

/-- the state after `Popen()` + registration of the new process in the only watcher `w` -/
def adopted (wid : Nat) (w : Watcher) (s : State) : State :=
  { s with k := s.k.spawned,
           objs := s.objs ++ [{ pid := s.k.nextPid, wid := wid, started := s.k.now }],
           log := if s.blocked then s.log else s.log ++ [Obs.spawn s.k.nextPid w.name wid],
           ws := [{ w with pids := w.pids ++ [s.k.nextPid] }] }

theorem spawnAdopt_single (u wid : Nat) (w : Watcher) (s : State) (hws : s.ws = [w]) (hu : w.uid = u) (hk : s.k.Still) :
    spawnAdopt u wid s = (some s.k.nextPid, adopted wid w s) := by
  unfold spawnAdopt adopted
  simp only [Kernel.spawn_still hk, hws, List.find?_cons, hu, decide_true, Option.getD_some, List.map_cons, List.map_nil,
    if_true]

theorem adopted_datL (u N wid : Nat) (l : List Nat) (w : Watcher) (s : State) (hw : WOk u N w)
    (hl : w.pids = l) (hb : s.blocked = false) (hk : s.k.Still)
    (hrun : ∀ pid ∈ l, ∃ p, s.k.find pid = some p ∧ p.st = .run) : DatL u N (l ++ [s.k.nextPid]) (adopted wid w s) := by
  refine ⟨{ w with pids := w.pids ++ [s.k.nextPid] }, rfl, ⟨hw.uid, hw.status, hw.respawn, hw.maxAge, hw.onDemand,
    hw.hooks, hw.np, hw.retry⟩, by simp [hl], hb, Kernel.spawned_still hk, ?_⟩
  intro pid hp
  simp only [List.mem_append, List.mem_cons, List.mem_nil_iff, or_false] at hp
  rcases hp with hp | rfl
  · obtain ⟨p, hf, hr⟩ := hrun pid hp
    exact ⟨p, Kernel.spawned_find_old hf, hr⟩
  · exact ⟨s.k.newProc, Kernel.spawned_find_new hk, rfl⟩

theorem adopted_dat (u N m wid : Nat) (w : Watcher) (s : State) (hw : WOk u N w)
    (hlen : w.pids.length = m) (hb : s.blocked = false) (hk : s.k.Still)
    (hrun : ∀ pid ∈ w.pids, ∃ p, s.k.find pid = some p ∧ p.st = .run) : Dat u N (m + 1) (adopted wid w s) :=
  (adopted_datL u N wid w.pids w s hw rfl hb hk hrun).snoc_dat hlen

/-- **`spawn_process` in a still kernel**: one more listed running worker (the kernel's next pid), one
    `spawn` observation and its event; the control state is untouched -/
theorem spawnProcess_datL (rec : Rec) (u N : Nat) (l : List Nat) (s : State) (hd : DatL u N l s) (hm : l.length < N) :
    ∃ s', spawnProcess rec u s = (.started s.k.now, s') ∧ DatL u N (l ++ [s.k.nextPid]) s' ∧ SameCtl s s' ∧
      s.k.nextPid < s'.k.nextPid ∧
      ∀ w, s.ws = [w] → ∃ wid, s'.log = s.log ++ (Obs.spawn s.k.nextPid w.name wid :: evs s.a w.name "spawn" (some s.k.nextPid) "-") := by
  obtain ⟨w, hws, hw, hlen, hb, hk, hrun⟩ := hd
  have hg := getW_single u w s hws hw.uid
  obtain ⟨wid, hwid⟩ := nextWid_some N ((usedWids u s).1) (by
    simp only [usedWids, bind, hg, getS, pure, List.length_map]; rw [hlen]; omega)
  obtain ⟨t, ht⟩ : ∃ t, (if w.maxRetry < 0 then 100000 else w.maxRetry.toNat) = t + 1 := by
    by_cases h : w.maxRetry < 0
    · exact ⟨99999, by simp [h]⟩
    · have := hw.retry
      exact ⟨w.maxRetry.toNat - 1, by simp only [h, if_false]; omega⟩
  have hns : ¬ w.status = Status.stopped := by rw [hw.status]; decide
  have hdat := adopted_datL u N wid l w s hw hlen hb hk hrun
  have hl := notify_single u { w with pids := w.pids ++ [s.k.nextPid] } "spawn" (some s.k.nextPid) "-" (adopted wid w s) rfl hw.uid hb
  refine ⟨(notify u "spawn" (some s.k.nextPid) "-" (adopted wid w s)).2, ?_, ?_, ?_, ?_, ?_⟩
  · unfold spawnProcess
    simp only [bind]
    rw [hg]
    erw [if_neg hns]
    rw [callHook_nohook u "before_spawn" w s hws hw.uid hw.hooks]
    simp only [Bool.not_true, Bool.false_eq_true, if_false, ht]
    unfold spawnTry
    simp only [bind]
    rw [hg]
    have hu2 : (usedWids u s).2 = s := rfl
    simp only [hu2, hw.np, hwid]
    have hn : nowMs s = (s.k.now, s) := rfl
    rw [hn]
    simp only
    rw [spawnAdopt_single u wid w s hws hw.uid hk]
    simp only
    rw [callHook_nohook u "after_spawn" _ (adopted wid w s) rfl hw.uid hw.hooks]
    rfl
  · rw [hl]
    obtain ⟨w', h1, h2, h3, h4, h5, h6⟩ := hdat
    exact ⟨w', h1, h2, h3, h4, h5, h6⟩
  · rw [hl]
    exact ⟨rfl, rfl, rfl, rfl, rfl, rfl, rfl⟩
  · rw [hl]
    show s.k.nextPid < s.k.nextPid + 1 + (s.k.bump 1).behavAt.kids
    omega
  · intro w0 hw0
    have : w0 = w := by rw [hws] at hw0; simpa using hw0.symm
    subst this
    refine ⟨wid, ?_⟩
    rw [hl]
    simp [adopted, hb]

theorem spawnProcess_dat (rec : Rec) (u N m : Nat) (s : State) (hd : Dat u N m s) (hm : m < N) :
    ∃ s', spawnProcess rec u s = (.started s.k.now, s') ∧ Dat u N (m + 1) s' ∧ SameCtl s s' := by
  obtain ⟨l, hl, hdl⟩ := hd.datL
  obtain ⟨s', h1, h2, h3, _, _⟩ := spawnProcess_datL rec u N l s hdl (by omega)
  exact ⟨s', h1, h2.snoc_dat hl, h3⟩

/-- arming the frame just pushed touches no other frame when ids are fresh -/
theorem arm_fresh (fs : List Frame) (f : Frame) (h : ∀ g ∈ fs, g.fid ≠ f.fid) :
    (fs ++ [f]).map (fun (g : Frame) => if g.fid = f.fid then { g with armed := true } else g) =
      fs ++ [{ f with armed := true }] := by
  rw [List.map_append]
  congr 1
  · conv => rhs; rw [← List.map_id fs]
    apply List.map_congr_left
    intro g hg
    simp [h g hg]
  · simp

theorem awaitSleep_eq (ms : Nat) (k : Kont) (wt : Waiter) (s : State) :
    awaitSleep ms k wt s =
      ((), { s with
        frames := (s.frames ++ [({ fid := s.nextId, k := k, parent := wt } : Frame)]).map
                    (fun (g : Frame) => if g.fid = s.nextId then { g with armed := true } else g),
        sleepers := s.sleepers ++ [{ sid := s.nextId + 1, deadline := s.k.now + ms, waiter := .frame s.nextId 0 }],
        nextId := s.nextId + 2 }) := rfl

/-- **one round of `spawn_processes`**: one more running worker, one parked (armed) frame holding the
    rest of the loop, one timer that wakes it; nothing else of the control state moves -/
theorem spawnLoop_datL (rec : Rec) (u N r : Nat) (l : List Nat) (wt : Waiter) (s : State) (hd : DatL u N l s)
    (hm : l.length < N) (hfresh : ∀ g ∈ s.frames, g.fid ≠ s.nextId) :
    ∃ s' dl, spawnLoop rec u (r + 1) wt s = ((), s') ∧ DatL u N (l ++ [s.k.nextPid]) s' ∧
      s'.frames = s.frames ++ [{ fid := s.nextId, k := .spawnLoop u r, parent := wt, armed := true }] ∧
      s'.sleepers = s.sleepers ++ [{ sid := s.nextId + 1, deadline := dl, waiter := .frame s.nextId 0 }] ∧
      s'.nextId = s.nextId + 2 ∧ s'.tops = s.tops ∧ s'.ready = s.ready ∧ s'.a = s.a ∧ s'.doneVals = s.doneVals ∧
      s.k.nextPid < s'.k.nextPid ∧
      ∀ w, s.ws = [w] → ∃ wid, s'.log = s.log ++ (Obs.spawn s.k.nextPid w.name wid :: evs s.a w.name "spawn" (some s.k.nextPid) "-") := by
  obtain ⟨s1, hsp, hd1, hc, hnp, hlog⟩ := spawnProcess_datL rec u N l s hd hm
  obtain ⟨w1, hws1, hw1, hlen1, hb1, hk1, hrun1⟩ := hd1
  have hsl : spawnLoop rec u (r + 1) wt s =
      awaitSleep ((getW u s1).1.warmup - (s1.k.now - s.k.now)) (.spawnLoop u r) wt s1 := by
    unfold spawnLoop
    simp only [bind]
    rw [hsp]
    rfl
  rw [hsl, awaitSleep_eq]
  refine ⟨_, s1.k.now + ((getW u s1).1.warmup - (s1.k.now - s.k.now)), rfl, ?_, ?_, ?_, ?_, ?_, ?_, ?_, ?_, hnp, hlog⟩
  · exact ⟨w1, hws1, hw1, hlen1, hb1, hk1, hrun1⟩
  · simp only [hc.frames, hc.nextId]
    exact arm_fresh s.frames { fid := s.nextId, k := .spawnLoop u r, parent := wt } hfresh
  · simp only [hc.sleepers, hc.nextId]
  · simp only [hc.nextId]
  · exact hc.tops
  · exact hc.ready
  · exact hc.a
  · exact hc.doneVals

theorem spawnLoop_dat (rec : Rec) (u N m r : Nat) (wt : Waiter) (s : State) (hd : Dat u N m s) (hm : m < N)
    (hfresh : ∀ g ∈ s.frames, g.fid ≠ s.nextId) :
    ∃ s' dl, spawnLoop rec u (r + 1) wt s = ((), s') ∧ Dat u N (m + 1) s' ∧
      s'.frames = s.frames ++ [{ fid := s.nextId, k := .spawnLoop u r, parent := wt, armed := true }] ∧
      s'.sleepers = s.sleepers ++ [{ sid := s.nextId + 1, deadline := dl, waiter := .frame s.nextId 0 }] ∧
      s'.nextId = s.nextId + 2 ∧ s'.tops = s.tops ∧ s'.ready = s.ready ∧ s'.a = s.a ∧ s'.doneVals = s.doneVals := by
  obtain ⟨l, hl, hdl⟩ := hd.datL
  obtain ⟨s', dl, h1, h2, h3, h4, h5, h6, h7, h8, h9, _, _⟩ := spawnLoop_datL rec u N r l wt s hdl (by omega) hfresh
  exact ⟨s', dl, h1, h2.snoc_dat hl, h3, h4, h5, h6, h7, h8, h9⟩

/-! ## Part 3: the check, the timers -/

theorem awaitMulti_single (rec : Rec) (c : Call) (k : Kont) (wt : Waiter) (s : State) :
    awaitMulti rec [c] k wt s =
      armFrame s.nextId (armFrame (s.nextId + 1)
        (rec (.call c (.frame (s.nextId + 1) 0))
          { s with frames := s.frames ++ [{ fid := s.nextId, k := k, parent := wt },
                                          { fid := s.nextId + 1, k := .multi 1 [], parent := .frame s.nextId 0 }],
                   nextId := s.nextId + 2 }).2).2 := by
  unfold awaitMulti
  simp [bind, newFrame, freshId, pushFrame, modS, pure]
  erw [List.forIn_cons]
  simp only [bind, List.forIn_nil, pure]
  rfl

theorem forIn_state_id {α β : Type} (l : List α) (init : β) (f : α → β → M (ForInStep β))
    (hf : ∀ a b s, (f a b s).2 = s) (s : State) : ((forIn l init f : M β) s).2 = s := by
  induction l generalizing init s with
  | nil => rfl
  | cons a rest ih =>
    rw [List.forIn_cons]
    simp only [bind]
    have h := hf a init s
    cases hfa : f a init s with
    | mk r s1 =>
      rw [hfa] at h
      simp only at h
      subst h
      cases r with
      | done b => rfl
      | yield b => exact ih b s1

theorem arbReapLoop_still (pm : List (Nat × Nat)) (fuel : Nat) (s : State) (hb : s.blocked = false) (hk : s.k.Still) :
    arbReapLoop pm (fuel + 1) s = ((), { s with k := s.k.bump 1 }) := by
  unfold arbReapLoop
  simp only [bind, getS]
  erw [if_neg (by simp [hb])]
  obtain ⟨h1, h2⟩ := Kernel.waitpid_none_still hk
  have hw : kWaitpid none s = ((s.k.waitpid none).2, { s with k := s.k.bump 1 }) := by
    unfold kWaitpid
    simp only [bind, runK, h1]
    rcases h2 with h2 | h2 <;> rw [h2] <;> rfl
  rw [hw]
  rcases h2 with h2 | h2 <;> rw [h2] <;> rfl

theorem arbReapProcesses_still (s : State) (hb : s.blocked = false) (hk : s.k.Still) :
    arbReapProcesses s = ((), { s with k := s.k.bump 1 }) := by
  unfold arbReapProcesses
  simp only [bind]
  have hreg : (registered s).2 = s := rfl
  rw [hreg]
  generalize hpm : (forIn (sortWatchers (registered s).fst true) [] _ : M (List (Nat × Nat))) s = r
  have h2 : r.2 = s := by
    rw [← hpm]
    apply forIn_state_id
    intro w b t
    by_cases hc : w.status ≠ Status.stopped
    · erw [if_pos hc]
      exact forIn_state_id _ _ _ (fun _ _ _ => rfl) t
    · erw [if_neg hc]
      rfl
  obtain ⟨pm, s1⟩ := r
  simp only at h2
  subst h2
  exact arbReapLoop_still pm _ _ hb hk


theorem exec_call (n : Nat) (c : Call) (w : Waiter) (s : State) (hb : s.blocked = false) :
    exec (n + 1) (.call c w) s = runCall (exec n) c w s := by
  unfold exec
  simp only [bind, getS]
  erw [if_neg (by simp [hb])]

theorem Dat.of_kernel {u N m : Nat} {s t : State} (h : Dat u N m s) (hk : t.k.Still) (hp : t.k.procs = s.k.procs)
    (hws : t.ws = s.ws) (hb : t.blocked = s.blocked) : Dat u N m t := by
  obtain ⟨w, h1, h2, h3, h4, _, h6⟩ := h
  refine ⟨w, by rw [hws, h1], h2, h3, by rw [hb, h4], hk, ?_⟩
  intro pid hpid
  obtain ⟨p, hf, hr⟩ := h6 pid hpid
  exact ⟨p, by unfold Kernel.find at hf ⊢; rw [hp]; exact hf, hr⟩

theorem DatL.of_kernel {u N : Nat} {l : List Nat} {s t : State} (h : DatL u N l s) (hk : t.k.Still)
    (hp : t.k.procs = s.k.procs) (hws : t.ws = s.ws) (hb : t.blocked = s.blocked) : DatL u N l t := by
  obtain ⟨w, h1, h2, h3, h4, _, h6⟩ := h
  refine ⟨w, by rw [hws, h1], h2, h3, by rw [hb, h4], hk, ?_⟩
  intro pid hpid
  obtain ⟨p, hf, hr⟩ := h6 pid hpid
  exact ⟨p, by unfold Kernel.find at hf ⊢; rw [hp]; exact hf, hr⟩

/-- the first loop of `manage_processes` when every listed worker runs: two status reads each -/
theorem manageLoop_still (u : Nat) (l : List Nat) (s : State) (hk : s.k.Still)
    (hrun : ∀ pid ∈ l, ∃ p, s.k.find pid = some p ∧ p.st = .run) :
    (forIn l PUnit.unit (fun pid (_ : PUnit) => (do
          let st ← procStatus pid
          if isDead st then do
            reapProcess u pid none
            pure (ForInStep.yield PUnit.unit)
          else pure (ForInStep.yield PUnit.unit) : M (ForInStep PUnit))) : M PUnit) s
      = (PUnit.unit, s.bump (2 * l.length)) := by
  apply forIn_bump l 2 _ (fun t => t.k.Calm ∧ ∀ pid ∈ l, ∃ p, t.k.find pid = some p ∧ p.st = .run)
  · intro t n ht; exact ⟨Kernel.bump_calm _ n ht.1, ht.2⟩
  · intro pid hpid t ht
    obtain ⟨p, hf, hr⟩ := ht.2 pid hpid
    have hp := procStatus_running t pid p ht.1 hf hr
    simp only [bind, isDead, pure]
    generalize procStatus pid t = ps at hp
    subst hp
    simp
  · exact ⟨hk.calm, hrun⟩

theorem spawnProcesses_loop (rec : Rec) (u N m : Nat) (w : Watcher) (wt : Waiter) (s : State) (hws : s.ws = [w])
    (hw : WOk u N w) (hlen : w.pids.length = m) (hm : m < N) :
    spawnProcesses rec u wt s = spawnLoop rec u (N - m - 1 + 1) wt s := by
  have hg := getW_single u w s hws hw.uid
  have hpe : pendingSocketEvent u s = (false, s) := by
    simp only [pendingSocketEvent, bind, hg, getA, pure, hw.onDemand, Bool.false_and]
  unfold spawnProcesses
  simp only [bind]
  rw [hpe]
  erw [if_neg (by simp)]
  rw [hg]
  have hnn : ¬ (w.np - (w.pids.length : Int) ≤ 0) := by rw [hw.np, hlen]; omega
  have htn : (w.np - (w.pids.length : Int)).toNat = (N - m - 1) + 1 := by rw [hw.np, hlen]; omega
  erw [if_neg hnn]
  rw [htn]

/-- **`manage_processes` with workers missing**: its continuation is parked (armed) behind
    `spawn_processes`, which spawns the first missing worker and parks on its timer -/
theorem manageProcesses_datL (n u N : Nat) (l : List Nat) (wt : Waiter) (s : State) (hd : DatL u N l s) (hm : l.length < N)
    (hfresh : ∀ g ∈ s.frames, g.fid < s.nextId) :
    ∃ s' dl, manageProcesses (exec (n + 1)) u wt s = ((), s') ∧ DatL u N (l ++ [s.k.nextPid]) s' ∧
      s'.frames = s.frames ++ [
        { fid := s.nextId, k := .manageTail u, parent := wt, armed := true },
        { fid := s.nextId + 1, k := .spawnLoop u (N - l.length - 1), parent := .frame s.nextId 0, armed := true }] ∧
      s'.sleepers = s.sleepers ++ [{ sid := s.nextId + 2, deadline := dl, waiter := .frame (s.nextId + 1) 0 }] ∧
      s'.nextId = s.nextId + 3 ∧ s'.tops = s.tops ∧ s'.ready = s.ready ∧ s'.a = s.a ∧ s'.doneVals = s.doneVals ∧
      s.k.nextPid < s'.k.nextPid ∧
      ∀ w, s.ws = [w] → ∃ wid, s'.log = s.log ++ (Obs.spawn s.k.nextPid w.name wid :: evs s.a w.name "spawn" (some s.k.nextPid) "-") := by
  obtain ⟨w, hws, hw, hlen, hb, hk, hrun⟩ := hd
  have hd' : DatL u N l s := ⟨w, hws, hw, hlen, hb, hk, hrun⟩
  have hrun' : ∀ pid ∈ w.pids, ∃ p, s.k.find pid = some p ∧ p.st = .run := by rw [hlen]; exact hrun
  have hlen' : w.pids.length = l.length := by rw [hlen]
  -- after the status loop
  let s1 := s.bump (2 * w.pids.length)
  have hd1 : DatL u N l s1 := hd'.of_kernel (hk.bump _) rfl rfl rfl
  -- the frame of `manage_processes`' continuation
  let s2 : State := { s1 with frames := s1.frames ++ [{ fid := s.nextId, k := .manageTail u, parent := wt }],
                              nextId := s.nextId + 1 }
  have hd2 : DatL u N l s2 := hd1.of_kernel (hk.bump _) rfl rfl rfl
  have hfresh2 : ∀ g ∈ s2.frames, g.fid ≠ s2.nextId := by
    intro g hg
    simp only [s2, s1, State.bump, List.mem_append, List.mem_cons, List.mem_nil_iff, or_false] at hg
    show g.fid ≠ s.nextId + 1
    rcases hg with hg | rfl
    · have := hfresh g hg; omega
    · simp
  obtain ⟨s3, dl, hloop, hd3, hf3, hsl3, hn3, ht3, hr3, ha3, hdv3, hnp3, hlog3⟩ :=
    spawnLoop_datL (exec n) u N (N - l.length - 1) l (.frame s.nextId 0) s2 hd2 hm hfresh2
  refine ⟨(armFrame s.nextId s3).2, dl, ?_, ?_, ?_, ?_, ?_, ?_, ?_, ?_, ?_, ?_, ?_⟩
  · unfold manageProcesses
    simp only [bind]
    rw [getW_single u w s hws hw.uid]
    have hns : ¬ w.status = Status.stopped := by rw [hw.status]; decide
    erw [if_neg hns]
    have hl := manageLoop_still u w.pids s hk hrun'
    simp only [bind] at hl
    erw [hl]
    have hage : ¬ (w.maxAge > 0) := by rw [hw.maxAge]; decide
    erw [if_neg hage]
    -- manage_after_expire
    unfold manageAfterExpire
    simp only [bind]
    rw [getW_single u w s1 hws hw.uid]
    have hlt : (decide ((w.pids.length : Int) < w.np) && decide (w.status ≠ Status.stopping)) = true := by
      rw [hw.np, hw.status, hlen']
      simp
      omega
    simp only [hlt, if_true, hw.respawn]
    -- await spawn_processes
    show armFrame s1.nextId (exec (n + 1) (.call (.spawnProcesses u) (.frame s1.nextId 0)) s2).2 = _
    rw [exec_call n _ _ s2 hb]
    simp only [runCall]
    rw [spawnProcesses_loop (exec n) u N l.length w _ s2 hws hw hlen' hm]
    show armFrame s.nextId (spawnLoop (exec n) u (N - l.length - 1 + 1) (.frame s.nextId 0) s2).2 = _
    rw [hloop]
  · obtain ⟨w3, a1, a2, a3, a4, a5, a6⟩ := hd3
    exact ⟨w3, a1, a2, a3, a4, a5, a6⟩
  · show s3.frames.map (fun (g : Frame) => if g.fid = s.nextId then { g with armed := true } else g) = _
    rw [hf3]
    simp only [s2, s1, State.bump, List.map_append, List.map_cons, List.map_nil, if_true]
    have hid : s.frames.map (fun (g : Frame) => if g.fid = s.nextId then { g with armed := true } else g) = s.frames := by
      conv => rhs; rw [← List.map_id s.frames]
      apply List.map_congr_left
      intro g hg
      have := hfresh g hg
      simp; omega
    rw [hid]
    simp
  · show s3.sleepers = _
    rw [hsl3]; rfl
  · show s3.nextId = _
    rw [hn3]
  · show s3.tops = _; rw [ht3]; rfl
  · show s3.ready = _; rw [hr3]; rfl
  · show s3.a = _; rw [ha3]; rfl
  · show s3.doneVals = _; rw [hdv3]; rfl
  · exact hnp3
  · intro w0 hw0
    exact hlog3 w0 hw0

theorem manageProcesses_dat (n u N m : Nat) (wt : Waiter) (s : State) (hd : Dat u N m s) (hm : m < N)
    (hfresh : ∀ g ∈ s.frames, g.fid < s.nextId) :
    ∃ s' dl, manageProcesses (exec (n + 1)) u wt s = ((), s') ∧ Dat u N (m + 1) s' ∧
      s'.frames = s.frames ++ [
        { fid := s.nextId, k := .manageTail u, parent := wt, armed := true },
        { fid := s.nextId + 1, k := .spawnLoop u (N - m - 1), parent := .frame s.nextId 0, armed := true }] ∧
      s'.sleepers = s.sleepers ++ [{ sid := s.nextId + 2, deadline := dl, waiter := .frame (s.nextId + 1) 0 }] ∧
      s'.nextId = s.nextId + 3 ∧ s'.tops = s.tops ∧ s'.ready = s.ready ∧ s'.a = s.a ∧ s'.doneVals = s.doneVals := by
  obtain ⟨l, hl, hdl⟩ := hd.datL
  obtain ⟨s', dl, h1, h2, h3, h4, h5, h6, h7, h8, h9, _, _⟩ := manageProcesses_datL n u N l wt s hdl (by omega) hfresh
  exact ⟨s', dl, h1, h2.snoc_dat hl, by rw [h3, hl], h4, h5, h6, h7, h8, h9⟩


theorem iterWatchers_single (r : Bool) (u : Nat) (w : Watcher) (s : State) (hws : s.ws = [w]) (hu : w.uid = u)
    (hwat : s.a.watchers = [u]) : iterWatchers r s = ([u], s) := by
  cases r <;> simp [iterWatchers, registered, bind, getS, pure, hws, hwat, hu, sortWatchers, insertBy]

theorem manageWatchers_eq (rec : Rec) (u N : Nat) (w : Watcher) (wt : Waiter) (s : State) (hws : s.ws = [w])
    (hw : WOk u N w) (hb : s.blocked = false) (hk : s.k.Still) (hstp : s.a.stopping = false)
    (hwat : s.a.watchers = [u]) :
    manageWatchers rec wt s =
      awaitMulti rec [.manageProcesses u] (.manageWatchersTail false) wt { s with k := s.k.bump 1 } := by
  unfold manageWatchers
  simp only [bind, getA]
  erw [if_neg (by simp [hstp])]
  rw [arbReapProcesses_still s hb hk]
  simp only
  rw [iterWatchers_single true u w { s with k := s.k.bump 1 } hws hw.uid hwat]
  simp [getS, hws, hw.uid, hw.onDemand]

/-- `manage_watchers` for one registered watcher, whatever `Arbiter.reap_processes` did (`s1`) -/
theorem manageWatchers_eq_gen (rec : Rec) (u : Nat) (w1 : Watcher) (wt : Waiter) (s s1 : State)
    (hstp : s.a.stopping = false) (hreap : arbReapProcesses s = ((), s1)) (hws1 : s1.ws = [w1]) (hu : w1.uid = u)
    (hod : w1.onDemand = false) (hwat : s1.a.watchers = [u]) :
    manageWatchers rec wt s = awaitMulti rec [.manageProcesses u] (.manageWatchersTail false) wt s1 := by
  unfold manageWatchers
  simp only [bind, getA]
  erw [if_neg (by simp [hstp])]
  rw [hreap]
  simp only
  rw [iterWatchers_single true u w1 s1 hws1 hu hwat]
  simp [getS, hws1, hu, hod]

theorem stepM_eq (op : Op) (s : State) (hb : s.blocked = false) :
    stepM op s = stepTail (stepOp op (updK Kernel.beginStep s).2).2 := by
  unfold stepM
  simp only [bind, getS]
  erw [if_neg (by simp [hb])]

theorem settle_nil (n : Nat) (s : State) (hr : s.ready = []) : settle (n + 1) s = ((), s) := by
  unfold settle
  simp only [bind, getS]
  by_cases hb : s.blocked = true
  · erw [if_pos hb]; rfl
  · erw [if_neg hb]
    erw [if_pos (by simp [hr])]
    rfl

theorem settle_cons (n : Nat) (s : State) (x : Ready) (rest : List Ready) (hb : s.blocked = false)
    (hr : s.ready = x :: rest) :
    settle (n + 1) s = settle n (runReady1 (exec 100000) x { s with ready := rest }).2 := by
  conv => lhs; unfold settle
  simp only [bind, getS]
  erw [if_neg (by simp [hb])]
  erw [if_neg (by simp [hr])]
  unfold settleStep
  simp only [bind, getS, hr]
  have : (dequeue s).2 = { s with ready := rest } := by simp [dequeue, modS, hr]
  rw [this]

theorem exec_resume (n : Nat) (k : Kont) (v : Val) (w : Waiter) (s : State) (hb : s.blocked = false) :
    exec (n + 1) (.resume k v w) s = runResume (exec n) k v w s := by
  unfold exec
  simp only [bind, getS]
  erw [if_neg (by simp [hb])]

theorem stepTail_eq (s : State) (hl : (settle 100000 s).2.a.loopStop = false) :
    stepTail s = ((), (settle 100000 s).2) := by
  unfold stepTail
  simp only [bind, getA]
  erw [if_neg (by simp [hl])]
  rfl

/-- the check is parked in its `spawn_processes` loop: the four frames of
    `manage_watchers → gen.multi → manage_processes → spawn_processes`, one timer for the innermost,
    the future of the check with its two callbacks, the slot taken -/
structure Parked (u i j r : Nat) (s : State) : Prop where
  frames : s.frames = [
    { fid := i + 1, k := .manageWatchersTail false, parent := .top i, armed := true },
    { fid := i + 2, k := .multi 1 [], parent := .frame (i + 1) 0, armed := true },
    { fid := i + 3, k := .manageTail u, parent := .frame (i + 2) 0, armed := true },
    { fid := j, k := .spawnLoop u r, parent := .frame (i + 3) 0, armed := true }]
  sleepers : ∃ dl, s.sleepers = [{ sid := j + 1, deadline := dl, waiter := .frame j 0 }]
  tops : s.tops = [{ tid := i, cbs := [.release, .watch], armed := true }]
  ready : s.ready = []
  nextId : s.nextId = j + 2
  hj : i + 4 ≤ j
  slot : s.a.slot = some "manage_watchers"
  loopStop : s.a.loopStop = false
  stopping : s.a.stopping = false
  restarting : s.a.restarting = false
  watchers : s.a.watchers = [u]

/-- nothing is in flight -/
structure Idle (u : Nat) (s : State) : Prop where
  frames : s.frames = []
  sleepers : s.sleepers = []
  tops : s.tops = []
  ready : s.ready = []
  slot : s.a.slot = none
  loopStop : s.a.loopStop = false
  stopping : s.a.stopping = false
  restarting : s.a.restarting = false
  watchers : s.a.watchers = [u]


theorem syncCoroutine_free (name : String) (c : Call) (s : State) (hr : s.a.restarting = false) (hs : s.a.slot = none) :
    syncCoroutine name c [] s = (.ok s.nextId,
      (armTop s.nextId (exec fuelDefault (.call c (.top s.nextId))
        { s with a := { s.a with slot := some name },
                 tops := s.tops ++ [{ tid := s.nextId, cbs := [.release] }],
                 nextId := s.nextId + 1 }).2).2) := by
  unfold syncCoroutine
  simp only [bind, getA]
  erw [if_neg (by simp [hr])]
  erw [if_neg (by simp [hs])]
  rfl

theorem exec_call_mk (n : Nat) (c : Call) (w : Waiter) (k : Kernel) (a : Arbiter) (objs : List PObj)
    (ws : List Watcher) (frames : List Frame) (sleepers : List Sleeper) (tops : List TopFut) (rd : List Ready)
    (dv : List (Nat × Val)) (nid : Nat) (log : List Obs) :
    exec (n + 1) (.call c w) ⟨k, a, objs, ws, frames, sleepers, tops, rd, dv, nid, log, false⟩ =
      runCall (exec n) c w ⟨k, a, objs, ws, frames, sleepers, tops, rd, dv, nid, log, false⟩ :=
  exec_call n c w _ rfl

/-- the state in which the body of `manage_watchers` starts when the check finds the daemon idle: the slot
    taken, the future of the check created -/
def checkEntry (s : State) : State :=
  { s with k := s.k.beginStep, a := { s.a with slot := some "manage_watchers" },
           tops := [{ tid := s.nextId, cbs := [.release] }], doneVals := [], nextId := s.nextId + 1 }

/-- **the periodic check with workers missing, after whatever `Arbiter.reap_processes` did** (it may change the
    kernel, the `Process` objects, the watcher and the log: `K O w1 L1`): `manage_processes` looks at every
    worker, spawns the first missing one and parks: `manage_watchers → gen.multi → manage_processes →
    spawn_processes`, one timer, the slot taken -/
theorem check_parks_gen (u N : Nat) (l : List Nat) (s : State) (hi : Idle u s) (hb : s.blocked = false)
    (K : Kernel) (O : List PObj) (w1 : Watcher) (L1 : List Obs)
    (hreap : arbReapProcesses (checkEntry s) = ((), { checkEntry s with k := K, objs := O, ws := [w1], log := L1 }))
    (hd : DatL u N l { checkEntry s with k := K, objs := O, ws := [w1], log := L1 }) (hm : l.length < N) :
    Parked u s.nextId (s.nextId + 4) (N - l.length - 1) (step s .check) ∧
    DatL u N (l ++ [K.nextPid]) (step s .check) ∧ K.nextPid < (step s .check).k.nextPid ∧
    ∃ wid, (step s .check).log = L1 ++ (Obs.spawn K.nextPid w1.name wid :: evs s.a w1.name "spawn" (some K.nextPid) "-") := by
  obtain ⟨hfr, hsl, htops, hrd, hslot, hls, hstp, hrst, hwat⟩ := hi
  obtain ⟨k, a, objs, ws, frames, sleepers, tops, ready, dv, i, log, blocked⟩ := s
  simp only at hb hfr hsl htops hrd hslot hls hstp hrst hwat
  subst hb hfr hsl htops hrd
  simp only [checkEntry] at hreap hd
  have hw : WOk u N w1 := by obtain ⟨w, h1, h2, _⟩ := hd; simp only [List.cons.injEq, and_true] at h1; exact h1 ▸ h2
  -- the state in which `manage_processes` of the watcher starts
  let S3 : State := ⟨K, { a with slot := some "manage_watchers" }, O, [w1],
    [{ fid := i + 1, k := .manageWatchersTail false, parent := .top i },
     { fid := i + 2, k := .multi 1 [], parent := .frame (i + 1) 0 }], [],
    [{ tid := i, cbs := [.release] }], [], [], i + 3, L1, false⟩
  have hd3 : DatL u N l S3 := hd.of_kernel (by obtain ⟨_, _, _, _, _, h, _⟩ := hd; exact h) rfl rfl rfl
  have hfresh3 : ∀ g ∈ S3.frames, g.fid < S3.nextId := by
    intro g hg
    simp only [S3, List.mem_cons, List.mem_nil_iff, or_false] at hg
    show g.fid < i + 3
    rcases hg with rfl | rfl <;> simp
  obtain ⟨s', dl, hmp, hd', hf', hsl', hn', ht', hr', ha', hdv', hnp', hlog'⟩ :=
    manageProcesses_datL 99997 u N l (.frame (i + 2) 0) S3 hd3 hm hfresh3
  obtain ⟨wid, hlogw⟩ := hlog' w1 rfl
  have hop : stepOp .check (updK Kernel.beginStep (⟨k, a, objs, ws, [], [], [], [], dv, i, log, false⟩ : State)).2 =
      ((), (topAddCb i .watch (armTop i (armFrame (i + 1) (armFrame (i + 2) s').2).2).2).2) := by
    simp only [stepOp, bind, clearDone, modS, updK, runK]
    rw [syncCoroutine_free _ _ _ hrst hslot]
    simp only [fuelDefault]
    have e1 : (100000 : Nat) = 99999 + 1 := rfl
    have e2 : (99999 : Nat) = 99998 + 1 := rfl
    rw [e1, exec_call_mk]
    simp only [runCall, List.nil_append]
    rw [manageWatchers_eq_gen (exec 99999) u w1 _ _ _ hstp hreap rfl hw.uid hw.onDemand hwat, awaitMulti_single]
    simp only [List.nil_append]
    rw [e2, exec_call_mk]
    simp only [runCall]
    show addDoneCallback i .watch (armTop i (armFrame (i + 1) (armFrame (i + 2)
      (manageProcesses (exec (99997 + 1)) u (.frame (i + 2) 0) S3).2).2).2).2 = _
    rw [hmp]
    unfold addDoneCallback
    simp only [bind, getS]
    have hcond : ((armTop i (armFrame (i + 1) (armFrame (i + 2) s').2).2).2.tops.find? (fun t => decide (t.tid = i))).isSome = true := by
      simp [armTop, armFrame, modS, ht', S3]
    erw [if_pos hcond]
  -- the loop has nothing to run
  have hF : ∀ F : State, F = (topAddCb i .watch (armTop i (armFrame (i + 1) (armFrame (i + 2) s').2).2).2).2 →
      F.frames = [
        { fid := i + 1, k := .manageWatchersTail false, parent := .top i, armed := true },
        { fid := i + 2, k := .multi 1 [], parent := .frame (i + 1) 0, armed := true },
        { fid := i + 3, k := .manageTail u, parent := .frame (i + 2) 0, armed := true },
        { fid := i + 4, k := .spawnLoop u (N - l.length - 1), parent := .frame (i + 3) 0, armed := true }] ∧
      F.sleepers = [{ sid := i + 5, deadline := dl, waiter := .frame (i + 4) 0 }] ∧
      F.tops = [{ tid := i, cbs := [.release, .watch], armed := true }] ∧ F.ready = [] ∧ F.nextId = i + 6 ∧
      F.a = { a with slot := some "manage_watchers" } ∧ DatL u N (l ++ [K.nextPid]) F ∧ F.k = s'.k ∧ F.log = s'.log := by
    intro F hF
    subst hF
    refine ⟨?_, ?_, ?_, ?_, ?_, ?_, ?_, rfl, rfl⟩
    · simp [topAddCb, armTop, armFrame, modS, hf', S3]
    · simp [topAddCb, armTop, armFrame, modS, hsl', S3]
    · simp [topAddCb, armTop, armFrame, modS, ht', S3]
    · simp [topAddCb, armTop, armFrame, modS, hr', S3]
    · simp [topAddCb, armTop, armFrame, modS, hn', S3]
    · simp [topAddCb, armTop, armFrame, modS, ha', S3]
    · exact hd'.of_kernel (by obtain ⟨_, _, _, _, _, h, _⟩ := hd'; exact h) rfl rfl rfl
  obtain ⟨g1, g2, g3, g4, g5, g6, g7, g8, g9⟩ := hF _ rfl
  have hstep : stepM .check (⟨k, a, objs, ws, [], [], [], [], dv, i, log, false⟩ : State) =
      ((), (topAddCb i .watch (armTop i (armFrame (i + 1) (armFrame (i + 2) s').2).2).2).2) := by
    rw [stepM_eq _ _ rfl, hop]
    have hs : settle 100000 (topAddCb i .watch (armTop i (armFrame (i + 1) (armFrame (i + 2) s').2).2).2).2 =
        ((), (topAddCb i .watch (armTop i (armFrame (i + 1) (armFrame (i + 2) s').2).2).2).2) :=
      settle_nil 99999 _ g4
    rw [stepTail_eq _ (by rw [hs, g6]; exact hls), hs]
  have hres : step (⟨k, a, objs, ws, [], [], [], [], dv, i, log, false⟩ : State) .check =
      (topAddCb i .watch (armTop i (armFrame (i + 1) (armFrame (i + 2) s').2).2).2).2 := by
    unfold step; rw [hstep]
  rw [hres]
  refine ⟨⟨g1, ⟨dl, g2⟩, g3, g4, g5, Nat.le_refl _, ?_, ?_, ?_, ?_, ?_⟩, g7, ?_, wid, ?_⟩
  · rw [g6]
  · rw [g6]; exact hls
  · rw [g6]; exact hstp
  · rw [g6]; exact hrst
  · rw [g6]; exact hwat
  · rw [g8]; exact hnp'
  · rw [g9, hlogw]; rfl

/-- **the periodic check with workers missing**: it reaps nothing, looks at every worker, spawns the
    first missing one and parks: `manage_watchers → gen.multi → manage_processes → spawn_processes`,
    one timer, the slot taken -/
theorem check_parksL (u N : Nat) (l : List Nat) (s : State) (hi : Idle u s) (hd : DatL u N l s) (hm : l.length < N) :
    Parked u s.nextId (s.nextId + 4) (N - l.length - 1) (step s .check) ∧
    DatL u N (l ++ [s.k.nextPid]) (step s .check) ∧ s.k.nextPid < (step s .check).k.nextPid := by
  obtain ⟨w, hws, hw, hlen, hb, hk, hrun⟩ := hd
  have hreap : arbReapProcesses (checkEntry s) =
      ((), { checkEntry s with k := s.k.beginStep.bump 1, objs := s.objs, ws := [w], log := s.log }) := by
    rw [arbReapProcesses_still (checkEntry s) hb hk.beginStep]
    simp only [checkEntry, hws]
  obtain ⟨h1, h2, h3, _⟩ := check_parks_gen u N l s hi hb (s.k.beginStep.bump 1) s.objs w s.log hreap
    ⟨w, rfl, hw, hlen, hb, hk.beginStep.bump 1, hrun⟩ hm
  exact ⟨h1, h2, h3⟩

theorem check_parks (u N m : Nat) (s : State) (hi : Idle u s) (hd : Dat u N m s) (hm : m < N) :
    Parked u s.nextId (s.nextId + 4) (N - m - 1) (step s .check) ∧ Dat u N (m + 1) (step s .check) := by
  obtain ⟨l, hl, hdl⟩ := hd.datL
  obtain ⟨h1, h2, _⟩ := check_parksL u N l s hi hdl (by omega)
  exact ⟨hl ▸ h1, h2.snoc_dat hl⟩


theorem earliest_single (sl : Sleeper) : earliest [sl] = some sl := rfl

/-- **a timer of the parked loop fires while workers are still missing**: one more worker is spawned,
    the loop parks again on a new timer -/
theorem wake_spawnsL (u N i j r : Nat) (l : List Nat) (s : State) (hp : Parked u i j (r + 1) s) (hd : DatL u N l s)
    (hm : l.length < N) :
    Parked u i (j + 2) r (step s .wake) ∧ DatL u N (l ++ [s.k.nextPid]) (step s .wake) ∧
    s.k.nextPid < (step s .wake).k.nextPid := by
  obtain ⟨dl, hsl⟩ := hp.sleepers
  have hb : s.blocked = false := by obtain ⟨w, _, _, _, hb, _⟩ := hd; exact hb
  have hk : s.k.Still := by obtain ⟨w, _, _, _, _, hk, _⟩ := hd; exact hk
  have hj := hp.hj
  have h1 : ¬ i + 1 = j := by omega
  have h2 : ¬ i + 2 = j := by omega
  have h3 : ¬ i + 3 = j := by omega
  -- the state in which the loop body runs again
  let s4 : State := { s with
    k := { s.k.beginStep with now := max s.k.beginStep.now dl },
    sleepers := [],
    frames := [
      { fid := i + 1, k := .manageWatchersTail false, parent := .top i, armed := true },
      { fid := i + 2, k := .multi 1 [], parent := .frame (i + 1) 0, armed := true },
      { fid := i + 3, k := .manageTail u, parent := .frame (i + 2) 0, armed := true }],
    ready := [] }
  have hd4 : DatL u N l s4 := hd.of_kernel (hk.beginStep.setNow_still _) rfl rfl rfl
  have hfresh : ∀ g ∈ s4.frames, g.fid ≠ s4.nextId := by
    intro g hg
    simp only [s4, List.mem_cons, List.mem_nil_iff, or_false] at hg
    show g.fid ≠ s.nextId
    rw [hp.nextId]
    rcases hg with rfl | rfl | rfl <;> simp <;> omega
  obtain ⟨s5, dl5, hloop, hd5, hf5, hsl5, hn5, ht5, hr5, ha5, hdv5, hnp5, _⟩ :=
    spawnLoop_datL (exec 99999) u N r l (.frame (i + 3) 0) s4 hd4 hm hfresh
  -- the step
  have hstep : stepM .wake s = ((), s5) := by
    rw [stepM_eq _ _ hb]
    have hop : (stepOp .wake (updK Kernel.beginStep s).2).2 =
        { s4 with ready := [.resume (.spawnLoop u (r + 1)) .unit (.frame (i + 3) 0)] } := by
      simp only [stepOp, bind, getS, updK, runK, hsl, earliest_single, fireSleeper, modS, List.filter_cons,
        List.filter_nil]
      simp only [deliver, bind, getS, hp.frames, List.find?_cons, h1, h2, h3, decide_false, decide_true, removeFrame,
        enqueue, modS, hp.ready]
      simp [hk.beginStep.setNow, h1, h2, h3, s4, modS, hp.ready]
    rw [hop]
    have hset : settle 100000 { s4 with ready := [.resume (.spawnLoop u (r + 1)) .unit (.frame (i + 3) 0)] } = ((), s5) := by
      have e1 : (100000 : Nat) = 99999 + 1 := rfl
      have e2 : (99999 : Nat) = 99998 + 1 := rfl
      rw [e1, settle_cons 99999 { s4 with ready := [.resume (.spawnLoop u (r + 1)) .unit (.frame (i + 3) 0)] } _ [] hb rfl]
      simp only [runReady1]
      rw [exec_resume 99999 _ _ _ { s4 with ready := [] } hb]
      simp only [runResume]
      show settle 99999 (spawnLoop (exec 99999) u (r + 1) (.frame (i + 3) 0) s4).2 = _
      rw [hloop, e2]
      exact settle_nil 99998 s5 (by rw [hr5])
    rw [stepTail_eq _ (by rw [hset, ha5]; exact hp.loopStop), hset]
  have hres : step s .wake = s5 := by unfold step; rw [hstep]
  rw [hres]
  refine ⟨⟨?_, ⟨dl5, ?_⟩, ?_, ?_, ?_, by omega, ?_, ?_, ?_, ?_, ?_⟩, hd5, hnp5⟩
  · rw [hf5]; simp only [s4, hp.nextId]; rfl
  · rw [hsl5]; simp only [s4, hp.nextId]; rfl
  · rw [ht5]; exact hp.tops
  · rw [hr5]
  · rw [hn5]; simp only [s4, hp.nextId]
  · rw [ha5]; exact hp.slot
  · rw [ha5]; exact hp.loopStop
  · rw [ha5]; exact hp.stopping
  · rw [ha5]; exact hp.restarting
  · rw [ha5]; exact hp.watchers


theorem wake_spawns (u N m i j r : Nat) (s : State) (hp : Parked u i j (r + 1) s) (hd : Dat u N m s) (hm : m < N) :
    Parked u i (j + 2) r (step s .wake) ∧ Dat u N (m + 1) (step s .wake) := by
  obtain ⟨l, hl, hdl⟩ := hd.datL
  obtain ⟨h1, h2, _⟩ := wake_spawnsL u N i j r l s hp hdl (by omega)
  exact ⟨h1, h2.snoc_dat hl⟩

theorem settle_cons_mk (n : Nat) (k : Kernel) (a : Arbiter) (objs : List PObj) (ws : List Watcher) (frames : List Frame)
    (sleepers : List Sleeper) (tops : List TopFut) (x : Ready) (rest : List Ready) (dv : List (Nat × Val)) (nid : Nat)
    (log : List Obs) :
    settle (n + 1) ⟨k, a, objs, ws, frames, sleepers, tops, x :: rest, dv, nid, log, false⟩ =
      settle n (runReady1 (exec 100000) x ⟨k, a, objs, ws, frames, sleepers, tops, rest, dv, nid, log, false⟩).2 :=
  settle_cons n _ x rest rfl rfl

theorem exec_resume_mk (n : Nat) (kk : Kont) (v : Val) (w : Waiter) (k : Kernel) (a : Arbiter) (objs : List PObj)
    (ws : List Watcher) (frames : List Frame) (sleepers : List Sleeper) (tops : List TopFut) (rd : List Ready)
    (dv : List (Nat × Val)) (nid : Nat) (log : List Obs) :
    exec (n + 1) (.resume kk v w) ⟨k, a, objs, ws, frames, sleepers, tops, rd, dv, nid, log, false⟩ =
      runResume (exec n) kk v w ⟨k, a, objs, ws, frames, sleepers, tops, rd, dv, nid, log, false⟩ :=
  exec_resume n kk v w _ rfl

/-- **the last timer of the parked loop fires**: no worker is missing any more; the loop, `manage_processes`,
    the `gen.multi`, `manage_watchers` and the future of the check complete one after the other through
    the ready queue, the slot is released -/
theorem wake_doneL (u N i j : Nat) (l : List Nat) (s : State) (hp : Parked u i j 0 s) (hd : DatL u N l s) (hN : l.length = N) :
    Idle u (step s .wake) ∧ DatL u N l (step s .wake) ∧ (step s .wake).k.nextPid = s.k.nextPid ∧
    (step s .wake).log = s.log := by
  obtain ⟨dl, hsl⟩ := hp.sleepers
  obtain ⟨w, hws, hw, hpl, hb, hk, hrun⟩ := hd
  have hlen : w.pids.length = N := by rw [hpl, hN]
  have hj := hp.hj
  have h1 : ¬ i + 1 = j := by omega
  have h2 : ¬ i + 2 = j := by omega
  have h3 : ¬ i + 3 = j := by omega
  obtain ⟨hfr, _, htops, hrd, hnid, _, hslot, hls, hstp, hrst, hwat⟩ := hp
  obtain ⟨k, a, objs, ws, frames, sleepers, tops, ready, dv, nid, log, blocked⟩ := s
  simp only at hsl hws hb hk hrun hfr htops hrd hnid hslot hls hstp hrst hwat
  subst hsl hws hb hfr htops hrd
  have hstep : stepM .wake ⟨k, a, objs, [w], [
          { fid := i + 1, k := .manageWatchersTail false, parent := .top i, armed := true },
          { fid := i + 2, k := .multi 1 [], parent := .frame (i + 1) 0, armed := true },
          { fid := i + 3, k := .manageTail u, parent := .frame (i + 2) 0, armed := true },
          { fid := j, k := .spawnLoop u 0, parent := .frame (i + 3) 0, armed := true }],
        [{ sid := j + 1, deadline := dl, waiter := .frame j 0 }],
        [{ tid := i, cbs := [.release, .watch], armed := true }], [], dv, nid, log, false⟩ =
      ((), ⟨{ k.beginStep with now := max k.beginStep.now dl }, { a with slot := none }, objs, [w], [], [], [], [],
        (i, Val.unit) :: dv, nid, log, false⟩) := by
    rw [stepM_eq _ _ rfl]
    have hop : (stepOp .wake (updK Kernel.beginStep (⟨k, a, objs, [w], [
          { fid := i + 1, k := .manageWatchersTail false, parent := .top i, armed := true },
          { fid := i + 2, k := .multi 1 [], parent := .frame (i + 1) 0, armed := true },
          { fid := i + 3, k := .manageTail u, parent := .frame (i + 2) 0, armed := true },
          { fid := j, k := .spawnLoop u 0, parent := .frame (i + 3) 0, armed := true }],
        [{ sid := j + 1, deadline := dl, waiter := .frame j 0 }],
        [{ tid := i, cbs := [.release, .watch], armed := true }], [], dv, nid, log, false⟩ : State)).2).2 =
        ⟨{ k.beginStep with now := max k.beginStep.now dl }, a, objs, [w], [
          { fid := i + 1, k := .manageWatchersTail false, parent := .top i, armed := true },
          { fid := i + 2, k := .multi 1 [], parent := .frame (i + 1) 0, armed := true },
          { fid := i + 3, k := .manageTail u, parent := .frame (i + 2) 0, armed := true }], [],
        [{ tid := i, cbs := [.release, .watch], armed := true }],
        [.resume (.spawnLoop u 0) .unit (.frame (i + 3) 0)], dv, nid, log, false⟩ := by
      simp only [stepOp, bind, getS, updK, runK, earliest_single, fireSleeper, modS, List.filter_cons,
        List.filter_nil]
      simp only [deliver, bind, getS, List.find?_cons, h1, h2, h3, decide_false, decide_true, removeFrame,
        enqueue, modS]
      simp [hk.beginStep.setNow, h1, h2, h3, modS]
    rw [hop]
    have e1 : (100000 : Nat) = 99999 + 1 := rfl
    have e2 : (99999 : Nat) = 99998 + 1 := rfl
    have e3 : (99998 : Nat) = 99997 + 1 := rfl
    have e4 : (99997 : Nat) = 99996 + 1 := rfl
    have e5 : (99996 : Nat) = 99995 + 1 := rfl
    have e6 : (99995 : Nat) = 99994 + 1 := rfl
    have e7 : (99994 : Nat) = 99993 + 1 := rfl
    have hset : (settle 100000 ⟨{ k.beginStep with now := max k.beginStep.now dl }, a, objs, [w], [
          { fid := i + 1, k := .manageWatchersTail false, parent := .top i, armed := true },
          { fid := i + 2, k := .multi 1 [], parent := .frame (i + 1) 0, armed := true },
          { fid := i + 3, k := .manageTail u, parent := .frame (i + 2) 0, armed := true }], [],
        [{ tid := i, cbs := [.release, .watch], armed := true }],
        [.resume (.spawnLoop u 0) .unit (.frame (i + 3) 0)], dv, nid, log, false⟩) =
      ((), ⟨{ k.beginStep with now := max k.beginStep.now dl }, { a with slot := none }, objs, [w], [], [], [], [],
        (i, Val.unit) :: dv, nid, log, false⟩) := by
      rw [e1, settle_cons_mk]
      simp only [runReady1]
      rw [exec_resume_mk]
      simp [runResume, spawnLoop, deliver, bind, getS, removeFrame, enqueue, modS]
      -- 2: `manage_processes` has nothing to remove; its result goes to the `gen.multi`
      rw [e2, settle_cons_mk]
      simp only [runReady1]
      rw [exec_resume_mk]
      simp [runResume, manageTail, getW, hw.uid, hw.np, hlen, deliver, bind, getS, removeFrame, enqueue, modS]
      -- 3: the `gen.multi` has its only result; `manage_watchers`' continuation is resumed
      rw [e3, settle_cons_mk]
      simp only [runReady1]
      rw [exec_resume_mk]
      simp [runResume, multiCollect, bind, getS, removeFrame, enqueue, modS]
      have hmr : multiResult 1 [(0, Val.unit)] = .list [.unit] := rfl
      rw [hmr, e2, exec_resume_mk]
      simp [runResume, deliver, bind, getS, removeFrame, enqueue, modS]
      -- 4: `manage_watchers` is over: its future completes, the callbacks are queued
      rw [e4, settle_cons_mk]
      simp only [runReady1]
      rw [e1, exec_resume_mk]
      simp [runResume, manageWatchersTail, deliver, deliverTop, finishTop, deliverCbs, bind, getS, getA,
        enqueue, modS, pure]
      -- 5, 6: the slot is released; the harness' `watch` callback has nothing to report
      rw [e5, settle_cons_mk]
      simp [runReady1, runTopCb, setSlot, modA, modS]
      rw [e6, settle_cons_mk]
      simp [runReady1, runTopCb, pure]
      rw [e7]
      exact settle_nil _ _ rfl
    rw [stepTail_eq _ (by rw [hset]; exact hls), hset]
  have hres : step (⟨k, a, objs, [w], [
          { fid := i + 1, k := .manageWatchersTail false, parent := .top i, armed := true },
          { fid := i + 2, k := .multi 1 [], parent := .frame (i + 1) 0, armed := true },
          { fid := i + 3, k := .manageTail u, parent := .frame (i + 2) 0, armed := true },
          { fid := j, k := .spawnLoop u 0, parent := .frame (i + 3) 0, armed := true }],
        [{ sid := j + 1, deadline := dl, waiter := .frame j 0 }],
        [{ tid := i, cbs := [.release, .watch], armed := true }], [], dv, nid, log, false⟩ : State) .wake =
      ⟨{ k.beginStep with now := max k.beginStep.now dl }, { a with slot := none }, objs, [w], [], [], [], [],
        (i, Val.unit) :: dv, nid, log, false⟩ := by
    unfold step; rw [hstep]
  rw [hres]
  refine ⟨⟨rfl, rfl, rfl, rfl, rfl, hls, hstp, hrst, hwat⟩, ⟨w, rfl, hw, hpl, rfl, hk.beginStep.setNow_still _, ?_⟩, rfl, rfl⟩
  intro pid hpid
  obtain ⟨p, hf, hr⟩ := hrun pid hpid
  exact ⟨p, hf, hr⟩

theorem wake_done (u N i j : Nat) (s : State) (hp : Parked u i j 0 s) (hd : Dat u N N s) :
    Idle u (step s .wake) ∧ Dat u N N (step s .wake) := by
  obtain ⟨l, hl, hdl⟩ := hd.datL
  obtain ⟨h1, h2, _⟩ := wake_doneL u N i j l s hp hdl hl
  exact ⟨h1, hl ▸ h2.dat⟩


/-- `manage_processes` when nobody is missing (and nobody is in excess): only the status reads -/
theorem manageProcesses_full (rec : Rec) (u N : Nat) (wt : Waiter) (s : State) (hd : Dat u N N s) :
    manageProcesses rec u wt s = deliver rec wt .unit (s.bump (2 * N)) := by
  obtain ⟨w, hws, hw, hlen, hb, hk, hrun⟩ := hd
  unfold manageProcesses
  simp only [bind]
  rw [getW_single u w s hws hw.uid]
  have hns : ¬ w.status = Status.stopped := by rw [hw.status]; decide
  erw [if_neg hns]
  have hl := manageLoop_still u w.pids s hk hrun
  simp only [bind] at hl
  erw [hl]
  have hage : ¬ (w.maxAge > 0) := by rw [hw.maxAge]; decide
  erw [if_neg hage]
  unfold manageAfterExpire
  simp only [bind]
  rw [getW_single u w (s.bump (2 * w.pids.length)) hws hw.uid]
  have hlt : (decide ((w.pids.length : Int) < w.np) && decide (w.status ≠ Status.stopping)) = false := by
    rw [hw.np, hlen]; simp
  simp only [hlt, Bool.false_eq_true, if_false]
  unfold manageTail
  simp only [bind]
  rw [getW_single u w (s.bump (2 * w.pids.length)) hws hw.uid]
  have hgt : ¬ ((w.pids.length : Int) > w.np) := by rw [hw.np, hlen]; omega
  erw [if_neg hgt]
  rw [hlen]

/-- **`manage_processes` of the only watcher returns while the check is still in its first, eager run**: the
    `gen.multi` of `manage_watchers` has its only result, `manage_watchers` ends, its future completes and
    releases the slot, all in place -/
theorem unwind_check (n i : Nat) (K : Kernel) (a : Arbiter) (O : List PObj) (ws : List Watcher) (nid : Nat) (L : List Obs) :
    deliver (exec (n + 2)) (.frame (i + 2) 0) .unit ⟨K, a, O, ws,
        [{ fid := i + 1, k := .manageWatchersTail false, parent := .top i },
         { fid := i + 2, k := .multi 1 [], parent := .frame (i + 1) 0 }], [],
        [{ tid := i, cbs := [.release] }], [], [], nid, L, false⟩ =
      ((), ⟨K, { a with slot := none }, O, ws, [], [], [], [], [(i, Val.unit)], nid, L, false⟩) := by
  simp [deliver, bind, getS, removeFrame, modS]
  have hmr : multiResult 1 [(0, Val.unit)] = .list [.unit] := rfl
  rw [hmr, show n + 2 = (n + 1) + 1 from rfl, exec_resume_mk]
  simp [runResume, deliver, bind, getS, removeFrame, modS]
  rw [exec_resume_mk]
  simp [runResume, manageWatchersTail, deliver, deliverTop, finishTop, deliverCbs, runTopCb, setSlot, bind, getS,
    getA, modS, modA, pure]

/-- **the periodic check that completes within its step, after whatever `Arbiter.reap_processes` did (`K O w1 L1`)
    and whatever `manage_processes` did (`K2 O2 w2 L2`, `nid2`), provided the latter returned in place** (no
    suspension: `hmp` says that its call, in the state the check has built, ran through to the release of the
    slot): nothing is left in flight -/
theorem check_done_gen (u : Nat) (s : State) (hi : Idle u s) (hb : s.blocked = false)
    (K : Kernel) (O : List PObj) (w1 : Watcher) (L1 : List Obs) (hu : w1.uid = u) (hod : w1.onDemand = false)
    (hreap : arbReapProcesses (checkEntry s) = ((), { checkEntry s with k := K, objs := O, ws := [w1], log := L1 }))
    (K2 : Kernel) (O2 : List PObj) (w2 : Watcher) (L2 : List Obs) (nid2 : Nat)
    (hmp : manageProcesses (exec 99998) u (.frame (s.nextId + 2) 0)
        ⟨K, { s.a with slot := some "manage_watchers" }, O, [w1],
          [{ fid := s.nextId + 1, k := .manageWatchersTail false, parent := .top s.nextId },
           { fid := s.nextId + 2, k := .multi 1 [], parent := .frame (s.nextId + 1) 0 }], [],
          [{ tid := s.nextId, cbs := [.release] }], [], [], s.nextId + 3, L1, false⟩ =
      ((), ⟨K2, { s.a with slot := none }, O2, [w2], [], [], [], [], [(s.nextId, Val.unit)], nid2, L2, false⟩)) :
    step s .check = ⟨K2, { s.a with slot := none }, O2, [w2], [], [], [], [], [(s.nextId, Val.unit)], nid2, L2, false⟩ := by
  obtain ⟨hfr, hsl, htops, hrd, hslot, hls, hstp, hrst, hwat⟩ := hi
  obtain ⟨k, a, objs, ws, frames, sleepers, tops, ready, dv, i, log, blocked⟩ := s
  simp only at hb hfr hsl htops hrd hslot hls hstp hrst hwat hmp
  subst hb hfr hsl htops hrd
  simp only [checkEntry] at hreap
  have hstep : stepM .check (⟨k, a, objs, ws, [], [], [], [], dv, i, log, false⟩ : State) =
      ((), ⟨K2, { a with slot := none }, O2, [w2], [], [], [], [], [(i, Val.unit)], nid2, L2, false⟩) := by
    rw [stepM_eq _ _ rfl]
    have hop : stepOp .check (updK Kernel.beginStep (⟨k, a, objs, ws, [], [], [], [], dv, i, log, false⟩ : State)).2 =
        ((), ⟨K2, { a with slot := none }, O2, [w2], [], [], [],
          [.topCb .watch .unit], [(i, Val.unit)], nid2, L2, false⟩) := by
      simp only [stepOp, bind, clearDone, modS, updK, runK]
      rw [syncCoroutine_free _ _ _ hrst hslot]
      simp only [fuelDefault]
      have e1 : (100000 : Nat) = 99999 + 1 := rfl
      have e2 : (99999 : Nat) = 99998 + 1 := rfl
      rw [e1, exec_call_mk]
      simp only [runCall, List.nil_append]
      rw [manageWatchers_eq_gen (exec 99999) u w1 _ _ _ hstp hreap rfl hu hod hwat, awaitMulti_single]
      simp only [List.nil_append]
      rw [e2, exec_call_mk]
      simp only [runCall]
      erw [hmp]
      simp [bind, getS, modS, pure, armFrame, armTop, addDoneCallback, enqueue]
    rw [hop]
    have e1 : (100000 : Nat) = 99999 + 1 := rfl
    have e2 : (99999 : Nat) = 99998 + 1 := rfl
    have hs : settle 100000 (⟨K2, { a with slot := none }, O2, [w2], [], [], [],
          [.topCb .watch .unit], [(i, Val.unit)], nid2, L2, false⟩ : State) =
        ((), ⟨K2, { a with slot := none }, O2, [w2], [], [], [], [], [(i, Val.unit)], nid2, L2, false⟩) := by
      rw [e1, settle_cons_mk]
      simp [runReady1, runTopCb, pure]
      rw [e2]
      exact settle_nil _ _ rfl
    rw [stepTail_eq _ (by rw [hs]; exact hls), hs]
  unfold step; rw [hstep]

/-- **the periodic check when no worker is missing, after whatever `Arbiter.reap_processes` did**: it completes
    within the step; besides what the reaping changed only the kernel's call counter moves -/
theorem check_idle_gen (u N : Nat) (l : List Nat) (s : State) (hi : Idle u s) (hb : s.blocked = false)
    (K : Kernel) (O : List PObj) (w1 : Watcher) (L1 : List Obs)
    (hreap : arbReapProcesses (checkEntry s) = ((), { checkEntry s with k := K, objs := O, ws := [w1], log := L1 }))
    (hd : DatL u N l { checkEntry s with k := K, objs := O, ws := [w1], log := L1 }) (hN : l.length = N) :
    Idle u (step s .check) ∧ DatL u N l (step s .check) ∧ (step s .check).k.nextPid = K.nextPid ∧
    (step s .check).log = L1 := by
  obtain ⟨w, hws, hw, hpl, _, hk, hrun⟩ := hd
  simp only [checkEntry] at hws hk hrun
  have hww : w1 = w := by simpa using hws
  subst hww
  have hres := check_done_gen u s hi hb K O w1 L1 hw.uid hw.onDemand hreap (K.bump (2 * N)) O w1 L1 (s.nextId + 3) (by
    rw [manageProcesses_full (exec 99998) u N _ _ ⟨w1, rfl, hw, by rw [hpl, hN], rfl, hk, by rw [hpl]; exact hrun⟩]
    exact unwind_check 99996 s.nextId _ _ _ _ _ _)
  rw [hres]
  exact ⟨⟨rfl, rfl, rfl, rfl, rfl, hi.loopStop, hi.stopping, hi.restarting, hi.watchers⟩,
    ⟨w1, rfl, hw, hpl, rfl, hk.bump _, hrun⟩, rfl, rfl⟩

/-- **the periodic check when no worker is missing**: it completes within the step and changes
    nothing but the kernel's call counter -/
theorem check_idleL (u N : Nat) (l : List Nat) (s : State) (hi : Idle u s) (hd : DatL u N l s) (hN : l.length = N) :
    Idle u (step s .check) ∧ DatL u N l (step s .check) ∧ (step s .check).k.nextPid = s.k.nextPid ∧
    (step s .check).log = s.log := by
  obtain ⟨w, hws, hw, hlen, hb, hk, hrun⟩ := hd
  have hreap : arbReapProcesses (checkEntry s) =
      ((), { checkEntry s with k := s.k.beginStep.bump 1, objs := s.objs, ws := [w], log := s.log }) := by
    rw [arbReapProcesses_still (checkEntry s) hb hk.beginStep]
    simp only [checkEntry, hws]
  exact check_idle_gen u N l s hi hb (s.k.beginStep.bump 1) s.objs w s.log hreap
    ⟨w, rfl, hw, hlen, hb, hk.beginStep.bump 1, hrun⟩ hN

theorem check_idle (u N : Nat) (s : State) (hi : Idle u s) (hd : Dat u N N s) :
    Idle u (step s .check) ∧ Dat u N N (step s .check) := by
  obtain ⟨l, hl, hdl⟩ := hd.datL
  obtain ⟨h1, h2, _⟩ := check_idleL u N l s hi hdl hl
  exact ⟨h1, hl ▸ h2.dat⟩

/-! ## Part 4: convergence -/

theorem run_cons (s : State) (op : Op) (ops : List Op) : run s (op :: ops) = run (step s op) ops := rfl

/-- the parked loop with `r` workers still to spawn needs `r + 1` timer firings -/
theorem wakes_converge (u N i : Nat) : ∀ (r j m : Nat) (s : State), Parked u i j r s → Dat u N m s → m + r = N →
    Idle u (run s (List.replicate (r + 1) .wake)) ∧ Dat u N N (run s (List.replicate (r + 1) .wake)) := by
  intro r
  induction r with
  | zero =>
    intro j m s hp hd hmr
    have : m = N := by omega
    subst this
    exact wake_done u m i j s hp hd
  | succ r ih =>
    intro j m s hp hd hmr
    obtain ⟨hp', hd'⟩ := wake_spawns u N m i j r s hp hd (by omega)
    rw [List.replicate_succ, run_cons]
    exact ih (j + 2) (m + 1) _ hp' hd' (by omega)

/-- **convergence**: from an idle state with `m ≤ N` running workers, the check followed by `N - m`
    timer firings ends idle with `N` running workers -/
theorem check_converges (u N m : Nat) (s : State) (hi : Idle u s) (hd : Dat u N m s) (hm : m ≤ N) :
    Idle u (run s (.check :: List.replicate (N - m) .wake)) ∧
    Dat u N N (run s (.check :: List.replicate (N - m) .wake)) := by
  rw [run_cons]
  by_cases hlt : m < N
  · obtain ⟨hp, hd'⟩ := check_parks u N m s hi hd hlt
    have hrep : N - m = (N - m - 1) + 1 := by omega
    rw [hrep]
    exact wakes_converge u N s.nextId (N - m - 1) _ (m + 1) _ hp hd' (by omega)
  · have : m = N := by omega
    subst this
    simp only [Nat.sub_self, List.replicate_zero]
    exact check_idle u m s hi hd

/-- … and there it stays: further checks change nothing -/
theorem checks_stay (u N : Nat) : ∀ (n : Nat) (s : State), Idle u s → Dat u N N s →
    Idle u (run s (List.replicate n .check)) ∧ Dat u N N (run s (List.replicate n .check)) := by
  intro n
  induction n with
  | zero => intro s hi hd; exact ⟨hi, hd⟩
  | succ n ih =>
    intro s hi hd
    obtain ⟨hi', hd'⟩ := check_idle u N s hi hd
    rw [List.replicate_succ, run_cons]
    exact ih _ hi' hd'

/-! ### the same with the list of pids tracked: the workers that were there are kept, the new ones are fresh -/

theorem wakes_convergeL (u N i : Nat) : ∀ (r j : Nat) (l : List Nat) (s : State), Parked u i j r s → DatL u N l s →
    l.length + r = N →
    Idle u (run s (List.replicate (r + 1) .wake)) ∧
    ∃ news, DatL u N (l ++ news) (run s (List.replicate (r + 1) .wake)) ∧ news.length = r ∧ ∀ p ∈ news, s.k.nextPid ≤ p := by
  intro r
  induction r with
  | zero =>
    intro j l s hp hd hmr
    obtain ⟨h1, h2, _, _⟩ := wake_doneL u N i j l s hp hd (by omega)
    exact ⟨h1, [], by simpa [run] using h2, rfl, fun p hp => by cases hp⟩
  | succ r ih =>
    intro j l s hp hd hmr
    obtain ⟨hp', hd', hnp⟩ := wake_spawnsL u N i j r l s hp hd (by omega)
    rw [List.replicate_succ, run_cons]
    obtain ⟨h1, news, h2, h3, h4⟩ := ih (j + 2) (l ++ [s.k.nextPid]) _ hp' hd' (by simp; omega)
    refine ⟨h1, s.k.nextPid :: news, by simpa using h2, by simp [h3], ?_⟩
    intro p hp
    rcases List.mem_cons.mp hp with rfl | hp
    · exact Nat.le_refl _
    · have := h4 p hp; omega

/-- **convergence, pids tracked**: the workers listed before are all kept, in their order, and exactly
    `N - l.length` fresh pids are appended -/
theorem check_convergesL (u N : Nat) (l : List Nat) (s : State) (hi : Idle u s) (hd : DatL u N l s) (hm : l.length ≤ N) :
    Idle u (run s (.check :: List.replicate (N - l.length) .wake)) ∧
    ∃ news, DatL u N (l ++ news) (run s (.check :: List.replicate (N - l.length) .wake)) ∧
      news.length = N - l.length ∧ ∀ p ∈ news, s.k.nextPid ≤ p := by
  rw [run_cons]
  by_cases hlt : l.length < N
  · obtain ⟨hp, hd', hnp⟩ := check_parksL u N l s hi hd hlt
    have hrep : N - l.length = (N - l.length - 1) + 1 := by omega
    rw [hrep]
    obtain ⟨h1, news, h2, h3, h4⟩ := wakes_convergeL u N s.nextId (N - l.length - 1) _ (l ++ [s.k.nextPid]) _ hp hd' (by simp; omega)
    refine ⟨h1, s.k.nextPid :: news, by simpa using h2, by simp [h3], ?_⟩
    intro p hp
    rcases List.mem_cons.mp hp with rfl | hp
    · exact Nat.le_refl _
    · have := h4 p hp; omega
  · have hN : l.length = N := by omega
    simp only [hN, Nat.sub_self, List.replicate_zero]
    obtain ⟨h1, h2, _, _⟩ := check_idleL u N l s hi hd hN
    exact ⟨h1, [], by simpa [run] using h2, rfl, fun p hp => by cases hp⟩

/-- … and the list of workers stays what it is under further checks -/
theorem checks_stayL (u N : Nat) (l : List Nat) (hN : l.length = N) : ∀ (n : Nat) (s : State), Idle u s → DatL u N l s →
    Idle u (run s (List.replicate n .check)) ∧ DatL u N l (run s (List.replicate n .check)) ∧
    (run s (List.replicate n .check)).log = s.log := by
  intro n
  induction n with
  | zero => intro s hi hd; exact ⟨hi, hd, rfl⟩
  | succ n ih =>
    intro s hi hd
    obtain ⟨hi', hd', _, hlog⟩ := check_idleL u N l s hi hd hN
    rw [List.replicate_succ, run_cons]
    obtain ⟨h1, h2, h3⟩ := ih _ hi' hd'
    exact ⟨h1, h2, h3.trans hlog⟩

end Circus.Core
