import CircusProofs.Core.SigSync
import CircusProofs.Props.C04
/-!
The signal invariant `SI` under the named writers: the quiet ones (through `SI.of_quiet` and the
accounting invariant `PidInv`, which every writer keeps), `spawnAdopt` and `registerNew`, and the
writers of the coroutine heap (`pushFrame`, `removeFrame`, `setFrameK`, `armFrame`, `enqueue`,
`dequeue`) and of the `stopping` flag, each with the side condition it needs.
-/
set_option linter.unusedSimpArgs false
set_option linter.unusedVariables false
namespace Circus.Core

theorem pidSpec : Spec PidInv := Spec.ofLeafX pidLeafX
theorem pidSpecCore : SpecCore PidInv := pidSpec.toSpecCore
theorem pidLeaf : Leaf PidInv := pidSpecCore.toLeaf

/-- quiet and accounting-preserving computations keep `SI` -/
theorem SI.pres_quiet {J : JMode} {α : Type} {m : M α} (hq : SQuietM m) (hp : Pres PidInv m) : Pres (SI J) m :=
  fun s h => h.of_quiet (hp s h.pid) (hq s)

theorem SI.pres_quietW {α : Type} {m : M α} (hq : SQuietWM m) (hp : Pres PidInv m) : Pres (SI none) m :=
  fun s h => h.of_quietW (hp s h.pid) (hq s)

/-! ### `Process` objects are never deleted -/

theorem hasObj_frame {α : Type} {m : M α} (p : Nat) (h : ∀ s, (m s).2.objs = s.objs) : Pres (fun s => HasObj s p) m := by
  intro s hs
  show p ∈ (m s).2.objs.map (·.pid)
  rw [h s]; exact hs

macro "objs_tac" : tactic =>
  `(tactic| (apply hasObj_frame; intro s; first
      | rfl
      | (simp only [modS, modA, emit, emitEv, emitRep]; done)
      | (simp only [modS, modA, emit, emitEv, emitRep]; split <;> rfl)))

theorem hasObj_modO (p q : Nat) (f : PObj → PObj) (hf : ∀ o, (f o).pid = o.pid) : Pres (fun s => HasObj s p) (modO q f) := by
  intro s hs
  show p ∈ (modO q f s).2.objs.map (·.pid)
  simp only [modO, modS, List.map_map]
  have : (fun o : PObj => o.pid) ∘ (fun o => if o.pid = q then f o else o) = fun o => o.pid := by
    funext o; simp only [Function.comp]; split
    · exact hf o
    · rfl
  rw [this]; exact hs

theorem hasObj_spawnAdopt (p u wid : Nat) : Pres (fun s => HasObj s p) (spawnAdopt u wid) := by
  intro s hs
  cases hr : (s.k.spawn).2 with
  | none => rw [spawnAdopt_none u wid s hr]; exact hs
  | some pid =>
    rw [spawnAdopt_some u wid s pid hr]
    show p ∈ (s.objs ++ _).map (·.pid)
    rw [List.map_append]
    exact List.mem_append_left _ hs

theorem hasObj_trySetNp (p u : Nat) (n : Int) : Pres (fun s => HasObj s p) (trySetNp u n) := by
  apply hasObj_frame; intro s
  unfold trySetNp
  simp only
  generalize (if n < 0 then (0 : Int) else n) = n'
  split <;> rfl

theorem hasObj_registerNew (p : Nat) (w : Watcher) : Pres (fun s => HasObj s p) (registerNew w) := by
  apply hasObj_frame; intro s
  unfold registerNew registerChecked
  split
  · rfl
  · split <;> rfl

theorem hasObjLeafX (p : Nat) : LeafX (fun s => HasObj s p) where
  emit := fun o => by objs_tac
  runK := fun f _ => by objs_tac
  emitEv := fun w t q x => by objs_tac
  popPid := fun u q => by objs_tac
  bumpHook := fun u h i => by objs_tac
  setObjStopping := fun q b => hasObj_modO p q _ (fun _ => rfl)
  setRc := fun q rc => hasObj_modO p q _ (fun _ => rfl)
  markBlocked := by objs_tac
  emitRep := fun c i a b d => by objs_tac
  setStatus := fun u st => by objs_tac
  trySetNp := hasObj_trySetNp p
  spawnAdopt := hasObj_spawnAdopt p
  setWOpt := fun u c => by objs_tac
  freshId := by objs_tac
  pushFrame := fun f => by objs_tac
  removeFrame := fun f => by objs_tac
  setFrameK := fun f k => by objs_tac
  armFrame := fun f => by objs_tac
  pushSleeper := fun sl => by objs_tac
  armTop := fun t => by objs_tac
  setClosed := by objs_tac
  setStopping := by objs_tac
  setRestarting := by objs_tac
  clearRestarting := fun b => by objs_tac
  setLoopStop := fun b => by objs_tac
  setSocketEvent := fun b => by objs_tac
  setSockReady := fun b => by objs_tac
  clearDone := by objs_tac
  unregister := fun u => by objs_tac
  registerNew := fun w _ => hasObj_registerNew p w
  fireSleeper := fun sl => by objs_tac
  enqueueResume := fun k v w => by objs_tac
  enqueueCallback := fun n => by objs_tac
  setSlot := fun v => by objs_tac
  pushTop := fun t => by objs_tac
  finishTop := fun t v => by objs_tac
  topAddCb := fun t cb => by objs_tac
  enqueue := fun r => by objs_tac
  dequeue := by objs_tac

theorem hasObjSpec (p : Nat) : Spec (fun s => HasObj s p) := Spec.ofLeafX (hasObjLeafX p)

/-- the interpreter never deletes a `Process` object -/
theorem exec_hasObj (n : Nat) (t : Task) (s : State) (p : Nat) (h : HasObj s p) : HasObj (exec n t s).2 p :=
  exec_pres (hasObjSpec p).toSpecCore n t s h

theorem listed_hasObj {s : State} (h : PidInv s) {u p : Nat} (hl : Listed s u p) : HasObj s p := by
  unfold Listed getW at hl
  simp only at hl
  cases hf : s.ws.find? (fun w => decide (w.uid = u)) with
  | none => rw [hf] at hl; simp [defaultWatcher] at hl
  | some w =>
    rw [hf] at hl
    exact h.listedObj w (List.mem_of_find?_eq_some hf) p hl

/-! ### quiet writers of the coroutine machinery -/

theorem squiet_freshId (s : State) : SQuiet s (freshId s).2 := SQuiet.of_eq rfl rfl rfl rfl rfl rfl rfl
theorem squiet_pushSleeper (sl : Sleeper) (s : State) : SQuiet s (pushSleeper sl s).2 := SQuiet.of_eq rfl rfl rfl rfl rfl rfl rfl
theorem squiet_pushTop (t : TopFut) (s : State) : SQuiet s (pushTop t s).2 := SQuiet.of_eq rfl rfl rfl rfl rfl rfl rfl
theorem squiet_armTop (t : Nat) (s : State) : SQuiet s (armTop t s).2 := SQuiet.of_eq rfl rfl rfl rfl rfl rfl rfl
theorem squiet_finishTop (t : Nat) (v : Val) (s : State) : SQuiet s (finishTop t v s).2 := SQuiet.of_eq rfl rfl rfl rfl rfl rfl rfl
theorem squiet_topAddCb (t : Nat) (cb : TopCb) (s : State) : SQuiet s (topAddCb t cb s).2 := SQuiet.of_eq rfl rfl rfl rfl rfl rfl rfl
theorem squiet_clearDone (s : State) : SQuiet s (clearDone s).2 := SQuiet.of_eq rfl rfl rfl rfl rfl rfl rfl
theorem squiet_setSlot (v : Option String) (s : State) : SQuiet s (setSlot v s).2 := squiet_modA _ s
theorem squiet_setStopping (s : State) : SQuiet s (setStopping s).2 := squiet_modA _ s
theorem squiet_setRestarting (s : State) : SQuiet s (setRestarting s).2 := squiet_modA _ s
theorem squiet_clearRestarting (b : Bool) (s : State) : SQuiet s (clearRestarting b s).2 := squiet_modA _ s
theorem squiet_setLoopStop (b : Bool) (s : State) : SQuiet s (setLoopStop b s).2 := squiet_modA _ s
theorem squiet_setSocketEvent (b : Bool) (s : State) : SQuiet s (setSocketEvent b s).2 := squiet_modA _ s
theorem squiet_setSockReady (b : Bool) (s : State) : SQuiet s (setSockReady b s).2 := squiet_modA _ s
theorem squiet_setClosed (s : State) : SQuiet s (setClosed s).2 := squiet_modA _ s
theorem squiet_unregister (u : Nat) (s : State) : SQuiet s (unregisterWatcher u s).2 := squiet_modA _ s

theorem squiet_fireSleeper (sl : Sleeper) (s : State) : SQuiet s (fireSleeper sl s).2 where
  ext := {
    log := fun o h => h
    blocked := fun h => h
    obj := fun p h => h
    stop := fun p _ => rfl
    hook := fun u h hh => hh
    unl := fun u p _ hn => hn
    gone := fun p h => KGMono.setNow s.k _ p h
    reap := fun p st h => Or.inl h
    ndc := fun p h => KNMono.setNow s.k _ p h
    kpids := fun q hq => Or.inl (by
      have := (KStep.setNow s.k (max s.k.now sl.deadline)).pids
      simp only [fireSleeper, modS] at hq
      rw [this] at hq; exact hq)
    npid := by
      have := (KStep.setNow s.k (max s.k.now sl.deadline)).nextPid
      simp only [fireSleeper, modS]
      rw [this]; exact Nat.le_refl _
    dpar := fun hp p h => KDMono.setNow s.k _ hp.2 p h
    objd := fun _ p h => Or.inl h }
  frames := rfl
  ready := rfl
  nn := ⟨⟨[], by simp [fireSleeper, modS], fun _ h => by cases h⟩, fun w hw h9 => ⟨w, hw, h9⟩⟩

/-- a new watcher object (fresh identity, empty `processes`) hides nothing -/
theorem squietW_registerNew (w : Watcher) (hw : w.pids = []) (s : State) : SQuietW s (registerNew w s).2 := by
  unfold registerNew registerChecked
  split
  · exact SQuietW.refl s
  · split
    · exact SQuietW.refl s
    · have hfind : ∀ v, ((s.ws ++ [({ clampNp w with uid := s.nextId } : Watcher)]).find? (fun x => decide (x.uid = v))) =
          ((s.ws.find? (fun x => decide (x.uid = v))).or
            (if s.nextId = v then some ({ clampNp w with uid := s.nextId } : Watcher) else none)) := by
        intro v
        rw [List.find?_append]
        congr 1
        simp only [List.find?_cons, List.find?_nil]
        by_cases hv : s.nextId = v <;> simp [hv]
      refine ⟨⟨Ext0.ofK ⟨fun o h => h, fun h => h, fun p h => h, ?_, ?_, fun p h => h, fun p st h => Or.inl h, fun p h => h⟩ rfl (fun p h => h), fun p _ => rfl⟩, rfl, rfl⟩
      · intro v h hc
        unfold HookCalled at *
        simp only [getW] at hc ⊢
        rw [hfind v]
        cases hf : s.ws.find? (fun x => decide (x.uid = v)) with
        | none => rw [hf] at hc; simp [defaultWatcher] at hc
        | some x => rw [hf] at hc; simpa using hc
      · intro v p _ hn hl
        apply hn
        unfold Listed at *
        simp only [getW] at hl ⊢
        rw [hfind v] at hl
        cases hf : s.ws.find? (fun x => decide (x.uid = v)) with
        | none =>
          rw [hf] at hl
          simp only [Option.none_or] at hl
          split at hl
          · simp [clampNp, hw] at hl
          · simp [defaultWatcher] at hl
        | some x => rw [hf] at hl; simpa using hl

theorem nonine_registerNew (w : Watcher) (h9 : w.stopSignal ≠ 9) (s : State) : NoNine s (registerNew w s).2 := by
  unfold registerNew registerChecked
  split
  · exact NoNine.refl s
  · split
    · exact NoNine.refl s
    · refine ⟨⟨[], by simp, fun _ h => by cases h⟩, ?_⟩
      intro w' hw' h9'
      simp only at hw'
      rcases List.mem_append.mp hw' with hw' | hw'
      · exact ⟨w', hw', h9'⟩
      · exfalso
        simp only [List.mem_cons, List.mem_nil_iff, or_false] at hw'
        subst hw'
        exact h9 (by simpa [clampNp] using h9')

/-- a successful `Popen()` enters the worker as a child of the daemon -/
theorem spawn_some_dc (k : Kernel) (pid : Nat) (hlt : ∀ q ∈ k.procs.map (·.pid), q < k.nextPid)
    (h : (k.spawn).2 = some pid) : (k.spawn).1.DC pid := by
  have ht := KStep.tick k
  have hlt1 : ∀ q ∈ k.tick.procs.map (·.pid), q < k.tick.nextPid := by
    rw [ht.pids, ht.nextPid]; exact hlt
  simp only [Kernel.spawn] at h ⊢
  generalize k.tick = k1 at h hlt1 ⊢
  split at h
  · cases h
  · rename_i hx
    simp only [Option.some.injEq] at h
    subst h
    rw [if_neg hx]
    refine ⟨{ pid := k1.nextPid, ppid := some 0, st := .run, status := 0, doom := none, behav := k1.behavAt }, ?_, rfl⟩
    simp only [Kernel.find, List.append_assoc]
    rw [List.find?_append]
    have hnone : k1.procs.find? (fun p => decide (p.pid = k1.nextPid)) = none := by
      apply List.find?_eq_none.mpr
      intro x hx'
      have := hlt1 x.pid (List.mem_map.mpr ⟨x, hx', rfl⟩)
      simp only [decide_eq_true_eq]
      omega
    rw [hnone]
    simp

/-- `Popen()`: the new pid is the pid counter's value, above every pid that has a `Process` object -/
theorem squietW_spawnAdopt (u wid : Nat) (s : State) (hpid : PidInv s) : SQuietW s (spawnAdopt u wid s).2 := by
  cases hr : (s.k.spawn).2 with
  | none =>
    rw [spawnAdopt_none u wid s hr]
    have hk : KStep s.k (s.k.spawn).1 := spawn_none (k' := (s.k.spawn).1) (by rw [← hr])
    refine ⟨⟨⟨⟨?_, fun h => h, fun p h => h, fun u h hh => hh, fun u p _ hn => hn, fun p h => KGMono.spawn s.k p h, ?_,
      fun p h => KNMono.spawn s.k p h⟩, fun q hq => Or.inl (by rw [← hk.pids]; exact hq), ?_,
      fun hp p h => KDMono.spawn s.k hp.2 p h, fun _ p h => Or.inl h⟩, fun p _ => rfl⟩, rfl, rfl⟩
    · intro o h
      simp only
      split
      · exact h
      · exact List.mem_append_left _ h
    · intro p st h
      simp only at h
      split at h
      · exact Or.inl h
      · rcases List.mem_append.mp h with h | h
        · exact Or.inl h
        · simp at h
    · show s.k.nextPid ≤ (s.k.spawn).1.nextPid
      rw [hk.nextPid]; exact Nat.le_refl _
  | some pid =>
    rw [spawnAdopt_some u wid s pid hr]
    obtain ⟨hpe, n, hnp, hpr⟩ := spawn_some (k := s.k) (k' := (s.k.spawn).1) (pid := pid) (by rw [← hr])
    have hg : ∀ w : Watcher, (if w.uid = u then { w with pids := w.pids ++ [pid] } else w).uid = w.uid := by
      intro w; split <;> rfl
    refine ⟨⟨⟨⟨?_, fun h => h, ?_, ?_, ?_, fun p h => KGMono.spawn s.k p h, ?_, fun p h => KNMono.spawn s.k p h⟩, ?_, ?_,
      fun hp p h => KDMono.spawn s.k hp.2 p h, ?_⟩, ?_⟩, rfl, rfl⟩
    · intro o h
      simp only
      split
      · exact h
      · exact List.mem_append_left _ h
    · intro p h
      show p ∈ (s.objs ++ _).map (·.pid)
      rw [List.map_append]
      exact List.mem_append_left _ h
    · intro v h hc
      unfold HookCalled at *
      simp only [getW] at hc ⊢
      rw [find_map_key (·.uid) s.ws _ hg v]
      cases hf : s.ws.find? (fun w => decide (w.uid = v)) with
      | none => rw [hf] at hc; exact hc
      | some w =>
        rw [hf] at hc
        simp only [Option.map_some, Option.getD_some] at hc ⊢
        split <;> exact hc
    · intro v p ho hn hl
      apply hn
      unfold Listed at *
      simp only [getW] at hl ⊢
      rw [find_map_key (·.uid) s.ws _ hg v] at hl
      cases hf : s.ws.find? (fun w => decide (w.uid = v)) with
      | none => rw [hf] at hl; exact hl
      | some w =>
        rw [hf] at hl
        simp only [Option.map_some, Option.getD_some] at hl ⊢
        split at hl
        · rcases List.mem_append.mp hl with hl | hl
          · exact hl
          · exfalso
            simp only [List.mem_cons, List.mem_nil_iff, or_false] at hl
            obtain ⟨o, ho1, ho2⟩ := List.mem_map.mp ho
            have := hpid.objLt o ho1
            omega
        · exact hl
    · intro p st h
      simp only at h
      split at h
      · exact Or.inl h
      · rcases List.mem_append.mp h with h | h
        · exact Or.inl h
        · simp at h
    · intro q hq
      simp only [hpr] at hq
      rcases List.mem_append.mp hq with hq | hq
      · exact Or.inl hq
      · right
        simp only [List.mem_range'_1] at hq
        omega
    · show s.k.nextPid ≤ (s.k.spawn).1.nextPid
      rw [hnp]; omega
    · intro _ p h
      have h' : p ∈ (s.objs ++ [({ pid := pid, wid := wid, started := s.k.now } : PObj)]).map (fun o : PObj => o.pid) := h
      rw [List.map_append] at h'
      rcases List.mem_append.mp h' with h' | h'
      · exact Or.inl h'
      · right
        simp only [List.map_cons, List.map_nil, List.mem_cons, List.mem_nil_iff, or_false] at h'
        rw [h']
        exact spawn_some_dc s.k pid hpid.kLt hr
    · intro p ho
      simp only [getO]
      rw [List.find?_append]
      obtain ⟨o, ho1, ho2⟩ := List.mem_map.mp ho
      cases hf : s.objs.find? (fun o => decide (o.pid = p)) with
      | none =>
        have := List.find?_eq_none.mp hf o ho1
        simp [ho2] at this
      | some o' => rfl

theorem nonine_spawnAdopt (u wid : Nat) (s : State) : NoNine s (spawnAdopt u wid s).2 := by
  cases hr : (s.k.spawn).2 with
  | none =>
    rw [spawnAdopt_none u wid s hr]
    refine ⟨?_, fun w hw h9 => ⟨w, hw, h9⟩⟩
    simp only
    split
    · exact ⟨[], by simp, fun _ h => by cases h⟩
    · exact ⟨[Obs.execfail], rfl, by simp [Obs.isNine]⟩
  | some pid =>
    rw [spawnAdopt_some u wid s pid hr]
    refine ⟨?_, ?_⟩
    · simp only
      split
      · exact ⟨[], by simp, fun _ h => by cases h⟩
      · exact ⟨[_], rfl, by simp [Obs.isNine]⟩
    · intro w' hw' h9
      obtain ⟨w, hw, rfl⟩ := List.mem_map.mp hw'
      refine ⟨w, hw, ?_⟩
      split at h9 <;> exact h9

theorem squiet_spawnAdopt (u wid : Nat) (s : State) (hpid : PidInv s) : SQuiet s (spawnAdopt u wid s).2 :=
  ⟨squietW_spawnAdopt u wid s hpid, nonine_spawnAdopt u wid s⟩

/-! ### `Pres (SI J)` for the quiet writers -/

theorem siLeafS0 (J : JMode) : LeafS0 (SI J) where
  emit := fun o ho hn => SI.pres_quiet (squiet_emit o ho hn) (pidLeafW.emit o)
  kKillN := fun p sg via h => SI.pres_quiet (squiet_kKill p sg via h) (kKill_pres pidLeafW.toLeafK p sg via)
  kWaitpid := fun pid => SI.pres_quiet (squiet_kWaitpid pid) (kWaitpid_pres pidLeafW.toLeafK pid)
  kStateOf := fun pid => SI.pres_quiet (squiet_kStateOf pid) (kStateOf_pres pidLeafW.toLeafK pid)
  kChildren := fun pid r => SI.pres_quiet (squiet_kChildren pid r) (kChildren_pres pidLeafW.toLeafK pid r)
  kSleep := fun ms => SI.pres_quiet (squiet_kSleep ms) (kSleep_pres pidLeafW.toLeafK ms)
  emitEv := fun w t p x => SI.pres_quiet (squiet_emitEv w t p x) (pidLeafW.emitEv w t p x)
  popPid := fun u p => SI.pres_quiet (squiet_popPid u p) (pidLeafW.popPid u p)
  bumpHook := fun u h i => SI.pres_quiet (squiet_bumpHook u h i) (pidLeafW.bumpHook u h i)
  setRc := fun p rc => SI.pres_quiet (squiet_setRc p rc) (pidLeafW.setRc p rc)
  markBlocked := SI.pres_quiet squiet_markBlocked pidLeafW.markBlocked

/-- without a justification claim, a SIGKILL through `send_signal` is an ordinary signal -/
theorem siLeafS : LeafS (SI none) where
  toLeafS0 := siLeafS0 none
  kKill9 := fun p => SI.pres_quietW (squietW_kKill p 9 "") (kKill_pres pidLeafW.toLeafK p 9 "")

attribute [aesop safe apply (rule_sets := [Sg])] siLeafS0 siLeafS

section
variable {J : JMode}

@[aesop safe apply (rule_sets := [Sg])]
theorem freshId_si : Pres (SI J) freshId := SI.pres_quiet squiet_freshId pidLeafX.freshId
@[aesop safe apply (rule_sets := [Sg])]
theorem pushSleeper_si (sl : Sleeper) : Pres (SI J) (pushSleeper sl) := SI.pres_quiet (squiet_pushSleeper sl) (pidLeafX.pushSleeper sl)
@[aesop safe apply (rule_sets := [Sg])]
theorem pushTop_si (t : TopFut) : Pres (SI J) (pushTop t) := SI.pres_quiet (squiet_pushTop t) (pidLeafX.pushTop t)
@[aesop safe apply (rule_sets := [Sg])]
theorem armTop_si (t : Nat) : Pres (SI J) (armTop t) := SI.pres_quiet (squiet_armTop t) (pidLeafX.armTop t)
@[aesop safe apply (rule_sets := [Sg])]
theorem finishTop_si (t : Nat) (v : Val) : Pres (SI J) (finishTop t v) := SI.pres_quiet (squiet_finishTop t v) (pidLeafX.finishTop t v)
@[aesop safe apply (rule_sets := [Sg])]
theorem topAddCb_si (t : Nat) (cb : TopCb) : Pres (SI J) (topAddCb t cb) := SI.pres_quiet (squiet_topAddCb t cb) (pidLeafX.topAddCb t cb)
@[aesop safe apply (rule_sets := [Sg])]
theorem clearDone_si : Pres (SI J) clearDone := SI.pres_quiet squiet_clearDone pidLeafX.clearDone
@[aesop safe apply (rule_sets := [Sg])]
theorem setSlot_si (v : Option String) : Pres (SI J) (setSlot v) := SI.pres_quiet (squiet_setSlot v) (pidLeafX.setSlot v)
@[aesop safe apply (rule_sets := [Sg])]
theorem setStopping_si : Pres (SI J) setStopping := SI.pres_quiet squiet_setStopping pidLeafX.setStopping
@[aesop safe apply (rule_sets := [Sg])]
theorem setRestarting_si : Pres (SI J) setRestarting := SI.pres_quiet squiet_setRestarting pidLeafX.setRestarting
@[aesop safe apply (rule_sets := [Sg])]
theorem clearRestarting_si (b : Bool) : Pres (SI J) (clearRestarting b) := SI.pres_quiet (squiet_clearRestarting b) (pidLeafX.clearRestarting b)
@[aesop safe apply (rule_sets := [Sg])]
theorem setLoopStop_si (b : Bool) : Pres (SI J) (setLoopStop b) := SI.pres_quiet (squiet_setLoopStop b) (pidLeafX.setLoopStop b)
@[aesop safe apply (rule_sets := [Sg])]
theorem setSocketEvent_si (b : Bool) : Pres (SI J) (setSocketEvent b) := SI.pres_quiet (squiet_setSocketEvent b) (pidLeafX.setSocketEvent b)
@[aesop safe apply (rule_sets := [Sg])]
theorem setSockReady_si (b : Bool) : Pres (SI J) (setSockReady b) := SI.pres_quiet (squiet_setSockReady b) (pidLeafX.setSockReady b)
@[aesop safe apply (rule_sets := [Sg])]
theorem setClosed_si : Pres (SI J) setClosed := SI.pres_quiet squiet_setClosed pidLeafX.setClosed
@[aesop safe apply (rule_sets := [Sg])]
theorem unregister_si (u : Nat) : Pres (SI J) (unregisterWatcher u) := SI.pres_quiet (squiet_unregister u) (pidLeafX.unregister u)
@[aesop safe apply (rule_sets := [Sg])]
theorem setStatus_si (u : Nat) (st : Status) : Pres (SI J) (setStatus u st) := SI.pres_quiet (squiet_setStatus u st) (pidLeafX.setStatus u st)
@[aesop safe apply (rule_sets := [Sg])]
theorem trySetNp_si (u : Nat) (n : Int) : Pres (SI J) (trySetNp u n) := SI.pres_quiet (squiet_trySetNp u n) (pidLeafX.trySetNp u n)
@[aesop safe apply (rule_sets := [Sg])]
theorem emitRep_si (c : String) (i : JVal) (a b d : String) : Pres (SI J) (emitRep c i a b d) :=
  SI.pres_quiet (squiet_emitRep c i a b d) (pidLeafX.emitRep c i a b d)
@[aesop safe apply (rule_sets := [Sg])]
theorem fireSleeper_si (sl : Sleeper) : Pres (SI J) (fireSleeper sl) := SI.pres_quiet (squiet_fireSleeper sl) (pidLeafX.fireSleeper sl)
@[aesop safe apply (rule_sets := [Sg])]
theorem spawnAdopt_si (u wid : Nat) : Pres (SI J) (spawnAdopt u wid) :=
  fun s h => h.of_quiet (pidLeafX.spawnAdopt u wid s h.pid) (squiet_spawnAdopt u wid s h.pid)
theorem emit_si (o : Obs) (ho : o.isReap = false) (hn : o.isNine = false) : Pres (SI J) (emit o) := (siLeafS0 J).emit o ho hn
@[aesop safe apply (rule_sets := [Sg])]
theorem xKill_si (pid sig : Nat) : Pres (SI J) (xKill pid sig) :=
  SI.pres_quiet (squiet_xKill pid sig) (xKill_pres pidLeafW.toLeafK pid sig)
theorem updK_si (f : Kernel → Kernel) (hf : ∀ k, KGMono k (f k)) (hn : ∀ k, KNMono k (f k)) (hs : ∀ k, KStep k (f k))
    (hd : ∀ k, k.PosK → KDMono k (f k)) : Pres (SI J) (updK f) :=
  SI.pres_quiet (squiet_updK f hf hn hs hd) (updK_pres pidLeafW.toLeafK f hs)

end

/-- `set_opt` may write `stop_signal`; `add_watcher` brings a watcher with any `stop_signal`: both only
    without a justification claim (they belong to the requests `set` and `add`) -/
@[aesop safe apply (rule_sets := [Sg])]
theorem setWOpt_si (u : Nat) (c : OptChange) : Pres (SI none) (setWOpt u c) := SI.pres_quietW (squietW_setWOpt u c) (pidLeafX.setWOpt u c)
theorem registerNew_si (w : Watcher) (hw : w.pids = []) : Pres (SI none) (registerNew w) :=
  SI.pres_quietW (squietW_registerNew w hw) (pidLeafX.registerNew w hw)

/-- … and in any mode when they do not bring `stop_signal = 9` in -/
theorem setWOpt_si_j {J : JMode} (u : Nat) (c : OptChange) (hc : c ≠ .stopSignal 9) : Pres (SI J) (setWOpt u c) :=
  SI.pres_quiet (squiet_setWOpt u c hc) (pidLeafX.setWOpt u c)
theorem registerNew_si_j {J : JMode} (w : Watcher) (hw : w.pids = []) (h9 : w.stopSignal ≠ 9) : Pres (SI J) (registerNew w) :=
  SI.pres_quiet (fun s => ⟨squietW_registerNew w hw s, nonine_registerNew w h9 s⟩) (pidLeafX.registerNew w hw)

/-! ### the coroutine heap -/

section
variable {J : JMode}


/-- a change of the coroutine heap only: what continuations know is untouched -/
theorem Ext.of_heap {s s' : State} (hl : s'.log = s.log) (hb : s'.blocked = s.blocked) (ho : s'.objs = s.objs)
    (hw : s'.ws = s.ws) (hk : s'.k = s.k) : Ext s s' :=
  (SQuiet.of_eq (s' := { s' with frames := s.frames, ready := s.ready }) hl hb ho hw hk rfl rfl).ext |> fun e =>
    { log := e.log, blocked := e.blocked, obj := e.obj, hook := e.hook, unl := e.unl, gone := e.gone, reap := e.reap,
      ndc := e.ndc, kpids := e.kpids, npid := e.npid, dpar := e.dpar, objd := e.objd, stop := e.stop }

theorem countP_le_of_imp {α : Type} (l : List α) (p q : α → Bool) (h : ∀ x ∈ l, p x = true → q x = true) :
    l.countP p ≤ l.countP q := List.countP_mono_left h

theorem countP_split {α : Type} (l : List α) (a b : α → Bool) :
    l.countP a = l.countP (fun x => a x && b x) + l.countP (fun x => a x && !b x) := by
  induction l with
  | nil => rfl
  | cons x xs ih =>
    simp only [List.countP_cons, ih]
    cases a x <;> cases b x <;> simp <;> omega

theorem pendCount_pos_of_frame {s : State} {f : Frame} {p : Nat} (hf : f ∈ s.frames) (hp : f.k.loopPid = some p) :
    1 ≤ pendCount s p := by
  unfold pendCount
  have : 0 < s.frames.countP (fun f => f.k.loopPid == some p) := List.countP_pos_iff.mpr ⟨f, hf, by simp [hp]⟩
  omega

theorem pendCount_pos_of_ready {s : State} {r : Ready} {p : Nat} (hr : r ∈ s.ready) (hp : r.loopPid = some p) :
    1 ≤ pendCount s p := by
  unfold pendCount
  have : 0 < s.ready.countP (fun r => r.loopPid == some p) := List.countP_pos_iff.mpr ⟨r, hr, by simp [hp]⟩
  omega

theorem pushFrame_si (f : Frame) (s : State) (h : SI J s) (hk : KOk s f.k)
    (hc : ∀ p, f.k.loopPid = some p → pendCount s p = 0) : SI J (pushFrame f s).2 := by
  have e : Ext s (pushFrame f s).2 := Ext.of_heap rfl rfl rfl rfl rfl
  refine ⟨pidLeafX.pushFrame f s h.pid, ?_, ?_, ?_, h.reap, h.pos, h.wpar, fun jm hj => (h.just jm hj).mono e.toExt0 (NoNine.of_eq rfl rfl rfl)⟩
  · intro g hg
    simp only [pushFrame, modS] at hg
    rcases List.mem_append.mp hg with hg | hg
    · exact (h.fr g hg).mono e
    · simp only [List.mem_singleton] at hg
      rw [hg]; exact hk.mono e
  · intro r hr k hrk
    exact (h.rd r hr k hrk).mono e
  · intro p
    have hu := h.uniq p
    unfold pendCount at *
    simp only [pushFrame, modS, List.countP_append, List.countP_cons, List.countP_nil]
    by_cases hp : f.k.loopPid = some p
    · have := hc p hp
      unfold pendCount at this
      simp [hp]; omega
    · simp [hp]; omega

theorem removeFrame_si (fid : Nat) : Pres (SI J) (removeFrame fid) := by
  intro s h
  have e : Ext s (removeFrame fid s).2 := Ext.of_heap rfl rfl rfl rfl rfl
  refine ⟨pidLeafX.removeFrame fid s h.pid, ?_, ?_, ?_, h.reap, h.pos, h.wpar, fun jm hj => (h.just jm hj).mono e.toExt0 (NoNine.of_eq rfl rfl rfl)⟩
  · intro g hg
    simp only [removeFrame, modS] at hg
    exact (h.fr g (List.mem_filter.mp hg).1).mono e
  · intro r hr k hrk
    exact (h.rd r hr k hrk).mono e
  · intro p
    have hu := h.uniq p
    unfold pendCount at *
    simp only [removeFrame, modS]
    have := List.countP_le_length (p := fun f : Frame => f.k.loopPid == some p) (l := s.frames)
    have h2 : (s.frames.filter (fun x => decide (x.fid ≠ fid))).countP (fun f => f.k.loopPid == some p) ≤
        s.frames.countP (fun f => f.k.loopPid == some p) :=
      List.Sublist.countP_le (List.filter_sublist)
    omega

/-- removing the frame of a pending kill loop leaves no loop pending for its pid -/
theorem pendCount_removeFrame {s : State} (h : SI J s) {f : Frame} (hf : f ∈ s.frames) {p : Nat} (hp : f.k.loopPid = some p) :
    pendCount (removeFrame f.fid s).2 p = 0 := by
  have hu := h.uniq p
  unfold pendCount at *
  simp only [removeFrame, modS]
  have h2 : (s.frames.filter (fun x => decide (x.fid ≠ f.fid))).countP (fun g => g.k.loopPid == some p) + 1 ≤
      s.frames.countP (fun g => g.k.loopPid == some p) := by
    rw [List.countP_filter]
    have hsplit := countP_split s.frames (fun g => g.k.loopPid == some p) (fun g => decide (g.fid ≠ f.fid))
    have hpos : 0 < s.frames.countP (fun g => (g.k.loopPid == some p) && !decide (g.fid ≠ f.fid)) :=
      List.countP_pos_iff.mpr ⟨f, hf, by simp [hp]⟩
    omega
  omega

theorem armFrame_si (fid : Nat) : Pres (SI J) (armFrame fid) := by
  intro s h
  have e : Ext s (armFrame fid s).2 := Ext.of_heap rfl rfl rfl rfl rfl
  refine ⟨pidLeafX.armFrame fid s h.pid, ?_, ?_, ?_, h.reap, h.pos, h.wpar, fun jm hj => (h.just jm hj).mono e.toExt0 (NoNine.of_eq rfl rfl rfl)⟩
  · intro g hg
    simp only [armFrame, modS] at hg
    obtain ⟨g0, hg0, rfl⟩ := List.mem_map.mp hg
    have := (h.fr g0 hg0).mono e
    split
    · exact this
    · exact this
  · intro r hr k hrk
    exact (h.rd r hr k hrk).mono e
  · intro p
    have hu := h.uniq p
    unfold pendCount at *
    simp only [armFrame, modS, List.countP_map]
    have : (fun f : Frame => f.k.loopPid == some p) ∘ (fun g => if g.fid = fid then { g with armed := true } else g) =
        fun f => f.k.loopPid == some p := by
      funext g; simp only [Function.comp]; split <;> rfl
    rw [this]; exact hu

theorem setFrameK_si (fid : Nat) (k : Kont) (hk : k.free = true) : Pres (SI J) (setFrameK fid k) := by
  intro s h
  have e : Ext s (setFrameK fid k s).2 := Ext.of_heap rfl rfl rfl rfl rfl
  refine ⟨pidLeafX.setFrameK fid k s h.pid, ?_, ?_, ?_, h.reap, h.pos, h.wpar, fun jm hj => (h.just jm hj).mono e.toExt0 (NoNine.of_eq rfl rfl rfl)⟩
  · intro g hg
    simp only [setFrameK, modS] at hg
    obtain ⟨g0, hg0, rfl⟩ := List.mem_map.mp hg
    split
    · exact KOk.of_free hk
    · exact (h.fr g0 hg0).mono e
  · intro r hr k' hrk
    exact (h.rd r hr k' hrk).mono e
  · intro p
    have hu := h.uniq p
    unfold pendCount at *
    simp only [setFrameK, modS, List.countP_map]
    have : s.frames.countP ((fun f : Frame => f.k.loopPid == some p) ∘ (fun g => if g.fid = fid then { g with k := k } else g)) ≤
        s.frames.countP (fun f => f.k.loopPid == some p) := by
      apply countP_le_of_imp
      intro g _ hg
      simp only [Function.comp] at hg
      split at hg
      · simp [Kont.loopPid_of_free hk] at hg
      · exact hg
    omega

theorem enqueue_si (r : Ready) (s : State) (h : SI J s) (hk : ∀ k, r.kont = some k → KOk s k)
    (hc : ∀ p, r.loopPid = some p → pendCount s p = 0) : SI J (enqueue r s).2 := by
  have e : Ext s (enqueue r s).2 := Ext.of_heap rfl rfl rfl rfl rfl
  refine ⟨pidLeafX.enqueue r s h.pid, ?_, ?_, ?_, h.reap, h.pos, h.wpar, fun jm hj => (h.just jm hj).mono e.toExt0 (NoNine.of_eq rfl rfl rfl)⟩
  · intro g hg
    exact (h.fr g hg).mono e
  · intro r' hr' k hrk
    simp only [enqueue, modS] at hr'
    rcases List.mem_append.mp hr' with hr' | hr'
    · exact (h.rd r' hr' k hrk).mono e
    · simp only [List.mem_singleton] at hr'
      subst hr'
      exact (hk k hrk).mono e
  · intro p
    have hu := h.uniq p
    unfold pendCount at *
    simp only [enqueue, modS, List.countP_append, List.countP_cons, List.countP_nil]
    by_cases hp : r.loopPid = some p
    · have := hc p hp
      unfold pendCount at this
      simp [hp]; omega
    · simp [hp]; omega

/-- ready entries that carry no continuation -/
theorem enqueue_plain_si (r : Ready) (hr : r.kont = none) : Pres (SI J) (enqueue r) := fun s h =>
  enqueue_si r s h (fun k hk => by rw [hr] at hk; cases hk) (fun p hp => by simp [Ready.loopPid, hr] at hp)

@[aesop safe apply (rule_sets := [Sg])]
theorem enqueueCallback_si (n : String) : Pres (SI J) (enqueue (.callback n)) := enqueue_plain_si _ rfl
@[aesop safe apply (rule_sets := [Sg])]
theorem enqueueTopCb_si (cb : TopCb) (v : Val) : Pres (SI J) (enqueue (.topCb cb v)) := enqueue_plain_si _ rfl
@[aesop safe apply (rule_sets := [Sg])]
theorem enqueueCloseCtl_si : Pres (SI J) (enqueue .closeCtl) := enqueue_plain_si _ rfl
theorem enqueueResume_free_si (k : Kont) (v : Val) (w : Waiter) (hk : k.free = true) : Pres (SI J) (enqueue (.resume k v w)) := fun s h =>
  enqueue_si _ s h (fun k' hk' => by simp only [Ready.kont, Option.some.injEq] at hk'; subst hk'; exact KOk.of_free hk)
    (fun p hp => by simp [Ready.loopPid, Ready.kont, Kont.loopPid_of_free hk] at hp)

theorem dequeue_si : Pres (SI J) dequeue := by
  intro s h
  have e : Ext s (dequeue s).2 := Ext.of_heap rfl rfl rfl rfl rfl
  refine ⟨pidLeafX.dequeue s h.pid, ?_, ?_, ?_, h.reap, h.pos, h.wpar, fun jm hj => (h.just jm hj).mono e.toExt0 (NoNine.of_eq rfl rfl rfl)⟩
  · intro g hg
    exact (h.fr g hg).mono e
  · intro r hr k hrk
    simp only [dequeue, modS] at hr
    exact (h.rd r (List.mem_of_mem_tail hr) k hrk).mono e
  · intro p
    have hu := h.uniq p
    unfold pendCount at *
    simp only [dequeue, modS]
    have : s.ready.tail.countP (fun r => r.loopPid == some p) ≤ s.ready.countP (fun r => r.loopPid == some p) :=
      List.Sublist.countP_le (List.tail_sublist _)
    omega

/-- taking the first ready entry off the queue: its continuation may run -/
theorem taskOk_dequeue {s : State} (h : SI J s) {k : Kont} {v : Val} {w : Waiter} {rest : List Ready}
    (hr : s.ready = .resume k v w :: rest) : TaskOk J (dequeue s).2 (.resume k v w) := by
  have e : Ext s (dequeue s).2 := Ext.of_heap rfl rfl rfl rfl rfl
  refine ⟨(h.rd (.resume k v w) (by rw [hr]; exact List.mem_cons_self) k rfl).mono e, ?_⟩
  intro p hp
  have hu := h.uniq p
  unfold pendCount at *
  simp only [dequeue, modS, hr, List.tail_cons]
  rw [hr] at hu
  simp only [List.countP_cons] at hu
  have : (Ready.resume k v w).loopPid = some p := by simp [Ready.loopPid, Ready.kont, hp]
  simp [this] at hu
  omega

/-! ### the `stopping` flag -/

theorem ext0_setObjStopping (p : Nat) (b : Bool) (s : State) : Ext0 s (setObjStopping p b s).2 := by
  have hmap : (setObjStopping p b s).2.objs.map (·.pid) = s.objs.map (·.pid) := by
    simp only [setObjStopping, modO, modS, List.map_map]
    have : (fun o : PObj => o.pid) ∘ (fun o => if o.pid = p then { o with stopping := b } else o) = fun o => o.pid := by
      funext o; simp only [Function.comp]; split <;> rfl
    rw [this]
  refine Ext0.ofK ⟨fun o h => h, fun h => h, ?_, fun u h hh => hh, fun u q _ hn => hn, fun q h => h, fun q st h => Or.inl h,
    fun q h => h⟩ rfl ?_
  · intro q h
    unfold HasObj at *
    rw [hmap]; exact h
  · intro q h
    unfold HasObj at *
    rw [hmap] at h; exact h

theorem stopping_setObjStopping_ne (p q : Nat) (b : Bool) (s : State) (hne : q ≠ p) :
    (getO q (setObjStopping p b s).2).1.stopping = (getO q s).1.stopping := by
  simp only [getO, setObjStopping, modO, modS]
  rw [find_map_key (·.pid) s.objs _ (by intro o; split <;> rfl) q]
  cases hf : s.objs.find? (fun o => decide (o.pid = q)) with
  | none => rfl
  | some o =>
    have hoq : o.pid = q := by
      have := List.find?_some hf
      simpa using this
    simp only [Option.map_some, Option.getD_some]
    have : ¬ o.pid = p := by rw [hoq]; exact hne
    simp [this]

theorem stopping_setObjStopping_self (p : Nat) (b : Bool) (s : State) (ho : HasObj s p) :
    (getO p (setObjStopping p b s).2).1.stopping = b := by
  simp only [getO, setObjStopping, modO, modS]
  rw [find_map_key (·.pid) s.objs _ (by intro o; split <;> rfl) p]
  obtain ⟨o, ho1, ho2⟩ := List.mem_map.mp ho
  cases hf : s.objs.find? (fun o => decide (o.pid = p)) with
  | none =>
    have := List.find?_eq_none.mp hf o ho1
    simp [ho2] at this
  | some o' =>
    have hoq : o'.pid = p := by
      have := List.find?_some hf
      simpa using this
    simp [hoq]

/-- setting the flag: every pending loop keeps what it knows -/
theorem setObjStopping_true_si (p : Nat) : Pres (SI J) (setObjStopping p true) := by
  intro s h
  have e0 := ext0_setObjStopping p true s
  have hst : ∀ k, KOk s k → ∀ q, k.loopPid = some q → Stopping (setObjStopping p true s).2 q := by
    intro k hk q hq
    cases k <;> simp only [Kont.loopPid, Option.some.injEq] at hq <;> try cases hq
    have hl : LoopOk s _ _ _ _ _ := hk
    unfold Stopping
    by_cases hqp : q = p
    · subst hqp
      exact stopping_setObjStopping_self q true s hl.obj
    · rw [stopping_setObjStopping_ne p q true s hqp]; exact hl.stopping
  refine ⟨pidLeafW.setObjStopping p true s h.pid, ?_, ?_, h.uniq, h.reap, h.pos.ext e0, SI.wpar_ext h.pos h.wpar e0, fun jm hj => (h.just jm hj).mono e0 (NoNine.of_eq rfl rfl rfl)⟩
  · intro g hg
    exact (h.fr g hg).mono0 e0 (hst _ (h.fr g hg))
  · intro r hr k hrk
    exact (h.rd r hr k hrk).mono0 e0 (hst _ (h.rd r hr k hrk))

/-- clearing the flag of a pid for which no loop is pending -/
theorem setObjStopping_false_si (p : Nat) (s : State) (h : SI J s) (hc : pendCount s p = 0) : SI J (setObjStopping p false s).2 := by
  have e0 := ext0_setObjStopping p false s
  have hst : ∀ k, KOk s k → (∀ q, k.loopPid = some q → q ≠ p) → ∀ q, k.loopPid = some q → Stopping (setObjStopping p false s).2 q := by
    intro k hk hne q hq
    have hqp := hne q hq
    cases k <;> simp only [Kont.loopPid, Option.some.injEq] at hq <;> try cases hq
    have hl : LoopOk s _ _ _ _ _ := hk
    unfold Stopping
    rw [stopping_setObjStopping_ne p q false s hqp]; exact hl.stopping
  refine ⟨pidLeafW.setObjStopping p false s h.pid, ?_, ?_, h.uniq, h.reap, h.pos.ext e0, SI.wpar_ext h.pos h.wpar e0, fun jm hj => (h.just jm hj).mono e0 (NoNine.of_eq rfl rfl rfl)⟩
  · intro g hg
    refine (h.fr g hg).mono0 e0 (hst _ (h.fr g hg) ?_)
    intro q hq hqp
    subst hqp
    have := pendCount_pos_of_frame (s := s) hg hq
    omega
  · intro r hr k hrk
    refine (h.rd r hr k hrk).mono0 e0 (hst _ (h.rd r hr k hrk) ?_)
    intro q hq hqp
    subst hqp
    have := pendCount_pos_of_ready (s := s) (r := r) (p := q) hr (by simp [Ready.loopPid, hrk, hq])
    omega

/-- no loop is pending for a pid whose `stopping` flag is not set -/
theorem pendCount_zero_of_not_stopping {s : State} (h : SI J s) {p : Nat} (hn : ¬ Stopping s p) : pendCount s p = 0 := by
  unfold pendCount
  have h1 : s.frames.countP (fun f => f.k.loopPid == some p) = 0 := by
    rw [List.countP_eq_zero]
    intro f hf hp
    simp only [beq_iff_eq] at hp
    have hk := h.fr f hf
    cases hfk : f.k <;> rw [hfk] at hp hk <;> simp only [Kont.loopPid, Option.some.injEq] at hp <;> try cases hp
    exact hn (LoopOk.stopping hk)
  have h2 : s.ready.countP (fun r => r.loopPid == some p) = 0 := by
    rw [List.countP_eq_zero]
    intro r hr hp
    simp only [beq_iff_eq] at hp
    cases r with
    | resume k v w =>
      have hk := h.rd _ hr k rfl
      simp only [Ready.loopPid, Ready.kont, Option.bind_some] at hp
      cases k <;> simp only [Kont.loopPid, Option.some.injEq] at hp <;> try cases hp
      exact hn (LoopOk.stopping hk)
    | _ => simp [Ready.loopPid, Ready.kont] at hp
  omega

end

end Circus.Core
