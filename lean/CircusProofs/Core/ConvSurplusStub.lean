import CircusProofs.Core.ConvSurplus
import CircusProofs.Core.ConvMulti
/-!
C01 convergence, part B continued: **a surplus of workers that ignore the stop signal**.  `manage_processes` calls
`kill_process` for the `m - N` oldest workers under one `gen.multi`; each sends the stop signal (ignored), marks its
`Process` stopping and parks on a 100 ms timer; every firing polls the worker (`poll()`), and after
`⌈graceful_timeout / 100 ms⌉` polls sends SIGKILL, waits for the worker and returns `True`.  When the last one has
returned the `gen.multi` completes, `manage_processes` pops the killed workers (through the ready queue), and the
check unwinds.  The polling phase is the one of Core/StopRunG.lean with another continuation below the `gen.multi`
(`manage_after_kill` instead of `kill_processes`' return) and over a subset of the watcher's workers.
-/
namespace Circus.Core

/-! ## Part 1: the kernel -/

theorem Kernel.escalated_pids {k : Kernel} (hk : k.Base) {pid : Nat} (hs : k.Stub pid) :
    ∀ p ∈ (k.escalated pid).procs, ∃ q ∈ k.procs, p.pid = q.pid := by
  intro p hp
  have h1 : (k.escalated pid).procs = ((k.bump 1).sigkilled pid).procs.map
      (fun q => if q.pid = pid then { q with st := .gone } else q) := rfl
  rw [h1, Kernel.sigkilled_procs (hk.bump 1) pid (Kernel.Stub.pid_ne_zero hk hs)] at hp
  obtain ⟨q1, hq1, rfl⟩ := List.mem_map.mp hp
  obtain ⟨q, hq, rfl⟩ := List.mem_map.mp hq1
  refine ⟨q, hq, ?_⟩
  by_cases h : q.pid = pid <;> simp [h]

theorem Kernel.escalated_still {k : Kernel} (hk : k.Base) (hst : k.Still) {pid : Nat} (hs : k.Stub pid) :
    (k.escalated pid).Still := by
  have hb := Kernel.escalated_base hk hs
  refine ⟨hb.armed, hb.faults, hb.nodoom, hst.noexecfail, Kernel.escalated_nozombie hk hs hst.nozombie, ?_⟩
  intro p hp
  obtain ⟨q, hq, hpq⟩ := Kernel.escalated_pids hk hs p hp
  show p.pid < k.nextPid
  rw [hpq]
  exact hst.lt q hq

/-! ## Part 2: the polling phase below `manage_after_kill` -/

/-- the state while the surplus workers `T` are being killed: the suspended callers `base`, the frame `fo` of
    `manage_processes`' continuation (its result goes to `par`), the `gen.multi` frame `fm`, the parked `kill_process`
    coroutines -/
def killingS (u m sig polls : Nat) (T : List Nat) (base : List Frame) (fo fm : Nat) (par : Waiter) (tops : List TopFut)
    (results : List (Nat × Val)) (Q : List QE)
    (k : Kernel) (a : Arbiter) (objs : List PObj) (w : Watcher) (dv : List (Nat × Val)) (nid : Nat) (log : List Obs) : State :=
  ⟨k, a, objs, [w],
    base ++ ({ fid := fo, k := .manageAfterKill u T, parent := par, armed := true } ::
      { fid := fm, k := .multi m results, parent := .frame fo 0, armed := true } :: Q.map (qFrame u sig polls fm)),
    Q.map qSleeper, tops, [], dv, nid, log, false⟩

theorem wake_opS (u m sig polls : Nat) (T : List Nat) (base : List Frame) (fo fm : Nat) (par : Waiter) (tops : List TopFut)
    (results : List (Nat × Val)) (h : QE) (tl : List QE)
    (k : Kernel) (a : Arbiter) (objs : List PObj) (w : Watcher) (dv : List (Nat × Val)) (nid : Nat) (log : List Obs)
    (hg : GB base fo fm) (hk : k.Base) (hsorted : QSorted (h :: tl)) (hids : fm < h.fid) :
    (stepOp .wake (updK Kernel.beginStep (killingS u m sig polls T base fo fm par tops results (h :: tl) k a objs w dv nid log)).2).2 =
      ⟨({ k.beginStep with now := max k.now h.dl } : Kernel), a, objs, [w],
        base ++ ({ fid := fo, k := .manageAfterKill u T, parent := par, armed := true } ::
          { fid := fm, k := .multi m results, parent := .frame fo 0, armed := true } :: tl.map (qFrame u sig polls fm)),
        tl.map qSleeper, tops,
        [.resume (.killWait u h.pid sig h.i polls) .unit (.frame fm h.idx)], dv, nid, log, false⟩ := by
  have htl : ∀ e ∈ tl, e.fid ≠ h.fid := fun e he => by have := (hsorted.1 e he).2; omega
  have hb : ∀ g ∈ base, g.fid ≠ h.fid := fun g hgm => by have := hg.lt g hgm; have := hg.fofm; omega
  have h1 : ¬ fo = h.fid := by have := hg.fofm; omega
  have h2 : ¬ fm = h.fid := by omega
  simp only [killingS, stepOp, bind, getS, updK, runK, earliest_head h tl hsorted, fireSleeper, modS]
  simp [qSleeper, qFrame, deliver, bind, getS, removeFrame, enqueue, modS, h1, h2, find_skip base _ h.fid hb,
    filter_skip base _ h.fid hb,
    filter_qFrames u sig polls fm h.fid tl htl, filter_qSleepers h.fid tl htl, hk.beginStep.setNow]
  exact ⟨rfl, htl⟩

/-- **a poll timer fires, graceful timeout not over**: the worker is still alive, its coroutine parks again
    with a fresh frame and timer, behind the others -/
theorem wake_reparkS (u m sig polls : Nat) (T : List Nat) (base : List Frame) (fo fm : Nat) (par : Waiter) (tops : List TopFut)
    (results : List (Nat × Val)) (h : QE) (tl : List QE)
    (k : Kernel) (a : Arbiter) (objs : List PObj) (w : Watcher) (dv : List (Nat × Val)) (nid : Nat) (log : List Obs)
    (hg : GB base fo fm) (hk : k.Base) (p : KProc) (hf : k.find h.pid = some p) (hr : p.st = .run)
    (o : PObj) (ho : objs.find? (fun o => decide (o.pid = h.pid)) = some o) (hrc : o.rc = none)
    (hi : h.i < polls) (hsorted : QSorted (h :: tl)) (hids : fm < h.fid) (hnid : ∀ e ∈ h :: tl, e.fid < nid)
    (hls : a.loopStop = false) :
    step (killingS u m sig polls T base fo fm par tops results (h :: tl) k a objs w dv nid log) .wake =
      killingS u m sig polls T base fo fm par tops results
        (tl ++ [{ h with i := h.i + 1, fid := nid, dl := max k.now h.dl + 100 }])
        (({ k.beginStep with now := max k.now h.dl } : Kernel).bump 1) a objs w dv (nid + 2) log := by
  have hkb : (({ k.beginStep with now := max k.now h.dl } : Kernel)).Base := hk.beginStep.setNow_base _
  unfold step
  rw [show stepM .wake (killingS u m sig polls T base fo fm par tops results (h :: tl) k a objs w dv nid log) =
      stepTail (stepOp .wake (updK Kernel.beginStep (killingS u m sig polls T base fo fm par tops results (h :: tl) k a objs w dv nid log)).2).2
    from stepM_eq _ _ rfl]
  rw [wake_opS u m sig polls T base fo fm par tops results h tl k a objs w dv nid log hg hk hsorted hids]
  have hfresh : ∀ g ∈ base ++ ({ fid := fo, k := .manageAfterKill u T, parent := par, armed := true } ::
          { fid := fm, k := .multi m results, parent := .frame fo 0, armed := true } :: tl.map (qFrame u sig polls fm)), g.fid ≠ nid := by
    intro g hgm
    have hn := hnid h (by simp)
    have := hg.fofm
    rcases List.mem_append.mp hgm with hgm | hgm
    · have := hg.lt g hgm; omega
    · simp only [List.mem_cons] at hgm
      rcases hgm with rfl | rfl | hgm
      · simp; omega
      · simp; omega
      · obtain ⟨e, he, rfl⟩ := List.mem_map.mp hgm
        have := hnid e (by simp [he])
        simp [qFrame]; omega
  have e1 : (100000 : Nat) = 99999 + 1 := rfl
  have e2 : (99999 : Nat) = 99998 + 1 := rfl
  have hset : settle 100000 ⟨({ k.beginStep with now := max k.now h.dl } : Kernel), a, objs, [w],
        base ++ ({ fid := fo, k := .manageAfterKill u T, parent := par, armed := true } ::
          { fid := fm, k := .multi m results, parent := .frame fo 0, armed := true } :: tl.map (qFrame u sig polls fm)),
        tl.map qSleeper, tops,
        [.resume (.killWait u h.pid sig h.i polls) .unit (.frame fm h.idx)], dv, nid, log, false⟩ =
      ((), killingS u m sig polls T base fo fm par tops results
        (tl ++ [{ h with i := h.i + 1, fid := nid, dl := max k.now h.dl + 100 }])
        (({ k.beginStep with now := max k.now h.dl } : Kernel).bump 1) a objs w dv (nid + 2) log) := by
    rw [e1, settle_cons_mk]
    simp only [runReady1]
    rw [exec_resume_mk]
    simp only [runResume]
    rw [killLoop_repark (exec 99999) u h.pid h.idx fm sig h.i polls w o p _ a objs _ _ _ [] dv nid log hkb hf hr ho hrc hi hfresh]
    rw [e2]
    rw [settle_nil 99998 _ rfl]
    simp [killingS, qFrame, qSleeper, List.map_append]
  rw [stepTail_eq _ (by rw [hset]; exact hls), hset]

/-- **a poll timer fires, graceful timeout over, other workers still pending**: SIGKILL, the worker is waited for,
    its `True` is recorded in the `gen.multi` -/
theorem wake_kill_moreS (u m polls : Nat) (T : List Nat) (base : List Frame) (fo fm : Nat) (par : Waiter) (tops : List TopFut)
    (results : List (Nat × Val)) (h : QE) (tl : List QE)
    (k : Kernel) (a : Arbiter) (objs : List PObj) (w : Watcher) (dv : List (Nat × Val)) (nid : Nat) (log : List Obs)
    (hg : GB base fo fm) (hw : SOk u w) (hk : k.Base) (hs : k.Stub h.pid) (hp : h.pid ∈ w.pids)
    (o : PObj) (ho : objs.find? (fun o => decide (o.pid = h.pid)) = some o) (hrc : o.rc = none)
    (hi : ¬ h.i < polls) (hsorted : QSorted (h :: tl)) (hids : fm < h.fid)
    (hmore : ¬ (results ++ [(h.idx, Val.bool true)]).length ≥ m) (hls : a.loopStop = false) :
    step (killingS u m w.stopSignal polls T base fo fm par tops results (h :: tl) k a objs w dv nid log) .wake =
      killingS u m w.stopSignal polls T base fo fm par tops (results ++ [(h.idx, Val.bool true)]) tl
        (({ k.beginStep with now := max k.now h.dl } : Kernel).escalated h.pid) a
        (objs.map (fun o => if o.pid = h.pid then { o with stopping := false, rc := some (-9) } else o)) w dv nid
        (evlog a (log ++ [Obs.sig h.pid 9 .run ""]) w "kill" (some h.pid) "-" ++ [Obs.reap h.pid 9]) := by
  have hkb : (({ k.beginStep with now := max k.now h.dl } : Kernel)).Base := hk.beginStep.setNow_base _
  have hsb : (({ k.beginStep with now := max k.now h.dl } : Kernel)).Stub h.pid := hs
  have htl4 : ∀ e ∈ tl, e.fid ≠ fm := fun e he => by have := (hsorted.1 e he).2; omega
  have hbm : ∀ g ∈ base, g.fid ≠ fm := fun g hgm => by have := hg.lt g hgm; have := hg.fofm; omega
  have hfofm : ¬ fo = fm := by have := hg.fofm; omega
  unfold step
  rw [show stepM .wake (killingS u m w.stopSignal polls T base fo fm par tops results (h :: tl) k a objs w dv nid log) =
      stepTail (stepOp .wake (updK Kernel.beginStep (killingS u m w.stopSignal polls T base fo fm par tops results (h :: tl) k a objs w dv nid log)).2).2
    from stepM_eq _ _ rfl]
  rw [wake_opS u m w.stopSignal polls T base fo fm par tops results h tl k a objs w dv nid log hg hk hsorted hids]
  have e1 : (100000 : Nat) = 99999 + 1 := rfl
  have e2 : (99999 : Nat) = 99998 + 1 := rfl
  have e3 : (99998 : Nat) = 99997 + 1 := rfl
  have hset : settle 100000 ⟨({ k.beginStep with now := max k.now h.dl } : Kernel), a, objs, [w],
        base ++ ({ fid := fo, k := .manageAfterKill u T, parent := par, armed := true } ::
          { fid := fm, k := .multi m results, parent := .frame fo 0, armed := true } :: tl.map (qFrame u w.stopSignal polls fm)),
        tl.map qSleeper, tops,
        [.resume (.killWait u h.pid w.stopSignal h.i polls) .unit (.frame fm h.idx)], dv, nid, log, false⟩ =
      ((), killingS u m w.stopSignal polls T base fo fm par tops (results ++ [(h.idx, Val.bool true)]) tl
        (({ k.beginStep with now := max k.now h.dl } : Kernel).escalated h.pid) a
        (objs.map (fun o => if o.pid = h.pid then { o with stopping := false, rc := some (-9) } else o)) w dv nid
        (evlog a (log ++ [Obs.sig h.pid 9 .run ""]) w "kill" (some h.pid) "-" ++ [Obs.reap h.pid 9])) := by
    rw [e1, settle_cons_mk]
    simp only [runReady1]
    rw [exec_resume_mk]
    simp only [runResume, killLoop_escalate _ _ _ _ _ _ _ hi]
    rw [killFinish_kill (exec 99999) u h.pid (.frame fm h.idx) w o _ a objs _ _ _ [] dv nid log hw hkb hsb hp ho hrc]
    simp [deliver, bind, getS, enqueue, modS, find_skip base _ fm hbm, hfofm]
    rw [e2, settle_cons_mk]
    simp only [runReady1]
    rw [exec_resume_mk]
    have hmore' : ¬ m ≤ results.length + 1 := by simpa using hmore
    simp [runResume, multiCollect, bind, getS, hmore', setFrameK, modS, find_skip base _ fm hbm, hfofm,
      map_skip base _ fm _ hbm, map_setK_qFrames u w.stopSignal polls fm _ tl htl4]
    rw [e3, settle_nil 99997 _ rfl]
    simp [killingS]
  rw [stepTail_eq _ (by rw [hset]; exact hls), hset]

/-! ## Part 3: the last SIGKILL — the `gen.multi` completes, the entries are popped, the check unwinds -/

/-- the callers of `manage_processes` inside the check, suspended (armed) -/
def checkBaseA (i : Nat) : List Frame :=
  [{ fid := i + 1, k := .manageWatchersTail false, parent := .top i, armed := true },
   { fid := i + 2, k := .multi 1 [], parent := .frame (i + 1) 0, armed := true }]

theorem checkBaseA_gb (i : Nat) : GB (checkBaseA i) (i + 3) (i + 4) :=
  ⟨fun g hg => by
    simp only [checkBaseA, List.mem_cons, List.mem_nil_iff, or_false] at hg
    rcases hg with rfl | rfl <;> simp, by omega⟩

/-- **`manage_after_kill` is resumed through the ready queue with every `kill_process` result `True`**: the killed
    workers leave the dict; `manage_processes` returns into the (armed) `gen.multi` of `manage_watchers`, which
    completes; `manage_watchers` ends; its future completes, releases the slot and runs the harness' callback -/
theorem surplus_finish_mk (n u i : Nat) (T : List Nat) (w : Watcher) (k : Kernel) (a : Arbiter) (objs : List PObj)
    (dv : List (Nat × Val)) (nid : Nat) (log : List Obs) (hu : w.uid = u) (hnd : T.Nodup) (hsub : ∀ p ∈ T, p ∈ w.pids) :
    settle (n + 7) ⟨k, a, objs, [w], checkBaseA i, [], [{ tid := i, cbs := [.release, .watch], armed := true }],
        [.resume (.manageAfterKill u T) (.list (T.map fun _ => Val.bool true)) (.frame (i + 2) 0)], dv, nid, log, false⟩ =
      ((), ⟨k, { a with slot := none }, objs, [{ w with pids := w.pids.filter (fun p => decide (p ∉ T)) }], [], [], [], [],
        (i, Val.unit) :: dv, nid, log, false⟩) := by
  rw [show n + 7 = (n + 6) + 1 from rfl, settle_cons_mk]
  simp only [runReady1]
  rw [exec_resume_mk]
  simp only [runResume]
  rw [popKilled_all (exec 99999) u (.frame (i + 2) 0) T w a k objs (checkBaseA i) [] _ [] dv nid log hu hnd hsub]
  simp [checkBaseA, deliver, bind, getS, enqueue, modS]
  rw [show n + 6 = (n + 5) + 1 from rfl, settle_cons_mk]
  simp only [runReady1]
  rw [exec_resume_mk]
  simp [runResume, multiCollect, bind, getS, removeFrame, modS]
  have hmr : multiResult 1 [(0, Val.unit)] = .list [.unit] := rfl
  rw [hmr, show (99999 : Nat) = 99998 + 1 from rfl, multi_done_mk 99998 i [.unit]]
  exact check_finishes_mk (n + 1) i [.unit] _ _ _ _ _ _ _ _

/-- all children returned `True` and every slot is there: the `gen.multi` delivers the list of `True`s -/
theorem multiResult_all_true (T : List Nat) (results : List (Nat × Val)) (hres : ∀ r ∈ results, r.2 = Val.bool true)
    (hcov : ∀ j < T.length, j ∈ results.map (·.1)) :
    multiResult T.length results = .list (T.map fun _ => Val.bool true) := by
  unfold multiResult
  have hlook : ∀ j < T.length, results.lookup j = some (Val.bool true) := by
    intro j hj
    obtain ⟨r, hr, hrj⟩ := List.mem_map.mp (hcov j hj)
    cases hl : results.lookup j with
    | none =>
      exfalso
      have := List.lookup_eq_none_iff.mp hl r hr
      simp [hrj] at this
    | some v =>
      have := hres _ (lookup_mem hl)
      simp only at this
      rw [this]
  have hvs : ((List.range T.length).map fun i => (results.lookup i).getD .unit) = T.map fun _ => Val.bool true := by
    apply List.ext_getElem
    · simp
    · intro i h1 h2
      simp only [List.getElem_map, List.getElem_range]
      rw [hlook i (by simpa using h1)]
      rfl
  simp only [hvs]
  have hnone : (T.map fun _ => Val.bool true).find? isExc = none := by
    apply List.find?_eq_none.mpr
    intro v hv
    obtain ⟨_, _, rfl⟩ := List.mem_map.mp hv
    simp [isExc]
  rw [hnone]

/-- **the last poll timer fires, graceful timeout over**: SIGKILL for the last surplus worker; the `gen.multi` is
    complete; `manage_after_kill` pops every killed worker; the check completes and the slot is released -/
theorem wake_kill_lastS (u i polls : Nat) (T : List Nat) (results : List (Nat × Val)) (h : QE)
    (k : Kernel) (a : Arbiter) (objs : List PObj) (w : Watcher) (dv : List (Nat × Val)) (nid : Nat) (log : List Obs)
    (hw : SOk u w) (hk : k.Base) (hs : k.Stub h.pid) (hp : h.pid ∈ w.pids)
    (o : PObj) (ho : objs.find? (fun o => decide (o.pid = h.pid)) = some o) (hrc : o.rc = none)
    (hi : ¬ h.i < polls) (hids : i + 4 < h.fid)
    (hres : ∀ r ∈ results, r.2 = Val.bool true)
    (hcov : ∀ j < T.length, j ∈ (results ++ [(h.idx, Val.bool true)]).map (·.1))
    (hlast : (results ++ [(h.idx, Val.bool true)]).length ≥ T.length)
    (hnd : T.Nodup) (hsub : ∀ p ∈ T, p ∈ w.pids) (hls : a.loopStop = false) :
    step (killingS u T.length w.stopSignal polls T (checkBaseA i) (i + 3) (i + 4) (.frame (i + 2) 0)
        [{ tid := i, cbs := [.release, .watch], armed := true }] results [h] k a objs w dv nid log) .wake =
      ⟨({ k.beginStep with now := max k.now h.dl } : Kernel).escalated h.pid, { a with slot := none },
        objs.map (fun o => if o.pid = h.pid then { o with stopping := false, rc := some (-9) } else o),
        [{ w with pids := w.pids.filter (fun p => decide (p ∉ T)) }], [], [], [], [], (i, Val.unit) :: dv, nid,
        evlog a (log ++ [Obs.sig h.pid 9 .run ""]) w "kill" (some h.pid) "-" ++ [Obs.reap h.pid 9], false⟩ := by
  have hg := checkBaseA_gb i
  have hkb : (({ k.beginStep with now := max k.now h.dl } : Kernel)).Base := hk.beginStep.setNow_base _
  have hsb : (({ k.beginStep with now := max k.now h.dl } : Kernel)).Stub h.pid := hs
  have hbm : ∀ g ∈ checkBaseA i, g.fid ≠ i + 4 := fun g hgm => by have := hg.lt g hgm; omega
  have hbo : ∀ g ∈ checkBaseA i, g.fid ≠ i + 3 := fun g hgm => by have := hg.lt g hgm; omega
  have hfofm : ¬ i + 3 = i + 4 := by omega
  have hfmfo : ¬ i + 4 = i + 3 := by omega
  have hvs := multiResult_all_true T (results ++ [(h.idx, Val.bool true)]) (by
    intro r hr
    rcases List.mem_append.mp hr with hr | hr
    · exact hres r hr
    · simp at hr; subst hr; rfl) hcov
  unfold step
  rw [show stepM .wake (killingS u T.length w.stopSignal polls T (checkBaseA i) (i + 3) (i + 4) (.frame (i + 2) 0)
        [{ tid := i, cbs := [.release, .watch], armed := true }] results [h] k a objs w dv nid log) =
      stepTail (stepOp .wake (updK Kernel.beginStep (killingS u T.length w.stopSignal polls T (checkBaseA i) (i + 3) (i + 4) (.frame (i + 2) 0)
        [{ tid := i, cbs := [.release, .watch], armed := true }] results [h] k a objs w dv nid log)).2).2
    from stepM_eq _ _ rfl]
  rw [wake_opS u T.length w.stopSignal polls T (checkBaseA i) (i + 3) (i + 4) (.frame (i + 2) 0) _ results h [] k a objs w dv nid log hg hk
    ⟨fun _ he => (by cases he), trivial⟩ hids]
  have e1 : (100000 : Nat) = 99999 + 1 := rfl
  have e2 : (99999 : Nat) = 99998 + 1 := rfl
  have hlast' : T.length ≤ results.length + 1 := by simpa using hlast
  simp only [List.map_nil]
  have hset : settle 100000 ⟨({ k.beginStep with now := max k.now h.dl } : Kernel), a, objs, [w],
        checkBaseA i ++ [{ fid := i + 3, k := .manageAfterKill u T, parent := .frame (i + 2) 0, armed := true },
          { fid := i + 4, k := .multi T.length results, parent := .frame (i + 3) 0, armed := true }], [],
        [{ tid := i, cbs := [.release, .watch], armed := true }],
        [.resume (.killWait u h.pid w.stopSignal h.i polls) .unit (.frame (i + 4) h.idx)], dv, nid, log, false⟩ =
      ((), ⟨({ k.beginStep with now := max k.now h.dl } : Kernel).escalated h.pid, { a with slot := none },
        objs.map (fun o => if o.pid = h.pid then { o with stopping := false, rc := some (-9) } else o),
        [{ w with pids := w.pids.filter (fun p => decide (p ∉ T)) }], [], [], [], [], (i, Val.unit) :: dv, nid,
        evlog a (log ++ [Obs.sig h.pid 9 .run ""]) w "kill" (some h.pid) "-" ++ [Obs.reap h.pid 9], false⟩) := by
    rw [e1, settle_cons_mk]
    simp only [runReady1]
    rw [exec_resume_mk]
    simp only [runResume, killLoop_escalate _ _ _ _ _ _ _ hi]
    rw [killFinish_kill (exec 99999) u h.pid (.frame (i + 4) h.idx) w o _ a objs _ _ _ [] dv nid log hw hkb hsb hp ho hrc]
    simp [deliver, bind, getS, enqueue, modS, find_skip (checkBaseA i) _ (i + 4) hbm, hfofm]
    rw [e2, settle_cons_mk]
    simp only [runReady1]
    rw [exec_resume_mk]
    simp [runResume, multiCollect, bind, getS, hlast', removeFrame, modS, find_skip (checkBaseA i) _ (i + 4) hbm, hfofm,
      filter_skip (checkBaseA i) _ (i + 4) hbm]
    rw [hvs, e2, exec_resume_mk]
    simp [runResume, deliver, bind, getS, removeFrame, enqueue, modS, find_skip (checkBaseA i) _ (i + 3) hbo,
      filter_skip (checkBaseA i) _ (i + 3) hbo, hfmfo]
    have hfin := surplus_finish_mk 99991 u i T w (({ k.beginStep with now := max k.now h.dl } : Kernel).escalated h.pid) a
      (objs.map (fun o => if o.pid = h.pid then { o with stopping := false, rc := some (-9) } else o)) dv nid
      (evlog a (log ++ [Obs.sig h.pid 9 .run ""]) w "kill" (some h.pid) "-" ++ [Obs.reap h.pid 9]) hw.uid hnd hsub
    simpa using hfin
  rw [stepTail_eq _ (by rw [hset]; exact hls), hset]

/-! ## Part 4: the invariant of the polling phase -/

/-- the data invariant of the polling phase over the surplus workers `T` (the analogue of `KI` of Core/StopRun.lean,
    which speaks about all workers of the watcher): the kernel stays still; the parked coroutines `Q` belong to
    pairwise different workers of `T`, each alive, stubborn, not yet waited for; the workers of `T` without a parked
    coroutine are gone; the slots of the `gen.multi` are all accounted for; every process outside `T` is what it was
    (`k0`); no pid has been allocated -/
structure KT (i polls : Nat) (T : List Nat) (w : Watcher) (k0 : Kernel) (results : List (Nat × Val)) (Q : List QE) (k : Kernel)
    (objs : List PObj) (nid : Nat) : Prop where
  base : k.Base
  still : k.Still
  sorted : QSorted Q
  ids : ∀ e ∈ Q, i + 4 < e.fid ∧ e.fid < nid
  dls : ∀ e ∈ Q, e.dl ≤ k.now + 100
  iub : ∀ e ∈ Q, e.i ≤ polls
  nodup : (Q.map (·.pid)).Nodup
  live : ∀ e ∈ Q, e.pid ∈ T ∧ e.pid ∈ w.pids ∧ k.Stub e.pid ∧
    ∃ o, objs.find? (fun o => decide (o.pid = e.pid)) = some o ∧ o.rc = none
  done : ∀ q ∈ T, q ∉ Q.map (·.pid) → k.GoneP q
  count : results.length + Q.length = T.length
  res : ∀ r ∈ results, r.2 = Val.bool true
  cover : ∀ j < T.length, j ∈ results.map (·.1) ∨ j ∈ Q.map (·.idx)
  other : ∀ q, q ∉ T → k.find q = k0.find q
  npid : k.nextPid = k0.nextPid

/-- a poll that finds the worker alive keeps the invariant; one unit of the measure is used -/
theorem KT.repark {i polls : Nat} {T : List Nat} {w : Watcher} {k0 : Kernel} {results : List (Nat × Val)} {h : QE} {tl : List QE}
    {k : Kernel} {objs : List PObj} {nid : Nat}
    (I : KT i polls T w k0 results (h :: tl) k objs nid) (hi : h.i < polls) :
    KT i polls T w k0 results (tl ++ [{ h with i := h.i + 1, fid := nid, dl := max k.now h.dl + 100 }])
      (({ k.beginStep with now := max k.now h.dl } : Kernel).bump 1) objs (nid + 2) ∧
    qMeasure polls (tl ++ [{ h with i := h.i + 1, fid := nid, dl := max k.now h.dl + 100 }]) + 1 =
      qMeasure polls (h :: tl) := by
  have hnow : (({ k.beginStep with now := max k.now h.dl } : Kernel).bump 1).now = max k.now h.dl := rfl
  refine ⟨⟨(I.base.beginStep.setNow_base _).bump 1, (I.still.beginStep.setNow_still _).bump 1, ?_, ?_, ?_, ?_, ?_, ?_, ?_, ?_,
    I.res, ?_, I.other, I.npid⟩, ?_⟩
  · apply QSorted.snoc _ _ I.sorted.2
    intro x hx
    have h1 := I.dls x (by simp [hx])
    have h2 := I.ids x (by simp [hx])
    simp only
    omega
  · intro e he
    rcases List.mem_append.mp he with he | he
    · have := I.ids e (by simp [he]); omega
    · simp only [List.mem_singleton] at he; subst he
      have := I.ids h (by simp); simp only; omega
  · intro e he
    rw [hnow]
    rcases List.mem_append.mp he with he | he
    · have := I.dls e (by simp [he]); omega
    · simp only [List.mem_singleton] at he; subst he; simp only; omega
  · intro e he
    rcases List.mem_append.mp he with he | he
    · exact I.iub e (by simp [he])
    · simp only [List.mem_singleton] at he; subst he; simp only; omega
  · have := I.nodup
    simp only [List.map_cons, List.nodup_cons] at this
    simp only [List.map_append, List.map_cons, List.map_nil]
    rw [List.nodup_append]
    refine ⟨this.2, by simp, ?_⟩
    intro x hx y hy
    simp only [List.mem_singleton] at hy; subst hy
    intro hxy; subst hxy; exact this.1 hx
  · intro e he
    rcases List.mem_append.mp he with he | he
    · exact I.live e (by simp [he])
    · simp only [List.mem_singleton] at he; subst he; exact I.live h (by simp)
  · intro q hq hnq
    apply I.done q hq
    intro hc; apply hnq
    simp only [List.map_cons, List.mem_cons] at hc
    simp only [List.map_append, List.map_cons, List.map_nil, List.mem_append, List.mem_singleton]
    rcases hc with hc | hc
    · exact Or.inr hc
    · exact Or.inl hc
  · have := I.count; simp only [List.length_cons, List.length_append, List.length_nil] at this ⊢; omega
  · intro j hj
    rcases I.cover j hj with h1 | h1
    · exact Or.inl h1
    · refine Or.inr ?_
      simp only [List.map_cons, List.mem_cons] at h1
      simp only [List.map_append, List.map_cons, List.map_nil, List.mem_append, List.mem_singleton]
      rcases h1 with h1 | h1
      · exact Or.inr h1
      · exact Or.inl h1
  · simp only [qMeasure, List.map_append, List.map_cons, List.map_nil, List.sum_append, List.sum_cons, List.sum_nil]
    omega

/-- an escalation keeps the invariant (for the remaining coroutines) -/
theorem KT.kill {i polls : Nat} {T : List Nat} {w : Watcher} {k0 : Kernel} {results : List (Nat × Val)} {h : QE} {tl : List QE}
    {k : Kernel} {objs : List PObj} {nid : Nat}
    (I : KT i polls T w k0 results (h :: tl) k objs nid) :
    KT i polls T w k0 (results ++ [(h.idx, Val.bool true)]) tl
      (({ k.beginStep with now := max k.now h.dl } : Kernel).escalated h.pid)
      (objs.map (fun o => if o.pid = h.pid then { o with stopping := false, rc := some (-9) } else o)) nid := by
  have hkb : (({ k.beginStep with now := max k.now h.dl } : Kernel)).Base := I.base.beginStep.setNow_base _
  have hks : (({ k.beginStep with now := max k.now h.dl } : Kernel)).Still := I.still.beginStep.setNow_still _
  obtain ⟨hT, hp, hs, o, ho, hrc⟩ := I.live h (by simp)
  have hsb : (({ k.beginStep with now := max k.now h.dl } : Kernel)).Stub h.pid := hs
  have hnow : (({ k.beginStep with now := max k.now h.dl } : Kernel).escalated h.pid).now = max k.now h.dl := rfl
  have hnd := I.nodup
  simp only [List.map_cons, List.nodup_cons] at hnd
  refine ⟨Kernel.escalated_base hkb hsb, Kernel.escalated_still hkb hks hsb, I.sorted.2, fun e he => I.ids e (by simp [he]), ?_,
    fun e he => I.iub e (by simp [he]), hnd.2, ?_, ?_, ?_, ?_, ?_, ?_, I.npid⟩
  · intro e he; rw [hnow]; have := I.dls e (by simp [he]); omega
  · intro e he
    obtain ⟨hT', hp', hs', o', ho', hrc'⟩ := I.live e (by simp [he])
    have hne : e.pid ≠ h.pid := fun hc => hnd.1 (hc ▸ List.mem_map.mpr ⟨e, he, rfl⟩)
    refine ⟨hT', hp', ?_, o', ?_, hrc'⟩
    · obtain ⟨p, hf, hrest⟩ := hs'
      exact ⟨p, by rw [Kernel.escalated_find_other hkb hsb hne]; exact hf, hrest⟩
    · rw [find_modO objs h.pid e.pid (fun o => { o with stopping := false, rc := some (-9) }) (fun _ => rfl), ho']
      have : o'.pid = e.pid := by simpa using List.find?_some ho'
      simp [this, hne]
  · intro q hq hnq
    by_cases hqh : q = h.pid
    · subst hqh
      exact Kernel.escalated_find_self hkb hsb
    · obtain ⟨p, hf, hg⟩ := I.done q hq (by
        simp only [List.map_cons, List.mem_cons, not_or]; exact ⟨hqh, hnq⟩)
      exact ⟨p, by rw [Kernel.escalated_find_other hkb hsb hqh]; exact hf, hg⟩
  · have := I.count; simp only [List.length_cons, List.length_append, List.length_nil] at this ⊢; omega
  · intro r hr
    rcases List.mem_append.mp hr with hr | hr
    · exact I.res r hr
    · simp only [List.mem_singleton] at hr; subst hr; rfl
  · intro j hj
    rcases I.cover j hj with h1 | h1
    · exact Or.inl (by simp [h1])
    · simp only [List.map_cons, List.mem_cons] at h1
      rcases h1 with h1 | h1
      · exact Or.inl (by simp [h1])
      · exact Or.inr h1
  · intro q hq
    have hne : q ≠ h.pid := fun he => hq (he ▸ hT)
    rw [Kernel.escalated_find_other hkb hsb hne]
    exact I.other q hq

/-! ## Part 5: the check parks in the `kill_process` coroutines -/

theorem entries_idxs (l : List Nat) : ∀ (idx nid now j : Nat), j < l.length → idx + j ∈ (entries l idx nid now).map (·.idx) := by
  induction l with
  | nil => intro _ _ _ j hj; simp at hj
  | cons p r ih =>
    intro idx nid now j hj
    cases j with
    | zero => simp [entries]
    | succ j =>
      have := ih (idx + 1) (nid + 2) now j (by simpa using hj)
      simp only [entries, List.map_cons, List.mem_cons]
      right
      rw [show idx + (j + 1) = idx + 1 + j by omega]
      exact this

theorem map_arm_qFrames (u sig polls fm x : Nat) (Q : List QE) (h : ∀ e ∈ Q, e.fid ≠ x) :
    (Q.map (qFrame u sig polls fm)).map (fun (g : Frame) => if g.fid = x then { g with armed := true } else g) =
      Q.map (qFrame u sig polls fm) := by
  rw [List.map_map]
  apply List.map_congr_left
  intro e he
  simp [qFrame, h e he]

/-- the `gen.multi`s of `manage_processes` and `manage_watchers` have started all their children: the four frames below
    the `kill_process` coroutines are armed, in this order -/
theorem arm_all_mk (u i m sig polls : Nat) (T : List Nat) (Q : List QE) (hq : ∀ e ∈ Q, i + 4 < e.fid)
    (k : Kernel) (a : Arbiter) (objs : List PObj) (w : Watcher) (sl : List Sleeper) (tops : List TopFut) (rd : List Ready)
    (dv : List (Nat × Val)) (nid : Nat) (log : List Obs) :
    (armFrame (i + 1) (armFrame (i + 2) (armFrame (i + 3) (armFrame (i + 4)
      ⟨k, a, objs, [w], ([{ fid := i + 1, k := .manageWatchersTail false, parent := .top i },
          { fid := i + 2, k := .multi 1 [], parent := .frame (i + 1) 0 }] ++
          [{ fid := i + 3, k := .manageAfterKill u T, parent := .frame (i + 2) 0 },
          { fid := i + 4, k := .multi m [], parent := .frame (i + 3) 0 }]) ++ Q.map (qFrame u sig polls (i + 4)),
        sl, tops, rd, dv, nid, log, false⟩).2).2).2).2 =
      ⟨k, a, objs, [w], checkBaseA i ++ ({ fid := i + 3, k := .manageAfterKill u T, parent := .frame (i + 2) 0, armed := true } ::
          { fid := i + 4, k := .multi m [], parent := .frame (i + 3) 0, armed := true } :: Q.map (qFrame u sig polls (i + 4))),
        sl, tops, rd, dv, nid, log, false⟩ := by
  have hq1 : ∀ e ∈ Q, e.fid ≠ i + 1 := fun e he => by have := hq e he; omega
  have hq2 : ∀ e ∈ Q, e.fid ≠ i + 2 := fun e he => by have := hq e he; omega
  have hq3 : ∀ e ∈ Q, e.fid ≠ i + 3 := fun e he => by have := hq e he; omega
  have hq4 : ∀ e ∈ Q, e.fid ≠ i + 4 := fun e he => by have := hq e he; omega
  simp only [armFrame, modS, List.map_append, map_arm_qFrames u sig polls (i + 4) _ Q hq4,
    map_arm_qFrames u sig polls (i + 4) _ Q hq3, map_arm_qFrames u sig polls (i + 4) _ Q hq2,
    map_arm_qFrames u sig polls (i + 4) _ Q hq1]
  simp [checkBaseA]

/-- the data of the start state, surplus of stubborn workers: as `SurplusOk`, but the surplus workers ignore the stop
    signal and die at once on SIGKILL -/
structure SurplusStubOk (u N : Nat) (w : Watcher) (s : State) : Prop where
  ws : s.ws = [w]
  wok : WOk u N w
  sok : SOk u w
  polls : 0 < pollsOf w.graceful
  nodup : w.pids.Nodup
  blocked : s.blocked = false
  still : s.k.Still
  base : s.k.Base
  procs : ∀ pid ∈ w.pids, (∃ p, s.k.find pid = some p ∧ p.st = .run) ∧
    ∃ o, s.objs.find? (fun o => decide (o.pid = pid)) = some o ∧ o.stopping = false ∧ o.rc = none
  stub : ∀ pid ∈ surplus s.objs w.pids N, s.k.Stub pid

/-- the polling phase with `n` timer firings to go -/
def MidS (u i polls : Nat) (T : List Nat) (w : Watcher) (a : Arbiter) (k0 : Kernel) (n : Nat) (s : State) : Prop :=
  ∃ results Q k objs nid log,
    s = killingS u T.length w.stopSignal polls T (checkBaseA i) (i + 3) (i + 4) (.frame (i + 2) 0)
      [{ tid := i, cbs := [.release, .watch], armed := true }] results Q k a objs w [] nid log ∧
    KT i polls T w k0 results Q k objs nid ∧ qMeasure polls Q = n

/-- **the periodic check with a surplus of workers that ignore the stop signal**: two status reads per worker; the
    `m - N` oldest get the stop signal (ignored), are marked stopping, and their `kill_process` coroutines park on
    100 ms timers, in sort order; the check stays parked with the slot taken; `(m - N) · ⌈graceful / 100 ms⌉` timer
    firings remain -/
theorem check_surplus_stub_parks (u N : Nat) (w : Watcher) (s : State) (hi : Idle u s) (hd : SurplusStubOk u N w s)
    (hgt : N < w.pids.length) :
    MidS u s.nextId (pollsOf w.graceful) (surplus s.objs w.pids N) w { s.a with slot := some "manage_watchers" } s.k
      ((surplus s.objs w.pids N).length * pollsOf w.graceful) (step s .check) := by
  obtain ⟨hws, hw, hso, hpolls, hnd, hb, hst, hk, hall, hstub⟩ := hd
  obtain ⟨hfr, hsl, htops, hrd, hslot, hls, hstp, hrst, hwat⟩ := hi
  obtain ⟨k, a, objs, ws, frames, sleepers, tops, ready, dv, i, log, blocked⟩ := s
  simp only at hws hb hst hk hall hstub hfr hsl htops hrd hslot hls hstp hrst hwat
  subst hws hb hfr hsl htops hrd
  have hobj : ∀ pid ∈ w.pids, ∃ o, objs.find? (fun x => decide (x.pid = pid)) = some o := fun pid hp => by
    obtain ⟨_, o, ho, _⟩ := hall pid hp; exact ⟨o, ho⟩
  have hTnd := surplus_nodup objs w.pids N hobj hnd
  have hTsub := surplus_sub objs w.pids N hobj
  have hTlen := surplus_length objs w.pids N hobj
  have hTne : surplus objs w.pids N ≠ [] := by
    intro h; rw [h] at hTlen; simp at hTlen; omega
  -- the kernel when the kills start, and afterwards
  let K0 : Kernel := (k.beginStep.bump 1).bump (2 * w.pids.length + 2 * (surplus objs w.pids N).length)
  let K1 : Kernel := K0.bump (2 * (surplus objs w.pids N).length)
  let Q0 := entries (surplus objs w.pids N) 0 (i + 5) K0.now
  let O1 := objs.map (fun o => if o.pid ∈ surplus objs w.pids N then { o with stopping := true } else o)
  have hK0b : K0.Base := (hk.beginStep.bump 1).bump _
  have hstep : stepM .check (⟨k, a, objs, [w], [], [], [], [], dv, i, log, false⟩ : State) =
      ((), killingS u (surplus objs w.pids N).length w.stopSignal (pollsOf w.graceful) (surplus objs w.pids N) (checkBaseA i)
        (i + 3) (i + 4) (.frame (i + 2) 0) [{ tid := i, cbs := [.release, .watch], armed := true }] [] Q0 K1
        { a with slot := some "manage_watchers" } O1 w [] (i + 5 + 2 * (surplus objs w.pids N).length)
        (parkLogs { a with slot := some "manage_watchers" } w (surplus objs w.pids N) log)) := by
    rw [stepM_eq _ _ rfl]
    have hop : stepOp .check (updK Kernel.beginStep (⟨k, a, objs, [w], [], [], [], [], dv, i, log, false⟩ : State)).2 =
        ((), killingS u (surplus objs w.pids N).length w.stopSignal (pollsOf w.graceful) (surplus objs w.pids N) (checkBaseA i)
          (i + 3) (i + 4) (.frame (i + 2) 0) [{ tid := i, cbs := [.release, .watch], armed := true }] [] Q0 K1
          { a with slot := some "manage_watchers" } O1 w [] (i + 5 + 2 * (surplus objs w.pids N).length)
          (parkLogs { a with slot := some "manage_watchers" } w (surplus objs w.pids N) log)) := by
      simp only [stepOp, bind, clearDone, modS, updK, runK]
      rw [syncCoroutine_free _ _ _ hrst hslot]
      simp only [fuelDefault]
      have e1 : (100000 : Nat) = 99999 + 1 := rfl
      have e2 : (99999 : Nat) = 99998 + 1 := rfl
      rw [e1, exec_call_mk]
      simp only [runCall, List.nil_append]
      rw [manageWatchers_eq (exec 99999) u N w _ _ rfl hw rfl hst.beginStep hstp hwat, awaitMulti_single]
      simp only [List.nil_append]
      rw [e2, exec_call_mk]
      simp only [runCall]
      rw [manageProcesses_surplus_front (exec 99998) u N _ w (k.beginStep.bump 1) _ objs _ _ _ log hw (hst.beginStep.bump 1)
        (fun pid hp => (hall pid hp).1) hobj hgt]
      rw [awaitMulti_ne _ _ (by simpa using hTne)]
      simp only [List.length_map, show i + 1 + 2 = i + 3 from rfl, show i + 3 + 1 = i + 4 from rfl, show i + 3 + 2 = i + 5 from rfl,
        show i + 1 + 1 = i + 2 from rfl]
      rw [show (99998 : Nat) = 99997 + 1 from rfl]
      rw [parkAll 99997 u (i + 4) w _ _ _ _ hso hpolls (surplus objs w.pids N) 0 K0 objs _ [] (i + 5) log hK0b hTnd
        (fun pid hp => ⟨hTsub pid hp, hstub pid hp, (hall pid (hTsub pid hp)).2⟩)
        (by
          intro g hg
          simp only [List.mem_append, List.mem_cons, List.mem_nil_iff, or_false] at hg
          rcases hg with (rfl | rfl) | rfl | rfl <;> simp)]
      simp only [List.nil_append, Nat.zero_add]
      rw [arm_all_mk u i (surplus objs w.pids N).length w.stopSignal (pollsOf w.graceful) (surplus objs w.pids N)
        (entries (surplus objs w.pids N) 0 (i + 5) K0.now) (fun e he => by have := entries_mem _ _ _ _ e he; omega)]
      simp only [armTop, addDoneCallback, modS, bind, getS, List.map_cons, List.map_nil, if_true]
      erw [if_pos (by simp)]
      simp [killingS, topAddCb, modS, Q0, K1, O1]
    rw [hop]
    rw [stepTail_eq _ (by rw [settle_nil 99999 _ rfl]; exact hls), settle_nil 99999 _ rfl]
  have hres : step (⟨k, a, objs, [w], [], [], [], [], dv, i, log, false⟩ : State) .check =
      killingS u (surplus objs w.pids N).length w.stopSignal (pollsOf w.graceful) (surplus objs w.pids N) (checkBaseA i)
        (i + 3) (i + 4) (.frame (i + 2) 0) [{ tid := i, cbs := [.release, .watch], armed := true }] [] Q0 K1
        { a with slot := some "manage_watchers" } O1 w [] (i + 5 + 2 * (surplus objs w.pids N).length)
        (parkLogs { a with slot := some "manage_watchers" } w (surplus objs w.pids N) log) := by
    unfold step; rw [hstep]
  rw [hres]
  show MidS u i (pollsOf w.graceful) (surplus objs w.pids N) w { a with slot := some "manage_watchers" } k
    ((surplus objs w.pids N).length * pollsOf w.graceful) _
  refine ⟨[], Q0, K1, O1, _, _, rfl, ?_, qMeasure_entries _ hpolls _ _ _ _⟩
  refine ⟨hK0b.bump _, ((hst.beginStep.bump 1).bump _).bump _, entries_sorted _ _ _ _, ?_, ?_, ?_, ?_, ?_, ?_, ?_, ?_, ?_,
    (fun _ _ => rfl), rfl⟩
  · intro e he; have := entries_mem _ _ _ _ e he; omega
  · intro e he; have := entries_mem _ _ _ _ e he
    show e.dl ≤ K0.now + 100
    omega
  · intro e he; have := entries_mem _ _ _ _ e he; omega
  · show ((entries _ _ _ _).map _).Nodup
    rw [entries_pids]; exact hTnd
  · intro e he
    have hm := (entries_mem _ _ _ _ e he).2.2.2.2
    obtain ⟨_, o, ho, _, hrc⟩ := hall e.pid (hTsub _ hm)
    refine ⟨hm, hTsub _ hm, hstub _ hm, (if o.pid ∈ surplus objs w.pids N then { o with stopping := true } else o), ?_, ?_⟩
    · show (objs.map _).find? _ = _
      rw [find_map_pid objs e.pid _ (fun o => by split <;> rfl), ho]; rfl
    · split <;> exact hrc
  · intro q hq hnq
    exfalso
    apply hnq
    show q ∈ (entries _ _ _ _).map _
    rw [entries_pids]; exact hq
  · show 0 + (entries _ _ _ _).length = _
    simp [entries_length]
  · intro r hr; cases hr
  · intro j hj
    right
    have := entries_idxs (surplus objs w.pids N) 0 (i + 5) K0.now j hj
    simpa using this

/-! ## Part 6: the induction over the timer firings -/

/-- a timer firing that is not the last one -/
theorem mid_stepS (u i polls : Nat) (T : List Nat) (w : Watcher) (a : Arbiter) (k0 : Kernel) (n : Nat) (s : State)
    (hw : SOk u w) (hls : a.loopStop = false)
    (hm : MidS u i polls T w a k0 (n + 2) s) : MidS u i polls T w a k0 (n + 1) (step s .wake) := by
  obtain ⟨results, Q, k, objs, nid, log, rfl, I, hq⟩ := hm
  have hg := checkBaseA_gb i
  cases Q with
  | nil => simp [qMeasure] at hq
  | cons h tl =>
    obtain ⟨_, hp, hs, o, ho, hrc⟩ := I.live h (by simp)
    have hid : i + 4 < h.fid := (I.ids h (by simp)).1
    by_cases hi : h.i < polls
    · obtain ⟨p, hf, hr, _⟩ := hs
      refine ⟨results, _, _, objs, nid + 2, log,
        wake_reparkS u T.length w.stopSignal polls T (checkBaseA i) (i + 3) (i + 4) (.frame (i + 2) 0) _ results h tl k a objs w [] nid log
          hg I.base p hf hr o ho hrc hi I.sorted hid (fun e he => (I.ids e he).2) hls, (I.repark hi).1, ?_⟩
      have := (I.repark hi).2; omega
    · have hq' : qMeasure polls tl = n + 1 := by
        have hub := I.iub h (by simp)
        simp only [qMeasure, List.map_cons, List.sum_cons] at hq ⊢; omega
      have htl : tl ≠ [] := by rintro rfl; simp [qMeasure] at hq'
      have hlen : 0 < tl.length := List.length_pos_iff.mpr htl
      refine ⟨_, tl, _, _, nid, _,
        wake_kill_moreS u T.length polls T (checkBaseA i) (i + 3) (i + 4) (.frame (i + 2) 0) _ results h tl k a objs w [] nid log hg hw
          I.base hs hp o ho hrc hi I.sorted hid ?_ hls, I.kill, hq'⟩
      have := I.count
      simp only [List.length_cons, List.length_append, List.length_nil] at this ⊢; omega

/-- the state after the last timer firing -/
structure SurplusDone (u N : Nat) (T : List Nat) (w : Watcher) (k0 : Kernel) (s : State) : Prop where
  idle : Idle u s
  ws : s.ws = [{ w with pids := w.pids.filter (fun p => decide (p ∉ T)) }]
  blocked : s.blocked = false
  still : s.k.Still
  gone : ∀ q ∈ T, s.k.GoneP q
  other : ∀ q, q ∉ T → s.k.find q = k0.find q
  npid : s.k.nextPid = k0.nextPid

/-- the last timer firing -/
theorem mid_lastS (u N i polls : Nat) (T : List Nat) (w : Watcher) (a : Arbiter) (k0 : Kernel) (s : State)
    (hw : SOk u w) (hnd : T.Nodup) (hsub : ∀ p ∈ T, p ∈ w.pids)
    (hslot : a.slot = some "manage_watchers") (hls : a.loopStop = false) (hstp : a.stopping = false)
    (hrst : a.restarting = false) (hwat : a.watchers = [u])
    (hm : MidS u i polls T w a k0 1 s) : SurplusDone u N T w k0 (step s .wake) := by
  obtain ⟨results, Q, k, objs, nid, log, rfl, I, hq⟩ := hm
  cases Q with
  | nil => simp [qMeasure] at hq
  | cons h tl =>
    obtain ⟨_, hp, hs, o, ho, hrc⟩ := I.live h (by simp)
    have hid : i + 4 < h.fid := (I.ids h (by simp)).1
    have hub := I.iub h (by simp)
    have htl : tl = [] := by
      by_contra hc
      have := qMeasure_pos polls tl hc
      simp only [qMeasure, List.map_cons, List.sum_cons] at hq this; omega
    subst htl
    have hi : ¬ h.i < polls := by
      simp only [qMeasure, List.map_cons, List.map_nil, List.sum_cons, List.sum_nil] at hq; omega
    have hcount := I.count
    simp only [List.length_cons, List.length_nil] at hcount
    have hcov : ∀ j < T.length, j ∈ (results ++ [(h.idx, Val.bool true)]).map (·.1) := by
      intro j hj
      rcases I.cover j hj with h1 | h1
      · simp [h1]
      · simp only [List.map_cons, List.map_nil, List.mem_cons, List.mem_nil_iff, or_false] at h1
        simp [h1]
    rw [wake_kill_lastS u i polls T results h k a objs w [] nid log hw I.base hs hp o ho hrc hi hid I.res hcov
      (by simp only [List.length_append, List.length_cons, List.length_nil]; omega) hnd hsub hls]
    have I' := I.kill
    refine ⟨⟨rfl, rfl, rfl, rfl, rfl, hls, hstp, hrst, hwat⟩, rfl, rfl, I'.still, ?_, I'.other, I'.npid⟩
    intro q hq
    exact I'.done q hq (by simp)

/-- all the timer firings of the polling phase -/
theorem mid_runS (u N i polls : Nat) (T : List Nat) (w : Watcher) (a : Arbiter) (k0 : Kernel)
    (hw : SOk u w) (hnd : T.Nodup) (hsub : ∀ p ∈ T, p ∈ w.pids)
    (hslot : a.slot = some "manage_watchers") (hls : a.loopStop = false) (hstp : a.stopping = false)
    (hrst : a.restarting = false) (hwat : a.watchers = [u]) : ∀ (n : Nat) (s : State),
    MidS u i polls T w a k0 (n + 1) s → SurplusDone u N T w k0 (run s (List.replicate (n + 1) .wake)) := by
  intro n
  induction n with
  | zero =>
    intro s hm
    exact mid_lastS u N i polls T w a k0 s hw hnd hsub hslot hls hstp hrst hwat hm
  | succ n ih =>
    intro s hm
    rw [List.replicate_succ, run_cons]
    exact ih _ (mid_stepS u i polls T w a k0 n s hw hls hm)

/-- **convergence from a surplus of workers that ignore the stop signal**: the check sends the stop signal to the
    `m - N` oldest workers and parks; after exactly `(m - N) · ⌈graceful_timeout / 100 ms⌉` timer firings every one of
    them has been killed with SIGKILL and waited for, the entries are popped, nothing is in flight, and the `N` newest
    workers are listed in their order, running, untouched -/
theorem check_surplus_stub_converges (u N : Nat) (w : Watcher) (s : State) (hi : Idle u s) (hd : SurplusStubOk u N w s)
    (hgt : N < w.pids.length) :
    let T := surplus s.objs w.pids N
    let s' := run s (.check :: List.replicate (T.length * pollsOf w.graceful) .wake)
    Idle u s' ∧ DatL u N (w.pids.filter (fun p => decide (p ∉ T))) s' ∧ (∀ q ∈ T, s'.k.GoneP q) ∧
    s'.k.nextPid = s.k.nextPid := by
  intro T s'
  have hobj : ∀ pid ∈ w.pids, ∃ o, s.objs.find? (fun x => decide (x.pid = pid)) = some o := fun pid hp => by
    obtain ⟨_, o, ho, _⟩ := hd.procs pid hp; exact ⟨o, ho⟩
  have hTnd := surplus_nodup s.objs w.pids N hobj hd.nodup
  have hTsub := surplus_sub s.objs w.pids N hobj
  have hTlen := surplus_length s.objs w.pids N hobj
  have hmid := check_surplus_stub_parks u N w s hi hd hgt
  have hpos : 0 < T.length * pollsOf w.graceful := by
    apply Nat.mul_pos _ hd.polls
    show 0 < (surplus s.objs w.pids N).length
    rw [hTlen]; omega
  obtain ⟨n, hn⟩ : ∃ n, T.length * pollsOf w.graceful = n + 1 := ⟨_, (Nat.succ_pred_eq_of_pos hpos).symm⟩
  have hdone : SurplusDone u N T w s.k s' := by
    show SurplusDone u N T w s.k (run s (.check :: List.replicate (T.length * pollsOf w.graceful) .wake))
    rw [run_cons, hn]
    apply mid_runS u N s.nextId (pollsOf w.graceful) T w { s.a with slot := some "manage_watchers" } s.k hd.sok hTnd hTsub rfl
      hi.loopStop hi.stopping hi.restarting hi.watchers n
    have := hmid
    rw [show (surplus s.objs w.pids N).length * pollsOf w.graceful = n + 1 from hn] at this
    exact this
  refine ⟨hdone.idle, ⟨_, hdone.ws, ⟨hd.wok.uid, hd.wok.status, hd.wok.respawn, hd.wok.maxAge, hd.wok.onDemand, hd.wok.hooks,
    hd.wok.np, hd.wok.retry⟩, rfl, hdone.blocked, hdone.still, ?_⟩, hdone.gone, hdone.npid⟩
  intro pid hp
  have hpL := (List.mem_filter.mp hp).1
  have hnT : pid ∉ T := by simpa using (List.mem_filter.mp hp).2
  obtain ⟨p, hf, hr⟩ := (hd.procs pid hpL).1
  exact ⟨p, by rw [hdone.other pid hnT]; exact hf, hr⟩

end Circus.Core
