import CircusProofs.Core.ConvSurplus
import CircusProofs.Core.ConvMulti
/-!
C01 convergence, part B continued: **a surplus of workers that ignore the stop signal**.  `manage_processes` calls
`kill_process` for the `m - N` oldest workers under one `gen.multi`; each sends the stop signal (ignored), marks its
`Process` stopping and parks on a 100 ms timer; every firing polls the worker (`poll()`), and after
`⌈graceful_timeout / 100 ms⌉` polls sends SIGKILL, waits for the worker and returns `True`.  When the last one has
returned the `gen.multi` completes, `manage_processes` pops the killed workers (through the ready queue), and the
check unwinds.  The polling phase is the one of Core/StopRunG.lean with another continuation below the `gen.multi`
(`manage_after_kill` instead of `kill_processes`' return) and over a subset of the watcher's workers.
-/
namespace Circus.Core

/-! ## Part 1: the kernel -/

theorem Kernel.escalated_pids {k : Kernel} (hk : k.Base) {pid : Nat} (hs : k.Stub pid) :
    ∀ p ∈ (k.escalated pid).procs, ∃ q ∈ k.procs, p.pid = q.pid := by
  intro p hp
  have h1 : (k.escalated pid).procs = ((k.bump 1).sigkilled pid).procs.map
      (fun q => if q.pid = pid then { q with st := .gone } else q) := rfl
  rw [h1, Kernel.sigkilled_procs (hk.bump 1) pid (Kernel.Stub.pid_ne_zero hk hs)] at hp
  obtain ⟨q1, hq1, rfl⟩ := List.mem_map.mp hp
  obtain ⟨q, hq, rfl⟩ := List.mem_map.mp hq1
  refine ⟨q, hq, ?_⟩
  by_cases h : q.pid = pid <;> simp [h]

theorem Kernel.escalated_still {k : Kernel} (hk : k.Base) (hst : k.Still) {pid : Nat} (hs : k.Stub pid) :
    (k.escalated pid).Still := by
  have hb := Kernel.escalated_base hk hs
  refine ⟨hb.armed, hb.faults, hb.nodoom, hst.noexecfail, Kernel.escalated_nozombie hk hs hst.nozombie, ?_⟩
  intro p hp
  obtain ⟨q, hq, hpq⟩ := Kernel.escalated_pids hk hs p hp
  show p.pid < k.nextPid
  rw [hpq]
  exact hst.lt q hq

/-! ## Part 2: the polling phase below `manage_after_kill` -/

/-- the state while the surplus workers `T` are being killed: the suspended callers `base`, the frame `fo` of
    `manage_processes`' continuation (its result goes to `par`), the `gen.multi` frame `fm`, the parked `kill_process`
    coroutines -/
def killingS (u m sig polls : Nat) (T : List Nat) (base : List Frame) (fo fm : Nat) (par : Waiter) (tops : List TopFut)
    (results : List (Nat × Val)) (Q : List QE)
    (k : Kernel) (a : Arbiter) (objs : List PObj) (w : Watcher) (dv : List (Nat × Val)) (nid : Nat) (log : List Obs) : State :=
  ⟨k, a, objs, [w],
    base ++ ({ fid := fo, k := .manageAfterKill u T, parent := par, armed := true } ::
      { fid := fm, k := .multi m results, parent := .frame fo 0, armed := true } :: Q.map (qFrame u sig polls fm)),
    Q.map qSleeper, tops, [], dv, nid, log, false⟩

theorem wake_opS (u m sig polls : Nat) (T : List Nat) (base : List Frame) (fo fm : Nat) (par : Waiter) (tops : List TopFut)
    (results : List (Nat × Val)) (h : QE) (tl : List QE)
    (k : Kernel) (a : Arbiter) (objs : List PObj) (w : Watcher) (dv : List (Nat × Val)) (nid : Nat) (log : List Obs)
    (hg : GB base fo fm) (hk : k.Base) (hsorted : QSorted (h :: tl)) (hids : fm < h.fid) :
    (stepOp .wake (updK Kernel.beginStep (killingS u m sig polls T base fo fm par tops results (h :: tl) k a objs w dv nid log)).2).2 =
      ⟨({ k.beginStep with now := max k.now h.dl } : Kernel), a, objs, [w],
        base ++ ({ fid := fo, k := .manageAfterKill u T, parent := par, armed := true } ::
          { fid := fm, k := .multi m results, parent := .frame fo 0, armed := true } :: tl.map (qFrame u sig polls fm)),
        tl.map qSleeper, tops,
        [.resume (.killWait u h.pid sig h.i polls) .unit (.frame fm h.idx)], dv, nid, log, false⟩ := by
  have htl : ∀ e ∈ tl, e.fid ≠ h.fid := fun e he => by have := (hsorted.1 e he).2; omega
  have hb : ∀ g ∈ base, g.fid ≠ h.fid := fun g hgm => by have := hg.lt g hgm; have := hg.fofm; omega
  have h1 : ¬ fo = h.fid := by have := hg.fofm; omega
  have h2 : ¬ fm = h.fid := by omega
  simp only [killingS, stepOp, bind, getS, updK, runK, earliest_head h tl hsorted, fireSleeper, modS]
  simp [qSleeper, qFrame, deliver, bind, getS, removeFrame, enqueue, modS, h1, h2, find_skip base _ h.fid hb,
    filter_skip base _ h.fid hb,
    filter_qFrames u sig polls fm h.fid tl htl, filter_qSleepers h.fid tl htl, hk.beginStep.setNow]
  exact ⟨rfl, htl⟩

/-- **a poll timer fires, graceful timeout not over**: the worker is still alive, its coroutine parks again
    with a fresh frame and timer, behind the others -/
theorem wake_reparkS (u m sig polls : Nat) (T : List Nat) (base : List Frame) (fo fm : Nat) (par : Waiter) (tops : List TopFut)
    (results : List (Nat × Val)) (h : QE) (tl : List QE)
    (k : Kernel) (a : Arbiter) (objs : List PObj) (w : Watcher) (dv : List (Nat × Val)) (nid : Nat) (log : List Obs)
    (hg : GB base fo fm) (hk : k.Base) (p : KProc) (hf : k.find h.pid = some p) (hr : p.st = .run)
    (o : PObj) (ho : objs.find? (fun o => decide (o.pid = h.pid)) = some o) (hrc : o.rc = none)
    (hi : h.i < polls) (hsorted : QSorted (h :: tl)) (hids : fm < h.fid) (hnid : ∀ e ∈ h :: tl, e.fid < nid)
    (hls : a.loopStop = false) :
    step (killingS u m sig polls T base fo fm par tops results (h :: tl) k a objs w dv nid log) .wake =
      killingS u m sig polls T base fo fm par tops results
        (tl ++ [{ h with i := h.i + 1, fid := nid, dl := max k.now h.dl + 100 }])
        (({ k.beginStep with now := max k.now h.dl } : Kernel).bump 1) a objs w dv (nid + 2) log := by
  have hkb : (({ k.beginStep with now := max k.now h.dl } : Kernel)).Base := hk.beginStep.setNow_base _
  unfold step
  rw [show stepM .wake (killingS u m sig polls T base fo fm par tops results (h :: tl) k a objs w dv nid log) =
      stepTail (stepOp .wake (updK Kernel.beginStep (killingS u m sig polls T base fo fm par tops results (h :: tl) k a objs w dv nid log)).2).2
    from stepM_eq _ _ rfl]
  rw [wake_opS u m sig polls T base fo fm par tops results h tl k a objs w dv nid log hg hk hsorted hids]
  have hfresh : ∀ g ∈ base ++ ({ fid := fo, k := .manageAfterKill u T, parent := par, armed := true } ::
          { fid := fm, k := .multi m results, parent := .frame fo 0, armed := true } :: tl.map (qFrame u sig polls fm)), g.fid ≠ nid := by
    intro g hgm
    have hn := hnid h (by simp)
    have := hg.fofm
    rcases List.mem_append.mp hgm with hgm | hgm
    · have := hg.lt g hgm; omega
    · simp only [List.mem_cons] at hgm
      rcases hgm with rfl | rfl | hgm
      · simp; omega
      · simp; omega
      · obtain ⟨e, he, rfl⟩ := List.mem_map.mp hgm
        have := hnid e (by simp [he])
        simp [qFrame]; omega
  have e1 : (100000 : Nat) = 99999 + 1 := rfl
  have e2 : (99999 : Nat) = 99998 + 1 := rfl
  have hset : settle 100000 ⟨({ k.beginStep with now := max k.now h.dl } : Kernel), a, objs, [w],
        base ++ ({ fid := fo, k := .manageAfterKill u T, parent := par, armed := true } ::
          { fid := fm, k := .multi m results, parent := .frame fo 0, armed := true } :: tl.map (qFrame u sig polls fm)),
        tl.map qSleeper, tops,
        [.resume (.killWait u h.pid sig h.i polls) .unit (.frame fm h.idx)], dv, nid, log, false⟩ =
      ((), killingS u m sig polls T base fo fm par tops results
        (tl ++ [{ h with i := h.i + 1, fid := nid, dl := max k.now h.dl + 100 }])
        (({ k.beginStep with now := max k.now h.dl } : Kernel).bump 1) a objs w dv (nid + 2) log) := by
    rw [e1, settle_cons_mk]
    simp only [runReady1]
    rw [exec_resume_mk]
    simp only [runResume]
    rw [killLoop_repark (exec 99999) u h.pid h.idx fm sig h.i polls w o p _ a objs _ _ _ [] dv nid log hkb hf hr ho hrc hi hfresh]
    rw [e2]
    rw [settle_nil 99998 _ rfl]
    simp [killingS, qFrame, qSleeper, List.map_append]
  rw [stepTail_eq _ (by rw [hset]; exact hls), hset]

/-- **a poll timer fires, graceful timeout over, other workers still pending**: SIGKILL, the worker is waited for,
    its `True` is recorded in the `gen.multi` -/
theorem wake_kill_moreS (u m polls : Nat) (T : List Nat) (base : List Frame) (fo fm : Nat) (par : Waiter) (tops : List TopFut)
    (results : List (Nat × Val)) (h : QE) (tl : List QE)
    (k : Kernel) (a : Arbiter) (objs : List PObj) (w : Watcher) (dv : List (Nat × Val)) (nid : Nat) (log : List Obs)
    (hg : GB base fo fm) (hw : SOk u w) (hk : k.Base) (hs : k.Stub h.pid) (hp : h.pid ∈ w.pids)
    (o : PObj) (ho : objs.find? (fun o => decide (o.pid = h.pid)) = some o) (hrc : o.rc = none)
    (hi : ¬ h.i < polls) (hsorted : QSorted (h :: tl)) (hids : fm < h.fid)
    (hmore : ¬ (results ++ [(h.idx, Val.bool true)]).length ≥ m) (hls : a.loopStop = false) :
    step (killingS u m w.stopSignal polls T base fo fm par tops results (h :: tl) k a objs w dv nid log) .wake =
      killingS u m w.stopSignal polls T base fo fm par tops (results ++ [(h.idx, Val.bool true)]) tl
        (({ k.beginStep with now := max k.now h.dl } : Kernel).escalated h.pid) a
        (objs.map (fun o => if o.pid = h.pid then { o with stopping := false, rc := some (-9) } else o)) w dv nid
        (evlog a (log ++ [Obs.sig h.pid 9 .run ""]) w "kill" (some h.pid) "-" ++ [Obs.reap h.pid 9]) := by
  have hkb : (({ k.beginStep with now := max k.now h.dl } : Kernel)).Base := hk.beginStep.setNow_base _
  have hsb : (({ k.beginStep with now := max k.now h.dl } : Kernel)).Stub h.pid := hs
  have htl4 : ∀ e ∈ tl, e.fid ≠ fm := fun e he => by have := (hsorted.1 e he).2; omega
  have hbm : ∀ g ∈ base, g.fid ≠ fm := fun g hgm => by have := hg.lt g hgm; have := hg.fofm; omega
  have hfofm : ¬ fo = fm := by have := hg.fofm; omega
  unfold step
  rw [show stepM .wake (killingS u m w.stopSignal polls T base fo fm par tops results (h :: tl) k a objs w dv nid log) =
      stepTail (stepOp .wake (updK Kernel.beginStep (killingS u m w.stopSignal polls T base fo fm par tops results (h :: tl) k a objs w dv nid log)).2).2
    from stepM_eq _ _ rfl]
  rw [wake_opS u m w.stopSignal polls T base fo fm par tops results h tl k a objs w dv nid log hg hk hsorted hids]
  have e1 : (100000 : Nat) = 99999 + 1 := rfl
  have e2 : (99999 : Nat) = 99998 + 1 := rfl
  have e3 : (99998 : Nat) = 99997 + 1 := rfl
  have hset : settle 100000 ⟨({ k.beginStep with now := max k.now h.dl } : Kernel), a, objs, [w],
        base ++ ({ fid := fo, k := .manageAfterKill u T, parent := par, armed := true } ::
          { fid := fm, k := .multi m results, parent := .frame fo 0, armed := true } :: tl.map (qFrame u w.stopSignal polls fm)),
        tl.map qSleeper, tops,
        [.resume (.killWait u h.pid w.stopSignal h.i polls) .unit (.frame fm h.idx)], dv, nid, log, false⟩ =
      ((), killingS u m w.stopSignal polls T base fo fm par tops (results ++ [(h.idx, Val.bool true)]) tl
        (({ k.beginStep with now := max k.now h.dl } : Kernel).escalated h.pid) a
        (objs.map (fun o => if o.pid = h.pid then { o with stopping := false, rc := some (-9) } else o)) w dv nid
        (evlog a (log ++ [Obs.sig h.pid 9 .run ""]) w "kill" (some h.pid) "-" ++ [Obs.reap h.pid 9])) := by
    rw [e1, settle_cons_mk]
    simp only [runReady1]
    rw [exec_resume_mk]
    simp only [runResume, killLoop_escalate _ _ _ _ _ _ _ hi]
    rw [killFinish_kill (exec 99999) u h.pid (.frame fm h.idx) w o _ a objs _ _ _ [] dv nid log hw hkb hsb hp ho hrc]
    simp [deliver, bind, getS, enqueue, modS, find_skip base _ fm hbm, hfofm]
    rw [e2, settle_cons_mk]
    simp only [runReady1]
    rw [exec_resume_mk]
    have hmore' : ¬ m ≤ results.length + 1 := by simpa using hmore
    simp [runResume, multiCollect, bind, getS, hmore', setFrameK, modS, find_skip base _ fm hbm, hfofm,
      map_skip base _ fm _ hbm, map_setK_qFrames u w.stopSignal polls fm _ tl htl4]
    rw [e3, settle_nil 99997 _ rfl]
    simp [killingS]
  rw [stepTail_eq _ (by rw [hset]; exact hls), hset]

/-! ## Part 3: the last SIGKILL — the `gen.multi` completes, the entries are popped, the check unwinds -/

/-- the callers of `manage_processes` inside the check, suspended (armed) -/
def checkBaseA (i : Nat) : List Frame :=
  [{ fid := i + 1, k := .manageWatchersTail false, parent := .top i, armed := true },
   { fid := i + 2, k := .multi 1 [], parent := .frame (i + 1) 0, armed := true }]

theorem checkBaseA_gb (i : Nat) : GB (checkBaseA i) (i + 3) (i + 4) :=
  ⟨fun g hg => by
    simp only [checkBaseA, List.mem_cons, List.mem_nil_iff, or_false] at hg
    rcases hg with rfl | rfl <;> simp, by omega⟩

/-- **`manage_after_kill` is resumed through the ready queue with every `kill_process` result `True`**: the killed
    workers leave the dict; `manage_processes` returns into the (armed) `gen.multi` of `manage_watchers`, which
    completes; `manage_watchers` ends; its future completes, releases the slot and runs the harness' callback -/
theorem surplus_finish_mk (n u i : Nat) (T : List Nat) (w : Watcher) (k : Kernel) (a : Arbiter) (objs : List PObj)
    (dv : List (Nat × Val)) (nid : Nat) (log : List Obs) (hu : w.uid = u) (hnd : T.Nodup) (hsub : ∀ p ∈ T, p ∈ w.pids) :
    settle (n + 7) ⟨k, a, objs, [w], checkBaseA i, [], [{ tid := i, cbs := [.release, .watch], armed := true }],
        [.resume (.manageAfterKill u T) (.list (T.map fun _ => Val.bool true)) (.frame (i + 2) 0)], dv, nid, log, false⟩ =
      ((), ⟨k, { a with slot := none }, objs, [{ w with pids := w.pids.filter (fun p => decide (p ∉ T)) }], [], [], [], [],
        (i, Val.unit) :: dv, nid, log, false⟩) := by
  rw [show n + 7 = (n + 6) + 1 from rfl, settle_cons_mk]
  simp only [runReady1]
  rw [exec_resume_mk]
  simp only [runResume]
  rw [popKilled_all (exec 99999) u (.frame (i + 2) 0) T w a k objs (checkBaseA i) [] _ [] dv nid log hu hnd hsub]
  simp [checkBaseA, deliver, bind, getS, enqueue, modS]
  rw [show n + 6 = (n + 5) + 1 from rfl, settle_cons_mk]
  simp only [runReady1]
  rw [exec_resume_mk]
  simp [runResume, multiCollect, bind, getS, removeFrame, modS]
  have hmr : multiResult 1 [(0, Val.unit)] = .list [.unit] := rfl
  rw [hmr, show (99999 : Nat) = 99998 + 1 from rfl, multi_done_mk 99998 i [.unit]]
  exact check_finishes_mk (n + 1) i [.unit] _ _ _ _ _ _ _ _

/-- all children returned `True` and every slot is there: the `gen.multi` delivers the list of `True`s -/
theorem multiResult_all_true (T : List Nat) (results : List (Nat × Val)) (hres : ∀ r ∈ results, r.2 = Val.bool true)
    (hcov : ∀ j < T.length, j ∈ results.map (·.1)) :
    multiResult T.length results = .list (T.map fun _ => Val.bool true) := by
  unfold multiResult
  have hlook : ∀ j < T.length, results.lookup j = some (Val.bool true) := by
    intro j hj
    obtain ⟨r, hr, hrj⟩ := List.mem_map.mp (hcov j hj)
    cases hl : results.lookup j with
    | none =>
      exfalso
      have := List.lookup_eq_none_iff.mp hl r hr
      simp [hrj] at this
    | some v =>
      have := hres _ (lookup_mem hl)
      simp only at this
      rw [this]
  have hvs : ((List.range T.length).map fun i => (results.lookup i).getD .unit) = T.map fun _ => Val.bool true := by
    apply List.ext_getElem
    · simp
    · intro i h1 h2
      simp only [List.getElem_map, List.getElem_range]
      rw [hlook i (by simpa using h1)]
      rfl
  simp only [hvs]
  have hnone : (T.map fun _ => Val.bool true).find? isExc = none := by
    apply List.find?_eq_none.mpr
    intro v hv
    obtain ⟨_, _, rfl⟩ := List.mem_map.mp hv
    simp [isExc]
  rw [hnone]

/-- **the last poll timer fires, graceful timeout over**: SIGKILL for the last surplus worker; the `gen.multi` is
    complete; `manage_after_kill` pops every killed worker; the check completes and the slot is released -/
theorem wake_kill_lastS (u i polls : Nat) (T : List Nat) (results : List (Nat × Val)) (h : QE)
    (k : Kernel) (a : Arbiter) (objs : List PObj) (w : Watcher) (dv : List (Nat × Val)) (nid : Nat) (log : List Obs)
    (hw : SOk u w) (hk : k.Base) (hs : k.Stub h.pid) (hp : h.pid ∈ w.pids)
    (o : PObj) (ho : objs.find? (fun o => decide (o.pid = h.pid)) = some o) (hrc : o.rc = none)
    (hi : ¬ h.i < polls) (hids : i + 4 < h.fid)
    (hres : ∀ r ∈ results, r.2 = Val.bool true)
    (hcov : ∀ j < T.length, j ∈ (results ++ [(h.idx, Val.bool true)]).map (·.1))
    (hlast : (results ++ [(h.idx, Val.bool true)]).length ≥ T.length)
    (hnd : T.Nodup) (hsub : ∀ p ∈ T, p ∈ w.pids) (hls : a.loopStop = false) :
    step (killingS u T.length w.stopSignal polls T (checkBaseA i) (i + 3) (i + 4) (.frame (i + 2) 0)
        [{ tid := i, cbs := [.release, .watch], armed := true }] results [h] k a objs w dv nid log) .wake =
      ⟨({ k.beginStep with now := max k.now h.dl } : Kernel).escalated h.pid, { a with slot := none },
        objs.map (fun o => if o.pid = h.pid then { o with stopping := false, rc := some (-9) } else o),
        [{ w with pids := w.pids.filter (fun p => decide (p ∉ T)) }], [], [], [], [], (i, Val.unit) :: dv, nid,
        evlog a (log ++ [Obs.sig h.pid 9 .run ""]) w "kill" (some h.pid) "-" ++ [Obs.reap h.pid 9], false⟩ := by
  have hg := checkBaseA_gb i
  have hkb : (({ k.beginStep with now := max k.now h.dl } : Kernel)).Base := hk.beginStep.setNow_base _
  have hsb : (({ k.beginStep with now := max k.now h.dl } : Kernel)).Stub h.pid := hs
  have hbm : ∀ g ∈ checkBaseA i, g.fid ≠ i + 4 := fun g hgm => by have := hg.lt g hgm; omega
  have hbo : ∀ g ∈ checkBaseA i, g.fid ≠ i + 3 := fun g hgm => by have := hg.lt g hgm; omega
  have hfofm : ¬ i + 3 = i + 4 := by omega
  have hfmfo : ¬ i + 4 = i + 3 := by omega
  have hvs := multiResult_all_true T (results ++ [(h.idx, Val.bool true)]) (by
    intro r hr
    rcases List.mem_append.mp hr with hr | hr
    · exact hres r hr
    · simp at hr; subst hr; rfl) hcov
  unfold step
  rw [show stepM .wake (killingS u T.length w.stopSignal polls T (checkBaseA i) (i + 3) (i + 4) (.frame (i + 2) 0)
        [{ tid := i, cbs := [.release, .watch], armed := true }] results [h] k a objs w dv nid log) =
      stepTail (stepOp .wake (updK Kernel.beginStep (killingS u T.length w.stopSignal polls T (checkBaseA i) (i + 3) (i + 4) (.frame (i + 2) 0)
        [{ tid := i, cbs := [.release, .watch], armed := true }] results [h] k a objs w dv nid log)).2).2
    from stepM_eq _ _ rfl]
  rw [wake_opS u T.length w.stopSignal polls T (checkBaseA i) (i + 3) (i + 4) (.frame (i + 2) 0) _ results h [] k a objs w dv nid log hg hk
    ⟨fun _ he => (by cases he), trivial⟩ hids]
  have e1 : (100000 : Nat) = 99999 + 1 := rfl
  have e2 : (99999 : Nat) = 99998 + 1 := rfl
  have hlast' : T.length ≤ results.length + 1 := by simpa using hlast
  simp only [List.map_nil]
  have hset : settle 100000 ⟨({ k.beginStep with now := max k.now h.dl } : Kernel), a, objs, [w],
        checkBaseA i ++ [{ fid := i + 3, k := .manageAfterKill u T, parent := .frame (i + 2) 0, armed := true },
          { fid := i + 4, k := .multi T.length results, parent := .frame (i + 3) 0, armed := true }], [],
        [{ tid := i, cbs := [.release, .watch], armed := true }],
        [.resume (.killWait u h.pid w.stopSignal h.i polls) .unit (.frame (i + 4) h.idx)], dv, nid, log, false⟩ =
      ((), ⟨({ k.beginStep with now := max k.now h.dl } : Kernel).escalated h.pid, { a with slot := none },
        objs.map (fun o => if o.pid = h.pid then { o with stopping := false, rc := some (-9) } else o),
        [{ w with pids := w.pids.filter (fun p => decide (p ∉ T)) }], [], [], [], [], (i, Val.unit) :: dv, nid,
        evlog a (log ++ [Obs.sig h.pid 9 .run ""]) w "kill" (some h.pid) "-" ++ [Obs.reap h.pid 9], false⟩) := by
    rw [e1, settle_cons_mk]
    simp only [runReady1]
    rw [exec_resume_mk]
    simp only [runResume, killLoop_escalate _ _ _ _ _ _ _ hi]
    rw [killFinish_kill (exec 99999) u h.pid (.frame (i + 4) h.idx) w o _ a objs _ _ _ [] dv nid log hw hkb hsb hp ho hrc]
    simp [deliver, bind, getS, enqueue, modS, find_skip (checkBaseA i) _ (i + 4) hbm, hfofm]
    rw [e2, settle_cons_mk]
    simp only [runReady1]
    rw [exec_resume_mk]
    simp [runResume, multiCollect, bind, getS, hlast', removeFrame, modS, find_skip (checkBaseA i) _ (i + 4) hbm, hfofm,
      filter_skip (checkBaseA i) _ (i + 4) hbm]
    rw [hvs, e2, exec_resume_mk]
    simp [runResume, deliver, bind, getS, removeFrame, enqueue, modS, find_skip (checkBaseA i) _ (i + 3) hbo,
      filter_skip (checkBaseA i) _ (i + 3) hbo, hfmfo]
    have hfin := surplus_finish_mk 99991 u i T w (({ k.beginStep with now := max k.now h.dl } : Kernel).escalated h.pid) a
      (objs.map (fun o => if o.pid = h.pid then { o with stopping := false, rc := some (-9) } else o)) dv nid
      (evlog a (log ++ [Obs.sig h.pid 9 .run ""]) w "kill" (some h.pid) "-" ++ [Obs.reap h.pid 9]) hw.uid hnd hsub
    simpa using hfin
  rw [stepTail_eq _ (by rw [hset]; exact hls), hset]

end Circus.Core
