import CircusProofs.Core.DirInv
/-! The initial state satisfies the directory invariant for a well-formed configuration. -/
namespace Circus.Core

theorem insertBy_perm (le : Watcher → Watcher → Bool) (x : Watcher) (l : List Watcher) :
    (insertBy le x l).Perm (x :: l) := by
  induction l with
  | nil => exact List.Perm.refl _
  | cons y ys ih =>
    unfold insertBy
    split
    · exact List.Perm.refl _
    · exact (List.Perm.cons y ih).trans (List.Perm.swap x y ys)

theorem sortWatchers_perm (ws : List Watcher) (r : Bool) : (sortWatchers ws r).Perm ws := by
  unfold sortWatchers
  split <;>
  · induction ws with
    | nil => exact List.Perm.refl _
    | cons w ws ih =>
      simp only [List.foldr_cons]
      exact (insertBy_perm _ _ _).trans (List.Perm.cons w ih)

theorem assignUids_names (ws : List Watcher) (n : Nat) :
    (assignUids ws n).map (·.name) = ws.map (·.name) := by
  induction ws generalizing n with
  | nil => rfl
  | cons w ws ih => simp [assignUids, ih]

theorem assignUids_uids (ws : List Watcher) (n : Nat) :
    (assignUids ws n).map (·.uid) = List.range' n ws.length := by
  induction ws generalizing n with
  | nil => rfl
  | cons w ws ih => simp [assignUids, ih, List.range'_succ]

/-- a configuration is well formed when watcher names are unique ignoring case -/
def WellFormed (cfg : List Watcher) : Prop := (cfg.map (fun w => pyLower w.name)).Nodup

theorem foldl_names_distinct (l : List Watcher) (acc : List (String × Nat))
    (hd : (acc.map (·.1) ++ l.map (fun w => pyLower w.name)).Nodup) :
    l.foldl (fun acc w => acc.filter (·.1 ≠ pyLower w.name) ++ [(pyLower w.name, w.uid)]) acc =
      acc ++ l.map (fun w => (pyLower w.name, w.uid)) := by
  induction l generalizing acc with
  | nil => simp
  | cons w ws ih =>
    simp only [List.foldl_cons, List.map_cons]
    have hnot : pyLower w.name ∉ acc.map (·.1) := by
      intro hm
      rw [List.nodup_append] at hd
      exact hd.2.2 _ hm _ (by simp) rfl
    have hfil : acc.filter (fun x => decide (x.1 ≠ pyLower w.name)) = acc := by
      apply List.filter_eq_self.mpr
      intro a ha
      simp only [ne_eq, decide_eq_true_eq]
      intro h
      exact hnot (List.mem_map.mpr ⟨a, ha, h⟩)
    rw [hfil]
    rw [ih]
    · simp
    · simp only [List.map_append, List.map_cons, List.map_nil, List.append_assoc, List.singleton_append]
      simpa [List.map_cons] using hd

theorem dirInv_init (cfg : List Watcher) (bs : List Behav) (aw : Nat) (hwf : WellFormed cfg) :
    DirInv (initState cfg bs aw) := by
  have hnames : (assignUids cfg 1).map (·.name) = cfg.map (·.name) := assignUids_names cfg 1
  have huids : (assignUids cfg 1).map (·.uid) = List.range' 1 cfg.length := assignUids_uids cfg 1
  have hperm := sortWatchers_perm (assignUids cfg 1) true
  have hlow : ((sortWatchers (assignUids cfg 1) true).map (fun w => pyLower w.name)).Nodup := by
    have h1 : ((assignUids cfg 1).map (fun w => pyLower w.name)).Nodup := by
      have : (assignUids cfg 1).map (fun w => pyLower w.name) = cfg.map (fun w => pyLower w.name) := by
        have := congrArg (List.map pyLower) hnames
        simpa [List.map_map, Function.comp_def] using this
      rw [this]; exact hwf
    exact (List.Perm.nodup_iff (List.Perm.map _ hperm)).mpr h1
  have hn := foldl_names_distinct (sortWatchers (assignUids cfg 1) true) [] (by simpa using hlow)
  simp only [List.nil_append] at hn
  unfold DirInv DirP dirView initState
  simp only [hn]
  refine ⟨?_, ?_, ?_, ?_, ?_, ?_⟩
  · simp only [List.map_map, Function.comp_def]
    exact List.Perm.map _ hperm
  · simpa [List.map_map, Function.comp_def] using hlow
  · rw [huids]; exact List.nodup_range'
  · simp only [List.map_map, Function.comp_def]
    rw [huids]; exact List.nodup_range'
  · intro k u hku
    obtain ⟨w, hw, hwe⟩ := List.mem_map.mp hku
    simp only [Prod.mk.injEq] at hwe
    refine ⟨(w.uid, w.name), ?_, hwe.2, hwe.1⟩
    exact List.mem_map.mpr ⟨w, (List.Perm.mem_iff hperm).mp hw, rfl⟩
  · intro e he
    obtain ⟨w, hw, rfl⟩ := List.mem_map.mp he
    have : w.uid ∈ List.range' 1 cfg.length := by rw [← huids]; exact List.mem_map.mpr ⟨w, hw, rfl⟩
    simp only [List.mem_range'_1] at this
    simp only; omega

end Circus.Core
