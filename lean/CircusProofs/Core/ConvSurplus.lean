import CircusProofs.Core.ConvReap
import CircusProofs.Core.StopRunG
import CircusProofs.Props.C01
/-!
C01 convergence, part B: **surplus**.  The idle start state lists `m > numprocesses` running workers (an
accepted `decr` / `set numprocesses` lowered the target).  `manage_processes` sorts the `Process` objects by
start time, newest first (stable), keeps the first `numprocesses` and calls `kill_process` for the rest under
one `gen.multi`.  With workers that exit at once on the stop signal every `kill_process` returns within its
first poll, so the whole check completes inside its step: the `m - numprocesses` oldest workers are signalled,
collected and popped, the others are untouched.

Part 0: the stable sort by start time is a permutation.
-/
namespace Circus.Core

theorem insertObj_perm (x : PObj) (l : List PObj) : (insertObj x l).Perm (x :: l) := by
  induction l with
  | nil => exact List.Perm.refl _
  | cons y ys ih =>
    unfold insertObj
    split
    · exact List.Perm.refl _
    · exact (List.Perm.cons y ih).trans (List.Perm.swap x y ys)

theorem sortByStartedDesc_perm (l : List PObj) : (sortByStartedDesc l).Perm l := by
  unfold sortByStartedDesc
  induction l with
  | nil => exact List.Perm.refl _
  | cons x xs ih => exact (insertObj_perm x _).trans (List.Perm.cons x ih)

/-- the `Process` objects of the listed pids, in dict order -/
def listedObjs (objs : List PObj) (pids : List Nat) : List PObj :=
  pids.filterMap fun pid => objs.find? (fun x => decide (x.pid = pid))

/-- the workers `manage_processes` removes when `pids` are listed and `N` are wanted: all but the first `N` of the
    stable sort by start time, newest first -/
def surplus (objs : List PObj) (pids : List Nat) (N : Nat) : List Nat :=
  ((sortByStartedDesc (listedObjs objs pids)).drop N).map (·.pid)

theorem listedObjs_pids (objs : List PObj) (pids : List Nat)
    (h : ∀ pid ∈ pids, ∃ o, objs.find? (fun x => decide (x.pid = pid)) = some o) :
    (listedObjs objs pids).map (·.pid) = pids := by
  unfold listedObjs
  induction pids with
  | nil => rfl
  | cons p ps ih =>
    obtain ⟨o, ho⟩ := h p (by simp)
    have hop : o.pid = p := by simpa using List.find?_some ho
    simp only [List.filterMap_cons, ho, List.map_cons, hop]
    rw [ih (fun pid hp => h pid (by simp [hp]))]

theorem surplus_perm (objs : List PObj) (pids : List Nat) (N : Nat)
    (h : ∀ pid ∈ pids, ∃ o, objs.find? (fun x => decide (x.pid = pid)) = some o) :
    (((sortByStartedDesc (listedObjs objs pids)).take N).map (·.pid) ++ surplus objs pids N).Perm pids := by
  unfold surplus
  rw [← List.map_append, List.take_append_drop]
  have := (sortByStartedDesc_perm (listedObjs objs pids)).map (·.pid)
  rw [listedObjs_pids objs pids h] at this
  exact this

theorem surplus_sub (objs : List PObj) (pids : List Nat) (N : Nat)
    (h : ∀ pid ∈ pids, ∃ o, objs.find? (fun x => decide (x.pid = pid)) = some o) :
    ∀ p ∈ surplus objs pids N, p ∈ pids := by
  intro p hp
  exact (surplus_perm objs pids N h).subset (List.mem_append_right _ hp)

theorem surplus_nodup (objs : List PObj) (pids : List Nat) (N : Nat)
    (h : ∀ pid ∈ pids, ∃ o, objs.find? (fun x => decide (x.pid = pid)) = some o) (hnd : pids.Nodup) :
    (surplus objs pids N).Nodup := by
  have := (surplus_perm objs pids N h).nodup_iff.mpr hnd
  exact (List.nodup_append.mp this).2.1

theorem surplus_length (objs : List PObj) (pids : List Nat) (N : Nat)
    (h : ∀ pid ∈ pids, ∃ o, objs.find? (fun x => decide (x.pid = pid)) = some o) :
    (surplus objs pids N).length = pids.length - N := by
  unfold surplus
  rw [List.length_map, List.length_drop, (sortByStartedDesc_perm _).length_eq]
  have := congrArg List.length (listedObjs_pids objs pids h)
  simp only [List.length_map] at this
  rw [this]

/-- what stays listed: as many as wanted -/
theorem kept_length (objs : List PObj) (pids : List Nat) (N : Nat)
    (h : ∀ pid ∈ pids, ∃ o, objs.find? (fun x => decide (x.pid = pid)) = some o) (hnd : pids.Nodup) (hN : N ≤ pids.length) :
    (pids.filter (fun p => decide (p ∉ surplus objs pids N))).length = N := by
  have hT := surplus_nodup objs pids N h hnd
  have hsub := surplus_sub objs pids N h
  have hperm : (pids.filter (fun p => decide (p ∈ surplus objs pids N))).Perm (surplus objs pids N) := by
    apply (List.perm_ext_iff_of_nodup (hnd.sublist List.filter_sublist) hT).mpr
    intro a
    simp only [List.mem_filter, decide_eq_true_eq]
    exact ⟨fun h => h.2, fun h => ⟨hsub a h, h⟩⟩
  have h1 := (List.filter_append_perm (fun p => decide (p ∈ surplus objs pids N)) pids).length_eq
  rw [List.length_append, hperm.length_eq, surplus_length objs pids N h] at h1
  have h2 : (pids.filter (fun p => !decide (p ∈ surplus objs pids N))) =
      pids.filter (fun p => decide (p ∉ surplus objs pids N)) := by
    apply List.filter_congr
    intro x _
    simp
  rw [h2] at h1
  omega

/-- **oldest first**: every worker that stays listed was started no earlier than any removed one -/
theorem surplus_oldest (objs : List PObj) (pids : List Nat) (N : Nat) :
    ∀ kept ∈ pids, kept ∉ surplus objs pids N → ∀ gone ∈ surplus objs pids N,
      ∀ ok og, objs.find? (fun x => decide (x.pid = kept)) = some ok → objs.find? (fun x => decide (x.pid = gone)) = some og →
        og.started ≤ ok.started := by
  intro kept hk hkn gone hg ok og hok hog
  -- `kept` is among the first `N` of the sort, `gone` among the rest
  have hmemk : ok ∈ listedObjs objs pids := by
    unfold listedObjs
    exact List.mem_filterMap.mpr ⟨kept, hk, hok⟩
  have hsk : ok ∈ sortByStartedDesc (listedObjs objs pids) := (sortByStartedDesc_perm _).mem_iff.mpr hmemk
  have hokp : ok.pid = kept := by simpa using List.find?_some hok
  have hogp : og.pid = gone := by simpa using List.find?_some hog
  rw [← List.take_append_drop N (sortByStartedDesc (listedObjs objs pids))] at hsk
  have hkt : ok ∈ (sortByStartedDesc (listedObjs objs pids)).take N := by
    rcases List.mem_append.mp hsk with h1 | h1
    · exact h1
    · exfalso; apply hkn
      unfold surplus
      exact List.mem_map.mpr ⟨ok, h1, hokp⟩
  -- the object of `gone` in the dropped part is `og` (pids are different, `find?` is a function of the pid)
  unfold surplus at hg
  obtain ⟨og', hog', hogp'⟩ := List.mem_map.mp hg
  have hmem' : og' ∈ listedObjs objs pids :=
    (sortByStartedDesc_perm _).mem_iff.mp (List.mem_of_mem_drop hog')
  unfold listedObjs at hmem'
  obtain ⟨q, _, hq⟩ := List.mem_filterMap.mp hmem'
  have hq' : og'.pid = q := by simpa using List.find?_some hq
  have : q = gone := by rw [← hq', hogp']
  subst this
  rw [hog] at hq
  have : og = og' := by simpa using hq
  subst this
  exact C01_oldest_first (listedObjs objs pids) N ok hkt og hog'

/-! ## Part 1: the pieces of `manage_processes`' surplus branch -/

/-- a loop whose body, on every element, updates the accumulator purely and advances the call counter by `c` -/
theorem forIn_acc_bump {γ β : Type} (l : List γ) (c : Nat) (g : γ → β → β) (f : γ → β → M (ForInStep β))
    (Q : State → Prop) (hQ : ∀ s n, Q s → Q (s.bump n))
    (hf : ∀ x ∈ l, ∀ b s, Q s → f x b s = (ForInStep.yield (g x b), s.bump c)) (b : β) (s : State) (hs : Q s) :
    (forIn l b f : M β) s = (l.foldl (fun b x => g x b) b, s.bump (c * l.length)) := by
  induction l generalizing b s with
  | nil => simp [State.bump_zero]; rfl
  | cons x xs ih =>
    simp only [List.forIn_cons]
    simp only [bind]
    rw [hf x (by simp) b s hs]
    simp only
    rw [ih (fun y hy => hf y (by simp [hy])) (g x b) (s.bump c) (hQ s c hs)]
    simp only [State.bump_bump, List.length_cons, List.foldl_cons]
    congr 2
    rw [Nat.mul_succ, Nat.add_comm]

theorem foldl_snoc_pid (l : List PObj) (acc : List Nat) :
    l.foldl (fun (b : List Nat) (x : PObj) => b ++ [x.pid]) acc = acc ++ l.map (·.pid) := by
  induction l generalizing acc with
  | nil => simp
  | cons x xs ih => simp [ih]

/-- the status reads over the surplus candidates when all of them run: everybody is to be killed -/
theorem surplusLoop_running (u : Nat) (l : List PObj) (acc : List Nat) (s : State) (hc : s.k.Calm)
    (hrun : ∀ o ∈ l, ∃ p, s.k.find o.pid = some p ∧ p.st = .run) :
    (forIn l acc (fun o (r : List Nat) => (do
        let st ← procStatus o.pid
        if isDead st then do
          reapProcess u o.pid none
          pure (ForInStep.yield r)
        else pure (ForInStep.yield (r ++ [o.pid])) : M (ForInStep (List Nat)))) : M (List Nat)) s =
      (acc ++ l.map (·.pid), s.bump (2 * l.length)) := by
  rw [← foldl_snoc_pid]
  apply forIn_acc_bump l 2 (fun o r => r ++ [o.pid]) _
    (fun t => t.k.Calm ∧ ∀ o ∈ l, ∃ p, t.k.find o.pid = some p ∧ p.st = .run)
  · intro t n ht; exact ⟨Kernel.bump_calm _ n ht.1, ht.2⟩
  · intro o ho b t ht
    obtain ⟨p, hf, hr⟩ := ht.2 o ho
    have hp := procStatus_running t o.pid p ht.1 hf hr
    simp only [bind, isDead, pure]
    generalize procStatus o.pid t = ps at hp
    subst hp
    simp
  · exact ⟨hc, hrun⟩

/-- the frames of `manage_processes`' surplus branch while its `gen.multi` is still being built: the continuation
    `fo` (`manage_after_kill`, result to `par`) and the multi frame `fm` -/
def surU (u fo fm m : Nat) (T : List Nat) (par : Waiter) (results : List (Nat × Val)) : List Frame :=
  [{ fid := fo, k := .manageAfterKill u T, parent := par }, { fid := fm, k := .multi m results, parent := .frame fo 0 }]

theorem deliver_multi_recordS (rec : Rec) (u m idx : Nat) (T : List Nat) (v : Val) (results : List (Nat × Val)) (base : List Frame)
    (fo fm : Nat) (par : Waiter) (k : Kernel) (a : Arbiter)
    (objs : List PObj) (ws : List Watcher) (sleepers : List Sleeper) (tops : List TopFut) (ready : List Ready)
    (dv : List (Nat × Val)) (nid : Nat) (log : List Obs) (hg : GB base fo fm) (hlt : results.length + 1 < m) :
    deliver rec (.frame fm idx) v ⟨k, a, objs, ws, base ++ surU u fo fm m T par results, sleepers, tops, ready, dv, nid, log, false⟩ =
      ((), ⟨k, a, objs, ws, base ++ surU u fo fm m T par (results ++ [(idx, v)]), sleepers, tops, ready, dv, nid, log, false⟩) := by
  have hn : ¬ m ≤ results.length + 1 := by omega
  have hbm : ∀ g ∈ base, g.fid ≠ fm := fun g hgm => by have := hg.lt g hgm; have := hg.fofm; omega
  have hfofm : ¬ fo = fm := by have := hg.fofm; omega
  simp [deliver, bind, getS, surU, setFrameK, modS, hn, find_skip base _ fm hbm, hfofm, map_skip base _ fm _ hbm]

theorem deliver_multi_lastS (rec : Rec) (u m idx : Nat) (T : List Nat) (v : Val) (results : List (Nat × Val)) (base : List Frame)
    (fo fm : Nat) (par : Waiter) (k : Kernel) (a : Arbiter)
    (objs : List PObj) (ws : List Watcher) (sleepers : List Sleeper) (tops : List TopFut) (ready : List Ready)
    (dv : List (Nat × Val)) (nid : Nat) (log : List Obs) (hg : GB base fo fm) (hge : m ≤ results.length + 1) :
    deliver rec (.frame fm idx) v ⟨k, a, objs, ws, base ++ surU u fo fm m T par results, sleepers, tops, ready, dv, nid, log, false⟩ =
      rec (.resume .pass (multiResult m (results ++ [(idx, v)])) (.frame fo 0))
        ⟨k, a, objs, ws, base ++ [{ fid := fo, k := .manageAfterKill u T, parent := par }], sleepers, tops, ready, dv, nid, log, false⟩ := by
  have hbm : ∀ g ∈ base, g.fid ≠ fm := fun g hgm => by have := hg.lt g hgm; have := hg.fofm; omega
  have hfofm : ¬ fo = fm := by have := hg.fofm; omega
  simp [deliver, bind, getS, surU, removeFrame, modS, hge, find_skip base _ fm hbm, hfofm, filter_skip base _ fm hbm]

/-- the `gen.multi` returns to `manage_processes`, which is still on the stack -/
theorem mp_returns (n u : Nat) (T : List Nat) (v : Val) (base : List Frame) (fo : Nat) (par : Waiter) (k : Kernel) (a : Arbiter)
    (objs : List PObj) (ws : List Watcher) (sleepers : List Sleeper) (tops : List TopFut) (ready : List Ready)
    (dv : List (Nat × Val)) (nid : Nat) (log : List Obs) (hb : ∀ g ∈ base, g.fid ≠ fo) :
    exec (n + 1) (.resume .pass v (.frame fo 0))
        ⟨k, a, objs, ws, base ++ [{ fid := fo, k := .manageAfterKill u T, parent := par }], sleepers, tops, ready, dv, nid, log, false⟩ =
      exec n (.resume (.manageAfterKill u T) v par) ⟨k, a, objs, ws, base, sleepers, tops, ready, dv, nid, log, false⟩ := by
  rw [exec_resume_mk]
  simp [runResume, deliver, bind, getS, removeFrame, modS, find_skip base _ fo hb, filter_skip base _ fo hb]

/-- **the children of the surplus `gen.multi`, obedient workers, not the last one**: each dies on the signal, is
    collected by the first poll, and its result is recorded in the multi frame -/
theorem obedAllS (n u m : Nat) (T : List Nat) (base : List Frame) (fo fm : Nat) (par : Waiter) (w : Watcher) (a : Arbiter)
    (sleepers : List Sleeper) (tops : List TopFut) (ready : List Ready)
    (dv : List (Nat × Val)) (nid : Nat) (hg : GB base fo fm) (hw : TOk u w) (hpolls : 0 < pollsOf w.graceful) (l : List Nat) :
    ∀ (idx : Nat) (k : Kernel) (objs : List PObj) (results : List (Nat × Val)) (log : List Obs),
      k.Base → l.Nodup →
      (∀ pid ∈ l, pid ∈ w.pids ∧ k.Obed pid ∧
        ∃ o, objs.find? (fun o => decide (o.pid = pid)) = some o ∧ o.stopping = false ∧ o.rc = none) →
      results.length + l.length < m →
      (forIn (l.map fun p => Call.killProcess u p none none) idx (multiBody (exec (n + 1)) fm) : M Nat)
          ⟨k, a, objs, [w], base ++ surU u fo fm m T par results, sleepers, tops, ready, dv, nid, log, false⟩ =
        (idx + l.length, ⟨k.obeyedAll w.stopSignal l, a,
          objs.map (fun o => if o.pid ∈ l then { o with stopping := false, rc := some (exitCodeOf (wstatSig w.stopSignal)) } else o),
          [w], base ++ surU u fo fm m T par (results ++ idxResults l idx), sleepers, tops, ready, dv, nid,
          obedLogs a w l log, false⟩) := by
  induction l with
  | nil =>
    intro idx k objs results log _ _ _ _
    simp [idxResults, obedLogs, Kernel.obeyedAll, pure]
  | cons p rest ih =>
    intro idx k objs results log hk hnd hall hlen
    obtain ⟨hp, hs, o, ho, hst, hrc⟩ := hall p (by simp)
    have hnd' := List.nodup_cons.mp hnd
    simp only [List.length_cons] at hlen
    rw [List.map_cons, List.forIn_cons]
    simp only [bind, multiBody]
    rw [exec_call_mk]
    simp only [runCall]
    rw [killProcess_obed (exec n) u p (.frame fm idx) w o k a objs _ sleepers tops ready dv nid log hw hk hs hp ho hst hrc hpolls]
    rw [deliver_multi_recordS (exec n) u m idx T (.bool true) results base fo fm par _ a _ [w] sleepers tops ready dv nid _ hg (by omega)]
    have hih := ih (idx + 1) (k.obeyed p w.stopSignal)
      (objs.map (fun o => if o.pid = p then { o with stopping := false, rc := some (exitCodeOf (wstatSig w.stopSignal)) } else o))
      (results ++ [(idx, Val.bool true)])
      (evlog a (log ++ [Obs.sig p w.stopSignal .run ""]) w "kill" (some p) "-" ++ [Obs.reap p (wstatSig w.stopSignal)])
      (Kernel.obeyed_base hk hs _) hnd'.2 (by
        intro q hq
        obtain ⟨hq1, ⟨x, hf, hx⟩, oq, hoq, hq3, hq4⟩ := hall q (by simp [hq])
        have hne : q ≠ p := fun h => hnd'.1 (h ▸ hq)
        refine ⟨hq1, ⟨x, by rw [Kernel.obeyed_find_other hk hs _ hne]; exact hf, hx⟩, oq, ?_, hq3, hq4⟩
        rw [find_modO objs p q (fun o => { o with stopping := false, rc := some (exitCodeOf (wstatSig w.stopSignal)) }) (fun _ => rfl), hoq]
        have : oq.pid = q := by simpa using List.find?_some hoq
        simp [this, hne]) (by simp only [List.length_append, List.length_cons, List.length_nil]; omega)
    simp only []
    rw [hih]
    simp only [idxResults, obedLogs, Kernel.obeyedAll, List.length_cons, List.map_map, List.append_assoc, List.singleton_append]
    have h1 : idx + 1 + rest.length = idx + (rest.length + 1) := by omega
    have hobj : List.map ((fun o => if o.pid ∈ rest then { o with stopping := false, rc := some (exitCodeOf (wstatSig w.stopSignal)) } else o) ∘
        fun o => if o.pid = p then { o with stopping := false, rc := some (exitCodeOf (wstatSig w.stopSignal)) } else o) objs =
        List.map (fun o => if o.pid ∈ p :: rest then { o with stopping := false, rc := some (exitCodeOf (wstatSig w.stopSignal)) } else o) objs := by
      apply List.map_congr_left
      intro x _
      simp only [Function.comp, List.mem_cons]
      by_cases hx : x.pid = p <;> by_cases hr : x.pid ∈ rest <;> simp [hx, hr]
    rw [h1, hobj]

/-! ## Part 2: the results of the `gen.multi`, the pops -/

theorem idxResults_lookup (l : List Nat) : ∀ (idx j : Nat), j < l.length →
    (idxResults l idx).lookup (idx + j) = some (Val.bool true) := by
  induction l with
  | nil => intro idx j hj; simp at hj
  | cons p rest ih =>
    intro idx j hj
    cases j with
    | zero => simp [idxResults, List.lookup]
    | succ j =>
      have hne : (idx + (j + 1) == idx) = false := by simp
      simp only [idxResults, List.lookup, hne]
      have := ih (idx + 1) j (by simpa using hj)
      rw [show idx + (j + 1) = idx + 1 + j by omega]
      exact this

theorem idxResults_lookup_lt (l : List Nat) : ∀ (idx i : Nat), i < idx → (idxResults l idx).lookup i = none := by
  induction l with
  | nil => intro idx i _; rfl
  | cons p rest ih =>
    intro idx i hi
    have hne : (i == idx) = false := by simp; omega
    simp only [idxResults, List.lookup, hne]
    exact ih (idx + 1) i (by omega)

/-- all children returned `True`: the `gen.multi` delivers the list of `True`s -/
theorem multiResult_idx (T : List Nat) : multiResult T.length (idxResults T 0) = .list (T.map fun _ => Val.bool true) := by
  unfold multiResult
  have hvs : ((List.range T.length).map fun i => ((idxResults T 0).lookup i).getD .unit) = T.map fun _ => Val.bool true := by
    apply List.ext_getElem
    · simp
    · intro i h1 h2
      simp only [List.getElem_map, List.getElem_range]
      have := idxResults_lookup T 0 i (by simpa using h1)
      rw [Nat.zero_add] at this
      rw [this]
      rfl
  simp only [hvs]
  have hnone : (T.map fun _ => Val.bool true).find? isExc = none := by
    apply List.find?_eq_none.mpr
    intro v hv
    obtain ⟨_, _, rfl⟩ := List.mem_map.mp hv
    simp [isExc]
  rw [hnone]

/-- the loop body of `manage_after_kill` -/
def popBody (u : Nat) : Nat × Val → Bool → M (ForInStep Bool) := fun x ok =>
  if ok = true then
    (match x.snd with
     | Val.bool true => (do
        let b ← popStrict u x.fst
        if (!b) = true then pure (ForInStep.yield false) else pure (ForInStep.yield ok) : M (ForInStep Bool))
     | _ => pure (ForInStep.yield ok))
  else pure (ForInStep.yield ok)

/-- the pops after the surplus kills: every killed worker leaves the dict -/
theorem popLoop_all (u : Nat) (a : Arbiter) (k : Kernel) (objs : List PObj) (frames : List Frame) (sleepers : List Sleeper)
    (tops : List TopFut) (ready : List Ready) (dv : List (Nat × Val)) (nid : Nat) (log : List Obs) (T : List Nat) :
    ∀ (w : Watcher), w.uid = u → T.Nodup → (∀ p ∈ T, p ∈ w.pids) →
    (forIn (T.zip (T.map fun _ => Val.bool true)) true (popBody u) : M Bool)
        ⟨k, a, objs, [w], frames, sleepers, tops, ready, dv, nid, log, false⟩ =
      (true, ⟨k, a, objs, [{ w with pids := w.pids.filter (fun p => decide (p ∉ T)) }], frames, sleepers, tops, ready, dv,
        nid, log, false⟩) := by
  induction T with
  | nil =>
    intro w _ _ _
    have : w.pids.filter (fun p => decide (p ∉ ([] : List Nat))) = w.pids := List.filter_eq_self.mpr (fun _ _ => by simp)
    rw [this]
    rfl
  | cons p rest ih =>
    intro w hu hnd hall
    have hnd' := List.nodup_cons.mp hnd
    have hp : p ∈ w.pids := hall p (by simp)
    rw [List.map_cons, List.zip_cons_cons, List.forIn_cons]
    have hbody : popBody u (p, Val.bool true) true ⟨k, a, objs, [w], frames, sleepers, tops, ready, dv, nid, log, false⟩ =
        (ForInStep.yield true, ⟨k, a, objs, [{ w with pids := w.pids.filter (· ≠ p) }], frames, sleepers, tops, ready, dv, nid, log, false⟩) := by
      simp [popBody, popStrict, bind, getW, hu, hp, popPid, modW, modS, pure]
    simp only [bind, hbody]
    rw [ih { w with pids := w.pids.filter (· ≠ p) } hu hnd'.2 (fun q hq => by
      have hne : q ≠ p := fun h => hnd'.1 (h ▸ hq)
      simp [hall q (by simp [hq]), hne])]
    simp only [List.filter_filter]
    have hfl : List.filter (fun x => decide (x ∉ rest) && decide (x ≠ p)) w.pids =
        List.filter (fun q => decide (q ∉ p :: rest)) w.pids := by
      apply List.filter_congr
      intro x _
      by_cases h1 : x ∈ rest <;> by_cases h2 : x = p <;> simp [h1, h2]
    rw [hfl]

/-- **`manage_after_kill`**: every surplus worker whose `kill_process` returned `True` is popped (no `reap` event:
    `manage_processes` uses `dict.pop`), the coroutine returns to its waiter -/
theorem popKilled_all (rec : Rec) (u : Nat) (wt : Waiter) (T : List Nat) (w : Watcher) (a : Arbiter) (k : Kernel)
    (objs : List PObj) (frames : List Frame) (sleepers : List Sleeper) (tops : List TopFut) (ready : List Ready)
    (dv : List (Nat × Val)) (nid : Nat) (log : List Obs) (hu : w.uid = u) (hnd : T.Nodup) (hall : ∀ p ∈ T, p ∈ w.pids) :
    popKilled rec u T (.list (T.map fun _ => Val.bool true)) wt ⟨k, a, objs, [w], frames, sleepers, tops, ready, dv, nid, log, false⟩ =
      deliver rec wt .unit ⟨k, a, objs, [{ w with pids := w.pids.filter (fun p => decide (p ∉ T)) }], frames, sleepers, tops,
        ready, dv, nid, log, false⟩ := by
  have hl := popLoop_all u a k objs frames sleepers tops ready dv nid log T w hu hnd hall
  unfold popKilled
  simp only [bind]
  erw [hl]
  simp only
  erw [if_pos True.intro]

/-! ## Part 3: the kernel after the kills -/

theorem Kernel.obeyed_pids {k : Kernel} (hk : k.Base) {pid : Nat} (hs : k.Obed pid) (sig : Nat) :
    ∀ p ∈ (k.obeyed pid sig).procs, ∃ q ∈ k.procs, p.pid = q.pid := by
  intro p hp
  have h1 : (k.obeyed pid sig).procs = (k.termed pid sig).procs.map
      (fun q => if q.pid = pid then { q with st := .gone } else q) := rfl
  rw [h1, Kernel.termed_procs hk pid sig (Kernel.Obed.pid_ne_zero hk hs)] at hp
  obtain ⟨q1, hq1, rfl⟩ := List.mem_map.mp hp
  obtain ⟨q, hq, rfl⟩ := List.mem_map.mp hq1
  refine ⟨q, hq, ?_⟩
  by_cases h : q.pid = pid <;> simp [h]

theorem Kernel.obeyed_still {k : Kernel} (hk : k.Base) (hst : k.Still) {pid : Nat} (hs : k.Obed pid) (sig : Nat) :
    (k.obeyed pid sig).Still := by
  have hb := Kernel.obeyed_base hk hs sig
  refine ⟨hb.armed, hb.faults, hb.nodoom, hst.noexecfail, Kernel.obeyed_nozombie hk hs sig hst.nozombie, ?_⟩
  intro p hp
  obtain ⟨q, hq, hpq⟩ := Kernel.obeyed_pids hk hs sig p hp
  show p.pid < k.nextPid
  rw [hpq]
  exact hst.lt q hq

theorem Kernel.obeyedAll_still (sig : Nat) (l : List Nat) : ∀ (k : Kernel), k.Base → k.Still → l.Nodup →
    (∀ pid ∈ l, k.Obed pid) → (k.obeyedAll sig l).Still ∧ (k.obeyedAll sig l).nextPid = k.nextPid := by
  induction l with
  | nil => intro k _ hst _ _; exact ⟨hst, rfl⟩
  | cons p r ih =>
    intro k hk hst hnd hall
    have hnd' := List.nodup_cons.mp hnd
    have hp := hall p (by simp)
    have hr : ∀ pid ∈ r, (k.obeyed p sig).Obed pid := by
      intro pid hpid
      obtain ⟨x, hf, hx⟩ := hall pid (by simp [hpid])
      have hne : pid ≠ p := fun h => hnd'.1 (h ▸ hpid)
      exact ⟨x, by rw [Kernel.obeyed_find_other hk hp sig hne]; exact hf, hx⟩
    obtain ⟨h1, h2⟩ := ih (k.obeyed p sig) (Kernel.obeyed_base hk hp sig) (Kernel.obeyed_still hk hst hp sig) hnd'.2 hr
    exact ⟨h1, h2⟩

theorem Kernel.obeyedAll_snoc (sig : Nat) (l : List Nat) (q : Nat) : ∀ (k : Kernel),
    k.obeyedAll sig (l ++ [q]) = (k.obeyedAll sig l).obeyed q sig := by
  induction l with
  | nil => intro k; rfl
  | cons p r ih => intro k; exact ih (k.obeyed p sig)

/-! ## Part 4: `manage_processes` with a surplus of obedient workers, inside the check -/

/-- the callers of `manage_processes` inside the check, still on the stack -/
def checkBase (i : Nat) : List Frame :=
  [{ fid := i + 1, k := .manageWatchersTail false, parent := .top i },
   { fid := i + 2, k := .multi 1 [], parent := .frame (i + 1) 0 }]

theorem checkBase_gb (i : Nat) : GB (checkBase i) (i + 3) (i + 4) :=
  ⟨fun g hg => by
    simp only [checkBase, List.mem_cons, List.mem_nil_iff, or_false] at hg
    rcases hg with rfl | rfl <;> simp, by omega⟩

theorem idxResults_snoc (q : Nat) (l : List Nat) : ∀ (idx : Nat),
    idxResults (l ++ [q]) idx = idxResults l idx ++ [(idx + l.length, Val.bool true)] := by
  induction l with
  | nil => intro idx; simp [idxResults]
  | cons p r ih => intro idx; simp [idxResults, ih (idx + 1)]; omega

/-- **the surplus `gen.multi` over obedient workers `init ++ [q]`, started by `manage_processes` inside the check**:
    every worker gets the stop signal, dies at once and is collected by the first poll of its `kill_process`; the
    `gen.multi` completes in place, the entries are popped, and the check unwinds to the release of the slot -/
theorem awaitMulti_surplus (n u i : Nat) (init : List Nat) (q : Nat) (w : Watcher) (K : Kernel) (a : Arbiter) (objs : List PObj)
    (log : List Obs) (hu : w.uid = u) (ht : TOk u w) (hpolls : 0 < pollsOf w.graceful)
    (hTnd : (init ++ [q]).Nodup) (hKs : K.Still) (hKb : K.Base)
    (hall : ∀ pid ∈ init ++ [q], pid ∈ w.pids ∧ K.Obed pid ∧
      ∃ o, objs.find? (fun o => decide (o.pid = pid)) = some o ∧ o.stopping = false ∧ o.rc = none) :
    awaitMulti (exec (n + 6)) ((init ++ [q]).map fun p => Call.killProcess u p none none) (.manageAfterKill u (init ++ [q]))
        (.frame (i + 2) 0) ⟨K, a, objs, [w], checkBase i, [], [{ tid := i, cbs := [.release] }], [], [], i + 3, log, false⟩ =
      ((), ⟨(K.obeyedAll w.stopSignal init).obeyed q w.stopSignal, { a with slot := none },
        (objs.map (fun o => if o.pid ∈ init then
            { o with stopping := false, rc := some (exitCodeOf (wstatSig w.stopSignal)) } else o)).map
          (fun o => if o.pid = q then { o with stopping := false, rc := some (exitCodeOf (wstatSig w.stopSignal)) } else o),
        [{ w with pids := w.pids.filter (fun p => decide (p ∉ init ++ [q])) }],
        [], [], [], [], [(i, Val.unit)], i + 5, obedLogs a w (init ++ [q]) log, false⟩) ∧
    ((K.obeyedAll w.stopSignal init).obeyed q w.stopSignal).Still ∧ ((K.obeyedAll w.stopSignal init).obeyed q w.stopSignal).Base ∧
    ((K.obeyedAll w.stopSignal init).obeyed q w.stopSignal).nextPid = K.nextPid ∧
    (∀ p, p ∉ init ++ [q] → ((K.obeyedAll w.stopSignal init).obeyed q w.stopSignal).find p = K.find p) ∧
    (∀ p ∈ init ++ [q], ((K.obeyedAll w.stopSignal init).obeyed q w.stopSignal).GoneP p) := by
  have hndq : init.Nodup ∧ q ∉ init := by
    have h2 := List.nodup_append.mp hTnd
    exact ⟨h2.1, fun hq => h2.2.2 q hq q (by simp) rfl⟩
  have hqT : q ∈ init ++ [q] := by simp
  have hiT : ∀ pid ∈ init, pid ∈ init ++ [q] := fun pid h => by simp [h]
  have hTl : (init ++ [q]).length = init.length + 1 := by simp
  -- the children of the gen.multi but the last
  have hchildren := obedAllS (n + 5) u (init ++ [q]).length (init ++ [q]) (checkBase i) (i + 3) (i + 4)
    (.frame (i + 2) 0) w a [] [{ tid := i, cbs := [.release] }] [] [] (i + 5) (checkBase_gb i) ht hpolls init 0 K objs [] log hKb
    hndq.1 (fun pid hp => hall pid (hiT pid hp)) (by simp only [List.length_nil]; omega)
  obtain ⟨hB1, hF1, hG1, _⟩ := Kernel.obeyedAll_facts w.stopSignal init K hKb hndq.1 (fun pid hp => (hall pid (hiT pid hp)).2.1)
  obtain ⟨hS1, hN1⟩ := Kernel.obeyedAll_still w.stopSignal init K hKb hKs hndq.1 (fun pid hp => (hall pid (hiT pid hp)).2.1)
  -- the last one
  have hq1 : (K.obeyedAll w.stopSignal init).Obed q := by
    obtain ⟨x, hf, hx⟩ := (hall q hqT).2.1
    exact ⟨x, by rw [hF1 q hndq.2]; exact hf, hx⟩
  obtain ⟨oq, hoq, hoq2, hoq3⟩ := (hall q hqT).2.2
  have hoqp : oq.pid = q := by simpa using List.find?_some hoq
  have hoq' : (objs.map (fun o => if o.pid ∈ init then
      { o with stopping := false, rc := some (exitCodeOf (wstatSig w.stopSignal)) } else o)).find? (fun o => decide (o.pid = q)) = some oq := by
    rw [find_map_pid objs q _ (fun o => by split <;> rfl), hoq]
    simp [hoqp, hndq.2]
  have hB2 := Kernel.obeyed_base hB1 hq1 w.stopSignal
  have hS2 := Kernel.obeyed_still hB1 hS1 hq1 w.stopSignal
  refine ⟨?_, hS2, hB2, ?_, ?_, ?_⟩
  · rw [awaitMulti_ne _ _ (by simp)]
    simp only [List.length_map, show i + 3 + 1 = i + 4 from rfl, show i + 3 + 2 = i + 5 from rfl]
    have hfr : checkBase i ++ [{ fid := i + 3, k := Kont.manageAfterKill u (init ++ [q]), parent := Waiter.frame (i + 2) 0 },
        { fid := i + 4, k := Kont.multi (init ++ [q]).length [], parent := Waiter.frame (i + 3) 0 }] =
        checkBase i ++ surU u (i + 3) (i + 4) (init ++ [q]).length (init ++ [q]) (.frame (i + 2) 0) [] := rfl
    rw [hfr]
    rw [show (List.map (fun p => Call.killProcess u p none none) (init ++ [q])) =
      List.map (fun p => Call.killProcess u p none none) init ++ [Call.killProcess u q none none] by simp]
    rw [forIn_multi_append]
    rw [show n + 6 = (n + 5) + 1 from rfl, hchildren]
    simp only []
    rw [List.forIn_cons]
    simp only [bind, multiBody, List.forIn_nil, pure]
    rw [exec_call_mk]
    simp only [runCall]
    rw [killProcess_obed (exec (n + 5)) u q (.frame (i + 4) (0 + init.length)) w oq _ a _ _ [] _ [] [] (i + 5) _
      ht hB1 hq1 (hall q hqT).1 hoq' hoq2 hoq3 hpolls]
    rw [deliver_multi_lastS (exec (n + 5)) u (init ++ [q]).length (0 + init.length) (init ++ [q]) (.bool true) _
      (checkBase i) (i + 3) (i + 4) (.frame (i + 2) 0) _ a _ _ [] _ [] [] (i + 5) _ (checkBase_gb i)
      (by simp only [List.nil_append, idxResults_length]; omega)]
    have hres : ([] ++ idxResults init 0) ++ [(0 + init.length, Val.bool true)] = idxResults (init ++ [q]) 0 := by
      rw [idxResults_snoc]; simp
    rw [hres, multiResult_idx]
    rw [show n + 5 = (n + 4) + 1 from rfl, mp_returns (n + 4) u _ _ (checkBase i) (i + 3) (.frame (i + 2) 0) _ a _ _ [] _ [] [] (i + 5) _
      (fun g hg => by have := (checkBase_gb i).lt g hg; omega)]
    rw [show n + 4 = (n + 3) + 1 from rfl, exec_resume_mk]
    simp only [runResume]
    rw [popKilled_all (exec (n + 3)) u (.frame (i + 2) 0) (init ++ [q]) w a _ _ (checkBase i) [] _ [] [] (i + 5) _ hu
      hTnd (fun p hp => (hall p hp).1)]
    rw [show n + 3 = (n + 1) + 2 from rfl, checkBase, unwind_check (n + 1) i]
    simp only [armFrame, modS, List.map_nil]
    have hlg : evlog a (obedLogs a w init log ++ [Obs.sig q w.stopSignal .run ""]) w "kill" (some q) "-" ++
        [Obs.reap q (wstatSig w.stopSignal)] = obedLogs a w (init ++ [q]) log := by
      rw [obedLogs_append]; rfl
    rw [hlg]
  · have : ((K.obeyedAll w.stopSignal init).obeyed q w.stopSignal).nextPid = (K.obeyedAll w.stopSignal init).nextPid := rfl
    rw [this, hN1]
  · intro p hp
    have hp1 : p ∉ init := fun h => hp (hiT p h)
    have hp2 : p ≠ q := fun h => hp (h ▸ hqT)
    rw [Kernel.obeyed_find_other hB1 hq1 _ hp2, hF1 p hp1]
  · intro p hp
    simp only [List.mem_append, List.mem_singleton] at hp
    by_cases hpq : p = q
    · subst hpq
      exact Kernel.obeyed_find_self hB1 hq1 _
    · have hpi : p ∈ init := by rcases hp with h | h; exact h; exact absurd h hpq
      obtain ⟨x, hf, hg⟩ := hG1 p hpi
      exact ⟨x, by rw [Kernel.obeyed_find_other hB1 hq1 _ hpq]; exact hf, hg⟩

/-- the front part of `manage_processes` with a surplus of running workers: two status reads per listed worker,
    nothing to spawn, the sort, two more status reads per surplus worker; then the `gen.multi` over the surplus -/
theorem manageProcesses_surplus_front (rec : Rec) (u N : Nat) (wt : Waiter) (w : Watcher) (k : Kernel) (a : Arbiter)
    (objs : List PObj) (frames : List Frame) (tops : List TopFut) (nid : Nat) (log : List Obs)
    (hw : WOk u N w) (hst : k.Still)
    (hrun : ∀ pid ∈ w.pids, ∃ p, k.find pid = some p ∧ p.st = .run)
    (hobj : ∀ pid ∈ w.pids, ∃ o, objs.find? (fun x => decide (x.pid = pid)) = some o)
    (hgt : N < w.pids.length) :
    manageProcesses rec u wt ⟨k, a, objs, [w], frames, [], tops, [], [], nid, log, false⟩ =
      awaitMulti rec ((surplus objs w.pids N).map fun p => Call.killProcess u p none none)
        (.manageAfterKill u (surplus objs w.pids N)) wt
        ⟨k.bump (2 * w.pids.length + 2 * (surplus objs w.pids N).length), a, objs, [w], frames, [], tops, [], [], nid, log, false⟩ := by
  have hTsub := surplus_sub objs w.pids N hobj
  unfold manageProcesses
  simp only [bind]
  rw [getW_mk k a objs w frames [] tops [] [] nid log u hw.uid]
  have hns : ¬ w.status = Status.stopped := by rw [hw.status]; decide
  erw [if_neg hns]
  have hl := manageLoop_still u w.pids ⟨k, a, objs, [w], frames, [], tops, [], [], nid, log, false⟩ hst hrun
  simp only [bind] at hl
  erw [hl]
  have hage : ¬ (w.maxAge > 0) := by rw [hw.maxAge]; decide
  erw [if_neg hage]
  unfold manageAfterExpire
  simp only [bind]
  rw [getW_single u w ((⟨k, a, objs, [w], frames, [], tops, [], [], nid, log, false⟩ : State).bump (2 * w.pids.length)) rfl hw.uid]
  have hlt : (decide ((w.pids.length : Int) < w.np) && decide (w.status ≠ Status.stopping)) = false := by
    rw [hw.np]; simp; omega
  simp only [hlt, Bool.false_eq_true, if_false]
  unfold manageTail
  simp only [bind]
  rw [getW_single u w ((⟨k, a, objs, [w], frames, [], tops, [], [], nid, log, false⟩ : State).bump (2 * w.pids.length)) rfl hw.uid]
  have hgt' : (w.pids.length : Int) > w.np := by rw [hw.np]; omega
  erw [if_pos hgt']
  simp only [getS]
  have hnp : w.np.toNat = N := by rw [hw.np]; simp
  have hloop := surplusLoop_running u ((sortByStartedDesc (listedObjs objs w.pids)).drop N) []
    ((⟨k, a, objs, [w], frames, [], tops, [], [], nid, log, false⟩ : State).bump (2 * w.pids.length))
    (hst.bump _).calm (by
      intro o ho
      have hm : o.pid ∈ surplus objs w.pids N := List.mem_map.mpr ⟨o, ho, rfl⟩
      exact hrun o.pid (hTsub _ hm))
  simp only [bind, List.nil_append, List.length_drop] at hloop
  have hlen2 : (sortByStartedDesc (listedObjs objs w.pids)).length - N = (surplus objs w.pids N).length := by
    unfold surplus; simp
  rw [hlen2] at hloop
  simp only [hnp]
  unfold listedObjs at hloop
  erw [hloop]
  simp only [State.bump_bump]
  rfl

/-- **`manage_processes` with `m > N` running workers of which the surplus ones obey the stop signal, called by the
    check**: two status reads per worker, the surplus (all but the `N` newest) gets the stop signal one after the
    other, each dies at once and is collected by the first poll of its `kill_process`; the `gen.multi` completes in
    place, the entries are popped, and the check unwinds to the release of the slot -/
theorem manageProcesses_surplus (n u N i : Nat) (w : Watcher) (k : Kernel) (a : Arbiter) (objs : List PObj) (log : List Obs)
    (hw : WOk u N w) (ht : TOk u w) (hpolls : 0 < pollsOf w.graceful) (hnd : w.pids.Nodup)
    (hst : k.Still) (hk : k.Base)
    (hall : ∀ pid ∈ w.pids, (∃ p, k.find pid = some p ∧ p.st = .run) ∧
      ∃ o, objs.find? (fun o => decide (o.pid = pid)) = some o ∧ o.stopping = false ∧ o.rc = none)
    (hob : ∀ pid ∈ surplus objs w.pids N, k.Obed pid) (hgt : N < w.pids.length) :
    ∃ K2 O2,
      manageProcesses (exec (n + 6)) u (.frame (i + 2) 0)
          ⟨k, a, objs, [w], checkBase i, [], [{ tid := i, cbs := [.release] }], [], [], i + 3, log, false⟩ =
        ((), ⟨K2, { a with slot := none }, O2, [{ w with pids := w.pids.filter (fun p => decide (p ∉ surplus objs w.pids N)) }],
          [], [], [], [], [(i, Val.unit)], i + 5, obedLogs a w (surplus objs w.pids N) log, false⟩) ∧
      K2.Still ∧ K2.Base ∧ K2.nextPid = k.nextPid ∧ (∀ q, q ∉ surplus objs w.pids N → K2.find q = k.find q) ∧
      (∀ q ∈ surplus objs w.pids N, K2.GoneP q) := by
  have hobj : ∀ pid ∈ w.pids, ∃ o, objs.find? (fun x => decide (x.pid = pid)) = some o := fun pid hp => by
    obtain ⟨_, o, ho, _⟩ := hall pid hp; exact ⟨o, ho⟩
  have hTnd := surplus_nodup objs w.pids N hobj hnd
  have hTsub := surplus_sub objs w.pids N hobj
  have hTlen := surplus_length objs w.pids N hobj
  have hTne : surplus objs w.pids N ≠ [] := by
    intro h; rw [h] at hTlen; simp at hTlen; omega
  obtain ⟨init, q, hTiq⟩ : ∃ init q, surplus objs w.pids N = init ++ [q] := by
    rcases List.eq_nil_or_concat (surplus objs w.pids N) with h | ⟨i, q, h⟩
    · exact absurd h hTne
    · exact ⟨i, q, by simpa using h⟩
  rw [manageProcesses_surplus_front (exec (n + 6)) u N _ w k a objs _ _ _ log hw hst (fun pid hp => (hall pid hp).1) hobj hgt]
  rw [hTiq] at hTnd hTsub hob ⊢
  obtain ⟨h1, h2, h3, h4, h5, h6⟩ := awaitMulti_surplus n u i init q w
    (k.bump (2 * w.pids.length + 2 * (init ++ [q]).length)) a objs log hw.uid ht hpolls hTnd (hst.bump _) (hk.bump _)
    (fun pid hp => ⟨hTsub pid hp, hob pid hp, (hall pid (hTsub pid hp)).2⟩)
  exact ⟨_, _, h1, h2, h3, h4, h5, h6⟩

/-! ## Part 5: the check -/

theorem obedLogs_pub (a a' : Arbiter) (h : a'.pubClosed = a.pubClosed) (w : Watcher) (l : List Nat) :
    ∀ log, obedLogs a' w l log = obedLogs a w l log := by
  induction l with
  | nil => intro _; rfl
  | cons p r ih => intro log; simp only [obedLogs, evlog, h]; exact ih _

/-- the data of the start state, surplus case: the only watcher `w` (as in `Dat`; signals go to the worker only, the
    stop signal is a real terminating one other than SIGKILL, `graceful_timeout > 0`) lists pairwise different pids,
    each running with its `Process` object (no kill in flight, no cached exit code); the surplus ones — all but the
    `N` newest — die at once on a terminating signal; the kernel is still, workers have no children of their own -/
structure SurplusOk (u N : Nat) (w : Watcher) (s : State) : Prop where
  ws : s.ws = [w]
  wok : WOk u N w
  tok : TOk u w
  polls : 0 < pollsOf w.graceful
  nodup : w.pids.Nodup
  blocked : s.blocked = false
  still : s.k.Still
  base : s.k.Base
  procs : ∀ pid ∈ w.pids, (∃ p, s.k.find pid = some p ∧ p.st = .run) ∧
    ∃ o, s.objs.find? (fun o => decide (o.pid = pid)) = some o ∧ o.stopping = false ∧ o.rc = none
  obed : ∀ pid ∈ surplus s.objs w.pids N, s.k.Obed pid

/-- **the periodic check with a surplus of workers that obey the stop signal**: within the one step the
    `m - N` oldest workers get the stop signal, die, are collected and leave the dict; the others stay listed in
    their order and run; nothing is in flight afterwards -/
theorem check_surplus_obed (u N : Nat) (w : Watcher) (s : State) (hi : Idle u s) (hd : SurplusOk u N w s)
    (hgt : N < w.pids.length) :
    Idle u (step s .check) ∧
    DatL u N (w.pids.filter (fun p => decide (p ∉ surplus s.objs w.pids N))) (step s .check) ∧
    (step s .check).log = obedLogs s.a w (surplus s.objs w.pids N) s.log ∧
    (∀ q ∈ surplus s.objs w.pids N, (step s .check).k.GoneP q) ∧
    (step s .check).k.nextPid = s.k.nextPid ∧ (step s .check).k.Base := by
  obtain ⟨hws, hw, ht, hpolls, hnd, hb, hst, hk, hall, hob⟩ := hd
  have hreap : arbReapProcesses (checkEntry s) =
      ((), { checkEntry s with k := s.k.beginStep.bump 1, objs := s.objs, ws := [w], log := s.log }) := by
    rw [arbReapProcesses_still (checkEntry s) hb hst.beginStep]
    simp only [checkEntry, hws]
  obtain ⟨K2, O2, hmp, hK2s, hK2b, hK2n, hK2f, hK2g⟩ := manageProcesses_surplus 99992 u N s.nextId w (s.k.beginStep.bump 1)
    { s.a with slot := some "manage_watchers" } s.objs s.log hw ht hpolls hnd (hst.beginStep.bump 1) (hk.beginStep.bump 1)
    hall hob hgt
  have hlog : obedLogs { s.a with slot := some "manage_watchers" } w (surplus s.objs w.pids N) s.log =
      obedLogs s.a w (surplus s.objs w.pids N) s.log :=
    obedLogs_pub s.a { s.a with slot := some "manage_watchers" } rfl w _ _
  rw [hlog] at hmp
  have hres := check_done_gen u s hi hb (s.k.beginStep.bump 1) s.objs w s.log hw.uid hw.onDemand hreap K2 O2
    { w with pids := w.pids.filter (fun p => decide (p ∉ surplus s.objs w.pids N)) }
    (obedLogs s.a w (surplus s.objs w.pids N) s.log) (s.nextId + 5) hmp
  rw [hres]
  refine ⟨⟨rfl, rfl, rfl, rfl, rfl, hi.loopStop, hi.stopping, hi.restarting, hi.watchers⟩,
    ⟨_, rfl, ⟨hw.uid, hw.status, hw.respawn, hw.maxAge, hw.onDemand, hw.hooks, hw.np, hw.retry⟩, rfl, rfl, hK2s, ?_⟩,
    rfl, hK2g, hK2n, hK2b⟩
  intro pid hp
  have hpL := (List.mem_filter.mp hp).1
  have hnT : pid ∉ surplus s.objs w.pids N := by simpa using (List.mem_filter.mp hp).2
  obtain ⟨p, hf, hr⟩ := (hall pid hpL).1
  exact ⟨p, by rw [hK2f pid hnT]; exact hf, hr⟩

/-- **convergence from a surplus and staying there**: the check, then any number of further checks: the `N` newest
    workers stay listed and running, nothing is signalled or spawned any more -/
theorem check_surplus_stays (u N n : Nat) (w : Watcher) (s : State) (hi : Idle u s) (hd : SurplusOk u N w s)
    (hgt : N < w.pids.length) :
    Idle u (run s (.check :: List.replicate n .check)) ∧
    DatL u N (w.pids.filter (fun p => decide (p ∉ surplus s.objs w.pids N))) (run s (.check :: List.replicate n .check)) ∧
    (run s (.check :: List.replicate n .check)).log = obedLogs s.a w (surplus s.objs w.pids N) s.log := by
  obtain ⟨h1, h2, h3, _⟩ := check_surplus_obed u N w s hi hd hgt
  have hobj : ∀ pid ∈ w.pids, ∃ o, s.objs.find? (fun x => decide (x.pid = pid)) = some o := fun pid hp => by
    obtain ⟨_, o, ho, _⟩ := hd.procs pid hp; exact ⟨o, ho⟩
  have hlen := kept_length s.objs w.pids N hobj hd.nodup (by omega)
  rw [run_cons]
  obtain ⟨g1, g2, g3⟩ := checks_stayL u N _ hlen n _ h1 h2
  exact ⟨g1, g2, g3.trans h3⟩

/-! ### decidable forms of the hypotheses, for concrete states -/

/-- `pid` runs and has a `Process` object with no kill in flight and no cached exit code -/
def workerOkB (s : State) (pid : Nat) : Bool :=
  (s.k.stOf pid == some .run) &&
  (match s.objs.find? (fun o => decide (o.pid = pid)) with
   | some o => !o.stopping && o.rc.isNone
   | none => false)

theorem workerOkB_spec {s : State} {pid : Nat} (h : workerOkB s pid = true) :
    (∃ p, s.k.find pid = some p ∧ p.st = .run) ∧
    ∃ o, s.objs.find? (fun o => decide (o.pid = pid)) = some o ∧ o.stopping = false ∧ o.rc = none := by
  unfold workerOkB at h
  simp only [Bool.and_eq_true, beq_iff_eq] at h
  refine ⟨Kernel.find_of_stOf h.1, ?_⟩
  cases ho : s.objs.find? (fun o => decide (o.pid = pid)) with
  | none => rw [ho] at h; simp at h
  | some o =>
    rw [ho] at h
    have h2 := h.2
    simp only [Bool.and_eq_true, Bool.not_eq_true'] at h2
    refine ⟨o, rfl, h2.1, ?_⟩
    cases hr : o.rc with
    | none => rfl
    | some c => rw [hr] at h2; simp at h2

/-- `pid` runs and dies at once on a terminating signal -/
def Kernel.obedB (k : Kernel) (pid : Nat) : Bool :=
  match k.find pid with
  | some p => (p.st == .run) && (p.behav.term == some 0)
  | none => false

theorem Kernel.obedB_spec {k : Kernel} {pid : Nat} (h : k.obedB pid = true) : k.Obed pid := by
  unfold Kernel.obedB at h
  cases hf : k.find pid with
  | none => rw [hf] at h; simp at h
  | some p =>
    rw [hf] at h
    simp only [Bool.and_eq_true, beq_iff_eq] at h
    exact ⟨p, hf, h.1, h.2⟩

end Circus.Core
