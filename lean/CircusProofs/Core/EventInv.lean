import CircusProofs.Core.PidInv
import CircusProofs.Core.HookFrame
/-!
`EvInv`: what the published `reap` and `spawn` events say about pids (C09).

Per pid at most one `reap` event and at most one `spawn` event; none for a pid the kernel has not
handed out yet; no `reap` event yet for a pid that is still listed; never a `spawn` event after a
`reap` event for the same pid.  Together with `PidInv` (a pid is listed by one watcher, once, and a
pid that left the list never comes back because `spawnAdopt` lists only the fresh pid).

Not an invariant of the bare writer `emitEv`: it lives on the `E` chain of Generic.lean, where
`emitEv` is only required for the other topics; the two places that publish `reap` / `spawn` are
done by hand (`ev_reapProcess`: the event follows the pop; `ev_spawnProcess`: the event follows
the adoption of the fresh pid).
-/
namespace Circus.Core

/-- `o` is a published `reap` event for pid `p` -/
def Obs.isReapOf (p : Nat) : Obs → Bool
  | .ev _ t (some q) _ => t == "reap" && q == p
  | _ => false

/-- `o` is a published `spawn` event for pid `p` -/
def Obs.isSpawnOf (p : Nat) : Obs → Bool
  | .ev _ t (some q) _ => t == "spawn" && q == p
  | _ => false

def reapCount (p : Nat) (log : List Obs) : Nat := log.countP (Obs.isReapOf p)
def spawnCount (p : Nat) (log : List Obs) : Nat := log.countP (Obs.isSpawnOf p)

/-- no `spawn` event for a pid comes after a `reap` event for it -/
def SpawnFirst (log : List Obs) : Prop :=
  ∀ p pre o post, log = pre ++ o :: post → o.isSpawnOf p = true → reapCount p pre = 0

/-- an observation that is neither a `reap` nor a `spawn` event -/
def Obs.neutral (o : Obs) : Prop := ∀ p, o.isReapOf p = false ∧ o.isSpawnOf p = false

theorem reapCount_append (p : Nat) (a b : List Obs) : reapCount p (a ++ b) = reapCount p a + reapCount p b := by
  simp [reapCount, List.countP_append]
theorem spawnCount_append (p : Nat) (a b : List Obs) : spawnCount p (a ++ b) = spawnCount p a + spawnCount p b := by
  simp [spawnCount, List.countP_append]

theorem reapCount_neutral (p : Nat) (l : List Obs) (h : ∀ o ∈ l, o.isReapOf p = false) : reapCount p l = 0 := by
  simp only [reapCount, List.countP_eq_zero]
  intro o ho; simp [h o ho]
theorem spawnCount_neutral (p : Nat) (l : List Obs) (h : ∀ o ∈ l, o.isSpawnOf p = false) : spawnCount p l = 0 := by
  simp only [spawnCount, List.countP_eq_zero]
  intro o ho; simp [h o ho]

/-- appending observations none of which is a `spawn` event keeps the order -/
theorem SpawnFirst.append {log : List Obs} (h : SpawnFirst log) (l : List Obs)
    (hl : ∀ o ∈ l, ∀ p, o.isSpawnOf p = false) : SpawnFirst (log ++ l) := by
  intro p pre o post heq ho
  rcases List.append_eq_append_iff.mp heq with ⟨a', hpre, hl'⟩ | ⟨c', hlog, hpost⟩
  · have : o ∈ l := by rw [hl']; simp
    rw [hl o this p] at ho; cases ho
  · cases c' with
    | nil =>
      simp only [List.nil_append] at hpost
      have : o ∈ l := by rw [← hpost]; simp
      rw [hl o this p] at ho; cases ho
    | cons x c'' =>
      simp only [List.cons_append, List.cons.injEq] at hpost
      obtain ⟨rfl, _⟩ := hpost
      exact h p pre o c'' hlog ho

/-- appending the `spawn` event of a pid that has no `reap` event keeps the order -/
theorem SpawnFirst.append_spawn {log : List Obs} (h : SpawnFirst log) (w : String) (q : Nat) (x : String)
    (hq : reapCount q log = 0) : SpawnFirst (log ++ [Obs.ev w "spawn" (some q) x]) := by
  intro p pre o post heq ho
  rcases List.append_eq_append_iff.mp heq with ⟨a', hpre, hl'⟩ | ⟨c', hlog, hpost⟩
  · -- `o` is the new event
    cases a' with
    | nil =>
      simp only [List.nil_append, List.cons.injEq] at hl'
      obtain ⟨rfl, _⟩ := hl'
      simp only [Obs.isSpawnOf, Bool.and_eq_true, beq_iff_eq] at ho
      rw [hpre, List.append_nil, ← ho.2]; exact hq
    | cons y a'' =>
      simp only [List.cons_append, List.cons.injEq] at hl'
      have := hl'.2
      simp at this
  · cases c' with
    | nil =>
      simp only [List.nil_append, List.cons.injEq] at hpost
      obtain ⟨rfl, _⟩ := hpost
      simp only [Obs.isSpawnOf, Bool.and_eq_true, beq_iff_eq] at ho
      rw [List.append_nil] at hlog
      rw [← hlog, ← ho.2]; exact hq
    | cons x' c'' =>
      simp only [List.cons_append, List.cons.injEq] at hpost
      obtain ⟨rfl, _⟩ := hpost
      exact h p pre o c'' hlog ho

/-- the invariant -/
structure EvInv (s : State) : Prop where
  pid : PidInv s
  /-- nothing yet about a pid the kernel has not handed out -/
  fresh : ∀ p, s.k.nextPid ≤ p → reapCount p s.log = 0 ∧ spawnCount p s.log = 0
  /-- no `reap` event for a pid that is still listed -/
  listed : ∀ w ∈ s.ws, ∀ p ∈ w.pids, reapCount p s.log = 0
  reapLe : ∀ p, reapCount p s.log ≤ 1
  spawnLe : ∀ p, spawnCount p s.log ≤ 1
  order : SpawnFirst s.log

/-- a step that publishes neither a `reap` nor a `spawn` event, lists no new pid and does not move
    the pid counter back -/
theorem EvInv.step {s t : State} (h : EvInv s) (hp : PidInv t)
    (hlog : ∃ l, t.log = s.log ++ l ∧ ∀ o ∈ l, o.neutral)
    (hnp : s.k.nextPid ≤ t.k.nextPid)
    (hws : ∀ w' ∈ t.ws, ∀ p ∈ w'.pids, ∃ w ∈ s.ws, p ∈ w.pids) : EvInv t := by
  obtain ⟨l, hl, hn⟩ := hlog
  have hr : ∀ p, reapCount p t.log = reapCount p s.log := by
    intro p; rw [hl, reapCount_append, reapCount_neutral p l (fun o ho => (hn o ho p).1)]; rfl
  have hs : ∀ p, spawnCount p t.log = spawnCount p s.log := by
    intro p; rw [hl, spawnCount_append, spawnCount_neutral p l (fun o ho => (hn o ho p).2)]; rfl
  refine ⟨hp, ?_, ?_, ?_, ?_, ?_⟩
  · intro p hpge
    rw [hr, hs]; exact h.fresh p (Nat.le_trans hnp hpge)
  · intro w' hw' p hpm
    obtain ⟨w, hw, hpw⟩ := hws w' hw' p hpm
    rw [hr]; exact h.listed w hw p hpw
  · intro p; rw [hr]; exact h.reapLe p
  · intro p; rw [hs]; exact h.spawnLe p
  · rw [hl]; exact h.order.append l (fun o ho p => (hn o ho p).2)

theorem EvInv.same {s t : State} (h : EvInv s) (hp : PidInv t) (hlog : t.log = s.log)
    (hnp : t.k.nextPid = s.k.nextPid) (hws : t.ws = s.ws) : EvInv t :=
  h.step hp ⟨[], by rw [hlog, List.append_nil], fun _ ho => by cases ho⟩ (by rw [hnp]; exact Nat.le_refl _)
    (fun w' hw' p hpm => ⟨w', by rw [← hws]; exact hw', hpm⟩)

/-- a step on the log alone: nothing or one neutral observation -/
theorem EvInv.logged {s t : State} (h : EvInv s) (hp : PidInv t) (o : Obs) (ho : o.neutral)
    (hlog : t.log = s.log ∨ t.log = s.log ++ [o])
    (hnp : t.k.nextPid = s.k.nextPid) (hws : t.ws = s.ws) : EvInv t := by
  rcases hlog with hlog | hlog
  · exact h.same hp hlog hnp hws
  · exact h.step hp ⟨[o], hlog, fun o' ho' => by simp only [List.mem_singleton] at ho'; rw [ho']; exact ho⟩
      (by rw [hnp]; exact Nat.le_refl _) (fun w' hw' p hpm => ⟨w', by rw [← hws]; exact hw', hpm⟩)

/-- the watcher heap is rewritten object by object, only dropping pids -/
theorem EvInv.wsmap {s t : State} (h : EvInv s) (hp : PidInv t) (g : Watcher → Watcher)
    (hg : ∀ w, (g w).pids.Sublist w.pids) (hws : t.ws = s.ws.map g) (hlog : t.log = s.log)
    (hnp : t.k.nextPid = s.k.nextPid) : EvInv t := by
  refine h.step hp ⟨[], by rw [hlog, List.append_nil], fun _ ho => by cases ho⟩ (by rw [hnp]; exact Nat.le_refl _) ?_
  intro w' hw' p hpm
  rw [hws] at hw'
  obtain ⟨w, hw, rfl⟩ := List.mem_map.mp hw'
  exact ⟨w, hw, (hg w).subset hpm⟩

theorem neutral_of_not_ev {o : Obs} (h : o.isEv = false) : o.neutral := by
  intro p
  cases o <;> simp [Obs.isEv] at h <;> simp [Obs.isReapOf, Obs.isSpawnOf]

theorem neutral_ev_other (w t : String) (p : Option Nat) (x : String) (h1 : t ≠ "reap") (h2 : t ≠ "spawn") :
    (Obs.ev w t p x).neutral := by
  intro q
  cases p <;> simp [Obs.isReapOf, Obs.isSpawnOf, h1, h2]

/-! ### the writers -/

/-- writers that touch neither the log, nor the pid counter, nor the watcher heap -/
theorem ev_frame {m : M α} (hp : Pres PidInv m)
    (h : ∀ s, (m s).2.log = s.log ∧ (m s).2.k.nextPid = s.k.nextPid ∧ (m s).2.ws = s.ws) : Pres EvInv m := by
  intro s hs
  exact hs.same (hp s hs.pid) (h s).1 (h s).2.1 (h s).2.2

theorem ev_emit (o : Obs) : Pres EvInv (emit o) := by
  intro s hs
  have hp := pidLeafX.emit o s hs.pid
  simp only [emit, modS] at hp ⊢
  split
  · exact hs
  · rename_i hc
    rw [if_neg hc] at hp
    have hev : o.isEv = false := by
      cases h : o.isEv with
      | false => rfl
      | true => exact absurd (by simp [h]) hc
    exact hs.logged hp o (neutral_of_not_ev hev) (Or.inr rfl) rfl rfl

theorem ev_emitRep (c : String) (i : JVal) (a b d : String) : Pres EvInv (emitRep c i a b d) := by
  intro s hs
  have hp := pidLeafX.emitRep c i a b d s hs.pid
  simp only [emitRep, modS] at hp ⊢
  split
  · exact hs
  · rename_i hc
    rw [if_neg hc] at hp
    exact hs.logged hp _ (neutral_of_not_ev rfl) (Or.inr rfl) rfl rfl

theorem ev_emitEv (w t : String) (p : Option Nat) (x : String) (h1 : t ≠ "reap") (h2 : t ≠ "spawn") :
    Pres EvInv (emitEv w t p x) := by
  intro s hs
  have hp := pidLeafX.emitEv w t p x s hs.pid
  simp only [emitEv, modS] at hp ⊢
  split
  · exact hs
  · rename_i hc
    rw [if_neg hc] at hp
    exact hs.logged hp _ (neutral_ev_other w t p x h1 h2) (Or.inr rfl) rfl rfl

theorem ev_modW (u : Nat) (f : Watcher → Watcher) (hp : Pres PidInv (modW u f))
    (hg : ∀ w, (f w).pids.Sublist w.pids) : Pres EvInv (modW u f) := by
  intro s hs
  refine hs.wsmap (hp s hs.pid) (fun w => if w.uid = u then f w else w) ?_ rfl rfl rfl
  intro w; split
  · exact hg w
  · exact List.Sublist.refl _

theorem ev_trySetNp (u : Nat) (n : Int) : Pres EvInv (trySetNp u n) := by
  intro s hs
  have hp := pid_trySetNp u n s hs.pid
  unfold trySetNp at hp ⊢
  simp only at hp ⊢
  generalize (if n < 0 then 0 else n) = n' at hp ⊢
  by_cases h : (((s.ws.find? (·.uid = u)).getD defaultWatcher).singleton && decide (n' > 1)) = true
  · simp only [h, if_true]; exact hs
  · have h' := Bool.eq_false_iff.mpr h
    simp only [h', Bool.false_eq_true, if_false] at hp ⊢
    refine hs.wsmap hp (fun w => if (w.uid = u && !(w.singleton && decide (n' > 1))) = true then { w with np := n' } else w)
      ?_ rfl rfl rfl
    intro w; split <;> exact List.Sublist.refl _

theorem ev_registerNew (w : Watcher) (hw : w.pids = []) : Pres EvInv (registerNew w) := by
  intro s hs
  have hp := pid_registerNew w hw s hs.pid
  unfold registerNew registerChecked at hp ⊢
  by_cases hlook : (s.a.names.lookup (pyLower (clampNp w).name)).isSome
  · simp only [hlook, if_true]; exact hs
  · have hl := Bool.eq_false_iff.mpr hlook
    simp only [hl, Bool.false_eq_true, if_false] at hp ⊢
    by_cases hsing : ((clampNp w).singleton && !(decide ((clampNp w).np = 0) || decide ((clampNp w).np = 1))) = true
    · simp only [hsing, if_true]; exact hs
    · have hsg := Bool.eq_false_iff.mpr hsing
      simp only [hsg, Bool.false_eq_true, if_false] at hp ⊢
      refine hs.step hp ⟨[], by simp, fun _ ho => by cases ho⟩ (Nat.le_refl _) ?_
      intro x hx p hpm
      rcases List.mem_append.mp hx with hx | hx
      · exact ⟨x, hx, hpm⟩
      · simp only [List.mem_cons, List.mem_nil_iff, or_false] at hx
        subst hx
        simp [clampNp, hw] at hpm

macro "ev_frame_tac" hp:term : tactic =>
  `(tactic| (apply ev_frame $hp; intro s; first
      | exact ⟨rfl, rfl, rfl⟩
      | (simp only [modS, modA, modO]; done)
      | (simp [modS, modA, modO]; done)))

/-- the writers of Watcher.lean, events other than `reap`/`spawn` -/
theorem evLeafWE0 : LeafWE0 EvInv where
  emit := ev_emit
  runK := fun f hf => by
    intro s hs
    exact hs.same (pid_runK f hf s hs.pid) rfl (hf s.k).nextPid rfl
  emitEv := ev_emitEv
  popPid := fun u p => ev_modW _ _ (pidLeafX.popPid u p) (fun _ => List.filter_sublist)
  bumpHook := fun u h i => ev_modW _ _ (pidLeafX.bumpHook u h i) (fun _ => List.Sublist.refl _)
  setObjStopping := fun p b => by ev_frame_tac (pidLeafX.setObjStopping p b)
  setRc := fun p rc => by ev_frame_tac (pidLeafX.setRc p rc)
  markBlocked := by ev_frame_tac pidLeafX.markBlocked

/-! ### quiet steps: no `reap`/`spawn` event, no new listing, same pid counter -/

structure Quiet (s t : State) : Prop where
  np : t.k.nextPid = s.k.nextPid
  ws : ∀ w' ∈ t.ws, ∀ p ∈ w'.pids, ∃ w ∈ s.ws, p ∈ w.pids
  log : ∃ l, t.log = s.log ++ l ∧ ∀ o ∈ l, o.neutral

theorem Quiet.of_same {s t : State} (hnp : t.k.nextPid = s.k.nextPid) (hws : t.ws = s.ws) (hlog : t.log = s.log) :
    Quiet s t :=
  ⟨hnp, fun w' hw' p hp => ⟨w', by rw [← hws]; exact hw', hp⟩, [], by rw [hlog, List.append_nil], fun _ ho => by cases ho⟩

theorem Quiet.of_log {s t : State} (hnp : t.k.nextPid = s.k.nextPid) (hws : t.ws = s.ws) (o : Obs) (ho : o.neutral)
    (hlog : t.log = s.log ∨ t.log = s.log ++ [o]) : Quiet s t := by
  rcases hlog with hlog | hlog
  · exact Quiet.of_same hnp hws hlog
  · exact ⟨hnp, fun w' hw' p hp => ⟨w', by rw [← hws]; exact hw', hp⟩, [o], hlog,
      fun o' ho' => by simp only [List.mem_singleton] at ho'; rw [ho']; exact ho⟩

theorem quiet_emit (o : Obs) (s : State) : Quiet s (emit o s).2 := by
  simp only [emit, modS]
  split
  · exact Quiet.of_same rfl rfl rfl
  · rename_i hc
    have hev : o.isEv = false := by
      cases h : o.isEv with
      | false => rfl
      | true => exact absurd (by simp [h]) hc
    exact Quiet.of_log rfl rfl o (neutral_of_not_ev hev) (Or.inr rfl)

theorem quiet_emitEv (w t : String) (p : Option Nat) (x : String) (h1 : t ≠ "reap") (h2 : t ≠ "spawn") (s : State) :
    Quiet s (emitEv w t p x s).2 := by
  simp only [emitEv, modS]
  split
  · exact Quiet.of_same rfl rfl rfl
  · exact Quiet.of_log rfl rfl _ (neutral_ev_other w t p x h1 h2) (Or.inr rfl)

theorem quiet_modW (u : Nat) (f : Watcher → Watcher) (hg : ∀ w, (f w).pids.Sublist w.pids) (s : State) :
    Quiet s (modW u f s).2 := by
  refine ⟨rfl, ?_, [], by simp [modW, modS], fun _ ho => by cases ho⟩
  intro w' hw' p hp
  simp only [modW, modS] at hw'
  obtain ⟨w, hw, rfl⟩ := List.mem_map.mp hw'
  refine ⟨w, hw, ?_⟩
  split at hp
  · exact (hg w).subset hp
  · exact hp

/-- a predicate that implies `EvInv` and is carried by quiet `EvInv`-steps is kept by the writers of
    Watcher.lean (events other than `reap`/`spawn`) -/
theorem leafWE0_of_quiet (J : State → Prop) (hinv : ∀ s, J s → EvInv s)
    (hJ : ∀ s t, J s → EvInv t → Quiet s t → J t) : LeafWE0 J where
  emit := fun o s h => hJ s _ h (ev_emit o s (hinv s h)) (quiet_emit o s)
  runK := fun f hf s h => hJ s _ h (evLeafWE0.runK f hf s (hinv s h)) (Quiet.of_same (hf s.k).nextPid rfl rfl)
  emitEv := fun w t p x h1 h2 s h => hJ s _ h (ev_emitEv w t p x h1 h2 s (hinv s h)) (quiet_emitEv w t p x h1 h2 s)
  popPid := fun u p s h => hJ s _ h (evLeafWE0.popPid u p s (hinv s h)) (quiet_modW _ _ (fun _ => List.filter_sublist) s)
  bumpHook := fun u hk i s h => hJ s _ h (evLeafWE0.bumpHook u hk i s (hinv s h))
    (quiet_modW u (fun w => { w with hookCalls := (hk, i + 1) :: w.hookCalls.filter (·.1 ≠ hk) })
      (fun _ => List.Sublist.refl _) s)
  setObjStopping := fun p b s h => hJ s _ h (evLeafWE0.setObjStopping p b s (hinv s h)) (Quiet.of_same rfl rfl rfl)
  setRc := fun p rc s h => hJ s _ h (evLeafWE0.setRc p rc s (hinv s h)) (Quiet.of_same rfl rfl rfl)
  markBlocked := fun s h => hJ s _ h (evLeafWE0.markBlocked s (hinv s h)) (Quiet.of_same rfl rfl rfl)

/-- between the pop and the `reap` event: `pid` was handed out, is listed nowhere, has no `reap`
    event yet -/
structure EvR (pid : Nat) (s : State) : Prop where
  inv : EvInv s
  lt : pid < s.k.nextPid
  unlisted : ∀ w ∈ s.ws, pid ∉ w.pids
  noReap : reapCount pid s.log = 0

theorem evRLeafWE0 (pid : Nat) : LeafWE0 (EvR pid) :=
  leafWE0_of_quiet _ (fun _ h => h.inv) (by
    intro s t h hi q
    obtain ⟨l, hl, hn⟩ := q.log
    refine ⟨hi, by rw [q.np]; exact h.lt, ?_, ?_⟩
    · intro w' hw' hp
      obtain ⟨w, hw, hpw⟩ := q.ws w' hw' pid hp
      exact h.unlisted w hw hpw
    · rw [hl, reapCount_append, reapCount_neutral pid l (fun o ho => (hn o ho pid).1), h.noReap])

/-- between the adoption and the `spawn` event: `pid` was handed out, has neither a `spawn` nor a
    `reap` event yet -/
structure EvS (pid : Nat) (s : State) : Prop where
  inv : EvInv s
  lt : pid < s.k.nextPid
  noSpawn : spawnCount pid s.log = 0
  noReap : reapCount pid s.log = 0

theorem evSLeafWE0 (pid : Nat) : LeafWE0 (EvS pid) :=
  leafWE0_of_quiet _ (fun _ h => h.inv) (by
    intro s t h hi q
    obtain ⟨l, hl, hn⟩ := q.log
    refine ⟨hi, by rw [q.np]; exact h.lt, ?_, ?_⟩
    · rw [hl, spawnCount_append, spawnCount_neutral pid l (fun o ho => (hn o ho pid).2), h.noSpawn]
    · rw [hl, reapCount_append, reapCount_neutral pid l (fun o ho => (hn o ho pid).1), h.noReap])

/-! ### the two events -/

theorem reapCount_snoc_reap (p q : Nat) (w x : String) (log : List Obs) :
    reapCount p (log ++ [Obs.ev w "reap" (some q) x]) = reapCount p log + (if q = p then 1 else 0) := by
  rw [reapCount_append]
  simp only [reapCount, List.countP_cons, List.countP_nil, Obs.isReapOf, Nat.zero_add]
  by_cases h : q = p <;> simp [h]

theorem spawnCount_snoc_reap (p q : Nat) (w x : String) (log : List Obs) :
    spawnCount p (log ++ [Obs.ev w "reap" (some q) x]) = spawnCount p log := by
  rw [spawnCount_append]
  simp [spawnCount, Obs.isSpawnOf]

theorem spawnCount_snoc_spawn (p q : Nat) (w x : String) (log : List Obs) :
    spawnCount p (log ++ [Obs.ev w "spawn" (some q) x]) = spawnCount p log + (if q = p then 1 else 0) := by
  rw [spawnCount_append]
  simp only [spawnCount, List.countP_cons, List.countP_nil, Obs.isSpawnOf, Nat.zero_add]
  by_cases h : q = p <;> simp [h]

theorem reapCount_snoc_spawn (p q : Nat) (w x : String) (log : List Obs) :
    reapCount p (log ++ [Obs.ev w "spawn" (some q) x]) = reapCount p log := by
  rw [reapCount_append]
  simp [reapCount, Obs.isReapOf]

/-- the `reap` event of a pid that was popped and has none yet -/
theorem evR_notify_reap (pid u : Nat) (x : String) (s : State) (h : EvR pid s) :
    EvInv (notify u "reap" (some pid) x s).2 := by
  unfold notify
  simp only [bind, getA, getW]
  by_cases hc : s.a.pubClosed = true
  · erw [if_pos hc]; exact h.inv
  · erw [if_neg hc]
    generalize resName ((s.ws.find? (fun w => decide (w.uid = u))).getD defaultWatcher).name = wn
    have hp := pidLeafX.emitEv wn "reap" (some pid) x s h.inv.pid
    simp only [emitEv, modS] at hp ⊢
    split
    · exact h.inv
    · rename_i hb
      rw [if_neg hb] at hp
      refine ⟨hp, ?_, ?_, ?_, ?_, ?_⟩
      · intro p hpge
        simp only [reapCount_snoc_reap, spawnCount_snoc_reap]
        have hpge' : s.k.nextPid ≤ p := hpge
        have hne : ¬ pid = p := by have := h.lt; omega
        simp only [hne, if_false, Nat.add_zero]
        exact h.inv.fresh p hpge'
      · intro w hw p hpm
        simp only [reapCount_snoc_reap]
        have hne : ¬ pid = p := fun he => h.unlisted w hw (he ▸ hpm)
        simp only [hne, if_false, Nat.add_zero]
        exact h.inv.listed w hw p hpm
      · intro p
        simp only [reapCount_snoc_reap]
        by_cases he : pid = p
        · subst he; simp [h.noReap]
        · simp only [he, if_false, Nat.add_zero]; exact h.inv.reapLe p
      · intro p
        simp only [spawnCount_snoc_reap]; exact h.inv.spawnLe p
      · exact h.inv.order.append _ (fun o ho p => by
          simp only [List.mem_singleton] at ho; subst ho; simp [Obs.isSpawnOf])

/-- the `spawn` event of a pid that was just adopted -/
theorem evS_notify_spawn (pid u : Nat) (x : String) (s : State) (h : EvS pid s) :
    EvInv (notify u "spawn" (some pid) x s).2 := by
  unfold notify
  simp only [bind, getA, getW]
  by_cases hc : s.a.pubClosed = true
  · erw [if_pos hc]; exact h.inv
  · erw [if_neg hc]
    generalize resName ((s.ws.find? (fun w => decide (w.uid = u))).getD defaultWatcher).name = wn
    have hp := pidLeafX.emitEv wn "spawn" (some pid) x s h.inv.pid
    simp only [emitEv, modS] at hp ⊢
    split
    · exact h.inv
    · rename_i hb
      rw [if_neg hb] at hp
      refine ⟨hp, ?_, ?_, ?_, ?_, ?_⟩
      · intro p hpge
        simp only [reapCount_snoc_spawn, spawnCount_snoc_spawn]
        have hpge' : s.k.nextPid ≤ p := hpge
        have hne : ¬ pid = p := by have := h.lt; omega
        simp only [hne, if_false, Nat.add_zero]
        exact h.inv.fresh p hpge'
      · intro w hw p hpm
        simp only [reapCount_snoc_spawn]
        exact h.inv.listed w hw p hpm
      · intro p
        simp only [reapCount_snoc_spawn]; exact h.inv.reapLe p
      · intro p
        simp only [spawnCount_snoc_spawn]
        by_cases he : pid = p
        · subst he; simp [h.noSpawn]
        · simp only [he, if_false, Nat.add_zero]; exact h.inv.spawnLe p
      · exact h.inv.order.append_spawn wn pid x h.noReap

/-! ### `reap_process` -/

/-- from `J` before to `I` after -/
def PresTo (J I : State → Prop) (m : M α) : Prop := ∀ s, J s → I (m s).2
theorem PresTo.bind_left {J I : State → Prop} {m : M α} {f : α → M β} (hm : Pres J m) (hf : ∀ a, PresTo J I (f a)) :
    PresTo J I (m >>= f) := fun s hs => hf (m s).1 (m s).2 (hm s hs)
theorem PresTo.bind_right {J I : State → Prop} {m : M α} {f : α → M β} (hm : PresTo J I m) (hf : ∀ a, Pres I (f a)) :
    PresTo J I (m >>= f) := fun s hs => hf (m s).1 (m s).2 (hm s hs)
theorem PresTo.pure {J I : State → Prop} (h : ∀ s, J s → I s) (a : α) : PresTo J I (Pure.pure a : M α) := fun s hs => h s hs

theorem ev_reapTail (pid u : Nat) (st : Option Nat) : PresTo (EvR pid) EvInv (reapTail u pid st) := by
  have L := evRLeafWE0 pid
  have L0 := evLeafWE0
  have hn : ∀ x, PresTo (EvR pid) EvInv (notify u "reap" (some pid) x) := fun x s h => evR_notify_reap pid u x s h
  have hjp : ∀ stt : Option (Option Nat), PresTo (EvR pid) EvInv
      (match stt with
      | none => Pure.pure ()
      | some none => do
        let o ← getO pid
        notify u "reap" (some pid)
            (match o.rc with
            | some c => toString c
            | none => "None")
        objStop pid
        let _ ← callHook u "after_reap"
        Pure.pure ()
      | some (some s) => do
        let ps ← procStatus pid
        if isDead ps = true then do
            let __r ← objStop pid
            notify u "reap" (some pid) (toString (exitCodeOf s))
            let _ ← callHook u "after_reap"
            Pure.pure ()
          else do
            notify u "reap" (some pid) (toString (exitCodeOf s))
            let _ ← callHook u "after_reap"
            Pure.pure ()) := by
    -- after the `reap` event the invariant is back, and the `after_reap` hook keeps it
    have hh : ∀ _a : Unit, Pres EvInv (do let _ ← callHook u "after_reap"; Pure.pure () : M Unit) :=
      fun _ => Pres.bind (callHook_presE L0 u _) (fun _ => Pres.pure _)
    intro stt
    split
    · exact PresTo.pure (fun _ h => h.inv) _
    · refine PresTo.bind_left (Pres.getO _) ?_
      intro o
      refine PresTo.bind_right (hn _) ?_
      intro _
      exact Pres.bind (objStop_presE L0 pid) hh
    · refine PresTo.bind_left (procStatus_presE L pid) ?_
      intro ps
      split
      · refine PresTo.bind_left (objStop_presE L pid) ?_
        intro _
        exact PresTo.bind_right (hn _) hh
      · exact PresTo.bind_right (hn _) hh
  unfold reapTail
  split
  · refine PresTo.bind_left (Pres.pure _) ?_
    intro a
    exact hjp a
  · refine PresTo.bind_left (reapWait_presE L pid _) ?_
    intro a
    exact hjp a

theorem getW_mem_of_listed {u : Nat} {s : State} {p : Nat} (hp : p ∈ (getW u s).1.pids) :
    (getW u s).1 ∈ s.ws ∧ (getW u s).1.uid = u := by
  simp only [getW] at hp ⊢
  cases hfind : s.ws.find? (fun w => decide (w.uid = u)) with
  | none => rw [hfind] at hp; simp [defaultWatcher] at hp
  | some w =>
    simp only [Option.getD_some]
    exact ⟨List.mem_of_find?_eq_some hfind, by simpa using List.find?_some hfind⟩

/-- **`reap_process` as a whole**: nothing for a pid the watcher does not list; otherwise the
    `before_reap` hook (which publishes its own event only and leaves the pid listed), then the pop —
    after which nobody lists the pid — then at most one `reap` event for it, then the `after_reap` hook -/
theorem ev_reapProcess (u pid : Nat) (st : Option Nat) : Pres EvInv (reapProcess u pid st) := by
  intro s0 hs0
  unfold reapProcess
  simp only [bind]
  by_cases hc : (!(getW u s0).fst.pids.contains pid) = true
  · erw [if_pos hc]; exact hs0
  · erw [if_neg hc]
    have hmem0 : pid ∈ (getW u s0).1.pids := by
      simpa using hc
    -- the state after the `before_reap` hook
    have hs : EvInv (callHook u "before_reap" s0).2 := callHook_presE evLeafWE0 u _ s0 hs0
    have hmem : pid ∈ (getW u (callHook u "before_reap" s0).2).1.pids := by
      rw [getW_callHook_pids]; exact hmem0
    show EvInv (reapTail u pid st (popPid u pid (callHook u "before_reap" s0).2).2).2
    generalize (callHook u "before_reap" s0).2 = s at hs hmem ⊢
    obtain ⟨hW, hWu⟩ := getW_mem_of_listed hmem
    refine ev_reapTail pid u st (popPid u pid s).2 ⟨evLeafWE0.popPid u pid s hs, ?_, ?_, ?_⟩
    · exact hs.pid.listedLt _ hW pid hmem
    · intro w' hw' hp
      simp only [popPid, modW, modS] at hw'
      obtain ⟨w, hw, rfl⟩ := List.mem_map.mp hw'
      by_cases hu : w.uid = u
      · rw [if_pos hu] at hp
        simp at hp
      · rw [if_neg hu] at hp
        exact hs.pid.listedDisj _ hW w hw (by rw [hWu]; exact fun h => hu h.symm) pid hmem hp
    · exact hs.listed _ hW pid hmem

theorem evLeafWE : LeafWE EvInv where
  toLeafWE0 := evLeafWE0
  reapProcess := ev_reapProcess

/-- every writer a coroutine or `dispatch` may use anywhere (events other than `reap`/`spawn`) -/
theorem evLeafXRE : LeafXRE EvInv where
  toLeafWE := evLeafWE
  emitRep := ev_emitRep
  setStatus := fun u st _ => ev_modW _ _ (pidLeafX.setStatus u st) (fun _ => List.Sublist.refl _)
  trySetNp := ev_trySetNp
  setWOpt := fun u c => ev_modW _ _ (pidLeafX.setWOpt u c)
    (fun w => by rw [(applyOpt_uid_pids c w).2]; exact List.Sublist.refl _)
  freshId := by ev_frame_tac pidLeafX.freshId
  pushFrame := fun f => by unfold pushFrame; ev_frame_tac (pidLeafX.pushFrame f)
  removeFrame := fun f => by unfold removeFrame; ev_frame_tac (pidLeafX.removeFrame f)
  setFrameK := fun f k => by unfold setFrameK; ev_frame_tac (pidLeafX.setFrameK f k)
  armFrame := fun f => by unfold armFrame; ev_frame_tac (pidLeafX.armFrame f)
  pushSleeper := fun sl => by unfold pushSleeper; ev_frame_tac (pidLeafX.pushSleeper sl)
  armTop := fun t => by unfold armTop; ev_frame_tac (pidLeafX.armTop t)
  setStopping := by unfold setStopping; ev_frame_tac pidLeafX.setStopping
  setRestarting := by unfold setRestarting; ev_frame_tac pidLeafX.setRestarting
  clearRestarting := fun b => by unfold clearRestarting; ev_frame_tac (pidLeafX.clearRestarting b)
  setLoopStop := fun b => by unfold setLoopStop; ev_frame_tac (pidLeafX.setLoopStop b)
  setSocketEvent := fun b => by unfold setSocketEvent; ev_frame_tac (pidLeafX.setSocketEvent b)
  setSockReady := fun b => by unfold setSockReady; ev_frame_tac (pidLeafX.setSockReady b)
  clearDone := by unfold clearDone; ev_frame_tac pidLeafX.clearDone
  unregister := fun u => by unfold unregisterWatcher; ev_frame_tac (pidLeafX.unregister u)
  registerNew := ev_registerNew
  fireSleeper := fun sl => by
    intro s hs
    exact hs.same (pid_fireSleeper sl s hs.pid) rfl (KStep.setNow _ _).nextPid rfl
  enqueueResume := fun k v w => by unfold enqueue; ev_frame_tac (pidLeafX.enqueueResume k v w)
  enqueueCallback := fun n => by unfold enqueue; ev_frame_tac (pidLeafX.enqueueCallback n)
  setSlot := fun v => by unfold setSlot; ev_frame_tac (pidLeafX.setSlot v)
  pushTop := fun t => by unfold pushTop; ev_frame_tac (pidLeafX.pushTop t)
  finishTop := fun t v => by unfold finishTop; ev_frame_tac (pidLeafX.finishTop t v)
  topAddCb := fun t cb => by unfold topAddCb; ev_frame_tac (pidLeafX.topAddCb t cb)
  enqueue := fun r => by unfold enqueue; ev_frame_tac (pidLeafX.enqueue r)
  dequeue := by unfold dequeue; ev_frame_tac pidLeafX.dequeue

/-! ### `spawn_process` -/

/-- `Popen()` + registration: the new pid is the pid counter's old value — no event mentions it yet -/
theorem ev_spawnAdopt (u wid : Nat) (s : State) (hs : EvInv s) :
    EvInv (spawnAdopt u wid s).2 ∧ ∀ pid, (spawnAdopt u wid s).1 = some pid → EvS pid (spawnAdopt u wid s).2 := by
  have hp := pid_spawnAdopt u wid s hs.pid
  cases hr : (s.k.spawn).2 with
  | none =>
    rw [spawnAdopt_none u wid s hr] at hp ⊢
    have hk : KStep s.k (s.k.spawn).1 := spawn_none (k' := (s.k.spawn).1) (by rw [← hr])
    refine ⟨?_, fun pid h => by cases h⟩
    refine hs.step hp ?_ (by simp only; rw [hk.nextPid]; exact Nat.le_refl _) (fun w' hw' p hpm => ⟨w', hw', hpm⟩)
    by_cases hb : s.blocked = true
    · exact ⟨[], by simp [hb], fun _ ho => by cases ho⟩
    · exact ⟨[Obs.execfail], by simp [hb], fun o ho => by
        simp only [List.mem_singleton] at ho; subst ho; exact neutral_of_not_ev rfl⟩
  | some pid =>
    rw [spawnAdopt_some u wid s pid hr] at hp ⊢
    obtain ⟨hpid, n, hnp, _⟩ := spawn_some (k := s.k) (k' := (s.k.spawn).1) (pid := pid) (by rw [← hr])
    have hlog : ∃ l, (if s.blocked = true then s.log else
        s.log ++ [Obs.spawn pid ((s.ws.find? (·.uid = u)).getD defaultWatcher).name wid]) = s.log ++ l ∧
        ∀ o ∈ l, o.neutral := by
      by_cases hb : s.blocked = true
      · exact ⟨[], by simp [hb], fun _ ho => by cases ho⟩
      · exact ⟨[Obs.spawn pid ((s.ws.find? (·.uid = u)).getD defaultWatcher).name wid], by simp [hb], fun o ho => by
          simp only [List.mem_singleton] at ho; subst ho; exact neutral_of_not_ev rfl⟩
    obtain ⟨l, hl, hn⟩ := hlog
    have hr' : ∀ p, reapCount p (s.log ++ l) = reapCount p s.log := by
      intro p; rw [reapCount_append, reapCount_neutral p l (fun o ho => (hn o ho p).1)]; rfl
    have hs' : ∀ p, spawnCount p (s.log ++ l) = spawnCount p s.log := by
      intro p; rw [spawnCount_append, spawnCount_neutral p l (fun o ho => (hn o ho p).2)]; rfl
    have hfr := hs.fresh pid (by rw [hpid]; exact Nat.le_refl _)
    have hinv : EvInv { s with
        k := (s.k.spawn).1,
        objs := s.objs ++ [{ pid := pid, wid := wid, started := s.k.now }],
        log := if s.blocked then s.log else s.log ++ [Obs.spawn pid ((s.ws.find? (·.uid = u)).getD defaultWatcher).name wid],
        ws := s.ws.map fun w => if w.uid = u then { w with pids := w.pids ++ [pid] } else w } := by
      refine ⟨hp, ?_, ?_, ?_, ?_, ?_⟩
      · intro p hpge
        simp only [hl, hr', hs']
        simp only [hnp] at hpge
        exact hs.fresh p (by omega)
      · intro w' hw' p hpm
        simp only [hl, hr']
        simp only at hw'
        obtain ⟨w, hw, rfl⟩ := List.mem_map.mp hw'
        by_cases hu : w.uid = u
        · rw [if_pos hu] at hpm
          rcases List.mem_append.mp hpm with h | h
          · exact hs.listed w hw p h
          · simp only [List.mem_cons, List.mem_nil_iff, or_false] at h
            subst h; exact hfr.1
        · rw [if_neg hu] at hpm
          exact hs.listed w hw p hpm
      · intro p; simp only [hl, hr']; exact hs.reapLe p
      · intro p; simp only [hl, hs']; exact hs.spawnLe p
      · simp only [hl]; exact hs.order.append l (fun o ho p => (hn o ho p).2)
    refine ⟨hinv, ?_⟩
    intro q hq
    simp only [Option.some.injEq] at hq
    subst hq
    refine ⟨hinv, by simp only [hnp]; omega, ?_, ?_⟩
    · simp only [hl, hs']; exact hfr.2
    · simp only [hl, hr']; exact hfr.1

/-- the rest of an attempt once `Popen()` succeeded (`spawnTry` after `spawnAdopt`) -/
def spawnRest (rec : Rec) (wuid pid now : Nat) : M SpawnRes := do
  let r ← callHook wuid "after_spawn"
  if !r then
    let tid ← newTop [.popProc wuid pid]
    rec (.call (.killProcess wuid pid none none) (.top tid))
    armTop tid
    pure .rFalse
  else
    notify wuid "spawn" (some pid)
    pure (.started now)

theorem ev_spawnRest (rec : Rec) (hrec : ∀ t, Pres EvInv (rec t)) (u pid now : Nat) :
    PresTo (EvS pid) EvInv (spawnRest rec u pid now) := by
  have X := evLeafXRE
  have Y := X.toLeafYRE
  have L := Y.toLeafRE
  have LW := L.toLeafWE
  have hnew : ∀ cbs, Pres EvInv (newTop cbs) := newTop_presE Y
  unfold spawnRest
  refine PresTo.bind_left (callHook_presE (evSLeafWE0 pid) u "after_spawn") ?_
  intro r
  split
  · have hveto : Pres EvInv (do
        let tid ← newTop [TopCb.popProc u pid]
        rec (Task.call (Call.killProcess u pid none none) (Waiter.top tid))
        armTop tid
        pure SpawnRes.rFalse : M SpawnRes) := by
      aesop (add safe apply hrec, safe apply hnew) (rule_sets := [Pres])
        (config := { terminal := true, useDefaultSimpSet := false, useSimpAll := false, maxRuleApplications := 3000 })
    exact fun s hs => hveto s hs.inv
  · refine PresTo.bind_right (fun s hs => evS_notify_spawn pid u _ s hs) ?_
    intro _
    exact Pres.pure _

theorem ev_spawnTry (rec : Rec) (hrec : ∀ t, Pres EvInv (rec t)) (u n : Nat) (s : State)
    (hs : EvInv s) : EvInv (spawnTry rec u n s).2 := by
  induction n generalizing s with
  | zero => exact hs
  | succ n ih =>
    unfold spawnTry
    simp only [bind]
    have h1 : (getW u s).2 = s := rfl
    have h2 : (usedWids u s).2 = s := rfl
    rw [h1, h2]
    cases hw : nextWid (getW u s).1.np (usedWids u s).1 with
    | none => exact hs
    | some wid =>
      simp only
      have h3 : (nowMs s).2 = s := rfl
      rw [h3]
      obtain ⟨ha, hb⟩ := ev_spawnAdopt u wid s hs
      cases hsp : spawnAdopt u wid s with
      | mk p s2 =>
        rw [hsp] at ha hb
        cases p with
        | none => exact ih s2 ha
        | some pid => exact ev_spawnRest rec hrec u pid (nowMs s).1 s2 (hb pid rfl)

/-- **`spawn_process` as a whole**: the `spawn` event, if any, is for the pid just adopted — the pid
    counter's old value, which no event mentions yet -/
theorem ev_spawnProcess (rec : Rec) (hrec : ∀ t, Pres EvInv (rec t)) (u : Nat) : Pres EvInv (spawnProcess rec u) := by
  intro s hs
  unfold spawnProcess
  simp only [bind]
  have h1 : (getW u s).2 = s := rfl
  rw [h1]
  by_cases hst : (getW u s).1.status = .stopped
  · erw [if_pos hst]; exact hs
  · erw [if_neg hst]
    have hs1 : EvInv (callHook u "before_spawn" s).2 := callHook_presE evLeafWE0 u "before_spawn" s hs
    by_cases hr : (!(callHook u "before_spawn" s).1) = true
    · erw [if_pos hr]; exact hs1
    · erw [if_neg hr]
      exact ev_spawnTry rec hrec u _ _ hs1

/-! ### along all runs -/

theorem evSpecRE : SpecRE EvInv :=
  SpecRE.ofLeafXRE evLeafXRE ev_spawnProcess
    (stopCore_ofE evLeafWE (fun u => ev_modW _ _ (pidLeafX.setStatus u .stopped) (fun _ => List.Sublist.refl _)))
    (guardedStop_of (fun u => ev_modW _ _ (pidLeafX.setStatus u .stopped) (fun _ => List.Sublist.refl _)))
    (stopController_ofE evLeafXRE.toLeafRE (by unfold setClosed; ev_frame_tac pidLeafX.setClosed))

theorem evInv_run (s : State) (ops : List Op) (h : EvInv s) : EvInv (run s ops) :=
  run_presE evSpecRE s ops h

theorem evInv_init (cfg : List Watcher) (bs : List Behav) (aw : Nat) (hcfg : ∀ w ∈ cfg, w.pids = []) :
    EvInv (initState cfg bs aw) := by
  refine ⟨pidInv_init cfg bs aw hcfg, ?_, ?_, ?_, ?_, ?_⟩
  · intro p _; exact ⟨rfl, rfl⟩
  · intro w _ p _; rfl
  · intro p; exact Nat.zero_le _
  · intro p; exact Nat.zero_le _
  · intro p pre o post h; simp [initState] at h

/-! ## which listed pids have no `spawn` event: the rejected ones

While events are being published (the daemon does not hang, the PUB socket is open) every listed
pid has its `spawn` event — or it is a worker the `after_spawn` hook rejected, whose removal is
pending: the future of its detached kill still carries the `popProc` done-callback, or that
callback sits on the loop's ready queue (`AnnInv`).  Not an invariant of the writers `finishTop`
and `dequeue` (they drop what "pending" looks at) nor of `spawnAdopt`: `deliverTop`, `settleStep`
and `spawnProcess` are done by hand. -/

/-- events are still being published -/
def eventsOn (s : State) : Prop := s.blocked = false ∧ s.a.pubClosed = false

/-- the pop of pid `p` from watcher `u` (a rejected worker) is pending -/
def PopPendingFor (u p : Nat) (s : State) : Prop :=
  (∃ t ∈ s.tops, TopCb.popProc u p ∈ t.cbs) ∨ (∃ v, Ready.topCb (.popProc u p) v ∈ s.ready)

/-- every listed pid is announced, awaits its pop, or is excepted by `ex` (used between the adoption
    and the decision of the `after_spawn` hook) -/
def AnnX (ex : Nat → Nat → Prop) (s : State) : Prop :=
  eventsOn s → ∀ w ∈ s.ws, ∀ p ∈ w.pids, 1 ≤ spawnCount p s.log ∨ PopPendingFor w.uid p s ∨ ex w.uid p

abbrev AnnInv : State → Prop := AnnX (fun _ _ => False)

/-- a step that loses nothing: events stay off once off, the log grows, no new listing, what is
    pending stays pending -/
structure Kept (s t : State) : Prop where
  on : eventsOn t → eventsOn s
  log : ∃ l, t.log = s.log ++ l
  ws : ∀ w' ∈ t.ws, ∀ p ∈ w'.pids, ∃ w ∈ s.ws, w.uid = w'.uid ∧ p ∈ w.pids
  pend : ∀ u p, PopPendingFor u p s → PopPendingFor u p t

theorem spawnCount_mono (p : Nat) (a l : List Obs) : spawnCount p a ≤ spawnCount p (a ++ l) := by
  rw [spawnCount_append]; exact Nat.le_add_right _ _

theorem AnnX.step {ex : Nat → Nat → Prop} {s t : State} (h : AnnX ex s) (c : Kept s t) : AnnX ex t := by
  intro hon w' hw' p hp
  obtain ⟨w, hw, hu, hpw⟩ := c.ws w' hw' p hp
  obtain ⟨l, hl⟩ := c.log
  rcases h (c.on hon) w hw p hpw with h1 | h1 | h1
  · left; rw [hl]; exact Nat.le_trans h1 (spawnCount_mono p _ l)
  · right; left; rw [← hu]; exact c.pend _ _ h1
  · right; right; rw [← hu]; exact h1

theorem Kept.refl (s : State) : Kept s s :=
  ⟨fun h => h, ⟨[], by simp⟩, fun w' hw' p hp => ⟨w', hw', rfl, hp⟩, fun _ _ h => h⟩

theorem Kept.trans {a b c : State} (h1 : Kept a b) (h2 : Kept b c) : Kept a c := by
  refine ⟨fun h => h1.on (h2.on h), ?_, ?_, fun u p h => h2.pend u p (h1.pend u p h)⟩
  · obtain ⟨l1, e1⟩ := h1.log
    obtain ⟨l2, e2⟩ := h2.log
    exact ⟨l1 ++ l2, by rw [e2, e1, List.append_assoc]⟩
  · intro w'' hw'' p hp
    obtain ⟨w', hw', hu', hp'⟩ := h2.ws w'' hw'' p hp
    obtain ⟨w, hw, hu, hpw⟩ := h1.ws w' hw' p hp'
    exact ⟨w, hw, hu.trans hu', hpw⟩

/-- only fields the invariant does not look at change (and possibly: the log grows, `blocked` is set) -/
theorem Kept.of_frame {s t : State} (hb : t.blocked = false → s.blocked = false) (ha : t.a.pubClosed = false → s.a.pubClosed = false)
    (hl : ∃ l, t.log = s.log ++ l) (hw : t.ws = s.ws) (ht : t.tops = s.tops) (hr : t.ready = s.ready) : Kept s t :=
  ⟨fun h => ⟨hb h.1, ha h.2⟩, hl, fun w' hw' p hp => ⟨w', by rw [← hw]; exact hw', rfl, hp⟩,
   fun u p h => by unfold PopPendingFor; rw [ht, hr]; exact h⟩

theorem kept_modW (u : Nat) (f : Watcher → Watcher) (hu : ∀ w, (f w).uid = w.uid)
    (hg : ∀ w, (f w).pids.Sublist w.pids) (s : State) : Kept s (modW u f s).2 := by
  refine ⟨fun h => h, ⟨[], by simp [modW, modS]⟩, ?_, fun _ _ h => h⟩
  intro w' hw' p hp
  simp only [modW, modS] at hw'
  obtain ⟨w, hw, rfl⟩ := List.mem_map.mp hw'
  refine ⟨w, hw, ?_, ?_⟩
  · split
    · exact (hu w).symm
    · rfl
  · split at hp
    · exact (hg w).subset hp
    · exact hp

macro "kept_tac" : tactic =>
  `(tactic| (intro s; first
      | exact Kept.refl _
      | (refine Kept.of_frame ?_ ?_ ⟨[], ?_⟩ ?_ ?_ ?_ <;> simp [modS, modA, modO] <;> done)))

theorem kept_emit (o : Obs) (s : State) : Kept s (emit o s).2 := by
  simp only [emit, modS]
  split
  · exact Kept.refl _
  · exact Kept.of_frame (fun h => h) (fun h => h) ⟨[o], rfl⟩ rfl rfl rfl

theorem kept_emitEv (w t : String) (p : Option Nat) (x : String) (s : State) : Kept s (emitEv w t p x s).2 := by
  simp only [emitEv, modS]
  split
  · exact Kept.refl _
  · exact Kept.of_frame (fun h => h) (fun h => h) ⟨[_], rfl⟩ rfl rfl rfl

theorem kept_emitRep (c : String) (i : JVal) (a b d : String) (s : State) : Kept s (emitRep c i a b d s).2 := by
  simp only [emitRep, modS]
  split
  · exact Kept.refl _
  · exact Kept.of_frame (fun h => h) (fun h => h) ⟨[_], rfl⟩ rfl rfl rfl

theorem kept_trySetNp (u : Nat) (n : Int) (s : State) : Kept s (trySetNp u n s).2 := by
  unfold trySetNp
  simp only
  generalize (if n < 0 then 0 else n) = n'
  by_cases h : (((s.ws.find? (·.uid = u)).getD defaultWatcher).singleton && decide (n' > 1)) = true
  · simp only [h, if_true]; exact Kept.refl _
  · have h' := Bool.eq_false_iff.mpr h
    simp only [h', Bool.false_eq_true, if_false]
    refine ⟨fun h => h, ⟨[], by simp⟩, ?_, fun _ _ h => h⟩
    intro w' hw' p hp
    simp only at hw'
    obtain ⟨w, hw, rfl⟩ := List.mem_map.mp hw'
    refine ⟨w, hw, ?_, ?_⟩
    · split <;> rfl
    · split at hp <;> exact hp

theorem kept_registerNew (w : Watcher) (hw : w.pids = []) (s : State) : Kept s (registerNew w s).2 := by
  unfold registerNew registerChecked
  by_cases hlook : (s.a.names.lookup (pyLower (clampNp w).name)).isSome
  · simp only [hlook, if_true]; exact Kept.refl _
  · have hl := Bool.eq_false_iff.mpr hlook
    simp only [hl, Bool.false_eq_true, if_false]
    by_cases hsing : ((clampNp w).singleton && !(decide ((clampNp w).np = 0) || decide ((clampNp w).np = 1))) = true
    · simp only [hsing, if_true]; exact Kept.refl _
    · have hsg := Bool.eq_false_iff.mpr hsing
      simp only [hsg, Bool.false_eq_true, if_false]
      refine ⟨fun h => h, ⟨[], by simp⟩, ?_, fun _ _ h => h⟩
      intro x hx p hp
      rcases List.mem_append.mp hx with hx | hx
      · exact ⟨x, hx, rfl, hp⟩
      · simp only [List.mem_cons, List.mem_nil_iff, or_false] at hx
        subst hx
        simp [clampNp, hw] at hp

/-- more tops / more callbacks / more ready entries keep what is pending -/
theorem kept_tops_ready {s t : State} (hb : t.blocked = s.blocked) (ha : t.a.pubClosed = s.a.pubClosed)
    (hl : t.log = s.log) (hw : t.ws = s.ws)
    (ht : ∀ x ∈ s.tops, ∃ y ∈ t.tops, ∀ cb ∈ x.cbs, cb ∈ y.cbs) (hr : ∀ r ∈ s.ready, r ∈ t.ready) : Kept s t := by
  refine ⟨fun h => ⟨by rw [← hb]; exact h.1, by rw [← ha]; exact h.2⟩, ⟨[], by rw [hl]; simp⟩,
    fun w' hw' p hp => ⟨w', by rw [← hw]; exact hw', rfl, hp⟩, ?_⟩
  intro u p h
  rcases h with ⟨x, hx, hc⟩ | ⟨v, hv⟩
  · obtain ⟨y, hy, hcb⟩ := ht x hx
    exact Or.inl ⟨y, hy, hcb _ hc⟩
  · exact Or.inr ⟨v, hr _ hv⟩

theorem kept_pushTop (t : TopFut) (s : State) : Kept s (pushTop t s).2 :=
  kept_tops_ready rfl rfl rfl rfl (fun x hx => ⟨x, by simp [pushTop, modS, hx], fun _ h => h⟩) (fun _ h => h)

theorem kept_armTop (tid : Nat) (s : State) : Kept s (armTop tid s).2 :=
  kept_tops_ready rfl rfl rfl rfl (fun x hx =>
    ⟨if x.tid = tid then { x with armed := true } else x, by
      simp only [armTop, modS]; exact List.mem_map.mpr ⟨x, hx, rfl⟩, fun cb h => by split <;> exact h⟩) (fun _ h => h)

theorem kept_topAddCb (tid : Nat) (cb : TopCb) (s : State) : Kept s (topAddCb tid cb s).2 :=
  kept_tops_ready rfl rfl rfl rfl (fun x hx =>
    ⟨if x.tid = tid then { x with cbs := x.cbs ++ [cb] } else x, by
      simp only [topAddCb, modS]; exact List.mem_map.mpr ⟨x, hx, rfl⟩, fun c h => by
        split
        · exact List.mem_append_left _ h
        · exact h⟩) (fun _ h => h)

theorem kept_enqueue (r : Ready) (s : State) : Kept s (enqueue r s).2 :=
  kept_tops_ready rfl rfl rfl rfl (fun x hx => ⟨x, hx, fun _ h => h⟩)
    (fun r' h => by simp only [enqueue, modS]; exact List.mem_append_left _ h)

theorem kept_modO (pid : Nat) (f : PObj → PObj) (s : State) : Kept s (modO pid f s).2 :=
  Kept.of_frame (fun h => h) (fun h => h) ⟨[], by simp [modO, modS]⟩ rfl rfl rfl

theorem annLeafW (ex : Nat → Nat → Prop) : LeafW (AnnX ex) where
  emit := fun o s h => h.step (kept_emit o s)
  runK := fun f _ s h => h.step (Kept.of_frame (fun h => h) (fun h => h) ⟨[], by simp [runK]⟩ rfl rfl rfl)
  emitEv := fun w t p x s h => h.step (kept_emitEv w t p x s)
  popPid := fun u p s h => h.step
    (kept_modW u (fun w => { w with pids := w.pids.filter (· ≠ p) }) (fun _ => rfl) (fun _ => List.filter_sublist) s)
  bumpHook := fun u hk i s h => h.step
    (kept_modW u (fun w => { w with hookCalls := (hk, i + 1) :: w.hookCalls.filter (·.1 ≠ hk) }) (fun _ => rfl)
      (fun _ => List.Sublist.refl _) s)
  setObjStopping := fun p b s h => h.step (kept_modO p _ s)
  setRc := fun p rc s h => h.step (kept_modO p _ s)
  markBlocked := fun s h => h.step
    ⟨fun hon => by simp [eventsOn, markBlocked, modS] at hon, ⟨[], by simp [markBlocked, modS]⟩,
     fun w' hw' p hp => ⟨w', hw', rfl, hp⟩, fun _ _ h => h⟩

macro "kept_frame" : tactic =>
  `(tactic| (refine Kept.of_frame ?_ ?_ ⟨[], ?_⟩ ?_ ?_ ?_ <;> simp [modS, modA, modO]))

theorem annLeafR (ex : Nat → Nat → Prop) : LeafR (AnnX ex) where
  toLeafW := annLeafW ex
  setStatus := fun u st _ s h => h.step (kept_modW u (fun w => { w with status := st }) (fun _ => rfl) (fun _ => List.Sublist.refl _) s)
  trySetNp := fun u n s h => h.step (kept_trySetNp u n s)
  setWOpt := fun u c s h => h.step (kept_modW u (applyOpt c) (fun w => (applyOpt_uid_pids c w).1)
    (fun w => by rw [(applyOpt_uid_pids c w).2]; exact List.Sublist.refl _) s)
  freshId := fun s h => h.step (by unfold freshId; kept_frame)
  pushFrame := fun f s h => h.step (by unfold pushFrame; kept_frame)
  removeFrame := fun f s h => h.step (by unfold removeFrame; kept_frame)
  setFrameK := fun f k s h => h.step (by unfold setFrameK; kept_frame)
  armFrame := fun f s h => h.step (by unfold armFrame; kept_frame)
  pushSleeper := fun sl s h => h.step (by unfold pushSleeper; kept_frame)
  armTop := fun t s h => h.step (kept_armTop t s)
  setStopping := fun s h => h.step (by unfold setStopping; kept_frame)
  setRestarting := fun s h => h.step (by unfold setRestarting; kept_frame)
  clearRestarting := fun b s h => h.step (by unfold clearRestarting; kept_frame)
  setLoopStop := fun b s h => h.step (by unfold setLoopStop; kept_frame)
  setSocketEvent := fun b s h => h.step (by unfold setSocketEvent; kept_frame)
  setSockReady := fun b s h => h.step (by unfold setSockReady; kept_frame)
  clearDone := fun s h => h.step (by unfold clearDone; kept_frame)
  unregister := fun u s h => h.step (by unfold unregisterWatcher; kept_frame)
  registerNew := fun w hw s h => h.step (kept_registerNew w hw s)
  fireSleeper := fun sl s h => h.step (by unfold fireSleeper; kept_frame)
  enqueueResume := fun k v w s h => h.step (kept_enqueue _ s)
  enqueueCallback := fun n s h => h.step (kept_enqueue _ s)

/-! ### top-level futures and the ready queue -/

theorem mem_eraseP_of_ne_find {l : List TopFut} {p : TopFut → Bool} {t t0 : TopFut}
    (hf : l.find? p = some t0) (ht : t ∈ l) (hne : t ≠ t0) : t ∈ l.eraseP p := by
  induction l with
  | nil => cases ht
  | cons a l' ih =>
    by_cases hp : p a = true
    · simp only [List.find?_cons, hp, Option.some.injEq] at hf
      subst hf
      simp only [List.eraseP_cons, hp]
      rcases List.mem_cons.mp ht with h | h
      · exact absurd h hne
      · simpa using h
    · have hp' : p a = false := by simpa using hp
      simp only [List.find?_cons, hp'] at hf
      simp only [List.eraseP_cons, hp']
      rcases List.mem_cons.mp ht with h | h
      · simp [h]
      · simp [ih hf h]

/-- the callback loop of a completed future: nothing is lost, every `popProc` callback reaches the
    ready queue -/
theorem deliverCbs_kept (armed : Bool) (v : Val) (cbs : List TopCb) (s : State) :
    Kept s (deliverCbs armed v cbs s).2 ∧
    (∀ r ∈ s.ready, r ∈ (deliverCbs armed v cbs s).2.ready) ∧
    (∀ u p, TopCb.popProc u p ∈ cbs → Ready.topCb (.popProc u p) v ∈ (deliverCbs armed v cbs s).2.ready) := by
  induction cbs generalizing s with
  | nil => exact ⟨Kept.refl _, fun _ h => h, fun _ _ h => by cases h⟩
  | cons cb rest ih =>
    unfold deliverCbs
    simp only [bind]
    have hstep : ∀ s1 : State, Kept s s1 → (∀ r ∈ s.ready, r ∈ s1.ready) →
        (∀ u p, cb = TopCb.popProc u p → Ready.topCb (.popProc u p) v ∈ s1.ready) →
        Kept s (deliverCbs armed v rest s1).2 ∧
        (∀ r ∈ s.ready, r ∈ (deliverCbs armed v rest s1).2.ready) ∧
        (∀ u p, TopCb.popProc u p ∈ cb :: rest → Ready.topCb (.popProc u p) v ∈ (deliverCbs armed v rest s1).2.ready) := by
      intro s1 hk hr hcb
      obtain ⟨i1, i2, i3⟩ := ih s1
      refine ⟨hk.trans i1, fun r h => i2 r (hr r h), ?_⟩
      intro u p hm
      rcases List.mem_cons.mp hm with hm | hm
      · exact i2 _ (hcb u p hm.symm)
      · exact i3 u p hm
    have hslot : Kept s (setSlot none s).2 := by unfold setSlot; kept_frame
    have henq : ∀ c : TopCb, Kept s (enqueue (.topCb c v) s).2 ∧ (∀ r ∈ s.ready, r ∈ (enqueue (.topCb c v) s).2.ready) ∧
        Ready.topCb c v ∈ (enqueue (.topCb c v) s).2.ready := fun c =>
      ⟨kept_enqueue _ s, fun r h => by simp only [enqueue, modS]; exact List.mem_append_left _ h,
       by simp [enqueue, modS]⟩
    cases cb <;> cases armed <;>
      first
        | exact hstep _ hslot (fun _ h => h) (fun u p h => by cases h)
        | exact hstep _ (henq _).1 (henq _).2.1 (fun u p h => by
            first
              | (cases h; done)
              | (cases h; exact (henq _).2.2))

/-- a future completes: its entry leaves the table, its callbacks reach the ready queue — nothing
    that is pending is lost -/
theorem kept_deliverTop (tid : Nat) (v : Val) (s : State) : Kept s (deliverTop tid v s).2 := by
  unfold deliverTop
  simp only [bind, getS]
  cases hf : s.tops.find? (fun t => decide (t.tid = tid)) with
  | none => exact Kept.refl _
  | some t0 =>
    simp only
    obtain ⟨hk, hr, hcb⟩ := deliverCbs_kept t0.armed v t0.cbs (finishTop tid v s).2
    refine ⟨fun h => hk.on h, ?_, ?_, ?_⟩
    · obtain ⟨l, hl⟩ := hk.log; exact ⟨l, hl⟩
    · intro w' hw' p hp; exact hk.ws w' hw' p hp
    · intro u p h
      rcases h with ⟨x, hx, hc⟩ | ⟨v', hv'⟩
      · by_cases hxe : x = t0
        · subst hxe; exact Or.inr ⟨v, hcb u p hc⟩
        · exact hk.pend u p (Or.inl ⟨x, by simp only [finishTop, modS]; exact mem_eraseP_of_ne_find hf hx hxe, hc⟩)
      · exact Or.inr ⟨v', hr _ hv'⟩

/-- the slot / future / queue writers that lose nothing -/
structure SlotSafe (I : State → Prop) : Prop extends LeafRE I where
  setSlot : ∀ v, Pres I (setSlot v)
  pushTop : ∀ t, Pres I (pushTop t)
  topAddCb : ∀ t cb, Pres I (topAddCb t cb)
  enqueue : ∀ r, Pres I (enqueue r)

section
variable {I : State → Prop}
theorem newTop_safe (X : SlotSafe I) (cbs : List TopCb) : Pres I (newTop cbs) := by
  have L := X.toLeafRE
  have LW := L.toLeafWE
  have h := X.pushTop
  unfold newTop
  aesop (add safe apply h) (erase LeafYRE.pushTop) (rule_sets := [Pres]) (config := { terminal := true, useDefaultSimpSet := false, useSimpAll := false, maxRuleApplications := 3000 })
theorem addDoneCallback_safe (X : SlotSafe I) (tid : Nat) (cb : TopCb) : Pres I (addDoneCallback tid cb) := by
  have L := X.toLeafRE
  have LW := L.toLeafWE
  have h1 := X.topAddCb
  have h2 := X.enqueue
  unfold addDoneCallback
  aesop (add safe apply h1, safe apply h2) (erase LeafYRE.topAddCb, LeafYRE.enqueue) (rule_sets := [Pres]) (config := { terminal := true, useDefaultSimpSet := false, useSimpAll := false, maxRuleApplications := 3000 })
theorem syncCoroutine_safe (X : SlotSafe I) (he : ∀ n t, Pres I (exec n t)) (name : String) (c : Call) (extra : List TopCb) :
    Pres I (syncCoroutine name c extra) := by
  have L := X.toLeafRE
  have LW := L.toLeafWE
  have h := newTop_safe X
  have h1 := X.setSlot
  unfold syncCoroutine
  aesop (add safe apply h, safe apply he, safe apply h1) (erase LeafYRE.setSlot) (rule_sets := [Pres]) (config := { terminal := true, useDefaultSimpSet := false, useSimpAll := false, maxRuleApplications := 3000 })
theorem syncPlain_safe (X : SlotSafe I) {α : Type} (name : String) (body : M (R α)) (hb : Pres I body) :
    Pres I (syncPlain name body) := by
  have L := X.toLeafRE
  have LW := L.toLeafWE
  have h1 := X.setSlot
  unfold syncPlain
  aesop (add safe apply hb, safe apply h1) (erase LeafYRE.setSlot) (rule_sets := [Pres]) (config := { terminal := true, useDefaultSimpSet := false, useSimpAll := false, maxRuleApplications := 3000 })
end

theorem annSlotSafe (ex : Nat → Nat → Prop) : SlotSafe (AnnX ex) where
  toLeafRE := (annLeafR ex).toLeafRE
  setSlot := fun v s h => h.step (by unfold setSlot; kept_frame)
  pushTop := fun t s h => h.step (kept_pushTop t s)
  topAddCb := fun t cb s h => h.step (kept_topAddCb t cb s)
  enqueue := fun r s h => h.step (kept_enqueue r s)

/-! ### the event loop takes one ready callback -/

/-- dropping the head of the ready queue loses nothing unless the head is a `popProc` callback -/
theorem kept_dequeue (s : State) (r : Ready) (rest : List Ready) (hr : s.ready = r :: rest)
    (hnp : ∀ u p v, r ≠ Ready.topCb (.popProc u p) v) : Kept s (dequeue s).2 := by
  refine ⟨fun h => h, ⟨[], by simp [dequeue, modS]⟩, fun w' hw' p hp => ⟨w', hw', rfl, hp⟩, ?_⟩
  intro u p h
  rcases h with h | ⟨v, hv⟩
  · exact Or.inl h
  · right
    refine ⟨v, ?_⟩
    simp only [dequeue, modS, hr, List.tail_cons]
    rw [hr] at hv
    rcases List.mem_cons.mp hv with hv | hv
    · exact absurd hv.symm (hnp u p v)
    · exact hv

theorem ann_settleStep (ex : Nat → Nat → Prop) (he : ∀ n t, Pres (AnnX ex) (exec n t)) (hq : Pres (AnnX ex) sigQuit) :
    Pres (AnnX ex) settleStep := by
  have L := (annLeafR ex).toLeafRE
  have LW := L.toLeafWE
  intro s hs
  unfold settleStep
  simp only [bind, getS]
  cases hrd : s.ready with
  | nil => exact hs
  | cons r rest =>
    simp only
    cases r with
    | resume k v w =>
      exact he _ _ _ (hs.step (kept_dequeue s _ rest hrd (fun _ _ _ h => by cases h)))
    | closeCtl =>
      have hc : Pres (AnnX ex) setClosed := fun t ht => ht.step
        ⟨fun hon => by simp [eventsOn, setClosed, modA, modS] at hon, ⟨[], by simp [setClosed, modA, modS]⟩,
         fun w' hw' p hp => ⟨w', hw', rfl, hp⟩, fun _ _ h => h⟩
      exact stopController_ofE L hc _ (hs.step (kept_dequeue s _ rest hrd (fun _ _ _ h => by cases h)))
    | callback n =>
      exact hq _ (hs.step (kept_dequeue s _ rest hrd (fun _ _ _ h => by cases h)))
    | topCb cb v =>
      cases cb with
      | release =>
        have h1 := hs.step (kept_dequeue s _ rest hrd (fun _ _ _ h => by cases h))
        exact (annSlotSafe ex).setSlot none _ h1
      | reply a b c d e f =>
        have h1 := hs.step (kept_dequeue s _ rest hrd (fun _ _ _ h => by cases h))
        have hrep : ∀ c i a b d, Pres (AnnX ex) (emitRep c i a b d) := fun c i a b d t ht => ht.step (kept_emitRep c i a b d t)
        have hsr := sendReply_presE L hrep
        have hp : Pres (AnnX ex) (runTopCb v (TopCb.reply a b c d e f)) := by
          simp only [runTopCb]
          split <;> (split <;> first | exact hsr _ _ _ _ _ _ | exact Pres.pure _)
        exact hp _ h1
      | watch =>
        have h1 := hs.step (kept_dequeue s _ rest hrd (fun _ _ _ h => by cases h))
        have hp : Pres (AnnX ex) (runTopCb v TopCb.watch) := by
          simp only [runTopCb]
          split <;> first | exact (annLeafW ex).emit _ | exact Pres.pure _
        exact hp _ h1
      | popProc u p =>
        -- the pop itself: `p` leaves watcher `u`; what else was pending still is
        show AnnX ex (popPid u p (dequeue s).2).2
        intro hon w' hw' q hq'
        simp only [popPid, modW, modS, dequeue] at hw'
        obtain ⟨w, hw, rfl⟩ := List.mem_map.mp hw'
        have hqw : q ∈ w.pids ∧ (w.uid = u → q ≠ p) := by
          by_cases hu : w.uid = u
          · rw [if_pos hu] at hq'
            have := List.mem_filter.mp hq'
            exact ⟨this.1, fun _ => by simpa using this.2⟩
          · rw [if_neg hu] at hq'
            exact ⟨hq', fun h => absurd h hu⟩
        have huid : (if w.uid = u then { w with pids := w.pids.filter (· ≠ p) } else w).uid = w.uid := by
          split <;> rfl
        rw [huid]
        rcases hs hon w hw q hqw.1 with h1 | h1 | h1
        · exact Or.inl h1
        · right; left
          rcases h1 with h1 | ⟨v', hv'⟩
          · exact Or.inl h1
          · right
            rw [hrd] at hv'
            rcases List.mem_cons.mp hv' with hv' | hv'
            · simp only [Ready.topCb.injEq, TopCb.popProc.injEq] at hv'
              exact absurd hv'.1.2 (hqw.2 hv'.1.1)
            · exact ⟨v', by simp only [popPid, modW, modS, dequeue, hrd, List.tail_cons]; exact hv'⟩
        · exact Or.inr (Or.inr h1)

/-! ### `spawn_process`: announced, or rejected with the pop pending -/

theorem ann_spawnAdopt (u wid : Nat) (s : State) (hs : AnnInv s) :
    (∀ pid, (spawnAdopt u wid s).1 = some pid → AnnX (fun a b => a = u ∧ b = pid) (spawnAdopt u wid s).2) ∧
    ((spawnAdopt u wid s).1 = none → AnnInv (spawnAdopt u wid s).2) := by
  cases hr : (s.k.spawn).2 with
  | none =>
    rw [spawnAdopt_none u wid s hr]
    refine ⟨fun pid h => (by cases h), fun _ => ?_⟩
    refine hs.step (Kept.of_frame (fun h => h) (fun h => h) ?_ rfl rfl rfl)
    by_cases hb : s.blocked = true
    · exact ⟨[], by simp [hb]⟩
    · exact ⟨[Obs.execfail], by simp [hb]⟩
  | some pid =>
    rw [spawnAdopt_some u wid s pid hr]
    refine ⟨?_, fun h => (by cases h)⟩
    intro q hq
    simp only [Option.some.injEq] at hq
    subst hq
    intro hon w' hw' p hp
    simp only at hw'
    obtain ⟨w, hw, rfl⟩ := List.mem_map.mp hw'
    have hlog : ∃ l, (if s.blocked = true then s.log else
        s.log ++ [Obs.spawn pid ((s.ws.find? (·.uid = u)).getD defaultWatcher).name wid]) = s.log ++ l := by
      by_cases hb : s.blocked = true
      · exact ⟨[], by simp [hb]⟩
      · exact ⟨[Obs.spawn pid ((s.ws.find? (·.uid = u)).getD defaultWatcher).name wid], by simp [hb]⟩
    obtain ⟨l, hl⟩ := hlog
    have hold : p ∈ w.pids → 1 ≤ spawnCount p (s.log ++ l) ∨ PopPendingFor w.uid p s := by
      intro hpw
      rcases hs hon w hw p hpw with h1 | h1 | h1
      · exact Or.inl (Nat.le_trans h1 (spawnCount_mono p _ l))
      · exact Or.inr h1
      · exact absurd h1 id
    simp only [hl]
    by_cases hu : w.uid = u
    · rw [if_pos hu] at hp ⊢
      rcases List.mem_append.mp hp with hp | hp
      · rcases hold hp with h | h
        · exact Or.inl h
        · exact Or.inr (Or.inl h)
      · simp only [List.mem_cons, List.mem_nil_iff, or_false] at hp
        exact Or.inr (Or.inr ⟨hu, hp⟩)
    · rw [if_neg hu] at hp ⊢
      rcases hold hp with h | h
      · exact Or.inl h
      · exact Or.inr (Or.inl h)

/-- the veto: the future of the detached kill is created with the `popProc` callback -/
theorem ann_newTop_popProc (u pid : Nat) (s : State) (h : AnnX (fun a b => a = u ∧ b = pid) s) :
    AnnInv (newTop [TopCb.popProc u pid] s).2 := by
  intro hon w hw p hp
  have hon' : eventsOn s := hon
  have hw' : w ∈ s.ws := hw
  rcases h hon' w hw' p hp with h1 | h1 | ⟨h1, h2⟩
  · exact Or.inl h1
  · right; left
    have k1 : Kept s (freshId s).2 := by unfold freshId; kept_frame
    exact (k1.trans (kept_pushTop { tid := s.nextId, cbs := [TopCb.popProc u pid] } (freshId s).2)).pend _ _ h1
  · right; left; left
    refine ⟨{ tid := s.nextId, cbs := [TopCb.popProc u pid] }, ?_, ?_⟩
    · simp [newTop, bind, freshId, pushTop, modS, pure]
    · rw [h1, h2]; simp

/-- the acceptance: the `spawn` event (nothing, when events are off) -/
theorem ann_notify_spawn (u pid : Nat) (x : String) (s : State) (h : AnnX (fun a b => a = u ∧ b = pid) s) :
    AnnInv (notify u "spawn" (some pid) x s).2 := by
  unfold notify
  simp only [bind, getA, getW]
  by_cases hc : s.a.pubClosed = true
  · erw [if_pos hc]
    intro hon
    have h2 : s.a.pubClosed = false := hon.2
    rw [hc] at h2; cases h2
  · erw [if_neg hc]
    generalize resName ((s.ws.find? (fun w => decide (w.uid = u))).getD defaultWatcher).name = wn
    simp only [emitEv, modS]
    split
    · rename_i hb
      intro hon
      have h2 : s.blocked = false := hon.1
      rw [hb] at h2; cases h2
    · intro hon w hw p hp
      have hon' : eventsOn s := hon
      rcases h hon' w hw p hp with h1 | h1 | ⟨_, h2⟩
      · left; exact Nat.le_trans h1 (spawnCount_mono p _ _)
      · exact Or.inr (Or.inl h1)
      · left
        show 1 ≤ spawnCount p (s.log ++ [Obs.ev wn "spawn" (some pid) x])
        rw [spawnCount_snoc_spawn, h2]
        simp

theorem ann_spawnRest (rec : Rec) (hrec : ∀ t, Pres AnnInv (rec t)) (u pid now : Nat) :
    PresTo (AnnX (fun a b => a = u ∧ b = pid)) AnnInv (spawnRest rec u pid now) := by
  have L := (annLeafR (fun _ _ => False)).toLeafRE
  have LW := L.toLeafWE
  unfold spawnRest
  refine PresTo.bind_left (callHook_pres (annLeafW _) u "after_spawn") ?_
  intro r
  split
  · refine PresTo.bind_right (fun s hs => ann_newTop_popProc u pid s hs) ?_
    intro tid
    have hat : Pres AnnInv (armTop tid) := (annLeafR _).armTop tid
    exact Pres.bind (hrec _) (fun _ => Pres.bind hat (fun _ => Pres.pure _))
  · refine PresTo.bind_right (fun s hs => ann_notify_spawn u pid _ s hs) ?_
    intro _
    exact Pres.pure _

theorem ann_spawnTry (rec : Rec) (hrec : ∀ t, Pres AnnInv (rec t)) (u n : Nat) (s : State)
    (hs : AnnInv s) : AnnInv (spawnTry rec u n s).2 := by
  induction n generalizing s with
  | zero => exact hs
  | succ n ih =>
    unfold spawnTry
    simp only [bind]
    have h1 : (getW u s).2 = s := rfl
    have h2 : (usedWids u s).2 = s := rfl
    rw [h1, h2]
    cases hw : nextWid (getW u s).1.np (usedWids u s).1 with
    | none => exact hs
    | some wid =>
      simp only
      have h3 : (nowMs s).2 = s := rfl
      rw [h3]
      obtain ⟨ha, hb⟩ := ann_spawnAdopt u wid s hs
      cases hsp : spawnAdopt u wid s with
      | mk p s2 =>
        rw [hsp] at ha hb
        cases p with
        | none => exact ih s2 (hb rfl)
        | some pid => exact ann_spawnRest rec hrec u pid (nowMs s).1 s2 (ha pid rfl)

theorem ann_spawnProcess (rec : Rec) (hrec : ∀ t, Pres AnnInv (rec t)) (u : Nat) : Pres AnnInv (spawnProcess rec u) := by
  intro s hs
  unfold spawnProcess
  simp only [bind]
  have h1 : (getW u s).2 = s := rfl
  rw [h1]
  by_cases hst : (getW u s).1.status = .stopped
  · erw [if_pos hst]; exact hs
  · erw [if_neg hst]
    have hs1 : AnnInv (callHook u "before_spawn" s).2 := callHook_pres (annLeafW _) u "before_spawn" s hs
    by_cases hr : (!(callHook u "before_spawn" s).1) = true
    · erw [if_pos hr]; exact hs1
    · erw [if_neg hr]
      exact ann_spawnTry rec hrec u _ _ hs1

/-! ### along all runs -/

theorem ann_setStopped (ex : Nat → Nat → Prop) (u : Nat) : Pres (AnnX ex) (setStatus u .stopped) :=
  fun s h => h.step (kept_modW u (fun w => { w with status := .stopped }) (fun _ => rfl) (fun _ => List.Sublist.refl _) s)

theorem ann_setClosed (ex : Nat → Nat → Prop) : Pres (AnnX ex) setClosed := fun t ht => ht.step
  ⟨fun hon => by simp [eventsOn, setClosed, modA, modS] at hon, ⟨[], by simp [setClosed, modA, modS]⟩,
   fun w' hw' p hp => ⟨w', hw', rfl, hp⟩, fun _ _ h => h⟩

theorem annSpecRE : SpecRE AnnInv where
  toLeafRE := (annLeafR (fun _ _ => False)).toLeafRE
  deliverTop := fun tid v s h => AnnX.step h (kept_deliverTop tid v s)
  newTopNR := fun cbs _ => newTop_safe (annSlotSafe (fun _ _ => False)) cbs
  addDone := fun tid cb _ => addDoneCallback_safe (annSlotSafe (fun _ _ => False)) tid cb
  syncCo := fun he name c => syncCoroutine_safe (annSlotSafe (fun _ _ => False)) he name c []
  syncSetOpt := fun u k v b => syncPlain_safe (annSlotSafe (fun _ _ => False)) _ _
    (setOptBody_presE (annLeafR (fun _ _ => False)).toLeafRE u k v b)
  syncAdd := fun p => syncPlain_safe (annSlotSafe (fun _ _ => False)) _ _
    (addCore_presE (annLeafR (fun _ _ => False)).toLeafRE p)
  spawnProcess := ann_spawnProcess
  stopCore := stopCore_of (annLeafW (fun _ _ => False)) (ann_setStopped _)
  guardedStop := guardedStop_of (ann_setStopped _)
  emitRep := fun c i a b d s h => AnnX.step h (kept_emitRep c i a b d s)
  settleStep := ann_settleStep (fun _ _ => False)
  stopController := stopController_ofE (annLeafR (fun _ _ => False)).toLeafRE (ann_setClosed _)

theorem annInv_run (s : State) (ops : List Op) (h : AnnInv s) : AnnInv (run s ops) :=
  run_presE annSpecRE s ops h

theorem annInv_init (cfg : List Watcher) (bs : List Behav) (aw : Nat) (hcfg : ∀ w ∈ cfg, w.pids = []) :
    AnnInv (initState cfg bs aw) := by
  have key : ∀ (l : List Watcher) (n : Nat), (∀ w ∈ l, w.pids = []) → ∀ w ∈ assignUids l n, w.pids = [] := by
    intro l
    induction l with
    | nil => intro n _ w hw; cases hw
    | cons x xs ih =>
      intro n h w hw
      simp only [assignUids, List.mem_cons] at hw
      rcases hw with rfl | hw
      · exact h x (by simp)
      · exact ih (n + 1) (fun w hw => h w (by simp [hw])) w hw
  intro _ w hw p hp
  have : w.pids = [] := key cfg 1 hcfg w hw
  rw [this] at hp; cases hp

end Circus.Core
