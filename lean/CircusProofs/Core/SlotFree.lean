import CircusProofs.Core.Generic
/-!
Invariants that do not care about the exclusive slot or about which callbacks a top-level future
carries: they get their `Spec` from plain writer lemmas.
-/
namespace Circus.Core

structure LeafY (I : State → Prop) : Prop extends Leaf I where
  setSlot : ∀ v, Pres I (setSlot v)
  pushTop : ∀ t, Pres I (pushTop t)
  finishTop : ∀ t v, Pres I (finishTop t v)
  topAddCb : ∀ t cb, Pres I (topAddCb t cb)
  enqueue : ∀ r, Pres I (enqueue r)
  dequeue : Pres I dequeue

/-- … and the reply writer, for invariants that do not look at replies either -/
structure LeafX (I : State → Prop) : Prop extends LeafY I where
  emitRep : ∀ c i a b d, Pres I (emitRep c i a b d)

attribute [aesop safe apply (rule_sets := [Pres])] LeafX.emitRep LeafY.setSlot LeafY.pushTop LeafY.finishTop LeafY.topAddCb
  LeafY.enqueue LeafY.dequeue LeafX.toLeafY LeafY.toLeaf

section
variable {I : State → Prop}

macro "presx" : tactic =>
  `(tactic| aesop (rule_sets := [Pres]) (config := { terminal := true, useDefaultSimpSet := false, useSimpAll := false, maxRuleApplications := 3000 }))

theorem runTopCb_pres (X : LeafX I) (v : Val) (cb : TopCb) : Pres I (runTopCb v cb) := by
  have L := X.toLeaf
  have hsr := sendReply_pres L X.emitRep
  cases cb <;> simp only [runTopCb] <;> presx

theorem newTop_pres (X : LeafY I) (cbs : List TopCb) : Pres I (newTop cbs) := by
  have L := X.toLeaf
  unfold newTop; presx

theorem deliverCbs_pres (X : LeafY I) (armed : Bool) (v : Val) (cbs : List TopCb) : Pres I (deliverCbs armed v cbs) := by
  have L := X.toLeaf
  have h : Pres I (runTopCb v TopCb.release) := by simp only [runTopCb]; exact X.setSlot _
  induction cbs with
  | nil => unfold deliverCbs; presx
  | cons cb rest ih =>
    unfold deliverCbs
    aesop (add safe apply h, safe apply ih) (rule_sets := [Pres])
      (config := { terminal := true, useDefaultSimpSet := false, useSimpAll := false, maxRuleApplications := 3000 })

theorem deliverTop_pres (X : LeafY I) (tid : Nat) (v : Val) : Pres I (deliverTop tid v) := by
  have L := X.toLeaf
  have h := deliverCbs_pres X
  unfold deliverTop
  aesop (add safe apply h) (rule_sets := [Pres]) (config := { terminal := true, useDefaultSimpSet := false, useSimpAll := false, maxRuleApplications := 3000 })

theorem addDoneCallback_pres (X : LeafY I) (tid : Nat) (cb : TopCb) : Pres I (addDoneCallback tid cb) := by
  have L := X.toLeaf
  unfold addDoneCallback; presx

theorem syncCoroutine_presx (X : LeafY I) (he : ∀ n t, Pres I (exec n t)) (name : String) (c : Call) (extra : List TopCb) :
    Pres I (syncCoroutine name c extra) := by
  have L := X.toLeaf
  have h := newTop_pres X
  unfold syncCoroutine
  aesop (add safe apply h, safe apply he) (rule_sets := [Pres]) (config := { terminal := true, useDefaultSimpSet := false, useSimpAll := false, maxRuleApplications := 3000 })

theorem syncPlain_presx (X : LeafY I) {α : Type} (name : String) (body : M (R α)) (hb : Pres I body) :
    Pres I (syncPlain name body) := by
  have L := X.toLeaf
  unfold syncPlain
  aesop (add safe apply hb) (rule_sets := [Pres]) (config := { terminal := true, useDefaultSimpSet := false, useSimpAll := false, maxRuleApplications := 3000 })

theorem setOpt_pres (L : Leaf I) (u : Nat) (k : String) (v : JVal) : Pres I (setOpt u k v) := by
  unfold setOpt; presx

theorem setOptBody_pres (L : Leaf I) (u : Nat) (k : String) (v : JVal) (b : Bool) : Pres I (setOptBody u k v b) := by
  have h := setOpt_pres L
  unfold setOptBody
  aesop (add safe apply h) (rule_sets := [Pres]) (config := { terminal := true, useDefaultSimpSet := false, useSimpAll := false, maxRuleApplications := 3000 })

/-- the option values of `add` never touch the (empty) process list of the watcher being built -/
theorem applyAddOptions_pids (l : List (String × JVal)) :
    ∀ (w w2 : Watcher), applyAddOptions w l = some w2 → w2.pids = w.pids := by
  induction l with
  | nil => intro w w2 h; simp only [applyAddOptions, Option.some.injEq] at h; rw [← h]
  | cons kv rest ih =>
    intro w w2 h
    obtain ⟨k, v⟩ := kv
    simp only [applyAddOptions] at h
    split at h
    · rename_i w1 hw1
      have := ih w1 w2 h
      rw [this]
      split at hw1 <;> (try split at hw1) <;>
        first
        | (simp only [Option.some.injEq] at hw1; rw [← hw1])
        | (simp only [Option.map_eq_some_iff] at hw1; obtain ⟨n, _, hn⟩ := hw1; rw [← hn])
    · exact absurd h (by simp)

theorem addCore_pres (L : Leaf I) (p : JVal) : Pres I (addCore p) := by
  unfold addCore
  split <;> dsimp only <;> split
  all_goals first
    | (rename_i name _
       apply Pres.ite
       · presx
       · split
         · presx
         · rename_i w hw
           have hp : w.pids = [] := applyAddOptions_pids _ _ _ hw
           have hr := L.registerNew w hp
           aesop (add safe apply hr) (rule_sets := [Pres]) (config := { terminal := true, useDefaultSimpSet := false, useSimpAll := false, maxRuleApplications := 3000 }))
    | presx

theorem runReady1_pres (X : LeafX I) (rec : Rec) (hrec : ∀ t, Pres I (rec t)) (hq : Pres I sigQuit) (r : Ready) :
    Pres I (runReady1 rec r) := by
  have L := X.toLeaf
  have h := runTopCb_pres X
  cases r <;> simp only [runReady1] <;>
  aesop (add safe apply h, safe apply hrec, safe apply hq) (rule_sets := [Pres])
    (config := { terminal := true, useDefaultSimpSet := false, useSimpAll := false, maxRuleApplications := 3000 })

theorem settleStep_pres (X : LeafX I) (he : ∀ n t, Pres I (exec n t)) (hq : Pres I sigQuit) :
    Pres I settleStep := by
  have L := X.toLeaf
  have h := runReady1_pres X (exec 100000) (he 100000) hq
  unfold settleStep
  aesop (add safe apply h) (rule_sets := [Pres]) (config := { terminal := true, useDefaultSimpSet := false, useSimpAll := false, maxRuleApplications := 3000 })

/-- slot-insensitive invariants: writer lemmas are enough (everything up to, but not including,
    the reply path and the event loop) -/
theorem SpecCore.ofLeafY (X : LeafY I) : SpecCore I where
  toLeaf := X.toLeaf
  deliverTop := deliverTop_pres X
  newTopNR := fun cbs _ => newTop_pres X cbs
  addDone := fun tid cb _ => addDoneCallback_pres X tid cb
  syncCo := fun he name c => syncCoroutine_presx X he name c []
  syncSetOpt := fun u k v b => syncPlain_presx X _ _ (setOptBody_pres X.toLeaf u k v b)
  syncAdd := fun p => syncPlain_presx X _ _ (addCore_pres X.toLeaf p)

theorem Spec.ofLeafX (X : LeafX I) : Spec I where
  toSpecCore := SpecCore.ofLeafY X.toLeafY
  emitRep := X.emitRep
  settleStep := fun he hq => settleStep_pres X he hq

end
end Circus.Core
