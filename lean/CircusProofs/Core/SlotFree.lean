import CircusProofs.Core.Generic
/-!
Invariants that do not care about the exclusive slot or about which callbacks a top-level future
carries: they get their `Spec` from plain writer lemmas.  `LeafYR`/`LeafXR` sit on the weak chain
(`LeafR`: no `setStatus … .stopped`, no `spawnAdopt`, no `setClosed`; the places that need them are
given separately to `SpecCoreR.ofLeafYR` / `SpecR.ofLeafXR`), `LeafY`/`LeafX` on the full one.
`LeafYRE`/`LeafXRE` are the same on the `E` chain (events restricted); the proofs are done there.
-/
namespace Circus.Core

structure LeafYRE (I : State → Prop) : Prop extends LeafRE I where
  setSlot : ∀ v, Pres I (setSlot v)
  pushTop : ∀ t, Pres I (pushTop t)
  finishTop : ∀ t v, Pres I (finishTop t v)
  topAddCb : ∀ t cb, Pres I (topAddCb t cb)
  enqueue : ∀ r, Pres I (enqueue r)
  dequeue : Pres I dequeue

structure LeafXRE (I : State → Prop) : Prop extends LeafYRE I where
  emitRep : ∀ c i a b d, Pres I (emitRep c i a b d)

structure LeafYR (I : State → Prop) : Prop extends LeafR I where
  setSlot : ∀ v, Pres I (setSlot v)
  pushTop : ∀ t, Pres I (pushTop t)
  finishTop : ∀ t v, Pres I (finishTop t v)
  topAddCb : ∀ t cb, Pres I (topAddCb t cb)
  enqueue : ∀ r, Pres I (enqueue r)
  dequeue : Pres I dequeue

structure LeafXR (I : State → Prop) : Prop extends LeafYR I where
  emitRep : ∀ c i a b d, Pres I (emitRep c i a b d)

structure LeafY (I : State → Prop) : Prop extends Leaf I where
  setSlot : ∀ v, Pres I (setSlot v)
  pushTop : ∀ t, Pres I (pushTop t)
  finishTop : ∀ t v, Pres I (finishTop t v)
  topAddCb : ∀ t cb, Pres I (topAddCb t cb)
  enqueue : ∀ r, Pres I (enqueue r)
  dequeue : Pres I dequeue

/-- … and the reply writer, for invariants that do not look at replies either -/
structure LeafX (I : State → Prop) : Prop extends LeafY I where
  emitRep : ∀ c i a b d, Pres I (emitRep c i a b d)

attribute [aesop safe apply (rule_sets := [Pres])] LeafXRE.emitRep LeafYRE.setSlot LeafYRE.pushTop LeafYRE.finishTop LeafYRE.topAddCb
  LeafYRE.enqueue LeafYRE.dequeue LeafXRE.toLeafYRE

section
variable {I : State → Prop}

macro "presx" : tactic =>
  `(tactic| aesop (rule_sets := [Pres]) (config := { terminal := true, useDefaultSimpSet := false, useSimpAll := false, maxRuleApplications := 3000 }))

theorem runTopCb_presE (X : LeafXRE I) (v : Val) (cb : TopCb) : Pres I (runTopCb v cb) := by
  have L := X.toLeafRE
  have LW := L.toLeafWE
  have hsr := sendReply_presE L X.emitRep
  cases cb <;> simp only [runTopCb] <;> presx

theorem newTop_presE (X : LeafYRE I) (cbs : List TopCb) : Pres I (newTop cbs) := by
  have L := X.toLeafRE
  have LW := L.toLeafWE
  unfold newTop; presx

theorem deliverCbs_presE (X : LeafYRE I) (armed : Bool) (v : Val) (cbs : List TopCb) : Pres I (deliverCbs armed v cbs) := by
  have L := X.toLeafRE
  have LW := L.toLeafWE
  have h : Pres I (runTopCb v TopCb.release) := by simp only [runTopCb]; exact X.setSlot _
  induction cbs with
  | nil => unfold deliverCbs; presx
  | cons cb rest ih =>
    unfold deliverCbs
    aesop (add safe apply h, safe apply ih) (rule_sets := [Pres])
      (config := { terminal := true, useDefaultSimpSet := false, useSimpAll := false, maxRuleApplications := 3000 })

theorem deliverTop_presE (X : LeafYRE I) (tid : Nat) (v : Val) : Pres I (deliverTop tid v) := by
  have L := X.toLeafRE
  have LW := L.toLeafWE
  have h := deliverCbs_presE X
  unfold deliverTop
  aesop (add safe apply h) (rule_sets := [Pres]) (config := { terminal := true, useDefaultSimpSet := false, useSimpAll := false, maxRuleApplications := 3000 })

theorem addDoneCallback_presE (X : LeafYRE I) (tid : Nat) (cb : TopCb) : Pres I (addDoneCallback tid cb) := by
  have L := X.toLeafRE
  have LW := L.toLeafWE
  unfold addDoneCallback; presx

theorem syncCoroutine_presxE (X : LeafYRE I) (he : ∀ n t, Pres I (exec n t)) (name : String) (c : Call) (extra : List TopCb) :
    Pres I (syncCoroutine name c extra) := by
  have L := X.toLeafRE
  have LW := L.toLeafWE
  have h := newTop_presE X
  unfold syncCoroutine
  aesop (add safe apply h, safe apply he) (rule_sets := [Pres]) (config := { terminal := true, useDefaultSimpSet := false, useSimpAll := false, maxRuleApplications := 3000 })

theorem syncPlain_presxE (X : LeafYRE I) {α : Type} (name : String) (body : M (R α)) (hb : Pres I body) :
    Pres I (syncPlain name body) := by
  have L := X.toLeafRE
  have LW := L.toLeafWE
  unfold syncPlain
  aesop (add safe apply hb) (rule_sets := [Pres]) (config := { terminal := true, useDefaultSimpSet := false, useSimpAll := false, maxRuleApplications := 3000 })

theorem setOpt_presE (L : LeafRE I) (u : Nat) (k : String) (v : JVal) : Pres I (setOpt u k v) := by
  have LW := L.toLeafWE
  unfold setOpt; presx

theorem setOptBody_presE (L : LeafRE I) (u : Nat) (k : String) (v : JVal) (b : Bool) : Pres I (setOptBody u k v b) := by
  have LW := L.toLeafWE
  have h := setOpt_presE L
  unfold setOptBody
  aesop (add safe apply h) (rule_sets := [Pres]) (config := { terminal := true, useDefaultSimpSet := false, useSimpAll := false, maxRuleApplications := 3000 })

/-- the option values of `add` never touch the (empty) process list of the watcher being built -/
theorem applyAddOptions_pids (l : List (String × JVal)) :
    ∀ (w w2 : Watcher), applyAddOptions w l = some w2 → w2.pids = w.pids := by
  induction l with
  | nil => intro w w2 h; simp only [applyAddOptions, Option.some.injEq] at h; rw [← h]
  | cons kv rest ih =>
    intro w w2 h
    obtain ⟨k, v⟩ := kv
    simp only [applyAddOptions] at h
    split at h
    · rename_i w1 hw1
      have := ih w1 w2 h
      rw [this]
      split at hw1 <;> (try split at hw1) <;>
        first
        | (simp only [Option.some.injEq] at hw1; rw [← hw1])
        | (simp only [Option.map_eq_some_iff] at hw1; obtain ⟨n, _, hn⟩ := hw1; rw [← hn])
    · exact absurd h (by simp)

theorem addCore_presE (L : LeafRE I) (p : JVal) : Pres I (addCore p) := by
  have LW := L.toLeafWE
  unfold addCore
  split <;> dsimp only <;> split
  all_goals first
    | (rename_i name _
       apply Pres.ite
       · presx
       · split
         · presx
         · rename_i w hw
           have hp : w.pids = [] := applyAddOptions_pids _ _ _ hw
           have hr := L.registerNew w hp
           aesop (add safe apply hr) (rule_sets := [Pres]) (config := { terminal := true, useDefaultSimpSet := false, useSimpAll := false, maxRuleApplications := 3000 }))
    | presx

theorem runReady1_presE (X : LeafXRE I) (rec : Rec) (hrec : ∀ t, Pres I (rec t)) (hq : Pres I sigQuit)
    (hsc : Pres I stopController) (r : Ready) :
    Pres I (runReady1 rec r) := by
  have L := X.toLeafRE
  have LW := L.toLeafWE
  have h := runTopCb_presE X
  cases r <;> simp only [runReady1] <;>
  aesop (add safe apply h, safe apply hrec, safe apply hq, safe apply hsc) (rule_sets := [Pres])
    (config := { terminal := true, useDefaultSimpSet := false, useSimpAll := false, maxRuleApplications := 3000 })

theorem settleStep_presE (X : LeafXRE I) (he : ∀ n t, Pres I (exec n t)) (hq : Pres I sigQuit)
    (hsc : Pres I stopController) :
    Pres I settleStep := by
  have L := X.toLeafRE
  have LW := L.toLeafWE
  have h := runReady1_presE X (exec 100000) (he 100000) hq hsc
  unfold settleStep
  aesop (add safe apply h) (rule_sets := [Pres]) (config := { terminal := true, useDefaultSimpSet := false, useSimpAll := false, maxRuleApplications := 3000 })

/-- slot-insensitive invariants: writer lemmas plus the three guarded places are enough (everything
    up to, but not including, the reply path and the event loop) -/
theorem SpecCoreRE.ofLeafYRE (X : LeafYRE I)
    (hsp : ∀ rec, (∀ t, Pres I (rec t)) → ∀ u, Pres I (Circus.Core.spawnProcess rec u))
    (hst : ∀ u, Pres I (Circus.Core.stopCore u)) (hgs : ∀ u, Pres I (Circus.Core.guardedStop u)) : SpecCoreRE I where
  toLeafRE := X.toLeafRE
  deliverTop := deliverTop_presE X
  newTopNR := fun cbs _ => newTop_presE X cbs
  addDone := fun tid cb _ => addDoneCallback_presE X tid cb
  syncCo := fun he name c => syncCoroutine_presxE X he name c []
  syncSetOpt := fun u k v b => syncPlain_presxE X _ _ (setOptBody_presE X.toLeafRE u k v b)
  syncAdd := fun p => syncPlain_presxE X _ _ (addCore_presE X.toLeafRE p)
  spawnProcess := hsp
  stopCore := hst
  guardedStop := hgs

theorem SpecMRE.ofLeafXRE (X : LeafXRE I)
    (hsp : ∀ rec, (∀ t, Pres I (rec t)) → ∀ u, Pres I (Circus.Core.spawnProcess rec u))
    (hst : ∀ u, Pres I (Circus.Core.stopCore u)) (hgs : ∀ u, Pres I (Circus.Core.guardedStop u)) : SpecMRE I where
  toSpecCoreRE := SpecCoreRE.ofLeafYRE X.toLeafYRE hsp hst hgs
  emitRep := X.emitRep

theorem SpecRE.ofLeafXRE (X : LeafXRE I)
    (hsp : ∀ rec, (∀ t, Pres I (rec t)) → ∀ u, Pres I (Circus.Core.spawnProcess rec u))
    (hst : ∀ u, Pres I (Circus.Core.stopCore u)) (hgs : ∀ u, Pres I (Circus.Core.guardedStop u))
    (hsc : Pres I Circus.Core.stopController) : SpecRE I where
  toSpecMRE := SpecMRE.ofLeafXRE X hsp hst hgs
  settleStep := fun he hq => settleStep_presE X he hq hsc
  stopController := hsc

/-! ### the `R` chain -/

theorem LeafYR.toLeafYRE (X : LeafYR I) : LeafYRE I where
  toLeafRE := X.toLeafR.toLeafRE
  setSlot := X.setSlot
  pushTop := X.pushTop
  finishTop := X.finishTop
  topAddCb := X.topAddCb
  enqueue := X.enqueue
  dequeue := X.dequeue

theorem LeafXR.toLeafXRE (X : LeafXR I) : LeafXRE I where
  toLeafYRE := X.toLeafYR.toLeafYRE
  emitRep := X.emitRep

theorem runTopCb_presR (X : LeafXR I) (v : Val) (cb : TopCb) : Pres I (runTopCb v cb) :=
  runTopCb_presE X.toLeafXRE v cb

theorem newTop_presR (X : LeafYR I) (cbs : List TopCb) : Pres I (newTop cbs) :=
  newTop_presE X.toLeafYRE cbs

theorem deliverCbs_presR (X : LeafYR I) (armed : Bool) (v : Val) (cbs : List TopCb) : Pres I (deliverCbs armed v cbs) :=
  deliverCbs_presE X.toLeafYRE armed v cbs

theorem deliverTop_presR (X : LeafYR I) (tid : Nat) (v : Val) : Pres I (deliverTop tid v) :=
  deliverTop_presE X.toLeafYRE tid v

theorem addDoneCallback_presR (X : LeafYR I) (tid : Nat) (cb : TopCb) : Pres I (addDoneCallback tid cb) :=
  addDoneCallback_presE X.toLeafYRE tid cb

theorem syncCoroutine_presxR (X : LeafYR I) (he : ∀ n t, Pres I (exec n t)) (name : String) (c : Call) (extra : List TopCb) :
    Pres I (syncCoroutine name c extra) :=
  syncCoroutine_presxE X.toLeafYRE he name c extra

theorem syncPlain_presxR (X : LeafYR I) {α : Type} (name : String) (body : M (R α)) (hb : Pres I body) :
    Pres I (syncPlain name body) :=
  syncPlain_presxE X.toLeafYRE name body hb

theorem setOpt_presR (L : LeafR I) (u : Nat) (k : String) (v : JVal) : Pres I (setOpt u k v) :=
  setOpt_presE L.toLeafRE u k v

theorem setOptBody_presR (L : LeafR I) (u : Nat) (k : String) (v : JVal) (b : Bool) : Pres I (setOptBody u k v b) :=
  setOptBody_presE L.toLeafRE u k v b

theorem addCore_presR (L : LeafR I) (p : JVal) : Pres I (addCore p) :=
  addCore_presE L.toLeafRE p

theorem runReady1_presR (X : LeafXR I) (rec : Rec) (hrec : ∀ t, Pres I (rec t)) (hq : Pres I sigQuit)
    (hsc : Pres I stopController) (r : Ready) :
    Pres I (runReady1 rec r) :=
  runReady1_presE X.toLeafXRE rec hrec hq hsc r

theorem settleStep_presR (X : LeafXR I) (he : ∀ n t, Pres I (exec n t)) (hq : Pres I sigQuit)
    (hsc : Pres I stopController) :
    Pres I settleStep :=
  settleStep_presE X.toLeafXRE he hq hsc

/-- slot-insensitive invariants: writer lemmas plus the three guarded places are enough (everything
    up to, but not including, the reply path and the event loop) -/
theorem SpecCoreR.ofLeafYR (X : LeafYR I)
    (hsp : ∀ rec, (∀ t, Pres I (rec t)) → ∀ u, Pres I (Circus.Core.spawnProcess rec u))
    (hst : ∀ u, Pres I (Circus.Core.stopCore u)) (hgs : ∀ u, Pres I (Circus.Core.guardedStop u)) : SpecCoreR I where
  toLeafR := X.toLeafR
  deliverTop := deliverTop_presR X
  newTopNR := fun cbs _ => newTop_presR X cbs
  addDone := fun tid cb _ => addDoneCallback_presR X tid cb
  syncCo := fun he name c => syncCoroutine_presxR X he name c []
  syncSetOpt := fun u k v b => syncPlain_presxR X _ _ (setOptBody_presR X.toLeafR u k v b)
  syncAdd := fun p => syncPlain_presxR X _ _ (addCore_presR X.toLeafR p)
  spawnProcess := hsp
  stopCore := hst
  guardedStop := hgs

theorem SpecMR.ofLeafXR (X : LeafXR I)
    (hsp : ∀ rec, (∀ t, Pres I (rec t)) → ∀ u, Pres I (Circus.Core.spawnProcess rec u))
    (hst : ∀ u, Pres I (Circus.Core.stopCore u)) (hgs : ∀ u, Pres I (Circus.Core.guardedStop u)) : SpecMR I where
  toSpecCoreR := SpecCoreR.ofLeafYR X.toLeafYR hsp hst hgs
  emitRep := X.emitRep

theorem SpecR.ofLeafXR (X : LeafXR I)
    (hsp : ∀ rec, (∀ t, Pres I (rec t)) → ∀ u, Pres I (Circus.Core.spawnProcess rec u))
    (hst : ∀ u, Pres I (Circus.Core.stopCore u)) (hgs : ∀ u, Pres I (Circus.Core.guardedStop u))
    (hsc : Pres I Circus.Core.stopController) : SpecR I where
  toSpecMR := SpecMR.ofLeafXR X hsp hst hgs
  settleStep := fun he hq => settleStep_presR X he hq hsc
  stopController := hsc

/-- … in particular when the status write and `spawnAdopt` are harmless anywhere -/
theorem SpecCoreR.ofWriters (X : LeafYR I) (hst : ∀ u, Pres I (setStatus u .stopped))
    (hsa : ∀ u w, Pres I (Circus.Core.spawnAdopt u w)) : SpecCoreR I :=
  SpecCoreR.ofLeafYR X (spawnProcess_of X.toLeafR hsa (fun cbs _ => newTop_presR X cbs))
    (stopCore_of X.toLeafW hst) (guardedStop_of hst)

theorem SpecMR.ofWriters (X : LeafXR I) (hst : ∀ u, Pres I (setStatus u .stopped))
    (hsa : ∀ u w, Pres I (Circus.Core.spawnAdopt u w)) : SpecMR I where
  toSpecCoreR := SpecCoreR.ofWriters X.toLeafYR hst hsa
  emitRep := X.emitRep

/-! ### the full structures -/

theorem LeafY.toLeafYR (X : LeafY I) : LeafYR I where
  toLeafR := X.toLeaf.toLeafR
  setSlot := X.setSlot
  pushTop := X.pushTop
  finishTop := X.finishTop
  topAddCb := X.topAddCb
  enqueue := X.enqueue
  dequeue := X.dequeue

theorem LeafX.toLeafXR (X : LeafX I) : LeafXR I where
  toLeafYR := X.toLeafY.toLeafYR
  emitRep := X.emitRep

theorem runTopCb_pres (X : LeafX I) (v : Val) (cb : TopCb) : Pres I (runTopCb v cb) :=
  runTopCb_presR X.toLeafXR v cb

theorem newTop_pres (X : LeafY I) (cbs : List TopCb) : Pres I (newTop cbs) :=
  newTop_presR X.toLeafYR cbs

theorem deliverCbs_pres (X : LeafY I) (armed : Bool) (v : Val) (cbs : List TopCb) : Pres I (deliverCbs armed v cbs) :=
  deliverCbs_presR X.toLeafYR armed v cbs

theorem deliverTop_pres (X : LeafY I) (tid : Nat) (v : Val) : Pres I (deliverTop tid v) :=
  deliverTop_presR X.toLeafYR tid v

theorem addDoneCallback_pres (X : LeafY I) (tid : Nat) (cb : TopCb) : Pres I (addDoneCallback tid cb) :=
  addDoneCallback_presR X.toLeafYR tid cb

theorem syncCoroutine_presx (X : LeafY I) (he : ∀ n t, Pres I (exec n t)) (name : String) (c : Call) (extra : List TopCb) :
    Pres I (syncCoroutine name c extra) :=
  syncCoroutine_presxR X.toLeafYR he name c extra

theorem syncPlain_presx (X : LeafY I) {α : Type} (name : String) (body : M (R α)) (hb : Pres I body) :
    Pres I (syncPlain name body) :=
  syncPlain_presxR X.toLeafYR name body hb

theorem setOpt_pres (L : Leaf I) (u : Nat) (k : String) (v : JVal) : Pres I (setOpt u k v) :=
  setOpt_presR L.toLeafR u k v

theorem setOptBody_pres (L : Leaf I) (u : Nat) (k : String) (v : JVal) (b : Bool) : Pres I (setOptBody u k v b) :=
  setOptBody_presR L.toLeafR u k v b

theorem addCore_pres (L : Leaf I) (p : JVal) : Pres I (addCore p) :=
  addCore_presR L.toLeafR p

theorem runReady1_pres (X : LeafX I) (rec : Rec) (hrec : ∀ t, Pres I (rec t)) (hq : Pres I sigQuit) (r : Ready) :
    Pres I (runReady1 rec r) :=
  runReady1_presR X.toLeafXR rec hrec hq (stopController_pres X.toLeaf) r

theorem settleStep_pres (X : LeafX I) (he : ∀ n t, Pres I (exec n t)) (hq : Pres I sigQuit) :
    Pres I settleStep :=
  settleStep_presR X.toLeafXR he hq (stopController_pres X.toLeaf)

theorem SpecCore.ofLeafY (X : LeafY I) : SpecCore I where
  toLeaf := X.toLeaf
  deliverTop := deliverTop_pres X
  newTopNR := fun cbs _ => newTop_pres X cbs
  addDone := fun tid cb _ => addDoneCallback_pres X tid cb
  syncCo := fun he name c => syncCoroutine_presx X he name c []
  syncSetOpt := fun u k v b => syncPlain_presx X _ _ (setOptBody_pres X.toLeaf u k v b)
  syncAdd := fun p => syncPlain_presx X _ _ (addCore_pres X.toLeaf p)

theorem Spec.ofLeafX (X : LeafX I) : Spec I where
  toSpecCore := SpecCore.ofLeafY X.toLeafY
  emitRep := X.emitRep
  settleStep := fun he hq => settleStep_pres X he hq

end
end Circus.Core
